(* Executable model of the hash layer: merklehash::data_hash (keyed hashes, hex, base64, HashedWrite)
   and merkledb's aggregation (hash-consing MerkleMemDB, merge_one_level, merge, cas_node_hash,
   file_node_hash, the validator path add_file+finalize) and mdb_shard::chunk_verification.
   The interior hash function is a parameter [Hint] so that theorems can be stated for any function;
   the executable instance is the Gallina BLAKE3.  No proofs here. *)
From Coq Require Import NArith Bool List.
From Coq Require Decimal DecimalN.
Import ListNotations.
From XetModel Require Import Gen.HashConsts Model.Blake3.
Open Scope N_scope.

Definition hash := list N.          (* 32 bytes *)
Definition zero_hash : hash := repeat 0 32%nat.

Definition compute_data_hash (data : list N) : hash := keyed_hash DATA_KEY data.
Definition compute_internal_node_hash (data : list N) : hash := keyed_hash INTERNAL_NODE_HASH data.
Definition hmac (h key : hash) : hash := keyed_hash key h.
Definition with_salt (h salt : hash) : hash := keyed_hash salt h.
Definition range_hash_from_chunks (hs : list hash) : hash := keyed_hash VERIFICATION_KEY (concat hs).

(* ---- text forms ---- *)
Definition hexdigit (d : N) : N := if d <? 10 then 48 + d else 87 + d.     (* '0'.. / 'a'.. *)
Definition hex_byte (b : N) : list N := [hexdigit (b / 16); hexdigit (b mod 16)].
(* {:016x} of each little-endian u64 word = its 8 bytes, most significant first *)
Fixpoint hex_words (fuel : nat) (h : list N) : list N :=
  match fuel with
  | O => []
  | S f => flat_map hex_byte (rev (firstn 8 h)) ++ hex_words f (skipn 8 h)
  end.
Definition hex (h : hash) : list N := hex_words 4 h.

Definition unhexdigit (c : N) : option N :=
  if (48 <=? c) && (c <=? 57) then Some (c - 48)
  else if (97 <=? c) && (c <=? 102) then Some (c - 87)
  else if (65 <=? c) && (c <=? 70) then Some (c - 55)
  else None.
Fixpoint unhex_bytes (s : list N) : option (list N) :=
  match s with
  | [] => Some []
  | [_] => None
  | a :: b :: r =>
      match unhexdigit a, unhexdigit b, unhex_bytes r with
      | Some x, Some y, Some rest => Some ((16 * x + y) :: rest)
      | _, _, _ => None
      end
  end.
Fixpoint unhex_words (fuel : nat) (bs : list N) : list N :=
  match fuel with
  | O => []
  | S f => rev (firstn 8 bs) ++ unhex_words f (skipn 8 bs)
  end.
Definition from_hex (s : list N) : option hash :=
  if negb (N.of_nat (length s) =? 64) then None
  else match unhex_bytes s with
       | Some bs => Some (unhex_words 4 bs)
       | None => None
       end.

(* URL-safe base64 without padding *)
Definition b64char (v : N) : N :=
  if v <? 26 then 65 + v else if v <? 52 then 97 + (v - 26) else if v <? 62 then 48 + (v - 52) else if v =? 62 then 45 else 95.
Fixpoint b64enc (fuel : nat) (bs : list N) : list N :=
  match fuel with
  | O => []
  | S f =>
      match bs with
      | [] => []
      | [a] => [b64char (a / 4); b64char ((a mod 4) * 16)]
      | [a; b] => [b64char (a / 4); b64char ((a mod 4) * 16 + b / 16); b64char ((b mod 16) * 4)]
      | a :: b :: c :: r =>
          b64char (a / 4) :: b64char ((a mod 4) * 16 + b / 16) :: b64char ((b mod 16) * 4 + c / 64) :: b64char (c mod 64) :: b64enc f r
      end
  end.
Definition base64 (h : hash) : list N := b64enc 12 h.

Definition b64val (c : N) : option N :=
  if (65 <=? c) && (c <=? 90) then Some (c - 65)
  else if (97 <=? c) && (c <=? 122) then Some (c - 97 + 26)
  else if (48 <=? c) && (c <=? 57) then Some (c - 48 + 52)
  else if c =? 45 then Some 62 else if c =? 95 then Some 63 else None.
Fixpoint b64dec (fuel : nat) (s : list N) : option (list N) :=
  match fuel with
  | O => None
  | S f =>
      match s with
      | [] => Some []
      | [_] => None
      | [a; b] =>
          match b64val a, b64val b with
          | Some x, Some y => if y mod 16 =? 0 then Some [x * 4 + y / 16] else None
          | _, _ => None
          end
      | [a; b; c] =>
          match b64val a, b64val b, b64val c with
          | Some x, Some y, Some z => if z mod 4 =? 0 then Some [x * 4 + y / 16; (y mod 16) * 16 + z / 4] else None
          | _, _, _ => None
          end
      | a :: b :: c :: d :: r =>
          match b64val a, b64val b, b64val c, b64val d, b64dec f r with
          | Some x, Some y, Some z, Some w, Some rest =>
              Some ((x * 4 + y / 16) :: ((y mod 16) * 16 + z / 4) :: ((z mod 4) * 64 + w) :: rest)
          | _, _, _, _, _ => None
          end
      end
  end.
Definition from_base64 (s : list N) : option hash :=
  match b64dec (S (length s)) s with
  | Some bs => if N.of_nat (length bs) =? 32 then Some bs else None
  | None => None
  end.

(* ---- decimal printing of a length ---- *)
Fixpoint uint_digits (u : Decimal.uint) : list N :=
  match u with
  | Decimal.Nil => []
  | Decimal.D0 r => 48 :: uint_digits r | Decimal.D1 r => 49 :: uint_digits r | Decimal.D2 r => 50 :: uint_digits r
  | Decimal.D3 r => 51 :: uint_digits r | Decimal.D4 r => 52 :: uint_digits r | Decimal.D5 r => 53 :: uint_digits r
  | Decimal.D6 r => 54 :: uint_digits r | Decimal.D7 r => 55 :: uint_digits r | Decimal.D8 r => 56 :: uint_digits r
  | Decimal.D9 r => 57 :: uint_digits r
  end.
Definition dec (n : N) : list N := uint_digits (N.to_uint n).

(* ---- aggregation ---- *)
Definition node := (hash * N)%type.
Definition child_text (nd : node) : list N := hex (fst nd) ++ [32; 58; 32] ++ dec (snd nd) ++ [10].
Definition children_text (ch : list node) : list N := flat_map child_text ch.

Definition le64 (bs : list N) : N := fold_right (fun b acc => b + 256 * acc) 0 bs.
Definition word3 (h : hash) : N := le64 (firstn 8 (skipn 24 h)).
Definition hkey (h : hash) : N := le64 h.

(* MerkleMemDB as far as hashes are concerned: hash -> length of the first node stored under it *)
Definition db := list (N * N).
Definition db0 : db := [(0, 0)].
Fixpoint db_find (d : db) (k : N) : option N :=
  match d with
  | [] => None
  | (k', l) :: r => if k =? k' then Some l else db_find r k
  end.
Definition add_node (d : db) (h : hash) (len : N) : db * node :=
  match db_find d (hkey h) with
  | Some l => (d, (h, l))
  | None => ((hkey h, len) :: d, (h, len))
  end.

Section WithHint.
  Variable Hint : list N -> hash.

  (* merge_one_level: cur = children of the open window (reversed), idx = index of the head of nodes *)
  Fixpoint mol (d : db) (cur : list node) (curlen : N) (idx total : N) (nodes : list node) (parents : list node)
    : db * list node :=
    match nodes with
    | [] => (d, rev parents)
    | nd :: rest =>
        let curlen' := curlen + snd nd in
        if merkle_cut (N.of_nat (length cur)) (word3 (fst nd)) idx total then
          let '(d', p) := add_node d (Hint (children_text (rev (nd :: cur)))) curlen' in
          mol d' [] 0 (idx + 1) total rest (p :: parents)
        else mol d (nd :: cur) curlen' (idx + 1) total rest parents
    end.
  Definition merge_one_level (d : db) (nodes : list node) : db * list node :=
    mol d [] 0 0 (N.of_nat (length nodes)) nodes [].

  (* merge: while nodes.len() > 1; fuel = number of nodes *)
  Fixpoint merge_loop (fuel : nat) (d : db) (nodes : list node) : option (db * node) :=
    match nodes with
    | [] => None                      (* assert!(!nodes.is_empty()) *)
    | [r] => Some (d, r)
    | _ =>
        match fuel with
        | O => None
        | S f => let '(d', ps) := merge_one_level d nodes in merge_loop f d' ps
        end
    end.
  Definition merge (d : db) (nodes : list node) : option (db * node) := merge_loop (length nodes) d nodes.

  Fixpoint add_nodes (d : db) (chunks : list node) : db * list node :=
    match chunks with
    | [] => (d, [])
    | (h, l) :: r => let '(d1, n) := add_node d h l in let '(d2, ns) := add_nodes d1 r in (d2, n :: ns)
    end.

  (* aggregate_hashes::cas_node_hash *)
  Definition cas_node_hash (chunks : list node) : option hash :=
    match chunks with
    | [] => Some zero_hash
    | _ => let '(d, ns) := add_nodes db0 chunks in
           match merge d ns with Some (_, r) => Some (fst r) | None => None end
    end.

  (* the validators' path: MerkleMemDB::default, add_file (file root first, CAS staging afterwards), finalize
     (sort of the single file root, build_cas_nodes(flush), merge of [file_root]) *)
  Definition validator_root (chunks : list node) : option hash :=
    match chunks with
    | [] => Some zero_hash
    | _ =>
        let '(d, ns) := add_nodes db0 chunks in
        match merge d ns with
        | None => None
        | Some (d1, file_root) =>
            (* build_cas_nodes: the nodes without CAS entry (unique ids) are merged into CAS roots;
               this only adds nodes to the database *)
            let d2 := match merge d1 ns with Some (d', _) => d' | None => d1 end in
            match merge d2 [file_root] with Some (_, r) => Some (fst r) | None => None end
        end
    end.

  Definition file_root_hash (chunks : list node) : option hash := cas_node_hash chunks.
End WithHint.

(* aggregate_hashes::file_node_hash with the real interior hash *)
Definition file_node_hash (chunks : list node) (salt : hash) : option hash :=
  match chunks with
  | [] => Some zero_hash
  | _ => match cas_node_hash compute_internal_node_hash chunks with
         | Some r => Some (with_salt r salt)
         | None => None
         end
  end.

(* ---- HashedWrite over an arbitrary inner writer ----
   The writer is scripted: for each write call, how many bytes it accepts (None = error). *)
Fixpoint hashed_write (hash_whole : bool) (calls : list (list N * option N)) (hashed accepted : list N) : list N * list N :=
  match calls with
  | [] => (hashed, accepted)
  | (buf, r) :: rest =>
      match r with
      | None => if hash_whole then hashed_write hash_whole rest (hashed ++ buf) accepted
                else hashed_write hash_whole rest hashed accepted
      | Some n =>
          let taken := firstn (N.to_nat n) buf in
          hashed_write hash_whole rest (hashed ++ (if hash_whole then buf else taken)) (accepted ++ taken)
      end
  end.
