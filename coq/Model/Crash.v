(* File-system effects of the write paths (C19): SafeFileCreator, shard flush, shard consolidation, local xorb put and
   chunk-cache put as lists of atomic effects on one directory; a crash is a prefix of the list (completed system calls
   persist).  Files are only ever created under a temporary name, filled by appends, and renamed to their final name;
   inputs of a consolidation are unlinked after the merged shard has its final name. *)
From Coq Require Import List NArith Bool Arith.
From XetModel Require Import Base.Codec Gen.ShardLayout Model.Merkle Model.Shard.
Import ListNotations.
Open Scope N_scope.

Definition fname := list N.
Inductive eff :=
| ECreate (p : fname)                 (* open(O_CREAT|O_TRUNC) *)
| EAppend (p : fname) (d : list N)    (* write *)
| ERename (p q : fname)
| EUnlink (p : fname).

Definition fsd := list (fname * list N).

Fixpoint name_eqb (a b : fname) : bool :=
  match a, b with
  | [], [] => true
  | x :: r, y :: s => (x =? y) && name_eqb r s
  | _, _ => false
  end.
Fixpoint flookup (f : fsd) (p : fname) : option (list N) :=
  match f with [] => None | (q, c) :: r => if name_eqb p q then Some c else flookup r p end.
Definition fremove (f : fsd) (p : fname) : fsd := filter (fun e => negb (name_eqb p (fst e))) f.

Definition apply_eff (f : fsd) (e : eff) : fsd :=
  match e with
  | ECreate p => (p, []) :: fremove f p
  | EAppend p d => match flookup f p with Some c => (p, c ++ d) :: fremove f p | None => f end
  | ERename p q => match flookup f p with Some c => (q, c) :: fremove (fremove f p) q | None => f end
  | EUnlink p => fremove f p
  end.
Definition apply_effs (f : fsd) (es : list eff) : fsd := fold_left apply_eff es f.

(* temp name, final name, the content in any chunking *)
Definition write_file (tmp dest : fname) (chunks : list (list N)) : list eff :=
  ECreate tmp :: map (EAppend tmp) chunks ++ [ERename tmp dest].

(* a plan: writes and unlinks in program order *)
Inductive pstep :=
| PWrite (tmp dest : fname) (chunks : list (list N))
| PUnlink (p : fname).
Definition pstep_effs (s : pstep) : list eff :=
  match s with PWrite t d ch => write_file t d ch | PUnlink p => [EUnlink p] end.
Definition plan_effs (pl : list pstep) : list eff := flat_map pstep_effs pl.

(* ---- shard names ---- *)
Definition is_hex_digit (c : N) : bool := ((48 <=? c) && (c <=? 57)) || ((97 <=? c) && (c <=? 102)) || ((65 <=? c) && (c <=? 70)).
Definition MDB_SUFFIX : list N := [46; 109; 100; 98].                         (* ".mdb" *)
(* MERKLE_DB_FILE_PATTERN: ^[0-9a-fA-F]{64}\.mdb$ *)
Definition is_shard_final (n : fname) : bool :=
  Nat.eqb (length n) 68 && forallb is_hex_digit (firstn 64 n) && name_eqb (skipn 64 n) MDB_SUFFIX.
Definition shard_name (content : list N) : fname := hex (compute_data_hash content) ++ MDB_SUFFIX.
(* temp_shard_file_name: ".<uuid>.mdb_temp" *)
Definition temp_shard_name (uuid : list N) : fname := 46 :: uuid ++ [46; 109; 100; 98; 95; 116; 101; 109; 112].

(* ---- consolidation (consolidate_shards_in_directory) ---- *)
Definition shard_num_bytes (content : list N) : N := N.of_nat (length content).
Definition merge_bytes (a b : list N) : option (list N) :=
  match load_footer a, load_footer b with
  | Some fa, Some fb =>
      match read_all_files a fa, read_all_cas a fa, read_all_files b fb, read_all_cas b fb with
      | Some f1, Some c1, Some f2, Some c2 => Some (disk_union f1 f2 c1 c2)
      | _, _, _, _ => None
      end
  | _, _ => None
  end.

(* how far the group starting with size [cur] extends: the shards taken, and the rest *)
Fixpoint take_group (target cur : N) (rest : list (fname * list N)) : list (fname * list N) * list (fname * list N) :=
  match rest with
  | [] => ([], [])
  | (n, c) :: r =>
      if target <=? shard_num_bytes c + cur then ([], rest)
      else let '(g, r') := take_group target (cur + shard_num_bytes c) r in ((n, c) :: g, r')
  end.

Fixpoint merge_all (acc : list N) (g : list (fname * list N)) : option (list N) :=
  match g with
  | [] => Some acc
  | (_, c) :: r => match merge_bytes acc c with Some m => merge_all m r | None => None end
  end.

(* the plan, given a fresh temp name for each merged shard; None if a merge fails (out of the model: I/O or parse error) *)
Fixpoint consolidate (fuel : nat) (target : N) (shards : list (fname * list N)) (temps : list fname) (finished : list fname)
  : option (list pstep * list fname) :=
  match fuel with
  | O => None
  | S f =>
      match shards with
      | [] => Some ([], finished)
      | (n, c) :: rest =>
          let '(g, rest') := take_group target (shard_num_bytes c) rest in
          match g with
          | [] =>
              match consolidate f target rest' temps (finished ++ [n]) with
              | Some (pl, fin) => Some (pl, fin)
              | None => None
              end
          | _ =>
              match merge_all c g, temps with
              | Some m, t :: temps' =>
                  let mname := shard_name m in
                  let fin1 := finished ++ [mname] in
                  let dels := filter (fun x => negb (existsb (name_eqb x) fin1)) (n :: map fst g) in
                  match consolidate f target rest' temps' fin1 with
                  | Some (pl, fin) => Some (PWrite t mname [m] :: map PUnlink dels ++ pl, fin)
                  | None => None
                  end
              | _, _ => None
              end
          end
      end
  end.
