(* File reconstruction in cas_client::remote_client (C17): trimming a fetched chunk range to a term, the sequential
   writer and the parallel writer, as functions of the term data.  Index arithmetic that panics or wraps in the code
   (slice bounds, usize subtraction) is an explicit error here. *)
From Coq Require Import List NArith Bool Arith.
From XetModel Require Import Model.Cache.
Import ListNotations.
Open Scope N_scope.

(* byte offsets of the chunk boundaries of a fetched range (chunk_byte_indices) *)
Fixpoint boundaries (a : N) (chs : list bytes) : list N :=
  a :: match chs with [] => [] | c :: r => boundaries (a + lenN c) r end.

(* get_one_term after the download: the fetched range [fs, fs + |fetched|) trimmed to the term's range [ts, te) *)
Definition trim_term (fetched : list bytes) (fs ts te : N) (unpacked_length : N) : option bytes :=
  let data := concat fetched in
  let idx := boundaries 0 fetched in
  let out :=
    if (ts =? fs) && (te =? fs + lenN fetched) then Some data
    else
      match nthN idx (ts - fs), nthN idx (te - fs) with
      | Some sb, Some eb => Some (dropN (takeN data eb) sb)
      | _, _ => None                                             (* index out of bounds: a panic *)
      end in
  match out with
  | Some d => if lenN d =? unpacked_length then Some d else None   (* length check: an error *)
  | None => None
  end.

(* get_one_term as a whole: an inverted range is an error; a cache hit for exactly the term's range is returned as it is;
   otherwise the first fetch-info entry of the xorb that covers the term is downloaded ([download fs fe]: the chunks of the
   range, decompressed) and trimmed.  No covering entry: "invalid response from CAS server". *)
Definition pick_fetch (infos : list (N * N)) (ts te : N) : option (N * N) :=
  find (fun r => (fst r <=? ts) && (te <=? snd r)) infos.
Definition get_one_term (cached : option bytes) (infos : list (N * N)) (download : N -> N -> list bytes) (ts te unpacked_length : N) : option bytes :=
  if te <? ts then None
  else match cached with
       | Some d => Some d
       | None => match pick_fetch infos ts te with
                 | None => None
                 | Some (fs, fe) => trim_term (download fs fe) fs ts te unpacked_length
                 end
       end.

(* reconstruct_file_to_writer: terms in order, the first one entered at [off], at most [remaining] bytes in all.
   None: `term_data[start..end]` with start > end or start > len (a panic) *)
Fixpoint seq_write (terms : list bytes) (first : bool) (off : N) (remaining : N) : option bytes :=
  match terms with
  | [] => Some []
  | t :: r =>
      let start := if first then off else 0 in
      let e := N.min (remaining + start) (lenN t) in
      if e <? start then None
      else
        match seq_write r false off (remaining - (e - start)) with
        | Some rest => Some (takeN (dropN t start) (e - start) ++ rest)
        | None => None
        end
  end.

(* reconstruct_file_to_writer_parallel: the pieces are planned from the declared term lengths; each task then slices
   its own term data and writes at its file offset *)
Fixpoint par_plan (lens : list N) (first : bool) (off : N) (remaining written : N) : option (list (N * N * N)) :=   (* start, end, file offset *)
  match lens with
  | [] => Some []
  | l :: r =>
      let start := if first then off else 0 in
      let e := N.min (start + remaining) l in
      if e <? start then None                                      (* usize underflow *)
      else
        match par_plan r false off (remaining - (e - start)) (written + (e - start)) with
        | Some rest => Some ((start, e, written) :: rest)
        | None => None
        end
  end.

(* a positioned write into a file (extending it with zeros when it starts past the end) *)
Definition write_at (file : bytes) (pos : N) (data : bytes) : bytes :=
  let pad := repeat 0 (N.to_nat (pos - lenN file)) in
  let base := file ++ pad in
  takeN base pos ++ data ++ dropN base (pos + lenN data).

(* the tasks complete in the order given by [order] (a permutation of the term indices) *)
Fixpoint par_apply (file : bytes) (tasks : list (bytes * (N * N * N))) : option bytes :=
  match tasks with
  | [] => Some file
  | (t, (s, e, fo)) :: r =>
      if lenN t <? e then None                                     (* "term range received invalid" *)
      else par_apply (write_at file fo (takeN (dropN t s) (e - s))) r
  end.

Definition par_write (terms : list bytes) (lens : list N) (off total : N) (order : list nat) : option (bytes * N) :=
  match par_plan lens true off total 0 with
  | None => None
  | Some plan =>
      let tasks := combine terms plan in
      let ordered := flat_map (fun i => match nth_error tasks i with Some x => [x] | None => [] end) order in
      match par_apply [] ordered with
      | Some f => Some (f, fold_right (fun p a => (snd (fst p) - fst (fst p)) + a) 0 plan)
      | None => None
      end
  end.
