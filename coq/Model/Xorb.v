(* Executable model of cas_object: chunk header + chunk (de)serialisation with the incompressible fallback,
   byte grouping (bg4) with explicit index arithmetic, the V1 footer, CasObject::{serialize,deserialize,
   get_all_bytes,get_bytes_by_chunk_range,uncompressed_range_length}, both validators and the
   boundaries-only footer parser.  LZ4 is a parameter (lz4c/lz4d) and so is the automatic scheme choice.
   No proofs here. *)
From Coq Require Import NArith Bool List.
Import ListNotations.
From XetModel Require Import Base.Codec Gen.HashConsts Gen.XorbLayout Model.Merkle Model.Shard.
Open Scope N_scope.

Inductive res (A : Type) := ROk (a : A) | RReject | RErr | RPanic.
Arguments ROk {A} _. Arguments RReject {A}. Arguments RErr {A}. Arguments RPanic {A}.

Definition take (n : nat) (bs : list N) : option (list N * list N) :=
  if has n bs then Some (firstn n bs, skipn n bs) else None.

(* ---- byte grouping ---- *)
(* group g (0..3) of data: the bytes at positions 4i+g *)
Fixpoint bg4_group (g : nat) (data : list N) : list N :=
  match data with
  | [] => []
  | b :: r => match g with O => b :: bg4_group 3 r | S g' => bg4_group g' r end
  end.
Definition bg4_split (data : list N) : list N :=
  bg4_group 0 data ++ bg4_group 0 (skipn 1 data) ++ bg4_group 0 (skipn 2 data) ++ bg4_group 0 (skipn 3 data).

(* the pointer arithmetic of bg4_split_together / bg4_regroup_together as (group offset, index) pairs:
   group starts d0=0, d1=split+min(1,rem), d2=d1+split+min(1,rem-1), d3=d2+split+min(1,rem-2) *)
Definition bg4_offsets (n : nat) : nat * nat * nat * nat :=
  let split := Nat.div n 4 in
  let rem := Nat.modulo n 4 in
  let d1 := (split + Nat.min 1 rem)%nat in
  let d2 := (d1 + split + Nat.min 1 (rem - 1))%nat in
  let d3 := (d2 + split + Nat.min 1 (rem - 2))%nat in
  (0%nat, d1, d2, d3).
(* position in the grouped buffer of source byte j (the index the unsafe code writes/reads) *)
Definition bg4_index (n j : nat) : nat :=
  let '(d0, d1, d2, d3) := bg4_offsets n in
  let i := Nat.div j 4 in
  match Nat.modulo j 4 with
  | 0%nat => (d0 + i)%nat
  | 1%nat => (d1 + i)%nat
  | 2%nat => (d2 + i)%nat
  | _ => (d3 + i)%nat
  end.
(* regroup: output byte j = grouped[bg4_index n j] *)
Definition bg4_regroup (g : list N) : list N :=
  let n := length g in
  map (fun j => nth (bg4_index n j) g 0) (seq 0 n).

(* ---- chunk header ---- *)
Record chdr := mkHdr { h_version : N; h_clen : N; h_scheme : N; h_ulen : N }.
Definition enc_chdr (h : chdr) : list N :=
  [h_version h] ++ le_bytes 3 (h_clen h) ++ [h_scheme h] ++ le_bytes 3 (h_ulen h).
Definition scheme_ok (s : N) : bool := s <=? MAX_SCHEME.
(* parse_chunk_header + validate *)
Definition dec_chdr (b : list N) : res chdr :=
  match b with
  | [v; c0; c1; c2; s; u0; u1; u2] =>
      let h := mkHdr v (le_val [c0; c1; c2]) s (le_val [u0; u1; u2]) in
      if negb (scheme_ok s) then RReject
      else if CHUNK_CURRENT_VERSION <? v then RReject
      else if MAXIMUM_CHUNK_SIZE * 2 <? h_clen h then RReject
      else if MAXIMUM_CHUNK_SIZE <? h_ulen h then RReject
      else ROk h
  | _ => RErr
  end.

Section WithLz4.
  Variable lz4c : list N -> list N.                (* frame compression *)
  Variable lz4d : list N -> option (list N).       (* frame decompression; None = codec error *)
  Variable choose : list N -> N.                   (* CompressionScheme::choose_from_data: 1 or 2 *)

  Definition compress (s : N) (data : list N) : list N :=
    if s =? 0 then data else if s =? 1 then lz4c data else lz4c (bg4_split data).
  Definition decompress (s : N) (payload : list N) : option (list N) :=
    if s =? 0 then Some payload
    else if s =? 1 then lz4d payload
    else match lz4d payload with Some g => Some (bg4_regroup g) | None => None end.

  (* serialize_chunk: scheme None = automatic choice *)
  Definition serialize_chunk (chunk : list N) (scheme : option N) : list N :=
    let s := match scheme with Some s => s | None => choose chunk end in
    let c := compress s chunk in
    let '(s', payload) := if Nat.leb (length chunk) (length c) then (0, chunk) else (s, c) in
    enc_chdr (mkHdr CHUNK_CURRENT_VERSION (N.of_nat (length payload)) s' (N.of_nat (length chunk))) ++ payload.

  (* deserialize_chunk (sync): Ok (data, consumed = 8 + clen, ulen, rest).  A short payload is handed to the
     decoder as is (reader.take): scheme None then yields fewer bytes and the length check rejects. *)
  Definition deserialize_chunk (bs : list N) : res (list N * N * N * list N) :=
    match take 8 bs with
    | None => RErr
    | Some (hb, r) =>
        match dec_chdr hb with
        | ROk h =>
            let payload := firstn (N.to_nat (h_clen h)) r in
            let rest := skipn (N.to_nat (h_clen h)) r in
            match decompress (h_scheme h) payload with
            | None => RErr
            | Some d => if N.of_nat (length d) =? h_ulen h then ROk (d, 8 + h_clen h, h_ulen h, rest) else RReject
            end
        | RReject => RReject
        | _ => RErr
        end
    end.
  (* the async / stream decoder: read_exact of the payload, so a short payload is an I/O error *)
  Definition deserialize_chunk_async (bs : list N) : res (list N * N * N * list N) :=
    match take 8 bs with
    | None => RErr
    | Some (hb, r) =>
        match dec_chdr hb with
        | ROk h =>
            match take (N.to_nat (h_clen h)) r with
            | None => RErr
            | Some (payload, rest) =>
                match decompress (h_scheme h) payload with
                | None => RErr
                | Some d => if N.of_nat (length d) =? h_ulen h then ROk (d, 8 + h_clen h, h_ulen h, rest) else RReject
                end
            end
        | RReject => RReject
        | _ => RErr
        end
    end.

  (* deserialize_chunks: all chunks of a byte range, until the input is exhausted *)
  Fixpoint deserialize_chunks (fuel : nat) (bs : list N) (acc : list N) (idx : list N) (total : N) : res (list N * list N) :=
    match bs with
    | [] => ROk (acc, rev idx)
    | _ =>
        match fuel with
        | O => RErr
        | S f =>
            match deserialize_chunk bs with
            | ROk (d, _, ul, rest) => deserialize_chunks f rest (acc ++ d) ((total + ul) :: idx) (total + ul)
            | RReject => RReject
            | RErr => RErr
            | RPanic => RPanic
            end
        end
    end.

  (* ---- footer ---- *)
  Record info := mkInfo {
    i_cashash : hash; i_hashes : list hash; i_bnd_version : N;
    i_boundaries : list N; i_unpacked : list N; i_num_chunks : N; i_hoff : N; i_boff : N; i_buffer : list N }.

  Definition boff_of (nb nu : nat) : N := 7 + 1 + 4 + 4 * N.of_nat nb + 4 * N.of_nat nu + 4 + 4 + 4 + 16.
  Definition hoff_of (nh nb nu : nat) : N := 7 + 1 + 4 + 32 * N.of_nat nh + boff_of nb nu.

  Definition ser_info (i : info) : list N :=
    CAS_OBJECT_FORMAT_IDENT ++ [CAS_OBJECT_FORMAT_VERSION] ++ i_cashash i
    ++ CAS_OBJECT_FORMAT_IDENT_HASHES ++ [CAS_OBJECT_FORMAT_HASHES_VERSION] ++ u32 (i_num_chunks i) ++ concat (i_hashes i)
    ++ CAS_OBJECT_FORMAT_IDENT_BOUNDARIES ++ [i_bnd_version i] ++ u32 (i_num_chunks i)
    ++ flat_map u32 (i_boundaries i) ++ flat_map u32 (i_unpacked i)
    ++ u32 (i_num_chunks i) ++ u32 (i_hoff i) ++ u32 (i_boff i) ++ i_buffer i.

  (* CasObject::serialize: chunks = raw chunk data; hashes given by the caller *)
  Fixpoint ser_chunks (chunks : list (list N)) (scheme : option N) (total : N) : list N * list N :=
    match chunks with
    | [] => ([], [])
    | c :: r =>
        let b := serialize_chunk c scheme in
        let total' := total + N.of_nat (length b) in
        let '(bs, offs) := ser_chunks r scheme total' in
        (b ++ bs, total' :: offs)
    end.
  Fixpoint cumsum (l : list N) (acc : N) : list N :=
    match l with [] => [] | x :: r => (acc + x) :: cumsum r (acc + x) end.

  Definition xorb_serialize (cashash : hash) (chunks : list (list N)) (hashes : list hash) (scheme : option N) : list N :=
    let '(body, offs) := ser_chunks chunks scheme 0 in
    let n := length chunks in
    let unp := cumsum (map (fun c => N.of_nat (length c)) chunks) 0 in
    let i := mkInfo cashash hashes CAS_OBJECT_FORMAT_BOUNDARIES_VERSION offs unp (N.of_nat n)
                    (hoff_of n n n) (boff_of n n) (repeat 0 16%nat) in
    let fb := ser_info i in
    body ++ fb ++ u32 (N.of_nat (length fb)).

  (* reading helpers: Some (value, rest) or None on short input *)
  Definition rd (n : nat) (bs : list N) : option (list N * list N) := take n bs.
  Definition rd_u32 (bs : list N) : option (N * list N) :=
    match take 4 bs with Some (b, r) => Some (le_val b, r) | None => None end.
  Fixpoint rd_n {A} (p : list N -> option (A * list N)) (n : nat) (bs : list N) : option (list A * list N) :=
    match n with
    | O => Some ([], bs)
    | S n' => match p bs with
              | Some (a, r) => match rd_n p n' r with Some (l, r') => Some (a :: l, r') | None => None end
              | None => None
              end
    end.
  (* a declared count cannot be honoured if fewer than count*width bytes remain: short read *)
  Definition rd_vec {A} (p : list N -> option (A * list N)) (width : N) (n : N) (bs : list N) : option (list A * list N) :=
    if N.of_nat (length bs) <? n * width then None else rd_n p (N.to_nat n) bs.

  (* CasObjectInfoV0::deserialize_v0 (after ident+version) and from_v0 *)
  Definition parse_v0 (bs : list N) : res (info * N) :=
    match rd 32 bs with
    | None => RErr
    | Some (ch, r) =>
        match rd_u32 r with
        | None => RErr
        | Some (n, r) =>
            match rd_vec rd_u32 4 n r with
            | None => RErr
            | Some (offs, r) =>
                match rd_vec (rd 32) 32 n r with
                | None => RErr
                | Some (hs, r) =>
                    match rd 16 r with
                    | None => RErr
                    | Some (buf, r) =>
                        let nb := length offs in
                        ROk (mkInfo ch hs CAS_OBJECT_FORMAT_BOUNDARIES_VERSION_NO_UNPACKED_INFO offs [] n
                                    (hoff_of (length hs) nb 0) (boff_of nb 0) buf,
                             8 + 32 + 4 + 4 * n + 32 * n + 16)
                    end
                end
            end
        end
    end.

  (* CasObjectInfoV1::deserialize: Ok (info, bytes read) *)
  Definition parse_info (bs : list N) : res (info * N) :=
    match rd 7 bs with
    | None => RErr
    | Some (id, r) =>
        if negb (bytes_eqb id CAS_OBJECT_FORMAT_IDENT) then RReject else
        match rd 1 r with
        | None => RErr
        | Some (v, r) =>
            let v := le_val v in
            if v =? CAS_OBJECT_FORMAT_VERSION_V0 then parse_v0 r
            else if negb (v =? CAS_OBJECT_FORMAT_VERSION) then RReject else
            match rd 32 r with
            | None => RErr
            | Some (ch, r) =>
                match rd 7 r with
                | None => RErr
                | Some (idh, r) =>
                    if negb (bytes_eqb idh CAS_OBJECT_FORMAT_IDENT_HASHES) then RReject else
                    match rd 1 r with
                    | None => RErr
                    | Some (hv, r) =>
                        if negb (le_val hv =? CAS_OBJECT_FORMAT_HASHES_VERSION) then RReject else
                        match rd_u32 r with
                        | None => RErr
                        | Some (n2, r) =>
                            match rd_vec (rd 32) 32 n2 r with
                            | None => RErr
                            | Some (hs, r) =>
                                match rd 7 r with
                                | None => RErr
                                | Some (idb, r) =>
                                    if negb (bytes_eqb idb CAS_OBJECT_FORMAT_IDENT_BOUNDARIES) then RReject else
                                    match rd 1 r with
                                    | None => RErr
                                    | Some (bv, r) =>
                                        if negb (le_val bv =? CAS_OBJECT_FORMAT_BOUNDARIES_VERSION) then RReject else
                                        match rd_u32 r with
                                        | None => RErr
                                        | Some (n3, r) =>
                                            if negb (n2 =? n3) then RReject else
                                            match rd_vec rd_u32 4 n3 r with
                                            | None => RErr
                                            | Some (offs, r) =>
                                                match rd_vec rd_u32 4 n3 r with
                                                | None => RErr
                                                | Some (unp, r) =>
                                                    match rd_u32 r with
                                                    | None => RErr
                                                    | Some (n, r) =>
                                                        if negb (n =? n2) then RReject else
                                                        match rd_u32 r with
                                                        | None => RErr
                                                        | Some (ho, r) =>
                                                            match rd_u32 r with
                                                            | None => RErr
                                                            | Some (bo, r) =>
                                                                match rd 16 r with
                                                                | None => RErr
                                                                | Some (buf, r) =>
                                                                    let total := 40 + 8 + 4 + 32 * n2 + 8 + 4 + 8 * n3 + 12 + 16 in
                                                                    if negb (total - 40 =? ho) then RReject
                                                                    else if negb (8 + 4 + 8 * n3 + 12 + 16 =? bo) then RReject
                                                                    else ROk (mkInfo ch hs (le_val bv) offs unp n ho bo buf, total)
                                                                end
                                                            end
                                                        end
                                                    end
                                                end
                                            end
                                        end
                                    end
                                end
                            end
                        end
                    end
                end
            end
        end
    end.

  (* CasObject::deserialize: (info, info_length) *)
  Definition xorb_deserialize (bs : list N) : res (info * N) :=
    let len := length bs in
    if Nat.ltb len 4 then RErr else
    let il := le_val (skipn (len - 4) bs) in
    if N.of_nat len <? 4 + il then RErr else
    match parse_info (skipn (len - 4 - N.to_nat il) bs) with
    | ROk (i, total) => if total =? il then ROk (i, il) else RReject
    | RReject => RReject
    | RErr => RErr
    | RPanic => RPanic
    end.

  (* validate_cas_object_info *)
  Definition info_ok (i : info) : bool :=
    negb (i_num_chunks i =? 0)
    && (i_num_chunks i =? N.of_nat (length (i_boundaries i)))
    && (i_num_chunks i =? N.of_nat (length (i_hashes i)))
    && (negb (i_bnd_version i =? CAS_OBJECT_FORMAT_BOUNDARIES_VERSION) || (i_num_chunks i =? N.of_nat (length (i_unpacked i))))
    && negb (bytes_eqb (i_cashash i) zero_hash).

  Definition nthN (l : list N) (k : N) : option N := nth_error l (N.to_nat k).

  (* get_byte_offset *)
  Definition get_byte_offset (i : info) (a b : N) : res (N * N) :=
    if negb (info_ok i) then RReject
    else if (b <=? a) || (i_num_chunks i <? b) then RErr       (* InvalidArguments *)
    else match (if a =? 0 then Some 0 else nthN (i_boundaries i) (a - 1)), nthN (i_boundaries i) (b - 1) with
         | Some s, Some e => ROk (s, e)
         | _, _ => RPanic
         end.
  (* get_range + get_chunk_contents *)
  Definition get_range (i : info) (bs : list N) (s e : N) : res (list N) :=
    if e <? s then RErr
    else if negb (info_ok i) then RReject
    else match last (map Some (i_boundaries i)) None with
         | None => RReject
         | Some clen =>
             let e' := N.min e clen in
             if e' <? s then RPanic                                  (* end - byte_start underflows *)
             else if N.of_nat (length bs) <? e' then RErr
             else match deserialize_chunks (S (length bs)) (firstn (N.to_nat (e' - s)) (skipn (N.to_nat s) bs)) [] [] 0 with
                  | ROk (d, _) => ROk d
                  | RReject => RReject
                  | RErr => RErr
                  | RPanic => RPanic
                  end
         end.
  Definition get_all_bytes (i : info) (bs : list N) : res (list N) :=
    if negb (info_ok i) then RReject
    else match last (map Some (i_boundaries i)) None with
         | None => RReject
         | Some clen => get_range i bs 0 clen
         end.
  Definition get_bytes_by_chunk_range (i : info) (bs : list N) (a b : N) : res (list N) :=
    match get_byte_offset i a b with
    | ROk (s, e) => get_range i bs s e
    | RReject => RReject
    | RErr => RErr
    | RPanic => RPanic
    end.
  Definition uncompressed_range_length (i : info) (a b : N) : res N :=
    if negb (info_ok i) then RReject
    else if (b <? a) || (i_num_chunks i <? b) || (i_num_chunks i <=? a) then RErr
    else if a =? b then ROk 0
    else match (if a =? 0 then Some 0 else nthN (i_unpacked i) (a - 1)), nthN (i_unpacked i) (b - 1) with
         | Some s, Some e => if e <? s then RPanic else ROk (e - s)
         | _, _ => RPanic
         end.

  (* ---- the seekable validator ---- *)
  Fixpoint validate_walk (fuel : nat) (bs : list N) (i : info) (idx : N) (start unpacked : N) (acc : list node)
    : res (list node * N) :=
    if idx =? i_num_chunks i then ROk (rev acc, start)
    else match fuel with
         | O => RErr
         | S f =>
             if N.of_nat (length bs) <? start then RErr else
             match deserialize_chunk (skipn (N.to_nat start) bs) with
             | ROk (d, clen, ulen, _) =>
                 let h := compute_data_hash d in
                 match nth_error (i_hashes i) (N.to_nat idx), nthN (i_boundaries i) idx with
                 | Some hh, Some bnd =>
                     if negb (bytes_eqb hh h) then RReject
                     else if negb (start + clen =? bnd) then RReject
                     else if (i_bnd_version i =? CAS_OBJECT_FORMAT_BOUNDARIES_VERSION)
                             && negb (match nthN (i_unpacked i) idx with Some u => u =? unpacked + ulen | None => false end)
                          then (match nthN (i_unpacked i) idx with Some _ => RReject | None => RPanic end)
                     else validate_walk f bs i (idx + 1) bnd (unpacked + ulen) ((h, ulen) :: acc)
                 | _, _ => RPanic
                 end
             | RReject => RReject
             | RErr => RErr
             | RPanic => RPanic
             end
         end.

  Definition validate_cas_object (bs : list N) (h : hash) : res info :=
    match xorb_deserialize bs with
    | ROk (i, il) =>
        match validate_walk (S (N.to_nat (i_num_chunks i))) bs i 0 0 0 [] with
        | ROk (nodes, endpos) =>
            (* the footer must begin directly after the last chunk (with no chunk at all the reader stands
               behind the footer it just parsed, which can never equal the expected position 0) *)
            if (i_num_chunks i =? 0) || negb (endpos + il + 4 =? N.of_nat (length bs)) then RReject
            else match validator_root compute_internal_node_hash nodes with
                 | Some r => if bytes_eqb r h && bytes_eqb r (i_cashash i) then ROk i else RReject
                 | None => RErr
                 end
        | RReject => RReject
        | RErr => RErr
        | RPanic => RPanic
        end
    | RReject => RReject
    | RErr => RErr
    | RPanic => RPanic
    end.

  (* ---- the streaming validator ---- *)
  (* result: accepted footer kind: 1 = footer V1 validated, 0 = no footer / V0 footer (rebuilt) *)
  Fixpoint stream_walk (fuel : nat) (bs : list N) (offs : list N) (nodes : list node) (last_off : N)
    : res (option (info * N) * list N * list node) :=
    match fuel with
    | O => RErr
    | S f =>
        match bs with
        | [] => ROk (None, rev offs, rev nodes)
        | _ =>
            match take 8 bs with
            | None => RReject                                       (* 1..7 bytes after the chunk list *)
            | Some (b8, r) =>
                let is_ident := bytes_eqb (firstn 7 b8) CAS_OBJECT_FORMAT_IDENT in
                let v := nth 7 b8 0 in
                if is_ident && (CAS_OBJECT_FORMAT_VERSION <? v) then RReject
                else if is_ident && (v =? CAS_OBJECT_FORMAT_VERSION) then
                  (* CasObject::deserialize_async: footer, then info_length, then end of stream *)
                  match parse_info bs with
                  | ROk (i, total) =>
                      match rd_u32 (skipn (N.to_nat total) bs) with
                      | None => RErr
                      | Some (il, r2) =>
                          if negb (il =? total) then RReject
                          else match r2 with [] => ROk (Some (i, il), rev offs, rev nodes) | _ => RReject end
                      end
                  | RReject => RReject
                  | RErr => RErr
                  | RPanic => RPanic
                  end
                else if is_ident && (v =? CAS_OBJECT_FORMAT_VERSION_V0) then ROk (None, rev offs, rev nodes)
                else
                  match dec_chdr b8 with
                  | ROk h =>
                      match take (N.to_nat (h_clen h)) r with
                      | None => RErr
                      | Some (payload, rest) =>
                          match decompress (h_scheme h) payload with
                          | None => RErr
                          | Some d =>
                              if negb (N.of_nat (length d) =? h_ulen h) then RReject
                              else let off := last_off + 8 + h_clen h in
                                   stream_walk f rest (off :: offs) ((compute_data_hash d, N.of_nat (length d)) :: nodes) off
                          end
                      end
                  | RReject => RReject
                  | _ => RErr
                  end
            end
        end
    end.

  Fixpoint list_eqbN (a b : list N) : bool :=
    match a, b with
    | [], [] => true
    | x :: a', y :: b' => (x =? y) && list_eqbN a' b'
    | _, _ => false
    end.
  Fixpoint hashes_match (hs : list hash) (nodes : list node) : bool :=
    match hs, nodes with
    | h :: hr, n :: nr => bytes_eqb h (fst n) && hashes_match hr nr
    | _, _ => true
    end.
  Fixpoint unpacked_match (us : list N) (nodes : list node) (acc : N) : bool :=
    match us, nodes with
    | u :: ur, n :: nr => (u =? N.land (acc + snd n) 4294967295) && unpacked_match ur nr (N.land (acc + snd n) 4294967295)
    | _, _ => true
    end.

  Definition validate_stream (bs : list N) (h : hash) : res N :=
    match stream_walk (S (length bs)) bs [] [] 0 with
    | ROk (footer, offs, nodes) =>
        let footer_ok :=
          match footer with
          | None => true
          | Some (i, _) =>
              bytes_eqb (i_cashash i) h
              && (i_num_chunks i =? N.of_nat (length nodes))
              && list_eqbN (i_boundaries i) offs
              && (N.of_nat (length (i_hashes i)) =? N.of_nat (length nodes))
              && hashes_match (i_hashes i) nodes
              && unpacked_match (i_unpacked i) nodes 0
          end in
        if negb footer_ok then RReject
        else match validator_root compute_internal_node_hash nodes with
             | Some r => if bytes_eqb r h then ROk (match footer with Some _ => 1 | None => 0 end) else RReject
             | None => RErr
             end
    | RReject => RReject
    | RErr => RErr
    | RPanic => RPanic
    end.

  (* ---- deserialize_only_boundaries_section ----
     [checked]: the generated fact "the offset addition is checked and the vectors are clamped" *)
  Definition parse_boundaries_only (checked : bool) (bs : list N) : res (list N * list N * N) :=
    let len := length bs in
    if Nat.ltb len 24 then RErr else
    let off := le_val (firstn 4 (skipn (len - 24) bs)) in
    if negb checked && (4294967295 <? off + 4) then RPanic          (* u32 += 4 overflows: debug panic *)
    else if 4294967295 <? off + 4 then RReject
    else
    let off := off + 4 in
    if N.of_nat len <? off then RErr else
    let r := skipn (len - N.to_nat off) bs in
    match rd 7 r with
    | None => RErr
    | Some (idb, r) =>
        if negb (bytes_eqb idb CAS_OBJECT_FORMAT_IDENT_BOUNDARIES) then RReject else
        match rd 1 r with
        | None => RErr
        | Some (bv, r) =>
            if negb (le_val bv =? CAS_OBJECT_FORMAT_BOUNDARIES_VERSION) then RReject else
            match rd_u32 r with
            | None => RErr
            | Some (n, r) =>
                match rd_vec rd_u32 4 n r with
                | None => RErr
                | Some (offs, r) =>
                    match rd_vec rd_u32 4 n r with
                    | None => RErr
                    | Some (unp, r) =>
                        match rd_u32 r with
                        | None => RErr
                        | Some (n', r) =>
                            if negb (n' =? n) then RReject else
                            match rd_u32 r with
                            | None => RErr
                            | Some (_, r) =>
                                match rd_u32 r with
                                | None => RErr
                                | Some (bo, r) =>
                                    match rd 16 r with
                                    | None => RErr
                                    | Some (_, _) =>
                                        if negb (8 + 4 + 8 * n + 12 + 16 =? bo) then RReject else ROk (offs, unp, n)
                                    end
                                end
                            end
                        end
                    end
                end
            end
        end
    end.
End WithLz4.
