(* Executable model of deduplication/src/chunking.rs (Chunker::{new,next,next_block,finish})
   and of the reference gear-hash chunking rule.  No proofs in this file.
   Bytes are N (0..255); lengths in the state are N; nat is used only to index lists. *)
From Coq Require Import NArith Bool List.
Import ListNotations.
From XetModel Require Import Gen.GearTable Gen.ChunkConsts.
Open Scope N_scope.

Definition u64_mask : N := 0xFFFFFFFFFFFFFFFF.
Definition u64 (x : N) : N := N.land x u64_mask.

(* gearhash scalar rule:  hash = (hash << 1).wrapping_add(table[b]) *)
Definition gear_step (h b : N) : N := u64 (N.shiftl h 1 + gear b).

Record cfg := { c_min : N; c_max : N; c_mask : N }.

Definition is_pow2 (t : N) : bool := negb (t =? 0) && (t =? N.shiftl 1 (N.log2 t)).

(* Chunker::new: None stands for a failed assertion (panic) *)
Definition chunker_new (target : N) : option cfg :=
  let mn := chunker_minimum target in
  let mx := chunker_maximum target in
  if is_pow2 target && chunker_new_asserts target mn mx
  then Some {| c_min := mn; c_max := mx; c_mask := chunker_mask target |}
  else None.

Record st := { s_hash : N; s_cur : N; s_buf : list N (* reversed chunkbuf *) }.
Definition st0 : st := {| s_hash := 0; s_cur := 0; s_buf := [] |}.

(* gearhash::Hasher::next_match: Some (i+1) at the first byte whose updated hash matches; final hash *)
Fixpoint next_match (mask h : N) (buf : list N) : option N * N :=
  match buf with
  | [] => (None, h)
  | b :: r =>
      let h' := gear_step h b in
      if N.land h' mask =? 0 then (Some 1, h')
      else match next_match mask h' r with
           | (Some i, hf) => (Some (i + 1), hf)
           | (None, hf) => (None, hf)
           end
  end.

Definition slice (l : list N) (a b : N) : list N := firstn (N.to_nat (b - a)) (skipn (N.to_nat a) l).

(* Chunker::next, statement by statement.  Result: (chunk option, consumed, new state) *)
Definition next (c : cfg) (s : st) (data : list N) (is_final : bool) : option (list N) * N * st :=
  let n_bytes := N.of_nat (length data) in
  let '(create_chunk, consume_len, s1) :=
    if negb (n_bytes =? 0) then
      let '(consume_len, cur) :=
        if next_skip_cond (s_cur s) (c_min c) then
          let max_advance := N.min (next_skip_amount (s_cur s) (c_min c)) (next_skip_avail n_bytes 0) in
          (max_advance, s_cur s + max_advance)
        else (0, s_cur s) in
      let read_end := next_read_end n_bytes consume_len (c_max c) cur in
      let '(m, h') := next_match (c_mask c) (s_hash s) (slice data consume_len read_end) in
      let '(btnb, create) := match m with Some b => (b, true) | None => (read_end - consume_len, false) end in
      let '(btnb, create) :=
        if next_force_cond btnb cur (c_max c) then (next_force_amount (c_max c) cur, true) else (btnb, create) in
      let cur := cur + btnb in
      let consume_len := consume_len + btnb in
      (create, consume_len, {| s_hash := h'; s_cur := cur; s_buf := rev_append (firstn (N.to_nat consume_len) data) (s_buf s) |})
    else (false, 0, s) in
  if create_chunk || (is_final && negb (match s_buf s1 with [] => true | _ => false end))
  then (Some (rev (s_buf s1)), consume_len, st0)
  else (None, consume_len, s1).

(* Chunker::next_block: loop until pos == data.len(); fuel = number of bytes + 1 *)
Fixpoint next_block_loop (fuel : nat) (c : cfg) (s : st) (data : list N) (is_final : bool) (acc : list (list N))
  : option (list (list N) * st) :=
  match data with
  | [] => Some (rev acc, s)
  | _ =>
      match fuel with
      | O => None
      | S fuel' =>
          let '(mc, consumed, s') := next c s data is_final in
          let acc' := match mc with Some ch => ch :: acc | None => acc end in
          next_block_loop fuel' c s' (skipn (N.to_nat consumed) data) is_final acc'
      end
  end.

Definition next_block (c : cfg) (s : st) (data : list N) (is_final : bool) : option (list (list N) * st) :=
  next_block_loop (S (length data)) c s data is_final [].

Definition finish (c : cfg) (s : st) : option (list N) := fst (fst (next c s [] true)).

(* a whole use of the API: a list of next_block calls, then finish *)
Fixpoint run_calls (c : cfg) (s : st) (calls : list (list N * bool)) : option (list (list N)) :=
  match calls with
  | [] => Some (match finish c s with Some ch => [ch] | None => [] end)
  | (d, fin) :: rest =>
      match next_block c s d fin with
      | None => None
      | Some (chs, s') =>
          match run_calls c s' rest with
          | None => None
          | Some more => Some (chs ++ more)
          end
      end
  end.

(* ------------------------------------------------------------------------ *)
(* The byte-at-a-time machine: the reference rule in incremental form. *)

Definition skipping (c : cfg) (cur : N) : bool := cur + HASH_WINDOW_SIZE + 1 <? c_min c.

Definition bstep (c : cfg) (s : st) (b : N) : st * option (list N) :=
  if skipping c (s_cur s) then
    ({| s_hash := s_hash s; s_cur := s_cur s + 1; s_buf := b :: s_buf s |}, None)
  else
    let h' := gear_step (s_hash s) b in
    let cur' := s_cur s + 1 in
    if (N.land h' (c_mask c) =? 0) || (c_max c <=? cur')
    then (st0, Some (rev (b :: s_buf s)))
    else ({| s_hash := h'; s_cur := cur'; s_buf := b :: s_buf s |}, None).

Fixpoint feed (c : cfg) (s : st) (data : list N) : list (list N) * st :=
  match data with
  | [] => ([], s)
  | b :: r =>
      let '(s', o) := bstep c s b in
      let '(chs, sf) := feed c s' r in
      (match o with Some ch => ch :: chs | None => chs end, sf)
  end.

Definition flush (s : st) : list (list N) := match s_buf s with [] => [] | _ => [rev (s_buf s)] end.

(* reference chunking of a complete stream *)
Definition ref_chunks (c : cfg) (data : list N) : list (list N) :=
  let '(chs, s) := feed c st0 data in chs ++ flush s.

(* Independent "closed form" of the reference rule: position of the first cut in a stream
   that starts on a boundary: skip max 0 (min-64-1) bytes unhashed, then hash from 0 and cut at the
   first position whose hash matches the mask, or at max. None: the stream ends first. *)
Fixpoint scan (c : cfg) (h : N) (pos : N) (data : list N) : option N :=
  match data with
  | [] => None
  | b :: r =>
      let h' := gear_step h b in
      let pos' := pos + 1 in
      if (N.land h' (c_mask c) =? 0) || (c_max c <=? pos') then Some pos' else scan c h' pos' r
  end.

Definition first_cut (c : cfg) (data : list N) : option N :=
  let k := c_min c - HASH_WINDOW_SIZE - 1 in      (* truncated subtraction = max 0 *)
  if N.of_nat (length data) <? k then None
  else scan c 0 k (skipn (N.to_nat k) data).

Fixpoint cut_all (fuel : nat) (c : cfg) (data : list N) : list (list N) :=
  match data with
  | [] => []
  | _ =>
      match fuel with
      | O => [data]
      | S f =>
          match first_cut c data with
          | None => [data]
          | Some p => firstn (N.to_nat p) data :: cut_all f c (skipn (N.to_nat p) data)
          end
      end
  end.

Definition spec_chunks (c : cfg) (data : list N) : list (list N) := cut_all (length data) c data.
