(* Executable model of the dedup pipeline: deduplication::{FileDeduper, DefragPrevention, DataAggregator,
   RawXorbData, DeduplicationMetrics} and the session-level aggregation of data::FileUploadSession.
   Chunks are (hash, length); the data interface is an oracle.  Facts about statement order that are
   regenerated from the source (Gen/DedupFacts.v) are parameters of the functions here.  No proofs. *)
From Coq Require Import NArith Bool List.
Import ListNotations.
From XetModel Require Import Base.Codec Gen.ShardLayout Gen.DedupFacts Model.Merkle Model.Shard.
Open Scope N_scope.

Definition chunk := (hash * N)%type.       (* chunk hash, data length *)

Record metrics := mkM {
  m_total_bytes : N; m_deduped_bytes : N; m_new_bytes : N; m_global_bytes : N; m_defrag_bytes : N;
  m_total_chunks : N; m_deduped_chunks : N; m_new_chunks : N; m_global_chunks : N; m_defrag_chunks : N }.
Definition m0 : metrics := mkM 0 0 0 0 0 0 0 0 0 0.
Definition m_add (a b : metrics) : metrics :=
  mkM (m_total_bytes a + m_total_bytes b) (m_deduped_bytes a + m_deduped_bytes b) (m_new_bytes a + m_new_bytes b)
      (m_global_bytes a + m_global_bytes b) (m_defrag_bytes a + m_defrag_bytes b)
      (m_total_chunks a + m_total_chunks b) (m_deduped_chunks a + m_deduped_chunks b) (m_new_chunks a + m_new_chunks b)
      (m_global_chunks a + m_global_chunks b) (m_defrag_chunks a + m_defrag_chunks b).

(* ---- DefragPrevention ---- *)
Record defrag := mkD { d_ranges : list N (* oldest first *); d_chunks : N; d_low : bool }.
Definition defrag0 : defrag := mkD [] 0 true.

Record dcfg := mkCfg {
  c_nranges : N;                 (* NRANGES_IN_STREAMING_FRAGMENTATION_ESTIMATOR *)
  c_min_cpr_num : N; c_min_cpr_den : N;       (* MIN_N_CHUNKS_PER_RANGE as a fraction *)
  c_hyst_num : N; c_hyst_den : N;             (* hysteresis factor as a fraction *)
  c_max_xorb_bytes : N; c_max_xorb_chunks : N }.

Fixpoint inc_last (l : list N) (n : N) : list N :=
  match l with
  | [] => []
  | [x] => [x + n]
  | x :: r => x :: inc_last r n
  end.
Definition d_increment_last (d : defrag) (n : N) : defrag :=
  match d_ranges d with
  | [] => d
  | _ => mkD (inc_last (d_ranges d) n) (d_chunks d + n) (d_low d)
  end.
Definition d_add_range (cf : dcfg) (d : defrag) (n : N) : defrag :=
  let r := d_ranges d ++ [n] in
  let c := d_chunks d + n in
  if c_nranges cf <? N.of_nat (length r)
  then match r with x :: r' => mkD r' (c - x) (d_low d) | [] => mkD r c (d_low d) end
  else mkD r c (d_low d).
(* allow_dedup_on_next_range: (allowed, new state); comparisons of the f32 code done in exact rationals *)
Definition d_allow (cf : dcfg) (d : defrag) (n : N) : bool * defrag :=
  let len := N.of_nat (length (d_ranges d)) in
  if len <? c_nranges cf then (true, d)
  else
    (* chunks_per_range = d_chunks/len ; target = min_cpr * (hyst if low) *)
    let tnum := if d_low d then c_min_cpr_num cf * c_hyst_num cf else c_min_cpr_num cf in
    let tden := if d_low d then c_min_cpr_den cf * c_hyst_den cf else c_min_cpr_den cf in
    if d_chunks d * tden <? tnum * len then            (* chunks_per_range < target *)
      if n * len <? d_chunks d                           (* dedup_range_size < chunks_per_range *)
      then (false, mkD (d_ranges d) (d_chunks d) false)
      else (true, d)
    else (true, mkD (d_ranges d) (d_chunks d) true).

(* ---- RawXorbData::from_chunks: the CAS block a list of chunks becomes ---- *)
Fixpoint cas_entries (chs : list chunk) (pos : N) : list chunk_ent :=
  match chs with
  | [] => []
  | (h, l) :: r => mkCE h l pos 0 :: cas_entries r (pos + l)
  end.
Definition sum_lens (chs : list chunk) : N := fold_right (fun c acc => snd c + acc) 0 chs.
Definition xorb_hash_of (chs : list chunk) : hash :=
  match cas_node_hash compute_internal_node_hash chs with Some h => h | None => zero_hash end.
Definition raw_xorb (chs : list chunk) : cas_info :=
  mkCI (xorb_hash_of chs) 0 (sum_lens chs) 0 (cas_entries chs 0).

(* ---- FileDeduper ---- *)
Record fd := mkFD {
  f_new : list chunk;                       (* new_data *)
  f_lookup : list (N * N);                  (* new_data_hash_lookup: hash key -> index, newest first *)
  f_hashes : list chunk;                    (* chunk_hashes (reversed) *)
  f_info : list seg;                        (* file_info *)
  f_iref : list N;                          (* internally_referencing_entries *)
  f_defrag : defrag;
  f_metrics : metrics;
  f_new_xorbs : list hash;                  (* reversed *)
  f_registered : list cas_info              (* xorbs handed to register_new_xorb, reversed *) }.
Definition fd0 : fd := mkFD [] [] [] [] [] defrag0 m0 [] [].

Fixpoint lk (k : N) (l : list (N * N)) : option N :=
  match l with [] => None | (k', v) :: r => if k =? k' then Some v else lk k r end.

(* dedup_query_against_local_data *)
Fixpoint local_run (lookup : list (N * N)) (base i : N) (qs : list hash) : N :=
  match qs with
  | [] => 0
  | q :: r => match lk (hkey q) lookup with
              | Some idx => if idx =? base + i then 1 + local_run lookup base (i + 1) r else 0
              | None => 0
              end
  end.
Definition nth_len (l : list chunk) (i : N) : N := match nth_error l (N.to_nat i) with Some c => snd c | None => 0 end.
Fixpoint sum_range (l : list chunk) (a : N) (n : nat) : N :=
  match n with O => 0 | S n' => nth_len l a + sum_range l (a + 1) n' end.
Definition local_query (f : fd) (qs : list hash) : option (N * seg) :=
  match qs with
  | [] => None
  | q0 :: r =>
      match lk (hkey q0) (f_lookup f) with
      | None => None
      | Some base =>
          let n := 1 + local_run (f_lookup f) base 1 r in
          Some (n, mkSeg zero_hash 0 (sum_range (f_new f) base (N.to_nat n)) base (base + n))
      end
  end.

Definition last_seg (l : list seg) : option seg := last (map Some l) None.
Fixpoint upd_last (l : list seg) (g : seg -> seg) : list seg :=
  match l with
  | [] => []
  | [x] => [g x]
  | x :: r => x :: upd_last r g
  end.
Definition continues (f : fd) (s : seg) : bool :=
  match last_seg (f_info f) with
  | Some l => bytes_eqb (sg_cas l) (sg_cas s) && (sg_end l =? sg_start s)
  | None => false
  end.

Definition u32wrap (x : N) : N := N.land x 4294967295.

(* add_file_data_sequence_entry *)
Definition add_fse (cf : dcfg) (f : fd) (s : seg) (n : N) : fd :=
  if continues f s then
    mkFD (f_new f) (f_lookup f) (f_hashes f)
         (upd_last (f_info f) (fun l => mkSeg (sg_cas l) (sg_flags l) (u32wrap (sg_bytes l + sg_bytes s)) (sg_start l) (sg_end s)))
         (f_iref f) (d_increment_last (f_defrag f) n) (f_metrics f) (f_new_xorbs f) (f_registered f)
  else
    mkFD (f_new f) (f_lookup f) (f_hashes f) (f_info f ++ [s])
         (if bytes_eqb (sg_cas s) zero_hash then f_iref f ++ [N.of_nat (length (f_info f))] else f_iref f)
         (d_add_range cf (f_defrag f) n) (f_metrics f) (f_new_xorbs f) (f_registered f).

(* cut_new_xorb *)
Fixpoint patch_segs (l : list seg) (idx : N) (iref : list N) (h : hash) : list seg :=
  match l with
  | [] => []
  | s :: r => (if existsb (N.eqb idx) iref then mkSeg h (sg_flags s) (sg_bytes s) (sg_start s) (sg_end s) else s)
              :: patch_segs r (idx + 1) iref h
  end.
Definition cut_xorb (f : fd) : fd :=
  let x := raw_xorb (f_new f) in
  mkFD [] [] (f_hashes f) (patch_segs (f_info f) 0 (f_iref f) (ci_hash x)) [] (f_defrag f) (f_metrics f)
       (ci_hash x :: f_new_xorbs f) (x :: f_registered f).

(* one iteration of the main loop of process_chunks at cur_idx: returns the new state and the number of chunks
   consumed.  [ans]: the recorded answer of pass 1 for this position (None: ask the local data).
   [booked_before_decision]: generated fact -- the four counters of a dedup answer are booked before the
   accept/reject decision (true), or only when it is accepted (false). *)
Definition bump_dedup (m : metrics) (n b : N) : metrics :=
  mkM (m_total_bytes m + b) (m_deduped_bytes m + b) (m_new_bytes m) (m_global_bytes m) (m_defrag_bytes m)
      (m_total_chunks m + n) (m_deduped_chunks m + n) (m_new_chunks m) (m_global_chunks m) (m_defrag_chunks m).
Definition bump_defrag (m : metrics) (n b : N) : metrics :=
  mkM (m_total_bytes m) (m_deduped_bytes m) (m_new_bytes m) (m_global_bytes m) (m_defrag_bytes m + b)
      (m_total_chunks m) (m_deduped_chunks m) (m_new_chunks m) (m_global_chunks m) (m_defrag_chunks m + n).
Definition bump_new (m : metrics) (b : N) : metrics :=
  mkM (m_total_bytes m + b) (m_deduped_bytes m) (m_new_bytes m + b) (m_global_bytes m) (m_defrag_bytes m)
      (m_total_chunks m + 1) (m_deduped_chunks m) (m_new_chunks m + 1) (m_global_chunks m) (m_defrag_chunks m).
Definition with_metrics (f : fd) (m : metrics) : fd :=
  mkFD (f_new f) (f_lookup f) (f_hashes f) (f_info f) (f_iref f) (f_defrag f) m (f_new_xorbs f) (f_registered f).
Definition with_defrag (f : fd) (d : defrag) : fd :=
  mkFD (f_new f) (f_lookup f) (f_hashes f) (f_info f) (f_iref f) d (f_metrics f) (f_new_xorbs f) (f_registered f).

Definition add_new_chunk (cf : dcfg) (f : fd) (c : chunk) : fd :=
  let nb := snd c in
  let f := with_metrics f (bump_new (f_metrics f) nb) in
  let f := if (c_max_xorb_bytes cf <? sum_lens (f_new f) + nb) || (c_max_xorb_chunks cf <? N.of_nat (length (f_new f)) + 1)
           then cut_xorb f else f in
  let nlen := N.of_nat (length (f_new f)) in
  let extend := match last_seg (f_info f) with
                | Some l => bytes_eqb (sg_cas l) zero_hash && (sg_end l =? nlen)
                | None => false
                end in
  let f :=
    if extend then
      mkFD (f_new f) (f_lookup f) (f_hashes f)
           (upd_last (f_info f) (fun l => mkSeg (sg_cas l) (sg_flags l) (u32wrap (sg_bytes l + nb)) (sg_start l) (sg_end l + 1)))
           (f_iref f) (d_increment_last (f_defrag f) 1) (f_metrics f) (f_new_xorbs f) (f_registered f)
    else
      mkFD (f_new f) (f_lookup f) (f_hashes f) (f_info f ++ [mkSeg zero_hash 0 nb nlen (nlen + 1)])
           (f_iref f ++ [N.of_nat (length (f_info f))]) (d_add_range cf (f_defrag f) 1) (f_metrics f) (f_new_xorbs f) (f_registered f) in
  mkFD (f_new f ++ [c]) ((hkey (fst c), nlen) :: f_lookup f) (f_hashes f) (f_info f) (f_iref f) (f_defrag f) (f_metrics f)
       (f_new_xorbs f) (f_registered f).

(* [whole_run]: generated fact -- a rejected dedup answer adds the whole run it covered to the "withheld by fragmentation
   prevention" counters (true), or the one chunk that is stored as new data because of the decision (false). *)
Definition step_with (whole_run : bool) (booked_before_decision : bool) (cf : dcfg) (f : fd) (c : chunk) (rest_hashes : list hash) (ans : option (N * seg)) : fd * N :=
  let q := match ans with Some a => Some a | None => local_query f rest_hashes end in
  match q with
  | Some (n, s) =>
      let f1 := if booked_before_decision then with_metrics f (bump_dedup (f_metrics f) n (sg_bytes s)) else f in
      if continues f1 s then
        (add_fse cf (if booked_before_decision then f1 else with_metrics f1 (bump_dedup (f_metrics f1) n (sg_bytes s))) s n, n)
      else
        let '(ok, d') := d_allow cf (f_defrag f1) n in
        let f2 := with_defrag f1 d' in
        if ok then (add_fse cf (if booked_before_decision then f2 else with_metrics f2 (bump_dedup (f_metrics f2) n (sg_bytes s))) s n, n)
        else (add_new_chunk cf (with_metrics f2 (bump_defrag (f_metrics f2) (if whole_run then n else 1) (if whole_run then sg_bytes s else snd c))) c, 1)
  | None => (add_new_chunk cf f c, 1)
  end.
Definition step := step_with defrag_counts_whole_run.

(* process_chunks: [answers] = the pass-1 answers per position (what the data interface returned for the suffix
   starting there; positions skipped by an earlier answer are never asked and must carry None) *)
Fixpoint process_loop (fuel : nat) (bbd : bool) (cf : dcfg) (f : fd) (chunks : list chunk) (answers : list (option (N * seg))) : fd :=
  match fuel with
  | O => f
  | S fu =>
      match chunks with
      | [] => f
      | c :: _ =>
          let '(f', n) := step bbd cf f c (map fst chunks) (hd None answers) in
          let k := N.to_nat (N.max n 1) in
          process_loop fu bbd cf f' (skipn k chunks) (skipn k answers)
      end
  end.
Definition process_chunks (bbd : bool) (cf : dcfg) (f : fd) (chunks : list chunk) (answers : list (option (N * seg))) : fd :=
  let f' := process_loop (length chunks) bbd cf f chunks answers in
  mkFD (f_new f') (f_lookup f') (rev chunks ++ f_hashes f') (f_info f') (f_iref f') (f_defrag f') (f_metrics f') (f_new_xorbs f') (f_registered f').

(* ---- the data interface as a table: external xorbs (hash, chunks, cap on the run length it will report) ---- *)
Definition xtable := list (hash * list chunk * N).
Fixpoint find_pos (h : hash) (chs : list chunk) (p : N) : option N :=
  match chs with
  | [] => None
  | c :: r => if bytes_eqb (fst c) h then Some p else find_pos h r (p + 1)
  end.
Fixpoint match_len (chs : list chunk) (qs : list hash) : N :=
  match chs, qs with
  | c :: cr, q :: qr => if bytes_eqb (fst c) q then 1 + match_len cr qr else 0
  | _, _ => 0
  end.
Fixpoint table_oracle (t : xtable) (qs : list hash) : option (N * seg) :=
  match qs with
  | [] => None
  | q0 :: _ =>
      match t with
      | [] => None
      | (xh, chs, cap) :: r =>
          match find_pos q0 chs 0 with
          | Some p =>
              let tail := skipn (N.to_nat p) chs in
              let n := N.min (match_len tail qs) (N.max cap 1) in
              Some (n, mkSeg xh 0 (u32wrap (sum_lens (firstn (N.to_nat n) tail))) p (p + n))
          | None => table_oracle r qs
          end
      end
  end.
(* pass 1 of process_chunks: ask the interface at every position not covered by an earlier answer *)
Fixpoint pass1 (fuel : nat) (ask : list hash -> option (N * seg)) (hs : list hash) : list (option (N * seg)) :=
  match fuel with
  | O => []
  | S fu =>
      match hs with
      | [] => []
      | _ :: _ =>
          match ask hs with
          | Some (n, s) => let k := N.to_nat (N.max n 1) in
                           Some (n, s) :: repeat None (Nat.min (k - 1) (length hs - 1)) ++ pass1 fu ask (skipn k hs)
          | None => None :: pass1 fu ask (skipn 1 hs)
          end
      end
  end.
Definition registered_table (f : fd) : xtable :=
  map (fun x => (ci_hash x, map (fun e => (ce_hash e, ce_bytes e)) (ci_chunks x), 1000000)) (rev (f_registered f)).
Definition process_block (bbd : bool) (cf : dcfg) (ext : xtable) (f : fd) (chunks : list chunk) : fd :=
  let hs := map fst chunks in
  process_chunks bbd cf f chunks (pass1 (length hs) (table_oracle (ext ++ registered_table f)) hs).

(* ---- DataAggregator ---- *)
Record agg := mkAgg { a_chunks : list chunk; a_files : list (file_info * list N) }.
Definition agg0 : agg := mkAgg [] [].
Definition a_bytes (a : agg) : N := sum_lens (a_chunks a).

(* FileDeduper::finalize *)
Fixpoint verification_hashes (segs : list seg) (hashes : list hash) : list hash :=
  match segs with
  | [] => []
  | s :: r => let n := N.to_nat (sg_end s - sg_start s) in
              range_hash_from_chunks (firstn n hashes) :: verification_hashes r (skipn n hashes)
  end.
Definition fd_finalize (f : fd) (salt : hash) (sha : option hash) : hash * agg * metrics * list hash :=
  let all := rev (f_hashes f) in
  let fh := match file_node_hash all salt with Some h => h | None => zero_hash end in
  let flags := N.lor MDB_FILE_FLAG_WITH_VERIFICATION (match sha with Some _ => MDB_FILE_FLAG_WITH_METADATA_EXT | None => 0 end) in
  let fi := mkFI fh flags 0 (f_info f) (verification_hashes (f_info f) (map fst all)) sha in
  (fh, mkAgg (f_new f) [(fi, f_iref f)], f_metrics f, rev (f_new_xorbs f)).

(* DataAggregator::merge_in *)
Definition shift_segs (segs : list seg) (shift : N) : list seg :=
  map (fun s => if bytes_eqb (sg_cas s) zero_hash then mkSeg (sg_cas s) (sg_flags s) (sg_bytes s) (sg_start s + shift) (sg_end s + shift) else s) segs.
Definition agg_merge (a b : agg) : agg :=
  let shift := N.of_nat (length (a_chunks a)) in
  mkAgg (a_chunks a ++ a_chunks b)
        (a_files a ++ map (fun fi => (mkFI (fi_hash (fst fi)) (fi_flags (fst fi)) (fi_unused (fst fi)) (shift_segs (fi_segs (fst fi)) shift)
                                            (fi_verif (fst fi)) (fi_ext (fst fi)), snd fi)) (a_files b)).
(* DataAggregator::finalize *)
Definition agg_finalize (a : agg) : cas_info * list file_info :=
  let x := raw_xorb (a_chunks a) in
  (x, map (fun fi => mkFI (fi_hash (fst fi)) (fi_flags (fst fi)) (fi_unused (fst fi))
                          (patch_segs (fi_segs (fst fi)) 0 (snd fi) (ci_hash x)) (fi_verif (fst fi)) (fi_ext (fst fi))) (a_files a)).

(* ---- session: register_single_file_clean_completion and finalize ---- *)
Record session := mkS {
  s_cur : agg;
  s_uploaded : list cas_info;           (* xorbs handed to the upload path (non-empty ones), reversed *)
  s_shard_cas : list cas_info;          (* cas blocks added to the session shard, reversed *)
  s_shard_files : list file_info;       (* file records added to the session shard, reversed *)
  s_metrics : metrics }.
Definition session0 : session := mkS agg0 [] [] [] m0.

(* process_aggregated_data_as_xorb; [registers_cas]: generated fact -- the aggregated xorb's cas info is added to the shard *)
Definition process_agg (registers_cas : bool) (s : session) (a : agg) : session :=
  let '(x, files) := agg_finalize a in
  let nonempty := negb (ci_nbytes x =? 0) in
  mkS (s_cur s)
      (if nonempty then x :: s_uploaded s else s_uploaded s)
      (if registers_cas && nonempty then x :: s_shard_cas s else s_shard_cas s)
      (rev files ++ s_shard_files s) (s_metrics s).

Definition register_completion (registers_cas : bool) (cf : dcfg) (s : session) (file : agg) (m : metrics) : session :=
  let cur := s_cur s in
  let s' :=
    if (c_max_xorb_bytes cf <? a_bytes cur + a_bytes file) || (c_max_xorb_chunks cf <? N.of_nat (length (a_chunks cur)) + N.of_nat (length (a_chunks file)))
    then
      (* cut: the larger (by bytes) of the two is uploaded, the other stays *)
      let '(keep, out) := if a_bytes file <? a_bytes cur then (file, cur) else (cur, file) in
      process_agg registers_cas (mkS keep (s_uploaded s) (s_shard_cas s) (s_shard_files s) (s_metrics s)) out
    else mkS (agg_merge cur file) (s_uploaded s) (s_shard_cas s) (s_shard_files s) (s_metrics s) in
  mkS (s_cur s') (s_uploaded s') (s_shard_cas s') (s_shard_files s') (m_add (s_metrics s') m).

(* mid-file xorbs: UploadSessionDataManager::register_new_xorb adds the cas block and uploads *)
Definition register_mid_xorbs (s : session) (xs : list cas_info) : session :=
  mkS (s_cur s) (rev xs ++ s_uploaded s) (rev xs ++ s_shard_cas s) (s_shard_files s) (s_metrics s).

Definition session_finalize (registers_cas : bool) (s : session) : session :=
  process_agg registers_cas (mkS agg0 (s_uploaded s) (s_shard_cas s) (s_shard_files s) (s_metrics s)) (s_cur s).

(* ---- reconstruction (LocalClient::get_file at the level of chunk identities) ---- *)
Definition store := list cas_info.
Fixpoint st_find (st : store) (h : hash) : option cas_info :=
  match st with [] => None | x :: r => if bytes_eqb (ci_hash x) h then Some x else st_find r h end.
Definition resolve_seg (st : store) (s : seg) : option (list chunk) :=
  match st_find st (sg_cas s) with
  | None => None
  | Some x =>
      if (sg_end s <? sg_start s) || (N.of_nat (length (ci_chunks x)) <? sg_end s) then None
      else Some (map (fun e => (ce_hash e, ce_bytes e)) (firstn (N.to_nat (sg_end s - sg_start s)) (skipn (N.to_nat (sg_start s)) (ci_chunks x))))
  end.
Fixpoint resolve_file (st : store) (segs : list seg) : option (list chunk) :=
  match segs with
  | [] => Some []
  | s :: r => match resolve_seg st s, resolve_file st r with
              | Some a, Some b => Some (a ++ b)
              | _, _ => None
              end
  end.
