(* The upload session's handling of xorb upload tasks and the final shard upload (C16): the JoinSet of running upload
   tasks, the reaping of finished tasks at every registration, the session-wide failure flag, the join loop of finalize
   and the shard upload after it.  The environment decides when every task finishes and whether it fails. *)
From Coq Require Import List NArith Bool Arith.
Import ListNotations.

Inductive tstatus := Running | FinishedOk | FinishedErr.

Record usess := {
  u_tasks : list (nat * tstatus);   (* the JoinSet *)
  u_sticky : bool;                  (* xorb_upload_failed *)
  u_recorded : list nat;            (* xorbs named by the session shard (add_cas_block happens before the upload is registered) *)
  u_stored : list nat;              (* xorbs whose put returned Ok *)
  u_failed : list nat               (* xorbs whose put returned Err *)
}.

Definition u_init : usess := {| u_tasks := []; u_sticky := false; u_recorded := []; u_stored := []; u_failed := [] |}.

(* try_join_next until the set has no finished task: Ok tasks are removed; the first failed one is removed too and its
   error returned.  With [honour] = false the failure is not remembered (the shape before the repair). *)
Fixpoint reap (ts : list (nat * tstatus)) : list (nat * tstatus) * bool :=   (* remaining, error seen *)
  match ts with
  | [] => ([], false)
  | (x, FinishedOk) :: r => reap r
  | (x, FinishedErr) :: r => (r, true)
  | t :: r => let '(r', e) := reap r in (t :: r', e)
  end.

(* register_new_xorb: record the xorb in the session shard, then register its upload.  Returns the state and whether the
   call returned Ok *)
Definition register (honour : bool) (s : usess) (x : nat) : usess * bool :=
  let s1 := {| u_tasks := u_tasks s; u_sticky := u_sticky s; u_recorded := x :: u_recorded s; u_stored := u_stored s; u_failed := u_failed s |} in
  if honour && u_sticky s then (s1, false)
  else
    let '(ts, e) := reap (u_tasks s) in
    if e then ({| u_tasks := ts; u_sticky := true; u_recorded := u_recorded s1; u_stored := u_stored s; u_failed := u_failed s |}, false)
    else ({| u_tasks := ts ++ [(x, Running)]; u_sticky := u_sticky s; u_recorded := u_recorded s1; u_stored := u_stored s; u_failed := u_failed s |}, true).

(* the environment: a running task finishes *)
Fixpoint set_status (ts : list (nat * tstatus)) (x : nat) (st : tstatus) : list (nat * tstatus) :=
  match ts with
  | [] => []
  | (y, Running) :: r => if Nat.eqb x y then (y, st) :: r else (y, Running) :: set_status r x st
  | t :: r => t :: set_status r x st
  end.
Definition has_running (ts : list (nat * tstatus)) (x : nat) : bool :=
  existsb (fun t => Nat.eqb (fst t) x && match snd t with Running => true | _ => false end) ts.
Definition finish (s : usess) (x : nat) (ok : bool) : usess :=
  if negb (has_running (u_tasks s) x) then s else
  {| u_tasks := set_status (u_tasks s) x (if ok then FinishedOk else FinishedErr); u_sticky := u_sticky s; u_recorded := u_recorded s;
     u_stored := if ok then x :: u_stored s else u_stored s; u_failed := if ok then u_failed s else x :: u_failed s |}.

(* finalize after the last registration: join every task (all have finished), then upload the shards.
   Some true: the shard upload starts; Some false: finalize returns an error before it; None: a task is still running *)
Definition all_finished (ts : list (nat * tstatus)) : bool := forallb (fun t => match snd t with Running => false | _ => true end) ts.
Definition any_err (ts : list (nat * tstatus)) : bool := existsb (fun t => match snd t with FinishedErr => true | _ => false end) ts.
Definition finalize_join (honour : bool) (s : usess) : option bool :=
  if honour && u_sticky s then Some false
  else if negb (all_finished (u_tasks s)) then None
  else Some (negb (any_err (u_tasks s))).

Inductive uev := URegister (x : nat) | UFinish (x : nat) (ok : bool).
Definition ustep (honour : bool) (s : usess) (e : uev) : usess :=
  match e with URegister x => fst (register honour s x) | UFinish x ok => finish s x ok end.
Definition urun (honour : bool) (s : usess) (es : list uev) : usess := fold_left (ustep honour) es s.

(* The session as its caller sees it: the results of its registration calls (a failed registration is an error returned by
   add_data / finish / finalize, whichever cut the xorb), then finalize -- the join, and when the join lets it start, the
   upload of the session's shards, each of which the environment lets succeed or fail.  [regs_ok]: every registration
   returned Ok.  session_result: None -- finalize is still waiting for a task; Some b -- the session reported success b. *)
Fixpoint regs_ok (honour : bool) (s : usess) (es : list uev) : bool :=
  match es with
  | [] => true
  | URegister x :: r => snd (register honour s x) && regs_ok honour (fst (register honour s x)) r
  | UFinish x ok :: r => regs_ok honour (finish s x ok) r
  end.
Definition session_result (honour : bool) (es : list uev) (shards : list bool) : option bool :=
  match finalize_join honour (urun honour u_init es) with
  | None => None
  | Some j => Some (regs_ok honour u_init es && j && forallb (fun b => b) shards)
  end.
(* the xorbs registered by a history, oldest first *)
Definition regs (es : list uev) : list nat := flat_map (fun e => match e with URegister x => [x] | UFinish _ _ => [] end) es.
