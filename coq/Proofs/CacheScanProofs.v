(* C13: the directory scan's accounting.  When DiskCache::initialize succeeds, the item count and the byte total it
   reports are the count and the summed lengths of the entries it tracks -- provided no two key directories of the
   listing decode to the same key (true of every directory the cache wrote itself; a second directory for the same key
   would replace the first one's entries in the map while both were counted). *)
From Coq Require Import ZArith NArith Bool List Lia ZifyBool ZifyN ZifyNat.
Import ListNotations.
From XetModel Require Import Base.Codec Gen.CacheFacts Model.Cache Proofs.CacheProofs.
Open Scope N_scope.

Arguments N.add : simpl never.
Arguments N.mul : simpl never.
Arguments N.leb : simpl never.
Arguments N.ltb : simpl never.
Arguments N.eqb : simpl never.

Lemma total_count_app a b : total_count (a ++ b) = total_count a + total_count b.
Proof. unfold total_count. induction a as [|x a IH]; cbn [app fold_right]; [lia | rewrite IH; lia]. Qed.
Lemma total_len_app a b : total_len (a ++ b) = total_len a + total_len b.
Proof. unfold total_len. induction a as [|x a IH]; cbn [app fold_right]; [lia | rewrite IH; lia]. Qed.
Lemma has_key_app tr tr' k : has_key (tr ++ tr') k = has_key tr k || has_key tr' k.
Proof. induction tr as [|[q its] r IH]; [reflexivity|]. cbn [app has_key]. rewrite IH, orb_assoc. reflexivity. Qed.

Lemma NoDup_app_l {A} (a b : list A) : NoDup (a ++ b) -> NoDup a.
Proof. induction a as [|x a IH]; intro H; [constructor|]. cbn [app] in H. inversion H; subst. constructor; [intro Hx; apply H2; apply in_or_app; left; exact Hx | apply IH; assumption]. Qed.

Section ScanAcc.
  Variable b64d : bytes -> option bytes.
  Variable utf8 : bytes -> bool.

  Definition AccA (a : scan_acc) : Prop := a_n a = total_count (a_tr a) /\ a_b a = total_len (a_tr a).
  Definition Inv (a : scan_acc) : Prop := (a_err a = true -> a_stop a = true) /\ (a_err a = false -> AccA a).

  Lemma tr_insert_fresh tr k its : has_key tr k = false -> tr_insert tr k its = tr ++ [(k, its)].
  Proof. intro H. unfold tr_insert. rewrite H. reflexivity. Qed.

  Lemma has_key_snoc tr k its q : has_key (tr ++ [(k, its)]) q = true -> has_key tr q = true \/ q = k.
  Proof.
    rewrite has_key_app. cbn [has_key]. rewrite orb_false_r. intro H. apply orb_true_iff in H as [H|H]; [left; exact H | right; apply bytes_eqb_eq; exact H].
  Qed.

  Lemma scan_items_acc capacity pp kd k : forall fl items a, has_key (a_tr a) k = false -> a_err a = false ->
    a_n a = total_count (a_tr a) + lenN items -> a_b a = total_len (a_tr a) + sum_len items ->
    let r := scan_items b64d capacity pp kd k fl items a in
    Inv r /\ (forall q, has_key (a_tr r) q = true -> has_key (a_tr a) q = true \/ q = k).
  Proof.
    induction fl as [|f fr IH]; intros items a Hk He Hn Hb; cbn [scan_items]; cbv zeta.
    - destruct items as [|x xs].
      + split; [|intros q Hq; left; exact Hq]. split; [rewrite He; discriminate|]. intros _. unfold AccA.
        rewrite Hn, Hb. unfold lenN. cbn [length]. rewrite sum_len_nil. split; lia.
      + cbn [a_tr]. rewrite tr_insert_fresh by exact Hk. split; [|intros q Hq; cbn [a_tr] in Hq; apply has_key_snoc in Hq; exact Hq].
        split; [cbn [a_err]; discriminate|]. intros _. unfold AccA. cbn [a_n a_b a_tr].
        rewrite total_count_app, total_len_app, total_count_cons, total_len_cons, total_count_nil, total_len_nil. split; lia.
    - destruct (try_parse_cache_file b64d capacity f) as [| |it|].
      + apply IH; assumption.
      + destruct (IH items {| a_tr := a_tr a; a_n := a_n a; a_b := a_b a; a_del := a_del a ++ [(pp, kd, f_name f)]; a_stop := false; a_err := false; a_panic := false |}) as [I1 I2]; cbn [a_tr a_n a_b a_err]; try assumption; try reflexivity.
        split; [exact I1 | exact I2].
      + destruct (SCAN_STOP_FACTOR * capacity <=? a_b a + i_len it) eqn:Es.
        * cbn [a_tr]. rewrite tr_insert_fresh by exact Hk. split; [|intros q Hq; cbn [a_tr] in Hq; apply has_key_snoc in Hq; exact Hq].
          split; [cbn [a_err]; discriminate|]. intros _. unfold AccA. cbn [a_n a_b a_tr].
          rewrite total_count_app, total_len_app, total_count_cons, total_len_cons, total_count_nil, total_len_nil.
          rewrite lenN_app, sum_len_snoc. unfold lenN at 2. cbn [length fst]. split; lia.
        * destruct (IH (items ++ [(it, false)]) {| a_tr := a_tr a; a_n := a_n a + 1; a_b := a_b a + i_len it; a_del := a_del a; a_stop := false; a_err := false; a_panic := false |}) as [I1 I2];
            cbn [a_tr a_n a_b a_err]; try assumption; try reflexivity.
          -- rewrite lenN_app. unfold lenN at 2. cbn [length]. lia.
          -- rewrite sum_len_snoc. cbn [fst]. lia.
          -- split; [exact I1 | exact I2].
      + cbn [a_tr]. split; [|intros q Hq; left; exact Hq]. split; [reflexivity | cbn [a_err]; discriminate].
  Qed.

  (* the keys the scan will insert for a prefix directory's listing, in order *)
  Definition keys_of_kl (pp : bytes) (kl : list kent) : list key :=
    flat_map (fun k => if (k_kind k =? 1) && prefix_matches pp (k_name k)
                       then match try_parse_key b64d utf8 (k_name k) with Some (Some key) => [key] | _ => [] end else []) kl.
  Definition keys_of_tree (tree : list pent) : list key :=
    flat_map (fun p => if (p_kind p =? 1) && Nat.eqb (length (p_name p)) PREFIX_DIR_NAME_LEN then keys_of_kl (p_name p) (p_keys p) else []) tree.
  Definition KeysIn (a : scan_acc) (L : list key) : Prop := forall q, has_key (a_tr a) q = true -> In q L.

  Lemma scan_keys_acc capacity pp : forall kl a L, Inv a -> KeysIn a L -> NoDup (L ++ keys_of_kl pp kl) ->
    let r := scan_keys b64d utf8 capacity pp kl a in Inv r /\ KeysIn r (L ++ keys_of_kl pp kl).
  Proof.
    induction kl as [|k kr IH]; intros a L HI HK HN; cbn [scan_keys keys_of_kl flat_map]; cbv zeta.
    - rewrite app_nil_r. auto.
    - fold (keys_of_kl pp kr). destruct (a_stop a) eqn:Est.
      { split; [exact HI | intros q Hq; apply in_or_app; left; apply HK; exact Hq]. }
      assert (Hea : a_err a = false). { destruct HI as [H1 _]. destruct (a_err a); [specialize (H1 eq_refl); congruence | reflexivity]. }
      cbn [keys_of_kl flat_map] in HN. fold (keys_of_kl pp kr) in HN.
      destruct (k_kind k =? 1) eqn:Ek; cbn [negb andb] in *; [|apply IH; assumption].
      destruct (prefix_matches pp (k_name k)) eqn:Ep; cbn [negb] in *; [|apply IH; assumption].
      destruct (try_parse_key b64d utf8 (k_name k)) as [[key|]|] eqn:Et.
      + (* a key directory: its key is fresh *)
        assert (Hfresh : has_key (a_tr a) key = false).
        { destruct (has_key (a_tr a) key) eqn:Hh; [|reflexivity]. exfalso. apply HK in Hh.
          apply NoDup_remove_2 in HN. apply HN. apply in_or_app. left. exact Hh. }
        destruct HI as [_ HA]. destruct (HA Hea) as [An Ab].
        destruct (scan_items_acc capacity pp (k_name k) key (k_files k) [] a Hfresh Hea) as [I1 I2].
        { rewrite An. unfold lenN. cbn [length]. lia. } { rewrite Ab, sum_len_nil. lia. }
        cbv zeta in I1, I2.
        replace (L ++ [key] ++ keys_of_kl pp kr) with ((L ++ [key]) ++ keys_of_kl pp kr) by (rewrite <- app_assoc; reflexivity).
        apply IH; [exact I1 | | rewrite <- app_assoc; exact HN].
        intros q Hq. apply in_or_app. destruct (I2 q Hq) as [H|H]; [left; apply HK; exact H | right; left; symmetry; exact H].
      + cbn [app] in HN |- *. apply IH; assumption.
      + (* a panic: the state is handed back as it is, with the stop flag set *)
        cbn [app] in HN |- *. split.
        * split; cbn [a_err a_stop]; [reflexivity | intros _; destruct HI as [_ HA]; apply (HA Hea)].
        * intros q Hq. cbn [a_tr] in Hq. apply in_or_app. left. apply HK. exact Hq.
  Qed.

  Lemma scan_prefixes_acc capacity : forall pl a L, Inv a -> KeysIn a L -> NoDup (L ++ keys_of_tree pl) ->
    let r := scan_prefixes b64d utf8 capacity pl a in Inv r /\ KeysIn r (L ++ keys_of_tree pl).
  Proof.
    induction pl as [|p pr IH]; intros a L HI HK HN; cbn [scan_prefixes keys_of_tree flat_map]; cbv zeta.
    - rewrite app_nil_r. auto.
    - fold (keys_of_tree pr). destruct (a_stop a) eqn:Est.
      { split; [exact HI | intros q Hq; apply in_or_app; left; apply HK; exact Hq]. }
      cbn [keys_of_tree flat_map] in HN. fold (keys_of_tree pr) in HN.
      destruct (p_kind p =? 1) eqn:Ek; cbn [negb andb] in *; [|apply IH; assumption].
      destruct (Nat.eqb (length (p_name p)) PREFIX_DIR_NAME_LEN) eqn:El; cbn [negb] in *; [|apply IH; assumption].
      rewrite app_assoc in HN |- *.
      destruct (scan_keys_acc capacity (p_name p) (p_keys p) a L HI HK) as [I1 I2].
      { apply NoDup_app_l in HN. exact HN. }
      apply IH; assumption.
  Qed.

  Theorem initialize_acc capacity tree s : NoDup (keys_of_tree tree) -> initialize b64d utf8 capacity tree = Some (inr s) -> Acc s.
  Proof.
    intros HN H. unfold initialize in H. destruct (capacity =? 0); [discriminate|].
    destruct (a_panic (cscan b64d utf8 capacity tree)); [discriminate|].
    destruct (a_err (cscan b64d utf8 capacity tree)) eqn:Ee; [discriminate|]. injection H as <-.
    unfold cscan in *. destruct (scan_prefixes_acc capacity tree {| a_tr := []; a_n := 0; a_b := 0; a_del := []; a_stop := false; a_err := false; a_panic := false |} []) as [[_ HA] _].
    - split; [cbn [a_err]; discriminate | intros _; split; reflexivity].
    - intros q Hq. discriminate Hq.
    - exact HN.
    - destruct (HA Ee) as [An Ab]. split; cbn [nitems tbytes tracked]; assumption.
  Qed.
End ScanAcc.

(* ---- the premise is needed: a second directory that decodes to an already scanned key (a copy of a key directory planted
   under a prefix directory that differs only in letter case) replaces the first one's entries in the map while both were
   counted.  Witness with an identity name decoder. ---- *)
Definition sx_key : bytes := [65; 66] ++ repeat 7 30%nat.                (* "AB" + 30 bytes: 32 bytes, its own directory name *)
Definition sx_item : item := {| i_s := 0; i_e := 1; i_len := 3; i_crc := 0 |}.
Definition sx_file : fent := {| f_name := ser_item sx_item; f_kind := 0; f_content := [1; 2; 3] |}.
Definition sx_kdir : kent := {| k_name := sx_key; k_kind := 1; k_files := [sx_file] |}.
Definition sx_tree : list pent := [ {| p_name := [65; 66]; p_kind := 1; p_keys := [sx_kdir] |}; {| p_name := [97; 98]; p_kind := 1; p_keys := [sx_kdir] |} ].
Lemma scan_duplicate_key_refuted :
  exists s, initialize (fun b => Some b) (fun _ => true) 100 sx_tree = Some (inr s) /\ nitems s = 2 /\ total_count (tracked s) = 1 /\ ~ Acc s.
Proof.
  eexists. split; [vm_compute; reflexivity|]. split; [reflexivity|]. split; [reflexivity|]. intros [H _]. vm_compute in H. discriminate.
Qed.
(* ... and it holds on an ordinary directory *)
Example scan_acc_example :
  let tree := [ {| p_name := [65; 66]; p_kind := 1; p_keys := [sx_kdir] |} ] in
  NoDup (keys_of_tree (fun b => Some b) (fun _ => true) tree) /\
  exists s, initialize (fun b => Some b) (fun _ => true) 100 tree = Some (inr s) /\ nitems s = 1.
Proof. cbv zeta. split; [vm_compute; repeat constructor; intros []|]. eexists. split; [vm_compute; reflexivity | reflexivity]. Qed.
