(* C05: dedup answers are truthful. *)
From Coq Require Import ZArith NArith Bool List Lia ZifyBool ZifyN ZifyNat.
Import ListNotations.
From XetModel Require Import Base.Codec Gen.ShardLayout Model.Merkle Model.Shard Proofs.CodecProofs Proofs.ShardProofs.
Open Scope N_scope.

Arguments N.add : simpl never.
Arguments N.mul : simpl never.
Arguments N.eqb : simpl never.
Arguments N.to_nat : simpl never.
Arguments N.of_nat : simpl never.

Lemma bytes_eqb_eq : forall a b, bytes_eqb a b = true -> a = b.
Proof.
  induction a as [|x a IH]; destruct b as [|y b]; cbn [bytes_eqb]; intros H; try discriminate; [reflexivity|].
  apply andb_prop in H as [H1 H2]. apply N.eqb_eq in H1. subst. f_equal. auto.
Qed.
Lemma bytes_eqb_refl : forall a, bytes_eqb a a = true.
Proof. induction a as [|x a IH]; cbn [bytes_eqb]; [reflexivity|]. rewrite N.eqb_refl, IH. reflexivity. Qed.

(* what a truthful answer is: the first n query hashes are, under the shard's key, the recorded hashes of
   xorb c at chunks [a, a+n), and the byte count is the sum of those chunks' lengths *)
Definition truthful (key : hash) (c : cas_info) (qs : list hash) (n : N) (s : seg) : Prop :=
  1 <= n /\ n <= N.of_nat (length qs) /\
  sg_cas s = ci_hash c /\ sg_flags s = ci_flags c /\
  sg_end s = sg_start s + n /\ sg_end s <= N.of_nat (length (ci_chunks c)) /\
  (forall i, (i < N.to_nat n)%nat ->
     exists ch q, nth_error (ci_chunks c) (N.to_nat (sg_start s) + i) = Some ch /\ nth_error qs i = Some q /\ ce_hash ch = keyed key q) /\
  sg_bytes s = sum_bytes32 (firstn (N.to_nat n) (skipn (N.to_nat (sg_start s)) (ci_chunks c))).

Lemma nth_error_skipn' {A} : forall n (l : list A) i, nth_error (skipn n l) i = nth_error l (n + i).
Proof. induction n as [|n IH]; intros l i; [reflexivity|]. destruct l; [destruct i; reflexivity|]. cbn. apply IH. Qed.

Lemma run_len_spec key : forall chs qs, 
  (run_len key chs qs <= length chs)%nat /\ (run_len key chs qs <= length qs)%nat /\
  forall i, (i < run_len key chs qs)%nat ->
    exists ch q, nth_error chs i = Some ch /\ nth_error qs i = Some q /\ ce_hash ch = keyed key q.
Proof.
  induction chs as [|c cr IH]; intros qs; [cbn; repeat split; try lia; intros; lia|].
  destruct qs as [|q qr]; [cbn; repeat split; try lia; intros; lia|].
  cbn [run_len]. destruct (bytes_eqb (ce_hash c) (keyed key q)) eqn:E; [|cbn; repeat split; try lia; intros; lia].
  destruct (IH qr) as (H1 & H2 & H3). cbn [length]. repeat split; try lia.
  intros [|i] Hi.
  - exists c, q. cbn. repeat split. apply bytes_eqb_eq; assumption.
  - cbn [nth_error]. apply H3. lia.
Qed.

Theorem direct_rec_truthful key c qs off n s : direct_rec key c qs off = Some (n, s) -> truthful key c qs n s.
Proof.
  unfold direct_rec. set (tail := skipn (N.to_nat off) (ci_chunks c)).
  destruct (run_len key tail qs) as [|k] eqn:Hr; [discriminate|]. intros H. inversion H; subst n s; clear H.
  destruct (run_len_spec key tail qs) as (H1 & H2 & H3). rewrite Hr in *.
  assert (Hlen : (length tail = length (ci_chunks c) - N.to_nat off)%nat) by (unfold tail; apply skipn_length).
  unfold truthful. cbn [sg_cas sg_flags sg_start sg_end sg_bytes].
  repeat split; try lia.
  - intros i Hi. destruct (H3 i ltac:(lia)) as (ch & q & Ha & Hb & Hc). exists ch, q. repeat split; auto.
    unfold tail in Ha. rewrite nth_error_skipn' in Ha. exact Ha.
  - replace (N.to_nat (N.of_nat (S k))) with (S k) by lia. reflexivity.
Qed.

(* the in-memory query: whatever the lookup table points at, a reported run is real *)
Lemma match_run_spec : forall chs qs,
  (length (match_run chs qs) <= length qs)%nat /\ match_run chs qs = firstn (length (match_run chs qs)) chs /\
  forall i, (i < length (match_run chs qs))%nat ->
    exists ch q, nth_error chs i = Some ch /\ nth_error qs i = Some q /\ ce_hash ch = q.
Proof.
  induction chs as [|c cr IH]; intros qs; [cbn; repeat split; try lia; intros; lia|].
  destruct qs as [|q qr]; [cbn; repeat split; try lia; intros; lia|].
  cbn [match_run]. destruct (bytes_eqb (ce_hash c) q) eqn:E; [|cbn; repeat split; try lia; intros; lia].
  destruct (IH qr) as (H1 & H2 & H3). cbn [length]. repeat split; try lia.
  - cbn [firstn]. f_equal. exact H2.
  - intros [|i] Hi; [exists c, q; cbn; repeat split; apply bytes_eqb_eq; assumption|]. cbn [nth_error]. apply H3. lia.
Qed.

Theorem mem_query_truthful m qs n s : mem_dedup_query m qs = Some (n, s) -> 1 <= n ->
  exists c, In c (map (fun kv => fst (snd kv)) (ms_lookup m)) /\ truthful zero_hash c qs n s.
Proof.
  unfold mem_dedup_query. destruct qs as [|q0 qr]; [discriminate|].
  destruct (lk_find (hkey q0) (ms_lookup m)) as [[c start]|] eqn:Hf; [|discriminate].
  set (tail := skipn (N.to_nat start) (ci_chunks c)). set (run := match_run tail (q0 :: qr)).
  intros H Hn. injection H as Hn' Hs. subst n.
  destruct (match_run_spec tail (q0 :: qr)) as (H1 & H2 & H3). fold run in H1, H2, H3.
  destruct run as [|r0 rr] eqn:Hrun; [cbn in Hn; lia|]. subst s.
  exists c. split.
  { clear -Hf. induction (ms_lookup m) as [|[k v] l IH]; [discriminate|]. cbn [lk_find] in Hf.
    destruct (hkey q0 =? k); [inversion Hf; subst; left; reflexivity|right; auto]. }
  assert (Hlen : (length tail = length (ci_chunks c) - N.to_nat start)%nat) by (unfold tail; apply skipn_length).
  assert (Hrl : (length (r0 :: rr) <= length tail)%nat) by (rewrite H2, firstn_length; lia).
  unfold truthful. cbn [sg_cas sg_flags sg_start sg_end sg_bytes].
  repeat split; try lia.
  - intros i Hi. destruct (H3 i ltac:(lia)) as (ch & q & Ha & Hb & Hc). exists ch, q.
    unfold keyed. rewrite bytes_eqb_refl. repeat split; auto.
    unfold tail in Ha. rewrite nth_error_skipn' in Ha. exact Ha.
  - replace (N.to_nat (N.of_nat (length (r0 :: rr)))) with (length (r0 :: rr)) by lia. fold tail. rewrite <- H2. reflexivity.
Qed.

(* ---- the byte-level query (what the correspondence executes) computes the record-level one ---- *)
Lemma skipn_skipn2 {A} : forall a m (l : list A), skipn m (skipn a l) = skipn (a + m) l.
Proof. induction a as [|a IH]; intros m l; [reflexivity|]. destruct l; cbn; [destruct m; reflexivity|apply IH]. Qed.

Lemma skipn_flat_map48 : forall (k : nat) (chs : list chunk_ent) rest, Forall wf_chunk chs ->
  skipn (48 * k) (flat_map ser_chunk chs ++ rest) = flat_map ser_chunk (skipn k chs) ++ skipn (48 * (k - length chs)) rest.
Proof.
  induction k as [|k IH]; intros chs rest HF.
  - cbn. reflexivity.
  - destruct chs as [|c chs].
    + cbn [flat_map app skipn length]. replace (S k - 0)%nat with (S k) by lia. reflexivity.
    + inversion HF; subst. cbn [flat_map skipn length]. rewrite <- app_assoc.
      replace (48 * S k)%nat with (length (ser_chunk c) + 48 * k)%nat by (rewrite len_ser_chunk by assumption; lia).
      rewrite <- skipn_skipn2.
      rewrite skipn_app, skipn_all, PeanoNat.Nat.sub_diag. cbn [skipn app]. rewrite IH by assumption.
      replace (S k - S (length chs))%nat with (k - length chs)%nat by lia. reflexivity.
Qed.

Lemma found_seg_eq (a a' : N) ch cfl (b b' : N) off (c c' : N) : a = a' -> b = b' -> c = c' ->
  @Found (option (N * seg)) (Some (a, mkSeg ch cfl b off c)) = Found (Some (a', mkSeg ch cfl b' off c')).
Proof. intros; subst; reflexivity. Qed.
Ltac seg_solve := unfold sum_bytes32; cbn [fold_right firstn]; apply found_seg_eq; lia.

Lemma direct_loop_spec key ch cfl n off : forall tail fuel i qs' rest nb, Forall wf_chunk tail ->
  (length qs' < fuel)%nat -> off + i + N.of_nat (length tail) = n ->
  direct_loop key ch cfl n off fuel i qs' (flat_map ser_chunk tail ++ rest) nb =
  let k := run_len key tail qs' in
  Found (Some (i + N.of_nat k, mkSeg ch cfl (nb + sum_bytes32 (firstn k tail)) off (off + (i + N.of_nat k)))).
Proof.
  induction tail as [|c t IH]; intros fuel i qs' rest nb HF Hfuel Hn; (destruct fuel as [|fuel]; [exfalso; lia|]).
  - cbn [direct_loop length] in *. replace (off + i =? n) with true by lia.
    cbn [run_len]. cbv zeta. seg_solve.
  - inversion HF; subst. cbn [direct_loop length flat_map] in *. replace (off + i =? off + i + N.of_nat (S (length t))) with false by lia.
    rewrite <- app_assoc. rewrite parse_ser_chunk by assumption.
    destruct qs' as [|q qr].
    + cbn [run_len]. cbv zeta. seg_solve.
    + cbn [run_len]. destruct (bytes_eqb (ce_hash c) (keyed key q)) eqn:E.
      * rewrite IH by (auto; cbn [length] in *; lia). cbv zeta. seg_solve.
      * cbv zeta. seg_solve.
Qed.

(* the bytes at the block's position are the serialisation of a well-formed block c, and the hint points
   inside it: then the byte-level query answers exactly what the record-level one does *)
Theorem dedup_direct_is_rec bs ft qs idx off c rest : wf_cas c -> qs <> [] ->
  skipn (N.to_nat (ft_cas_info_offset ft + 48 * idx)) bs = ser_cas_info c ++ rest ->
  off < N.of_nat (length (ci_chunks c)) ->
  dedup_direct bs ft qs idx off = Found (direct_rec (ft_key ft) c qs off).
Proof.
  intros (H1 & H2 & H3 & H4 & H5 & H6 & H7) Hq Hb Hoff. unfold dedup_direct, direct_rec.
  destruct qs as [|q0 qrest]; [congruence|]. rewrite Hb. unfold ser_cas_info. rewrite <- app_assoc.
  rewrite rt_CASChunkSequenceHeader by assumption.
  rewrite skipn_flat_map48 by assumption. replace (N.to_nat off - length (ci_chunks c))%nat with 0%nat by lia.
  cbn [Nat.mul skipn].
  destruct (skipn (N.to_nat off) (ci_chunks c)) as [|c0 tail] eqn:Ht.
  { exfalso. assert (length (skipn (N.to_nat off) (ci_chunks c)) = 0%nat) by (rewrite Ht; reflexivity). rewrite skipn_length in H. lia. }
  assert (HF : Forall wf_chunk (c0 :: tail)).
  { rewrite <- Ht. clear -H7. revert H7. generalize (N.to_nat off). intros k. revert k. induction (ci_chunks c) as [|x l IH]; intros k H7; destruct k; cbn; auto.
    - inversion H7; auto. }
  inversion HF; subst. cbn [flat_map]. rewrite <- app_assoc. rewrite parse_ser_chunk by assumption.
  cbn [run_len]. destruct (bytes_eqb (ce_hash c0) (keyed (ft_key ft) q0)) eqn:E; cbn [negb]; [|reflexivity].
  assert (Hlen : (length (c0 :: tail) = length (ci_chunks c) - N.to_nat off)%nat) by (rewrite <- Ht; apply skipn_length).
  rewrite direct_loop_spec by (auto; cbn [length] in *; lia). cbv zeta.
  f_equal. unfold sum_bytes32; cbn [fold_right firstn]. f_equal. f_equal; [lia|]. f_equal; lia.
Qed.
