(* C10: the sortedness premise of the exact difference is met by every shard the client writes: an in-memory shard built
   by any sequence of adds keeps its record lists sorted by key (MInv), and serialize_from writes them in that order *)
From Coq Require Import ZArith NArith Bool List Lia.
Import ListNotations.
From XetModel Require Import Base.Codec Gen.ShardLayout Model.Merkle Model.Shard Proofs.CodecProofs Proofs.ShardProofs Proofs.SetOpProofs Proofs.SetOpSortedProofs Proofs.ShardSizeProofs.
Open Scope N_scope.

Theorem difference_exact_for_built_shards opsA opsB : Forall mop_ok opsA -> Forall mop_ok opsB ->
  let a := fold_left mstep_add opsA ms_empty in let b := fold_left mstep_add opsB ms_empty in
  (forall f, In f (diff_files (length (ms_files a) + length (ms_files b)) (ms_files a) (ms_files b)) <-> In f (ms_files b) /\ ~ In (fkey f) (map fkey (ms_files a))) /\
  (forall c, In c (diff_cas (length (ms_cass a) + length (ms_cass b)) (ms_cass a) (ms_cass b)) <-> In c (ms_cass b) /\ ~ In (ckey c) (map ckey (ms_cass a))).
Proof.
  intros Ha Hb a b.
  destruct (built_inv opsA ms_empty MInv_empty (Forall_nil _) (Forall_nil _) Ha) as ([A1 A2 _ _ _] & _ & _).
  destruct (built_inv opsB ms_empty MInv_empty (Forall_nil _) (Forall_nil _) Hb) as ([B1 B2 _ _ _] & _ & _).
  fold a in A1, A2. fold b in B1, B2. split.
  - intro f. apply diff_files_spec; [lia | exact A1 | exact B1].
  - intro c. apply diff_cas_spec; [lia | exact A2 | exact B2].
Qed.
