(* C15 (last sentence): no file record is emitted with an unresolved xorb reference.  Every segment of every record in the
   session shard spans at least one chunk and -- because the record resolves in the store (C01) -- names a xorb other than
   the all-zero "pending data" placeholder. *)
From Coq Require Import ZArith NArith Bool List Lia ZifyBool ZifyN ZifyNat.
Import ListNotations.
From XetModel Require Import Base.Codec Gen.ShardLayout Gen.DedupFacts Model.Merkle Model.Shard Model.Dedup Proofs.PipelineProofs Proofs.ResolveProofs.
Open Scope N_scope.

Arguments N.add : simpl never.
Arguments N.sub : simpl never.
Arguments N.ltb : simpl never.
Arguments N.leb : simpl never.
Arguments N.eqb : simpl never.
Arguments N.to_nat : simpl never.
Arguments N.of_nat : simpl never.

Definition SegsNem (segs : list seg) : Prop := forall s, In s segs -> sg_start s < sg_end s.

Lemma shift_segs_nem l k : SegsNem l -> SegsNem (shift_segs l k).
Proof.
  intros H s Hs. unfold shift_segs in Hs. apply in_map_iff in Hs as (s0 & <- & Hs0). specialize (H s0 Hs0).
  destruct (bytes_eqb (sg_cas s0) zero_hash); cbn [sg_start sg_end]; lia.
Qed.
Lemma patch_segs_nem : forall l idx iref h, SegsNem l -> SegsNem (patch_segs l idx iref h).
Proof.
  induction l as [|s t IH]; intros idx iref h H s' Hs'; cbn [patch_segs] in Hs'; [destruct Hs'|]. destruct Hs' as [<-|Hs'].
  - specialize (H s (or_introl eq_refl)). destruct (existsb (N.eqb idx) iref); cbn [sg_start sg_end]; exact H.
  - eapply IH; [|exact Hs']. intros s0 Hs0. apply H. right. exact Hs0.
Qed.

Definition AggNem (a : agg) : Prop := forall fi iref, In (fi, iref) (a_files a) -> SegsNem (fi_segs fi).
Definition FilesNem (fs : list file_info) : Prop := forall fi, In fi fs -> SegsNem (fi_segs fi).
Definition SNem (s : session) : Prop := AggNem (s_cur s) /\ FilesNem (s_shard_files s).

Lemma agg_merge_nem a b : AggNem a -> AggNem b -> AggNem (agg_merge a b).
Proof.
  intros Ha Hb fi iref H. unfold agg_merge in H. cbn [a_files] in H. apply in_app_or in H as [H|H]; [eapply Ha; exact H|].
  apply in_map_iff in H as ([fi0 iref0] & E & H). injection E as <- <-. cbn [fi_segs fst]. apply shift_segs_nem. eapply Hb. exact H.
Qed.
Lemma agg_finalize_nem a : AggNem a -> FilesNem (snd (agg_finalize a)).
Proof.
  intros Ha fi H. unfold agg_finalize in H. cbn [snd] in H. apply in_map_iff in H as ([fi0 iref0] & <- & H). cbn [fi_segs fst snd].
  apply patch_segs_nem. eapply Ha. exact H.
Qed.
Lemma process_agg_nem rc s a : SNem s -> AggNem a -> SNem (process_agg rc s a).
Proof.
  intros [Hc Hf] Ha. unfold process_agg. pose proof (agg_finalize_nem a Ha) as Hn. destruct (agg_finalize a) as [x files]. cbn [snd] in Hn.
  split; cbn [s_cur s_shard_files]; [exact Hc|]. intros fi H. apply in_app_or in H as [H|H]; [apply Hn; apply in_rev; exact H | apply Hf; exact H].
Qed.
Lemma register_completion_nem rc cf s file m : SNem s -> AggNem file -> SNem (register_completion rc cf s file m).
Proof.
  intros [Hc Hf] Ha. unfold register_completion. cbv zeta.
  destruct ((c_max_xorb_bytes cf <? a_bytes (s_cur s) + a_bytes file) || (c_max_xorb_chunks cf <? N.of_nat (length (a_chunks (s_cur s))) + N.of_nat (length (a_chunks file)))).
  - destruct (a_bytes file <? a_bytes (s_cur s)).
    + destruct (process_agg_nem rc (mkS file (s_uploaded s) (s_shard_cas s) (s_shard_files s) (s_metrics s)) (s_cur s)) as [A B]; [split; assumption | exact Hc|].
      split; cbn [s_cur s_shard_files]; assumption.
    + destruct (process_agg_nem rc (mkS (s_cur s) (s_uploaded s) (s_shard_cas s) (s_shard_files s) (s_metrics s)) file) as [A B]; [split; assumption | exact Ha|].
      split; cbn [s_cur s_shard_files]; assumption.
  - split; cbn [s_cur s_shard_files]; [apply agg_merge_nem; assumption | exact Hf].
Qed.

Section NoSelfRef.
  Variables (F : store) (U : list chunk).
  Hypothesis HS : StoreOk F U.

  Lemma op_ok_nem o : op_ok F U o -> match o with OpMid _ => True | OpFile a _ _ => AggNem a end.
  Proof.
    destruct o as [xs|a m g]; [trivial|]. intros [_ [Hall _]] fi iref H. destruct (Hall fi iref H) as (cs & _ & (_ & _ & Hn)). exact Hn.
  Qed.

  Lemma fold_nem rc cf : forall ops s, SNem s -> Forall (op_ok F U) ops -> SNem (fold_left (sstep rc cf) ops s).
  Proof.
    induction ops as [|o r IH]; intros s Hs Hok; [exact Hs|]. inversion Hok as [|? ? Ho Hr]; subst. cbn [fold_left]. apply IH; [|exact Hr].
    pose proof (op_ok_nem o Ho) as Hn. destruct o as [xs|a m g]; cbn [sstep].
    - destruct Hs as [A B]. split; cbn [register_mid_xorbs s_cur s_shard_files]; assumption.
    - apply register_completion_nem; assumption.
  Qed.

  (* a resolving, non-empty segment does not name the placeholder *)
  Lemma resolved_not_placeholder : forall segs cs, resolve_file F segs = Some cs -> SegsNem segs -> forall s, In s segs -> sg_cas s <> zero_hash.
  Proof.
    intros segs cs Hr Hn s Hs Hz. destruct (resolved_segments_in_range F segs cs Hr s Hs) as (x & Hx & H1 & H2).
    destruct HS as [Anc Anz _ _ _]. destruct (st_find_in F _ _ Hx) as [Hin Hh].
    assert (Hc : chunks_of x = []).
    { destruct (chunks_of x) eqn:E; [reflexivity|]. exfalso. apply (Anz x Hin); [rewrite E; discriminate | congruence]. }
    rewrite Hc in H2. cbn [length] in H2. specialize (Hn s Hs). lia.
  Qed.

  Theorem session_no_unresolved_reference rc cf ops : Forall (op_ok F U) ops ->
    (forall x, In x (s_uploaded (srun rc cf ops)) -> In x F) ->
    forall fi s, In fi (s_shard_files (srun rc cf ops)) -> In s (fi_segs fi) -> sg_cas s <> zero_hash /\ sg_start s < sg_end s.
  Proof.
    intros Hok Hup fi s Hfi Hs. pose proof HS as [A B C D E].
    destruct (session_files_resolve F A B U C D E rc cf ops Hok Hup) as (_ & Hall & _).
    assert (H0 : SNem session0) by (split; [intros fi0 iref0 [] | intros fi0 []]).
    assert (Hn : SNem (srun rc cf ops)).
    { unfold srun, session_finalize. destruct (fold_nem rc cf ops session0 H0 Hok) as [Hc Hd]. apply process_agg_nem; [|exact Hc].
      split; cbn [s_cur s_shard_files]; [intros fi0 iref0 [] | exact Hd]. }
    destruct Hn as [_ Hd]. destruct (Hall fi Hfi) as (cs & _ & Hr). split.
    - eapply resolved_not_placeholder; [exact Hr | apply Hd; exact Hfi | exact Hs].
    - apply (Hd fi Hfi s Hs).
  Qed.
End NoSelfRef.
