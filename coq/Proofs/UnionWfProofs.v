(* C10: away from known finding K2 the union of two well-formed record lists is well-formed.  When every pair of records of
   one file (one from each input) has segment lists of the same length, every record of the union is well-formed; the xorb
   records of the union are input records.  With the size bounds this gives ShardOk of the union, the premise of the merge
   theorems (C10_merge_covers_inputs, UnionsOk of C19's group theorem), from ShardOk of the inputs. *)
From Coq Require Import ZArith NArith Bool List Lia.
Import ListNotations.
From XetModel Require Import Base.Codec Gen.ShardLayout Model.Merkle Model.Shard Proofs.CodecProofs Proofs.ShardProofs Proofs.SetOpProofs Proofs.ShardWholeProofs Proofs.ShardDedupWholeProofs Proofs.MergeAllProofs.
Open Scope N_scope.

Lemma merged_flags (hv he : bool) :
  has_verif (N.lor MDB_DEFAULT_FILE_FLAG (N.lor (if hv then MDB_FILE_FLAG_WITH_VERIFICATION else 0) (if he then MDB_FILE_FLAG_WITH_METADATA_EXT else 0))) = hv /\
  has_ext (N.lor MDB_DEFAULT_FILE_FLAG (N.lor (if hv then MDB_FILE_FLAG_WITH_VERIFICATION else 0) (if he then MDB_FILE_FLAG_WITH_METADATA_EXT else 0))) = he /\
  is_u32 (N.lor MDB_DEFAULT_FILE_FLAG (N.lor (if hv then MDB_FILE_FLAG_WITH_VERIFICATION else 0) (if he then MDB_FILE_FLAG_WITH_METADATA_EXT else 0))).
Proof. destruct hv, he; vm_compute; repeat split; reflexivity. Qed.

(* the merge of two well-formed records of one file with equally many segments is well-formed *)
Theorem merge_disk_wf a b : wf_file a -> wf_file b -> length (fi_segs a) = length (fi_segs b) -> wf_file (merge_disk a b).
Proof.
  intros (Ha & Hbk & _ & _ & Hn & Hs & Hva & Hca & Hea) (_ & _ & _ & _ & _ & _ & Hvb & Hcb & Heb) L.
  unfold wf_file, merge_disk. cbn [fi_hash fi_flags fi_unused fi_segs fi_verif fi_ext].
  destruct (merged_flags (has_verif (fi_flags a) || has_verif (fi_flags b)) (has_ext (fi_flags a) || has_ext (fi_flags b))) as (Fv & Fe & Fu).
  split; [exact Ha|]. split; [exact Hbk|]. split; [exact Fu|]. split; [unfold is_u64; lia|]. split; [exact Hn|]. split; [exact Hs|].
  split; [|split].
  - destruct (has_verif (fi_flags a)); cbn [orb]; [exact Hva|]. destruct (has_verif (fi_flags b)); [exact Hvb | constructor].
  - rewrite Fv. destruct (has_verif (fi_flags a)); cbn [orb]; [exact Hca|]. destruct (has_verif (fi_flags b)); [congruence | reflexivity].
  - rewrite Fe. destruct (has_ext (fi_flags a)); cbn [orb]; [exact Hea|]. destruct (has_ext (fi_flags b)); [exact Heb | reflexivity].
Qed.

(* no pair of records of one file with different segment counts: the inputs are outside K2 *)
Definition SameSegs (fa fb : list file_info) : Prop :=
  forall x y, In x fa -> In y fb -> fkey x = fkey y -> length (fi_segs x) = length (fi_segs y).

Theorem union_files_wf fuel fa fb : Forall wf_file fa -> Forall wf_file fb -> SameSegs fa fb -> Forall wf_file (union_files fuel fa fb).
Proof.
  intros Ha Hb S. rewrite Forall_forall in *. intros f Hf.
  destruct (union_files_records fuel fa fb f Hf) as [H|[H|(x & y & Hx & Hy & K & ->)]]; [apply Ha; exact H | apply Hb; exact H|].
  apply merge_disk_wf; [apply Ha; exact Hx | apply Hb; exact Hy | apply S; assumption].
Qed.
Theorem union_cas_wf fuel ca cb : Forall wf_cas ca -> Forall wf_cas cb -> Forall wf_cas (union_cas fuel ca cb).
Proof.
  intros Ha Hb. rewrite Forall_forall in *. intros c Hc. destruct (union_cas_records fuel ca cb c Hc) as [H|H]; [apply Ha | apply Hb]; exact H.
Qed.
Lemma merge_disk_hash a b : fi_hash (merge_disk a b) = fi_hash a.
Proof. reflexivity. Qed.
Theorem union_files_hash_bytes fuel fa fb : Forall (fun f => Forall (fun b => b < 256) (fi_hash f)) fa -> Forall (fun f => Forall (fun b => b < 256) (fi_hash f)) fb ->
  Forall (fun f => Forall (fun b => b < 256) (fi_hash f)) (union_files fuel fa fb).
Proof.
  intros Ha Hb. rewrite Forall_forall in *. intros f Hf.
  destruct (union_files_records fuel fa fb f Hf) as [H|[H|(x & y & Hx & Hy & K & ->)]]; [apply Ha; exact H | apply Hb; exact H|].
  rewrite merge_disk_hash. apply Ha. exact Hx.
Qed.

(* ShardOk of the union from ShardOk of the inputs, away from K2, given the size bounds of the result *)
Theorem union_shard_ok fa ca ta ka cra exa fb cb tb kb crb exb :
  ShardOk fa ca ta ka cra exa -> ShardOk fb cb tb kb crb exb -> SameSegs fa fb ->
  let fu := union_files (length fa + length fb) fa fb in let cu := union_cas (length ca + length cb) ca cb in
  is_u64 (sum_ndisk cu) -> is_u64 (sum_materialized fu) -> is_u64 (sum_nbytes cu) ->
  N.of_nat (length (w_bs fu cu (d_ctbl cu) zero_hash 0 u64max)) < 4294967296 ->
  ShardOk fu cu (d_ctbl cu) zero_hash 0 u64max.
Proof.
  intros (A1 & A2 & _ & _ & _ & _ & _ & _ & _ & A10) (B1 & B2 & _ & _ & _ & _ & _ & _ & _ & B10) S fu cu S1 S2 S3 L.
  unfold ShardOk. split; [apply union_files_wf; assumption|]. split; [apply union_cas_wf; assumption|].
  split; [reflexivity|]. split; [unfold is_u64; lia|]. split; [unfold is_u64, u64max; lia|].
  split; [exact S1|]. split; [exact S2|]. split; [exact S3|]. split; [exact L|]. apply union_files_hash_bytes; assumption.
Qed.

(* a whole consolidation group: the premise UnionsOk of the group theorems (every intermediate union is a well-formed shard)
   follows from the inputs being well-formed, no step meeting a K2 pair, and the sizes of the intermediate results *)
Definition fits (s : sshard) : Prop :=
  is_u64 (sum_ndisk (ss_cass s)) /\ is_u64 (sum_materialized (ss_files s)) /\ is_u64 (sum_nbytes (ss_cass s)) /\ N.of_nat (length (ss_bytes s)) < 4294967296.
Fixpoint StepsFit (acc : sshard) (g : list sshard) : Prop :=
  match g with
  | [] => True
  | s :: r => SameSegs (ss_files acc) (ss_files s) /\ fits (ss_union acc s) /\ StepsFit (ss_union acc s) r
  end.
Theorem unions_ok_from_steps : forall g acc, ss_ok acc -> Forall ss_ok g -> StepsFit acc g -> UnionsOk acc g /\ ss_ok (ss_unions acc g).
Proof.
  induction g as [|s r IH]; intros acc Ha Hg Hf; cbn [UnionsOk ss_unions]; [split; [exact I | exact Ha]|].
  inversion Hg as [|? ? Hs Hr]; subst. destruct Hf as (S & (F1 & F2 & F3 & F4) & Hrest).
  assert (U : ss_ok (ss_union acc s)).
  { unfold ss_ok, ss_union. cbn [ss_files ss_cass ss_ctbl ss_key ss_created ss_expiry].
    apply (union_shard_ok _ _ _ _ _ _ _ _ _ _ _ _ Ha Hs S); assumption. }
  destruct (IH (ss_union acc s) U Hr Hrest) as [A B]. split; [split; assumption | exact B].
Qed.
