(* C07: chunk and xorb round trips (over an arbitrary LZ4 codec that round-trips and an arbitrary scheme choice). *)
From Coq Require Import ZArith NArith Bool List Lia ZifyBool ZifyN ZifyNat.
Import ListNotations.
From XetModel Require Import Base.Codec Gen.HashConsts Gen.XorbLayout Model.Merkle Model.Shard Model.Xorb Proofs.Bg4Proofs.
Open Scope N_scope.

Arguments N.add : simpl never.
Arguments N.mul : simpl never.
Arguments N.div : simpl never.
Arguments N.modulo : simpl never.
Arguments N.ltb : simpl never.
Arguments N.leb : simpl never.
Arguments N.eqb : simpl never.
Arguments N.to_nat : simpl never.
Arguments N.of_nat : simpl never.

Ltac Zify.zify_post_hook ::= Z.div_mod_to_equations.

Lemma le_val_3 x : x < 16777216 -> le_val [x mod 256; x / 256 mod 256; x / 256 / 256 mod 256] = x.
Proof. intros H. unfold le_val, fold_right. lia. Qed.

Definition hdr_ok (h : chdr) : Prop :=
  h_version h = CHUNK_CURRENT_VERSION /\ h_scheme h <= MAX_SCHEME /\ h_clen h <= MAXIMUM_CHUNK_SIZE * 2 /\ h_ulen h <= MAXIMUM_CHUNK_SIZE.

Lemma dec_enc_chdr h : hdr_ok h -> dec_chdr (enc_chdr h) = ROk h.
Proof.
  intros (Hv & Hs & Hc & Hu). unfold enc_chdr, dec_chdr. cbn [app le_bytes].
  unfold MAXIMUM_CHUNK_SIZE, MAX_SCHEME, CHUNK_CURRENT_VERSION in *.
  rewrite !le_val_3 by lia. unfold scheme_ok, MAX_SCHEME, CHUNK_CURRENT_VERSION, MAXIMUM_CHUNK_SIZE.
  cbn [h_clen h_ulen h_version h_scheme]. replace (h_scheme h <=? 2) with true by lia. cbn [negb].
  replace (0 <? h_version h) with false by lia.
  replace (131072 * 2 <? h_clen h) with false by lia.
  replace (131072 <? h_ulen h) with false by lia.
  destruct h; reflexivity.
Qed.

Lemma enc_chdr_length h : length (enc_chdr h) = 8%nat.
Proof. reflexivity. Qed.

Lemma take_app (a r : list N) n : length a = n -> take n (a ++ r) = Some (a, r).
Proof.
  intros H. unfold take, has. rewrite app_length. replace (Nat.leb n (length a + length r)) with true by (symmetry; apply Nat.leb_le; lia).
  subst n. rewrite firstn_app, Nat.sub_diag, firstn_all, skipn_app, Nat.sub_diag, skipn_all. cbn. rewrite app_nil_r. reflexivity.
Qed.

Section WithLz4.
  Variable lz4c : list N -> list N.
  Variable lz4d : list N -> option (list N).
  Variable choose : list N -> N.
  Hypothesis lz4_roundtrip : forall x, lz4d (lz4c x) = Some x.
  Hypothesis choose_valid : forall x, choose x <= MAX_SCHEME.

  Definition scheme_valid (s : option N) : Prop := match s with Some s => s <= MAX_SCHEME | None => True end.
  Definition chunk_valid (c : list N) : Prop := 1 <= N.of_nat (length c) /\ N.of_nat (length c) <= MAXIMUM_CHUNK_SIZE.

  Lemma decompress_compress s x : s <= MAX_SCHEME -> decompress lz4d s (compress lz4c s x) = Some x.
  Proof.
    intros Hs. unfold decompress, compress. destruct (s =? 0) eqn:E0; [reflexivity|].
    destruct (s =? 1) eqn:E1; [apply lz4_roundtrip|]. rewrite lz4_roundtrip, bg4_regroup_split. reflexivity.
  Qed.

  (* what serialize_chunk writes: the scheme actually used and the payload *)
  Definition used_scheme (chunk : list N) (scheme : option N) : N :=
    let s := match scheme with Some s => s | None => choose chunk end in
    if Nat.leb (length chunk) (length (compress lz4c s chunk)) then 0 else s.
  Definition payload_of (chunk : list N) (scheme : option N) : list N :=
    let s := match scheme with Some s => s | None => choose chunk end in
    if Nat.leb (length chunk) (length (compress lz4c s chunk)) then chunk else compress lz4c s chunk.

  Lemma serialize_chunk_shape chunk scheme :
    serialize_chunk lz4c choose chunk scheme =
    enc_chdr (mkHdr CHUNK_CURRENT_VERSION (N.of_nat (length (payload_of chunk scheme))) (used_scheme chunk scheme) (N.of_nat (length chunk)))
    ++ payload_of chunk scheme.
  Proof.
    unfold serialize_chunk, used_scheme, payload_of.
    destruct (Nat.leb (length chunk) (length (compress lz4c _ chunk))); reflexivity.
  Qed.

  (* fallback: a payload that is not shorter than the chunk is never stored; the header then says None *)
  Theorem fallback_sound chunk scheme :
    (length (payload_of chunk scheme) <= length chunk)%nat /\
    (used_scheme chunk scheme = 0 -> payload_of chunk scheme = chunk) /\
    (used_scheme chunk scheme <> 0 -> (length (payload_of chunk scheme) < length chunk)%nat).
  Proof.
    unfold used_scheme, payload_of. set (s := match scheme with Some s => s | None => choose chunk end).
    destruct (Nat.leb (length chunk) (length (compress lz4c s chunk))) eqn:E.
    - split; [lia|]. split; [reflexivity|]. intros H. congruence.
    - apply Nat.leb_gt in E. split; [lia|]. split; [|lia].
      intros H. unfold compress. rewrite H. reflexivity.
  Qed.

  Lemma payload_decompress chunk scheme : scheme_valid scheme ->
    decompress lz4d (used_scheme chunk scheme) (payload_of chunk scheme) = Some chunk.
  Proof.
    intros Hs. unfold used_scheme, payload_of. set (s := match scheme with Some s => s | None => choose chunk end).
    assert (Hsv : s <= MAX_SCHEME) by (unfold s; destruct scheme; [exact Hs|apply choose_valid]).
    destruct (Nat.leb (length chunk) (length (compress lz4c s chunk))); [reflexivity|apply decompress_compress; assumption].
  Qed.

  Lemma chunk_hdr_ok chunk scheme : scheme_valid scheme -> chunk_valid chunk ->
    hdr_ok (mkHdr CHUNK_CURRENT_VERSION (N.of_nat (length (payload_of chunk scheme))) (used_scheme chunk scheme) (N.of_nat (length chunk))).
  Proof.
    intros Hs [H1 H2]. destruct (fallback_sound chunk scheme) as (F1 & _ & _).
    unfold hdr_ok. cbn [h_version h_scheme h_clen h_ulen]. repeat split; try lia.
    unfold used_scheme. destruct (Nat.leb _ _); [unfold MAX_SCHEME; lia|]. destruct scheme; [exact Hs|apply choose_valid].
  Qed.

  (* C07 chunk round trip, synchronous decoder *)
  Theorem chunk_roundtrip chunk scheme rest : scheme_valid scheme -> chunk_valid chunk ->
    deserialize_chunk lz4d (serialize_chunk lz4c choose chunk scheme ++ rest) =
    ROk (chunk, 8 + N.of_nat (length (payload_of chunk scheme)), N.of_nat (length chunk), rest).
  Proof.
    intros Hs Hc. rewrite serialize_chunk_shape. unfold deserialize_chunk. rewrite <- app_assoc.
    rewrite take_app by apply enc_chdr_length. rewrite dec_enc_chdr by (apply chunk_hdr_ok; assumption).
    cbn [h_clen h_scheme h_ulen].
    replace (N.to_nat (N.of_nat (length (payload_of chunk scheme)))) with (length (payload_of chunk scheme)) by lia.
    rewrite firstn_app, Nat.sub_diag, firstn_all, skipn_app, Nat.sub_diag, skipn_all. cbn [firstn skipn app]. rewrite app_nil_r.
    rewrite payload_decompress by assumption. rewrite N.eqb_refl. reflexivity.
  Qed.

  (* the async / stream decoder returns the same *)
  Theorem chunk_roundtrip_async chunk scheme rest : scheme_valid scheme -> chunk_valid chunk ->
    deserialize_chunk_async lz4d (serialize_chunk lz4c choose chunk scheme ++ rest) =
    deserialize_chunk lz4d (serialize_chunk lz4c choose chunk scheme ++ rest).
  Proof.
    intros Hs Hc. rewrite chunk_roundtrip by assumption. rewrite serialize_chunk_shape. unfold deserialize_chunk_async. rewrite <- app_assoc.
    rewrite take_app by apply enc_chdr_length. rewrite dec_enc_chdr by (apply chunk_hdr_ok; assumption).
    cbn [h_clen h_scheme h_ulen]. rewrite take_app by lia.
    rewrite payload_decompress by assumption. rewrite N.eqb_refl. reflexivity.
  Qed.

  (* a serialised chunk is never empty *)
  Lemma serialize_chunk_nonempty chunk scheme : serialize_chunk lz4c choose chunk scheme <> [].
  Proof. rewrite serialize_chunk_shape. discriminate. Qed.

  (* all chunks of a chunk region *)
  Lemma deserialize_chunks_spec : forall chunks scheme fuel acc idx total total0, Forall chunk_valid chunks -> scheme_valid scheme ->
    (length chunks < fuel)%nat ->
    deserialize_chunks lz4d fuel (fst (ser_chunks lz4c choose chunks scheme total0)) acc idx total =
    ROk (acc ++ concat chunks, rev idx ++ cumsum (map (fun c => N.of_nat (length c)) chunks) total).
  Proof.
    induction chunks as [|c r IH]; intros scheme fuel acc idx total total0 HF Hs Hfuel.
    - destruct fuel as [|fuel]; [cbn in Hfuel; lia|]. cbn [ser_chunks fst deserialize_chunks concat map cumsum]. rewrite !app_nil_r. reflexivity.
    - inversion HF; subst. cbn [ser_chunks]. destruct (ser_chunks lz4c choose r scheme _) as [bs offs] eqn:Hr. cbn [fst].
      destruct fuel as [|fuel]; [cbn in Hfuel; lia|].
      destruct (serialize_chunk lz4c choose c scheme ++ bs) eqn:Hb; [exfalso; destruct (serialize_chunk lz4c choose c scheme) eqn:E; [exact (serialize_chunk_nonempty _ _ E)|discriminate]|].
      rewrite <- Hb. cbn [deserialize_chunks]. rewrite Hb at 1. rewrite chunk_roundtrip by assumption.
      pose proof (IH scheme fuel (acc ++ c) ((total + N.of_nat (length c)) :: idx) (total + N.of_nat (length c)) (total0 + N.of_nat (length (serialize_chunk lz4c choose c scheme))) H2 Hs ltac:(cbn [length] in Hfuel; lia)) as IH'.
      rewrite Hr in IH'. cbn [fst] in IH'. rewrite IH'. cbn [concat map cumsum rev]. rewrite <- !app_assoc. reflexivity.
  Qed.
End WithLz4.
