(* C06: the aggregate (Merkle) hash determines the chunk list, up to collisions of the interior hash function.
   Part 1 -- the text a parent hashes determines its children. *)
From Coq Require Import ZArith NArith Bool List Lia ZifyBool ZifyN ZifyNat.
From Coq Require Decimal DecimalN DecimalFacts.
Import ListNotations.
From XetModel Require Import Gen.HashConsts Model.Blake3 Model.Merkle Proofs.HashProofs.
Open Scope N_scope.

Arguments N.add : simpl never.
Arguments N.sub : simpl never.
Arguments N.mul : simpl never.
Arguments N.div : simpl never.
Arguments N.modulo : simpl never.
Arguments N.ltb : simpl never.
Arguments N.leb : simpl never.
Arguments N.eqb : simpl never.
Arguments N.to_nat : simpl never.
Arguments N.of_nat : simpl never.

Definition wf_hash (h : hash) : Prop := length h = 32%nat /\ Forall (fun b => b < 256) h.
Definition wf_node (n : node) : Prop := wf_hash (fst n).

(* decimal digits, then a newline: the number and the rest are determined *)
Lemma uint_digits_parse : forall u v r r', uint_digits u ++ 10 :: r = uint_digits v ++ 10 :: r' -> u = v /\ r = r'.
Proof.
  induction u as [|u IH|u IH|u IH|u IH|u IH|u IH|u IH|u IH|u IH|u IH]; intros v r r' H; destruct v; cbn [uint_digits app] in H;
    try discriminate; try (injection H as H; destruct (IH _ _ _ H) as [-> ->]; split; reflexivity).
  injection H as ->. split; reflexivity.
Qed.
Lemma dec_parse n m r r' : dec n ++ 10 :: r = dec m ++ 10 :: r' -> n = m /\ r = r'.
Proof.
  unfold dec. intro H. destruct (uint_digits_parse _ _ _ _ H) as [E ->]. split; [|reflexivity].
  rewrite <- (DecimalN.Unsigned.of_to n), <- (DecimalN.Unsigned.of_to m), E. reflexivity.
Qed.

Lemma hex_length h : length h = 32%nat -> length (hex h) = 64%nat.
Proof. intro H. rewrite hex_is_flat_map, flat_map_hex_length, word_rev_length by exact H. reflexivity. Qed.

Lemma app_inv_length {A} (a b c d : list A) : length a = length c -> a ++ b = c ++ d -> a = c /\ b = d.
Proof.
  revert c. induction a as [|x a IH]; intros [|y c] L H; try discriminate; [split; [reflexivity | exact H]|].
  cbn in *. injection H as -> H. destruct (IH c) as [-> ->]; [lia | exact H | split; reflexivity].
Qed.

Lemma child_text_parse n m r r' : wf_node n -> wf_node m -> child_text n ++ r = child_text m ++ r' -> n = m /\ r = r'.
Proof.
  intros [Ln Bn] [Lm Bm]. unfold child_text. rewrite <- !app_assoc. intro H.
  apply app_inv_length in H as [Hh H]; [|rewrite !hex_length by assumption; reflexivity].
  apply hex_injective in Hh; try assumption. cbn [app] in H. injection H as H.
  cbn [app] in H. apply dec_parse in H as [Hl ->].
  destruct n, m. cbn [fst snd] in *. subst. split; reflexivity.
Qed.

Lemma children_text_inj : forall g g', Forall wf_node g -> Forall wf_node g' -> children_text g = children_text g' -> g = g'.
Proof.
  unfold children_text. induction g as [|n g IH]; intros [|m g'] Hg Hg' H; cbn [flat_map] in H.
  - reflexivity.
  - exfalso. unfold child_text in H. pose proof (f_equal (@length N) H) as L. rewrite !app_length in L.
    inversion Hg' as [|? ? [Lm _] _]; subst. rewrite hex_length in L by exact Lm. cbn in L. lia.
  - exfalso. unfold child_text in H. pose proof (f_equal (@length N) H) as L. rewrite !app_length in L.
    inversion Hg as [|? ? [Lm _] _]; subst. rewrite hex_length in L by exact Lm. cbn in L. lia.
  - inversion Hg; inversion Hg'; subst. apply child_text_parse in H as [-> H]; try assumption. f_equal. apply IH; assumption.
Qed.

(* ---------------------------------------------------------------- Part 2: the tree without the hash-consing database *)
Section Pure.
  Variable Hint : list N -> hash.
  Hypothesis HintWF : forall x, wf_hash (Hint x).

  Fixpoint groups (cur : list node) (idx total : N) (nodes : list node) : list (list node) :=
    match nodes with
    | [] => []
    | nd :: rest => if merkle_cut (N.of_nat (length cur)) (word3 (fst nd)) idx total
                    then rev (nd :: cur) :: groups [] (idx + 1) total rest
                    else groups (nd :: cur) (idx + 1) total rest
    end.
  Definition nsum (g : list node) : N := fold_right (fun n a => snd n + a) 0 g.
  Definition parent (g : list node) : node := (Hint (children_text g), nsum g).
  Definition lgroups (X : list node) : list (list node) := groups [] 0 (N.of_nat (length X)) X.
  Definition level (X : list node) : list node := map parent (lgroups X).

  Fixpoint pure_merge (fuel : nat) (X : list node) : option node :=
    match X with
    | [] => None
    | [r] => Some r
    | _ => match fuel with O => None | S f => pure_merge f (level X) end
    end.
  Fixpoint texts (fuel : nat) (X : list node) : list (list N) :=
    match X with
    | [] => []
    | [_] => []
    | _ => match fuel with O => [] | S f => map children_text (lgroups X) ++ texts f (level X) end
    end.
  Definition Internal (fuel : nat) (Y : list node) (h : hash) : Prop := exists t, In t (texts fuel Y) /\ h = Hint t.

  Lemma groups_concat : forall nodes cur idx total, idx + N.of_nat (length nodes) = total -> (nodes <> [] \/ cur = []) ->
    concat (groups cur idx total nodes) = rev cur ++ nodes.
  Proof.
    induction nodes as [|nd rest IH]; intros cur idx total Hi Hc; cbn [groups].
    - destruct Hc as [Hc| ->]; [congruence | reflexivity].
    - destruct (merkle_cut (N.of_nat (length cur)) (word3 (fst nd)) idx total) eqn:E.
      + cbn [concat]. rewrite IH; [ | cbn [length] in Hi; lia | right; reflexivity]. cbn [rev app]. rewrite <- app_assoc. reflexivity.
      + assert (Hr : rest <> []).
        { intro Hr. subst rest. cbn [length] in Hi. unfold merkle_cut in E. apply orb_false_iff in E as [_ E]. apply N.eqb_neq in E. lia. }
        rewrite IH; [ | cbn [length] in Hi; lia | left; exact Hr]. cbn [rev]. rewrite <- app_assoc. reflexivity.
  Qed.
  Lemma lgroups_concat X : concat (lgroups X) = X.
  Proof. unfold lgroups. rewrite groups_concat; [reflexivity | lia | destruct X; [right; reflexivity | left; discriminate]]. Qed.

  Lemma groups_nonempty : forall nodes cur idx total g, In g (groups cur idx total nodes) -> g <> [].
  Proof.
    induction nodes as [|nd rest IH]; intros cur idx total g H; cbn [groups] in H; [destruct H|].
    destruct (merkle_cut _ _ _ _); [|eapply IH; exact H]. destruct H as [<-|H]; [|eapply IH; exact H].
    cbn [rev]. intro E. apply app_eq_nil in E as [_ E]. discriminate.
  Qed.

  Lemma in_group_in X g n : In g (lgroups X) -> In n g -> In n X.
  Proof. intros Hg Hn. rewrite <- (lgroups_concat X). apply in_concat. exists g. auto. Qed.

  Lemma lgroups_nil_iff X : lgroups X = [] -> X = [].
  Proof. intro H. rewrite <- (lgroups_concat X), H. reflexivity. Qed.

  Lemma level_wf X : Forall wf_node (level X).
  Proof. unfold level. apply Forall_forall. intros n Hn. apply in_map_iff in Hn as (g & <- & _). apply HintWF. Qed.

  Lemma group_wf X g : Forall wf_node X -> In g (lgroups X) -> Forall wf_node g.
  Proof. intros HX Hg. apply Forall_forall. intros n Hn. rewrite Forall_forall in HX. apply HX. eapply in_group_in; eassumption. Qed.

  Definition two_plus (X : list node) : Prop := (2 <= length X)%nat.

  Lemma texts_S f X : two_plus X -> texts (S f) X = map children_text (lgroups X) ++ texts f (level X).
  Proof. destruct X as [|a [|b X']]; unfold two_plus; cbn [length]; try lia. reflexivity. Qed.
  Lemma pure_merge_S f X : two_plus X -> pure_merge (S f) X = pure_merge f (level X).
  Proof. destruct X as [|a [|b X']]; unfold two_plus; cbn [length]; try lia. reflexivity. Qed.
  Lemma texts_small f X : ~ two_plus X -> texts f X = [].
  Proof. destruct X as [|a [|b X']]; unfold two_plus; cbn [length]; try lia; destruct f; reflexivity. Qed.
  Lemma pure_merge_O X : two_plus X -> pure_merge O X = None.
  Proof. destruct X as [|a [|b X']]; unfold two_plus; cbn [length]; try lia. reflexivity. Qed.

  Lemma level_internal f X n : two_plus X -> In n (level X) -> Internal (S f) X (fst n).
  Proof.
    intros H2 Hn. unfold level in Hn. apply in_map_iff in Hn as (g & <- & Hg). exists (children_text g). rewrite texts_S by exact H2.
    split; [apply in_or_app; left; apply in_map; exact Hg | reflexivity].
  Qed.
  Lemma Internal_up f X h : two_plus X -> Internal f (level X) h -> Internal (S f) X h.
  Proof. intros H2 (t & Ht & ->). exists t. rewrite texts_S by exact H2. split; [apply in_or_app; right; exact Ht | reflexivity]. Qed.

  Lemma level_nonempty X : X <> [] -> level X <> [].
  Proof. intros H E. apply H. apply lgroups_nil_iff. unfold level in E. destruct (lgroups X); [reflexivity | discriminate]. Qed.

  Lemma root_internal : forall f X r, two_plus X -> pure_merge f X = Some r -> Internal f X (fst r).
  Proof.
    induction f as [|f IH]; intros X r H2 H; [rewrite pure_merge_O in H by exact H2; discriminate|].
    rewrite pure_merge_S in H by exact H2.
    destruct (level X) as [|p [|p2 L]] eqn:EL.
    - cbn in H. destruct f; discriminate.
    - assert (r = p) by (destruct f; cbn in H; congruence). subst r. apply level_internal; [exact H2 | rewrite EL; left; reflexivity].
    - apply Internal_up; [exact H2|]. rewrite EL. apply IH; [unfold two_plus; cbn [length]; lia | exact H].
  Qed.

  (* a text hashed at level two or above of Y lists interior nodes of Y *)
  Lemma upper_group_internal : forall f Y t g, two_plus Y -> In t (texts f (level Y)) -> t = children_text g -> Forall wf_node g ->
    forall n, In n g -> Internal (S f) Y (fst n).
  Proof.
    induction f as [|f IH]; intros Y t g H2 Ht Et Hg n Hn.
    - destruct (level Y) as [|p [|p2 L]]; destruct Ht.
    - destruct (le_lt_dec 2 (length (level Y))) as [L2|L2]; [|rewrite texts_small in Ht by (unfold two_plus; lia); destruct Ht].
      rewrite texts_S in Ht by exact L2. apply in_app_or in Ht as [Ht|Ht].
      + apply in_map_iff in Ht as (g0 & E0 & Hg0). rewrite Et in E0.
        apply children_text_inj in E0; [ | eapply group_wf; [apply level_wf | exact Hg0] | exact Hg]. subst g0.
        apply level_internal; [exact H2|]. eapply in_group_in; eassumption.
      + apply Internal_up; [exact H2|]. eapply (IH (level Y) t g); eassumption.
  Qed.

  Definition NoCollT (T : list (list N)) : Prop := forall x y, In x T -> In y T -> Hint x = Hint y -> x = y.
  Lemma NoCollT_mono T T' : NoCollT T -> incl T' T -> NoCollT T'.
  Proof. intros H Hi x y Hx Hy. apply H; apply Hi; assumption. Qed.

  (* one level back: equal parent hashes, level by level, give equal children *)
  Lemma level_back X Y : Forall wf_node X -> Forall wf_node Y ->
    NoCollT (map children_text (lgroups X) ++ map children_text (lgroups Y)) ->
    map fst (level X) = map fst (level Y) -> X = Y.
  Proof.
    intros HX HY HN H. rewrite <- (lgroups_concat X), <- (lgroups_concat Y). f_equal.
    unfold level in H. rewrite !map_map in H. cbn [parent fst] in H.
    assert (G : forall GX GY, (forall g, In g GX -> In g (lgroups X)) -> (forall g, In g GY -> In g (lgroups Y)) ->
                map (fun g => Hint (children_text g)) GX = map (fun g => Hint (children_text g)) GY -> GX = GY).
    { induction GX as [|g GX IH]; intros [|g' GY] H1 H2 E; try discriminate; [reflexivity|]. cbn [map] in E. injection E as E1 E2.
      f_equal; [|apply IH; [intros; apply H1; right; assumption | intros; apply H2; right; assumption | exact E2]].
      apply children_text_inj; [eapply group_wf; [exact HX | apply H1; left; reflexivity] | eapply group_wf; [exact HY | apply H2; left; reflexivity]|].
      apply HN; [apply in_or_app; left; apply in_map; apply H1; left; reflexivity | apply in_or_app; right; apply in_map; apply H2; left; reflexivity | exact E1]. }
    apply G; auto.
  Qed.

  Definition Same (X Y : list node) : Prop := X = Y \/ exists a b, X = [a] /\ Y = [b] /\ fst a = fst b.

  Lemma claim : forall fx X fy Y r r', Forall wf_node X -> Forall wf_node Y -> NoCollT (texts fx X ++ texts fy Y) ->
    pure_merge fx X = Some r -> pure_merge fy Y = Some r' -> fst r = fst r' ->
    Same X Y \/ (exists n, In n X /\ Internal fy Y (fst n)) \/ (exists n, In n Y /\ Internal fx X (fst n)).
  Proof.
    induction fx as [|f IH]; intros X fy Y r r' HX HY HN PX PY E.
    - (* no fuel: X is a single node *)
      destruct X as [|a [|a2 X']]; cbn in PX; try discriminate. injection PX as <-.
      destruct Y as [|b [|b2 Y']]; [destruct fy; discriminate | |].
      + assert (r' = b) by (destruct fy; cbn in PY; congruence). subst r'. left. right. exists a, b. auto.
      + right. left. exists a. split; [left; reflexivity|]. rewrite E. apply root_internal; [unfold two_plus; cbn [length]; lia | exact PY].
    - destruct (le_lt_dec 2 (length X)) as [X2|X2].
      2:{ destruct X as [|a [|a2 X']]; cbn [length] in X2; try lia; cbn in PX; try discriminate. injection PX as <-.
          destruct Y as [|b [|b2 Y']]; [destruct fy; discriminate | |].
          + assert (r' = b) by (destruct fy; cbn in PY; congruence). subst r'. left. right. exists a, b. auto.
          + right. left. exists a. split; [left; reflexivity|]. rewrite E. apply root_internal; [unfold two_plus; cbn [length]; lia | exact PY]. }
      destruct (le_lt_dec 2 (length Y)) as [Y2|Y2].
      2:{ destruct Y as [|b [|b2 Y']]; cbn [length] in Y2; try lia; [destruct fy; discriminate|].
          assert (r' = b) by (destruct fy; cbn in PY; congruence). subst r'.
          right. right. exists b. split; [left; reflexivity|]. rewrite <- E. apply root_internal; [exact X2 | exact PX]. }
      destruct fy as [|f']; [rewrite pure_merge_O in PY by exact Y2; discriminate|].
      rewrite pure_merge_S in PX, PY by assumption. rewrite !texts_S in HN by assumption.
      destruct (IH (level X) f' (level Y) r r' (level_wf X) (level_wf Y)) as [S|[S|S]]; try assumption.
      { eapply NoCollT_mono; [exact HN|]. intros t Ht. apply in_app_or in Ht as [Ht|Ht]; apply in_or_app; [left | right]; apply in_or_app; right; exact Ht. }
      + (* the levels above agree: step back *)
        left. left. apply level_back; try assumption.
        * eapply NoCollT_mono; [exact HN|]. intros t Ht. apply in_app_or in Ht as [Ht|Ht]; apply in_or_app; [left | right]; apply in_or_app; left; exact Ht.
        * destruct S as [->|(a & b & -> & -> & Eab)]; [reflexivity | cbn [map]; rewrite Eab; reflexivity].
      + (* a parent of X is an interior node of level Y: its children are interior nodes of Y *)
        destruct S as (n & Hn & t & Ht & En). unfold level in Hn. apply in_map_iff in Hn as (g & <- & Hg). cbn [parent fst] in En.
        assert (Et : children_text g = t).
        { apply HN; [apply in_or_app; left; apply in_or_app; left; apply in_map; exact Hg | apply in_or_app; right; apply in_or_app; right; exact Ht | exact En]. }
        right. left. pose proof (groups_nonempty _ _ _ _ _ Hg) as Hne. destruct g as [|n0 g']; [congruence|].
        exists n0. split; [eapply in_group_in; [exact Hg | left; reflexivity]|].
        eapply (upper_group_internal f' Y t (n0 :: g') Y2 Ht (eq_sym Et)); [eapply group_wf; [exact HX | exact Hg] | left; reflexivity].
      + destruct S as (n & Hn & t & Ht & En). unfold level in Hn. apply in_map_iff in Hn as (g & <- & Hg). cbn [parent fst] in En.
        assert (Et : children_text g = t).
        { apply HN; [apply in_or_app; right; apply in_or_app; left; apply in_map; exact Hg | apply in_or_app; left; apply in_or_app; right; exact Ht | exact En]. }
        right. right. pose proof (groups_nonempty _ _ _ _ _ Hg) as Hne. destruct g as [|n0 g']; [congruence|].
        exists n0. split; [eapply in_group_in; [exact Hg | left; reflexivity]|].
        eapply (upper_group_internal f X t (n0 :: g') X2 Ht (eq_sym Et)); [eapply group_wf; [exact HY | exact Hg] | left; reflexivity].
  Qed.

  (* the root hash determines the list: equal roots give equal lists (or two one-node lists with the same hash, whose
     lengths the root does not cover), unless two different texts hashed on the way collide or a leaf hash is also the
     hash of one of those texts *)
  Theorem pure_root_injective fx X fy Y r r' : Forall wf_node X -> Forall wf_node Y ->
    NoCollT (texts fx X ++ texts fy Y) ->
    (forall n, In n X -> ~ Internal fy Y (fst n)) -> (forall n, In n Y -> ~ Internal fx X (fst n)) ->
    pure_merge fx X = Some r -> pure_merge fy Y = Some r' -> fst r = fst r' -> Same X Y.
  Proof.
    intros HX HY HN S1 S2 PX PY E. destruct (claim fx X fy Y r r' HX HY HN PX PY E) as [S|[(n & Hn & Hi)|(n & Hn & Hi)]].
    - exact S.
    - exfalso. exact (S1 n Hn Hi).
    - exfalso. exact (S2 n Hn Hi).
  Qed.
End Pure.

(* ---------------------------------------------------------------- Part 3: the hash-consing database does not change the tree *)
Section WithDb.
  Variable Hint : list N -> hash.
  (* the nodes of the computation: distinct lookup keys unless equal lengths; the key of the pre-loaded zero node is free *)
  Variable P : node -> Prop.
  Hypothesis KeyOk : forall n n', P n -> P n' -> hkey (fst n) = hkey (fst n') -> snd n = snd n'.
  Hypothesis ZeroOk : forall n, P n -> hkey (fst n) = 0 -> snd n = 0.

  Definition DbOk (d : db) : Prop :=
    forall k l, db_find d k = Some l -> (k = 0 /\ l = 0) \/ exists n, P n /\ hkey (fst n) = k /\ snd n = l.

  Lemma DbOk0 : DbOk db0.
  Proof. intros k l H. unfold db0 in H. cbn [db_find] in H. destruct (k =? 0) eqn:E; [|discriminate]. injection H as <-. left. lia. Qed.

  Lemma add_node_ok d h len : DbOk d -> P (h, len) -> exists d', add_node d h len = (d', (h, len)) /\ DbOk d'.
  Proof.
    intros Hd Hp. unfold add_node. destruct (db_find d (hkey h)) as [l|] eqn:E.
    - exists d. split; [|exact Hd]. f_equal. f_equal. destruct (Hd _ _ E) as [[K ->]|(n & Pn & Kn & <-)].
      + symmetry. apply (ZeroOk (h, len) Hp K).
      + apply (KeyOk n (h, len) Pn Hp Kn).
    - eexists. split; [reflexivity|]. intros k l H. cbn [db_find] in H. destruct (k =? hkey h) eqn:Ek.
      + injection H as <-. right. exists (h, len). apply N.eqb_eq in Ek. auto.
      + apply Hd. exact H.
  Qed.

  Lemma nsum_app a b : nsum (a ++ b) = nsum a + nsum b.
  Proof. unfold nsum. induction a as [|x a IH]; cbn [app fold_right]; [lia | rewrite IH; lia]. Qed.
  Lemma nsum_rev a : nsum (rev a) = nsum a.
  Proof. induction a as [|x a IH]; [reflexivity|]. cbn [rev]. rewrite nsum_app, IH. unfold nsum. cbn [fold_right]. lia. Qed.

  Lemma mol_pure : forall nodes d cur curlen idx total parents, DbOk d -> curlen = nsum cur ->
    (forall g, In g (groups cur idx total nodes) -> P (parent Hint g)) ->
    exists d', mol Hint d cur curlen idx total nodes parents = (d', rev parents ++ map (parent Hint) (groups cur idx total nodes)) /\ DbOk d'.
  Proof.
    induction nodes as [|nd rest IH]; intros d cur curlen idx total parents Hd Hc HP; cbn [mol groups].
    - exists d. cbn [map]. rewrite app_nil_r. auto.
    - cbn [groups] in HP. destruct (merkle_cut (N.of_nat (length cur)) (word3 (fst nd)) idx total).
      + destruct (add_node_ok d (Hint (children_text (rev (nd :: cur)))) (curlen + snd nd) Hd) as (d1 & E1 & Hd1).
        { specialize (HP _ (or_introl eq_refl)). unfold parent in HP. rewrite nsum_rev in HP. unfold nsum in HP. cbn [fold_right] in HP.
          subst curlen. unfold nsum. replace (fold_right (fun n a => snd n + a) 0 cur + snd nd) with (snd nd + fold_right (fun n a => snd n + a) 0 cur) by lia. exact HP. }
        rewrite E1. cbv beta iota. destruct (IH d1 [] 0 (idx + 1) total ((Hint (children_text (rev (nd :: cur))), curlen + snd nd) :: parents) Hd1 eq_refl) as (d2 & E2 & Hd2).
        { intros g Hg. apply HP. right. exact Hg. }
        exists d2. split; [|exact Hd2]. etransitivity; [exact E2|]. cbn [rev map]. rewrite <- app_assoc. cbn [app]. f_equal. f_equal. f_equal.
        unfold parent. f_equal. rewrite nsum_app, nsum_rev. subst curlen. unfold nsum. cbn [fold_right]. lia.
      + apply IH; [exact Hd | subst curlen; unfold nsum; cbn [fold_right]; lia | exact HP].
  Qed.

  Lemma merge_one_level_pure d X : DbOk d -> (forall n, In n (level Hint X) -> P n) ->
    exists d', merge_one_level Hint d X = (d', level Hint X) /\ DbOk d'.
  Proof.
    intros Hd HP. unfold merge_one_level. destruct (mol_pure X d [] 0 0 (N.of_nat (length X)) [] Hd eq_refl) as (d' & E & Hd').
    - intros g Hg. apply HP. unfold level, lgroups. apply in_map. exact Hg.
    - exists d'. split; [exact E | exact Hd'].
  Qed.

  Fixpoint tree_nodes (fuel : nat) (X : list node) : list node :=
    match X with
    | [] => []
    | [a] => [a]
    | _ => match fuel with O => X | S f => X ++ tree_nodes f (level Hint X) end
    end.
  Lemma tree_nodes_self f X n : In n X -> In n (tree_nodes f X).
  Proof. destruct X as [|a [|b X']]; intro H; [destruct H | destruct f; exact H|]. destruct f; [exact H | cbn [tree_nodes]; apply in_or_app; left; exact H]. Qed.

  Lemma merge_loop_pure : forall fuel d X, DbOk d -> (forall n, In n (tree_nodes fuel X) -> P n) ->
    option_map snd (merge_loop Hint fuel d X) = pure_merge Hint fuel X.
  Proof.
    induction fuel as [|f IH]; intros d X Hd HP; destruct X as [|a [|b X']]; try reflexivity.
    cbn [merge_loop pure_merge]. cbn [tree_nodes] in HP.
    destruct (merge_one_level_pure d (a :: b :: X') Hd) as (d' & E & Hd').
    { intros n Hn. apply HP. apply in_or_app. right. apply tree_nodes_self. exact Hn. }
    rewrite E. apply IH; [exact Hd'|]. intros n Hn. apply HP. apply in_or_app. right. exact Hn.
  Qed.

  Lemma add_nodes_ok : forall chunks d, DbOk d -> (forall n, In n chunks -> P n) -> exists d', add_nodes d chunks = (d', chunks) /\ DbOk d'.
  Proof.
    induction chunks as [|[h l] r IH]; intros d Hd HP; cbn [add_nodes]; [exists d; auto|].
    destruct (add_node_ok d h l Hd (HP _ (or_introl eq_refl))) as (d1 & E1 & Hd1). rewrite E1.
    destruct (IH d1 Hd1 (fun n H => HP n (or_intror H))) as (d2 & E2 & Hd2). rewrite E2. exists d2. auto.
  Qed.

  (* cas_node_hash is the root of the plain tree *)
  Theorem cas_node_hash_pure chunks : chunks <> [] -> (forall n, In n (tree_nodes (length chunks) chunks) -> P n) ->
    cas_node_hash Hint chunks = option_map fst (pure_merge Hint (length chunks) chunks).
  Proof.
    intros Hne HP. unfold cas_node_hash. destruct chunks as [|c cs]; [congruence|].
    destruct (add_nodes_ok (c :: cs) db0 DbOk0) as (d & E & Hd); [intros n Hn; apply HP; apply tree_nodes_self; exact Hn|].
    rewrite E. unfold merge. pose proof (merge_loop_pure (length (c :: cs)) d (c :: cs) Hd HP) as M.
    destruct (merge_loop Hint (length (c :: cs)) d (c :: cs)) as [[d' r]|]; cbn [option_map snd] in M; rewrite <- M; reflexivity.
  Qed.
End WithDb.

(* ---------------------------------------------------------------- Part 4: the statement about cas_node_hash *)
Lemma keyed_hash_wf key input : wf_hash (keyed_hash key input).
Proof.
  unfold keyed_hash, out_root. destruct (subtree _ _ _ _) as [[[[cv bw] ctr] bl] fl].
  set (ws := firstn 8 (compress cv bw 0 bl (N.lor fl ROOT))).
  assert (L : length ws = 8%nat).
  { unfold ws. rewrite firstn_length. unfold compress. rewrite app_length, !map_length, !seq_length. reflexivity. }
  split.
  - unfold bytes_of_words. clear -L. do 8 (destruct ws as [|? ws]; [discriminate|]). destruct ws; [reflexivity | discriminate].
  - unfold bytes_of_words. apply Forall_forall. intros b Hb. apply in_flat_map in Hb as (w & _ & Hb). unfold bytes_of_word in Hb.
    assert (G : forall x, N.land x 255 < 256). { intro x. change 255 with (N.ones 8). rewrite N.land_ones. apply N.mod_lt. discriminate. }
    destruct Hb as [<-|[<-|[<-|[<-|[]]]]]; apply G.
Qed.

Section Cas.
  Variable Hint : list N -> hash.
  Hypothesis HintWF : forall x, wf_hash (Hint x).

  (* the lookup keys (first 8 bytes) of the nodes of one computation: equal keys only with equal lengths, and the key of the
     database's pre-loaded zero node only with length zero -- otherwise MerkleMemDB hands back a node of another length *)
  Definition KeysOk (X : list node) : Prop :=
    (forall n n', In n (tree_nodes Hint (length X) X) -> In n' (tree_nodes Hint (length X) X) -> hkey (fst n) = hkey (fst n') -> snd n = snd n')
    /\ (forall n, In n (tree_nodes Hint (length X) X) -> hkey (fst n) = 0 -> snd n = 0).
  (* no collision among the texts hashed while aggregating the two lists, and no leaf hash that is also the hash of one of them *)
  Definition NoCollision (A B : list node) : Prop :=
    NoCollT Hint (texts Hint (length A) A ++ texts Hint (length B) B)
    /\ (forall n, In n A -> ~ Internal Hint (length B) B (fst n)) /\ (forall n, In n B -> ~ Internal Hint (length A) A (fst n)).

  Theorem cas_root_determines_chunks A B h : A <> [] -> B <> [] -> Forall wf_node A -> Forall wf_node B ->
    KeysOk A -> KeysOk B -> NoCollision A B ->
    cas_node_hash Hint A = Some h -> cas_node_hash Hint B = Some h -> Same A B.
  Proof.
    intros HA HB WA WB [KA ZA] [KB ZB] (NC & S1 & S2) EA EB.
    rewrite (cas_node_hash_pure Hint (fun n => In n (tree_nodes Hint (length A) A)) KA ZA A HA (fun n H => H)) in EA.
    rewrite (cas_node_hash_pure Hint (fun n => In n (tree_nodes Hint (length B) B)) KB ZB B HB (fun n H => H)) in EB.
    destruct (pure_merge Hint (length A) A) as [r|] eqn:PA; [|discriminate]. destruct (pure_merge Hint (length B) B) as [r'|] eqn:PB; [|discriminate].
    cbn [option_map] in EA, EB. eapply (pure_root_injective Hint HintWF); try eassumption. congruence.
  Qed.

  (* the empty list is represented by the all-zero hash: a non-empty list with that root exhibits a collision with it *)
  Theorem cas_root_zero_only_for_empty B : B <> [] -> KeysOk B -> cas_node_hash Hint B = Some zero_hash ->
    (exists b, B = [b] /\ fst b = zero_hash) \/ Internal Hint (length B) B zero_hash.
  Proof.
    intros HB [KB ZB] EB.
    rewrite (cas_node_hash_pure Hint (fun n => In n (tree_nodes Hint (length B) B)) KB ZB B HB (fun n H => H)) in EB.
    destruct (pure_merge Hint (length B) B) as [r|] eqn:PB; [|discriminate]. cbn [option_map] in EB. injection EB as EB.
    destruct B as [|b [|b2 B']]; [congruence | |].
    - cbn in PB. assert (r = b) by congruence. subst r. left. exists b. auto.
    - right. rewrite <- EB. apply root_internal; [unfold two_plus; cbn [length]; lia | exact PB].
  Qed.
End Cas.

(* ---- with the real interior hash ---- *)
Definition HintR := compute_internal_node_hash.
Lemma HintR_wf x : wf_hash (HintR x).
Proof. apply keyed_hash_wf. Qed.

Theorem xorb_hash_determines_chunks A B h : A <> [] -> B <> [] -> Forall wf_node A -> Forall wf_node B ->
  KeysOk HintR A -> KeysOk HintR B -> NoCollision HintR A B ->
  cas_node_hash HintR A = Some h -> cas_node_hash HintR B = Some h -> Same A B.
Proof. apply cas_root_determines_chunks. exact HintR_wf. Qed.

(* the file hash: the salted root.  Equal file hashes under one salt give equal chunk lists unless, in addition to the
   above, the salting hash collides on the two roots *)
Theorem file_hash_determines_chunks A B salt h : A <> [] -> B <> [] -> Forall wf_node A -> Forall wf_node B ->
  KeysOk HintR A -> KeysOk HintR B -> NoCollision HintR A B ->
  (forall ra rb, cas_node_hash HintR A = Some ra -> cas_node_hash HintR B = Some rb -> with_salt ra salt = with_salt rb salt -> ra = rb) ->
  file_node_hash A salt = Some h -> file_node_hash B salt = Some h -> Same A B.
Proof.
  intros HA HB WA WB KA KB NC NS EA EB. unfold file_node_hash in EA, EB. destruct A as [|a A']; [congruence|]. destruct B as [|b B']; [congruence|].
  fold HintR in EA, EB. destruct (cas_node_hash HintR (a :: A')) as [ra|] eqn:RA; [|discriminate]. destruct (cas_node_hash HintR (b :: B')) as [rb|] eqn:RB; [|discriminate].
  injection EA as EA. injection EB as EB. assert (ra = rb) by (apply NS; congruence). subst rb.
  eapply xorb_hash_determines_chunks; eassumption.
Qed.

(* the premises hold on concrete lists (and so replacing a chunk changes the xorb hash there) *)
Definition mi_a1 : node := (repeat 1 32%nat, 10).
Definition mi_a2 : node := (repeat 2 32%nat, 20).
Definition mi_a3 : node := (repeat 3 32%nat, 20).
Lemma mi_wf : Forall wf_node [mi_a1; mi_a2] /\ Forall wf_node [mi_a1; mi_a3].
Proof. split; repeat constructor; cbn; lia. Qed.
Ltac mi_cases := repeat match goal with H : In _ _ |- _ => cbn in H; destruct H as [<-|H] | H : False |- _ => destruct H end.
Lemma mi_keys X : X = [mi_a1; mi_a2] \/ X = [mi_a1; mi_a3] -> KeysOk HintR X.
Proof.
  intros [->| ->]; split.
  - intros n n' Hn Hn'. vm_compute in Hn, Hn'. destruct Hn as [<-|[<-|[<-|[]]]]; destruct Hn' as [<-|[<-|[<-|[]]]]; vm_compute; intro; try reflexivity; discriminate.
  - intros n Hn. vm_compute in Hn. destruct Hn as [<-|[<-|[<-|[]]]]; vm_compute; intro; discriminate.
  - intros n n' Hn Hn'. vm_compute in Hn, Hn'. destruct Hn as [<-|[<-|[<-|[]]]]; destruct Hn' as [<-|[<-|[<-|[]]]]; vm_compute; intro; try reflexivity; discriminate.
  - intros n Hn. vm_compute in Hn. destruct Hn as [<-|[<-|[<-|[]]]]; vm_compute; intro; discriminate.
Qed.
Lemma mi_nocoll : NoCollision HintR [mi_a1; mi_a2] [mi_a1; mi_a3].
Proof.
  split; [|split].
  - intros x y Hx Hy. vm_compute in Hx, Hy. destruct Hx as [<-|[<-|[]]]; destruct Hy as [<-|[<-|[]]]; intro E; try reflexivity; vm_compute in E; discriminate.
  - intros n Hn (t & Ht & E). vm_compute in Ht. destruct Ht as [<-|[]]. destruct Hn as [<-|[<-|[]]]; vm_compute in E; discriminate.
  - intros n Hn (t & Ht & E). vm_compute in Ht. destruct Ht as [<-|[]]. destruct Hn as [<-|[<-|[]]]; vm_compute in E; discriminate.
Qed.
Example replacing_a_chunk_changes_the_xorb_hash : cas_node_hash HintR [mi_a1; mi_a2] <> cas_node_hash HintR [mi_a1; mi_a3].
Proof.
  intro E.
  assert (EA : exists h, cas_node_hash HintR [mi_a1; mi_a2] = Some h) by (eexists; vm_compute; reflexivity).
  destruct EA as [h EA]. rewrite EA in E. symmetry in E.
  destruct mi_wf as [W1 W2].
  pose proof (xorb_hash_determines_chunks [mi_a1; mi_a2] [mi_a1; mi_a3] h) as T.
  assert (N1 : [mi_a1; mi_a2] <> []) by discriminate. assert (N2 : [mi_a1; mi_a3] <> []) by discriminate.
  specialize (T N1 N2 W1 W2 (mi_keys _ (or_introl eq_refl)) (mi_keys _ (or_intror eq_refl)) mi_nocoll EA E).
  destruct T as [S|(a & b & S & _)]; discriminate S.
Qed.
