(* C12, re-opening: the directory scan establishes the invariant the hit theorem needs.  Every entry DiskCache::initialize
   tracks is unverified and comes from a file of the listing whose name decodes to the entry and whose length is the
   entry's; on a well-formed directory (each key directory under the prefix directory named by its first two characters,
   names unique, the name decoder canonical) that file sits at the path the cache computes for the entry, so J2 holds. *)
From Coq Require Import ZArith NArith Bool List Lia ZifyBool ZifyN ZifyNat.
Import ListNotations.
From XetModel Require Import Base.Codec Gen.CacheFacts Model.Merkle Model.Cache Proofs.Base64Proofs Proofs.CacheProofs Proofs.CacheHitProofs
  Proofs.CacheInvProofs Proofs.CacheOrphanProofs Proofs.CacheScanProofs.
Open Scope N_scope.

Arguments N.add : simpl never.
Arguments N.mul : simpl never.
Arguments N.leb : simpl never.
Arguments N.ltb : simpl never.
Arguments N.eqb : simpl never.
Ltac Zify.zify_post_hook ::= Z.div_mod_to_equations.

(* ---- little-endian fields ---- *)
Lemma le_val_bound : forall l, Forall is_byte l -> le_val l < 256 ^ N.of_nat (length l).
Proof.
  induction l as [|b l IH]; intro H; [cbn; lia|]. inversion H as [|? ? Hb Hl]; subst. specialize (IH Hl).
  unfold le_val in *. cbn [fold_right length]. replace (N.of_nat (S (length l))) with (1 + N.of_nat (length l)) by lia.
  rewrite N.pow_add_r. change (256 ^ 1) with 256. unfold is_byte in Hb. nia.
Qed.
Lemma le_bytes_le_val : forall l, Forall is_byte l -> le_bytes (length l) (le_val l) = l.
Proof.
  induction l as [|b l IH]; intro H; [reflexivity|]. inversion H as [|? ? Hb Hl]; subst. cbn [length le_bytes]. unfold le_val. cbn [fold_right].
  fold (le_val l). unfold is_byte in Hb. f_equal.
  - lia.
  - replace ((b + 256 * le_val l) / 256) with (le_val l) by lia. apply IH; exact Hl.
Qed.

Lemma le_bytes_le_val_n n l : length l = n -> Forall is_byte l -> le_bytes n (le_val l) = l.
Proof. intros <- H. apply le_bytes_le_val. exact H. Qed.

Lemma Forall_firstn {A} (P : A -> Prop) n : forall l, Forall P l -> Forall P (firstn n l).
Proof. induction n as [|n IH]; intros [|x l] H; cbn [firstn]; try constructor; inversion H; subst; [assumption | apply IH; assumption]. Qed.
Lemma Forall_skipn {A} (P : A -> Prop) n : forall l, Forall P l -> Forall P (skipn n l).
Proof. induction n as [|n IH]; intros [|x l] H; cbn [skipn]; try assumption; try constructor. inversion H; subst. apply IH; assumption. Qed.

Lemma parse_item_ok buf it : Forall is_byte buf -> parse_item buf = Some it -> wf_item it /\ ser_item it = buf.
Proof.
  intros Hb H. unfold parse_item in H.
  set (f1 := firstn 4 buf) in *. set (f2 := firstn 4 (skipn 4 buf)) in *. set (f3 := firstn 8 (skipn 8 buf)) in *. set (f4 := firstn 4 (skipn 16 buf)) in *.
  destruct (Nat.eqb (length buf) 20) eqn:El; [|discriminate]. cbn [negb] in H. apply Nat.eqb_eq in El.
  destruct (le_val f2 <=? le_val f1); [discriminate|]. injection H as <-. unfold f1, f2, f3, f4 in *. clear f1 f2 f3 f4.
  assert (L1 : length (firstn 4 buf) = 4%nat) by (rewrite firstn_length; lia).
  assert (L2 : length (firstn 4 (skipn 4 buf)) = 4%nat) by (rewrite firstn_length, skipn_length; lia).
  assert (L3 : length (firstn 8 (skipn 8 buf)) = 8%nat) by (rewrite firstn_length, skipn_length; lia).
  assert (L4 : length (firstn 4 (skipn 16 buf)) = 4%nat) by (rewrite firstn_length, skipn_length; lia).
  assert (B1 : Forall is_byte (firstn 4 buf)) by (apply Forall_firstn; exact Hb).
  assert (B2 : Forall is_byte (firstn 4 (skipn 4 buf))) by (apply Forall_firstn, Forall_skipn; exact Hb).
  assert (B3 : Forall is_byte (firstn 8 (skipn 8 buf))) by (apply Forall_firstn, Forall_skipn; exact Hb).
  assert (B4 : Forall is_byte (firstn 4 (skipn 16 buf))) by (apply Forall_firstn, Forall_skipn; exact Hb).
  split.
  - unfold wf_item. cbn [i_s i_e i_len i_crc].
    pose proof (le_val_bound _ B1) as X1. pose proof (le_val_bound _ B2) as X2. pose proof (le_val_bound _ B3) as X3. pose proof (le_val_bound _ B4) as X4.
    rewrite L1 in X1. rewrite L2 in X2. rewrite L3 in X3. rewrite L4 in X4.
    change (256 ^ N.of_nat 4) with 4294967296 in *. change (256 ^ N.of_nat 8) with 18446744073709551616 in *. repeat split; assumption.
  - unfold ser_item, u32, u64. cbn [i_s i_e i_len i_crc].
    rewrite (le_bytes_le_val_n 4 _ L1 B1), (le_bytes_le_val_n 4 _ L2 B2), (le_bytes_le_val_n 8 _ L3 B3), (le_bytes_le_val_n 4 _ L4 B4).
    clear -El. do 20 (destruct buf as [|? buf]; [discriminate El|]). destruct buf; [reflexivity | discriminate El].
Qed.

(* ---- files ---- *)
Lemma fs_read_in : forall l q c, fs_read l q = Some c -> In (q, c) l.
Proof.
  induction l as [|[p d] l IH]; intros q c H; cbn [fs_read] in H; [discriminate|]. destruct (path_eqb q p) eqn:E.
  - injection H as <-. apply path_eqb_eq in E. subst. left. reflexivity.
  - right. apply IH. exact H.
Qed.
Lemma fs_read_after_unlinks : forall dl l q c, fs_read (fold_left fs_unlink dl l) q = Some c -> fs_read l q = Some c.
Proof.
  induction dl as [|p dl IH]; intros l q c H; [exact H|]. cbn [fold_left] in H. apply IH in H. apply fs_read_unlink_some in H as [_ H]. exact H.
Qed.
Lemma nodup_paths_unique {A B} (l : list (A * B)) q c c' : NoDup (map fst l) -> In (q, c) l -> In (q, c') l -> c = c'.
Proof.
  induction l as [|[p d] l IH]; intros N H1 H2; [destruct H1|]. cbn [map fst] in N. inversion N as [|? ? Hn Hr]; subst.
  destruct H1 as [E1|H1], H2 as [E2|H2].
  - congruence.
  - injection E1 as -> ->. exfalso. apply Hn. apply in_map_iff. exists (q, c'). auto.
  - injection E2 as -> ->. exfalso. apply Hn. apply in_map_iff. exists (q, c). auto.
  - eapply IH; eassumption.
Qed.

Lemma InTr_tr_insert tr k its k' x : InTr (tr_insert tr k its) k' x -> InTr tr k' x \/ (k' = k /\ In x its).
Proof.
  unfold tr_insert. destruct (has_key tr k).
  - intros (l & Hl & Hx). apply in_map_iff in Hl as ([q old] & E & Hq). cbn [fst] in E. destruct (bytes_eqb k q) eqn:Ek.
    + injection E as <- <-. apply bytes_eqb_eq in Ek. right. split; [symmetry; exact Ek | exact Hx].
    + injection E as <- <-. left. exists old. auto.
  - intros (l & Hl & Hx). apply in_app_or in Hl as [Hl|[E|[]]]; [left; exists l; auto|]. injection E as <- <-. right. auto.
Qed.

Section Reopen.
  Variable b64d : bytes -> option bytes.
  Variable utf8 : bytes -> bool.
  (* the name decoder accepts canonical encodings only and returns bytes (URL-safe base64 without padding, strict) *)
  Hypothesis Hcanon : forall n b, b64d n = Some b -> b64pad b = n /\ Forall is_byte b.

  (* an entry comes from a file of the key directory's listing *)
  Definition SrcF (fl : list fent) (x : titem) : Prop :=
    snd x = false /\ exists f buf, In f fl /\ f_kind f = 0 /\ b64d (f_name f) = Some buf /\ parse_item buf = Some (fst x) /\ lenN (f_content f) = i_len (fst x).

  Lemma parse_file_item capacity f it : try_parse_cache_file b64d capacity f = PItem it ->
    f_kind f = 0 /\ exists buf, b64d (f_name f) = Some buf /\ parse_item buf = Some it /\ lenN (f_content f) = i_len it.
  Proof.
    unfold try_parse_cache_file. destruct (f_kind f =? 0) eqn:Ek; cbn [negb]; [|discriminate].
    destruct (DEFAULT_CHUNK_CACHE_CAPACITY <? lenN (f_content f)); [discriminate|]. destruct (capacity <? lenN (f_content f)); [discriminate|].
    destruct (b64d (f_name f)) as [buf|] eqn:Eb; [|discriminate]. destruct (parse_item buf) as [it'|] eqn:Epi; [|discriminate].
    destruct (lenN (f_content f) =? i_len it') eqn:El; [|discriminate]. intro H. injection H as <-.
    apply N.eqb_eq in Ek, El. split; [exact Ek|]. exists buf. repeat split; try reflexivity; try assumption.
  Qed.

  Lemma scan_items_src capacity pp kd k fl0 : forall fl items a, incl fl fl0 -> Forall (SrcF fl0) items ->
    forall k' x, InTr (a_tr (scan_items b64d capacity pp kd k fl items a)) k' x -> InTr (a_tr a) k' x \/ (k' = k /\ SrcF fl0 x).
  Proof.
    induction fl as [|f fr IH]; intros items a Hi Hs k' x; cbn [scan_items].
    - destruct items as [|y ys]; [intro H; left; exact H|]. cbn [a_tr]. intro H. apply InTr_tr_insert in H as [H|[-> H]]; [left; exact H|].
      right. split; [reflexivity|]. rewrite Forall_forall in Hs. apply Hs. exact H.
    - assert (Hi' : incl fr fl0) by (intros z Hz; apply Hi; right; exact Hz).
      destruct (try_parse_cache_file b64d capacity f) as [| |it|] eqn:Ep.
      + apply IH; assumption.
      + intro H. apply IH in H; assumption.
      + destruct (parse_file_item _ _ _ Ep) as (Fk & buf & Fb & Fp & Fl).
        assert (Hs' : Forall (SrcF fl0) (items ++ [(it, false)])).
        { apply Forall_app. split; [exact Hs|]. constructor; [|constructor]. split; [reflexivity|]. exists f, buf. cbn [fst]. repeat split; try assumption. apply Hi. left. reflexivity. }
        destruct (SCAN_STOP_FACTOR * capacity <=? a_b a + i_len it).
        * cbn [a_tr]. intro H. apply InTr_tr_insert in H as [H|[-> H]]; [left; exact H|]. right. split; [reflexivity|]. rewrite Forall_forall in Hs'. apply Hs'. exact H.
        * intro H. apply IH in H; assumption.
      + cbn [a_tr]. intro H. left. exact H.
  Qed.

  (* an entry comes from a key directory of the prefix directory's listing *)
  Definition SrcK (pp : bytes) (kl : list kent) (k : key) (x : titem) : Prop :=
    exists kd, In kd kl /\ k_kind kd = 1 /\ prefix_matches pp (k_name kd) = true /\ b64d (k_name kd) = Some k /\ SrcF (k_files kd) x.

  Lemma try_parse_key_some name k : try_parse_key b64d utf8 name = Some (Some k) -> b64d name = Some k.
  Proof.
    unfold try_parse_key, try_parse_key_with. destruct (b64d name) as [buf|]; [|discriminate].
    destruct (Nat.ltb (length buf) 32); [destruct key_name_length_checked; discriminate|]. destruct (utf8 (skipn 32 buf)); [|discriminate].
    intro H. injection H as <-. reflexivity.
  Qed.

  Lemma scan_keys_src capacity pp kl0 : forall kl a, incl kl kl0 ->
    forall k x, InTr (a_tr (scan_keys b64d utf8 capacity pp kl a)) k x -> InTr (a_tr a) k x \/ SrcK pp kl0 k x.
  Proof.
    induction kl as [|kd kr IH]; intros a Hi k x; cbn [scan_keys]; [intro H; left; exact H|].
    assert (Hi' : incl kr kl0) by (intros z Hz; apply Hi; right; exact Hz).
    destruct (a_stop a); [intro H; left; exact H|].
    destruct (k_kind kd =? 1) eqn:Ek; cbn [negb]; [|apply IH; exact Hi'].
    destruct (prefix_matches pp (k_name kd)) eqn:Ep; cbn [negb]; [|apply IH; exact Hi'].
    destruct (try_parse_key b64d utf8 (k_name kd)) as [[key|]|] eqn:Et.
    - intro H. apply IH in H; [|exact Hi']. destruct H as [H|H]; [|right; exact H].
      apply (scan_items_src capacity pp (k_name kd) key (k_files kd) (k_files kd) [] a (incl_refl _) (Forall_nil _)) in H as [H|[-> H]]; [left; exact H|].
      right. exists kd. split; [apply Hi; left; reflexivity|]. split; [apply N.eqb_eq; exact Ek|]. split; [exact Ep|]. split; [apply try_parse_key_some; exact Et | exact H].
    - apply IH; exact Hi'.
    - cbn [a_tr]. intro H. left. exact H.
  Qed.

  Definition SrcT (tree : list pent) (k : key) (x : titem) : Prop :=
    exists p, In p tree /\ p_kind p = 1 /\ length (p_name p) = PREFIX_DIR_NAME_LEN /\ SrcK (p_name p) (p_keys p) k x.

  Lemma scan_prefixes_src capacity tree0 : forall pl a, incl pl tree0 ->
    forall k x, InTr (a_tr (scan_prefixes b64d utf8 capacity pl a)) k x -> InTr (a_tr a) k x \/ SrcT tree0 k x.
  Proof.
    induction pl as [|p pr IH]; intros a Hi k x; cbn [scan_prefixes]; [intro H; left; exact H|].
    assert (Hi' : incl pr tree0) by (intros z Hz; apply Hi; right; exact Hz).
    destruct (a_stop a); [intro H; left; exact H|].
    destruct (p_kind p =? 1) eqn:Ek; cbn [negb]; [|apply IH; exact Hi'].
    destruct (Nat.eqb (length (p_name p)) PREFIX_DIR_NAME_LEN) eqn:El; cbn [negb]; [|apply IH; exact Hi'].
    intro H. apply IH in H; [|exact Hi']. destruct H as [H|H]; [|right; exact H].
    apply (scan_keys_src capacity (p_name p) (p_keys p) (p_keys p) a (incl_refl _)) in H as [H|H]; [left; exact H|].
    right. exists p. split; [apply Hi; left; reflexivity|]. split; [apply N.eqb_eq; exact Ek|]. split; [apply Nat.eqb_eq; exact El | exact H].
  Qed.

  (* the directory is well formed: each key directory sits under the prefix directory named by its first characters, and
     names are unique within a directory (no two files of the tree have the same path) *)
  Definition TreeCanon (tree : list pent) : Prop :=
    (forall p kd, In p tree -> In kd (p_keys p) -> prefix_matches (p_name p) (k_name kd) = true -> firstn PREFIX_DIR_NAME_LEN (k_name kd) = p_name p)
    /\ NoDup (map fst (tree_files tree)).

  Variable G : key -> list bytes.

  Theorem initialize_J2 capacity tree s : TreeCanon tree -> initialize b64d utf8 capacity tree = Some (inr s) -> J2 G s.
  Proof.
    intros [HC HN] H. unfold initialize in H. destruct (capacity =? 0); [discriminate|].
    destruct (a_panic (cscan b64d utf8 capacity tree)); [discriminate|]. destruct (a_err (cscan b64d utf8 capacity tree)); [discriminate|]. injection H as <-.
    intros k it v Hin. cbn [tracked fs] in *. unfold cscan in Hin.
    apply (scan_prefixes_src capacity tree tree _ (incl_refl _)) in Hin as [Hin|Hsrc].
    { destruct Hin as (l & [] & _). }
    destruct Hsrc as (p & Hp & Pk & Pl & kd & Hkd & Kk & Kp & Kb & Hv & f & buf & Hf & Fk & Fb & Fp & Fl). cbn [fst snd] in *. subst v.
    destruct (Hcanon _ _ Kb) as [Ck Bk]. destruct (Hcanon _ _ Fb) as [Cf Bf]. destruct (parse_item_ok buf it Bf Fp) as [Wit Sit].
    split; [exact Bk|]. split; [|discriminate]. split; [exact Wit|]. intros c Hc.
    apply fs_read_after_unlinks in Hc. apply fs_read_in in Hc.
    assert (Epath : item_path k it = (p_name p, k_name kd, f_name f)).
    { unfold item_path, key_dir, item_name. cbn [fst snd]. rewrite Ck, Sit, Cf. rewrite (HC p kd Hp Hkd Kp). reflexivity. }
    rewrite Epath in Hc.
    assert (Hmem : In ((p_name p, k_name kd, f_name f), f_content f) (tree_files tree)).
    { unfold tree_files. apply in_flat_map. exists p. split; [exact Hp|]. replace (p_kind p =? 1) with true by lia.
      apply in_flat_map. exists kd. split; [exact Hkd|]. replace (k_kind kd =? 1) with true by lia.
      apply in_flat_map. exists f. split; [exact Hf|]. replace (f_kind f =? 0) with true by lia. left. reflexivity. }
    rewrite (nodup_paths_unique _ _ _ _ HN Hc Hmem). exact Fl.
  Qed.
End Reopen.

(* re-open, then any schedule of any number of threads: every hit is the ground truth.  J1 (no undetectable foreign entry
   in the directory: a file whose length and checksum agree with its name holds what that name says) is the hypothesis
   about the directory that separates the recorded finding K1 from everything else. *)
Theorem reopen_then_hits_exact (b64d : bytes -> option bytes) (utf8 : bytes -> bool) (G : key -> list bytes) :
  (forall n b, b64d n = Some b -> b64pad b = n /\ Forall is_byte b) ->
  (forall k, Forall (fun c => c <> []) (G k) /\ Forall (Forall is_byte) (G k) /\ lenN (concat (G k)) < 4294967296 /\ lenN (G k) + 1 < 4294967296) ->
  forall capacity tree s, TreeCanon tree -> initialize b64d utf8 capacity tree = Some (inr s) -> J1 G (fs s) ->
  forall es c t vs c' k rs re it v a b offs data,
  Forall (okevent G) es -> crun (s, []) es = Some c ->
  nth_error (snd c) t = Some (PFound (OGet k rs re) it v) ->
  cstep c (EStep t vs) = Some c' -> nth_error (snd c') t = Some (PDone (CHit a b offs data)) ->
  a = rs /\ b = re /\ offs = cum 0 (gslice G k rs re) /\ data = concat (gslice G k rs re).
Proof.
  intros Hc HG capacity tree s HT Hi HJ1 es c t vs c' k rs re it v a b offs data He Hr En Hs En'.
  eapply (reachable_hit_exact G HG (s, []) es c t vs c' k rs re it v a b offs data); try eassumption.
  split; [exact HJ1|]. split; [|constructor]. cbn [fst]. eapply initialize_J2; eassumption.
Qed.

(* ---- the premises are satisfiable: a directory as the cache writes it, a decoder that knows its two names ---- *)
Definition rx_key : bytes := repeat 9 32%nat ++ [100; 101].
Definition rx_item : item := {| i_s := 0; i_e := 2; i_len := 5; i_crc := 7 |}.
Definition rx_dec (n : bytes) : option bytes :=
  if bytes_eqb n (b64pad rx_key) then Some rx_key else if bytes_eqb n (b64pad (ser_item rx_item)) then Some (ser_item rx_item) else None.
Definition rx_tree : list pent :=
  [ {| p_name := firstn PREFIX_DIR_NAME_LEN (b64pad rx_key); p_kind := 1;
       p_keys := [ {| k_name := b64pad rx_key; k_kind := 1; k_files := [ {| f_name := b64pad (ser_item rx_item); f_kind := 0; f_content := [1; 2; 3; 4; 5] |} ] |} ] |} ].
Lemma rx_dec_canon n b : rx_dec n = Some b -> b64pad b = n /\ Forall is_byte b.
Proof.
  unfold rx_dec. destruct (bytes_eqb n (b64pad rx_key)) eqn:E1.
  - intro H. injection H as <-. apply bytes_eqb_eq in E1. split; [symmetry; exact E1|]. unfold rx_key, is_byte. repeat constructor.
  - destruct (bytes_eqb n (b64pad (ser_item rx_item))) eqn:E2; [|discriminate]. intro H. injection H as <-. apply bytes_eqb_eq in E2. split; [symmetry; exact E2|].
    vm_compute. repeat constructor.
Qed.
Example reopen_example : TreeCanon rx_tree /\ exists s, initialize rx_dec (fun _ => true) 100 rx_tree = Some (inr s) /\ nitems s = 1 /\ tbytes s = 5.
Proof.
  split.
  - split.
    + intros p kd [<-|[]] [<-|[]] _. reflexivity.
    + vm_compute. repeat constructor. intros [].
  - eexists. split; [vm_compute; reflexivity|]. split; reflexivity.
Qed.
