(* C13, re-opening: the directory scan leaves no orphan.  When DiskCache::initialize runs to the end of the listing (no early
   stop at twice the capacity, no error) over a directory as the cache itself writes it -- every entry of the root a prefix
   directory, every entry below a key directory whose name decodes to a key (no two to the same key), every regular file
   no larger than the capacity -- then every file that is left on disk belongs to a tracked entry: a file whose name and
   length describe an item is tracked under its key, every other file is deleted.  With the canonical name decoder and
   the well-formed tree of CacheReopenProofs the file sits at the path the cache computes for that entry, which is the
   no-orphan invariant that CacheOrphanProofs carries through every schedule. *)
From Coq Require Import ZArith NArith Bool List Lia ZifyBool ZifyN ZifyNat.
Import ListNotations.
From XetModel Require Import Base.Codec Gen.CacheFacts Model.Merkle Model.Cache Proofs.Base64Proofs Proofs.CacheProofs Proofs.CacheHitProofs
  Proofs.CacheInvProofs Proofs.CacheOrphanProofs Proofs.CacheScanProofs Proofs.CacheReopenProofs.
Open Scope N_scope.

Arguments N.add : simpl never.
Arguments N.mul : simpl never.
Arguments N.leb : simpl never.
Arguments N.ltb : simpl never.
Arguments N.eqb : simpl never.

Lemma has_key_in tr k : has_key tr k = true -> exists its, In (k, its) tr.
Proof.
  induction tr as [|[q its] r IH]; cbn [has_key]; [discriminate|]. intro H. apply orb_true_iff in H as [H|H].
  - apply bytes_eqb_eq in H. subst q. exists its. left. reflexivity.
  - destruct (IH H) as [l Hl]. exists l. right. exact Hl.
Qed.

Lemma InTr_tr_insert_new tr k its x : In x its -> InTr (tr_insert tr k its) k x.
Proof.
  intro Hx. unfold tr_insert. destruct (has_key tr k) eqn:E.
  - destruct (has_key_in tr k E) as [old Ho]. exists its. split; [|exact Hx]. apply in_map_iff. exists (k, old). split; [|exact Ho].
    cbn [fst]. rewrite (proj2 (bytes_eqb_eq k k) eq_refl). reflexivity.
  - exists its. split; [apply in_or_app; right; left; reflexivity | exact Hx].
Qed.
Lemma InTr_tr_insert_keep tr k its k' x : k' <> k -> InTr tr k' x -> InTr (tr_insert tr k its) k' x.
Proof.
  intros Hne (l & Hl & Hx). unfold tr_insert. destruct (has_key tr k).
  - exists l. split; [|exact Hx]. apply in_map_iff. exists (k', l). split; [|exact Hl]. cbn [fst].
    destruct (bytes_eqb k k') eqn:E; [apply bytes_eqb_eq in E; congruence | reflexivity].
  - exists l. split; [apply in_or_app; left; exact Hl | exact Hx].
Qed.

Section ScanComplete.
  Variable b64d : bytes -> option bytes.
  Variable utf8 : bytes -> bool.
  Notation parse := (try_parse_cache_file b64d).

  (* one key directory, scanned to its end *)
  Lemma scan_items_fwd capacity pp kd k : forall fl items a,
    let r := scan_items b64d capacity pp kd k fl items a in a_stop r = false ->
    (forall x, In x items -> InTr (a_tr r) k x)
    /\ (forall f it, In f fl -> parse capacity f = PItem it -> InTr (a_tr r) k (it, false))
    /\ (forall f, In f fl -> parse capacity f = PDelete -> In (pp, kd, f_name f) (a_del r))
    /\ (forall p, In p (a_del a) -> In p (a_del r))
    /\ (forall k' x, k' <> k -> InTr (a_tr a) k' x -> InTr (a_tr r) k' x)
    /\ (forall f, In f fl -> parse capacity f <> PErr).
  Proof.
    induction fl as [|f fr IH]; intros items a; cbn [scan_items]; cbv zeta.
    - destruct items as [|y ys].
      + intros _. split; [intros ? []|]. split; [intros ? ? []|]. split; [intros ? []|]. split; [auto|]. split; [auto | intros ? []].
      + cbn [a_stop a_tr a_del]. intros _. split; [intros x Hx; apply InTr_tr_insert_new; exact Hx|]. split; [intros ? ? []|]. split; [intros ? []|].
        split; [auto|]. split; [|intros ? []]. intros k' x Hne H. apply InTr_tr_insert_keep; assumption.
    - destruct (parse capacity f) as [| |it|] eqn:Ep.
      + intro Hs. destruct (IH items a Hs) as (A & B & C & D & E & F). repeat split; try assumption.
        * intros g it [<-|Hg] Hp; [congruence | eapply B; eauto].
        * intros g [<-|Hg] Hp; [congruence | apply C; assumption].
        * intros g [<-|Hg]; [congruence | apply F; assumption].
      + intro Hs. destruct (IH items _ Hs) as (A & B & C & D & E & F). cbn [a_del a_tr] in *. repeat split; try assumption.
        * intros g it [<-|Hg] Hp; [congruence | eapply B; eauto].
        * intros g [<-|Hg] Hp; [apply D; apply in_or_app; right; left; reflexivity | apply C; assumption].
        * intros p Hp. apply D. apply in_or_app. left. exact Hp.
        * intros g [<-|Hg]; [congruence | apply F; assumption].
      + destruct (SCAN_STOP_FACTOR * capacity <=? a_b a + i_len it); [cbn [a_stop]; discriminate|].
        intro Hs. destruct (IH (items ++ [(it, false)]) _ Hs) as (A & B & C & D & E & F). cbn [a_del a_tr] in *. repeat split; try assumption.
        * intros x Hx. apply A. apply in_or_app. left. exact Hx.
        * intros g it' [<-|Hg] Hp; [|eapply B; eauto]. rewrite Ep in Hp. injection Hp as <-. apply A. apply in_or_app. right. left. reflexivity.
        * intros g [<-|Hg] Hp; [congruence | apply C; assumption].
        * intros g [<-|Hg]; [congruence | apply F; assumption].
      + cbn [a_stop]. discriminate.
  Qed.

  (* what a completed scan guarantees for the key directories of one prefix directory *)
  Definition KdDone (pp : bytes) (r : scan_acc) (capacity : N) (kd : kent) (ky : key) : Prop :=
    (forall f it, In f (k_files kd) -> parse capacity f = PItem it -> InTr (a_tr r) ky (it, false))
    /\ (forall f, In f (k_files kd) -> parse capacity f = PDelete -> In (pp, k_name kd, f_name f) (a_del r))
    /\ (forall f, In f (k_files kd) -> parse capacity f <> PErr).

  Lemma scan_keys_fwd capacity pp : forall kl a,
    let r := scan_keys b64d utf8 capacity pp kl a in a_stop r = false -> NoDup (keys_of_kl b64d utf8 pp kl) ->
    a_stop a = false
    /\ (forall kd ky, In kd kl -> k_kind kd = 1 -> prefix_matches pp (k_name kd) = true -> try_parse_key b64d utf8 (k_name kd) = Some (Some ky) -> KdDone pp r capacity kd ky)
    /\ (forall p, In p (a_del a) -> In p (a_del r))
    /\ (forall k' x, ~ In k' (keys_of_kl b64d utf8 pp kl) -> InTr (a_tr a) k' x -> InTr (a_tr r) k' x).
  Proof.
    induction kl as [|kd kr IH]; intros a; cbn [scan_keys keys_of_kl flat_map]; cbv zeta.
    - intros Hs _. split; [exact Hs|]. split; [intros ? ? []|]. split; auto.
    - fold (keys_of_kl b64d utf8 pp kr). destruct (a_stop a) eqn:Est; [intro H; congruence|].
      destruct (k_kind kd =? 1) eqn:Ek; cbn [negb andb].
      2:{ intros Hs Hn. destruct (IH a Hs Hn) as (_ & B & C & D). split; [reflexivity|]. split; [|split; auto]. intros kd' ky' [<-|Hin]; [intro H1; lia | apply B; exact Hin]. }
      destruct (prefix_matches pp (k_name kd)) eqn:Ep; cbn [negb].
      2:{ intros Hs Hn. destruct (IH a Hs Hn) as (_ & B & C & D). split; [reflexivity|]. split; [|split; auto]. intros kd' ky' [<-|Hin] H1 H2; [congruence | apply B; assumption]. }
      destruct (try_parse_key b64d utf8 (k_name kd)) as [[ky|]|] eqn:Et.
      + cbn [app]. intros Hs Hn. inversion Hn as [|? ? Hnotin Hn']; subst.
        set (a1 := scan_items b64d capacity pp (k_name kd) ky (k_files kd) [] a) in *.
        destruct (IH a1 Hs Hn') as (S1 & B & C & D).
        destruct (scan_items_fwd capacity pp (k_name kd) ky (k_files kd) [] a S1) as (_ & B1 & C1 & D1 & E1 & F1). fold a1 in B1, C1, D1, E1.
        split; [reflexivity|]. split; [|split].
        * intros kd' ky' [<-|Hin] H1 H2 H3.
          -- rewrite Et in H3. injection H3 as <-. split; [|split].
             ++ intros f it Hf Hp. apply D; [exact Hnotin | eapply B1; eauto].
             ++ intros f Hf Hp. apply C. apply C1; assumption.
             ++ exact F1.
          -- apply B; assumption.
        * intros p Hp. apply C. apply D1. exact Hp.
        * intros k' x Hk' Hin. apply D; [intro Hc; apply Hk'; right; exact Hc|]. apply E1; [intro Hc; apply Hk'; left; symmetry; exact Hc | exact Hin].
      + cbn [app]. intros Hs Hn. destruct (IH a Hs Hn) as (_ & B & C & D). split; [reflexivity|]. split; [|split; auto]. intros kd' ky' [<-|Hin] H1 H2 H3; [congruence | apply B; assumption].
      + cbn [a_stop]. discriminate.
  Qed.

  Lemma NoDup_app_disjoint {A} (l1 l2 : list A) x : NoDup (l1 ++ l2) -> In x l1 -> ~ In x l2.
  Proof.
    induction l1 as [|y l1 IH]; intros H Hin; [destruct Hin|]. cbn [app] in H. inversion H as [|? ? Hn Hr]; subst. destruct Hin as [->|Hin].
    - intro Hx. apply Hn. apply in_or_app. right. exact Hx.
    - apply IH; assumption.
  Qed.
  Lemma NoDup_app_r {A} (l1 l2 : list A) : NoDup (l1 ++ l2) -> NoDup l2.
  Proof. induction l1 as [|y l1 IH]; intro H; [exact H|]. cbn [app] in H. inversion H; subst. apply IH. assumption. Qed.

  Lemma key_in_keys_of_kl pp kl kd ky : In kd kl -> k_kind kd = 1 -> prefix_matches pp (k_name kd) = true -> try_parse_key b64d utf8 (k_name kd) = Some (Some ky) ->
    In ky (keys_of_kl b64d utf8 pp kl).
  Proof.
    intros Hin Hk Hp Ht. unfold keys_of_kl. apply in_flat_map. exists kd. split; [exact Hin|]. replace (k_kind kd =? 1) with true by lia. rewrite Hp, Ht. left. reflexivity.
  Qed.

  Lemma KdDone_mono pp r r' capacity kd ky : KdDone pp r capacity kd ky ->
    (forall x, InTr (a_tr r) ky x -> InTr (a_tr r') ky x) -> (forall p, In p (a_del r) -> In p (a_del r')) -> KdDone pp r' capacity kd ky.
  Proof. intros (A & B & C) H1 H2. split; [intros f it Hf Hp; apply H1; eapply A; eauto|]. split; [intros f Hf Hp; apply H2; apply B; assumption | exact C]. Qed.

  Lemma scan_prefixes_fwd capacity : forall pl a,
    let r := scan_prefixes b64d utf8 capacity pl a in a_stop r = false -> NoDup (keys_of_tree b64d utf8 pl) ->
    a_stop a = false
    /\ (forall p kd ky, In p pl -> p_kind p = 1 -> length (p_name p) = PREFIX_DIR_NAME_LEN -> In kd (p_keys p) -> k_kind kd = 1 -> prefix_matches (p_name p) (k_name kd) = true ->
          try_parse_key b64d utf8 (k_name kd) = Some (Some ky) -> KdDone (p_name p) r capacity kd ky)
    /\ (forall q, In q (a_del a) -> In q (a_del r))
    /\ (forall k' x, ~ In k' (keys_of_tree b64d utf8 pl) -> InTr (a_tr a) k' x -> InTr (a_tr r) k' x).
  Proof.
    induction pl as [|p pr IH]; intros a; cbn [scan_prefixes keys_of_tree flat_map]; cbv zeta.
    - intros Hs _. split; [exact Hs|]. split; [intros ? ? ? []|]. split; auto.
    - fold (keys_of_tree b64d utf8 pr). destruct (a_stop a) eqn:Est; [intro H; congruence|].
      destruct (p_kind p =? 1) eqn:Ek; cbn [negb andb].
      2:{ intros Hs Hn. destruct (IH a Hs Hn) as (_ & B & C & D). split; [reflexivity|]. split; [|split; auto]. intros p' kd ky [<-|Hin]; [intro H1; lia | apply B; exact Hin]. }
      destruct (Nat.eqb (length (p_name p)) PREFIX_DIR_NAME_LEN) eqn:El; cbn [negb].
      2:{ intros Hs Hn. destruct (IH a Hs Hn) as (_ & B & C & D). split; [reflexivity|]. split; [|split; auto]. intros p' kd ky [<-|Hin]; [intros _ H2; apply Nat.eqb_neq in El; congruence | apply B; exact Hin]. }
      intros Hs Hn. set (a1 := scan_keys b64d utf8 capacity (p_name p) (p_keys p) a) in *.
      destruct (IH a1 Hs (NoDup_app_r _ _ Hn)) as (S1 & B & C & D).
      destruct (scan_keys_fwd capacity (p_name p) (p_keys p) a S1 (NoDup_app_l _ _ Hn)) as (_ & B1 & C1 & D1). fold a1 in B1, C1, D1.
      split; [reflexivity|]. split; [|split].
      + intros p' kd ky [<-|Hin] H1 H2 H3 H4 H5 H6; [|apply B; assumption].
        apply (KdDone_mono _ a1); [apply B1; assumption | | exact C].
        intros x Hx. apply D; [|exact Hx]. eapply NoDup_app_disjoint; [exact Hn|]. eapply key_in_keys_of_kl; eauto.
      + intros q Hq. apply C. apply C1. exact Hq.
      + intros k' x Hk' Hin. apply D; [intro Hc; apply Hk'; apply in_or_app; right; exact Hc|]. apply D1; [intro Hc; apply Hk'; apply in_or_app; left; exact Hc | exact Hin].
  Qed.

  (* ---- the directory as the cache writes it ---- *)
  Definition DirAsWritten (capacity : N) (tree : list pent) : Prop :=
    forall p, In p tree -> p_kind p = 1 /\ length (p_name p) = PREFIX_DIR_NAME_LEN /\
      forall kd, In kd (p_keys p) -> k_kind kd = 1 /\ prefix_matches (p_name p) (k_name kd) = true /\ (exists ky, try_parse_key b64d utf8 (k_name kd) = Some (Some ky)) /\
        forall f, In f (k_files kd) -> f_kind f = 0 -> lenN (f_content f) <= capacity.

  Hypothesis Hcanon : forall n b, b64d n = Some b -> b64pad b = n /\ Forall is_byte b.

  Lemma fs_read_unlinked : forall dl l q, In q dl -> fs_read (fold_left fs_unlink dl l) q = None.
  Proof.
    induction dl as [|p dl IH]; intros l q H; [destruct H|]. cbn [fold_left]. destruct H as [->|H]; [|apply IH; exact H].
    destruct (fs_read (fold_left fs_unlink dl (fs_unlink l q)) q) as [c|] eqn:E; [|reflexivity]. apply fs_read_after_unlinks in E.
    apply fs_read_unlink_some in E as [E _]. congruence.
  Qed.

  Lemma tree_files_in tree q c : In (q, c) (tree_files tree) ->
    exists p kd f, In p tree /\ p_kind p = 1 /\ In kd (p_keys p) /\ k_kind kd = 1 /\ In f (k_files kd) /\ f_kind f = 0 /\ q = (p_name p, k_name kd, f_name f) /\ c = f_content f.
  Proof.
    unfold tree_files. intro H. apply in_flat_map in H as (p & Hp & H). destruct (p_kind p =? 1) eqn:Ep; [|destruct H].
    apply in_flat_map in H as (kd & Hkd & H). destruct (k_kind kd =? 1) eqn:Ek; [|destruct H].
    apply in_flat_map in H as (f & Hf & H). destruct (f_kind f =? 0) eqn:Ef; [|destruct H]. destruct H as [E|[]]. injection E as <- <-.
    exists p, kd, f. repeat split; try assumption; lia.
  Qed.

  Theorem initialize_no_orphan capacity tree s n : TreeCanon tree -> NoDup (keys_of_tree b64d utf8 tree) -> DirAsWritten capacity tree ->
    initialize b64d utf8 capacity tree = Some (inr s) -> a_stop (cscan b64d utf8 capacity tree) = false ->
    NoOrphan (s, repeat (PDone COk) n).
  Proof.
    intros [HC _] HN HD Hi Hstop. unfold initialize in Hi. destruct (capacity =? 0); [discriminate|].
    destruct (a_panic (cscan b64d utf8 capacity tree)); [discriminate|]. destruct (a_err (cscan b64d utf8 capacity tree)); [discriminate|]. injection Hi as <-.
    intros q c Hr. cbn [fst snd fs tracked] in *. left.
    pose proof (fs_read_after_unlinks _ _ _ _ Hr) as Hr0. apply fs_read_in in Hr0.
    destruct (tree_files_in tree q c Hr0) as (p & kd & f & Hp & Pk & Hkd & Kk & Hf & Fk & -> & ->).
    destruct (HD p Hp) as (_ & Pl & HDk). destruct (HDk kd Hkd) as (_ & Kp & [ky Kt] & HDf).
    unfold cscan in *. destruct (scan_prefixes_fwd capacity tree _ Hstop HN) as (_ & B & _ & _).
    destruct (B p kd ky Hp Pk Pl Hkd Kk Kp Kt) as (A1 & A2 & A3).
    destruct (try_parse_cache_file b64d capacity f) as [| |it|] eqn:Ef.
    - (* not skipped: a regular file no larger than the capacity *)
      exfalso. unfold try_parse_cache_file in Ef. replace (f_kind f =? 0) with true in Ef by lia. cbn [negb] in Ef.
      destruct (DEFAULT_CHUNK_CACHE_CAPACITY <? lenN (f_content f)); [discriminate|]. specialize (HDf f Hf Fk).
      replace (capacity <? lenN (f_content f)) with false in Ef by lia.
      destruct (b64d (f_name f)) as [buf|]; [|discriminate]. destruct (parse_item buf) as [it|]; [|discriminate]. destruct (lenN (f_content f) =? i_len it); discriminate.
    - (* deleted: not readable afterwards *)
      exfalso. rewrite (fs_read_unlinked _ _ _ (A2 f Hf Ef)) in Hr. discriminate.
    - (* tracked under its key, at the path the cache computes *)
      exists ky, it, false. split; [|apply (A1 f it Hf Ef)].
      destruct (parse_file_item b64d capacity f it Ef) as (_ & buf & Fb & Fp & _).
      pose proof (try_parse_key_some b64d utf8 _ _ Kt) as Kb.
      destruct (Hcanon _ _ Kb) as [Ck _]. destruct (Hcanon _ _ Fb) as [Cf Bf]. destruct (parse_item_ok buf it Bf Fp) as [_ Sit].
      unfold item_path, key_dir, item_name. cbn [fst snd]. rewrite Ck, Sit, Cf. rewrite (HC p kd Hp Hkd Kp). reflexivity.
    - exfalso. exact (A3 f Hf Ef).
  Qed.
End ScanComplete.

(* the whole statement, for every later schedule: re-open such a directory, then run any events: no orphan file at any point *)
Theorem reopen_then_no_orphan (b64d : bytes -> option bytes) (utf8 : bytes -> bool) :
  (forall n b, b64d n = Some b -> b64pad b = n /\ Forall is_byte b) ->
  forall capacity tree s n, TreeCanon tree -> NoDup (keys_of_tree b64d utf8 tree) -> DirAsWritten b64d utf8 capacity tree ->
  initialize b64d utf8 capacity tree = Some (inr s) -> a_stop (cscan b64d utf8 capacity tree) = false ->
  forall es c', crun (s, repeat (PDone COk) n) es = Some c' -> NoOrphan c'.
Proof.
  intros Hc capacity tree s n HT HN HD Hi Hs es c' Hr. eapply crun_no_orphan; [|exact Hr]. eapply initialize_no_orphan; eassumption.
Qed.

(* ---- the premises are met by the directory of CacheReopenProofs' example ---- *)
Example scan_complete_example :
  TreeCanon rx_tree /\ NoDup (keys_of_tree rx_dec (fun _ => true) rx_tree) /\ DirAsWritten rx_dec (fun _ => true) 100 rx_tree
  /\ a_stop (cscan rx_dec (fun _ => true) 100 rx_tree) = false
  /\ exists s, initialize rx_dec (fun _ => true) 100 rx_tree = Some (inr s) /\ NoOrphan (s, repeat (PDone COk) 2).
Proof.
  destruct reopen_example as [HT _].
  assert (HN : NoDup (keys_of_tree rx_dec (fun _ => true) rx_tree)) by (vm_compute; repeat constructor; intros []).
  assert (HD : DirAsWritten rx_dec (fun _ => true) 100 rx_tree).
  { intros p [<-|[]]. split; [reflexivity|]. split; [reflexivity|]. intros kd [<-|[]]. split; [reflexivity|]. split; [vm_compute; reflexivity|].
    split; [eexists; vm_compute; reflexivity|]. intros f [<-|[]] _. vm_compute. discriminate. }
  assert (HS : a_stop (cscan rx_dec (fun _ => true) 100 rx_tree) = false) by (vm_compute; reflexivity).
  split; [exact HT|]. split; [exact HN|]. split; [exact HD|]. split; [exact HS|].
  eexists. split; [vm_compute; reflexivity|]. eapply (initialize_no_orphan rx_dec (fun _ => true) rx_dec_canon 100 rx_tree); try eassumption. vm_compute. reflexivity.
Qed.

(* ---- the premise "the scan ran to its end" follows from the size of the directory ---- *)
Section NoStop.
  Variable b64d : bytes -> option bytes.
  Variable utf8 : bytes -> bool.
  Notation parse := (try_parse_cache_file b64d).

  Definition files_bytes (fl : list fent) : N := fold_right (fun f a => lenN (f_content f) + a) 0 fl.
  Definition keys_bytes (kl : list kent) : N := fold_right (fun k a => files_bytes (k_files k) + a) 0 kl.
  Definition tree_bytes (tree : list pent) : N := fold_right (fun p a => keys_bytes (p_keys p) + a) 0 tree.

  Lemma scan_items_no_stop capacity pp kd k : forall fl items a, a_stop a = false ->
    (forall f, In f fl -> parse capacity f <> PErr) -> a_b a + files_bytes fl < SCAN_STOP_FACTOR * capacity ->
    let r := scan_items b64d capacity pp kd k fl items a in a_stop r = false /\ a_b r <= a_b a + files_bytes fl.
  Proof.
    induction fl as [|f fr IH]; intros items a Hs He Hb; cbn [scan_items files_bytes fold_right] in *; cbv zeta.
    - destruct items; cbn [a_stop a_b]; split; try assumption; try reflexivity; lia.
    - fold (files_bytes fr) in *. destruct (parse capacity f) as [| |it|] eqn:Ep.
      + destruct (IH items a Hs (fun g Hg => He g (or_intror Hg))) as [A B]; [lia|]. split; [exact A | lia].
      + destruct (IH items {| a_tr := a_tr a; a_n := a_n a; a_b := a_b a; a_del := a_del a ++ [(pp, kd, f_name f)]; a_stop := false; a_err := false; a_panic := false |} eq_refl (fun g Hg => He g (or_intror Hg))) as [A B]; [cbn [a_b]; lia|].
        cbn [a_b] in B. split; [exact A | lia].
      + destruct (parse_file_item b64d capacity f it Ep) as (_ & buf & _ & _ & El).
        replace (SCAN_STOP_FACTOR * capacity <=? a_b a + i_len it) with false by lia.
        destruct (IH (items ++ [(it, false)]) {| a_tr := a_tr a; a_n := a_n a + 1; a_b := a_b a + i_len it; a_del := a_del a; a_stop := false; a_err := false; a_panic := false |} eq_refl (fun g Hg => He g (or_intror Hg))) as [A B]; [cbn [a_b]; lia|].
        cbn [a_b] in B. split; [exact A | lia].
      + exfalso. exact (He f (or_introl eq_refl) Ep).
  Qed.

  Lemma scan_keys_no_stop capacity pp : forall kl a, a_stop a = false ->
    (forall kd, In kd kl -> try_parse_key b64d utf8 (k_name kd) <> None /\ forall f, In f (k_files kd) -> parse capacity f <> PErr) ->
    a_b a + keys_bytes kl < SCAN_STOP_FACTOR * capacity ->
    let r := scan_keys b64d utf8 capacity pp kl a in a_stop r = false /\ a_b r <= a_b a + keys_bytes kl.
  Proof.
    induction kl as [|kd kr IH]; intros a Hs Hk Hb; cbn [scan_keys keys_bytes fold_right] in *; cbv zeta; [split; [exact Hs | lia]|].
    fold (keys_bytes kr) in *. rewrite Hs.
    assert (Hk' : forall x, In x kr -> try_parse_key b64d utf8 (k_name x) <> None /\ forall f, In f (k_files x) -> parse capacity f <> PErr) by (intros x Hx; apply Hk; right; exact Hx).
    destruct (k_kind kd =? 1); cbn [negb]; [|destruct (IH a Hs Hk') as [A B]; [lia | split; [exact A | lia]]].
    destruct (prefix_matches pp (k_name kd)); cbn [negb]; [|destruct (IH a Hs Hk') as [A B]; [lia | split; [exact A | lia]]].
    destruct (Hk kd (or_introl eq_refl)) as [Hp Hf].
    destruct (try_parse_key b64d utf8 (k_name kd)) as [[ky|]|]; [| destruct (IH a Hs Hk') as [A B]; [lia | split; [exact A | lia]] | congruence].
    destruct (scan_items_no_stop capacity pp (k_name kd) ky (k_files kd) [] a Hs Hf) as [A1 B1]; [lia|].
    destruct (IH _ A1 Hk') as [A B]; [lia | split; [exact A | lia]].
  Qed.

  Lemma scan_prefixes_no_stop capacity : forall pl a, a_stop a = false ->
    (forall p kd, In p pl -> In kd (p_keys p) -> try_parse_key b64d utf8 (k_name kd) <> None /\ forall f, In f (k_files kd) -> parse capacity f <> PErr) ->
    a_b a + tree_bytes pl < SCAN_STOP_FACTOR * capacity ->
    let r := scan_prefixes b64d utf8 capacity pl a in a_stop r = false /\ a_b r <= a_b a + tree_bytes pl.
  Proof.
    induction pl as [|p pr IH]; intros a Hs Hk Hb; cbn [scan_prefixes tree_bytes fold_right] in *; cbv zeta; [split; [exact Hs | lia]|].
    fold (tree_bytes pr) in *. rewrite Hs.
    assert (Hk' : forall q kd, In q pr -> In kd (p_keys q) -> try_parse_key b64d utf8 (k_name kd) <> None /\ forall f, In f (k_files kd) -> parse capacity f <> PErr) by (intros q kd Hq; apply Hk; right; exact Hq).
    destruct (p_kind p =? 1); cbn [negb]; [|destruct (IH a Hs Hk') as [A B]; [lia | split; [exact A | lia]]].
    destruct (Nat.eqb (length (p_name p)) PREFIX_DIR_NAME_LEN); cbn [negb]; [|destruct (IH a Hs Hk') as [A B]; [lia | split; [exact A | lia]]].
    destruct (scan_keys_no_stop capacity (p_name p) (p_keys p) a Hs (fun kd Hkd => Hk p kd (or_introl eq_refl) Hkd)) as [A1 B1]; [lia|].
    destruct (IH _ A1 Hk') as [A B]; [lia | split; [exact A | lia]].
  Qed.

  (* a directory as the cache writes it whose files add up to less than twice the capacity is scanned to its end *)
  Theorem scan_runs_to_the_end capacity tree : DirAsWritten b64d utf8 capacity tree ->
    (forall p kd f, In p tree -> In kd (p_keys p) -> In f (k_files kd) -> lenN (f_content f) <= DEFAULT_CHUNK_CACHE_CAPACITY) ->
    tree_bytes tree < SCAN_STOP_FACTOR * capacity -> a_stop (cscan b64d utf8 capacity tree) = false.
  Proof.
    intros HD Hdef Hb. unfold cscan. apply scan_prefixes_no_stop; [reflexivity | | cbn [a_b]; lia].
    intros p kd Hp Hkd. destruct (HD p Hp) as (_ & _ & HDk). destruct (HDk kd Hkd) as (_ & _ & [ky Hky] & _). split; [congruence|].
    intros f Hf. unfold try_parse_cache_file. destruct (f_kind f =? 0); cbn [negb]; [|discriminate].
    specialize (Hdef p kd f Hp Hkd Hf). replace (DEFAULT_CHUNK_CACHE_CAPACITY <? lenN (f_content f)) with false by lia.
    destruct (capacity <? lenN (f_content f)); [discriminate|]. destruct (b64d (f_name f)) as [buf|]; [|discriminate].
    destruct (parse_item buf) as [it|]; [|discriminate]. destruct (lenN (f_content f) =? i_len it); discriminate.
  Qed.
End NoStop.

(* the whole statement with that premise discharged *)
Theorem reopen_small_directory_no_orphan (b64d : bytes -> option bytes) (utf8 : bytes -> bool) :
  (forall n b, b64d n = Some b -> b64pad b = n /\ Forall is_byte b) ->
  forall capacity tree s n, TreeCanon tree -> NoDup (keys_of_tree b64d utf8 tree) -> DirAsWritten b64d utf8 capacity tree ->
  (forall p kd f, In p tree -> In kd (p_keys p) -> In f (k_files kd) -> lenN (f_content f) <= DEFAULT_CHUNK_CACHE_CAPACITY) ->
  tree_bytes tree < SCAN_STOP_FACTOR * capacity ->
  initialize b64d utf8 capacity tree = Some (inr s) ->
  forall es c', crun (s, repeat (PDone COk) n) es = Some c' -> NoOrphan c'.
Proof.
  intros Hc capacity tree s n HT HN HD Hdef Hb Hi. eapply reopen_then_no_orphan; try eassumption. apply scan_runs_to_the_end; assumption.
Qed.
