(* C18: keyed export -- chunk hashes replaced by their keyed form, dedup answers preserved, expiry rules. *)
From Coq Require Import ZArith NArith Bool List Lia ZifyBool ZifyN ZifyNat.
Import ListNotations.
From XetModel Require Import Base.Codec Gen.ShardLayout Gen.ShardFacts Model.Blake3 Model.Merkle Model.Shard
  Proofs.CodecProofs Proofs.ShardProofs Proofs.DedupProofs.
Open Scope N_scope.

Arguments N.add : simpl never.
Arguments N.mul : simpl never.
Arguments N.to_nat : simpl never.
Arguments N.of_nat : simpl never.

Definition keyed_chunk (key : hash) (ch : chunk_ent) : chunk_ent := mkCE (keyed key (ce_hash ch)) (ce_bytes ch) (ce_start ch) (ce_unused ch).
Definition keyed_cas (key : hash) (c : cas_info) : cas_info :=
  mkCI (ci_hash c) (ci_flags c) (ci_nbytes c) (ci_ndisk c) (map (keyed_chunk key) (ci_chunks c)).

(* BLAKE3 output is 32 bytes *)
Lemma flat_map_bytes_of_word_length ws : length (bytes_of_words ws) = (4 * length ws)%nat.
Proof. unfold bytes_of_words. induction ws as [|w ws IH]; [reflexivity|]. cbn [flat_map]. rewrite app_length, IH. cbn [bytes_of_word length]. lia. Qed.
Lemma compress_length cv b c l f : length (compress cv b c l f) = 16%nat.
Proof. unfold compress. rewrite app_length, !map_length, !seq_length. reflexivity. Qed.
Lemma keyed_hash_length key input : length (keyed_hash key input) = 32%nat.
Proof.
  unfold keyed_hash, out_root. destruct (subtree _ _ _ _) as [[[[cv bw] ctr] bl] fl].
  rewrite flat_map_bytes_of_word_length, firstn_length, compress_length. reflexivity.
Qed.
Lemma keyed_is_hash key h : is_hash h -> is_hash (keyed key h).
Proof. intros H. unfold keyed. destruct (bytes_eqb key zero_hash); [assumption|]. unfold hmac, is_hash. apply keyed_hash_length. Qed.

(* zero key = identity; any other key = HMAC of every chunk hash, lengths/offsets/xorb headers untouched *)
Theorem keyed_zero h : keyed zero_hash h = h.
Proof. reflexivity. Qed.
Theorem keyed_nonzero key h : bytes_eqb key zero_hash = false -> keyed key h = hmac h key.
Proof. intros H. unfold keyed. rewrite H. reflexivity. Qed.

Theorem keyed_cas_shape key c :
  ci_hash (keyed_cas key c) = ci_hash c /\ ci_flags (keyed_cas key c) = ci_flags c /\
  ci_nbytes (keyed_cas key c) = ci_nbytes c /\ ci_ndisk (keyed_cas key c) = ci_ndisk c /\
  length (ci_chunks (keyed_cas key c)) = length (ci_chunks c) /\
  forall i ch, nth_error (ci_chunks c) i = Some ch ->
    nth_error (ci_chunks (keyed_cas key c)) i = Some (mkCE (keyed key (ce_hash ch)) (ce_bytes ch) (ce_start ch) (ce_unused ch)).
Proof.
  cbn [keyed_cas ci_hash ci_flags ci_nbytes ci_ndisk ci_chunks]. repeat split; try apply map_length.
  intros i ch H. rewrite nth_error_map, H. reflexivity.
Qed.

(* no raw chunk hash survives in a keyed export unless HMAC maps some stored hash onto a stored hash: exhibited *)
Theorem no_raw_hash_leak key c e : bytes_eqb key zero_hash = false -> In e (ci_chunks (keyed_cas key c)) ->
  exists e0, In e0 (ci_chunks c) /\ ce_hash e = hmac (ce_hash e0) key /\
    forall e1, In e1 (ci_chunks c) -> ce_hash e = ce_hash e1 -> hmac (ce_hash e0) key = ce_hash e1.
Proof.
  intros Hk Hin. cbn [keyed_cas ci_chunks] in Hin. apply in_map_iff in Hin as (e0 & He & Hin0).
  exists e0. subst e. cbn [keyed_chunk ce_hash]. rewrite keyed_nonzero by assumption. repeat split; auto.
Qed.

(* the export's xorb records stay well-formed, so the C09 scan theorem applies to the exported section *)
Lemma wf_keyed_cas key c : wf_cas c -> wf_cas (keyed_cas key c).
Proof.
  intros (H1 & H2 & H3 & H4 & H5 & H6 & H7). unfold wf_cas. cbn [keyed_cas ci_hash ci_flags ci_nbytes ci_ndisk ci_chunks].
  rewrite map_length. repeat split; auto.
  apply Forall_map. eapply Forall_impl; [|exact H7]. intros ch (A & B & C & D).
  unfold wf_chunk. cbn [keyed_chunk ce_hash ce_bytes ce_start ce_unused]. repeat split; auto using keyed_is_hash.
Qed.

Theorem export_cas_section_scan key cs rest fuel : Forall wf_cas cs -> (length cs < fuel)%nat ->
  parse_all parse_cas_info fuel (flat_map ser_cas_info (map (keyed_cas key) cs) ++ cas_bookend ++ rest) = Some (map (keyed_cas key) cs, rest).
Proof.
  intros HF Hf. apply parse_all_cas; [|rewrite map_length; assumption].
  apply Forall_map. eapply Forall_impl; [|exact HF]. intros c. apply wf_keyed_cas.
Qed.

(* dedup through a keyed block with unkeyed queries = dedup through the original block, or an explicit HMAC collision *)
Definition hmac_collision (key : hash) : Prop := exists h q, h <> q /\ hmac h key = hmac q key.

Lemma run_len_keyed key : bytes_eqb key zero_hash = false -> forall chs qs,
  run_len key (map (keyed_chunk key) chs) qs = run_len zero_hash chs qs \/ hmac_collision key.
Proof.
  intros Hk. induction chs as [|c cr IH]; intros qs; [left; reflexivity|].
  destruct qs as [|q qr]; [left; reflexivity|]. cbn [map run_len keyed_chunk ce_hash].
  rewrite (keyed_nonzero key (ce_hash c)), (keyed_nonzero key q) by assumption. rewrite keyed_zero.
  destruct (bytes_eqb (ce_hash c) q) eqn:E1.
  - apply bytes_eqb_eq in E1. subst q. rewrite bytes_eqb_refl. destruct (IH qr) as [H|H]; [left; rewrite H; reflexivity|right; exact H].
  - destruct (bytes_eqb (hmac (ce_hash c) key) (hmac q key)) eqn:E2; [|left; reflexivity].
    right. exists (ce_hash c), q. split; [|apply bytes_eqb_eq; assumption].
    intros Heq. subst q. rewrite bytes_eqb_refl in E1. discriminate.
Qed.

Lemma sum_bytes_keyed key l : sum_bytes32 (map (keyed_chunk key) l) = sum_bytes32 l.
Proof. unfold sum_bytes32. induction l as [|c l IH]; cbn [map fold_right keyed_chunk ce_bytes]; [reflexivity|]. rewrite IH. reflexivity. Qed.

Theorem keyed_query_equiv key c qs off : bytes_eqb key zero_hash = false ->
  direct_rec key (keyed_cas key c) qs off = direct_rec zero_hash c qs off \/ hmac_collision key.
Proof.
  intros Hk. unfold direct_rec. cbn [keyed_cas ci_chunks ci_hash ci_flags].
  assert (Hs : skipn (N.to_nat off) (map (keyed_chunk key) (ci_chunks c)) = map (keyed_chunk key) (skipn (N.to_nat off) (ci_chunks c))).
  { generalize (N.to_nat off). intros k. revert k. induction (ci_chunks c) as [|x l IH]; intros [|k]; cbn; auto. }
  rewrite Hs. destruct (run_len_keyed key Hk (skipn (N.to_nat off) (ci_chunks c)) qs) as [H|H]; [|right; exact H].
  left. rewrite H. destruct (run_len zero_hash (skipn (N.to_nat off) (ci_chunks c)) qs) as [|k]; [reflexivity|].
  assert (Hf : forall n (l : list chunk_ent), firstn n (map (keyed_chunk key) l) = map (keyed_chunk key) (firstn n l)).
  { induction n as [|n IHn]; intros [|x l]; cbn; auto. f_equal. apply IHn. }
  rewrite Hf, sum_bytes_keyed. reflexivity.
Qed.

(* expiry arithmetic (rules regenerated from load_all / clean_expired_shards) *)
Theorem expiry_rules now expiry grace : expiry <= 18446744073709551615 ->
  (shard_loaded now expiry = true <-> now <= expiry) /\
  (shard_deleted now expiry grace = true <-> N.min (expiry + grace) 18446744073709551615 <= now) /\
  (shard_deleted now expiry grace = true -> expiry <= now) /\
  (expiry < now -> shard_loaded now expiry = false).
Proof. intros Hb. unfold shard_loaded, shard_deleted, sat_add64. repeat split; intros; lia. Qed.
