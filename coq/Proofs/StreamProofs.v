(* C09: the streaming walk.  Over a serialized shard, process_shard_stream hands its callbacks exactly the serialized records of
   the two sections, in order -- so a reader that never sees the footer or the lookup tables sees the same records as the
   seekable scans (parse_ser_file / parse_ser_cas turn each blob back into its record). *)
From Coq Require Import ZArith NArith Bool List Lia ZifyBool ZifyN ZifyNat.
Import ListNotations.
From XetModel Require Import Base.Codec Gen.ShardLayout Model.Merkle Model.Shard Proofs.CodecProofs Proofs.ShardProofs Proofs.DedupProofs
  Proofs.ShardWholeProofs Proofs.ShardDedupWholeProofs.
Open Scope N_scope.

Arguments N.add : simpl never.
Arguments N.mul : simpl never.
Arguments N.of_nat : simpl never.
Arguments N.to_nat : simpl never.
Arguments N.leb : simpl never.
Ltac Zify.zify_post_hook ::= Z.div_mod_to_equations.

Lemma firstn_app_exact {A} (a b : list A) n : n = length a -> firstn n (a ++ b) = a.
Proof. intros ->. rewrite firstn_app, firstn_all, Nat.sub_diag. cbn [firstn]. apply app_nil_r. Qed.
Lemma skipn_app_exact {A} (a b : list A) n : n = length a -> skipn n (a ++ b) = b.
Proof. intros ->. rewrite skipn_app, skipn_all, Nat.sub_diag. reflexivity. Qed.

(* one file record *)
Lemma blob_ser_file f rest : wf_file f -> blob_file (ser_file_info f ++ rest) = Some (Some (ser_file_info f), rest).
Proof.
  intro W. pose proof (len_ser_file_info f W) as L. destruct W as (H1 & H2 & H3 & H4 & H5 & H6 & H7 & H8 & H9).
  unfold blob_file. unfold ser_file_info at 1. rewrite <- !app_assoc. rewrite rt_FileDataSequenceHeader by assumption. rewrite H2.
  set (k := N.of_nat (length (fi_segs f)) * (if has_verif (fi_flags f) then 2 else 1) + (if has_ext (fi_flags f) then 1 else 0)) in *.
  set (body := flat_map ser_seg (fi_segs f) ++ (if has_verif (fi_flags f) then flat_map (fun h => ser_FileVerificationEntry h [0; 0]) (fi_verif f) else []) ++
               match fi_ext f with Some h => ser_FileMetadataExt h [0; 0] | None => [] end).
  assert (Eb : ser_file_info f = ser_FileDataSequenceHeader (fi_hash f) (fi_flags f) (N.of_nat (length (fi_segs f))) (fi_unused f) ++ body).
  { unfold ser_file_info, body. reflexivity. }
  assert (Lh : length (ser_FileDataSequenceHeader (fi_hash f) (fi_flags f) (N.of_nat (length (fi_segs f))) (fi_unused f)) = 48%nat) by (apply len_ser_FileDataSequenceHeader; assumption).
  assert (Lb : N.of_nat (length body) = k * 48).
  { rewrite Eb, app_length, Lh in L. unfold file_info_num_bytes in L. fold k in L. lia. }
  replace (flat_map ser_seg (fi_segs f) ++ (if has_verif (fi_flags f) then flat_map (fun h => ser_FileVerificationEntry h [0; 0]) (fi_verif f) else []) ++
           match fi_ext f with Some h => ser_FileMetadataExt h [0; 0] | None => [] end ++ rest) with (body ++ rest) by (unfold body; rewrite <- !app_assoc; reflexivity).
  replace (enough k (body ++ rest)) with true by (unfold enough; rewrite app_length; lia).
  f_equal. f_equal.
  - f_equal. rewrite Eb. rewrite <- app_assoc. rewrite app_assoc. apply firstn_app_exact. rewrite app_length, Lh. lia.
  - apply skipn_app_exact. lia.
Qed.
Lemma blob_file_bookend rest : blob_file (file_bookend ++ rest) = Some (None, rest).
Proof. reflexivity. Qed.

Lemma blob_ser_cas c rest : wf_cas c -> blob_cas (ser_cas_info c ++ rest) = Some (Some (ser_cas_info c), rest).
Proof.
  intro W. pose proof (len_ser_cas_info c W) as L. destruct W as (H1 & H2 & H3 & H4 & H5 & H6 & H7).
  unfold blob_cas. unfold ser_cas_info at 1. rewrite <- app_assoc. rewrite rt_CASChunkSequenceHeader by assumption. rewrite H2.
  assert (Lh : length (ser_CASChunkSequenceHeader (ci_hash c) (ci_flags c) (N.of_nat (length (ci_chunks c))) (ci_nbytes c) (ci_ndisk c)) = 48%nat) by (apply len_ser_CASChunkSequenceHeader; assumption).
  assert (Lb : N.of_nat (length (flat_map ser_chunk (ci_chunks c))) = N.of_nat (length (ci_chunks c)) * 48).
  { unfold ser_cas_info in L. rewrite app_length, Lh in L. lia. }
  replace (enough (N.of_nat (length (ci_chunks c))) (flat_map ser_chunk (ci_chunks c) ++ rest)) with true by (unfold enough; rewrite app_length; lia).
  f_equal. f_equal.
  - f_equal. unfold ser_cas_info. rewrite <- app_assoc. rewrite app_assoc. apply firstn_app_exact. rewrite app_length, Lh. lia.
  - apply skipn_app_exact. lia.
Qed.
Lemma blob_cas_bookend rest : blob_cas (cas_bookend ++ rest) = Some (None, rest).
Proof. reflexivity. Qed.

Theorem blob_all_files : forall fs rest fuel, Forall wf_file fs -> (length fs < fuel)%nat ->
  parse_all blob_file fuel (flat_map ser_file_info fs ++ file_bookend ++ rest) = Some (map ser_file_info fs, rest).
Proof.
  induction fs as [|f fs IH]; intros rest fuel HF Hfuel; (destruct fuel as [|fuel]; [cbn in Hfuel; lia|]).
  - cbn [flat_map app parse_all map]. rewrite blob_file_bookend. reflexivity.
  - inversion HF; subst. cbn [flat_map parse_all map]. rewrite <- app_assoc. rewrite blob_ser_file by assumption.
    rewrite IH by (auto; cbn [length] in Hfuel; lia). reflexivity.
Qed.
Theorem blob_all_cas : forall cs rest fuel, Forall wf_cas cs -> (length cs < fuel)%nat ->
  parse_all blob_cas fuel (flat_map ser_cas_info cs ++ cas_bookend ++ rest) = Some (map ser_cas_info cs, rest).
Proof.
  induction cs as [|c cs IH]; intros rest fuel HF Hfuel; (destruct fuel as [|fuel]; [cbn in Hfuel; lia|]).
  - cbn [flat_map app parse_all map]. rewrite blob_cas_bookend. reflexivity.
  - inversion HF; subst. cbn [flat_map parse_all map]. rewrite <- app_assoc. rewrite blob_ser_cas by assumption.
    rewrite IH by (auto; cbn [length] in Hfuel; lia). reflexivity.
Qed.

(* enough fuel: every record is at least 48 bytes long *)
Lemma fuel_files fs rest : Forall wf_file fs -> (length fs < fuel_of (flat_map ser_file_info fs ++ rest))%nat.
Proof.
  intro H. unfold fuel_of. apply Nat.lt_succ_r. apply Nat.div_le_lower_bound; [lia|]. rewrite app_length.
  assert (G : (48 * length fs <= length (flat_map ser_file_info fs))%nat).
  { induction H as [|f r Hf Hr IH]; [cbn; lia|]. cbn [flat_map length]. rewrite app_length. pose proof (len_ser_file_info f Hf) as L. unfold file_info_num_bytes in L. lia. }
  lia.
Qed.
Lemma fuel_cas cs rest : Forall wf_cas cs -> (length cs < fuel_of (flat_map ser_cas_info cs ++ rest))%nat.
Proof.
  intro H. unfold fuel_of. apply Nat.lt_succ_r. apply Nat.div_le_lower_bound; [lia|]. rewrite app_length.
  assert (G : (48 * length cs <= length (flat_map ser_cas_info cs))%nat).
  { induction H as [|c r Hc Hr IH]; [cbn; lia|]. cbn [flat_map length]. rewrite app_length. pose proof (len_ser_cas_info c Hc) as L. lia. }
  lia.
Qed.

(* the whole file *)
Theorem stream_walk_serialized files cass ctbl key created expiry : Forall wf_file files -> Forall wf_cas cass ->
  stream_walk (w_bs files cass ctbl key created expiry) = Some (map ser_file_info files, map ser_cas_info cass).
Proof.
  intros Hf Hc. rewrite w_bs_shape. unfold stream_walk, w_hdr.
  rewrite rt_MDBShardFileHeader; [|reflexivity | unfold is_u64, MDB_SHARD_HEADER_VERSION; lia | unfold is_u64; lia].
  replace (bytes_eqb MDB_SHARD_HEADER_TAG MDB_SHARD_HEADER_TAG) with true by (symmetry; apply bytes_eqb_refl). cbn [negb].
  unfold w_fsec, w_csec. rewrite <- !app_assoc.
  rewrite blob_all_files; [|exact Hf | apply fuel_files; exact Hf].
  rewrite blob_all_cas; [reflexivity | exact Hc | apply fuel_cas; exact Hc].
Qed.

(* each blob is its record: the streaming reader sees what the seekable scans list *)
Corollary stream_walk_records files cass ctbl key created expiry : Forall wf_file files -> Forall wf_cas cass ->
  exists fb cb, stream_walk (w_bs files cass ctbl key created expiry) = Some (fb, cb)
    /\ Forall2 (fun b f => parse_file_info b = Some (Some f, [])) fb files
    /\ Forall2 (fun b c => parse_cas_info b = Some (Some c, [])) cb cass.
Proof.
  intros Hf Hc. exists (map ser_file_info files), (map ser_cas_info cass). split; [apply stream_walk_serialized; assumption|]. split.
  - clear -Hf. induction Hf as [|f r H1 H2 IH]; cbn [map]; constructor; [|exact IH]. rewrite <- (app_nil_r (ser_file_info f)). apply parse_ser_file. exact H1.
  - clear -Hc. induction Hc as [|c r H1 H2 IH]; cbn [map]; constructor; [|exact IH]. rewrite <- (app_nil_r (ser_cas_info c)). apply parse_ser_cas. exact H1.
Qed.
