(* C19 / C10: the plan consolidate_shards_in_directory computes for a whole directory is safe, as one statement.
   Directory: the listed shards lie under their (pairwise different, final) names; every file under a final name is good for
   its name (Consistent), and a name has one good content (the name is the content hash).  Merging: whatever group the
   grouping loop forms, the merged shard is good for its name and holds the records of every member (for serialized shards
   that is C10_merge_all_covers_inputs).  Temporary names are not final.  Then the whole plan -- every group's write followed
   by its unlinks, group after group -- is a SafePlan: stopped after any number of its effects the directory is consistent
   and everything retrievable before is still retrievable (C19_crash_at_any_point). *)
From Coq Require Import ZArith NArith Bool List Lia.
Import ListNotations.
From XetModel Require Import Base.Codec Model.Merkle Model.Shard Model.Crash Proofs.CrashProofs Proofs.MergeAllProofs.
Open Scope N_scope.

Lemma take_group_split target : forall rest cur g rest', take_group target cur rest = (g, rest') -> rest = g ++ rest'.
Proof.
  induction rest as [|[n c] r IH]; intros cur g rest' H; cbn [take_group] in H; [injection H as <- <-; reflexivity|].
  destruct (target <=? shard_num_bytes c + cur); [injection H as <- <-; reflexivity|].
  destruct (take_group target (cur + shard_num_bytes c) r) as [g1 r1] eqn:E. injection H as <- <-. cbn [app]. f_equal. apply (IH _ _ _ E).
Qed.

Lemma NoDup_app_disjoint {A} (l1 l2 : list A) : NoDup (l1 ++ l2) -> forall x, In x l1 -> In x l2 -> False.
Proof.
  induction l1 as [|a l IH]; intros H x H1 H2; [destruct H1|]. cbn [app] in H. apply NoDup_cons_iff in H. destruct H as [Hn Hr].
  destruct H1 as [<-|H1]; [apply Hn; apply in_or_app; right; exact H2 | apply (IH Hr x H1 H2)].
Qed.

Lemma NoDup_app_right {A} (l1 l2 : list A) : NoDup (l1 ++ l2) -> NoDup l2.
Proof. induction l1 as [|a l IH]; intro H; [exact H|]. cbn [app] in H. apply NoDup_cons_iff in H. apply IH. exact (proj2 H). Qed.

(* the groups the loop forms: a first shard and the shards merged into it *)
Fixpoint groups_of (fuel : nat) (target : N) (shards : list (fname * list N)) : list (list N * list (fname * list N)) :=
  match fuel with
  | O => []
  | S f =>
      match shards with
      | [] => []
      | (n, c) :: rest =>
          let '(g, rest') := take_group target (shard_num_bytes c) rest in
          match g with
          | [] => groups_of f target rest'
          | _ => (c, g) :: groups_of f target rest'
          end
      end
  end.

Section Whole.
  Variable R : Type.
  Variable final : fname -> bool.
  Variable good : fname -> list N -> Prop.
  Variable recs : list N -> R -> Prop.

  (* a name has one good content *)
  Hypothesis good_inj : forall p c c', good p c -> good p c' -> c = c'.
  (* for every group the loop forms: the merged shard is good for its name, its name is final, and it holds every member's
     records *)
  Definition MergedOk (groups : list (list N * list (fname * list N))) : Prop := forall c g m, In (c, g) groups -> merge_all c g = Some m ->
    good (shard_name m) m /\ final (shard_name m) = true /\
    (forall x, recs c x -> recs m x) /\ (forall n' c', In (n', c') g -> forall x, recs c' x -> recs m x).

  Definition InDir (f : fsd) (shards : list (fname * list N)) : Prop := forall n c, In (n, c) shards -> flookup f n = Some c /\ final n = true.

  Theorem consolidate_plan_safe : forall fuel target shards temps finished pl fin f,
    consolidate fuel target shards temps finished = Some (pl, fin) -> MergedOk (groups_of fuel target shards) ->
    Consistent final good f -> InDir f shards -> NoDup (map fst shards) -> (forall t, In t temps -> final t = false) ->
    SafePlan R final good recs f pl.
  Proof.
    induction fuel as [|fuel IH]; intros target shards temps finished pl fin f H M C D ND HT; cbn [consolidate] in H; [discriminate|]. cbn [groups_of] in M.
    destruct shards as [|[n c] rest]; [injection H as <- _; exact I|].
    destruct (take_group target (shard_num_bytes c) rest) as [g rest'] eqn:Eg. pose proof (take_group_split _ _ _ _ _ Eg) as Hsplit. subst rest.
    cbn [map fst] in ND. apply NoDup_cons_iff in ND. destruct ND as [Hn ND']. rewrite map_app in Hn, ND'.
    assert (Drest : InDir f rest') by (intros n' c' Hin; apply D; right; apply in_or_app; right; exact Hin).
    assert (NDrest : NoDup (map fst rest')).
    { apply (NoDup_app_right _ _ ND'). }
    destruct g as [|g0 gr].
    - destruct (consolidate fuel target rest' temps (finished ++ [n])) as [[pl1 fin1]|] eqn:E; [|discriminate]. injection H as <- _.
      apply (IH _ _ _ _ _ _ _ E); assumption.
    - remember (g0 :: gr) as g eqn:Hg. destruct (merge_all c g) as [m|] eqn:Em; [|discriminate]. destruct temps as [|t temps']; [discriminate|].
      set (mname := shard_name m) in *. set (fin1 := finished ++ [mname]) in *.
      set (dels := filter (fun x => negb (existsb (name_eqb x) fin1)) (n :: map fst g)) in *.
      destruct (consolidate fuel target rest' temps' fin1) as [[pl1 fin2]|] eqn:E; [|discriminate]. injection H as <- _.
      destruct (M c g m (or_introl eq_refl) Em) as (Gm & Fm & Rc & Rg).
      assert (Ft : final t = false) by (apply HT; left; reflexivity).
      (* the members of the group lie in the directory *)
      assert (Dmem : forall d, In d (n :: map fst g) -> exists cd, flookup f d = Some cd /\ final d = true /\ forall x, recs cd x -> recs m x).
      { intros d [<-|Hd].
        - exists c. destruct (D n c (or_introl eq_refl)) as [A B]. split; [exact A|]. split; [exact B | exact Rc].
        - apply in_map_iff in Hd. destruct Hd as ([n' c'] & <- & Hin). exists c'.
          destruct (D n' c') as [A B]; [right; apply in_or_app; left; exact Hin|]. split; [exact A|]. split; [exact B|]. apply (Rg n' c' Hin). }
      assert (Hdels : forall d, In d dels -> In d (n :: map fst g) /\ d <> mname).
      { intros d Hd. unfold dels in Hd. apply filter_In in Hd. destruct Hd as [A B]. split; [exact A|]. intro Heq. subst d.
        apply negb_true_iff in B. assert (existsb (name_eqb mname) fin1 = true); [|congruence].
        apply existsb_exists. exists mname. split; [unfold fin1; apply in_or_app; right; left; reflexivity | apply name_eqb_refl]. }
      assert (Sg : SafePlan R final good recs f (PWrite t mname [m] :: map PUnlink dels)).
      { apply group_plan_safe; try assumption.
        - intros c0 H0 x Hx. assert (c0 = m) by (apply (good_inj mname); [apply C; assumption | exact Gm]). subst c0. exact Hx.
        - intros d Hd. destruct (Hdels d Hd) as [Hin Hne]. destruct (Dmem d Hin) as (cd & A & B & Cd). split; [exact Hne|]. split.
          + intro Heq. subst d. congruence.
          + intros c1 H1 x Hx. rewrite A in H1. injection H1 as <-. apply Cd. exact Hx. }
      change (PWrite t mname [m] :: map PUnlink dels ++ pl1) with ((PWrite t mname [m] :: map PUnlink dels) ++ pl1).
      apply SafePlan_app; [exact Sg|].
      set (f' := apply_effs f (plan_effs (PWrite t mname [m] :: map PUnlink dels))).
      apply (IH _ _ _ _ _ _ _ E).
      + intros c1 g1 m1 Hin1. apply M. right. exact Hin1.
      + (* consistent after the whole group *)
        destruct (safe_plan_crash R final good recs _ f (length (plan_effs (PWrite t mname [m] :: map PUnlink dels))) C Sg) as [C' _].
        rewrite firstn_all in C'. exact C'.
      + (* the remaining shards are where they were *)
        intros n' c' Hin. destruct (Drest n' c' Hin) as [A B]. split; [|exact B].
        destruct (group_plan_frame final f t mname m dels Ft) as [Fm1 Fr]. fold f' in Fm1, Fr.
        assert (Hnd : ~ In n' dels).
        { intro Hd. destruct (Hdels n' Hd) as [Hmem _]. destruct Hmem as [<-|Hmem].
          - apply Hn. apply in_or_app. right. apply in_map_iff. exists (n, c'). split; [reflexivity | exact Hin].
          - apply in_map_iff in Hmem. destruct Hmem as ([n2 c2] & Hn2 & Hin2). cbn [fst] in Hn2. subst n2.
            apply (NoDup_app_disjoint _ _ ND' n'); [apply in_map_iff; exists (n', c2); split; [reflexivity | exact Hin2] | apply in_map_iff; exists (n', c'); split; [reflexivity | exact Hin]]. }
        destruct (list_eq_dec N.eq_dec n' mname) as [->|Hnm].
        * assert (c' = m) by (apply (good_inj mname); [apply C; assumption | exact Gm]). subst c'. apply Fm1. exact Hnd.
        * rewrite Fr; [exact A | | exact Hnm | exact Hnd]. intro Heq. subst n'. congruence.
      + exact NDrest.
      + intros t' Ht'. apply HT. right. exact Ht'.
  Qed.
End Whole.

(* non-vacuity: a directory with two serialized one-file shards under their content-hash names, a large target: the loop forms
   one group, the plan is "write the merged shard under a temporary name and rename it, unlink the two inputs", and the
   premises of consolidate_plan_safe hold with the shard readers as [recs] *)
From XetModel Require Import Gen.ShardLayout Proofs.CodecProofs Proofs.ShardProofs Proofs.SetOpProofs Proofs.ShardWholeProofs Proofs.ShardDedupWholeProofs Proofs.MergeProofs.
Definition cw_A : list N := w_bs [wx_f1] [] [] zero_hash 0 u64max.
Definition cw_B : list N := w_bs [wx_f2] [] [] zero_hash 0 u64max.
Definition cw_dir : list (fname * list N) := [(shard_name cw_A, cw_A); (shard_name cw_B, cw_B)].
Definition cw_t : fname := temp_shard_name [120].
Example whole_plan_example :
  exists m pl fin, consolidate 3 1073741824 cw_dir [cw_t] [] = Some (pl, fin) /\
    pl = [PWrite cw_t (shard_name m) [m]; PUnlink (shard_name cw_A); PUnlink (shard_name cw_B)] /\
    MergedOk skey is_shard_final (fun p c => p = shard_name c) shard_recs (groups_of 3 1073741824 cw_dir) /\
    NoDup (map fst cw_dir) /\ is_shard_final cw_t = false.
Proof.
  pose proof wx_wf as W. inversion W as [|? ? W1 W']; subst. inversion W' as [|? ? W2 _]; subst.
  assert (B1 : Forall (fun f => Forall (fun b => b < 256) (fi_hash f)) [wx_f1]) by (repeat constructor; cbn; lia).
  assert (B2 : Forall (fun f => Forall (fun b => b < 256) (fi_hash f)) [wx_f2]) by (repeat constructor; cbn; lia).
  assert (B3 : Forall (fun f => Forall (fun b => b < 256) (fi_hash f)) [wx_f1; wx_f2]) by (repeat constructor; cbn; lia).
  assert (Ha : ShardOk [wx_f1] [] [] zero_hash 0 u64max) by (apply mx_ok; [repeat constructor; exact W1 | exact B1 | vm_compute; reflexivity | unfold is_u64; vm_compute; reflexivity]).
  assert (Hb : ShardOk [wx_f2] [] [] zero_hash 0 u64max) by (apply mx_ok; [repeat constructor; exact W2 | exact B2 | vm_compute; reflexivity | unfold is_u64; vm_compute; reflexivity]).
  assert (Eu : union_files (length [wx_f1] + length [wx_f2]) [wx_f1] [wx_f2] = [wx_f1; wx_f2]) by (vm_compute; reflexivity).
  assert (Ec : union_cas (length (@nil cas_info) + length (@nil cas_info)) [] [] = []) by reflexivity.
  assert (Hu : ShardOk (union_files (length [wx_f1] + length [wx_f2]) [wx_f1] [wx_f2]) (union_cas (length (@nil cas_info) + length (@nil cas_info)) [] [])
                       (d_ctbl (union_cas (length (@nil cas_info) + length (@nil cas_info)) [] [])) zero_hash 0 u64max).
  { rewrite Eu, Ec. apply mx_ok; [exact wx_wf | exact B3 | vm_compute; reflexivity | unfold is_u64; vm_compute; reflexivity]. }
  pose proof (merge_of_serialized _ _ _ _ _ _ _ _ _ _ _ _ Ha Hb) as Hm. fold cw_A cw_B in Hm.
  set (m := disk_union [wx_f1] [wx_f2] [] []) in *.
  assert (Hg : groups_of 3 1073741824 cw_dir = [(cw_A, [(shard_name cw_B, cw_B)])]) by (vm_compute; reflexivity).
  exists m, [PWrite cw_t (shard_name m) [m]; PUnlink (shard_name cw_A); PUnlink (shard_name cw_B)], [shard_name m].
  split; [|split; [reflexivity|split; [|split]]].
  - vm_compute. reflexivity.
  - rewrite Hg. intros c g m' [Hin|[]] Hm'. injection Hin as <- <-. cbn [merge_all] in Hm'. rewrite Hm in Hm'. injection Hm' as <-.
    split; [reflexivity|]. split; [vm_compute; reflexivity|]. split.
    + intros x Hx. apply (merge_covers_inputs _ _ _ _ _ _ _ _ _ _ _ _ _ Ha Hb Hu Hm). left. exact Hx.
    + intros n' c' [Hin|[]] x Hx. injection Hin as <- <-. apply (merge_covers_inputs _ _ _ _ _ _ _ _ _ _ _ _ _ Ha Hb Hu Hm). right. exact Hx.
  - assert (Hne : shard_name cw_A <> shard_name cw_B) by (vm_compute; discriminate). change (map fst cw_dir) with [shard_name cw_A; shard_name cw_B].
    constructor; [intros [H|[]]; apply Hne; symmetry; exact H | constructor; [intros [] | constructor]].
  - reflexivity.
Qed.
