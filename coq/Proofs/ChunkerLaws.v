(* Laws of the chunker derived from ChunkerProofs.next_is_machine. *)
From Coq Require Import NArith Bool List Lia ZifyBool ZifyN ZifyNat.
Import ListNotations.
From XetModel Require Import Gen.GearTable Gen.ChunkConsts Model.Chunker Proofs.ChunkerProofs.
Open Scope N_scope.

Arguments N.add : simpl never.
Arguments N.sub : simpl never.
Arguments N.ltb : simpl never.
Arguments N.leb : simpl never.
Arguments N.eqb : simpl never.
Arguments N.to_nat : simpl never.
Arguments N.of_nat : simpl never.

Lemma skipn_suffix (ch rest bufr data : list N) : ch ++ rest = bufr ++ data -> (length rest <= length data)%nat ->
  skipn (length data - length rest) data = rest.
Proof.
  intros Hcat Hlt.
  assert (Hl : (length ch + length rest = length bufr + length data)%nat) by (rewrite <- !app_length, Hcat; reflexivity).
  assert (Hs : skipn (length bufr) (ch ++ rest) = data) by (rewrite Hcat, skipn_app, PeanoNat.Nat.sub_diag, skipn_all; reflexivity).
  rewrite <- Hs at 2. rewrite skipn_add.
  replace (length bufr + (length data - length rest))%nat with (length ch + 0)%nat by lia.
  rewrite <- skipn_add. rewrite skipn_app, skipn_all, PeanoNat.Nat.sub_diag. reflexivity.
Qed.

(* what next_block computes, in terms of the byte machine *)
Definition feedF (c : cfg) (s : st) (data : list N) (fin : bool) : list (list N) * st :=
  let '(chs, sf) := feed c s data in
  if fin && negb (match data with [] => true | _ => false end) && buf_nonempty sf
  then (chs ++ [rev (s_buf sf)], st0) else (chs, sf).

Lemma next_block_loop_spec c fin : forall fuel data s acc, wf c -> Inv c s -> (length data < fuel)%nat ->
  next_block_loop fuel c s data fin acc =
  Some (rev acc ++ fst (feedF c s data fin), snd (feedF c s data fin)).
Proof.
  induction fuel as [|fuel IH]; intros data s acc Hw HI Hlen; [lia|].
  destruct data as [|b r] eqn:Hd.
  - cbn [next_block_loop]. unfold feedF. cbn [feed]. rewrite andb_false_r. cbn. rewrite app_nil_r. reflexivity.
  - rewrite <- Hd in Hlen |- *. cbn [next_block_loop]. rewrite Hd at 1. rewrite next_is_machine by assumption.
    unfold next_spec, feedF. rewrite (feed_unfold c data s).
    destruct (feed_until c s data) as [[o rest] s'] eqn:Hfu.
    pose proof (feed_until_inv _ _ _ _ _ _ HI Hw Hfu) as HI'.
    destruct o as [ch|].
    + apply feed_until_some in Hfu as (Hcat & -> & Hlt).
      assert (Hrest : skipn (N.to_nat (N.of_nat (length data - length rest))) data = rest).
      { replace (N.to_nat (N.of_nat (length data - length rest))) with (length data - length rest)%nat by lia.
        eapply skipn_suffix; eauto. lia. }
      rewrite Hrest. rewrite IH; [|assumption|apply Inv_st0; assumption|lia].
      unfold feedF. destruct (feed c st0 rest) as [chs sf] eqn:Hf.
      assert (Hne : forall (l : list N), (length rest < length l)%nat -> negb (match l with [] => true | _ => false end) = true)
        by (intros [|? ?] ?; [cbn in *; lia|reflexivity]).
      rewrite (Hne data Hlt). rewrite andb_true_r.
      destruct rest as [|b2 r2].
      * cbn [feed] in Hf. inversion Hf; subst. cbn [negb andb]. rewrite andb_false_r.
        unfold buf_nonempty. cbn [st0 s_buf negb andb fst snd rev]. rewrite andb_false_r. cbn [fst snd].
        rewrite <- app_assoc. reflexivity.
      * cbn [negb andb]. rewrite andb_true_r.
        destruct (fin && buf_nonempty sf); cbn [fst snd rev]; rewrite <- app_assoc; reflexivity.
    + apply feed_until_none in Hfu as (-> & Hbuf & Hcurs).
      assert (Hne : negb (match data with [] => true | _ => false end) = true) by (rewrite Hd; reflexivity).
      rewrite Hne, andb_true_r.
      assert (Hsk : skipn (N.to_nat (N.of_nat (length data))) data = []).
      { replace (N.to_nat (N.of_nat (length data))) with (length data) by lia. apply skipn_all. }
      destruct (fin && buf_nonempty s') eqn:Ef; cbv beta iota; rewrite Hsk.
      * destruct fuel; [rewrite Hd in Hlen; cbn in Hlen; lia|]. cbn [next_block_loop rev fst snd app]. reflexivity.
      * destruct fuel; [rewrite Hd in Hlen; cbn in Hlen; lia|]. cbn [next_block_loop rev fst snd app]. rewrite app_nil_r. reflexivity.
Qed.

Lemma next_block_spec c s data fin : wf c -> Inv c s ->
  next_block c s data fin = Some (feedF c s data fin).
Proof.
  intros Hw HI. unfold next_block. rewrite next_block_loop_spec by (auto; lia).
  cbn [rev app]. destruct (feedF c s data fin); reflexivity.
Qed.

Lemma finish_spec c s : wf c -> Inv c s -> finish c s = match flush s with [ch] => Some ch | _ => None end.
Proof.
  intros Hw HI. unfold finish. rewrite next_is_machine by assumption. unfold next_spec, flush, buf_nonempty. cbn [feed_until andb].
  destruct (s_buf s); reflexivity.
Qed.

Lemma feedF_inv c s data fin chs sf : wf c -> Inv c s -> feedF c s data fin = (chs, sf) -> Inv c sf.
Proof.
  intros Hw HI. unfold feedF. destruct (feed c s data) as [chs1 s1] eqn:Hf.
  pose proof (feed_inv _ _ _ _ _ HI Hw Hf).
  destruct (_ && _); inversion 1; subst; auto using Inv_st0.
Qed.

(* all calls before the last are non-final: the API's intended use *)
Fixpoint api_ok (calls : list (list N * bool)) : bool :=
  match calls with
  | [] => true
  | [(_, _)] => true
  | (_, fin) :: rest => negb fin && api_ok rest
  end.

Lemma flush_st0 : flush st0 = [].
Proof. reflexivity. Qed.

Theorem run_calls_reference c : forall calls s, wf c -> Inv c s -> api_ok calls = true ->
  run_calls c s calls =
  Some (let '(chs, sf) := feed c s (concat (map fst calls)) in chs ++ flush sf).
Proof.
  induction calls as [|[d fin] rest IH]; intros s Hw HI Hapi.
  - cbn [run_calls map concat feed]. rewrite finish_spec by assumption. unfold flush. destruct (s_buf s); reflexivity.
  - cbn [run_calls map concat fst]. rewrite next_block_spec by assumption.
    destruct (feedF c s d fin) as [chs1 s1] eqn:HF.
    pose proof (feedF_inv _ _ _ _ _ _ Hw HI HF) as HI1.
    rewrite feed_app. unfold feedF in HF. destruct (feed c s d) as [chsd sd] eqn:Hfd.
    destruct rest as [|c2 rest2].
    + (* last call: may be final *)
      cbn [run_calls map concat feed]. rewrite app_nil_r.
      rewrite finish_spec by assumption.
      destruct (fin && negb (match d with [] => true | _ => false end) && buf_nonempty sd) eqn:E.
      * inversion HF; subst. cbn [flush st0 s_buf]. unfold flush, buf_nonempty in *.
        destruct (s_buf sd); [rewrite andb_false_r in E; discriminate|]. rewrite app_nil_r. reflexivity.
      * inversion HF; subst. unfold flush. destruct (s_buf s1); rewrite ?app_nil_r; reflexivity.
    + assert (Hfin : fin = false) by (cbn [api_ok] in Hapi; destruct c2; destruct fin; [discriminate|reflexivity]).
      subst fin. cbn [andb] in HF. inversion HF; subst.
      rewrite IH; [|assumption|assumption|cbn [api_ok] in Hapi; destruct c2; apply andb_prop in Hapi; tauto].
      destruct (feed c s1 (concat (map fst (c2 :: rest2)))) as [chs2 s2]. rewrite app_assoc. reflexivity.
Qed.

(* ---------------------------------------------------------------------- *)
(* concatenation *)

Lemma feed_concat c : forall data s chs sf, feed c s data = (chs, sf) ->
  concat chs ++ rev (s_buf sf) = rev (s_buf s) ++ data.
Proof.
  induction data as [|b r IH]; intros s chs sf H; cbn [feed] in H.
  - inversion H; subst. cbn. rewrite app_nil_r. reflexivity.
  - destruct (bstep c s b) as [s1 o1] eqn:Hb. destruct (feed c s1 r) as [chs1 sf1] eqn:Hf.
    specialize (IH _ _ _ Hf). inversion H; subst; clear H. destruct o1 as [ch|].
    + apply bstep_some_st0 in Hb as [-> ->]. cbn [concat]. cbn [st0 s_buf rev app] in IH.
      rewrite <- app_assoc, IH. cbn [rev]. rewrite <- app_assoc. reflexivity.
    + rewrite IH. unfold bstep in Hb. destruct (skipping c (s_cur s)).
      * inversion Hb; subst. cbn [s_buf rev]. rewrite <- app_assoc. reflexivity.
      * destruct (_ || _); inversion Hb; subst. cbn [s_buf rev]. rewrite <- app_assoc. reflexivity.
Qed.

Lemma flush_concat s : concat (flush s) = rev (s_buf s).
Proof. unfold flush. destruct (s_buf s) eqn:E; [reflexivity|]. cbn [concat]. rewrite app_nil_r. reflexivity. Qed.

Theorem ref_chunks_concat c data : concat (ref_chunks c data) = data.
Proof.
  unfold ref_chunks. destruct (feed c st0 data) as [chs s] eqn:Hf.
  rewrite concat_app, flush_concat. rewrite (feed_concat _ _ _ _ _ Hf). reflexivity.
Qed.

(* ---------------------------------------------------------------------- *)
(* bounds *)

Definition chunk_ok (c : cfg) (ch : list N) : Prop :=
  1 <= N.of_nat (length ch) /\ N.of_nat (length ch) <= c_max c /\ c_min c <= N.of_nat (length ch) + HASH_WINDOW_SIZE.

Lemma bstep_chunk_ok c s b s' ch : Inv c s -> bstep c s b = (s', Some ch) -> chunk_ok c ch.
Proof.
  intros [Hc Hm] H. pose proof H as H2. apply bstep_some_st0 in H2 as [-> ->].
  unfold bstep in H. destruct (skipping c (s_cur s)) eqn:Es; [discriminate|].
  unfold chunk_ok, skipping, HASH_WINDOW_SIZE in *. rewrite rev_length. cbn [length]. lia.
Qed.

Lemma feed_chunks_ok c : forall data s chs sf, wf c -> Inv c s -> feed c s data = (chs, sf) -> Forall (chunk_ok c) chs.
Proof.
  induction data as [|b r IH]; intros s chs sf Hw HI H; cbn [feed] in H.
  - inversion H; subst. constructor.
  - destruct (bstep c s b) as [s1 o1] eqn:Hb. destruct (feed c s1 r) as [chs1 sf1] eqn:Hf.
    pose proof (bstep_inv _ _ _ _ _ HI Hw Hb) as HI1. specialize (IH _ _ _ Hw HI1 Hf).
    destruct o1; inversion H; subst; [constructor; [eapply (bstep_chunk_ok c s b); eauto|assumption]|assumption].
Qed.

Definition last_ok (c : cfg) (ch : list N) : Prop := 1 <= N.of_nat (length ch) /\ N.of_nat (length ch) <= c_max c.

Lemma flush_ok c s : Inv c s -> Forall (last_ok c) (flush s).
Proof.
  intros [Hc Hm]. unfold flush. destruct (s_buf s) eqn:E; constructor; [|constructor].
  unfold last_ok. rewrite rev_length. cbn [length] in *. lia.
Qed.

(* ---------------------------------------------------------------------- *)
(* locality *)

Theorem ref_chunks_local c a b : snd (feed c st0 a) = st0 ->
  ref_chunks c (a ++ b) = ref_chunks c a ++ ref_chunks c b.
Proof.
  unfold ref_chunks. intros H. rewrite feed_app. destruct (feed c st0 a) as [cha sa]. cbn [snd] in H. subst sa.
  destruct (feed c st0 b) as [chb sb]. cbn [flush st0 s_buf]. rewrite app_nil_r, app_assoc. reflexivity.
Qed.

(* ---------------------------------------------------------------------- *)
(* the closed-form reference rule *)

Lemma scan_machine c : forall data s, nonskip c s ->
  scan c (s_hash s) (s_cur s) data =
  match feed_until c s data with
  | (Some _, rest, _) => Some (s_cur s + N.of_nat (length data - length rest))
  | (None, _, _) => None
  end.
Proof.
  induction data as [|b r IH]; intros s Hns; cbn [scan feed_until]; [reflexivity|].
  unfold bstep. unfold nonskip in Hns. rewrite Hns.
  destruct ((N.land (gear_step (s_hash s) b) (c_mask c) =? 0) || (c_max c <=? s_cur s + 1)) eqn:E.
  - cbn [length]. f_equal. lia.
  - pose proof (IH {| s_hash := gear_step (s_hash s) b; s_cur := s_cur s + 1; s_buf := b :: s_buf s |}) as IH1.
    cbn [s_hash s_cur] in IH1. rewrite IH1.
    2:{ unfold nonskip, skipping in *. cbn [s_cur]. lia. } destruct (feed_until c _ r) as [[o rest] s'] eqn:Hfu. destruct o; [|reflexivity].
    apply feed_until_some in Hfu as (_ & _ & Hlt). cbn [length]. f_equal. lia.
Qed.

Lemma first_cut_machine c data : wf c ->
  first_cut c data =
  match feed_until c st0 data with
  | (Some _, rest, _) => Some (N.of_nat (length data - length rest))
  | (None, _, _) => None
  end.
Proof.
  intros Hw. unfold first_cut. set (k := c_min c - HASH_WINDOW_SIZE - 1).
  destruct (N.of_nat (length data) <? k) eqn:Ek.
  - (* the whole stream is skipped *)
    rewrite (skip_phase c (length data) data st0); [|lia|].
    2:{ destruct data; [left; reflexivity|right]. cbn [st0 s_cur]. unfold k, HASH_WINDOW_SIZE in *. lia. }
    rewrite skipn_all. reflexivity.
  - rewrite (skip_phase c (N.to_nat k) data st0); [|lia|].
    2:{ destruct (N.to_nat k) eqn:E; [left; reflexivity|right]. cbn [st0 s_cur]. unfold k, HASH_WINDOW_SIZE in *. lia. }
    cbn [st0 s_hash s_cur s_buf].
    set (s1 := {| s_hash := 0; s_cur := 0 + N.of_nat (N.to_nat k); s_buf := rev_append (firstn (N.to_nat k) data) [] |}).
    assert (Hns : nonskip c s1) by (unfold nonskip, skipping, s1, k, HASH_WINDOW_SIZE; cbn [s_cur]; lia).
    pose proof (scan_machine c (skipn (N.to_nat k) data) s1 Hns) as HS. unfold s1 at 1 2 in HS. cbn [s_hash s_cur] in HS.
    replace (0 + N.of_nat (N.to_nat k)) with k in HS by lia. rewrite HS.
    destruct (feed_until c s1 (skipn (N.to_nat k) data)) as [[o rest] s'] eqn:Hfu. destruct o; [|reflexivity].
    apply feed_until_some in Hfu as (_ & _ & Hlt). rewrite skipn_length in *. unfold s1. cbn [s_cur]. f_equal. lia.
Qed.

Lemma cut_all_machine c : forall fuel data, wf c -> (length data <= fuel)%nat ->
  cut_all fuel c data = ref_chunks c data.
Proof.
  induction fuel as [|fuel IH]; intros data Hw Hlen.
  - destruct data; [reflexivity|cbn in Hlen; lia].
  - destruct data as [|b r] eqn:Hd; [reflexivity|]. rewrite <- Hd.
    assert (Hc : cut_all (S fuel) c data =
                 match first_cut c data with
                 | None => [data]
                 | Some p => firstn (N.to_nat p) data :: cut_all fuel c (skipn (N.to_nat p) data)
                 end) by (rewrite Hd; reflexivity).
    rewrite Hc. rewrite first_cut_machine by assumption. unfold ref_chunks. rewrite feed_unfold.
    destruct (feed_until c st0 data) as [[o rest] s'] eqn:Hfu. destruct o as [ch|].
    + apply feed_until_some in Hfu as (Hcat & -> & Hlt). cbn [st0 s_buf rev app] in Hcat.
      replace (N.to_nat (N.of_nat (length data - length rest))) with (length data - length rest)%nat by lia.
      assert (Hl : (length data - length rest = length ch)%nat) by (rewrite <- Hcat, app_length; lia).
      rewrite Hl. rewrite <- Hcat. rewrite firstn_app, PeanoNat.Nat.sub_diag, firstn_all. cbn [firstn]. rewrite app_nil_r.
      rewrite skipn_app, PeanoNat.Nat.sub_diag, skipn_all. cbn [skipn app].
      rewrite IH; [|assumption|rewrite Hd in *; cbn [length] in *; lia].
      unfold ref_chunks. destruct (feed c st0 rest) as [chs sf]. reflexivity.
    + apply feed_until_none in Hfu as (-> & Hbuf & _). cbn [app]. unfold flush. rewrite Hbuf. cbn [st0 s_buf].
      rewrite rev_append_rev, app_nil_r. rewrite Hd. cbn [rev].
      destruct (rev r ++ [b]) eqn:E; [destruct (rev r); discriminate|]. rewrite <- E.
      change (rev r ++ [b]) with (rev (b :: r)). rewrite rev_involutive. reflexivity.
Qed.

Theorem spec_chunks_eq_ref c data : wf c -> spec_chunks c data = ref_chunks c data.
Proof. intros. unfold spec_chunks. apply cut_all_machine; auto. Qed.

(* chunker_new only produces well-formed configurations *)
Lemma chunker_new_wf target c : chunker_new target = Some c -> wf c.
Proof.
  unfold chunker_new, chunker_new_asserts, wf. destruct (is_pow2 target && _) eqn:E; [|discriminate].
  inversion 1; subst. cbn [c_min c_max]. lia.
Qed.

(* ---------------------------------------------------------------------- *)
(* statements used by Props/C04.v *)

Lemma L_match_reference target c calls : chunker_new target = Some c -> api_ok calls = true ->
  run_calls c st0 calls = Some (spec_chunks c (concat (map fst calls))).
Proof.
  intros Hn Ha. pose proof (chunker_new_wf _ _ Hn) as Hw.
  rewrite run_calls_reference by (auto using Inv_st0). rewrite spec_chunks_eq_ref by assumption. reflexivity.
Qed.

Lemma L_partition_invariant target c calls1 calls2 : chunker_new target = Some c ->
  api_ok calls1 = true -> api_ok calls2 = true ->
  concat (map fst calls1) = concat (map fst calls2) ->
  run_calls c st0 calls1 = run_calls c st0 calls2 /\ run_calls c st0 calls1 <> None.
Proof.
  intros Hn H1 H2 He. rewrite (L_match_reference _ _ _ Hn H1), (L_match_reference _ _ _ Hn H2), He. split; [reflexivity|discriminate].
Qed.

Lemma L_concat target c calls chs : chunker_new target = Some c -> api_ok calls = true ->
  run_calls c st0 calls = Some chs -> concat chs = concat (map fst calls).
Proof.
  intros Hn Ha Hr. pose proof (chunker_new_wf _ _ Hn) as Hw.
  rewrite (L_match_reference _ _ _ Hn Ha) in Hr. inversion Hr; subst.
  rewrite spec_chunks_eq_ref by assumption. apply ref_chunks_concat.
Qed.

Lemma L_bounded target c data : chunker_new target = Some c ->
  exists body tail, spec_chunks c data = body ++ tail /\ (length tail <= 1)%nat /\
    Forall (chunk_ok c) body /\ Forall (last_ok c) tail.
Proof.
  intros Hn. pose proof (chunker_new_wf _ _ Hn) as Hw. rewrite spec_chunks_eq_ref by assumption.
  unfold ref_chunks. destruct (feed c st0 data) as [chs s] eqn:Hf.
  exists chs, (flush s). split; [reflexivity|]. split.
  - unfold flush. destruct (s_buf s); cbn; lia.
  - split; [eapply feed_chunks_ok; eauto using Inv_st0|]. apply flush_ok. eapply feed_inv; eauto using Inv_st0.
Qed.

Lemma L_local target c a b : chunker_new target = Some c ->
  snd (feed c st0 a) = st0 ->
  spec_chunks c (a ++ b) = spec_chunks c a ++ spec_chunks c b.
Proof.
  intros Hn H. pose proof (chunker_new_wf _ _ Hn) as Hw. rewrite !spec_chunks_eq_ref by assumption. apply ref_chunks_local; assumption.
Qed.

(* a stream "ends on a natural boundary" iff its last reference chunk was cut by the rule,
   which is what [snd (feed c st0 a) = st0] says: characterised through the closed form too *)
Lemma L_boundary_iff c a : wf c -> (snd (feed c st0 a) = st0 -> forall b, spec_chunks c (a ++ b) = spec_chunks c a ++ spec_chunks c b).
Proof. intros Hw H b. rewrite !spec_chunks_eq_ref by assumption. apply ref_chunks_local; assumption. Qed.

Lemma L_new_guard target c : chunker_new target = Some c ->
  is_pow2 target = true /\ 64 < target /\ target < 4294967295 /\ c_min c < c_max c /\
  c_min c = chunker_minimum target /\ c_max c = chunker_maximum target.
Proof.
  unfold chunker_new, chunker_new_asserts. destruct (is_pow2 target) eqn:E; [|discriminate]. cbn [andb].
  destruct (_ && _) eqn:E2; [|discriminate]. inversion 1; subst. cbn [c_min c_max]. repeat split; lia.
Qed.

Lemma L_new_total_aux : forallb (fun k => match chunker_new (N.shiftl 1 k) with Some _ => true | None => false end)
                          (map N.of_nat (seq 7 25)) = true.
Proof. vm_compute. reflexivity. Qed.

Lemma L_new_total k : 7 <= k <= 31 -> exists c, chunker_new (2 ^ k) = Some c.
Proof.
  intros Hk. pose proof L_new_total_aux as H. rewrite forallb_forall in H.
  specialize (H k). rewrite N.shiftl_1_l in H.
  destruct (chunker_new (2 ^ k)) as [c|]; [eauto|].
  assert (In k (map N.of_nat (seq 7 25))).
  { replace k with (N.of_nat (N.to_nat k)) by lia. apply in_map. apply in_seq. lia. }
  specialize (H H0). discriminate.
Qed.
