(* C14, byte half: the file's total-bytes metric grows by exactly the bytes fed.  Uses the resolution invariant of
   Proofs/ResolveProofs.v: a dedup answer books the byte count recorded in its segment; for the local query that count
   is the summed length of the pending chunks it names, which the invariant shows to be the incoming chunks. *)
From Coq Require Import ZArith NArith Bool List Lia ZifyBool ZifyN ZifyNat.
Import ListNotations.
From XetModel Require Import Base.Codec Gen.ShardLayout Gen.DedupFacts Model.Merkle Model.Shard Model.Dedup Proofs.PipelineProofs Proofs.ResolveProofs.
Open Scope N_scope.

Arguments N.add : simpl never.
Arguments N.sub : simpl never.
Arguments N.ltb : simpl never.
Arguments N.leb : simpl never.
Arguments N.eqb : simpl never.
Arguments N.to_nat : simpl never.
Arguments N.of_nat : simpl never.

Lemma sum_lens_app a b : sum_lens (a ++ b) = sum_lens a + sum_lens b.
Proof. unfold sum_lens. induction a as [|x r IH]; cbn [app fold_right]; [lia | rewrite IH; lia]. Qed.
Lemma sum_lens_cons c r : sum_lens (c :: r) = snd c + sum_lens r.
Proof. reflexivity. Qed.

Lemma sum_range_slice l : forall n a, a + N.of_nat n <= N.of_nat (length l) -> sum_range l a n = sum_lens (slice l a (a + N.of_nat n)).
Proof.
  induction n as [|n IH]; intros a H; cbn [sum_range].
  - unfold slice. replace (a + N.of_nat 0 - a) with 0 by lia. reflexivity.
  - unfold nth_len. destruct (nth_error l (N.to_nat a)) as [c|] eqn:E.
    2:{ apply nth_error_None in E. lia. }
    rewrite IH by lia. rewrite <- (slice_cat l a (a + 1) (a + N.of_nat (S n))) by lia. rewrite (slice_nth _ _ _ E).
    rewrite sum_lens_app. cbn [sum_lens fold_right]. replace (a + 1 + N.of_nat n) with (a + N.of_nat (S n)) by lia. lia.
Qed.

Lemma u32wrap_small x : x < 4294967296 -> u32wrap x = x.
Proof. intro H. unfold u32wrap. change 4294967295 with (N.ones 32). rewrite N.land_ones. apply N.mod_small. exact H. Qed.

Section Bytes.
  Variables (F : store) (U : list chunk).
  Hypothesis HS : StoreOk F U.

  (* a dedup answer is byte-exact when the byte count of its segment is the summed length of the chunks it covers *)
  Definition AnsB (cs : list chunk) (a : N * seg) : Prop := sg_bytes (snd a) = sum_lens (firstn (N.to_nat (fst a)) cs).
  Definition AnsAllB (cs : list chunk) (answers : list (option (N * seg))) : Prop :=
    forall k a, nth_error answers k = Some (Some a) -> AnsB (skipn k cs) a.

  Lemma local_query_bytes f fed cs n s : FInv F U f fed -> (forall c, In c cs -> In c U) -> local_query f (map fst cs) = Some (n, s) ->
    sg_bytes s = sum_lens (firstn (N.to_nat n) cs).
  Proof.
    intros H HU Q. destruct (local_query_ok F U (so_keys F U HS) f fed cs n s H HU Q) as (R & R2 & R3 & R4).
    unfold local_query in Q. destruct cs as [|c r]; cbn [map] in Q; [discriminate|].
    destruct (lk (hkey (fst c)) (f_lookup f)) as [base|]; [|discriminate]. injection Q as Hn Hs.
    rewrite <- Hs in R |- *. cbn [sg_bytes].
    match type of R with resolve_seg _ ?sg = _ => destruct (resolve_zero_inv F (f_new f) sg _ (eq_refl : sg_cas sg = zero_hash) R) as (A1 & A2 & A3) end. cbn [sg_start sg_end] in *.
    rewrite A3. rewrite Hn in *. rewrite sum_range_slice by lia. f_equal. f_equal. lia.
  Qed.

  Lemma step_total_bytes cf f fed c rest ans :
    FInv F U f fed -> (forall c', In c' (c :: rest) -> In c' U) ->
    (forall a, ans = Some a -> AnsB (c :: rest) a /\ 1 <= fst a) ->
    let r := step false cf f c (map fst (c :: rest)) ans in
    m_total_bytes (f_metrics (fst r)) = m_total_bytes (f_metrics f) + sum_lens (firstn (N.to_nat (N.max (snd r) 1)) (c :: rest)).
  Proof.
    intros H HU Ha. cbv zeta.
    assert (Hq : forall n s, match ans with Some a => Some a | None => local_query f (map fst (c :: rest)) end = Some (n, s) ->
                   sg_bytes s = sum_lens (firstn (N.to_nat n) (c :: rest)) /\ 1 <= n).
    { intros n s Q. destruct ans as [a|].
      - injection Q as ->. destruct (Ha _ eq_refl) as [A1 A2]. cbn [fst snd] in *. unfold AnsB in A1. cbn [fst snd] in A1. auto.
      - split; [eapply local_query_bytes; eassumption|]. apply local_query_fits in Q. lia. }
    assert (Hnew : m_total_bytes (bump_new (f_metrics f) (snd c)) = m_total_bytes (f_metrics f) + sum_lens (firstn (N.to_nat (N.max 1 1)) (c :: rest))).
    { cbn [bump_new m_total_bytes]. change (N.to_nat (N.max 1 1)) with 1%nat. cbn [firstn]. rewrite sum_lens_cons. cbn [sum_lens fold_right]. lia. }
    unfold step, step_with. destruct (match ans with Some a => Some a | None => local_query f (map fst (c :: rest)) end) as [[n s]|] eqn:Q.
    2:{ cbn [fst snd]. rewrite add_new_chunk_metrics. exact Hnew. }
    destruct (Hq n s eq_refl) as [Q1 Q2].
    destruct (continues f s).
    { cbn [fst snd]. rewrite add_fse_metrics. cbn [with_metrics f_metrics bump_dedup m_total_bytes]. rewrite Q1. replace (N.max n 1) with n by lia. reflexivity. }
    destruct (d_allow cf (f_defrag f) n) as [ok d']. destruct ok; cbn [fst snd].
    - rewrite add_fse_metrics. cbn [with_metrics with_defrag f_metrics bump_dedup m_total_bytes]. rewrite Q1. replace (N.max n 1) with n by lia. reflexivity.
    - rewrite add_new_chunk_metrics. cbn [with_metrics with_defrag f_metrics bump_defrag bump_new m_total_bytes] in *. exact Hnew.
  Qed.

  Lemma AnsAllB_skipn cs answers k : AnsAllB cs answers -> AnsAllB (skipn k cs) (skipn k answers).
  Proof. intros H j a Hj. rewrite nth_error_skipn in Hj. rewrite skipn_add''. apply H. exact Hj. Qed.

  Lemma process_loop_bytes cf : forall fuel f fed cs answers,
    FInv F U f fed -> (forall c, In c cs -> In c U) -> AnsAll F cs answers -> AnsAllB cs answers -> (length cs <= fuel)%nat ->
    (forall x, In x (f_registered (process_loop fuel false cf f cs answers)) -> In x F) ->
    m_total_bytes (f_metrics (process_loop fuel false cf f cs answers)) = m_total_bytes (f_metrics f) + sum_lens cs.
  Proof.
    destruct HS as [A B C D E].
    induction fuel as [|fu IH]; intros f fed cs answers H HU HA HB Hl Hreg.
    - destruct cs; [|cbn in Hl; lia]. cbn. lia.
    - destruct cs as [|c rest]; [cbn; lia|]. cbn [process_loop] in *.
      assert (Hhd : forall a, hd None answers = Some a -> AnsOk F (c :: rest) a /\ AnsB (c :: rest) a).
      { intros a Ha. destruct answers as [|a0 t]; [discriminate|]. cbn [hd] in Ha. subst a0. split; [apply (HA O a eq_refl) | apply (HB O a eq_refl)]. }
      pose proof (step_inv F A B U C false cf f fed c rest (hd None answers) H HU (fun a Ha => proj1 (Hhd a Ha))) as St. cbv zeta in St.
      pose proof (step_total_bytes cf f fed c rest (hd None answers) H HU) as Sb. cbv zeta in Sb.
      destruct (step false cf f c (map fst (c :: rest)) (hd None answers)) as [f' n] eqn:Es. cbn [fst snd] in St, Sb.
      set (k := N.to_nat (N.max n 1)) in *.
      destruct (process_loop_registered_ext false cf fu f' (skipn k (c :: rest)) (skipn k answers)) as [pre Hp].
      rewrite (IH f' (fed ++ firstn k (c :: rest))).
      + rewrite Sb. 
        * rewrite <- (firstn_skipn k (c :: rest)) at 3. rewrite sum_lens_app. lia.
        * intros a Ha. destruct (Hhd a Ha) as [[_ (_ & _ & H1)] H2]. auto.
      + apply St. intros x Hx. apply Hreg. rewrite Hp. apply in_or_app. right. exact Hx.
      + intros c' Hc'. apply HU. eapply skipn_In_incl. exact Hc'.
      + apply AnsAll_skipn. exact HA.
      + apply AnsAllB_skipn. exact HB.
      + rewrite skipn_length. cbn [length] in *. unfold k. lia.
      + exact Hreg.
  Qed.

  (* the table oracle's answers are byte-exact when no table xorb reaches 4 GiB *)
  Definition TableSmall (t : xtable) : Prop := forall xh chs cap, In (xh, chs, cap) t -> sum_lens chs < 4294967296.

  Lemma sum_lens_firstn_le n : forall l, sum_lens (firstn n l) <= sum_lens l.
  Proof. induction n as [|n IH]; intros [|c r]; cbn [firstn]; rewrite ?sum_lens_cons; try (cbn; lia). specialize (IH r). lia. Qed.
  Lemma sum_lens_skipn_le n : forall l, sum_lens (skipn n l) <= sum_lens l.
  Proof. induction n as [|n IH]; intros [|c r]; cbn [skipn]; rewrite ?sum_lens_cons; try lia. specialize (IH r). lia. Qed.

  Lemma table_oracle_bytes : forall t cs a, TableOk F t -> TableSmall t -> (forall c, In c cs -> In c U) ->
    table_oracle t (map fst cs) = Some a -> AnsB cs a.
  Proof.
    destruct HS as [A B C D E].
    induction t as [|[[xh chs] cap] r IH]; intros cs a HT HSm HC; destruct cs as [|c0 cr]; cbn [map table_oracle]; try discriminate.
    destruct (find_pos (fst c0) chs 0) as [p|] eqn:Ef.
    2:{ apply (IH (c0 :: cr)); [intros xh' chs' cap' H; apply (HT xh' chs' cap'); right; exact H | intros xh' chs' cap' H; apply (HSm xh' chs' cap'); right; exact H | exact HC]. }
    change (fst c0 :: map fst cr) with (map fst (c0 :: cr)).
    intro H. injection H as <-. unfold AnsB. cbn [fst snd sg_bytes].
    destruct (HT xh chs cap (or_introl eq_refl)) as (x & Hx & Hh & Hc).
    set (tail := skipn (N.to_nat p) chs) in *.
    set (n := N.min (match_len tail (map fst (c0 :: cr))) (N.max cap 1)) in *.
    assert (HTU : forall c, In c tail -> In c U). { intros c Hc'. apply (D x); [exact Hx|]. rewrite Hc. eapply skipn_In_incl. exact Hc'. }
    destruct (match_len_ok F U C D tail (c0 :: cr) HTU HC n) as [M1 M2]; [unfold n; lia|].
    change (fst c0 :: map fst cr) with (map fst (c0 :: cr)). fold tail. fold n.
    rewrite <- M1. apply u32wrap_small.
    pose proof (sum_lens_firstn_le (N.to_nat n) tail). pose proof (sum_lens_skipn_le (N.to_nat p) chs). fold tail in H0.
    specialize (HSm xh chs cap (or_introl eq_refl)). lia.
  Qed.

  Theorem process_block_bytes cf ext f fed cs :
    FInv F U f fed -> TableOk F ext -> TableSmall ext -> (forall x, In x F -> sum_lens (chunks_of x) < 4294967296) ->
    (forall c, In c cs -> In c U) ->
    (forall x, In x (f_registered (process_block false cf ext f cs)) -> In x F) ->
    m_total_bytes (f_metrics (process_block false cf ext f cs)) = m_total_bytes (f_metrics f) + sum_lens cs.
  Proof.
    intros H HT HSm HFs HU Hreg. pose proof HS as [A B C D E]. unfold process_block in *.
    assert (Hr0 : forall x, In x (f_registered f) -> In x F).
    { intros x Hx. apply Hreg.
      match goal with |- In x (f_registered (process_chunks ?b ?c ?g ?l ?a)) => destruct (process_chunks_registered_ext b c g l a) as [pre Hp]; rewrite Hp end.
      apply in_or_app. right. exact Hx. }
    assert (HT2 : TableOk F (ext ++ registered_table f)) by (apply TableOk_app; [exact HT | apply registered_table_ok; exact Hr0]).
    assert (HS2 : TableSmall (ext ++ registered_table f)).
    { intros xh chs cap Hin. apply in_app_or in Hin as [Hin|Hin]; [apply (HSm _ _ _ Hin)|].
      unfold registered_table in Hin. apply in_map_iff in Hin as (x & Ex & Hx). injection Ex as _ <- _. apply HFs. apply Hr0. apply in_rev. exact Hx. }
    unfold process_chunks in *. cbn [f_metrics f_registered] in *.
    apply (process_loop_bytes cf (length cs) f fed cs); try assumption; [ | | lia].
    - intros k a Hk. apply pass1_nth in Hk. rewrite skipn_map in Hk. eapply (table_oracle_ok F A B U C D); [exact HT2 | | exact Hk].
      intros c Hc. apply HU. eapply skipn_In_incl. exact Hc.
    - intros k a Hk. apply pass1_nth in Hk. rewrite skipn_map in Hk. eapply table_oracle_bytes; [exact HT2 | exact HS2 | | exact Hk].
      intros c Hc. apply HU. eapply skipn_In_incl. exact Hc.
  Qed.

  (* a whole file, however its chunks are grouped into process_chunks calls: total_bytes = the bytes fed *)
  Theorem feed_blocks_bytes cf ext : forall blocks f fed,
    FInv F U f fed -> TableOk F ext -> TableSmall ext -> (forall x, In x F -> sum_lens (chunks_of x) < 4294967296) ->
    (forall b c, In b blocks -> In c b -> In c U) ->
    (forall x, In x (f_registered (feed_blocks false cf ext f blocks)) -> In x F) ->
    m_total_bytes (f_metrics (feed_blocks false cf ext f blocks)) = m_total_bytes (f_metrics f) + sum_lens (concat blocks).
  Proof.
    pose proof HS as [A B C D E].
    induction blocks as [|b r IH]; intros f fed H HT HSm HFs HU Hreg; [cbn; lia|].
    change (feed_blocks false cf ext f (b :: r)) with (feed_blocks false cf ext (process_block false cf ext f b) r) in *. cbn [concat].
    assert (Hr1 : forall x, In x (f_registered (process_block false cf ext f b)) -> In x F).
    { intros x Hx. apply Hreg. destruct (feed_blocks_registered_ext false cf ext r (process_block false cf ext f b)) as [pre Hp].
      rewrite Hp. apply in_or_app. right. exact Hx. }
    assert (HUb : forall c, In c b -> In c U) by (intros c Hc; apply (HU b c); [left; reflexivity | exact Hc]).
    rewrite (IH (process_block false cf ext f b) (fed ++ b)); try assumption.
    - rewrite (process_block_bytes cf ext f fed b); try assumption. rewrite sum_lens_app. lia.
    - apply (process_block_inv F A B U C D); assumption.
    - intros b' c Hb' Hc. apply (HU b' c); [right; exact Hb' | exact Hc].
  Qed.
End Bytes.

(* a whole file from a fresh deduper: total_bytes = the bytes fed (and with it the size written into the pointer file,
   which file_cleaner takes from this counter) *)
Theorem file_total_bytes F U : StoreOk F U -> forall cf ext R blocks,
  TableOk F ext -> TableSmall ext -> (forall x, In x F -> sum_lens (chunks_of x) < 4294967296) ->
  (forall b c, In b blocks -> In c b -> In c U) ->
  (forall x, In x (f_registered (feed_blocks false cf ext (fd_with_registered R) blocks)) -> In x F) ->
  m_total_bytes (f_metrics (feed_blocks false cf ext (fd_with_registered R) blocks)) = sum_lens (concat blocks).
Proof.
  intros HS cf ext R blocks HT HSm HFs HU Hreg.
  rewrite (feed_blocks_bytes F U HS cf ext blocks (fd_with_registered R) []); try assumption; [reflexivity|].
  destruct HS as [A B C D E]. eapply FInv_ext; [ | | | | apply FInv_fd0]; reflexivity.
Qed.

Example ex_total_bytes : m_total_bytes (f_metrics ex_file) = sum_lens (concat ex_blocks) /\ sum_lens (concat ex_blocks) = 40
  /\ m_deduped_bytes (f_metrics ex_file) = 10.
Proof.
  split; [|split; vm_compute; reflexivity].
  apply (file_total_bytes ex_F ex_U ex_StoreOk ex_cfg2 [] [] ex_blocks).
  - intros xh chs cap [].
  - intros xh chs cap [].
  - rewrite ex_F_is. intros x [<-|[]]. vm_compute. reflexivity.
  - intros b c [<-|[<-|[]]] Hc; cbn in Hc; unfold ex_U; cbn; tauto.
  - intros x Hx. vm_compute in Hx. destruct Hx.
Qed.
