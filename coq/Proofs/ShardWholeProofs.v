(* C09: a serialized shard answers file lookups exactly as the records it was built from.  Footer, lookup table and
   records are read back from the bytes serialize_with produces; the interpolation search (exact for every probe,
   SearchProofs) finds the candidates; the record at each candidate index is the record that was written there. *)
From Coq Require Import ZArith NArith Bool List Lia ZifyBool ZifyN ZifyNat Permutation Sorted.
Import ListNotations.
From XetModel Require Import Base.Codec Gen.ShardLayout Model.Merkle Model.Shard Proofs.CodecProofs Proofs.ShardProofs Proofs.DedupProofs Proofs.SearchProofs
  Proofs.SetOpProofs Proofs.SetOpSortedProofs.
Open Scope N_scope.

Arguments N.add : simpl never.
Arguments N.sub : simpl never.
Arguments N.mul : simpl never.
Arguments N.div : simpl never.
Arguments N.modulo : simpl never.
Arguments N.ltb : simpl never.
Arguments N.leb : simpl never.
Arguments N.eqb : simpl never.
Arguments N.to_nat : simpl never.
Arguments N.of_nat : simpl never.
Ltac Zify.zify_post_hook ::= Z.div_mod_to_equations.

(* ---- lengths ---- *)
Lemma len_ser_verif h : is_hash h -> length (ser_FileVerificationEntry h [0; 0]) = 48%nat.
Proof. apply len_ser_FileVerificationEntry. Qed.

Lemma len_ser_file_info f : wf_file f -> N.of_nat (length (ser_file_info f)) = file_info_num_bytes f.
Proof.
  intros (H1 & _ & _ & _ & _ & H6 & H7 & H8 & H9). unfold ser_file_info, file_info_num_bytes. rewrite !app_length.
  rewrite len_ser_FileDataSequenceHeader by exact H1.
  rewrite (flat_map_length48 wf_seg ser_seg len_ser_seg _ H6).
  revert H8 H9. destruct (has_verif (fi_flags f)); destruct (has_ext (fi_flags f)); intros H8 H9.
  - rewrite (flat_map_length48 is_hash (fun h => ser_FileVerificationEntry h [0; 0]) len_ser_verif _ H7).
    destruct H9 as (h & -> & Hh). rewrite len_ser_FileMetadataExt by exact Hh. unfold hash in *. lia.
  - rewrite (flat_map_length48 is_hash (fun h => ser_FileVerificationEntry h [0; 0]) len_ser_verif _ H7). rewrite H9. cbn [length]. unfold hash in *. lia.
  - cbn [length]. destruct H9 as (h & -> & Hh). rewrite len_ser_FileMetadataExt by exact Hh. lia.
  - rewrite H9. cbn [length]. lia.
Qed.

Definition recs48 (fs : list file_info) : N := fold_right (fun f a => file_info_num_bytes f / 48 + a) 0 fs.
Lemma file_info_num_bytes_48 f : 48 * (file_info_num_bytes f / 48) = file_info_num_bytes f.
Proof. unfold file_info_num_bytes. set (x := N.of_nat (length (fi_segs f)) * _ + _). lia. Qed.
Lemma len_flat_ser_files fs : Forall wf_file fs -> N.of_nat (length (flat_map ser_file_info fs)) = 48 * recs48 fs.
Proof.
  induction fs as [|f fs IH]; intro H; [reflexivity|]. inversion H; subst. cbn [flat_map recs48 fold_right]. rewrite app_length.
  fold (recs48 fs). pose proof (len_ser_file_info f H2). pose proof (file_info_num_bytes_48 f). specialize (IH H3). lia.
Qed.

(* ---- the file lookup table: what is stored under a key ---- *)
Lemma file_lookup_tbl_app a b idx : file_lookup_tbl (a ++ b) idx = file_lookup_tbl a idx ++ file_lookup_tbl b (idx + recs48 a).
Proof.
  revert idx. induction a as [|f a IH]; intro idx; cbn [app file_lookup_tbl recs48 fold_right]; [f_equal; lia|].
  rewrite IH. fold (recs48 a). do 3 f_equal. lia.
Qed.
Lemma file_lookup_tbl_length fs idx : length (file_lookup_tbl fs idx) = length fs.
Proof. revert idx. induction fs as [|f fs IH]; intro idx; cbn [file_lookup_tbl length]; [reflexivity | rewrite IH; reflexivity]. Qed.

(* ---- footer ---- *)
Lemma rt_MDBShardFileFooter v a b c d e f g h k t x s1 s2 s3 fo rest :
  is_hash k -> is_u64 v -> is_u64 a -> is_u64 b -> is_u64 c -> is_u64 d -> is_u64 e -> is_u64 f -> is_u64 g -> is_u64 h ->
  is_u64 t -> is_u64 x -> is_u64 s1 -> is_u64 s2 -> is_u64 s3 -> is_u64 fo ->
  de_MDBShardFileFooter (ser_MDBShardFileFooter v a b c d e f g h k t x [0; 0; 0; 0; 0; 0] s1 s2 s3 fo ++ rest) =
  Some ((v, a, b, c, d, e, f, g, h, k, t, x, [0; 0; 0; 0; 0; 0], s1, s2, s3, fo), rest).
Proof.
  intros Hk ? ? ? ? ? ? ? ? ? ? ? ? ? ? ?. explode_hash k Hk. unfold de_MDBShardFileFooter, ser_MDBShardFileFooter, is_u64 in *.
  assert (0 < 18446744073709551616) by lia. codec_rt.
Qed.
Lemma len_MDBShardFileFooter v a b c d e f g h k t x s1 s2 s3 fo : is_hash k ->
  length (ser_MDBShardFileFooter v a b c d e f g h k t x [0; 0; 0; 0; 0; 0] s1 s2 s3 fo) = 200%nat.
Proof. intro Hk. unfold ser_MDBShardFileFooter. rewrite !app_length, Hk. reflexivity. Qed.

(* ---- 12-byte lookup tables ---- *)
Definition ent12_ok (e : N * N) : Prop := is_u64 (fst e) /\ is_u32 (snd e).
Lemma len_ser_lookup12 t : length (ser_lookup12 t) = (12 * length t)%nat.
Proof. unfold ser_lookup12. induction t as [|e t IH]; [reflexivity|]. cbn [flat_map]. rewrite app_length, IH. cbn [length app u64 u32 le_bytes]. lia. Qed.

Lemma read_tbl12_spec pre t post : Forall ent12_ok t ->
  read_tbl12 (pre ++ ser_lookup12 t ++ post) (N.of_nat (length pre)) (N.of_nat (length t)) = t.
Proof.
  intro Ht. unfold read_tbl12. rewrite !app_length, len_ser_lookup12.
  replace (N.of_nat (length pre + (12 * length t + length post)) <? N.of_nat (length pre) + 12 * N.of_nat (length t)) with false by lia.
  replace (N.to_nat (N.of_nat (length pre))) with (length pre) by lia. rewrite skipn_app, skipn_all, Nat.sub_diag. cbn [skipn app].
  replace (N.to_nat (N.of_nat (length t))) with (length t) by lia.
  clear pre. induction t as [|[k v] t IH]; [reflexivity|]. inversion Ht as [|? ? [Hk Hv] Hr]; subst. cbn [fst snd] in *.
  cbn [length]. unfold ser_lookup12. cbn [flat_map fst snd]. rewrite <- !app_assoc.
  unfold is_u64, is_u32 in *. cbn [u64 u32 le_bytes app has length Nat.leb firstn skipn].
  rewrite le_val_u64, le_val_u32 by assumption. f_equal. apply IH. exact Hr.
Qed.

Section Whole.
  Variables (files : list file_info) (cass : list cas_info) (ctbl : list (N * (N * N))) (key : hash) (created expiry : N).
  Hypothesis Hf : Forall wf_file files.
  Hypothesis Hc : Forall wf_cas cass.
  Hypothesis Hkey : is_hash key.
  Hypothesis Hcr : is_u64 created.
  Hypothesis Hex : is_u64 expiry.
  Hypothesis HS1 : is_u64 (sum_ndisk cass).
  Hypothesis HS2 : is_u64 (sum_materialized files).
  Hypothesis HS3 : is_u64 (sum_nbytes cass).

  Definition w_bs : list N := serialize_with files cass ctbl true true key created expiry.
  Hypothesis Hsmall : N.of_nat (length w_bs) < 4294967296.

  Definition w_fsec : list N := flat_map ser_file_info files ++ file_bookend.
  Definition w_csec : list N := flat_map ser_cas_info cass ++ cas_bookend.
  Definition w_ftbl := file_lookup_tbl files 0.
  Definition w_ttbl := cas_lookup_tbl cass 0.
  Definition w_o2 : N := 48 + N.of_nat (length w_fsec).
  Definition w_o3 : N := w_o2 + N.of_nat (length w_csec).
  Definition w_o4 : N := w_o3 + 12 * N.of_nat (length w_ftbl).
  Definition w_o5 : N := w_o4 + 12 * N.of_nat (length w_ttbl).
  Definition w_o6 : N := w_o5 + 16 * N.of_nat (length ctbl).
  Definition w_hdr : list N := ser_MDBShardFileHeader MDB_SHARD_HEADER_TAG MDB_SHARD_HEADER_VERSION 200.
  Definition w_foot : list N :=
    ser_MDBShardFileFooter MDB_SHARD_FOOTER_VERSION 48 w_o2 w_o3 (N.of_nat (length w_ftbl)) w_o4 (N.of_nat (length w_ttbl)) w_o5 (N.of_nat (length ctbl))
      key created expiry [0; 0; 0; 0; 0; 0] (sum_ndisk cass) (sum_materialized files) (sum_nbytes cass) w_o6.
  Definition w_ft : footer :=
    mkFooter MDB_SHARD_FOOTER_VERSION 48 w_o2 w_o3 (N.of_nat (length w_ftbl)) w_o4 (N.of_nat (length w_ttbl)) w_o5 (N.of_nat (length ctbl))
      key created expiry [0; 0; 0; 0; 0; 0] (sum_ndisk cass) (sum_materialized files) (sum_nbytes cass) w_o6.

  Lemma w_bs_shape : w_bs = w_hdr ++ w_fsec ++ w_csec ++ ser_lookup12 w_ftbl ++ ser_lookup12 w_ttbl ++ ser_lookup16 ctbl ++ w_foot.
  Proof. reflexivity. Qed.

  Lemma len_ser_lookup16 t : length (ser_lookup16 t) = (16 * length t)%nat.
  Proof. unfold ser_lookup16. induction t as [|e t IH]; [reflexivity|]. cbn [flat_map]. rewrite app_length, IH. cbn [length app u64 u32 le_bytes]. lia. Qed.
  Lemma w_hdr_len : length w_hdr = 48%nat.
  Proof. reflexivity. Qed.
  Lemma w_foot_len : length w_foot = 200%nat.
  Proof. apply len_MDBShardFileFooter. exact Hkey. Qed.

  Lemma w_len : N.of_nat (length w_bs) = w_o6 + 200.
  Proof.
    rewrite w_bs_shape, !app_length, w_hdr_len, w_foot_len, !len_ser_lookup12, len_ser_lookup16.
    unfold w_o6, w_o5, w_o4, w_o3, w_o2. lia.
  Qed.

  Theorem w_load_footer : load_footer w_bs = Some w_ft.
  Proof.
    pose proof w_len as HL. unfold load_footer.
    assert (Hh : de_MDBShardFileHeader w_bs = Some ((MDB_SHARD_HEADER_TAG, MDB_SHARD_HEADER_VERSION, 200), skipn 48 w_bs)).
    { rewrite w_bs_shape. unfold w_hdr. rewrite rt_MDBShardFileHeader; [ | reflexivity | unfold is_u64, MDB_SHARD_HEADER_VERSION; lia | unfold is_u64; lia].
      reflexivity. }
    rewrite Hh. rewrite bytes_eqb_refl. cbn [negb].
    assert (Hhas : has 200 w_bs = true) by (unfold has; apply Nat.leb_le; lia). rewrite Hhas. cbn [negb].
    assert (Hsk : skipn (length w_bs - 200) w_bs = w_foot ++ []).
    { rewrite app_nil_r. rewrite w_bs_shape. rewrite !app_assoc. rewrite skipn_app.
      match goal with |- skipn ?n ?pre ++ skipn ?m w_foot = _ => assert (E : n = length pre) end.
      { rewrite !app_length, w_foot_len. lia. }
      rewrite E, skipn_all, Nat.sub_diag. reflexivity. }
    rewrite Hsk. unfold w_foot.
    assert (U : forall x, x <= w_o6 -> is_u64 x) by (intros x Hx; unfold is_u64; lia).
    rewrite rt_MDBShardFileFooter; try assumption; try (apply U; unfold w_o6, w_o5, w_o4, w_o3, w_o2; lia); [ | unfold is_u64, MDB_SHARD_FOOTER_VERSION; lia].
    rewrite N.eqb_refl. reflexivity.
  Qed.

  (* ---- the file lookup table read back ---- *)
  Hypothesis Hbytes : Forall (fun f => Forall (fun b => b < 256) (fi_hash f)) files.

  Lemma tbl_entry : forall fs idx0 k i, In (k, i) (file_lookup_tbl fs idx0) ->
    exists pre f post, fs = pre ++ f :: post /\ k = truncate_hash (fi_hash f) /\ i = idx0 + recs48 pre.
  Proof.
    induction fs as [|f fs IH]; intros idx0 k i H; [destruct H|]. cbn [file_lookup_tbl] in H. destruct H as [E|H].
    - injection E as <- <-. exists [], f, fs. cbn [app recs48 fold_right]. repeat split. lia.
    - destruct (IH _ _ _ H) as (pre & g & post & -> & -> & ->). exists (f :: pre), g, post. cbn [app recs48 fold_right]. fold (recs48 pre). repeat split. lia.
  Qed.

  Lemma recs48_bound pre f post : files = pre ++ f :: post -> 48 * recs48 pre + 48 <= N.of_nat (length w_bs).
  Proof.
    intro E. rewrite w_bs_shape, !app_length, w_hdr_len. unfold w_fsec. rewrite app_length, E, flat_map_app, app_length.
    assert (Hp : Forall wf_file pre) by (rewrite E in Hf; apply Forall_app in Hf; tauto).
    pose proof (len_flat_ser_files pre Hp). lia.
  Qed.

  Lemma truncate_hash_u64 h : Forall (fun b => b < 256) h -> is_u64 (truncate_hash h).
  Proof.
    intro H. unfold truncate_hash, is_u64. assert (G : forall l : list N, Forall (fun b => b < 256) l -> (length l <= 8)%nat -> le_val l < 256 ^ N.of_nat (length l)).
    { induction l as [|b l IH]; intros Hb Hl; [cbn; lia|]. inversion Hb; subst. cbn [length] in Hl. specialize (IH H3 ltac:(lia)).
      unfold le_val in *. cbn [fold_right length]. replace (N.of_nat (S (length l))) with (1 + N.of_nat (length l)) by lia. rewrite N.pow_add_r. change (256 ^ 1) with 256. nia. }
    assert (Hf8 : Forall (fun b => b < 256) (firstn 8 h)).
    { apply Forall_forall. intros b Hb. rewrite Forall_forall in H. apply H. clear -Hb. revert h Hb. generalize 8%nat. induction n as [|n IH]; intros [|x h] Hb; cbn in Hb; try contradiction. destruct Hb as [<-|Hb]; [left; reflexivity | right; apply (IH h); exact Hb]. }
    pose proof (G (firstn 8 h) Hf8 ltac:(rewrite firstn_length; lia)) as B.
    assert (256 ^ N.of_nat (length (firstn 8 h)) <= 256 ^ 8) by (apply N.pow_le_mono_r; [lia | rewrite firstn_length; lia]).
    change (256 ^ 8) with 18446744073709551616 in *. lia.
  Qed.

  Lemma w_ftbl_ok : Forall ent12_ok w_ftbl.
  Proof.
    apply Forall_forall. intros [k i] Hin. unfold w_ftbl in Hin. destruct (tbl_entry _ _ _ _ Hin) as (pre & f & post & E & -> & ->).
    split; cbn [fst snd].
    - apply truncate_hash_u64. rewrite Forall_forall in Hbytes. apply Hbytes. rewrite E. apply in_or_app. right. left. reflexivity.
    - pose proof (recs48_bound _ _ _ E). unfold is_u32. lia.
  Qed.

  Lemma w_read_file_tbl : read_tbl12 w_bs (ft_file_lookup_offset w_ft) (ft_file_lookup_num w_ft) = w_ftbl.
  Proof.
    cbn [w_ft ft_file_lookup_offset ft_file_lookup_num]. rewrite w_bs_shape.
    replace (w_hdr ++ w_fsec ++ w_csec ++ ser_lookup12 w_ftbl ++ ser_lookup12 w_ttbl ++ ser_lookup16 ctbl ++ w_foot)
      with ((w_hdr ++ w_fsec ++ w_csec) ++ ser_lookup12 w_ftbl ++ (ser_lookup12 w_ttbl ++ ser_lookup16 ctbl ++ w_foot)) by (rewrite <- !app_assoc; reflexivity).
    replace w_o3 with (N.of_nat (length (w_hdr ++ w_fsec ++ w_csec))) by (rewrite !app_length, w_hdr_len; unfold w_o3, w_o2; lia).
    apply read_tbl12_spec. exact w_ftbl_ok.
  Qed.

  (* ---- the record at a table index ---- *)
  Lemma w_file_at pre f post : files = pre ++ f :: post -> file_at w_bs w_ft (recs48 pre) = Some f.
  Proof.
    intro E. unfold file_at. cbn [w_ft ft_file_info_offset].
    assert (Hp : Forall wf_file pre) by (rewrite E in Hf; apply Forall_app in Hf; tauto).
    assert (Hwf : wf_file f) by (rewrite E in Hf; apply Forall_app in Hf as [_ Hf']; inversion Hf'; assumption).
    assert (Esk : skipn (N.to_nat (48 + 48 * recs48 pre)) w_bs = ser_file_info f ++ (flat_map ser_file_info post ++ file_bookend ++ w_csec ++ ser_lookup12 w_ftbl ++ ser_lookup12 w_ttbl ++ ser_lookup16 ctbl ++ w_foot)).
    { assert (Efs : flat_map ser_file_info files = flat_map ser_file_info pre ++ ser_file_info f ++ flat_map ser_file_info post).
      { rewrite E, flat_map_app. reflexivity. }
      rewrite w_bs_shape. unfold w_fsec. rewrite Efs.
      replace (w_hdr ++ ((flat_map ser_file_info pre ++ ser_file_info f ++ flat_map ser_file_info post) ++ file_bookend) ++ w_csec ++ ser_lookup12 w_ftbl ++ ser_lookup12 w_ttbl ++ ser_lookup16 ctbl ++ w_foot)
        with ((w_hdr ++ flat_map ser_file_info pre) ++ ser_file_info f ++ (flat_map ser_file_info post ++ file_bookend ++ w_csec ++ ser_lookup12 w_ftbl ++ ser_lookup12 w_ttbl ++ ser_lookup16 ctbl ++ w_foot)) by (rewrite <- !app_assoc; reflexivity).
      pose proof (len_flat_ser_files pre Hp) as Lp.
      replace (N.to_nat (48 + 48 * recs48 pre)) with (length (w_hdr ++ flat_map ser_file_info pre)) by (rewrite app_length, w_hdr_len; lia).
      rewrite skipn_app, skipn_all, Nat.sub_diag. reflexivity. }
    rewrite Esk. rewrite parse_ser_file by exact Hwf. reflexivity.
  Qed.

  (* ---- the table is sorted by key when the records are sorted by hash ---- *)
  Lemma hwords_first_le a b : words_cmp (hwords a) (hwords b) = Lt -> truncate_hash a <= truncate_hash b.
  Proof.
    unfold hwords, truncate_hash. cbn [words_cmp]. destruct (le_val (firstn 8 a) ?= le_val (firstn 8 b)) eqn:E; intro H; try discriminate.
    - apply N.compare_eq in E. rewrite E. apply N.le_refl.
    - apply N.compare_lt_iff in E. apply N.lt_le_incl. exact E.
  Qed.
  Lemma file_lookup_tbl_keys fs idx : map fst (file_lookup_tbl fs idx) = map (fun f => truncate_hash (fi_hash f)) fs.
  Proof. revert idx. induction fs as [|f fs IH]; intro idx; cbn [file_lookup_tbl map fst]; [reflexivity | rewrite IH; reflexivity]. Qed.
  Lemma tbl_sorted : forall fs idx, KSorted fi_hash fs -> StronglySorted (fun a b : N * N => fst a <= fst b) (file_lookup_tbl fs idx).
  Proof.
    induction fs as [|f fs IH]; intros idx HS; [constructor|]. cbn [file_lookup_tbl].
    inversion HS as [|? ? Hr Hall]; subst. constructor; [apply IH; exact Hr|].
    apply Forall_forall. intros [k i] Hin. cbn [fst]. destruct (tbl_entry _ _ _ _ Hin) as (pre & g & post & E & -> & _).
    apply hwords_first_le. rewrite Forall_forall in Hall. apply (Hall g). rewrite E. apply in_or_app. right. left. reflexivity.
  Qed.
  Lemma w_ftbl_sorted : KSorted fi_hash files -> StronglySorted (fun a b : N * N => fst a <= fst b) w_ftbl.
  Proof. apply tbl_sorted. Qed.

  (* ---- the lookup ---- *)
  Definition scan_idxs (bs : list N) (ft : footer) (h : hash) : list N -> lookup_result file_info :=
    fix go (l : list N) : lookup_result file_info :=
      match l with
      | [] => NotFound
      | i :: r => match file_at bs ft i with
                  | None => IoError
                  | Some f => if bytes_eqb (fi_hash f) h then Found f else go r
                  end
      end.
  Lemma get_file_info_unfold probe bs ft h : get_file_info probe bs ft h =
    match search probe (read_tbl12 bs (ft_file_lookup_offset ft) (ft_file_lookup_num ft)) 8 (truncate_hash h) with
    | None => IoError
    | Some idxs => if Nat.leb 8 (length idxs) then CollisionError else scan_idxs bs ft h idxs
    end.
  Proof. reflexivity. Qed.

  Lemma ksorted_hash_inj : forall fs f g, KSorted fi_hash fs -> In f fs -> In g fs -> fi_hash f = fi_hash g -> f = g.
  Proof.
    induction fs as [|x fs IH]; intros f g HS Hf' Hg E; [destruct Hf'|]. inversion HS as [|? ? Hr Hall]; subst. rewrite Forall_forall in Hall.
    destruct Hf' as [<-|Hf'], Hg as [<-|Hg].
    - reflexivity.
    - exfalso. specialize (Hall g Hg). unfold klt, gkey in Hall. rewrite E in Hall. rewrite wc_refl in Hall. discriminate.
    - exfalso. specialize (Hall f Hf'). unfold klt, gkey in Hall. rewrite E in Hall. rewrite wc_refl in Hall. discriminate.
    - apply IH; assumption.
  Qed.

  (* every index the table holds under a key is the position of a record with that key *)
  Definition IdxOk (kq : N) (i : N) : Prop := exists pre g post, files = pre ++ g :: post /\ i = recs48 pre /\ truncate_hash (fi_hash g) = kq.
  Lemma matching_idx_ok kq i : In i (matching kq w_ftbl) -> IdxOk kq i.
  Proof.
    unfold matching. intro H. apply in_map_iff in H as ([k j] & Ej & Hin). cbn [snd] in Ej. subst j. apply filter_In in Hin as [Hin Hk].
    unfold eqk in Hk. cbn [fst] in Hk. apply N.eqb_eq in Hk. unfold w_ftbl in Hin. destruct (tbl_entry _ _ _ _ Hin) as (pre & g & post & E & Ek & Ei).
    exists pre, g, post. repeat split; [exact E | lia | congruence].
  Qed.
  Lemma idx_in_matching pre f post : files = pre ++ f :: post -> In (recs48 pre) (matching (truncate_hash (fi_hash f)) w_ftbl).
  Proof.
    intro E. unfold matching. apply in_map_iff. exists (truncate_hash (fi_hash f), recs48 pre). split; [reflexivity|]. apply filter_In. split.
    - unfold w_ftbl. rewrite E, file_lookup_tbl_app. apply in_or_app. right. cbn [file_lookup_tbl]. left. replace (0 + recs48 pre) with (recs48 pre) by lia. reflexivity.
    - unfold eqk. cbn [fst]. apply N.eqb_refl.
  Qed.

  Lemma scan_notfound h kq : (forall g, In g files -> fi_hash g <> h) -> forall l, (forall i, In i l -> IdxOk kq i) -> scan_idxs w_bs w_ft h l = NotFound.
  Proof.
    intros Hno. induction l as [|i r IH]; intro Hl; [reflexivity|]. cbn [scan_idxs].
    destruct (Hl i (or_introl eq_refl)) as (pre & g & post & E & -> & _). rewrite (w_file_at _ _ _ E).
    destruct (bytes_eqb (fi_hash g) h) eqn:Eb.
    - exfalso. apply bytes_eqb_eq in Eb. apply (Hno g); [rewrite E; apply in_or_app; right; left; reflexivity | exact Eb].
    - apply IH. intros j Hj. apply Hl. right. exact Hj.
  Qed.
  Lemma scan_found f kq : KSorted fi_hash files -> In f files -> forall l, (forall i, In i l -> IdxOk kq i) ->
    (exists pre post, files = pre ++ f :: post /\ In (recs48 pre) l) -> scan_idxs w_bs w_ft (fi_hash f) l = Found f.
  Proof.
    intros HS Hin. induction l as [|i r IH]; intros Hl (pre & post & E & Hi); [destruct Hi|]. cbn [scan_idxs].
    destruct (Hl i (or_introl eq_refl)) as (pre' & g & post' & E' & -> & _). rewrite (w_file_at _ _ _ E').
    destruct (bytes_eqb (fi_hash g) (fi_hash f)) eqn:Eb.
    - apply bytes_eqb_eq in Eb. f_equal. apply (ksorted_hash_inj files); [exact HS | rewrite E'; apply in_or_app; right; left; reflexivity | exact Hin | exact Eb].
    - apply IH; [intros j Hj; apply Hl; right; exact Hj|]. exists pre, post. split; [exact E|]. destruct Hi as [Hi|Hi]; [|exact Hi].
      exfalso. (* the head is f's own position: then g = f *)
      assert (Hpre : pre' = pre /\ g = f).
      { clear -E E' Hi Hf. rewrite E in E'. assert (Hl' : Forall wf_file (pre ++ f :: post)) by (rewrite <- E; exact Hf).
        assert (G : forall a b x y p q, Forall wf_file (a ++ x :: p) -> a ++ x :: p = b ++ y :: q -> recs48 b = recs48 a -> b = a /\ y = x).
        { induction a as [|a0 a IHa]; intros [|b0 b] x y p q W Eq Er; cbn [app] in Eq.
          - injection Eq as -> _. auto.
          - exfalso. cbn [recs48 fold_right] in Er. fold (recs48 b) in Er. injection Eq as <- _. inversion W; subst. unfold file_info_num_bytes in Er.
            set (z := N.of_nat (length (fi_segs x)) * _ + _) in Er. cbn [recs48 fold_right] in Er. lia.
          - exfalso. cbn [recs48 fold_right] in Er. fold (recs48 a) in Er. cbn [app] in W. inversion W; subst. unfold file_info_num_bytes in Er.
            set (z := N.of_nat (length (fi_segs a0)) * _ + _) in Er. lia.
          - injection Eq as -> Eq. cbn [app] in W. inversion W; subst. cbn [recs48 fold_right] in Er. fold (recs48 a) (recs48 b) in Er.
            destruct (IHa b x y p q H2 Eq ltac:(lia)) as [-> ->]. auto. }
        destruct (G pre pre' f g post post' Hl' E' Hi) as [-> ->]. auto. }
      destruct Hpre as [_ ->]. rewrite bytes_eqb_refl in Eb. discriminate.
  Qed.

  (* C09: every stored file hash is found, with exactly the stored record; an absent hash is not found -- for every probe
     function, any number of records, as long as fewer than eight records share the truncated key *)
  Theorem w_get_file_found probe f : KSorted fi_hash files -> In f files ->
    (length (matching (truncate_hash (fi_hash f)) w_ftbl) < 8)%nat ->
    get_file_info probe w_bs w_ft (fi_hash f) = Found f.
  Proof.
    intros HS Hin Hlt. rewrite get_file_info_unfold, w_read_file_tbl.
    destruct (search_exact probe w_ftbl (truncate_hash (fi_hash f)) (w_ftbl_sorted HS) 8 ltac:(lia)) as (l & Hs & Hp). rewrite Hs.
    assert (Ll : length l = length (matching (truncate_hash (fi_hash f)) w_ftbl)) by (apply Permutation_length; exact Hp).
    rewrite firstn_all2 by lia. replace (Nat.leb 8 (length l)) with false by (symmetry; apply Nat.leb_gt; lia).
    apply in_split in Hin as (pre & post & E).
    apply (scan_found f (truncate_hash (fi_hash f)) HS); [rewrite E; apply in_or_app; right; left; reflexivity | | ].
    - intros i Hi. apply matching_idx_ok. eapply Permutation_in; [exact Hp | exact Hi].
    - exists pre, post. split; [exact E|]. eapply Permutation_in; [apply Permutation_sym; exact Hp | apply (idx_in_matching pre f post E)].
  Qed.
  Theorem w_get_file_notfound probe h : KSorted fi_hash files -> (forall g, In g files -> fi_hash g <> h) ->
    (length (matching (truncate_hash h) w_ftbl) < 8)%nat ->
    get_file_info probe w_bs w_ft h = NotFound.
  Proof.
    intros HS Hno Hlt. rewrite get_file_info_unfold, w_read_file_tbl.
    destruct (search_exact probe w_ftbl (truncate_hash h) (w_ftbl_sorted HS) 8 ltac:(lia)) as (l & Hs & Hp). rewrite Hs.
    assert (Ll : length l = length (matching (truncate_hash h) w_ftbl)) by (apply Permutation_length; exact Hp).
    rewrite firstn_all2 by lia. replace (Nat.leb 8 (length l)) with false by (symmetry; apply Nat.leb_gt; lia).
    apply (scan_notfound h (truncate_hash h) Hno). intros i Hi. apply matching_idx_ok. eapply Permutation_in; [exact Hp | exact Hi].
  Qed.

  (* ---- scanning lists every record ---- *)
  Lemma skipn_prefix {A} (a b : list A) : skipn (length a) (a ++ b) = b.
  Proof. rewrite skipn_app, skipn_all, Nat.sub_diag. reflexivity. Qed.

  Theorem w_read_all_files : read_all_files w_bs w_ft = Some files.
  Proof.
    unfold read_all_files. cbn [w_ft ft_file_info_offset]. rewrite w_bs_shape.
    replace (N.to_nat 48) with (length w_hdr) by (rewrite w_hdr_len; lia). rewrite skipn_prefix.
    unfold w_fsec. rewrite <- app_assoc. rewrite parse_all_files; [reflexivity | exact Hf|].
    unfold fuel_of. rewrite !app_length. pose proof (len_flat_ser_files files Hf) as L.
    assert (Hr : N.of_nat (length files) <= recs48 files).
    { clear. induction files as [|f fs IH]; [cbn; lia|]. cbn [length recs48 fold_right]. fold (recs48 fs). unfold file_info_num_bytes.
      set (z := N.of_nat (length (fi_segs f)) * _ + _). lia. }
    assert (48 * length files <= length (flat_map ser_file_info files))%nat by lia.
    assert (Hd : (length files <= (length (flat_map ser_file_info files) + (length file_bookend + length (w_csec ++ ser_lookup12 w_ftbl ++ ser_lookup12 w_ttbl ++ ser_lookup16 ctbl ++ w_foot))) / 48)%nat).
    { apply Nat.div_le_lower_bound; lia. }
    lia.
  Qed.

  Theorem w_read_all_cas : read_all_cas w_bs w_ft = Some cass.
  Proof.
    unfold read_all_cas. cbn [w_ft ft_cas_info_offset]. rewrite w_bs_shape.
    replace (w_hdr ++ w_fsec ++ w_csec ++ ser_lookup12 w_ftbl ++ ser_lookup12 w_ttbl ++ ser_lookup16 ctbl ++ w_foot)
      with ((w_hdr ++ w_fsec) ++ w_csec ++ ser_lookup12 w_ftbl ++ ser_lookup12 w_ttbl ++ ser_lookup16 ctbl ++ w_foot) by (rewrite <- !app_assoc; reflexivity).
    replace (N.to_nat w_o2) with (length (w_hdr ++ w_fsec)) by (rewrite app_length, w_hdr_len; unfold w_o2; lia). rewrite skipn_prefix.
    unfold w_csec. rewrite <- app_assoc. rewrite parse_all_cas; [reflexivity | exact Hc|].
    unfold fuel_of. rewrite !app_length.
    assert (L : (48 * length cass <= length (flat_map ser_cas_info cass))%nat).
    { clear -Hc. induction cass as [|c cs IH]; [cbn; lia|]. inversion Hc as [|? ? Hw Hr]; subst. cbn [flat_map length]. rewrite app_length. specialize (IH Hr).
      assert (48 <= length (ser_cas_info c))%nat.
      { unfold ser_cas_info. rewrite app_length. destruct Hw as (Hh & _). rewrite len_ser_CASChunkSequenceHeader by exact Hh. lia. }
      lia. }
    assert (Hd : (length cass <= (length (flat_map ser_cas_info cass) + (length cas_bookend + length (ser_lookup12 w_ftbl ++ ser_lookup12 w_ttbl ++ ser_lookup16 ctbl ++ w_foot))) / 48)%nat).
    { apply Nat.div_le_lower_bound; lia. }
    lia.
  Qed.
End Whole.

(* ---- the premises are satisfiable: a two-file shard; both hashes are found, a third is not ---- *)
Definition wx_seg : seg := mkSeg (repeat 5 32%nat) 0 100 0 3.
Definition wx_f1 : file_info := mkFI (repeat 1 32%nat) 0 0 [wx_seg] [] None.
Definition wx_f2 : file_info := mkFI (repeat 2 32%nat) 0 0 [wx_seg; wx_seg] [] None.
Lemma wx_wf : Forall wf_file [wx_f1; wx_f2].
Proof.
  assert (Ws : wf_seg wx_seg) by (unfold wf_seg, wx_seg, is_hash, is_u32; cbn; repeat split; lia).
  repeat constructor; unfold is_hash, is_u32, is_u64; cbn; try lia; try reflexivity; try exact Ws.
Qed.
Lemma wx_sorted : KSorted fi_hash [wx_f1; wx_f2].
Proof. repeat constructor. Qed.
Example whole_file_example :
  let bs := w_bs [wx_f1; wx_f2] [] [] zero_hash 0 0 in let ft := w_ft [wx_f1; wx_f2] [] [] zero_hash 0 0 in
  load_footer bs = Some ft /\
  get_file_info probe_exact bs ft (fi_hash wx_f2) = Found wx_f2 /\
  get_file_info probe_exact bs ft (repeat 3 32%nat) = NotFound.
Proof.
  cbv zeta.
  assert (Hs : N.of_nat (length (w_bs [wx_f1; wx_f2] [] [] zero_hash 0 0)) < 4294967296) by (vm_compute; reflexivity).
  assert (Hb : Forall (fun f => Forall (fun b => b < 256) (fi_hash f)) [wx_f1; wx_f2]) by (repeat constructor; cbn; lia).
  assert (U0 : is_u64 0) by (unfold is_u64; lia).
  split; [|split].
  - apply w_load_footer; try assumption; try reflexivity; try exact wx_wf; try constructor.
  - apply w_get_file_found; try assumption; try exact wx_wf; try exact wx_sorted; try reflexivity; try (constructor; fail).
    + right. left. reflexivity.
    + vm_compute. lia.
  - apply w_get_file_notfound; try assumption; try exact wx_wf; try exact wx_sorted; try reflexivity; try (constructor; fail).
    + intros g [<-|[<-|[]]]; cbn; discriminate.
    + vm_compute. lia.
Qed.

(* ---- the statements, with the premises bundled ---- *)
Definition ShardOk (files : list file_info) (cass : list cas_info) (ctbl : list (N * (N * N))) (key : hash) (created expiry : N) : Prop :=
  Forall wf_file files /\ Forall wf_cas cass /\ is_hash key /\ is_u64 created /\ is_u64 expiry /\
  is_u64 (sum_ndisk cass) /\ is_u64 (sum_materialized files) /\ is_u64 (sum_nbytes cass) /\
  N.of_nat (length (w_bs files cass ctbl key created expiry)) < 4294967296 /\
  Forall (fun f => Forall (fun b => b < 256) (fi_hash f)) files.

Theorem shard_footer_roundtrip files cass ctbl key created expiry : ShardOk files cass ctbl key created expiry ->
  load_footer (w_bs files cass ctbl key created expiry) = Some (w_ft files cass ctbl key created expiry).
Proof. intros (A & B & C & D & E & F & G & H & I & J). apply w_load_footer; assumption. Qed.

Theorem shard_scans_list_all_records files cass ctbl key created expiry : ShardOk files cass ctbl key created expiry ->
  read_all_files (w_bs files cass ctbl key created expiry) (w_ft files cass ctbl key created expiry) = Some files /\
  read_all_cas (w_bs files cass ctbl key created expiry) (w_ft files cass ctbl key created expiry) = Some cass.
Proof. intros (A & B & C & D & E & F & G & H & I & J). split; [apply w_read_all_files | apply w_read_all_cas]; assumption. Qed.

Theorem shard_file_lookup_found files cass ctbl key created expiry probe f : ShardOk files cass ctbl key created expiry ->
  KSorted fi_hash files -> In f files -> (length (matching (truncate_hash (fi_hash f)) (w_ftbl files)) < 8)%nat ->
  get_file_info probe (w_bs files cass ctbl key created expiry) (w_ft files cass ctbl key created expiry) (fi_hash f) = Found f.
Proof. intros (A & B & C & D & E & F & G & H & I & J). apply w_get_file_found; assumption. Qed.

Theorem shard_file_lookup_notfound files cass ctbl key created expiry probe h : ShardOk files cass ctbl key created expiry ->
  KSorted fi_hash files -> (forall g, In g files -> fi_hash g <> h) -> (length (matching (truncate_hash h) (w_ftbl files)) < 8)%nat ->
  get_file_info probe (w_bs files cass ctbl key created expiry) (w_ft files cass ctbl key created expiry) h = NotFound.
Proof. intros (A & B & C & D & E & F & G & H & I & J). apply w_get_file_notfound; assumption. Qed.
