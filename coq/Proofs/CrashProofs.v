(* Crash safety of the temp-then-rename and write-before-delete protocols (Model/Crash.v), C19: after any prefix of the
   effects of a safe plan, every file under a final name is complete and consistent with its name, and every record
   that was retrievable before is still retrievable. *)
From Coq Require Import ZArith NArith Bool List Lia ZifyBool ZifyN ZifyNat.
Import ListNotations.
From XetModel Require Import Base.Codec Model.Merkle Model.Shard Model.Crash.
Open Scope N_scope.

Arguments N.eqb : simpl never.

Lemma name_eqb_eq a : forall b, name_eqb a b = true <-> a = b.
Proof.
  induction a as [|x r IH]; intros [|y s]; cbn [name_eqb]; split; intro H; try discriminate; try reflexivity.
  - apply andb_true_iff in H as [H1 H2]. apply N.eqb_eq in H1. apply IH in H2. subst. reflexivity.
  - injection H as -> ->. apply andb_true_iff. split; [apply N.eqb_refl | apply IH; reflexivity].
Qed.
Lemma name_eqb_refl a : name_eqb a a = true.
Proof. apply name_eqb_eq. reflexivity. Qed.
Lemma name_eqb_neq a b : a <> b -> name_eqb a b = false.
Proof. intro H. destruct (name_eqb a b) eqn:E; [apply name_eqb_eq in E; contradiction | reflexivity]. Qed.
Lemma name_eqb_sym a b : name_eqb a b = name_eqb b a.
Proof.
  destruct (name_eqb a b) eqn:E.
  - apply name_eqb_eq in E. subst. symmetry. apply name_eqb_refl.
  - destruct (name_eqb b a) eqn:E2; [|reflexivity]. apply name_eqb_eq in E2. subst. rewrite name_eqb_refl in E. discriminate.
Qed.

Lemma flookup_remove f p q : flookup (fremove f p) q = if name_eqb p q then None else flookup f q.
Proof.
  induction f as [|[r c] f IH]; cbn [fremove filter flookup fst].
  - destruct (name_eqb p q); reflexivity.
  - destruct (name_eqb p r) eqn:E1; cbn [negb].
    + apply name_eqb_eq in E1. subst r. fold (fremove f p). rewrite IH. destruct (name_eqb p q) eqn:E2; [reflexivity|].
      rewrite name_eqb_sym, E2. reflexivity.
    + cbn [flookup]. fold (fremove f p). rewrite IH. destruct (name_eqb q r) eqn:E2; [|reflexivity].
      apply name_eqb_eq in E2. subst r. rewrite E1. reflexivity.
Qed.

Section Safety.
  Variable R : Type.
  Variable final : fname -> bool.              (* the name patterns the readers look at *)
  Variable good : fname -> list N -> Prop.     (* the content is complete and consistent with the name *)
  Variable recs : list N -> R -> Prop.         (* the records a file makes retrievable *)

  Definition Consistent (f : fsd) : Prop := forall p c, flookup f p = Some c -> final p = true -> good p c.
  Definition Retr (f : fsd) (r : R) : Prop := exists p c, flookup f p = Some c /\ final p = true /\ recs c r.
  (* f' keeps everything f makes retrievable *)
  Definition Keeps (f f' : fsd) : Prop := forall r, Retr f r -> Retr f' r.

  Lemma Keeps_refl f : Keeps f f. Proof. intros r H; exact H. Qed.
  Lemma Keeps_trans f g h : Keeps f g -> Keeps g h -> Keeps f h. Proof. intros A B r H. apply B, A, H. Qed.

  (* effects on a non-final name change neither consistency nor what is retrievable *)
  Definition same_finals (f f' : fsd) : Prop := forall p, final p = true -> flookup f' p = flookup f p.

  Lemma same_finals_Consistent f f' : same_finals f f' -> Consistent f -> Consistent f'.
  Proof. intros S C p c H Hf. rewrite (S p Hf) in H. exact (C p c H Hf). Qed.
  Lemma same_finals_Keeps f f' : same_finals f f' -> Keeps f f'.
  Proof. intros S r (p & c & H1 & H2 & H3). exists p, c. rewrite (S p H2). auto. Qed.
  Lemma same_finals_trans f g h : same_finals f g -> same_finals g h -> same_finals f h.
  Proof. intros A B p Hp. rewrite (B p Hp). apply A. exact Hp. Qed.

  Lemma create_same f t : final t = false -> same_finals f (apply_eff f (ECreate t)).
  Proof.
    intros Ht p Hp. cbn [apply_eff flookup]. destruct (name_eqb p t) eqn:E; [apply name_eqb_eq in E; subst; congruence|].
    rewrite flookup_remove, name_eqb_sym, E. reflexivity.
  Qed.
  Lemma append_same f t d : final t = false -> same_finals f (apply_eff f (EAppend t d)).
  Proof.
    intros Ht p Hp. cbn [apply_eff]. destruct (flookup f t) as [c|]; [|reflexivity]. cbn [flookup].
    destruct (name_eqb p t) eqn:E; [apply name_eqb_eq in E; subst; congruence|]. rewrite flookup_remove, name_eqb_sym, E. reflexivity.
  Qed.

  (* the state while a temp file is being filled: it holds the chunks appended so far *)
  Lemma appends_state t chunks : forall f c0, final t = false -> flookup f t = Some c0 ->
    same_finals f (apply_effs f (map (EAppend t) chunks)) /\ flookup (apply_effs f (map (EAppend t) chunks)) t = Some (c0 ++ concat chunks).
  Proof.
    induction chunks as [|d r IH]; intros f c0 Ht Hl; cbn [map apply_effs fold_left concat].
    - rewrite app_nil_r. split; [intros p Hp; reflexivity | exact Hl].
    - fold (apply_effs (apply_eff f (EAppend t d)) (map (EAppend t) r)).
      assert (Hl' : flookup (apply_eff f (EAppend t d)) t = Some (c0 ++ d)).
      { cbn [apply_eff]. rewrite Hl. cbn [flookup]. rewrite name_eqb_refl. reflexivity. }
      destruct (IH _ _ Ht Hl') as [S L]. split.
      + eapply same_finals_trans; [apply append_same; exact Ht | exact S].
      + rewrite L, <- app_assoc. reflexivity.
  Qed.

  Lemma apply_effs_app f a b : apply_effs f (a ++ b) = apply_effs (apply_effs f a) b.
  Proof. unfold apply_effs. apply fold_left_app. Qed.

  Lemma firstn_map_eq {A B} (g : A -> B) l n : firstn n (map g l) = map g (firstn n l).
  Proof. revert n; induction l as [|x r IH]; intros [|n]; cbn [map firstn]; try reflexivity. f_equal. apply IH. Qed.

  (* --- one write: every prefix --- *)
  Lemma write_prefix f t dest chunks n :
    final t = false -> Consistent f -> good dest (concat chunks) ->
    (forall c0, flookup f dest = Some c0 -> forall r, recs c0 r -> recs (concat chunks) r) ->
    Consistent (apply_effs f (firstn n (write_file t dest chunks))) /\ Keeps f (apply_effs f (firstn n (write_file t dest chunks))).
  Proof.
    intros Ht C G Cov. unfold write_file. destruct n as [|n]; [cbn [firstn apply_effs fold_left]; split; [exact C | apply Keeps_refl]|].
    cbn [firstn apply_effs fold_left]. fold (apply_effs (apply_eff f (ECreate t)) (firstn n (map (EAppend t) chunks ++ [ERename t dest]))).
    set (f1 := apply_eff f (ECreate t)).
    assert (S1 : same_finals f f1) by (apply create_same; exact Ht).
    assert (L1 : flookup f1 t = Some []) by (unfold f1; cbn [apply_eff flookup]; rewrite name_eqb_refl; reflexivity).
    destruct (Nat.leb n (length (map (EAppend t) chunks))) eqn:En.
    - (* still appending *)
      apply Nat.leb_le in En. rewrite firstn_app. replace (n - length (map (EAppend t) chunks))%nat with O by lia.
      cbn [firstn]. rewrite app_nil_r, firstn_map_eq.
      destruct (appends_state t (firstn n chunks) f1 [] Ht L1) as [S2 _].
      pose proof (same_finals_trans _ _ _ S1 S2) as S. split; [eapply same_finals_Consistent; eauto | apply same_finals_Keeps; exact S].
    - (* the rename happened *)
      apply Nat.leb_gt in En. rewrite firstn_all2 by (rewrite app_length; cbn [length]; lia).
      rewrite apply_effs_app. destruct (appends_state t chunks f1 [] Ht L1) as [S2 L2]. cbn [app] in L2.
      set (f2 := apply_effs f1 (map (EAppend t) chunks)) in *. cbn [apply_effs fold_left apply_eff]. rewrite L2.
      pose proof (same_finals_trans _ _ _ S1 S2) as S.
      split.
      + intros p c H Hp. cbn [flookup] in H. destruct (name_eqb p dest) eqn:E.
        * apply name_eqb_eq in E. subst p. injection H as <-. exact G.
        * rewrite flookup_remove, name_eqb_sym, E, flookup_remove in H.
          destruct (name_eqb t p) eqn:E2; [discriminate|]. rewrite (S p Hp) in H. exact (C p c H Hp).
      + intros r (p & c & H1 & H2 & H3). destruct (name_eqb p dest) eqn:E.
        * apply name_eqb_eq in E. subst p. exists dest, (concat chunks). cbn [flookup]. rewrite name_eqb_refl.
          split; [reflexivity | split; [exact H2 | exact (Cov c H1 r H3)]].
        * exists p, c. cbn [flookup]. rewrite E, flookup_remove, name_eqb_sym, E, flookup_remove.
          destruct (name_eqb t p) eqn:E2; [apply name_eqb_eq in E2; subst; congruence|]. rewrite (S p H2). auto.
  Qed.

  (* after the whole write the destination holds the content *)
  Lemma write_done f t dest chunks : final t = false ->
    flookup (apply_effs f (write_file t dest chunks)) dest = Some (concat chunks) /\
    (forall p, p <> dest -> p <> t -> flookup (apply_effs f (write_file t dest chunks)) p = flookup f p).
  Proof.
    intro Ht. unfold write_file. cbn [apply_effs fold_left]. fold (apply_effs (apply_eff f (ECreate t)) (map (EAppend t) chunks ++ [ERename t dest])).
    set (f1 := apply_eff f (ECreate t)).
    assert (L1 : flookup f1 t = Some []) by (unfold f1; cbn [apply_eff flookup]; rewrite name_eqb_refl; reflexivity).
    rewrite apply_effs_app.
    assert (G : forall ch g c0, flookup g t = Some c0 ->
              flookup (apply_effs g (map (EAppend t) ch)) t = Some (c0 ++ concat ch) /\
              forall p, p <> t -> flookup (apply_effs g (map (EAppend t) ch)) p = flookup g p).
    { induction ch as [|d r IH]; intros g c0 Hl; cbn [map apply_effs fold_left concat].
      - rewrite app_nil_r. split; [exact Hl | reflexivity].
      - fold (apply_effs (apply_eff g (EAppend t d)) (map (EAppend t) r)).
        assert (Hl' : flookup (apply_eff g (EAppend t d)) t = Some (c0 ++ d)) by (cbn [apply_eff]; rewrite Hl; cbn [flookup]; rewrite name_eqb_refl; reflexivity).
        destruct (IH _ _ Hl') as [A B]. split; [rewrite A, <- app_assoc; reflexivity|].
        intros p Hp. rewrite (B p Hp). cbn [apply_eff]. rewrite Hl. cbn [flookup]. rewrite (name_eqb_neq p t Hp), flookup_remove, (name_eqb_neq t p) by congruence. reflexivity. }
    destruct (G chunks f1 [] L1) as [A B]. cbn [app] in A. cbn [apply_effs fold_left apply_eff]. rewrite A. split.
    - cbn [flookup]. rewrite name_eqb_refl. reflexivity.
    - intros p Hd Hp. cbn [flookup]. rewrite (name_eqb_neq p dest Hd), flookup_remove, (name_eqb_neq dest p) by congruence.
      rewrite flookup_remove, (name_eqb_neq t p) by congruence. rewrite (B p Hp). unfold f1. cbn [apply_eff flookup].
      rewrite (name_eqb_neq p t Hp), flookup_remove, (name_eqb_neq t p) by congruence. reflexivity.
  Qed.

  (* --- safe plans: a write puts complete, name-consistent content under a final name through a non-final temp name and
         covers what the destination held; an unlink removes a file only when the records it holds are retrievable from
         other files --- *)
  Fixpoint SafePlan (f : fsd) (pl : list pstep) : Prop :=
    match pl with
    | [] => True
    | PWrite t dest chunks :: r =>
        final t = false /\ good dest (concat chunks) /\
        (forall c0, flookup f dest = Some c0 -> forall x, recs c0 x -> recs (concat chunks) x) /\
        SafePlan (apply_effs f (write_file t dest chunks)) r
    | PUnlink p :: r =>
        Keeps f (fremove f p) /\ SafePlan (fremove f p) r
    end.

  Lemma unlink_Consistent f p : Consistent f -> Consistent (fremove f p).
  Proof. intros C q c H Hq. rewrite flookup_remove in H. destruct (name_eqb p q); [discriminate|]. exact (C q c H Hq). Qed.

  Lemma firstn_app_cases {A} (a b : list A) n :
    (n <= length a /\ firstn n (a ++ b) = firstn n a)%nat \/ (length a < n /\ firstn n (a ++ b) = a ++ firstn (n - length a) b)%nat.
  Proof.
    destruct (Nat.le_gt_cases n (length a)) as [H|H]; [left | right]; split; try assumption; rewrite firstn_app.
    - replace (n - length a)%nat with O by lia. cbn [firstn]. apply app_nil_r.
    - rewrite firstn_all2 by lia. reflexivity.
  Qed.

  (* the theorem: a crash at any point of a safe plan leaves a consistent directory that keeps every record *)
  Theorem safe_plan_crash pl : forall f n, Consistent f -> SafePlan f pl ->
    Consistent (apply_effs f (firstn n (plan_effs pl))) /\ Keeps f (apply_effs f (firstn n (plan_effs pl))).
  Proof.
    induction pl as [|st r IH]; intros f n C S; cbn [plan_effs flat_map].
    - rewrite firstn_nil. cbn. split; [exact C | apply Keeps_refl].
    - fold (plan_effs r). destruct st as [t dest chunks|p]; cbn [SafePlan pstep_effs] in *.
      + destruct S as (Ht & G & Cov & S').
        destruct (firstn_app_cases (write_file t dest chunks) (plan_effs r) n) as [[Hn E]|[Hn E]]; rewrite E.
        * apply write_prefix; assumption.
        * rewrite apply_effs_app.
          pose proof (write_prefix f t dest chunks (length (write_file t dest chunks)) Ht C G Cov) as [C1 K1].
          rewrite firstn_all in C1, K1.
          destruct (IH _ (n - length (write_file t dest chunks))%nat C1 S') as [C2 K2].
          split; [exact C2 | eapply Keeps_trans; eauto].
      + destruct S as [K S']. destruct n as [|n]; [cbn; split; [exact C | apply Keeps_refl]|].
        cbn [app firstn apply_effs fold_left apply_eff]. fold (apply_effs (fremove f p) (firstn n (plan_effs r))).
        destruct (IH _ n (unlink_Consistent _ _ C) S') as [C2 K2]. split; [exact C2 | eapply Keeps_trans; eauto].
  Qed.

  (* --- write before delete: one consolidation group ---
     the merged shard m is written under its final name first; then the inputs are unlinked, except those whose name
     is the merged shard's name; every unlinked input's records are records of m *)
  Lemma unlinks_safe m mname dels : forall g,
    final mname = true -> flookup g mname = Some m ->
    (forall d, In d dels -> d <> mname /\ forall c, flookup g d = Some c -> forall x, recs c x -> recs m x) ->
    SafePlan g (map PUnlink dels).
  Proof.
    induction dels as [|d r IH]; intros g Hf Hm Hd; cbn [map SafePlan]; [exact I|].
    destruct (Hd d (or_introl eq_refl)) as [Hne Hc]. split.
    - intros x (p & c & H1 & H2 & H3). destruct (name_eqb d p) eqn:E.
      + apply name_eqb_eq in E. subst p. exists mname, m. rewrite flookup_remove, (name_eqb_neq d mname Hne).
        split; [exact Hm | split; [exact Hf | exact (Hc c H1 x H3)]].
      + exists p, c. rewrite flookup_remove, E. auto.
    - apply IH; [exact Hf | rewrite flookup_remove, (name_eqb_neq d mname Hne); exact Hm|].
      intros d' Hin. destruct (Hd d' (or_intror Hin)) as [Hne' Hc']. split; [exact Hne'|].
      intros c Hl. rewrite flookup_remove in Hl. destruct (name_eqb d d'); [discriminate|]. exact (Hc' c Hl).
  Qed.

  Theorem group_plan_safe f t mname m dels :
    final t = false -> final mname = true -> good mname m ->
    (forall c0, flookup f mname = Some c0 -> forall x, recs c0 x -> recs m x) ->
    (forall d, In d dels -> d <> mname /\ d <> t /\ forall c, flookup f d = Some c -> forall x, recs c x -> recs m x) ->
    SafePlan f (PWrite t mname [m] :: map PUnlink dels).
  Proof.
    intros Ht Hf G Cov Hd. cbn [SafePlan concat]. rewrite app_nil_r. repeat split; try assumption.
    destruct (write_done f t mname [m] Ht) as [A B]. cbn [concat] in A. rewrite app_nil_r in A.
    apply (unlinks_safe m mname); [exact Hf | exact A|].
    intros d Hin. destruct (Hd d Hin) as (N1 & N2 & Hc). split; [exact N1|]. intros c Hl. rewrite (B d N1 N2) in Hl. exact (Hc c Hl).
  Qed.

  Lemma SafePlan_app a : forall f b, SafePlan f a -> SafePlan (apply_effs f (plan_effs a)) b -> SafePlan f (a ++ b).
  Proof.
    induction a as [|st r IH]; intros f b Sa Sb; cbn [app]; [exact Sb|].
    destruct st as [t dest chunks|p]; cbn [SafePlan plan_effs flat_map pstep_effs] in *.
    - destruct Sa as (H1 & H2 & H3 & H4). repeat split; try assumption. apply IH; [exact H4|].
      fold (plan_effs r) in Sb. rewrite apply_effs_app in Sb. exact Sb.
    - destruct Sa as [H1 H2]. split; [exact H1|]. apply IH; [exact H2|]. fold (plan_effs r) in Sb. exact Sb.
  Qed.
End Safety.

(* ---------------------------------------------------------------- temporary names are never final *)
Lemma temp_shard_name_not_final u : is_shard_final (temp_shard_name u) = false.
Proof.
  unfold is_shard_final, temp_shard_name. destruct (Nat.eqb (length (46 :: u ++ [46; 109; 100; 98; 95; 116; 101; 109; 112])) 68) eqn:E; [|reflexivity].
  cbn [andb]. destruct u as [|a u']; [cbn in E; discriminate|]. cbn [firstn app forallb]. reflexivity.
Qed.

(* ---------------------------------------------------------------- the plans of the operations *)
(* a single file write is a safe plan when the temp name is not final and the content is consistent with the final name *)
Lemma single_write_safe {R} (final : fname -> bool) (good : fname -> list N -> Prop) (recs : list N -> R -> Prop) f t dest chunks :
  final t = false -> good dest (concat chunks) ->
  (forall c0, flookup f dest = Some c0 -> forall x, recs c0 x -> recs (concat chunks) x) ->
  SafePlan R final good recs f [PWrite t dest chunks].
Proof. intros. cbn [SafePlan]. repeat split; assumption. Qed.

(* the structure of a consolidation plan: groups "write the merged shard, then unlink inputs", where no unlinked name is
   the name of the merged shard of its group *)
Fixpoint GroupsOk (pl : list pstep) (cur : option fname) : Prop :=
  match pl with
  | [] => True
  | PWrite t dest ch :: r => dest = shard_name (concat ch) /\ GroupsOk r (Some dest)
  | PUnlink p :: r => match cur with Some m => p <> m | None => False end /\ GroupsOk r cur
  end.

Lemma GroupsOk_unlinks dels m r : (forall d, In d dels -> d <> m) -> GroupsOk r (Some m) -> GroupsOk (map PUnlink dels ++ r) (Some m).
Proof.
  induction dels as [|d ds IH]; intros H G; cbn [map app GroupsOk]; [exact G|].
  split; [apply H; left; reflexivity | apply IH; [intros x Hx; apply H; right; exact Hx | exact G]].
Qed.
Lemma GroupsOk_any r m : GroupsOk r None -> GroupsOk r m.
Proof. destruct r as [|[t d ch|p] r']; cbn [GroupsOk]; try tauto. Qed.

Theorem consolidate_groups fuel : forall target shards temps finished pl fin,
  consolidate fuel target shards temps finished = Some (pl, fin) -> GroupsOk pl None.
Proof.
  induction fuel as [|f IH]; intros target shards temps finished pl fin H; cbn [consolidate] in H; [discriminate|].
  destruct shards as [|[n c] rest]; [injection H as <- _; exact I|].
  destruct (take_group target (shard_num_bytes c) rest) as [g rest'] eqn:Eg. destruct g as [|g0 gs].
  - destruct (consolidate f target rest' temps (finished ++ [n])) as [[pl1 fin1]|] eqn:E; [|discriminate].
    injection H as <- _. eapply IH; eauto.
  - destruct (merge_all c (g0 :: gs)) as [m|]; [|discriminate]. destruct temps as [|t temps']; [discriminate|].
    destruct (consolidate f target rest' temps' (finished ++ [shard_name m])) as [[pl1 fin1]|] eqn:E; [|discriminate].
    remember (filter (fun x => negb (existsb (name_eqb x) (finished ++ [shard_name m]))) (n :: map fst (g0 :: gs))) as dels eqn:Ed.
    injection H as <- _. change (GroupsOk (PWrite t (shard_name m) [m] :: (map PUnlink dels ++ pl1)) None).
    cbn [GroupsOk concat]. rewrite app_nil_r. split; [reflexivity|].
    apply GroupsOk_unlinks.
    + intros d Hd. rewrite Ed in Hd. apply filter_In in Hd as [_ Hd]. apply negb_true_iff in Hd. intro Heq. subst d.
      assert (Hex : existsb (name_eqb (shard_name m)) (finished ++ [shard_name m]) = true).
      { apply existsb_exists. exists (shard_name m). split; [apply in_or_app; right; left; reflexivity | apply name_eqb_refl]. }
      rewrite Hex in Hd. discriminate.
    + apply GroupsOk_any. eapply IH; eauto.
Qed.

(* the cache's temporary file names (".<dir>.<random>.tmp") do not decode as entry names: '.' is outside the alphabet *)
Lemma dot_not_base64 : b64val 46 = None.
Proof. reflexivity. Qed.
