(* C10: the difference walk on sorted inputs returns exactly the records of the second shard whose key is not in the first;
   union and difference keep their outputs sorted (so the result can be searched, and merged again by consolidation). *)
From Coq Require Import ZArith NArith Bool List Lia Sorted.
Import ListNotations.
From XetModel Require Import Base.Codec Gen.ShardLayout Model.Merkle Model.Shard Proofs.SetOpProofs.
Open Scope N_scope.

(* ---- the order on keys ---- *)
Lemma wc_refl : forall a, words_cmp a a = Eq.
Proof. induction a as [|x a IH]; [reflexivity|]. cbn [words_cmp]. rewrite N.compare_refl. exact IH. Qed.
Lemma wc_antisym : forall a b, words_cmp a b = CompOpp (words_cmp b a).
Proof.
  induction a as [|x a IH]; destruct b as [|y b]; try reflexivity. cbn [words_cmp]. rewrite (N.compare_antisym y x).
  destruct (y ?= x); cbn [CompOpp]; [apply IH | reflexivity | reflexivity].
Qed.
Lemma wc_gt_lt a b : words_cmp a b = Gt -> words_cmp b a = Lt.
Proof. intro H. rewrite wc_antisym, H. reflexivity. Qed.
Lemma wc_trans : forall a b c, words_cmp a b = Lt -> words_cmp b c = Lt -> words_cmp a c = Lt.
Proof.
  induction a as [|x a IH]; intros [|y b] [|z c]; cbn [words_cmp]; try discriminate; try reflexivity.
  destruct (x ?= y) eqn:E1; try discriminate; destruct (y ?= z) eqn:E2; try discriminate; intros H1 H2.
  - apply N.compare_eq in E1, E2. subst. rewrite N.compare_refl. eapply IH; eassumption.
  - apply N.compare_eq in E1. subst. rewrite E2. reflexivity.
  - apply N.compare_eq in E2. subst. rewrite E1. reflexivity.
  - rewrite N.compare_lt_iff in E1, E2. assert (E : (x ?= z) = Lt) by (apply N.compare_lt_iff; lia). rewrite E. reflexivity.
Qed.
Lemma wc_lt_neq a b : words_cmp a b = Lt -> a <> b.
Proof. intros H E. subst. rewrite wc_refl in H. discriminate. Qed.

Section Generic.
  Context {T : Type}.
  Variable h : T -> hash.
  Definition gkey (x : T) : list N := hwords (h x).
  Definition klt (x y : T) : Prop := words_cmp (gkey x) (gkey y) = Lt.
  Definition KSorted (l : list T) : Prop := StronglySorted klt l.

  Fixpoint gdiff (fuel : nat) (a b : list T) : list T :=
    match fuel with
    | O => []
    | S f =>
        match a, b with
        | _, [] => []
        | [], _ => b
        | x :: a', y :: b' =>
            match hash_cmp (h x) (h y) with
            | Lt => gdiff f a' b
            | Gt => y :: gdiff f a b'
            | Eq => gdiff f a' b'
            end
        end
    end.

  Lemma sorted_head_lt x l y : KSorted (x :: l) -> In y l -> klt x y.
  Proof. intros H Hy. inversion H as [|? ? _ Hf]; subst. rewrite Forall_forall in Hf. apply Hf. exact Hy. Qed.
  Lemma sorted_tail x l : KSorted (x :: l) -> KSorted l.
  Proof. intro H. inversion H; assumption. Qed.
  Lemma klt_trans x y z : klt x y -> klt y z -> klt x z.
  Proof. apply wc_trans. Qed.

  Theorem gdiff_spec : forall fuel a b f, (length a + length b <= fuel)%nat -> KSorted a -> KSorted b ->
    (In f (gdiff fuel a b) <-> In f b /\ ~ In (gkey f) (map gkey a)).
  Proof.
    induction fuel as [|fuel IH]; intros a b f Hf Sa Sb.
    - destruct a, b; cbn in Hf; try lia. cbn. tauto.
    - destruct b as [|y b']; [destruct a; cbn; tauto|]. destruct a as [|x a']; [cbn [gdiff map In]; tauto|].
      cbn [gdiff]. unfold hash_cmp. fold (gkey x) (gkey y). destruct (words_cmp (gkey x) (gkey y)) eqn:E.
      + (* same key: both advance *)
        apply words_cmp_eq in E. rewrite IH; [ | cbn [length] in *; lia | eapply sorted_tail; eassumption | eapply sorted_tail; eassumption].
        cbn [map In]. split.
        * intros [Hb Hn]. split; [right; exact Hb|]. intros [Hk|Hk]; [|exact (Hn Hk)].
          pose proof (sorted_head_lt _ _ _ Sb Hb) as L. unfold klt in L. rewrite <- E, Hk in L. rewrite wc_refl in L. discriminate.
        * intros [[Hy|Hb] Hn]; [subst f; exfalso; apply Hn; left; exact E|]. split; [exact Hb | intro Hk; apply Hn; right; exact Hk].
      + (* x < y: x is in no record of b *)
        rewrite IH; [ | cbn [length] in *; lia | eapply sorted_tail; eassumption | exact Sb]. cbn [map In]. split.
        * intros [Hb Hn]. split; [exact Hb|]. intros [Hk|Hk]; [|exact (Hn Hk)].
          assert (L : words_cmp (gkey x) (gkey f) = Lt).
          { destruct Hb as [<-|Hb]; [exact E | eapply wc_trans; [exact E | exact (sorted_head_lt _ _ _ Sb Hb)]]. }
          rewrite Hk, wc_refl in L. discriminate.
        * intros [Hb Hn]. split; [exact Hb | intro Hk; apply Hn; right; exact Hk].
      + (* x > y: y is in no record of a *)
        apply wc_gt_lt in E. cbn [In]. rewrite IH; [ | cbn [length] in *; lia | exact Sa | eapply sorted_tail; eassumption]. cbn [map In]. split.
        * intros [<-|[Hb Hn]]; [|tauto]. split; [left; reflexivity|]. intros [Hk|Hk].
          -- rewrite Hk, wc_refl in E. discriminate.
          -- apply in_map_iff in Hk as (z & Hz & Hin). pose proof (sorted_head_lt _ _ _ Sa Hin) as L. unfold klt in L.
             assert (L2 : words_cmp (gkey y) (gkey z) = Lt) by (eapply wc_trans; eassumption). rewrite Hz, wc_refl in L2. discriminate.
        * intros [[<-|Hb] Hn]; [left; reflexivity | right; tauto].
  Qed.

  (* the output of the difference walk is sorted *)
  Lemma gdiff_subset : forall fuel a b f, In f (gdiff fuel a b) -> In f b.
  Proof.
    induction fuel as [|fuel IH]; intros a b f H; [destruct H|].
    destruct b as [|y b']; [destruct a; destruct H|]. destruct a as [|x a']; [exact H|].
    cbn [gdiff] in H. destruct (hash_cmp (h x) (h y)).
    - right. eapply IH; eauto.
    - eapply IH; eauto.
    - destruct H as [H|H]; [left; auto|right; eapply IH; eauto].
  Qed.
  Theorem gdiff_sorted : forall fuel a b, KSorted b -> KSorted (gdiff fuel a b).
  Proof.
    induction fuel as [|fuel IH]; intros a b Sb; [constructor|].
    destruct b as [|y b']; [destruct a; constructor|]. destruct a as [|x a']; [exact Sb|].
    cbn [gdiff]. destruct (hash_cmp (h x) (h y)).
    - apply IH. eapply sorted_tail; eassumption.
    - apply IH. exact Sb.
    - constructor; [apply IH; eapply sorted_tail; eassumption|]. apply Forall_forall. intros z Hz. apply gdiff_subset in Hz.
      eapply sorted_head_lt; eassumption.
  Qed.

  (* the union walk; [pick] chooses the record kept when both sides carry the key *)
  Variable pick : T -> T -> T.
  Hypothesis pick_key : forall x y, gkey x = gkey y -> gkey (pick x y) = gkey x.
  Fixpoint gunion (fuel : nat) (a b : list T) : list T :=
    match fuel with
    | O => []
    | S f =>
        match a, b with
        | [], _ => b
        | _, [] => a
        | x :: a', y :: b' =>
            match hash_cmp (h x) (h y) with
            | Lt => x :: gunion f a' b
            | Gt => y :: gunion f a b'
            | Eq => pick x y :: gunion f a' b'
            end
        end
    end.
  Lemma gunion_in_keys : forall fuel a b z, In z (gunion fuel a b) -> In (gkey z) (map gkey a) \/ In (gkey z) (map gkey b).
  Proof.
    induction fuel as [|fuel IH]; intros a b z H; [destruct H|].
    destruct a as [|x a']; [right; apply in_map; exact H|]. destruct b as [|y b']; [left; apply in_map; exact H|].
    cbn [gunion] in H. unfold hash_cmp in H. fold (gkey x) (gkey y) in H. destruct (words_cmp (gkey x) (gkey y)) eqn:E; destruct H as [<-|H].
    - left. left. symmetry. apply pick_key. apply words_cmp_eq. exact E.
    - destruct (IH _ _ _ H) as [G|G]; [left; right; exact G | right; right; exact G].
    - left. left. reflexivity.
    - destruct (IH _ _ _ H) as [G|G]; [left; right; exact G | right; exact G].
    - right. left. reflexivity.
    - destruct (IH _ _ _ H) as [G|G]; [left; exact G | right; right; exact G].
  Qed.
  Lemma klt_key_in x l k : KSorted (x :: l) -> In k (map gkey l) -> words_cmp (gkey x) k = Lt.
  Proof. intros S Hk. apply in_map_iff in Hk as (z & <- & Hz). exact (sorted_head_lt _ _ _ S Hz). Qed.
  Theorem gunion_sorted : forall fuel a b, KSorted a -> KSorted b -> KSorted (gunion fuel a b).
  Proof.
    induction fuel as [|fuel IH]; intros a b Sa Sb; [constructor|].
    destruct a as [|x a']; [exact Sb|]. destruct b as [|y b']; [exact Sa|].
    cbn [gunion]. unfold hash_cmp. fold (gkey x) (gkey y). destruct (words_cmp (gkey x) (gkey y)) eqn:E.
    - apply words_cmp_eq in E. constructor; [apply IH; eapply sorted_tail; eassumption|]. apply Forall_forall. intros z Hz.
      unfold klt. rewrite (pick_key x y E). destruct (gunion_in_keys _ _ _ _ Hz) as [G|G].
      + eapply klt_key_in; eassumption.
      + rewrite E. eapply klt_key_in; eassumption.
    - constructor; [apply IH; [eapply sorted_tail; eassumption | exact Sb]|]. apply Forall_forall. intros z Hz. unfold klt.
      destruct (gunion_in_keys _ _ _ _ Hz) as [G|G]; [eapply klt_key_in; eassumption|].
      cbn [map In] in G. destruct G as [<-|G]; [exact E | eapply wc_trans; [exact E | eapply klt_key_in; eassumption]].
    - apply wc_gt_lt in E. constructor; [apply IH; [exact Sa | eapply sorted_tail; eassumption]|]. apply Forall_forall. intros z Hz. unfold klt.
      destruct (gunion_in_keys _ _ _ _ Hz) as [G|G]; [|eapply klt_key_in; eassumption].
      cbn [map In] in G. destruct G as [<-|G]; [exact E | eapply wc_trans; [exact E | eapply klt_key_in; eassumption]].
  Qed.
End Generic.

Lemma diff_files_is_gdiff : forall fuel a b, diff_files fuel a b = gdiff fi_hash fuel a b.
Proof.
  induction fuel as [|f IH]; intros a b; [reflexivity|]. destruct a as [|x a'], b as [|y b']; reflexivity.
Qed.
Lemma diff_cas_is_gdiff : forall fuel a b, diff_cas fuel a b = gdiff ci_hash fuel a b.
Proof.
  induction fuel as [|f IH]; intros a b; [reflexivity|]. destruct a as [|x a'], b as [|y b']; reflexivity.
Qed.

Theorem diff_files_spec fuel a b f : (length a + length b <= fuel)%nat -> KSorted fi_hash a -> KSorted fi_hash b ->
  (In f (diff_files fuel a b) <-> In f b /\ ~ In (fkey f) (map fkey a)).
Proof. rewrite diff_files_is_gdiff. apply gdiff_spec. Qed.
Theorem diff_cas_spec fuel a b c : (length a + length b <= fuel)%nat -> KSorted ci_hash a -> KSorted ci_hash b ->
  (In c (diff_cas fuel a b) <-> In c b /\ ~ In (ckey c) (map ckey a)).
Proof. rewrite diff_cas_is_gdiff. apply gdiff_spec. Qed.
Theorem diff_files_sorted fuel a b : KSorted fi_hash b -> KSorted fi_hash (diff_files fuel a b).
Proof. rewrite diff_files_is_gdiff. apply gdiff_sorted. Qed.
Theorem diff_cas_sorted fuel a b : KSorted ci_hash b -> KSorted ci_hash (diff_cas fuel a b).
Proof. rewrite diff_cas_is_gdiff. apply gdiff_sorted. Qed.

Definition pick_file (x y : file_info) : file_info :=
  match compare_flag_superset (fi_flags x) (fi_flags y) with SuperA | SupEqual => x | SuperB => y | SupNeither => merge_disk x y end.
Lemma pick_file_key x y : gkey fi_hash x = gkey fi_hash y -> gkey fi_hash (pick_file x y) = gkey fi_hash x.
Proof. intro E. unfold pick_file. destruct (compare_flag_superset _ _); try reflexivity. symmetry. exact E. Qed.
Lemma union_files_is_gunion : forall fuel a b, union_files fuel a b = gunion fi_hash pick_file fuel a b.
Proof. induction fuel as [|f IH]; intros a b; [reflexivity|]. destruct a as [|x a'], b as [|y b']; reflexivity. Qed.
Lemma union_cas_is_gunion : forall fuel a b, union_cas fuel a b = gunion ci_hash (fun x _ => x) fuel a b.
Proof. induction fuel as [|f IH]; intros a b; [reflexivity|]. destruct a as [|x a'], b as [|y b']; reflexivity. Qed.
Theorem union_files_sorted fuel a b : KSorted fi_hash a -> KSorted fi_hash b -> KSorted fi_hash (union_files fuel a b).
Proof. rewrite union_files_is_gunion. apply gunion_sorted. exact pick_file_key. Qed.
Theorem union_cas_sorted fuel a b : KSorted ci_hash a -> KSorted ci_hash b -> KSorted ci_hash (union_cas fuel a b).
Proof. rewrite union_cas_is_gunion. apply gunion_sorted. intros x y _. reflexivity. Qed.

(* the premises are satisfiable: two sorted two-record lists, the difference drops exactly the shared key *)
Definition so_h (b : N) : hash := repeat b 32%nat.
Definition so_c (b : N) : cas_info := mkCI (so_h b) 0 0 0 [].
Example diff_example : KSorted ci_hash [so_c 1; so_c 2] /\ KSorted ci_hash [so_c 2; so_c 3] /\ diff_cas 4 [so_c 1; so_c 2] [so_c 2; so_c 3] = [so_c 3].
Proof. split; [|split]; [ | | vm_compute; reflexivity]; repeat constructor. Qed.
