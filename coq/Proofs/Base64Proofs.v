(* URL-safe base64 (Model/Merkle.v): decoding inverts encoding, hence encoding is injective; the padded form used for
   the chunk cache's directory and file names is injective too. *)
From Coq Require Import ZArith NArith Bool List Lia ZifyBool ZifyN ZifyNat.
Import ListNotations.
From XetModel Require Import Base.Codec Model.Merkle.
Open Scope N_scope.

Arguments N.add : simpl never.
Arguments N.mul : simpl never.
Arguments N.sub : simpl never.
Arguments N.div : simpl never.
Arguments N.modulo : simpl never.
Arguments N.ltb : simpl never.
Arguments N.leb : simpl never.
Arguments N.eqb : simpl never.

Ltac Zify.zify_post_hook ::= Z.div_mod_to_equations.

Definition is_byte (b : N) : Prop := b < 256.

Lemma b64val_char_fin :
  forallb (fun v => match b64val (b64char v) with Some u => (u =? v) && negb (b64char v =? 61) | None => false end) (map N.of_nat (seq 0 64)) = true.
Proof. vm_compute. reflexivity. Qed.

Lemma b64val_char v : v < 64 -> b64val (b64char v) = Some v /\ b64char v <> 61.
Proof.
  intro H. pose proof b64val_char_fin as F. rewrite forallb_forall in F.
  assert (Hin : In v (map N.of_nat (seq 0 64))).
  { replace v with (N.of_nat (N.to_nat v)) by lia. apply in_map. apply in_seq. lia. }
  specialize (F v Hin). destruct (b64val (b64char v)) as [u|]; [|discriminate].
  apply andb_true_iff in F as [F1 F2]. apply N.eqb_eq in F1. apply negb_true_iff, N.eqb_neq in F2. subst. split; [reflexivity | exact F2].
Qed.

(* one group of three bytes *)
Lemma dm h l m : l < m -> (h * m + l) / m = h /\ (h * m + l) mod m = l.
Proof.
  intro H. assert (m <> 0) by lia. split.
  - rewrite N.div_add_l by assumption. rewrite N.div_small by assumption. lia.
  - rewrite N.add_comm, N.mod_add by assumption. apply N.mod_small. assumption.
Qed.
Lemma group3 a b c : is_byte a -> is_byte b -> is_byte c ->
  let x := a / 4 in let y := (a mod 4) * 16 + b / 16 in let z := (b mod 16) * 4 + c / 64 in let w := c mod 64 in
  x < 64 /\ y < 64 /\ z < 64 /\ w < 64 /\ x * 4 + y / 16 = a /\ (y mod 16) * 16 + z / 4 = b /\ (z mod 4) * 64 + w = c.
Proof.
  unfold is_byte. intros Ha Hb Hc. cbv zeta.
  assert (B1 : b / 16 < 16) by lia. assert (C1 : c / 64 < 4) by lia.
  destruct (dm (a mod 4) (b / 16) 16 B1) as [D1 D2]. destruct (dm (b mod 16) (c / 64) 4 C1) as [D3 D4].
  rewrite D1, D2, D3, D4. repeat split; lia.
Qed.
Lemma group2 a b : is_byte a -> is_byte b ->
  let x := a / 4 in let y := (a mod 4) * 16 + b / 16 in let z := (b mod 16) * 4 in
  x < 64 /\ y < 64 /\ z < 64 /\ z mod 4 = 0 /\ x * 4 + y / 16 = a /\ (y mod 16) * 16 + z / 4 = b.
Proof.
  unfold is_byte. intros Ha Hb. cbv zeta.
  assert (B1 : b / 16 < 16) by lia. assert (Z0 : 0 < 4) by lia.
  destruct (dm (a mod 4) (b / 16) 16 B1) as [D1 D2]. destruct (dm (b mod 16) 0 4 Z0) as [D3 D4].
  rewrite N.add_0_r in D3, D4. rewrite D1, D2, D3, D4. repeat split; lia.
Qed.
Lemma group1 a : is_byte a ->
  let x := a / 4 in let y := (a mod 4) * 16 in x < 64 /\ y < 64 /\ y mod 16 = 0 /\ x * 4 + y / 16 = a.
Proof.
  unfold is_byte. intros Ha. cbv zeta. assert (Z0 : 0 < 16) by lia.
  destruct (dm (a mod 4) 0 16 Z0) as [D1 D2]. rewrite N.add_0_r in D1, D2. rewrite D1, D2. repeat split; lia.
Qed.

Lemma b64enc_length_le f : forall bs, (length (b64enc f bs) <= 2 * length bs)%nat.
Proof.
  induction f as [|f IH]; intros bs; cbn [b64enc]; [cbn [length]; lia|].
  destruct bs as [|a [|b [|c r]]]; cbn [length]; try lia. specialize (IH r). lia.
Qed.

Theorem b64dec_enc : forall n bs fe fd, (length bs <= n)%nat -> Forall is_byte bs ->
  (length bs < 3 * fe)%nat -> (length (b64enc fe bs) < fd)%nat -> b64dec fd (b64enc fe bs) = Some bs.
Proof.
  induction n as [|n IH]; intros bs fe fd Hn Hb Hfe Hfd.
  - destruct bs; [|cbn [length] in Hn; lia]. destruct fe; [lia|]. destruct fd; [cbn in Hfd; lia|]. reflexivity.
  - destruct fe as [|fe]; [lia|]. destruct bs as [|a [|b [|c r]]]; cbn [b64enc] in *.
    + destruct fd; [cbn in Hfd; lia|]. reflexivity.
    + destruct fd; [cbn in Hfd; lia|]. inversion Hb as [|? ? Ha _]; subst.
      destruct (group1 a Ha) as (X & Y & Ym & E). cbn [b64dec].
      destruct (b64val_char _ X) as [-> _]. destruct (b64val_char _ Y) as [-> _].
      apply N.eqb_eq in Ym. rewrite Ym. rewrite E. reflexivity.
    + destruct fd; [cbn in Hfd; lia|]. inversion Hb as [|? ? Ha Hb']; subst. inversion Hb' as [|? ? Hb0 _]; subst.
      destruct (group2 a b Ha Hb0) as (X & Y & Z & Zm & E1 & E2). cbn [b64dec].
      destruct (b64val_char _ X) as [-> _]. destruct (b64val_char _ Y) as [-> _]. destruct (b64val_char _ Z) as [-> _].
      apply N.eqb_eq in Zm. rewrite Zm. rewrite E1, E2. reflexivity.
    + destruct fd; [cbn in Hfd; lia|]. inversion Hb as [|? ? Ha Hb']; subst. inversion Hb' as [|? ? Hb0 Hb'']; subst.
      inversion Hb'' as [|? ? Hc Hr]; subst.
      destruct (group3 a b c Ha Hb0 Hc) as (X & Y & Z & W & E1 & E2 & E3). cbn [b64dec].
      destruct (b64val_char _ X) as [-> _]. destruct (b64val_char _ Y) as [-> _]. destruct (b64val_char _ Z) as [-> _].
      destruct (b64val_char _ W) as [-> _].
      rewrite (IH r fe fd); [rewrite E1, E2, E3; reflexivity| | | |].
      * cbn [length] in Hn. lia.
      * exact Hr.
      * cbn [length] in Hfe. lia.
      * cbn [length] in Hfd. lia.
Qed.

Corollary b64enc_inj a b : Forall is_byte a -> Forall is_byte b ->
  b64enc (S (length a)) a = b64enc (S (length b)) b -> a = b.
Proof.
  intros Ha Hb E.
  assert (Da : b64dec (S (length (b64enc (S (length a)) a))) (b64enc (S (length a)) a) = Some a) by (apply (b64dec_enc (length a)); auto; lia).
  assert (Db : b64dec (S (length (b64enc (S (length b)) b))) (b64enc (S (length b)) b) = Some b) by (apply (b64dec_enc (length b)); auto; lia).
  rewrite E in Da. rewrite Da in Db. injection Db as ->. reflexivity.
Qed.

(* the 32-byte hash form used for file and xorb names *)
Corollary from_base64_base64 h : length h = 32%nat -> Forall is_byte h -> from_base64 (base64 h) = Some h.
Proof.
  intros Hl Hb. unfold from_base64, base64. rewrite (b64dec_enc 32 h 12); try (rewrite Hl; lia); auto.
  rewrite Hl. reflexivity.
Qed.

(* no '=' in the unpadded encoding *)
Lemma b64enc_no_pad f : forall bs, Forall is_byte bs -> ~ In 61 (b64enc f bs).
Proof.
  induction f as [|f IH]; intros bs Hb; cbn [b64enc]; [tauto|].
  destruct bs as [|a [|b [|c r]]].
  - tauto.
  - inversion Hb as [|? ? Ha _]; subst. destruct (group1 a Ha) as (X & Y & _).
    destruct (b64val_char _ X) as [_ N1]. destruct (b64val_char _ Y) as [_ N2]. cbn [In]. intuition congruence.
  - inversion Hb as [|? ? Ha Hb']; subst. inversion Hb' as [|? ? Hb0 _]; subst.
    destruct (group2 a b Ha Hb0) as (X & Y & Z & _).
    destruct (b64val_char _ X) as [_ N1]. destruct (b64val_char _ Y) as [_ N2]. destruct (b64val_char _ Z) as [_ N3]. cbn [In]. intuition congruence.
  - inversion Hb as [|? ? Ha Hb']; subst. inversion Hb' as [|? ? Hb0 Hb'']; subst. inversion Hb'' as [|? ? Hc Hr]; subst.
    destruct (group3 a b c Ha Hb0 Hc) as (X & Y & Z & W & _).
    destruct (b64val_char _ X) as [_ N1]. destruct (b64val_char _ Y) as [_ N2]. destruct (b64val_char _ Z) as [_ N3].
    destruct (b64val_char _ W) as [_ N4]. specialize (IH r Hr). cbn [In]. intuition congruence.
Qed.

Lemma app_pad_inj (l1 l2 : list N) n1 n2 : ~ In 61 l1 -> ~ In 61 l2 -> l1 ++ repeat 61 n1 = l2 ++ repeat 61 n2 -> l1 = l2.
Proof.
  revert l2; induction l1 as [|x r IH]; intros l2 H1 H2 E.
  - destruct l2 as [|y s]; [reflexivity|]. exfalso. cbn [app] in E. destruct n1; cbn [repeat] in E; [discriminate|].
    injection E as <- _. apply H2. left. reflexivity.
  - destruct l2 as [|y s].
    + exfalso. cbn [app] in E. destruct n2; cbn [repeat] in E; [discriminate|]. injection E as -> _. apply H1. left. reflexivity.
    + cbn [app] in E. injection E as -> E. f_equal. apply (IH s); [intro; apply H1; right; assumption | intro; apply H2; right; assumption | exact E].
Qed.
