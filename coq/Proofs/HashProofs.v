(* Proofs about Model/Merkle.v (C06). *)
From Coq Require Import ZArith NArith Bool List Lia ZifyBool ZifyN ZifyNat.
Import ListNotations.
From XetModel Require Import Gen.HashConsts Model.Blake3 Model.Merkle.
Open Scope N_scope.

Arguments N.add : simpl never.
Arguments N.sub : simpl never.
Arguments N.mul : simpl never.
Arguments N.div : simpl never.
Arguments N.modulo : simpl never.
Arguments N.ltb : simpl never.
Arguments N.leb : simpl never.
Arguments N.eqb : simpl never.

Ltac Zify.zify_post_hook ::= Z.div_mod_to_equations.

(* ---- the validators' aggregation path equals the uploader's ---- *)
Lemma merge_single Hint d r : merge Hint d [r] = Some (d, r).
Proof. reflexivity. Qed.

Lemma validator_eq_uploader Hint chunks : validator_root Hint chunks = cas_node_hash Hint chunks.
Proof.
  unfold validator_root, cas_node_hash. destruct chunks as [|c cs]; [reflexivity|].
  destruct (add_nodes db0 (c :: cs)) as [d ns]. destruct (merge Hint d ns) as [[d1 r]|]; [|reflexivity].
  rewrite merge_single. reflexivity.
Qed.

(* a single-chunk list's root is the chunk hash itself, whatever its length *)
Lemma single_chunk_root Hint h l : cas_node_hash Hint [(h, l)] = Some h.
Proof.
  unfold cas_node_hash, add_nodes, add_node. destruct (db_find db0 (hkey h)); reflexivity.
Qed.

(* ---- HashedWrite ---- *)
Lemma hashed_write_exact : forall calls hashed accepted,
  exists x, hashed_write false calls hashed accepted = (hashed ++ x, accepted ++ x).
Proof.
  induction calls as [|[buf r] rest IH]; intros hashed accepted; cbn [hashed_write].
  - exists []. rewrite !app_nil_r. reflexivity.
  - destruct r as [n|].
    + destruct (IH (hashed ++ firstn (N.to_nat n) buf) (accepted ++ firstn (N.to_nat n) buf)) as [x Hx].
      exists (firstn (N.to_nat n) buf ++ x). rewrite Hx, !app_assoc. reflexivity.
    + apply IH.
Qed.

Lemma streaming_eq_accepted_when_fixed calls hd acc :
  hashed_write false calls [] [] = (hd, acc) -> hd = acc.
Proof. intros H. destruct (hashed_write_exact calls [] []) as [x Hx]. rewrite Hx in H. inversion H; reflexivity. Qed.

(* the shape of HashedWrite::write before the repair hashes bytes the writer did not take *)
Lemma streaming_whole_buffer_refuted :
  exists calls hd acc, hashed_write true calls [] [] = (hd, acc) /\ hd <> acc.
Proof. exists [([1; 2; 3], Some 1)], [1; 2; 3], [1]. split; [reflexivity|discriminate]. Qed.

(* ---- hex ---- *)
Lemma unhexdigit_hexdigit d : d < 16 -> unhexdigit (hexdigit d) = Some d.
Proof.
  intros H. unfold hexdigit, unhexdigit. destruct (d <? 10) eqn:E.
  - assert (E1 : (48 <=? 48 + d) && (48 + d <=? 57) = true) by lia. rewrite E1. f_equal. lia.
  - assert (E1 : (48 <=? 87 + d) && (87 + d <=? 57) = false) by lia. rewrite E1.
    assert (E2 : (97 <=? 87 + d) && (87 + d <=? 102) = true) by lia. rewrite E2. f_equal. lia.
Qed.

Lemma unhex_hex_bytes : forall l, Forall (fun b => b < 256) l -> unhex_bytes (flat_map hex_byte l) = Some l.
Proof.
  induction l as [|b r IH]; intros H; [reflexivity|]. inversion H; subst.
  cbn [flat_map hex_byte app unhex_bytes]. rewrite !unhexdigit_hexdigit by lia. rewrite IH by assumption. f_equal. f_equal. lia.
Qed.

Definition word_rev (h : list N) : list N :=
  rev (firstn 8 h) ++ rev (firstn 8 (skipn 8 h)) ++ rev (firstn 8 (skipn 16 h)) ++ rev (firstn 8 (skipn 24 h)).

Lemma skipn_skipn' {A} : forall a m (l : list A), skipn m (skipn a l) = skipn (a + m) l.
Proof. induction a as [|a IH]; intros m l; [reflexivity|]. destruct l; cbn; [destruct m; reflexivity|apply IH]. Qed.

Lemma hex_is_flat_map h : hex h = flat_map hex_byte (word_rev h).
Proof.
  unfold hex, word_rev. cbn [hex_words]. rewrite !flat_map_app. rewrite app_nil_r.
  rewrite !skipn_skipn'. cbn [Nat.add]. rewrite <- ?app_assoc. reflexivity.
Qed.

Lemma length32_cases {A} (h : list A) : length h = 32%nat ->
  exists a0 a1 a2 a3 a4 a5 a6 a7 b0 b1 b2 b3 b4 b5 b6 b7 c0 c1 c2 c3 c4 c5 c6 c7 d0 d1 d2 d3 d4 d5 d6 d7,
    h = [a0;a1;a2;a3;a4;a5;a6;a7;b0;b1;b2;b3;b4;b5;b6;b7;c0;c1;c2;c3;c4;c5;c6;c7;d0;d1;d2;d3;d4;d5;d6;d7].
Proof.
  intros H. do 32 (destruct h as [|? h]; [discriminate|]). destruct h; [|discriminate].
  repeat eexists.
Qed.

Lemma unhex_words_word_rev h : length h = 32%nat -> unhex_words 4 (word_rev h) = h.
Proof.
  intros H. destruct (length32_cases h H) as (a0&a1&a2&a3&a4&a5&a6&a7&b0&b1&b2&b3&b4&b5&b6&b7&c0&c1&c2&c3&c4&c5&c6&c7&d0&d1&d2&d3&d4&d5&d6&d7&->).
  reflexivity.
Qed.

Lemma word_rev_length h : length h = 32%nat -> length (word_rev h) = 32%nat.
Proof.
  intros H. destruct (length32_cases h H) as (a0&a1&a2&a3&a4&a5&a6&a7&b0&b1&b2&b3&b4&b5&b6&b7&c0&c1&c2&c3&c4&c5&c6&c7&d0&d1&d2&d3&d4&d5&d6&d7&->).
  reflexivity.
Qed.

Lemma word_rev_forall (P : N -> Prop) h : length h = 32%nat -> Forall P h -> Forall P (word_rev h).
Proof.
  intros H F. destruct (length32_cases h H) as (a0&a1&a2&a3&a4&a5&a6&a7&b0&b1&b2&b3&b4&b5&b6&b7&c0&c1&c2&c3&c4&c5&c6&c7&d0&d1&d2&d3&d4&d5&d6&d7&->).
  cbv [word_rev firstn skipn rev app].
  repeat match goal with H : Forall _ (_ :: _) |- _ => inversion H; clear H; subst end.
  repeat constructor; assumption.
Qed.

Lemma flat_map_hex_length l : length (flat_map hex_byte l) = (2 * length l)%nat.
Proof. induction l; cbn [flat_map length hex_byte app]; [reflexivity|]. cbn [length]. lia. Qed.

Lemma hex_roundtrip h : length h = 32%nat -> Forall (fun b => b < 256) h -> from_hex (hex h) = Some h.
Proof.
  intros HL HB. unfold from_hex. rewrite hex_is_flat_map. rewrite flat_map_hex_length, word_rev_length by assumption.
  change (negb (N.of_nat (2 * 32) =? 64)) with false. cbv iota.
  rewrite unhex_hex_bytes by (apply word_rev_forall; assumption).
  rewrite unhex_words_word_rev by assumption. reflexivity.
Qed.

(* hex is injective on well-formed hashes (a corollary of the round trip) *)
Lemma hex_injective h1 h2 : length h1 = 32%nat -> length h2 = 32%nat ->
  Forall (fun b => b < 256) h1 -> Forall (fun b => b < 256) h2 -> hex h1 = hex h2 -> h1 = h2.
Proof.
  intros L1 L2 B1 B2 E. pose proof (hex_roundtrip h1 L1 B1) as R1. pose proof (hex_roundtrip h2 L2 B2) as R2.
  rewrite E in R1. congruence.
Qed.
