(* C01 / C17: a term cut out of a coalesced fetch range.  The client downloads the chunk range [fs, fe) of a xorb once and trims
   it to every term [ts, te) inside it; the trimmed bytes are the term the writers need (EndToEndProofs.term_of), so a download
   through coalesced fetch ranges writes the same bytes as one that fetches every term on its own. *)
From Coq Require Import ZArith NArith Bool List Lia ZifyBool ZifyN ZifyNat.
Import ListNotations.
From XetModel Require Import Base.Codec Gen.ShardLayout Gen.DedupFacts Model.Merkle Model.Shard Model.Dedup Model.Cache Model.Reconstruct
  Proofs.CacheProofs Proofs.CacheHitProofs Proofs.ReconstructProofs Proofs.EndToEndProofs.
Open Scope N_scope.

Arguments N.add : simpl never.
Arguments N.sub : simpl never.
Arguments N.of_nat : simpl never.
Arguments N.to_nat : simpl never.

Lemma firstn_skipn_inside {A} : forall c b d (l : list A), (c + d <= b)%nat -> firstn d (skipn c (firstn b l)) = firstn d (skipn c l).
Proof.
  induction c as [|c IH]; intros b d l H.
  - cbn [skipn]. rewrite firstn_firstn. f_equal. lia.
  - destruct l as [|x l]; [rewrite firstn_nil; reflexivity|]. destruct b as [|b]; [lia|]. cbn [firstn skipn]. apply IH. lia.
Qed.
Lemma firstn_skipn_firstn {A} (l : list A) a b c d : (c + d <= b)%nat ->
  firstn d (skipn c (firstn b (skipn a l))) = firstn d (skipn (a + c) l).
Proof.
  intro H. rewrite firstn_skipn_inside by exact H. f_equal. clear. revert l. induction a as [|a IH]; intro l; [reflexivity|].
  destruct l as [|x l]; [cbn [skipn plus]; destruct c; reflexivity|]. cbn [skipn plus]. apply IH.
Qed.

Section Fetch.
  Variable content : hash -> bytes.

  (* the chunk data of the fetched range [fs, fe) of xorb x *)
  Definition fetched_range (x : cas_info) (fs fe : N) : list bytes :=
    map (fun e => content (ce_hash e)) (firstn (N.to_nat (fe - fs)) (skipn (N.to_nat fs) (ci_chunks x))).

  Theorem term_from_fetch_range F s x fs fe : st_find F (sg_cas s) = Some x ->
    fs <= sg_start s -> sg_start s <= sg_end s -> sg_end s <= fe -> fe <= N.of_nat (length (ci_chunks x)) ->
    trim_term (fetched_range x fs fe) fs (sg_start s) (sg_end s) (lenN (term_of content F s)) = Some (term_of content F s).
  Proof.
    intros Hf H1 H2 H3 H4.
    assert (Hlen : lenN (fetched_range x fs fe) = fe - fs).
    { unfold lenN, fetched_range. rewrite map_length, firstn_length, skipn_length. lia. }
    assert (Eterm : term_of content F s = concat (firstn (N.to_nat (sg_end s - sg_start s)) (skipn (N.to_nat (sg_start s - fs)) (fetched_range x fs fe)))).
    { unfold term_of, fetched_range. rewrite Hf. rewrite skipn_map, firstn_map. f_equal. f_equal.
      rewrite (firstn_skipn_firstn (ci_chunks x) (N.to_nat fs) (N.to_nat (fe - fs)) (N.to_nat (sg_start s - fs)) (N.to_nat (sg_end s - sg_start s))) by lia.
      f_equal. f_equal. lia. }
    rewrite Eterm. apply trim_term_exact; lia.
  Qed.
End Fetch.

(* get_one_term as a whole: whatever covering entry the fetch information lists first, and whether the chunk cache answers or
   not (a hit for exactly the term's range is exact: C12), the term handed to the writer is the chunk range the segment names *)
Section GetOneTerm.
  Variable content : hash -> bytes.
  Theorem get_one_term_exact F s x cached infos : st_find F (sg_cas s) = Some x ->
    sg_start s <= sg_end s ->
    (cached = None \/ cached = Some (term_of content F s)) ->
    (exists r, In r infos /\ fst r <= sg_start s /\ sg_end s <= snd r) ->
    (forall r, In r infos -> snd r <= N.of_nat (length (ci_chunks x))) ->
    get_one_term cached infos (fetched_range content x) (sg_start s) (sg_end s) (lenN (term_of content F s)) = Some (term_of content F s).
  Proof.
    intros Hf H12 Hc (r0 & Hin0 & Ha0 & Hb0) Hbound. unfold get_one_term. replace (sg_end s <? sg_start s) with false by lia.
    destruct Hc as [->| ->]; [|reflexivity]. unfold pick_fetch.
    destruct (find (fun r => (fst r <=? sg_start s) && (sg_end s <=? snd r)) infos) as [[fs fe]|] eqn:E.
    - apply find_some in E as [Hin Hp]. cbn [fst snd] in Hp. apply andb_prop in Hp as [P1 P2]. apply N.leb_le in P1, P2.
      apply term_from_fetch_range; try assumption. exact (Hbound _ Hin).
    - exfalso. pose proof (find_none _ _ E r0 Hin0) as Hn. cbn beta in Hn. apply andb_false_iff in Hn as [Hn|Hn]; apply N.leb_gt in Hn; lia.
  Qed.
End GetOneTerm.

(* ---- the error branches ---- *)

(* the error branches of get_one_term: an inverted term range is refused before anything is looked at ... *)
Theorem get_one_term_inverted_refused cached infos download ts te ul :
  te < ts -> get_one_term cached infos download ts te ul = None.
Proof. intros H. unfold get_one_term. replace (te <? ts) with true by lia. reflexivity. Qed.

Lemma find_all_false {A} (f : A -> bool) : forall l, (forall x, In x l -> f x = false) -> find f l = None.
Proof. induction l as [|x r IH]; intros H; [reflexivity|]. cbn [find]. rewrite (H x (or_introl eq_refl)). apply IH. intros y Hy. apply H. right. exact Hy. Qed.

(* ... and without a cache hit a term no fetch-info entry covers is an error: no download is started, no bytes are made up *)
Theorem get_one_term_uncovered_refused infos download ts te ul :
  (forall r, In r infos -> ~ (fst r <= ts /\ te <= snd r)) ->
  get_one_term None infos download ts te ul = None.
Proof.
  intros H. unfold get_one_term. destruct (te <? ts); [reflexivity|]. unfold pick_fetch.
  rewrite find_all_false; [reflexivity|]. intros r Hr. specialize (H r Hr).
  destruct (fst r <=? ts) eqn:E1; [|reflexivity]. destruct (te <=? snd r) eqn:E2; [|reflexivity]. exfalso. apply H. lia.
Qed.

(* ---- the length check ---- *)

(* whatever the server sent: a term that came out of a download has exactly the length the plan declared for it *)
Theorem trim_term_has_declared_length fetched fs ts te ul d :
  trim_term fetched fs ts te ul = Some d -> lenN d = ul.
Proof.
  unfold trim_term. intros H.
  match type of H with (match ?o with _ => _ end) = _ => destruct o as [x|]; [|discriminate] end.
  destruct (lenN x =? ul) eqn:E; [|discriminate]. injection H as <-. lia.
Qed.

Theorem get_one_term_downloaded_has_declared_length infos download ts te ul d :
  get_one_term None infos download ts te ul = Some d -> lenN d = ul.
Proof.
  unfold get_one_term. destruct (te <? ts); [discriminate|]. destruct (pick_fetch infos ts te) as [[fs fe]|]; [|discriminate].
  apply trim_term_has_declared_length.
Qed.
