(* Singleflight (Model/Singleflight.v), C20: for every number of callers and keys and every interleaving of the atomic
   actions, every caller that returns got the outcome of the one task of its flight, no waiter is parked while the
   result is set, a caller that has not returned can always make progress unless its task waits for the environment,
   and the owner's return ends the flight. *)
From Coq Require Import List NArith Bool Arith Lia.
Import ListNotations.
From XetModel Require Import Model.Singleflight.
Open Scope N_scope.

Lemma upd_same {A} (f : nat -> A) i x : upd f i x i = x.
Proof. unfold upd. rewrite Nat.eqb_refl. reflexivity. Qed.
Lemma upd_other {A} (f : nat -> A) i x j : j <> i -> upd f i x j = f j.
Proof. intro H. unfold upd. destruct (Nat.eqb_spec j i); [contradiction | reflexivity]. Qed.
Lemma updN_same {A} (f : N -> A) i x : updN f i x i = x.
Proof. unfold updN. rewrite N.eqb_refl. reflexivity. Qed.
Lemma updN_other {A} (f : N -> A) i x j : j <> i -> updN f i x j = f j.
Proof. intro H. unfold updN. destruct (N.eqb_spec j i); [contradiction | reflexivity]. Qed.

(* ---------------------------------------------------------------- invariants *)
Definition CallOk (x : call) : Prop :=
  match c_task x with
  | TCompleted o | TExited o => c_res x = Some (store_of o)
  | _ => c_res x = None
  end.

Definition CallerOk (m : N -> option nat) (calls : nat -> call) (next : nat) (c : nat) (p : cpc) : Prop :=
  match p with
  | CIdle | CArrive _ => True
  | CGotCall k cid created =>
      (cid < next)%nat /\ c_key (calls cid) = k /\
      (created = true -> c_creator (calls cid) = c /\ m k = Some cid /\ c_task (calls cid) = TNotSpawned)
  | CSpawn k cid n =>
      (cid < next)%nat /\ c_key (calls cid) = k /\ c_creator (calls cid) = c /\ m k = Some cid /\ c_task (calls cid) = TNotSpawned /\ n = false
  | CWait k cid created n =>
      (cid < next)%nat /\ c_key (calls cid) = k /\
      (created = true -> c_creator (calls cid) = c /\ m k = Some cid /\ c_task (calls cid) <> TNotSpawned) /\
      (n = false -> c_res (calls cid) = None) /\ (n = true -> c_res (calls cid) <> None)
  | CRemove k cid r =>
      (cid < next)%nat /\ c_key (calls cid) = k /\ c_creator (calls cid) = c /\ m k = Some cid /\
      exists o, c_task (calls cid) = TExited o /\ r = creator_res o
  | CReturned cid r owner =>
      (cid < next)%nat /\
      (exists o, (c_task (calls cid) = TCompleted o \/ c_task (calls cid) = TExited o) /\
                 (owner = true -> c_task (calls cid) = TExited o) /\
                 r = if owner then creator_res o else cres_of (store_of o)) /\
      (owner = true -> c_creator (calls cid) = c /\ m (c_key (calls cid)) <> Some cid)
  end.

(* the creator of a call that is still in the map has not returned *)
Definition CreatorActive (p : cpc) (k : N) (cid : nat) : Prop :=
  p = CGotCall k cid true \/ (exists n, p = CSpawn k cid n) \/ (exists n, p = CWait k cid true n) \/ (exists r, p = CRemove k cid r).

Record Inv (s : sfstate) : Prop := {
  inv_calls : forall cid, CallOk (sf_calls s cid);
  inv_callers : forall c, CallerOk (sf_map s) (sf_calls s) (sf_next s) c (sf_callers s c);
  inv_map : forall k cid, sf_map s k = Some cid ->
              (cid < sf_next s)%nat /\ c_key (sf_calls s cid) = k /\ CreatorActive (sf_callers s (c_creator (sf_calls s cid))) k cid;
  inv_unspawned : forall cid, (cid < sf_next s)%nat -> c_task (sf_calls s cid) = TNotSpawned ->
              sf_callers s (c_creator (sf_calls s cid)) = CGotCall (c_key (sf_calls s cid)) cid true \/
              sf_callers s (c_creator (sf_calls s cid)) = CSpawn (c_key (sf_calls s cid)) cid false;
  inv_fresh : forall cid, (sf_next s <= cid)%nat -> sf_calls s cid = empty_call
}.

Lemma Inv_init : Inv sf_init.
Proof.
  constructor; cbn.
  - intro cid. reflexivity.
  - intro c. exact I.
  - intros k cid H. discriminate.
  - intros cid H. lia.
  - reflexivity.
Qed.

(* CallerOk only reads the call its pc names *)
Lemma CallerOk_ext m calls calls' next next' c p :
  (next <= next')%nat ->
  (forall cid, (cid < next)%nat -> calls' cid = calls cid) ->
  CallerOk m calls next c p -> CallerOk m calls' next' c p.
Proof.
  intros Hn He H. destruct p as [|k|k cid cr|k cid n|k cid cr n|k cid r|cid r ow]; cbn [CallerOk] in *; try exact I.
  - destruct H as (L & H). rewrite (He cid L). split; [lia | exact H].
  - destruct H as (L & H). rewrite (He cid L). split; [lia | exact H].
  - destruct H as (L & H). rewrite (He cid L). split; [lia | exact H].
  - destruct H as (L & H). rewrite (He cid L). split; [lia | exact H].
  - destruct H as (L & H). rewrite (He cid L). split; [lia | exact H].
Qed.


(* CallerOk reads the map only at calls below [next] *)
Lemma CallerOk_map_equiv m m' calls next c p :
  (forall k cid, (cid < next)%nat -> (m' k = Some cid <-> m k = Some cid)) ->
  CallerOk m calls next c p -> CallerOk m' calls next c p.
Proof.
  intros He H. destruct p as [|k|k cid cr|k cid n|k cid cr n|k cid r|cid r ow]; cbn [CallerOk] in *; try exact I.
  - destruct H as (L & Hk & Hc). split; [exact L|]. split; [exact Hk|]. intro E. destruct (Hc E) as (X & Y & Z).
    split; [exact X|]. split; [apply He; assumption | exact Z].
  - destruct H as (L & Hk & X & Y & Z). split; [exact L|]. split; [exact Hk|]. split; [exact X|]. split; [apply He; assumption | exact Z].
  - destruct H as (L & Hk & Hc & Z). split; [exact L|]. split; [exact Hk|]. split; [|exact Z]. intro E. destruct (Hc E) as (X & Y & W).
    split; [exact X|]. split; [apply He; assumption | exact W].
  - destruct H as (L & Hk & X & Y & Z). split; [exact L|]. split; [exact Hk|]. split; [exact X|]. split; [apply He; assumption | exact Z].
  - destruct H as (L & Ho & Hc). split; [exact L|]. split; [exact Ho|]. intro E. destruct (Hc E) as [X Y]. split; [exact X|].
    intro Q. apply Y. apply He; assumption.
Qed.


(* removing the creator's key does not disturb the other callers *)
Lemma CallerOk_remove_other m calls next c c0 p k cid :
  m k = Some cid -> c_creator (calls cid) = c -> c0 <> c ->
  CallerOk m calls next c0 p -> CallerOk (updN m k None) calls next c0 p.
Proof.
  intros Hm Hcr N H.
  assert (G : forall k0 cid0, c_creator (calls cid0) = c0 -> m k0 = Some cid0 -> updN m k None k0 = Some cid0).
  { intros k0 cid0 Hc0 H0. destruct (N.eq_dec k0 k) as [->|Nk]; [|rewrite updN_other by exact Nk; exact H0].
    exfalso. rewrite Hm in H0. injection H0 as <-. apply N. congruence. }
  destruct p as [|k0|k0 cid0 cr|k0 cid0 n|k0 cid0 cr n|k0 cid0 r|cid0 r ow]; cbn [CallerOk] in *; try exact I.
  - destruct H as (L & Hk & Hc). split; [exact L|]. split; [exact Hk|]. intro E. destruct (Hc E) as (X & Y & Z).
    split; [exact X|]. split; [apply G; assumption | exact Z].
  - destruct H as (L & Hk & X & Y & Z). split; [exact L|]. split; [exact Hk|]. split; [exact X|]. split; [apply G; assumption | exact Z].
  - destruct H as (L & Hk & Hc & Z). split; [exact L|]. split; [exact Hk|]. split; [|exact Z]. intro E. destruct (Hc E) as (X & Y & W).
    split; [exact X|]. split; [apply G; assumption | exact W].
  - destruct H as (L & Hk & X & Y & Z). split; [exact L|]. split; [exact Hk|]. split; [exact X|]. split; [apply G; assumption | exact Z].
  - destruct H as (L & Ho & Hc). split; [exact L|]. split; [exact Ho|]. intro E. destruct (Hc E) as [X Y]. split; [exact X|].
    destruct (N.eq_dec (c_key (calls cid0)) k) as [Ek|Nk]; [rewrite Ek, updN_same; discriminate | rewrite updN_other by exact Nk; exact Y].
Qed.

(* a call whose task moves forward (never back to "not spawned", never out of "exited") and whose result only appears *)
Definition call_step (x x' : call) : Prop :=
  c_key x' = c_key x /\ c_creator x' = c_creator x /\ c_res x' = c_res x /\
  c_task x <> TNotSpawned /\ c_task x' <> TNotSpawned /\
  (forall o, c_task x = TExited o -> False) /\
  (forall o, c_task x = TCompleted o -> c_task x' = TExited o).

Lemma CallerOk_call_step m calls next c p cid x' :
  call_step (calls cid) x' -> CallerOk m calls next c p -> CallerOk m (upd calls cid x') next c p.
Proof.
  intros (K & Cr & Rs & T1 & T2 & T3 & T4) H.
  destruct p as [|k|k cid0 cr|k cid0 n|k cid0 cr n|k cid0 r|cid0 r ow]; cbn [CallerOk] in *; try exact I;
    (destruct (Nat.eq_dec cid0 cid) as [->|Hne]; [rewrite upd_same | rewrite (upd_other _ _ _ _ Hne); exact H]).
  - destruct H as (L & Hk & Hc). split; [exact L|]. split; [congruence|]. intro E. destruct (Hc E) as (_ & _ & F). contradiction.
  - destruct H as (L & Hk & Hc & Hm & F & _). contradiction.
  - destruct H as (L & Hk & Hc & Hn & Hy). split; [exact L|]. split; [congruence|]. split; [|split; intro E; rewrite Rs; auto].
    intro E. destruct (Hc E) as (A & B & _). split; [congruence|]. split; assumption.
  - destruct H as (L & Hk & Hc & Hm & o & F & _). exfalso. exact (T3 o F).
  - destruct H as (L & (o & Ht & Ho & Hr) & Hc). split; [exact L|]. split.
    + exists o. destruct Ht as [Ht|Ht]; [|exfalso; exact (T3 o Ht)]. split; [right; exact (T4 o Ht)|]. split; [intro; exact (T4 o Ht) | exact Hr].
    + intro E. destruct (Hc E) as [A B]. split; [congruence|]. rewrite K. exact B.
Qed.

(* ---------------------------------------------------------------- preservation *)
Ltac inv_some H := match type of H with Some _ = Some _ => injection H as <- | None = Some _ => discriminate H end.

Theorem sf_step_inv s e s' : Inv s -> sf_step s e = Some s' -> Inv s'.
Proof.
  intros [IC IP IM IU IF] H. destruct e as [c k|c|cid|cid o|cid|cid]; cbn [sf_step] in H.
  - (* arrive *)
    destruct (sf_callers s c) eqn:Ec; try discriminate. inv_some H.
    constructor; cbn [set_caller sf_map sf_calls sf_next sf_callers]; auto.
    + intro c0. destruct (Nat.eq_dec c0 c) as [->|N]; [rewrite upd_same; exact I | rewrite upd_other by exact N; apply IP].
    + intros k0 cid H0. destruct (IM k0 cid H0) as (A & B & C). repeat split; auto.
      destruct (Nat.eq_dec (c_creator (sf_calls s cid)) c) as [E|N]; [|rewrite upd_other by exact N; exact C].
      exfalso. rewrite E, Ec in C. destruct C as [C|[[n C]|[[n C]|[r C]]]]; discriminate.
    + intros cid L T. destruct (Nat.eq_dec (c_creator (sf_calls s cid)) c) as [E|N]; [|rewrite upd_other by exact N; apply IU; assumption].
      exfalso. destruct (IU cid L T) as [C|C]; rewrite E, Ec in C; discriminate.
  - (* a caller's step *)
    pose proof (IP c) as Hc. destruct (sf_callers s c) as [|k|k cid cr|k cid n|k cid cr n|k cid r|cid r ow] eqn:Ec; try discriminate.
    + (* the map lock *)
      destruct (sf_map s k) as [cid|] eqn:Em.
      * inv_some H. destruct (IM k cid Em) as (A & B & C).
        constructor; cbn [set_caller sf_map sf_calls sf_next sf_callers]; auto.
        -- intro c0. destruct (Nat.eq_dec c0 c) as [->|N]; [rewrite upd_same | rewrite upd_other by exact N; apply IP].
           cbn [CallerOk]. repeat split; auto; discriminate.
        -- intros k0 cid0 H0. destruct (IM k0 cid0 H0) as (A0 & B0 & C0). repeat split; auto.
           destruct (Nat.eq_dec (c_creator (sf_calls s cid0)) c) as [E|N]; [|rewrite upd_other by exact N; exact C0].
           exfalso. rewrite E, Ec in C0. destruct C0 as [C0|[[n C0]|[[n C0]|[r C0]]]]; discriminate.
        -- intros cid0 L T. destruct (Nat.eq_dec (c_creator (sf_calls s cid0)) c) as [E|N]; [|rewrite upd_other by exact N; apply IU; assumption].
           exfalso. destruct (IU cid0 L T) as [C0|C0]; rewrite E, Ec in C0; discriminate.
      * inv_some H. set (cid := sf_next s).
        assert (Hold : forall j, (j < cid)%nat -> upd (sf_calls s) cid {| c_key := k; c_creator := c; c_res := None; c_task := TNotSpawned |} j = sf_calls s j).
        { intros j Hj. apply upd_other. lia. }
        constructor; cbn [sf_map sf_calls sf_next sf_callers].
        -- intro j. destruct (Nat.eq_dec j cid) as [->|N]; [rewrite upd_same; reflexivity | rewrite upd_other by exact N; apply IC].
        -- intro c0. destruct (Nat.eq_dec c0 c) as [->|N].
           ++ rewrite upd_same. cbn [CallerOk]. rewrite upd_same. cbn [c_key c_creator c_task]. rewrite updN_same. repeat split; auto.
           ++ rewrite upd_other by exact N. pose proof (IP c0) as H0.
              eapply (CallerOk_ext _ (sf_calls s) _ cid); [lia | exact Hold|].
              apply (CallerOk_map_equiv (sf_map s)); [|exact H0].
              intros k0 cid0 L0. destruct (N.eq_dec k0 k) as [->|Nk].
              ** rewrite updN_same, Em. split; intro Q; [injection Q as Q; unfold cid in *; lia | discriminate].
              ** rewrite updN_other by exact Nk. tauto.
        -- intros k0 cid0 H0. destruct (N.eq_dec k0 k) as [->|Nk].
           ++ rewrite updN_same in H0. injection H0 as <-. rewrite upd_same. cbn [c_key c_creator]. rewrite upd_same.
              repeat split; auto. left. reflexivity.
           ++ rewrite updN_other in H0 by exact Nk. destruct (IM k0 cid0 H0) as (A & B & C).
              rewrite upd_other by (unfold cid; lia). repeat split; auto.
              destruct (Nat.eq_dec (c_creator (sf_calls s cid0)) c) as [E|N]; [|rewrite upd_other by exact N; exact C].
              exfalso. rewrite E, Ec in C. destruct C as [C|[[n C]|[[n C]|[r C]]]]; discriminate.
        -- intros cid0 L T. destruct (Nat.eq_dec cid0 cid) as [->|N].
           ++ rewrite upd_same in *. cbn [c_key c_creator]. rewrite upd_same. left. reflexivity.
           ++ rewrite (upd_other (sf_calls s) cid _ cid0 N) in *. assert (L0 : (cid0 < cid)%nat) by lia.
              destruct (Nat.eq_dec (c_creator (sf_calls s cid0)) c) as [E|N2]; [|rewrite (upd_other (sf_callers s) c _ _ N2); apply IU; assumption].
              exfalso. destruct (IU cid0 L0 T) as [C0|C0]; rewrite E, Ec in C0; discriminate.
        -- intros j Hj. rewrite upd_other by lia. apply IF. unfold cid in *. lia.
    + (* get_future *)
      cbn [CallerOk] in Hc. destruct Hc as (L & Hk & Hcr).
      assert (Hmap : forall p', (forall k0 cid0, CreatorActive (CGotCall k cid cr) k0 cid0 -> CreatorActive p' k0 cid0) ->
                     forall k0 cid0, sf_map s k0 = Some cid0 ->
                     (cid0 < sf_next s)%nat /\ c_key (sf_calls s cid0) = k0 /\ CreatorActive (upd (sf_callers s) c p' (c_creator (sf_calls s cid0))) k0 cid0).
      { intros p' Hp k0 cid0 H0. destruct (IM k0 cid0 H0) as (A & B & C). repeat split; auto.
        destruct (Nat.eq_dec (c_creator (sf_calls s cid0)) c) as [E|N]; [rewrite E, upd_same; apply Hp; rewrite E, Ec in C; exact C | rewrite upd_other by exact N; exact C]. }
      pose proof (IC cid) as Hcall. unfold CallOk in Hcall.
      destruct (c_res (sf_calls s cid)) as [st|] eqn:Er; inv_some H.
      * (* the result is there *)
        destruct cr.
        -- exfalso. destruct (Hcr eq_refl) as (_ & _ & T). rewrite T in Hcall. discriminate.
        -- constructor; cbn [set_caller sf_map sf_calls sf_next sf_callers]; auto.
           ++ intro c0. destruct (Nat.eq_dec c0 c) as [->|N]; [rewrite upd_same | rewrite upd_other by exact N; apply IP].
              cbn [CallerOk]. split; [exact L|]. split; [|intro; discriminate].
              destruct (c_task (sf_calls s cid)) as [| | |o|o|o] eqn:Et; try discriminate; exists o; injection Hcall as ->; (split; [auto|]); (split; [intro; discriminate | reflexivity]).
           ++ apply Hmap. intros k0 cid0 [C|[[n C]|[[n C]|[r C]]]]; discriminate.
           ++ intros cid0 L0 T. destruct (Nat.eq_dec (c_creator (sf_calls s cid0)) c) as [E|N]; [|rewrite upd_other by exact N; apply IU; assumption].
              exfalso. destruct (IU cid0 L0 T) as [C0|C0]; rewrite E, Ec in C0; discriminate.
      * (* no result yet: register (a waiter) or go on to spawn (the creator) *)
        destruct cr.
        -- destruct (Hcr eq_refl) as (X & Y & Z).
           constructor; cbn [set_caller sf_map sf_calls sf_next sf_callers]; auto.
           ++ intro c0. destruct (Nat.eq_dec c0 c) as [->|N]; [rewrite upd_same | rewrite upd_other by exact N; apply IP].
              cbn [CallerOk]. repeat split; auto.
           ++ apply Hmap. intros k0 cid0 [C|[[n C]|[[n C]|[r C]]]]; try discriminate. injection C as <- <-. right. left. exists false. reflexivity.
           ++ intros cid0 L0 T. destruct (Nat.eq_dec (c_creator (sf_calls s cid0)) c) as [E|N]; [|rewrite upd_other by exact N; apply IU; assumption].
              rewrite E, upd_same. destruct (IU cid0 L0 T) as [C0|C0]; rewrite E, Ec in C0; try discriminate. injection C0 as -> ->. right. reflexivity.
        -- constructor; cbn [set_caller sf_map sf_calls sf_next sf_callers]; auto.
           ++ intro c0. destruct (Nat.eq_dec c0 c) as [->|N]; [rewrite upd_same | rewrite upd_other by exact N; apply IP].
              cbn [CallerOk]. repeat split; auto; try discriminate; try (intro; discriminate).
           ++ apply Hmap. intros k0 cid0 [C|[[n C]|[[n C]|[r C]]]]; discriminate.
           ++ intros cid0 L0 T. destruct (Nat.eq_dec (c_creator (sf_calls s cid0)) c) as [E|N]; [|rewrite upd_other by exact N; apply IU; assumption].
              exfalso. destruct (IU cid0 L0 T) as [C0|C0]; rewrite E, Ec in C0; discriminate.
    + (* spawn *)
      cbn [CallerOk] in Hc. destruct Hc as (L & Hk & Hcr & Hm & Ht & ->). inv_some H.
      pose proof (IC cid) as Hcall. unfold CallOk in Hcall. rewrite Ht in Hcall.
      set (x' := {| c_key := c_key (sf_calls s cid); c_creator := c_creator (sf_calls s cid); c_res := c_res (sf_calls s cid); c_task := TSpawned |}).
      constructor; cbn [set_caller set_task set_call sf_map sf_calls sf_next sf_callers]; fold x'.
      * intro j. destruct (Nat.eq_dec j cid) as [->|N]; [rewrite upd_same; unfold CallOk; cbn; exact Hcall | rewrite upd_other by exact N; apply IC].
      * intro c0. destruct (Nat.eq_dec c0 c) as [->|N].
        -- rewrite upd_same. cbn [CallerOk]. rewrite upd_same. cbn. repeat split; auto; try discriminate.
        -- rewrite upd_other by exact N. pose proof (IP c0) as H0.
           (* no other caller is in a creator state of this call; waiters only read key and result *)
           destruct (sf_callers s c0) as [|k0|k0 cid0 cr0|k0 cid0 n0|k0 cid0 cr0 n0|k0 cid0 r0|cid0 r0 ow0] eqn:E0; cbn [CallerOk] in *; try exact I;
             (destruct (Nat.eq_dec cid0 cid) as [->|Nc]; [rewrite upd_same | rewrite upd_other by exact Nc; exact H0]); cbn [c_key c_creator c_res c_task].
           ++ intuition congruence.
           ++ intuition congruence.
           ++ intuition congruence.
           ++ intuition congruence.
           ++ destruct H0 as (L0 & (o & [T|T] & _) & _); rewrite Ht in T; discriminate.
      * intros k0 cid0 H0. destruct (IM k0 cid0 H0) as (A & B & C).
        destruct (Nat.eq_dec cid0 cid) as [->|Nc]; [rewrite upd_same; unfold x'; cbn [c_key c_creator] | rewrite upd_other by exact Nc].
        -- repeat split; auto. rewrite Hcr, upd_same. right. right. left. exists false. congruence.
        -- repeat split; auto. destruct (Nat.eq_dec (c_creator (sf_calls s cid0)) c) as [E|N]; [|rewrite upd_other by exact N; exact C].
           exfalso. rewrite E, Ec in C. destruct C as [C|[[n C]|[[n C]|[r C]]]]; try discriminate. injection C as _ ->. contradiction.
      * intros cid0 L0 T. destruct (Nat.eq_dec cid0 cid) as [->|Nc]; [rewrite upd_same in T; discriminate | rewrite !(upd_other (sf_calls s) cid _ cid0 Nc) in *].
        destruct (Nat.eq_dec (c_creator (sf_calls s cid0)) c) as [E|N]; [|rewrite upd_other by exact N; apply IU; assumption].
        exfalso. destruct (IU cid0 L0 T) as [C0|C0]; rewrite E, Ec in C0; try discriminate. injection C0 as _ ->. contradiction.
      * intros j Hj. rewrite upd_other by lia. apply IF. exact Hj.
    + (* a notified waiter / the creator's join *)
      destruct n; [|discriminate]. cbn [CallerOk] in Hc. destruct Hc as (L & Hk & Hcr & _ & Hres). specialize (Hres eq_refl).
      pose proof (IC cid) as Hcall. unfold CallOk in Hcall.
      destruct cr.
      * destruct (Hcr eq_refl) as (X & Y & Z). destruct (c_task (sf_calls s cid)) as [| | |o|o|o] eqn:Et; try discriminate. inv_some H.
        constructor; cbn [set_caller sf_map sf_calls sf_next sf_callers]; auto.
        -- intro c0. destruct (Nat.eq_dec c0 c) as [->|N]; [rewrite upd_same | rewrite upd_other by exact N; apply IP].
           cbn [CallerOk]. repeat split; auto. exists o. split; [exact Et|]. rewrite Hcall. destruct o; reflexivity.
        -- intros k0 cid0 H0. destruct (IM k0 cid0 H0) as (A & B & C). repeat split; auto.
           destruct (Nat.eq_dec (c_creator (sf_calls s cid0)) c) as [E|N]; [|rewrite upd_other by exact N; exact C].
           rewrite E, upd_same. rewrite E, Ec in C. destruct C as [C|[[n C]|[[n C]|[r C]]]]; try discriminate. injection C as <- <-.
           right. right. right. eexists. reflexivity.
        -- intros cid0 L0 T. destruct (Nat.eq_dec (c_creator (sf_calls s cid0)) c) as [E|N]; [|rewrite upd_other by exact N; apply IU; assumption].
           exfalso. destruct (IU cid0 L0 T) as [C0|C0]; rewrite E, Ec in C0; discriminate.
      * inv_some H.
        constructor; cbn [set_caller sf_map sf_calls sf_next sf_callers]; auto.
        -- intro c0. destruct (Nat.eq_dec c0 c) as [->|N]; [rewrite upd_same | rewrite upd_other by exact N; apply IP].
           cbn [CallerOk]. split; [exact L|]. split; [|intro; discriminate].
           destruct (c_task (sf_calls s cid)) as [| | |o|o|o] eqn:Et; try (rewrite Hcall in Hres; contradiction);
             exists o; rewrite Hcall; (split; [auto|]); (split; [intro; discriminate | reflexivity]).
        -- intros k0 cid0 H0. destruct (IM k0 cid0 H0) as (A & B & C). repeat split; auto.
           destruct (Nat.eq_dec (c_creator (sf_calls s cid0)) c) as [E|N]; [|rewrite upd_other by exact N; exact C].
           exfalso. rewrite E, Ec in C. destruct C as [C|[[n C]|[[n C]|[r C]]]]; discriminate.
        -- intros cid0 L0 T. destruct (Nat.eq_dec (c_creator (sf_calls s cid0)) c) as [E|N]; [|rewrite upd_other by exact N; apply IU; assumption].
           exfalso. destruct (IU cid0 L0 T) as [C0|C0]; rewrite E, Ec in C0; discriminate.
    + (* remove_call *)
      cbn [CallerOk] in Hc. destruct Hc as (L & Hk & Hcr & Hm & o & Ht & ->). rewrite Hm in H. inv_some H.
      constructor; cbn [sf_map sf_calls sf_next sf_callers]; auto.
      * intro c0. destruct (Nat.eq_dec c0 c) as [->|N].
        -- rewrite upd_same. cbn [CallerOk]. split; [exact L|]. split; [exists o; auto|]. intro. split; [exact Hcr|]. rewrite Hk, updN_same. discriminate.
        -- rewrite upd_other by exact N. eapply CallerOk_remove_other; eauto.
      * intros k0 cid0 H0. destruct (N.eq_dec k0 k) as [->|Nk]; [rewrite updN_same in H0; discriminate | rewrite updN_other in H0 by exact Nk].
        destruct (IM k0 cid0 H0) as (A & B & C). repeat split; auto.
        destruct (Nat.eq_dec (c_creator (sf_calls s cid0)) c) as [E|N]; [|rewrite upd_other by exact N; exact C].
        exfalso. rewrite E, Ec in C. destruct C as [C|[[n C]|[[n C]|[r C]]]]; try discriminate. injection C as -> _ _. contradiction.
      * intros cid0 L0 T. destruct (Nat.eq_dec (c_creator (sf_calls s cid0)) c) as [E|N]; [|rewrite upd_other by exact N; apply IU; assumption].
        exfalso. destruct (IU cid0 L0 T) as [C0|C0]; rewrite E, Ec in C0; discriminate.
  - (* the task starts *)
    destruct (c_task (sf_calls s cid)) eqn:Et; try discriminate. inv_some H.
    assert (Hs : call_step (sf_calls s cid) {| c_key := c_key (sf_calls s cid); c_creator := c_creator (sf_calls s cid); c_res := c_res (sf_calls s cid); c_task := TRunning |}).
    { unfold call_step. cbn. rewrite Et. repeat split; try discriminate; intros; discriminate. }
    pose proof (IC cid) as Hcall. unfold CallOk in Hcall. rewrite Et in Hcall.
    constructor; cbn [set_task set_call sf_map sf_calls sf_next sf_callers].
    + intro j. destruct (Nat.eq_dec j cid) as [->|N]; [rewrite upd_same; unfold CallOk; cbn; exact Hcall | rewrite upd_other by exact N; apply IC].
    + intro c0. apply CallerOk_call_step; [exact Hs | apply IP].
    + intros k0 cid0 H0. destruct (IM k0 cid0 H0) as (A & B & C). destruct (Nat.eq_dec cid0 cid) as [->|N]; [rewrite upd_same; cbn | rewrite upd_other by exact N]; auto.
    + intros cid0 L0 T. destruct (Nat.eq_dec cid0 cid) as [->|N]; [rewrite upd_same in T; discriminate | rewrite !(upd_other (sf_calls s) cid _ cid0 N) in *; apply IU; assumption].
    + intros j Hj. destruct (Nat.eq_dec j cid) as [->|N]; [exfalso; rewrite (IF cid Hj) in Et; discriminate | rewrite upd_other by exact N; apply IF; exact Hj].
  - (* the task's outcome *)
    destruct (c_task (sf_calls s cid)) eqn:Et; try discriminate. inv_some H.
    assert (Hs : call_step (sf_calls s cid) {| c_key := c_key (sf_calls s cid); c_creator := c_creator (sf_calls s cid); c_res := c_res (sf_calls s cid); c_task := TGotOutcome o |}).
    { unfold call_step. cbn. rewrite Et. repeat split; try discriminate; intros; discriminate. }
    pose proof (IC cid) as Hcall. unfold CallOk in Hcall. rewrite Et in Hcall.
    constructor; cbn [set_task set_call sf_map sf_calls sf_next sf_callers].
    + intro j. destruct (Nat.eq_dec j cid) as [->|N]; [rewrite upd_same; unfold CallOk; cbn; exact Hcall | rewrite upd_other by exact N; apply IC].
    + intro c0. apply CallerOk_call_step; [exact Hs | apply IP].
    + intros k0 cid0 H0. destruct (IM k0 cid0 H0) as (A & B & C). destruct (Nat.eq_dec cid0 cid) as [->|N]; [rewrite upd_same; cbn | rewrite upd_other by exact N]; auto.
    + intros cid0 L0 T. destruct (Nat.eq_dec cid0 cid) as [->|N]; [rewrite upd_same in T; discriminate | rewrite !(upd_other (sf_calls s) cid _ cid0 N) in *; apply IU; assumption].
    + intros j Hj. destruct (Nat.eq_dec j cid) as [->|N]; [exfalso; rewrite (IF cid Hj) in Et; discriminate | rewrite upd_other by exact N; apply IF; exact Hj].
  - (* complete: store and notify *)
    destruct (c_task (sf_calls s cid)) as [| | |o| |] eqn:Et; try discriminate. inv_some H.
    pose proof (IC cid) as Hcall. unfold CallOk in Hcall. rewrite Et in Hcall.
    set (x' := {| c_key := c_key (sf_calls s cid); c_creator := c_creator (sf_calls s cid); c_res := Some (store_of o); c_task := TCompleted o |}).
    assert (Hnot : forall c0, notify (sf_callers s) cid c0 = sf_callers s c0 \/
                   exists k cr n, sf_callers s c0 = CWait k cid cr n /\ notify (sf_callers s) cid c0 = CWait k cid cr true).
    { intro c0. unfold notify. destruct (sf_callers s c0) as [|k0|k0 cid0 cr0|k0 cid0 n0|k0 cid0 cr0 n0|k0 cid0 r0|cid0 r0 ow0]; auto.
      destruct (Nat.eqb_spec cid0 cid) as [->|N]; [right; eauto | left; reflexivity]. }
    constructor; cbn [sf_map sf_calls sf_next sf_callers]; fold x'.
    + intro j. destruct (Nat.eq_dec j cid) as [->|N]; [rewrite upd_same; reflexivity | rewrite upd_other by exact N; apply IC].
    + intro c0. pose proof (IP c0) as H0. destruct (Hnot c0) as [E|(k & cr & n & E1 & E2)].
      * rewrite E. destruct (sf_callers s c0) as [|k0|k0 cid0 cr0|k0 cid0 n0|k0 cid0 cr0 n0|k0 cid0 r0|cid0 r0 ow0] eqn:E0; cbn [CallerOk] in *; try exact I;
          (destruct (Nat.eq_dec cid0 cid) as [->|Nc]; [rewrite upd_same | rewrite upd_other by exact Nc; exact H0]); unfold x'; cbn [c_key c_creator c_res c_task].
        -- destruct H0 as (L0 & K0 & C0). split; [exact L0|]. split; [exact K0|]. intro Ecr. destruct (C0 Ecr) as (_ & _ & T). rewrite Et in T. discriminate.
        -- destruct H0 as (L0 & K0 & _ & _ & T & _). rewrite Et in T. discriminate.
        -- (* a registered waiter of this very call would have been notified *)
           exfalso. unfold notify in E. rewrite E0, Nat.eqb_refl in E. injection E as <-.
           destruct H0 as (_ & _ & _ & _ & R). specialize (R eq_refl). rewrite Hcall in R. contradiction.
        -- destruct H0 as (L0 & K0 & _ & _ & o0 & T & _). rewrite Et in T. discriminate.
        -- destruct H0 as (L0 & (o0 & [T|T] & _) & _); rewrite Et in T; discriminate.
      * rewrite E2. rewrite E1 in H0. cbn [CallerOk] in *. rewrite upd_same. unfold x'. cbn [c_key c_creator c_res c_task].
        destruct H0 as (L0 & K0 & C0 & _). split; [exact L0|]. split; [exact K0|]. split; [|split; [intro; discriminate | intros _; discriminate]].
        intro Ecr. destruct (C0 Ecr) as (X & Y & _). split; [exact X|]. split; [exact Y | discriminate].
    + intros k0 cid0 H0. destruct (IM k0 cid0 H0) as (A & B & C).
      assert (C' : CreatorActive (notify (sf_callers s) cid (c_creator (sf_calls s cid0))) k0 cid0).
      { destruct (Hnot (c_creator (sf_calls s cid0))) as [E|(k & cr & n & E1 & E2)]; [rewrite E; exact C|].
        rewrite E2. rewrite E1 in C. destruct C as [C|[[n0 C]|[[n0 C]|[r C]]]]; try discriminate. injection C as -> -> -> _. right. right. left. eexists. reflexivity. }
      destruct (Nat.eq_dec cid0 cid) as [->|N]; [rewrite upd_same; cbn [x' c_key c_creator] | rewrite upd_other by exact N]; auto.
    + intros cid0 L0 T. destruct (Nat.eq_dec cid0 cid) as [->|N]; [rewrite upd_same in T; discriminate | rewrite !(upd_other (sf_calls s) cid _ cid0 N) in *].
      destruct (IU cid0 L0 T) as [C0|C0]; destruct (Hnot (c_creator (sf_calls s cid0))) as [E|(k & cr & n & E1 & E2)]; try (rewrite E; auto); rewrite E1 in C0; discriminate.
    + intros j Hj. destruct (Nat.eq_dec j cid) as [->|N]; [exfalso; rewrite (IF cid Hj) in Et; discriminate | rewrite upd_other by exact N; apply IF; exact Hj].
  - (* the task's handle becomes ready *)
    destruct (c_task (sf_calls s cid)) as [| | | |o|] eqn:Et; try discriminate. inv_some H.
    assert (Hs : call_step (sf_calls s cid) {| c_key := c_key (sf_calls s cid); c_creator := c_creator (sf_calls s cid); c_res := c_res (sf_calls s cid); c_task := TExited o |}).
    { unfold call_step. cbn. rewrite Et. repeat split; try discriminate; try (intros; discriminate). intros o0 E. injection E as ->. reflexivity. }
    pose proof (IC cid) as Hcall. unfold CallOk in Hcall. rewrite Et in Hcall.
    constructor; cbn [set_task set_call sf_map sf_calls sf_next sf_callers].
    + intro j. destruct (Nat.eq_dec j cid) as [->|N]; [rewrite upd_same; unfold CallOk; cbn; exact Hcall | rewrite upd_other by exact N; apply IC].
    + intro c0. apply CallerOk_call_step; [exact Hs | apply IP].
    + intros k0 cid0 H0. destruct (IM k0 cid0 H0) as (A & B & C). destruct (Nat.eq_dec cid0 cid) as [->|N]; [rewrite upd_same; cbn | rewrite upd_other by exact N]; auto.
    + intros cid0 L0 T. destruct (Nat.eq_dec cid0 cid) as [->|N]; [rewrite upd_same in T; discriminate | rewrite !(upd_other (sf_calls s) cid _ cid0 N) in *; apply IU; assumption].
    + intros j Hj. destruct (Nat.eq_dec j cid) as [->|N]; [exfalso; rewrite (IF cid Hj) in Et; discriminate | rewrite upd_other by exact N; apply IF; exact Hj].
Qed.

Theorem sf_run_inv es : forall s s', Inv s -> sf_run s es = Some s' -> Inv s'.
Proof.
  induction es as [|e r IH]; intros s s' Hi H; cbn [sf_run] in H; [injection H as <-; exact Hi|].
  destruct (sf_step s e) as [s1|] eqn:E; [|discriminate]. eapply IH; [eapply sf_step_inv; eauto | exact H].
Qed.

(* ---------------------------------------------------------------- what the invariants give *)
(* every caller that has returned got the outcome of its flight's one task: never "no result", never "call missing" *)
Theorem returned_same_outcome s c cid r owner : Inv s -> sf_callers s c = CReturned cid r owner ->
  exists o, c_res (sf_calls s cid) = Some (store_of o) /\
            (c_task (sf_calls s cid) = TCompleted o \/ c_task (sf_calls s cid) = TExited o) /\
            r = (if owner then creator_res o else cres_of (store_of o)).
Proof.
  intros [IC IP _ _ _] E. pose proof (IP c) as H. rewrite E in H. cbn [CallerOk] in H.
  destruct H as (_ & (o & Ht & _ & Hr) & _). exists o. pose proof (IC cid) as Hc. unfold CallOk in Hc.
  destruct Ht as [Ht|Ht]; rewrite Ht in Hc; auto.
Qed.

Corollary returned_never_internal_bug s c cid r owner : Inv s -> sf_callers s c = CReturned cid r owner -> r <> RNoResult /\ r <> RCallMissing.
Proof.
  intros Hi E. destruct (returned_same_outcome _ _ _ _ _ Hi E) as (o & _ & _ & ->). destruct owner, o; cbn; split; discriminate.
Qed.

(* the caller that reports itself as owner is the one caller that created the call; its return ended the flight *)
Theorem owner_is_creator s c cid r : Inv s -> sf_callers s c = CReturned cid r true ->
  c_creator (sf_calls s cid) = c /\ sf_map s (c_key (sf_calls s cid)) <> Some cid.
Proof. intros [_ IP _ _ _] E. pose proof (IP c) as H. rewrite E in H. cbn [CallerOk] in H. destruct H as (_ & _ & H). apply H. reflexivity. Qed.

Corollary one_owner_per_flight s c1 c2 cid r1 r2 : Inv s ->
  sf_callers s c1 = CReturned cid r1 true -> sf_callers s c2 = CReturned cid r2 true -> c1 = c2.
Proof. intros Hi E1 E2. destruct (owner_is_creator _ _ _ _ Hi E1) as [A _]. destruct (owner_is_creator _ _ _ _ Hi E2) as [B _]. congruence. Qed.

(* no lost wake-up: nobody is parked un-notified on a call whose result is set *)
Theorem no_lost_wakeup s c k cid created : Inv s -> sf_callers s c = CWait k cid created false -> c_res (sf_calls s cid) = None.
Proof. intros [_ IP _ _ _] E. pose proof (IP c) as H. rewrite E in H. cbn [CallerOk] in H. destruct H as (_ & _ & _ & H & _). apply H. reflexivity. Qed.

(* the task of a call starts at most once: task states only move forward *)
Definition trank (t : tstate) : nat :=
  match t with TNotSpawned => 0 | TSpawned => 1 | TRunning => 2 | TGotOutcome _ => 3 | TCompleted _ => 4 | TExited _ => 5 end.

Lemma sf_step_task_mono s e s' cid : Inv s -> sf_step s e = Some s' -> (trank (c_task (sf_calls s cid)) <= trank (c_task (sf_calls s' cid)))%nat.
Proof.
  intros [IC IP IM IU IF] H. destruct e as [c k|c|cid0|cid0 o|cid0|cid0]; cbn [sf_step] in H.
  - destruct (sf_callers s c); try discriminate. injection H as <-. cbn. lia.
  - destruct (sf_callers s c) as [|k|k cid1 cr|k cid1 n|k cid1 cr n|k cid1 r|cid1 r ow] eqn:Ec; try discriminate.
    + destruct (sf_map s k); injection H as <-; cbn [sf_calls set_caller]; [lia|].
      destruct (Nat.eq_dec cid (sf_next s)) as [->|N]; [rewrite upd_same, (IF (sf_next s)) by lia; cbn; lia | rewrite upd_other by exact N; lia].
    + destruct (c_res (sf_calls s cid1)); injection H as <-; cbn; lia.
    + injection H as <-. cbn [set_caller set_task set_call sf_calls]. pose proof (IP c) as Hc. rewrite Ec in Hc. cbn [CallerOk] in Hc.
      destruct Hc as (_ & _ & _ & _ & Ht & _).
      destruct (Nat.eq_dec cid cid1) as [->|N]; [rewrite upd_same, Ht; cbn; lia | rewrite upd_other by exact N; lia].
    + destruct n; [|discriminate]. destruct cr.
      * destruct (c_task (sf_calls s cid1)); try discriminate. injection H as <-. cbn. lia.
      * injection H as <-. cbn. lia.
    + destruct (sf_map s k); injection H as <-; cbn; lia.
  - destruct (c_task (sf_calls s cid0)) eqn:Et; try discriminate. injection H as <-. cbn [set_task set_call sf_calls].
    destruct (Nat.eq_dec cid cid0) as [->|N]; [rewrite upd_same, Et; cbn; lia | rewrite upd_other by exact N; lia].
  - destruct (c_task (sf_calls s cid0)) eqn:Et; try discriminate. injection H as <-. cbn [set_task set_call sf_calls].
    destruct (Nat.eq_dec cid cid0) as [->|N]; [rewrite upd_same, Et; cbn; lia | rewrite upd_other by exact N; lia].
  - destruct (c_task (sf_calls s cid0)) eqn:Et; try discriminate. injection H as <-. cbn [sf_calls].
    destruct (Nat.eq_dec cid cid0) as [->|N]; [rewrite upd_same, Et; cbn; lia | rewrite upd_other by exact N; lia].
  - destruct (c_task (sf_calls s cid0)) eqn:Et; try discriminate. injection H as <-. cbn [set_task set_call sf_calls].
    destruct (Nat.eq_dec cid cid0) as [->|N]; [rewrite upd_same, Et; cbn; lia | rewrite upd_other by exact N; lia].
Qed.

(* once the task of a call has started, no later history can start it again *)
Theorem task_starts_once es : forall s s' cid, Inv s -> (2 <= trank (c_task (sf_calls s cid)))%nat ->
  sf_run s es = Some s' -> sf_step s' (ETaskStart cid) = None.
Proof.
  induction es as [|e r IH]; intros s s' cid Hi Hr H; cbn [sf_run] in H.
  - injection H as <-. cbn [sf_step]. destruct (c_task (sf_calls s cid)); cbn in Hr; try lia; reflexivity.
  - destruct (sf_step s e) as [s1|] eqn:E; [|discriminate]. eapply (IH s1); [eapply sf_step_inv; eauto | | exact H].
    pose proof (sf_step_task_mono _ _ _ cid Hi E). lia.
Qed.

(* progress: a caller that has arrived and not returned can always be moved on by an internal step (its own, its call's
   creator's, or its call's task's), unless its call's task is running and waits for the environment *)
Definition internal (e : event) : Prop := match e with EArrive _ _ | ETaskOutcome _ _ => False | _ => True end.

Theorem progress s c : Inv s ->
  match sf_callers s c with
  | CIdle | CReturned _ _ _ => True
  | CArrive _ | CGotCall _ _ _ | CSpawn _ _ _ | CRemove _ _ _ => sf_step s (EStep c) <> None
  | CWait _ cid _ _ =>
      (exists e, internal e /\ sf_step s e <> None) \/ c_task (sf_calls s cid) = TRunning
  end.
Proof.
  intros [IC IP IM IU IF]. pose proof (IP c) as Hc.
  destruct (sf_callers s c) as [|k|k cid cr|k cid n|k cid cr n|k cid r|cid r ow] eqn:Ec; try exact I; cbn [sf_step]; rewrite ?Ec.
  - destruct (sf_map s k); discriminate.
  - destruct (c_res (sf_calls s cid)); discriminate.
  - discriminate.
  - cbn [CallerOk] in Hc. destruct Hc as (L & Hk & Hcr & Hn & Hy). pose proof (IC cid) as Hcall. unfold CallOk in Hcall.
    destruct n.
    + (* notified *)
      specialize (Hy eq_refl). destruct cr.
      * destruct (c_task (sf_calls s cid)) as [| | |o|o|o] eqn:Et; try (rewrite Hcall in Hy; contradiction).
        -- left. exists (ETaskExit cid). split; [exact I|]. cbn [sf_step]. rewrite Et. discriminate.
        -- left. exists (EStep c). split; [exact I|]. cbn [sf_step]. rewrite Ec, Et. discriminate.
      * left. exists (EStep c). split; [exact I|]. cbn [sf_step]. rewrite Ec. discriminate.
    + specialize (Hn eq_refl). destruct (c_task (sf_calls s cid)) as [| | |o|o|o] eqn:Et; try (rewrite Hcall in Hn; discriminate).
      * (* the creator has not spawned the task yet: it can step *)
        left. exists (EStep (c_creator (sf_calls s cid))). split; [exact I|]. cbn [sf_step].
        destruct (IU cid L Et) as [E|E]; rewrite E; [destruct (c_res (sf_calls s cid)); discriminate | discriminate].
      * left. exists (ETaskStart cid). split; [exact I|]. cbn [sf_step]. rewrite Et. discriminate.
      * right. reflexivity.
      * left. exists (ETaskComplete cid). split; [exact I|]. cbn [sf_step]. rewrite Et. discriminate.
  - destruct (sf_map s k); discriminate.
Qed.

(* keys do not affect each other: a caller's step touches the map only at its own key; task events not at all *)
Definition pc_key (p : cpc) : option N :=
  match p with CArrive k | CGotCall k _ _ | CSpawn k _ _ | CWait k _ _ _ | CRemove k _ _ => Some k | _ => None end.
Theorem keys_independent s e s' k' : sf_step s e = Some s' ->
  (match e with EStep c => pc_key (sf_callers s c) <> Some k' | _ => True end) -> sf_map s' k' = sf_map s k'.
Proof.
  intros H Hk. destruct e as [c k|c|cid|cid o|cid|cid]; cbn [sf_step] in H.
  - destruct (sf_callers s c); try discriminate. injection H as <-. reflexivity.
  - destruct (sf_callers s c) as [|k|k cid cr|k cid n|k cid cr n|k cid r|cid r ow] eqn:Ec; try discriminate; cbn [pc_key] in Hk.
    + destruct (sf_map s k); injection H as <-; cbn [sf_map set_caller]; [reflexivity|]. apply updN_other. congruence.
    + destruct (c_res (sf_calls s cid)); injection H as <-; reflexivity.
    + injection H as <-. reflexivity.
    + destruct n; [|discriminate]. destruct cr; [destruct (c_task (sf_calls s cid)); try discriminate|]; injection H as <-; reflexivity.
    + destruct (sf_map s k); injection H as <-; cbn [sf_map set_caller]; [|reflexivity]. apply updN_other. congruence.
  - destruct (c_task (sf_calls s cid)); try discriminate. injection H as <-. reflexivity.
  - destruct (c_task (sf_calls s cid)); try discriminate. injection H as <-. reflexivity.
  - destruct (c_task (sf_calls s cid)); try discriminate. injection H as <-. reflexivity.
  - destruct (c_task (sf_calls s cid)); try discriminate. injection H as <-. reflexivity.
Qed.

(* a concrete history: callers 0 and 1 on key 7, the task fails with error 3; both get the waiter form of the error *)
Definition ex_sf_history : list event :=
  [EArrive 0 7; EStep 0; EStep 0; EArrive 1 7; EStep 1; EStep 1; EStep 0; ETaskStart 0; ETaskOutcome 0 (OErr 3); ETaskComplete 0; ETaskExit 0;
   EStep 1; EStep 0; EStep 0].
Lemma ex_sf_history_runs :
  exists s, sf_run sf_init ex_sf_history = Some s /\ sf_callers s 0 = CReturned 0 (RWaiterErr 3) true /\ sf_callers s 1 = CReturned 0 (RWaiterErr 3) false /\ sf_map s 7 = None.
Proof. eexists. repeat split; vm_compute; reflexivity. Qed.
