(* C10: set algebra of the record-level union / difference walks (set_operations.rs). *)
From Coq Require Import ZArith NArith Bool List Lia.
Import ListNotations.
From XetModel Require Import Base.Codec Gen.ShardLayout Model.Merkle Model.Shard.
Open Scope N_scope.

(* the key the code orders and compares by: the four u64 words of the hash *)
Definition fkey (f : file_info) : list N := hwords (fi_hash f).
Definition ckey (c : cas_info) : list N := hwords (ci_hash c).

Lemma words_cmp_eq : forall a b, words_cmp a b = Eq -> a = b.
Proof.
  induction a as [|x a IH]; destruct b as [|y b]; cbn [words_cmp]; intros H; try discriminate; [reflexivity|].
  destruct (x ?= y) eqn:E; try discriminate. apply N.compare_eq in E. subst. f_equal. auto.
Qed.
Lemma hash_cmp_eq a b : hash_cmp a b = Eq -> hwords a = hwords b.
Proof. apply words_cmp_eq. Qed.

Lemma merge_disk_key a b : fkey (merge_disk a b) = fkey a.
Proof. reflexivity. Qed.

Theorem union_files_keys : forall fuel a b k, (length a + length b <= fuel)%nat ->
  (In k (map fkey (union_files fuel a b)) <-> In k (map fkey a) \/ In k (map fkey b)).
Proof.
  induction fuel as [|fuel IH]; intros a b k Hf.
  - destruct a; destruct b; cbn in Hf; try lia. cbn. tauto.
  - destruct a as [|x a']; [cbn; tauto|]. destruct b as [|y b']; [cbn; tauto|].
    cbn [union_files]. destruct (hash_cmp (fi_hash x) (fi_hash y)) eqn:E.
    + apply hash_cmp_eq in E.
      assert (Hk : fkey (match compare_flag_superset (fi_flags x) (fi_flags y) with
                         | SuperA | SupEqual => x | SuperB => y | SupNeither => merge_disk x y end) = fkey x).
      { destruct (compare_flag_superset _ _); try reflexivity. unfold fkey. symmetry. exact E. }
      cbn [map In]. rewrite Hk. rewrite IH by (cbn [length] in Hf; lia).
      assert (Exy : fkey y = fkey x) by (unfold fkey; symmetry; exact E). rewrite Exy. tauto.
    + cbn [map In]. rewrite IH by (cbn [length] in *; lia). cbn [map In]. tauto.
    + cbn [map In]. rewrite IH by (cbn [length] in *; lia). cbn [map In]. tauto.
Qed.

Theorem union_cas_keys : forall fuel a b k, (length a + length b <= fuel)%nat ->
  (In k (map ckey (union_cas fuel a b)) <-> In k (map ckey a) \/ In k (map ckey b)).
Proof.
  induction fuel as [|fuel IH]; intros a b k Hf.
  - destruct a; destruct b; cbn in Hf; try lia. cbn. tauto.
  - destruct a as [|x a']; [cbn; tauto|]. destruct b as [|y b']; [cbn; tauto|].
    cbn [union_cas]. destruct (hash_cmp (ci_hash x) (ci_hash y)) eqn:E.
    + apply hash_cmp_eq in E. cbn [map In]. rewrite IH by (cbn [length] in Hf; lia).
      assert (Exy : ckey y = ckey x) by (unfold ckey; symmetry; exact E). rewrite Exy. tauto.
    + cbn [map In]. rewrite IH by (cbn [length] in *; lia). cbn [map In]. tauto.
    + cbn [map In]. rewrite IH by (cbn [length] in *; lia). cbn [map In]. tauto.
Qed.

(* union never invents a xorb record: every output record is an input record *)
Theorem union_cas_records : forall fuel a b c, In c (union_cas fuel a b) -> In c a \/ In c b.
Proof.
  induction fuel as [|fuel IH]; intros a b c H; [destruct H|].
  destruct a as [|x a']; [right; exact H|]. destruct b as [|y b']; [left; exact H|].
  cbn [union_cas] in H. destruct (hash_cmp (ci_hash x) (ci_hash y)); destruct H as [H|H]; subst; cbn [In]; auto;
    apply IH in H; cbn [In] in *; tauto.
Qed.

(* a file record of the union is an input record, or the stated merge of two records with the same key *)
Theorem union_files_records : forall fuel a b f, In f (union_files fuel a b) ->
  In f a \/ In f b \/ exists x y, In x a /\ In y b /\ fkey x = fkey y /\ f = merge_disk x y.
Proof.
  induction fuel as [|fuel IH]; intros a b f H; [destruct H|].
  destruct a as [|x a']; [right; left; exact H|]. destruct b as [|y b']; [left; exact H|].
  cbn [union_files] in H. destruct (hash_cmp (fi_hash x) (fi_hash y)) eqn:E.
  - destruct H as [H|H].
    + destruct (compare_flag_superset (fi_flags x) (fi_flags y)); subst; cbn [In]; auto.
      right. right. exists x, y. apply hash_cmp_eq in E. cbn [In]. auto.
    + apply IH in H. cbn [In]. destruct H as [H|[H|(x0 & y0 & H1 & H2 & H3 & H4)]]; auto.
      right. right. exists x0, y0. auto.
  - destruct H as [H|H]; [subst; cbn [In]; auto|]. apply IH in H. cbn [In] in *.
    destruct H as [H|[H|(x0 & y0 & H1 & H2 & H3 & H4)]]; auto. right. right. exists x0, y0. auto.
  - destruct H as [H|H]; [subst; cbn [In]; auto|]. apply IH in H. cbn [In] in *.
    destruct H as [H|[H|(x0 & y0 & H1 & H2 & H3 & H4)]]; auto. right. right. exists x0, y0. tauto.
Qed.

(* difference only returns records of the second shard *)
Theorem diff_files_subset : forall fuel a b f, In f (diff_files fuel a b) -> In f b.
Proof.
  induction fuel as [|fuel IH]; intros a b f H; [destruct H|].
  destruct b as [|y b']; [destruct a; destruct H|]. destruct a as [|x a']; [exact H|].
  cbn [diff_files] in H. destruct (hash_cmp (fi_hash x) (fi_hash y)).
  - right. eapply IH; eauto.
  - eapply IH; eauto.
  - destruct H as [H|H]; [left; auto|right; eapply IH; eauto].
Qed.
Theorem diff_cas_subset : forall fuel a b c, In c (diff_cas fuel a b) -> In c b.
Proof.
  induction fuel as [|fuel IH]; intros a b c H; [destruct H|].
  destruct b as [|y b']; [destruct a; destruct H|]. destruct a as [|x a']; [exact H|].
  cbn [diff_cas] in H. destruct (hash_cmp (ci_hash x) (ci_hash y)).
  - right. eapply IH; eauto.
  - eapply IH; eauto.
  - destruct H as [H|H]; [left; auto|right; eapply IH; eauto].
Qed.
