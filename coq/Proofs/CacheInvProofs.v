(* Chunk cache (Model/Cache.v), C12: for any number of threads, any schedule, any eviction victims and any history of
   puts of ground-truth slices, a hit returns exactly the ground-truth slice asked for.  The cache directory may start
   in any state that holds no undetectable foreign entry (J1) and whose tracked entries passed the scan's checks (J2). *)
From Coq Require Import ZArith NArith Bool List Lia ZifyBool ZifyN ZifyNat.
Import ListNotations.
From XetModel Require Import Base.Codec Gen.CacheFacts Model.Merkle Model.Cache Proofs.CodecProofs Proofs.Base64Proofs
  Proofs.CacheProofs Proofs.CacheHitProofs.
Open Scope N_scope.

Arguments N.add : simpl never.
Arguments N.mul : simpl never.
Arguments N.sub : simpl never.
Arguments N.ltb : simpl never.
Arguments N.leb : simpl never.
Arguments N.eqb : simpl never.
Arguments N.to_nat : simpl never.
Arguments N.of_nat : simpl never.

(* ---------------------------------------------------------------- membership lemmas *)
Lemma in_firstn {A} (l : list A) : forall n x, In x (firstn n l) -> In x l.
Proof. induction l as [|y r IH]; intros [|n] x H; cbn [firstn] in H; try contradiction. destruct H as [<-|H]; [left; reflexivity | right; eapply IH; exact H]. Qed.
Lemma in_skipn {A} (l : list A) : forall n x, In x (skipn n l) -> In x l.
Proof. induction l as [|y r IH]; intros [|n] x H; cbn [skipn] in H; try contradiction; try exact H. right. eapply IH. exact H. Qed.

Lemma In_swap_remove {A} (l : list A) i x : In x (swap_remove l i) -> In x l.
Proof.
  unfold swap_remove. destruct (rev l) as [|x0 r] eqn:E; [intros []|].
  assert (Hl : l = rev r ++ [x0]) by (apply (f_equal (@rev _)) in E; rewrite rev_involutive in E; exact E).
  rewrite Hl. destruct (Nat.eqb i (length (rev r))).
  - intro H. apply in_or_app. left. exact H.
  - intro H. apply in_app_or in H as [H|H].
    + apply in_or_app. left. eapply in_firstn. exact H.
    + destruct H as [<-|H]; [apply in_or_app; right; left; reflexivity|].
      apply in_or_app. left. eapply in_skipn. exact H.
Qed.
Lemma In_remove_rev idx : forall (its l rm : list titem) x, remove_rev its idx = (l, rm) -> In x l -> In x its.
Proof.
  induction idx as [|i r IH]; intros its l rm x H Hin; cbn [remove_rev] in H.
  - injection H as <- _. exact Hin.
  - destruct (nth_error its i) as [y|].
    + destruct (remove_rev (swap_remove its i) r) as [l1 rm1] eqn:E. injection H as <- _.
      eapply In_swap_remove. eapply IH; eauto.
    + eapply IH; eauto.
Qed.
Lemma In_remove_first its it x : In x (remove_first its it) -> In x its.
Proof.
  induction its as [|[y v] r IH]; cbn [remove_first]; [intros []|]. destruct (item_eqb y it); intro H; [right; exact H|].
  destruct H as [<-|H]; [left; reflexivity | right; apply IH; exact H].
Qed.
Lemma In_mark_verified its it x v : In (x, v) (mark_verified its it) ->
  In (x, v) its \/ (x = it /\ v = true /\ exists v0, In (it, v0) its).
Proof.
  induction its as [|[y w] r IH]; cbn [mark_verified]; [intros []|]. destruct (item_eqb y it) eqn:E.
  - apply item_eqb_eq in E. subst y. intros [H|H].
    + injection H as <- <-. right. repeat split. exists w. left. reflexivity.
    + left. right. exact H.
  - intros [H|H]; [left; left; exact H|]. destruct (IH H) as [H1|(H1 & H2 & v0 & H3)]; [left; right; exact H1|].
    right. repeat split; try assumption. exists v0. right. exact H3.
Qed.

(* membership in any vector stored for a key *)
Definition InTr (tr : list (key * list titem)) (k : key) (x : titem) : Prop := exists its, In (k, its) tr /\ In x its.

Lemma InTr_items_of tr k x : In x (items_of tr k) -> InTr tr k x.
Proof.
  induction tr as [|[q its] r IH]; cbn [items_of]; [intros []|]. destruct (bytes_eqb k q) eqn:E.
  - apply bytes_eqb_eq in E. subst q. intro H. exists its. split; [left; reflexivity | exact H].
  - intro H. destruct (IH H) as (its' & H1 & H2). exists its'. split; [right; exact H1 | exact H2].
Qed.
Lemma InTr_set_items tr k its k' x : InTr (set_items tr k its) k' x -> (k' = k /\ In x its) \/ InTr tr k' x.
Proof.
  induction tr as [|[q old] r IH]; cbn [set_items].
  - destruct its as [|y its']; intros (l & H1 & H2); [destruct H1|]. destruct H1 as [H1|[]]. injection H1 as <- <-. left. split; [reflexivity | exact H2].
  - destruct (bytes_eqb k q) eqn:E.
    + apply bytes_eqb_eq in E. subst q. destruct its as [|y its'].
      * intros (l & H1 & H2). right. exists l. split; [right; exact H1 | exact H2].
      * intros (l & [H1|H1] & H2).
        -- injection H1 as <- <-. left. split; [reflexivity | exact H2].
        -- right. exists l. split; [right; exact H1 | exact H2].
    + intros (l & [H1|H1] & H2).
      * injection H1 as <- <-. right. exists old. split; [left; reflexivity | exact H2].
      * destruct (IH (ex_intro _ l (conj H1 H2))) as [H|(l' & H3 & H4)]; [left; exact H|].
        right. exists l'. split; [right; exact H3 | exact H4].
Qed.
Lemma InTr_evict vs : forall tr n b tr' n' b' k x, evict tr n b vs = (tr', n', b') -> InTr tr' k x -> InTr tr k x.
Proof.
  induction vs as [|[kv it] r IH]; intros tr n b tr' n' b' k x H Hin; cbn [evict] in H.
  - injection H as <- _ _. exact Hin.
  - specialize (IH _ _ _ _ _ _ k x H Hin). apply InTr_set_items in IH as [[-> H1]|H1]; [|exact H1].
    apply InTr_items_of. eapply In_remove_first. exact H1.
Qed.

(* ---------------------------------------------------------------- the file system *)
Lemma fs_read_unlink f p q : fs_read (fs_unlink f p) q = if path_eqb p q then None else fs_read f q.
Proof.
  induction f as [|[r c] f IH]; cbn [fs_unlink filter fs_read fst].
  - destruct (path_eqb p q); reflexivity.
  - destruct (path_eqb p r) eqn:E1; cbn [negb].
    + apply path_eqb_eq in E1. subst r. fold (fs_unlink f p). rewrite IH.
      destruct (path_eqb p q) eqn:E2; [reflexivity|].
      assert (E3 : path_eqb q p = false).
      { destruct (path_eqb q p) eqn:E3; [|reflexivity]. apply path_eqb_eq in E3. subst q. rewrite (proj2 (path_eqb_eq p p) eq_refl) in E2. discriminate. }
      rewrite E3. reflexivity.
    + cbn [fs_read]. fold (fs_unlink f p). rewrite IH. destruct (path_eqb q r) eqn:E2; [|reflexivity].
      apply path_eqb_eq in E2. subst r. rewrite E1. reflexivity.
Qed.
Lemma fs_read_install f p c q : fs_read (fs_install f p c) q = if path_eqb q p then Some c else fs_read f q.
Proof.
  unfold fs_install. cbn [fs_read]. destruct (path_eqb q p) eqn:E; [reflexivity|]. rewrite fs_read_unlink.
  destruct (path_eqb p q) eqn:E2; [|reflexivity]. apply path_eqb_eq in E2. subst q. rewrite (proj2 (path_eqb_eq p p) eq_refl) in E. discriminate.
Qed.

(* ---------------------------------------------------------------- ground truth *)
Section Truth.
  (* the chunks of the xorb named by each key *)
  Variable G : key -> list bytes.
  Hypothesis HG : forall k, Forall (fun c => c <> []) (G k) /\ Forall (Forall is_byte) (G k) /\
                            lenN (concat (G k)) < 4294967296 /\ lenN (G k) + 1 < 4294967296.

  Definition gslice (k : key) (s e : N) : list bytes := firstn (N.to_nat (e - s)) (skipn (N.to_nat s) (G k)).
  Definition genc (k : key) (s e : N) : bytes := encode_file (cum 0 (gslice k s e)) (concat (gslice k s e)).
  Definition grange (k : key) (s e : N) : Prop := s < e /\ e <= lenN (G k).
  Definition gput (k : key) (s e : N) : op := OPut k s e (cum 0 (gslice k s e)) (concat (gslice k s e)).
  Definition gitem (k : key) (s e : N) : item := {| i_s := s; i_e := e; i_len := lenN (genc k s e); i_crc := crc32 (genc k s e) |}.

  Lemma new_item_gput k s e : new_item (gput k s e) = gitem k s e.
  Proof. reflexivity. Qed.

  Lemma sub_incl {A} (l : list A) n m : incl (firstn n (skipn m l)) l.
  Proof. intros x H. eapply in_skipn. eapply in_firstn. exact H. Qed.

  Lemma concat_sub_len (l : list bytes) n m : (length (concat (firstn n (skipn m l))) <= length (concat l))%nat.
  Proof.
    rewrite (concat_split l m). rewrite app_length. rewrite (concat_split (skipn m l) n). rewrite app_length. lia.
  Qed.

  Lemma gslice_length k s e : grange k s e -> length (gslice k s e) = N.to_nat (e - s).
  Proof. intros [H1 H2]. unfold gslice. rewrite firstn_length, skipn_length. unfold lenN in H2. lia. Qed.

  Lemma gslice_valid k s e : grange k s e -> valid_offs (cum 0 (gslice k s e)).
  Proof.
    intros Hr. destruct (HG k) as (H1 & _ & H3 & H4). apply cum_valid.
    - apply Forall_forall. intros c Hc. rewrite Forall_forall in H1. apply H1. eapply sub_incl. exact Hc.
    - pose proof (concat_sub_len (G k) (N.to_nat (e - s)) (N.to_nat s)). unfold gslice, lenN in *. lia.
    - pose proof (gslice_length k s e Hr) as L. destruct Hr. unfold lenN in *. unfold bytes in *. lia.
  Qed.

  Lemma genc_bytes k s e : Forall is_byte (genc k s e).
  Proof.
    unfold genc, encode_file, ser_header. destruct (HG k) as (_ & H2 & _).
    repeat (apply Forall_app; split).
    - apply le_bytes_bytes.
    - apply Forall_forall. intros b Hb. apply in_flat_map in Hb as (v & _ & Hv). pose proof (le_bytes_bytes 4 v) as F. rewrite Forall_forall in F. apply F. exact Hv.
    - apply Forall_forall. intros b Hb. apply in_concat in Hb as (c & Hc & Hb). rewrite Forall_forall in H2.
      specialize (H2 c (sub_incl _ _ _ _ Hc)). rewrite Forall_forall in H2. apply H2. exact Hb.
  Qed.

  Lemma genc_length k s e : grange k s e -> lenN (genc k s e) < 18446744073709551616.
  Proof.
    intro Hr. destruct (HG k) as (_ & _ & H3 & H4). unfold genc, encode_file. rewrite lenN_app. unfold lenN at 1. rewrite length_ser_header, cum_length.
    rewrite (gslice_length k s e Hr).
    pose proof (concat_sub_len (G k) (N.to_nat (e - s)) (N.to_nat s)). fold (gslice k s e) in H. destruct Hr. unfold lenN in *. lia.
  Qed.

  Lemma gitem_wf k s e : grange k s e -> wf_item (gitem k s e).
  Proof.
    intro Hr. destruct (HG k) as (_ & _ & _ & H4). unfold wf_item, gitem. cbn [i_s i_e i_len i_crc]. destruct Hr as [R1 R2].
    repeat split; try lia; [apply genc_length; split; assumption | apply crc32_lt32, genc_bytes].
  Qed.

  (* ---------------------------------------------------------------- invariants *)
  Definition FileGood (f : list (path * bytes)) (k : key) (it : item) : Prop :=
    wf_item it /\ grange k (i_s it) (i_e it) /\ forall c, fs_read f (item_path k it) = Some c -> c = genc k (i_s it) (i_e it).
  Definition LenGood (f : list (path * bytes)) (k : key) (it : item) : Prop :=
    wf_item it /\ forall c, fs_read f (item_path k it) = Some c -> lenN c = i_len it.
  (* no undetectable foreign entry: a file whose length and checksum agree with its name holds what that name says *)
  Definition J1 (f : list (path * bytes)) : Prop :=
    forall p c k it, fs_read f p = Some c -> wf_key k -> wf_item it -> p = item_path k it ->
      lenN c = i_len it -> crc32 c = i_crc it -> grange k (i_s it) (i_e it) /\ c = genc k (i_s it) (i_e it).
  Definition J2 (s : cstate) : Prop :=
    forall k it v, InTr (tracked s) k (it, v) -> wf_key k /\ LenGood (fs s) k it /\ (v = true -> FileGood (fs s) k it).

  Definition okop (o : op) : Prop :=
    match o with
    | OPut k s e offs data => wf_key k /\ grange k s e /\ o = gput k s e
    | OGet k rs re => wf_key k
    end.
  Definition PcOk (f : list (path * bytes)) (p : pc) : Prop :=
    match p with
    | PFind o => okop o /\ (match o with OGet _ rs re => rs < re | _ => True end)
    | PFound o it v =>
        okop o /\ (match o with
                   | OGet k rs re => covers it rs re = true /\ rs < re /\ LenGood f k it /\ (v = true -> FileGood f k it)
                   | _ => True end)
    | PRemState o _ | PRemHook o _ => okop o /\ (match o with OGet _ rs re => rs < re | _ => True end)
    | PHookFM o => okop o /\ (match o with OPut _ _ _ _ _ => True | _ => False end)
    | PHookFW o nw => okop o /\ (match o with OPut k _ _ _ _ => nw = new_item o /\ FileGood f k nw | _ => False end)
    | PUnl _ _ => True
    | PDone _ => True
    end.
  Definition CInv (c : conf) : Prop := J1 (fs (fst c)) /\ J2 (fst c) /\ Forall (PcOk (fs (fst c))) (snd c).

  (* the three ways the file system changes *)
  Inductive FsStep (f : list (path * bytes)) : list (path * bytes) -> Prop :=
  | FsSame : FsStep f f
  | FsUnlink p : FsStep f (fs_unlink f p)
  | FsInstall k s e : wf_key k -> grange k s e -> FsStep f (fs_install f (item_path k (gitem k s e)) (genc k s e)).

  Lemma FileGood_step f f' k it : wf_key k -> FsStep f f' -> FileGood f k it -> FileGood f' k it.
  Proof.
    intros Hk St (W & R & F). destruct St as [|p|k0 s0 e0 Hk0 Hr0]; (split; [exact W | split; [exact R|]]); [exact F | |]; intros c Hc.
    - rewrite fs_read_unlink in Hc. destruct (path_eqb p (item_path k it)); [discriminate|]. apply F. exact Hc.
    - rewrite fs_read_install in Hc. destruct (path_eqb (item_path k it) (item_path k0 (gitem k0 s0 e0))) eqn:E; [|apply F; exact Hc].
      apply path_eqb_eq in E. apply item_path_inj in E as [-> ->]; try assumption; [|apply gitem_wf; exact Hr0].
      injection Hc as <-. reflexivity.
  Qed.
  Lemma LenGood_step f f' k it : wf_key k -> FsStep f f' -> LenGood f k it -> LenGood f' k it.
  Proof.
    intros Hk St (W & F). destruct St as [|p|k0 s0 e0 Hk0 Hr0]; (split; [exact W|]); [exact F | |]; intros c Hc.
    - rewrite fs_read_unlink in Hc. destruct (path_eqb p (item_path k it)); [discriminate|]. apply F. exact Hc.
    - rewrite fs_read_install in Hc. destruct (path_eqb (item_path k it) (item_path k0 (gitem k0 s0 e0))) eqn:E; [|apply F; exact Hc].
      apply path_eqb_eq in E. apply item_path_inj in E as [-> ->]; try assumption; [|apply gitem_wf; exact Hr0].
      injection Hc as <-. reflexivity.
  Qed.
  Lemma J1_step f f' : FsStep f f' -> J1 f -> J1 f'.
  Proof.
    intros St H p c k it Hc Hk Hi Hp Hl Hcrc. destruct St as [|q|k0 s0 e0 Hk0 Hr0].
    - eapply H; eauto.
    - rewrite fs_read_unlink in Hc. destruct (path_eqb q p); [discriminate|]. eapply H; eauto.
    - rewrite fs_read_install in Hc. destruct (path_eqb p (item_path k0 (gitem k0 s0 e0))) eqn:E; [|eapply H; eauto].
      apply path_eqb_eq in E. rewrite Hp in E. apply item_path_inj in E as [-> ->]; try assumption; [|apply gitem_wf; exact Hr0].
      injection Hc as <-. cbn [gitem i_s i_e]. split; [exact Hr0 | reflexivity].
  Qed.

  Lemma okop_key o : okop o -> wf_key (op_key o).
  Proof. destruct o; cbn [okop op_key]; tauto. Qed.

  Lemma PcOk_step f f' p : FsStep f f' -> PcOk f p -> PcOk f' p.
  Proof.
    intros St H. destruct p as [o|o it v|o it|o it|o|o nw|h dl|r]; cbn [PcOk] in *; try exact H.
    - destruct H as [Ho H]. split; [exact Ho|]. destruct o as [|k rs re]; [exact I|]. destruct H as (C & L & LG & FG).
      cbn [okop] in Ho. split; [exact C | split; [exact L | split; [eapply LenGood_step; eauto | intro Hv; eapply FileGood_step; eauto]]].
    - destruct H as [Ho H]. split; [exact Ho|]. destruct o as [k s e offs data|]; [|exact H]. destruct H as [E FG]. split; [exact E|].
      cbn [okop] in Ho. eapply FileGood_step; eauto. tauto.
  Qed.

  Lemma FileGood_LenGood f k s e : FileGood f k (gitem k s e) -> LenGood f k (gitem k s e).
  Proof. intros (W & R & F). split; [exact W|]. intros c Hc. rewrite (F c Hc). reflexivity. Qed.

  (* J2 after a step whose tracked entries all come from before, or are listed as newly verified *)
  Lemma J2_step s s' :
    FsStep (fs s) (fs s') ->
    (forall k it v, InTr (tracked s') k (it, v) -> InTr (tracked s) k (it, v) \/ (wf_key k /\ LenGood (fs s) k it /\ FileGood (fs s) k it)) ->
    J2 s -> J2 s'.
  Proof.
    intros St Sub H k it v Hin. destruct (Sub k it v Hin) as [Hold|(Hk & HL & HF)].
    - destruct (H k it v Hold) as (Hk & HL & HF). split; [exact Hk | split; [eapply LenGood_step; eauto | intro Hv; eapply FileGood_step; eauto]].
    - split; [exact Hk | split; [eapply LenGood_step; eauto | intro Hv; eapply FileGood_step; eauto]].
  Qed.

  (* ---------------------------------------------------------------- one micro step preserves the invariants *)
  Lemma find_match_spec tr k rs re it v : find_match tr k rs re = Some (it, v) -> In (it, v) (items_of tr k) /\ covers it rs re = true.
  Proof. unfold find_match. intro H. apply find_some in H. exact H. Qed.

  Theorem mstep_inv s p vs s' p' ok :
    J1 (fs s) -> J2 s -> PcOk (fs s) p -> mstep s p vs = (s', p', ok) ->
    J1 (fs s') /\ J2 s' /\ PcOk (fs s') p' /\ FsStep (fs s) (fs s').
  Proof.
    intros HJ1 HJ2 Hp H. destruct p as [o|o it v|o it|o it|o|o nw|h dl|r]; cbn [mstep] in H.
    - (* PFind *)
      destruct (op_range o) as [rs re] eqn:Er. destruct (find_match (tracked s) (op_key o) rs re) as [[it v]|] eqn:Ef; injection H as <- <- _.
      + refine (conj HJ1 (conj HJ2 (conj _ (FsSame _)))). cbn [PcOk] in *. destruct Hp as [Ho Hr]. split; [exact Ho|].
        destruct o as [|k rs0 re0]; [exact I|]. cbn [op_range op_key] in *. injection Er as <- <-.
        destruct (find_match_spec _ _ _ _ _ _ Ef) as [Hin Hc]. destruct (HJ2 k it v (InTr_items_of _ _ _ Hin)) as (_ & HL & HF).
        exact (conj Hc (conj Hr (conj HL HF))).
      + refine (conj HJ1 (conj HJ2 (conj _ (FsSame _)))). destruct o; cbn [PcOk] in *; [split; [apply Hp | exact I] | exact I].
    - (* PFound *)
      destruct o as [k rs re offs data|k rs re].
      + injection H as <- <- _. refine (conj HJ1 (conj HJ2 (conj _ (FsSame _)))). cbn [PcOk] in Hp. destruct Hp as [Ho _].
        assert (RS : PcOk (fs s) (PRemState (OPut k rs re offs data) it)) by (cbn [PcOk]; split; [exact Ho | exact I]).
        unfold validate, validate_with. destruct (fs_read _ _) as [c|]; [|exact RS].
        destruct (negb (lenN c =? i_len it)); [exact RS|]. destruct (negb (crc32 c =? i_crc it)); [exact RS|].
        destruct (de_header c) as [hd|]; [|exact RS].
        destruct (lenN hd <? re - i_s it + 1); [destruct validate_bounds_checked; first [exact RS | exact I]|].
        destruct (negb _); [exact I|]. destruct (get_range hd c rs re (i_s it)); try exact I. destruct (list_eqb _ _); exact I.
      + cbn [PcOk okop] in Hp. destruct Hp as (Hk & Hc & Hlt & HL & HF). cbn [op_key] in H.
        assert (RS : PcOk (fs s) (PRemState (OGet k rs re) it)) by (cbn [PcOk okop]; split; assumption).
        destruct (fs_read (fs s) (item_path k it)) as [c|] eqn:Er.
        2:{ injection H as <- <- _. exact (conj HJ1 (conj HJ2 (conj RS (FsSame _)))). }
        destruct (negb v && negb (crc32 c =? i_crc it)) eqn:Ec.
        { injection H as <- <- _. exact (conj HJ1 (conj HJ2 (conj RS (FsSame _)))). }
        (* the entry's file is good: it was verified before, or its length and checksum match now *)
        assert (FG : FileGood (fs s) k it).
        { destruct v; [apply HF; reflexivity|]. cbn [negb andb] in Ec. apply negb_false_iff, N.eqb_eq in Ec.
          destruct HL as [W HLc]. destruct (HJ1 _ c k it Er Hk W eq_refl (HLc c Er) Ec) as [R E].
          split; [exact W | split; [exact R|]]. intros c' Hc'. rewrite Er in Hc'. injection Hc' as <-. exact E. }
        set (s1 := if v then s else cupd s (set_items (tracked s) k (mark_verified (items_of (tracked s) k) it)) (nitems s) (tbytes s) (fs s)) in *.
        assert (Hfs : fs s1 = fs s) by (unfold s1; destruct v; reflexivity).
        assert (HJ2' : J2 s1).
        { unfold s1. destruct v; [exact HJ2|]. apply (J2_step s); [cbn [cupd fs]; apply FsSame| |exact HJ2]. cbn [cupd tracked fs].
          intros k' it' v' Hin. apply InTr_set_items in Hin as [[-> Hin]|Hin]; [|left; exact Hin].
          apply In_mark_verified in Hin as [Hin|(-> & -> & v0 & Hin)]; [left; apply InTr_items_of; exact Hin|].
          right. exact (conj Hk (conj HL FG)). }
        destruct (de_header c); injection H as <- <- _; rewrite Hfs.
        * exact (conj HJ1 (conj HJ2' (conj I (FsSame _)))).
        * exact (conj HJ1 (conj HJ2' (conj RS (FsSame _)))).
    - (* PRemState *)
      cbn [PcOk] in Hp. destruct (remove_state s (op_key o) it) as [s1|] eqn:E; injection H as <- <- _.
      + unfold remove_state in E. destruct (has_key (tracked s) (op_key o)).
        * destruct (index_of _ _) as [i|]; [|discriminate]. injection E as <-. cbn [cupd fs tracked].
          refine (conj HJ1 (conj _ (conj Hp (FsSame _)))).
          apply (J2_step s); [cbn [cupd fs]; apply FsSame| |exact HJ2]. cbn [cupd tracked fs]. intros k' it' v' Hin.
          apply InTr_set_items in Hin as [[-> Hin]|Hin]; [|left; exact Hin]. left. apply InTr_items_of. eapply In_swap_remove. exact Hin.
        * injection E as <-. exact (conj HJ1 (conj HJ2 (conj Hp (FsSame _)))).
      + exact (conj HJ1 (conj HJ2 (conj Hp (FsSame _)))).
    - (* PRemHook *)
      injection H as <- <- _. cbn [cupd fs]. assert (St : FsStep (fs s) (fs_unlink (fs s) (item_path (op_key o) it))) by constructor.
      refine (conj (J1_step _ _ St HJ1) (conj _ (conj Hp St))). eapply J2_step; [exact St | intros; left; assumption | exact HJ2].
    - (* PHookFM *)
      cbn [PcOk] in Hp. destruct Hp as [Ho Hput]. destruct o as [k s0 e0 offs data|]; [|contradiction].
      cbn [okop] in Ho. destruct Ho as (Hk & Hr & Eo).
      assert (Eod : offs = cum 0 (gslice k s0 e0) /\ data = concat (gslice k s0 e0)) by (injection Eo; auto).
      destruct Eod as [-> ->]. injection H as <- <- _. cbn [cupd fs].
      fold (genc k s0 e0). fold (gitem k s0 e0). fold (gput k s0 e0).
      assert (St : FsStep (fs s) (fs_install (fs s) (item_path k (gitem k s0 e0)) (genc k s0 e0))) by (constructor; assumption).
      refine (conj (J1_step _ _ St HJ1) (conj _ (conj _ St))); [eapply J2_step; [exact St | intros; left; assumption | exact HJ2]|].
      cbn [PcOk]. split; [exact (conj Hk (conj Hr eq_refl))|]. unfold gput at 1. split; [reflexivity|].
      split; [apply gitem_wf; exact Hr | split; [exact Hr|]].
      intros c Hc. rewrite fs_read_install in Hc. rewrite (proj2 (path_eqb_eq _ _) eq_refl) in Hc. injection Hc as <-. reflexivity.
    - (* PHookFW: the commit *)
      cbn [PcOk] in Hp. destruct Hp as [Ho Hput]. destruct o as [k s0 e0 offs data|]; [|contradiction]. destruct Hput as [Enw FG].
      cbn [okop] in Ho. destruct Ho as (Hk & Hr & Eo). cbn [op_key] in H.
      destruct (commit s k nw vs) as [[s1 dl] ok1] eqn:E. injection H as <- <- _.
      unfold commit, commit_with in E.
      destruct (remove_rev (items_of (tracked s) k) (rev (subsumed_idx (items_of (tracked s) k) nw 0))) as [its1 rm] eqn:Er.
      destruct (evict (set_items (tracked s) k its1) (nitems s - lenN rm) _ vs) as [[tr2 n2] b2] eqn:Ev.
      injection E as <- _ _. cbn [cupd fs]. refine (conj HJ1 (conj _ (conj I (FsSame _)))).
      apply (J2_step s); [cbn [cupd fs]; apply FsSame| |exact HJ2]. cbn [cupd tracked fs]. intros k' it' v' Hin.
      apply InTr_set_items in Hin as [[-> Hin]|Hin].
      + apply in_app_or in Hin as [Hin|[Hin|[]]].
        * left. apply InTr_items_of in Hin. eapply InTr_evict in Hin; [|exact Ev].
          apply InTr_set_items in Hin as [[_ Hin]|Hin]; [|exact Hin]. apply InTr_items_of. eapply In_remove_rev; eauto.
        * injection Hin as <- <-. right.
          assert (Eg : nw = gitem k s0 e0) by (rewrite Enw, Eo; reflexivity).
          subst nw. rewrite Eg in FG |- *. exact (conj Hk (conj (FileGood_LenGood _ _ _ _ FG) FG)).
      + left. eapply InTr_evict in Hin; [|exact Ev]. apply InTr_set_items in Hin as [[-> Hin]|Hin]; [|exact Hin].
        apply InTr_items_of. eapply In_remove_rev; eauto.
    - (* PUnl *)
      destruct dl as [|q dl']; injection H as <- <- _.
      + exact (conj HJ1 (conj HJ2 (conj I (FsSame _)))).
      + cbn [cupd fs]. assert (St : FsStep (fs s) (fs_unlink (fs s) q)) by constructor.
        refine (conj (J1_step _ _ St HJ1) (conj _ (conj I St))). eapply J2_step; [exact St | intros; left; assumption | exact HJ2].
    - injection H as <- <- _. exact (conj HJ1 (conj HJ2 (conj I (FsSame _)))).
  Qed.

  (* ---------------------------------------------------------------- what a hit returns *)
  Theorem hit_exact s k rs re it v vs s' a b offs data ok :
    J1 (fs s) -> PcOk (fs s) (PFound (OGet k rs re) it v) ->
    mstep s (PFound (OGet k rs re) it v) vs = (s', PDone (CHit a b offs data), ok) ->
    a = rs /\ b = re /\ offs = cum 0 (gslice k rs re) /\ data = concat (gslice k rs re).
  Proof.
    intros HJ1 Hp H. cbn [PcOk okop] in Hp. destruct Hp as (Hk & Hc & Hlt & HL & HF).
    destruct (get_hit_source _ _ _ _ _ _ _ _ _ _ _ _ _ H) as (c & hd & Er & Hv & Eh & Eg).
    assert (FG : FileGood (fs s) k it).
    { destruct Hv as [->|Ec]; [apply HF; reflexivity|]. destruct HL as [W HLc].
      destruct (HJ1 _ c k it Er Hk W eq_refl (HLc c Er) Ec) as [R E].
      split; [exact W | split; [exact R|]]. intros c' Hc'. rewrite Er in Hc'. injection Hc' as <-. exact E. }
    destruct FG as (W & R & F). specialize (F c Er). subst c. unfold genc in Eh, Eg.
    rewrite (de_header_encode _ _ (gslice_valid _ _ _ R)) in Eh. injection Eh as <-.
    unfold covers in Hc. apply andb_true_iff in Hc as [C1 C2]. apply N.leb_le in C1, C2.
    rewrite get_range_slice in Eg; [| lia | lia | unfold lenN; rewrite (gslice_length _ _ _ R); lia].
    injection Eg as <- <- <- <-.
    assert (Es : firstn (N.to_nat (re - rs)) (skipn (N.to_nat (rs - i_s it)) (gslice k (i_s it) (i_e it))) = gslice k rs re).
    { unfold gslice. replace (N.to_nat (rs - i_s it)) with (N.to_nat rs - N.to_nat (i_s it))%nat by lia.
      apply slice_slice; lia. }
    rewrite Es. repeat split; reflexivity.
  Qed.

  (* ---------------------------------------------------------------- any number of threads, any schedule *)
  (* events whose started calls carry ground-truth slices *)
  Definition okevent (e : event) : Prop := match e with EStart _ o => okop o | EStep _ _ => True end.

  Lemma Forall_set_nth {A} (P : A -> Prop) (l : list A) : forall i x, Forall P l -> P x -> Forall P (set_nth l i x).
  Proof.
    induction l as [|y r IH]; intros i x Hl Hx; cbn [set_nth]; [constructor|]. inversion Hl; subst.
    destruct i; constructor; auto.
  Qed.
  Lemma Forall_nth_error {A} (P : A -> Prop) (l : list A) i x : Forall P l -> nth_error l i = Some x -> P x.
  Proof. intros H E. rewrite Forall_forall in H. apply H. eapply nth_error_In. exact E. Qed.

  Theorem cstep_inv c e c' : CInv c -> okevent e -> cstep c e = Some c' -> CInv c'.
  Proof.
    intros (H1 & H2 & H3) He H. destruct c as [s pcs]. cbn [fst snd] in *. destruct e as [t vs|t o]; cbn [cstep fst snd] in H.
    - destruct (nth_error pcs t) as [p|] eqn:En; [|discriminate].
      destruct (mstep s p vs) as [[s1 p1] ok] eqn:M. destruct ok; [|discriminate]. injection H as <-.
      destruct (mstep_inv _ _ _ _ _ _ H1 H2 (Forall_nth_error _ _ _ _ H3 En) M) as (A & B & C & St).
      unfold CInv. cbn [fst snd]. split; [exact A | split; [exact B|]]. apply Forall_set_nth; [|exact C].
      eapply Forall_impl; [|exact H3]. intros q Hq. eapply PcOk_step; eauto.
    - destruct (nth_error pcs t) as [[| | | | | | |r]|]; try discriminate. injection H as <-.
      unfold CInv. cbn [fst snd]. split; [exact H1 | split; [exact H2|]]. apply Forall_set_nth; [exact H3|].
      cbn [okevent] in He. unfold start_op. destruct o as [k s0 e0 offs data|k rs re].
      + destruct (put_args_ok s0 e0 offs data); cbn [PcOk]; tauto.
      + destruct (rs <? re) eqn:E; cbn [PcOk]; [apply N.ltb_lt in E; tauto | exact I].
  Qed.

  Theorem crun_inv es : forall c c', CInv c -> Forall okevent es -> crun c es = Some c' -> CInv c'.
  Proof.
    induction es as [|e r IH]; intros c c' Hc He H; cbn [crun] in H; [injection H as <-; exact Hc|].
    destruct (cstep c e) as [c1|] eqn:E; [|discriminate]. inversion He; subst. eapply IH; [eapply cstep_inv; eauto | assumption | exact H].
  Qed.

  (* the property: in every reachable configuration, a step of a get that ends in a hit returns the ground truth *)
  Theorem reachable_hit_exact c0 es c t vs c' k rs re it v a b offs data :
    CInv c0 -> Forall okevent es -> crun c0 es = Some c ->
    nth_error (snd c) t = Some (PFound (OGet k rs re) it v) ->
    cstep c (EStep t vs) = Some c' -> nth_error (snd c') t = Some (PDone (CHit a b offs data)) ->
    a = rs /\ b = re /\ offs = cum 0 (gslice k rs re) /\ data = concat (gslice k rs re).
  Proof.
    intros H0 He Hr En Hs En'. pose proof (crun_inv _ _ _ H0 He Hr) as (H1 & H2 & H3).
    cbn [cstep] in Hs. rewrite En in Hs. destruct (mstep (fst c) (PFound (OGet k rs re) it v) vs) as [[s1 p1] ok] eqn:M.
    destruct ok; [|discriminate]. injection Hs as <-. cbn [snd] in En'.
    assert (Ep : p1 = PDone (CHit a b offs data)).
    { assert (G1 : forall (l : list pc) i x y, nth_error l i = Some y -> nth_error (set_nth l i x) i = Some x).
      { induction l as [|z l IHl]; intros [|i] x y Hn; cbn in Hn; try discriminate; cbn [set_nth nth_error]; [reflexivity | eapply IHl; eauto]. }
      rewrite (G1 _ _ p1 _ En) in En'. injection En' as ->. reflexivity. }
    subst p1. eapply hit_exact; [exact H1 | eapply Forall_nth_error; eauto | exact M].
  Qed.

  (* the empty cache satisfies the invariants *)
  Lemma CInv_empty capacity n : CInv ({| tracked := []; nitems := 0; tbytes := 0; fs := []; cap := capacity |}, repeat (PDone COk) n).
  Proof.
    unfold CInv. cbn [fst snd fs tracked]. split; [|split].
    - intros q c k it H. discriminate H.
    - intros k it v (its & [] & _).
    - apply Forall_forall. intros q Hq. apply repeat_spec in Hq. subst. exact I.
  Qed.
End Truth.

(* a concrete history: put chunks [0,3) of a three-chunk xorb, then get chunks [1,3) *)
Definition ex_G (k : key) : list bytes := if bytes_eqb k ex_key then [[1; 2]; [3]; [4; 5; 6]] else [].
Definition ex_history : list event :=
  [EStart 0 (gput ex_G ex_key 0 3); EStep 0 []; EStep 0 []; EStep 0 []; EStep 0 []; EStart 0 (OGet ex_key 1 3); EStep 0 []; EStep 0 []].
Lemma ex_history_hits :
  Forall (okevent ex_G) ex_history /\
  exists c, crun (ex_s0, [PDone COk]) ex_history = Some c /\ nth_error (snd c) 0 = Some (PDone (CHit 1 3 [0; 1; 4] [3; 4; 5; 6])).
Proof.
  split.
  - unfold ex_history. repeat constructor; unfold wf_key, ex_key; repeat constructor; vm_compute; congruence.
  - eexists. split; vm_compute; reflexivity.
Qed.
