(* C10, known finding K2 on the model's side: the merge of two well-formed records of one file whose segment lists differ
   is not a well-formed record -- on disk (shard_set_union's Merge branch: [merge_disk]) when the first record carries only
   the metadata extension and the second only verification entries, in memory (MDBFileInfo::merge_from: [merge_mem]) whenever
   the record that is kept lacks verification entries and the other has them.  The union theorems of C10 speak of unions
   that are well-formed shards (ShardOk), which this excludes; with equal segment counts the merged record is well-formed. *)
From Coq Require Import ZArith NArith Bool List Lia.
Import ListNotations.
From XetModel Require Import Base.Codec Gen.ShardLayout Model.Merkle Model.Shard Proofs.CodecProofs Proofs.ShardProofs.
Open Scope N_scope.

Definition k2_h (x : N) : hash := repeat x 32%nat.
Definition k2_seg (x : N) : seg := mkSeg (k2_h x) 0 1000 0 (x + 1).
(* one file, once as two segments with the metadata extension only, once as three segments with verification only *)
Definition k2_a : file_info := mkFI (k2_h 7) MDB_FILE_FLAG_WITH_METADATA_EXT 0 [k2_seg 1; k2_seg 2] [] (Some (k2_h 9)).
Definition k2_b : file_info := mkFI (k2_h 7) MDB_FILE_FLAG_WITH_VERIFICATION 0 [k2_seg 3; k2_seg 4; k2_seg 5] [k2_h 13; k2_h 14; k2_h 15] None.

Lemma k2_wf_seg x : x < 1000 -> wf_seg (k2_seg x).
Proof. intro H. unfold wf_seg, k2_seg, is_hash, is_u32, k2_h. cbn [sg_cas sg_flags sg_bytes sg_start sg_end]. rewrite repeat_length. repeat split; lia. Qed.
Lemma k2_a_wf : wf_file k2_a.
Proof.
  unfold wf_file, k2_a. cbn [fi_hash fi_flags fi_unused fi_segs fi_verif fi_ext].
  split; [reflexivity|]. split; [vm_compute; reflexivity|]. split; [unfold is_u32; vm_compute; reflexivity|]. split; [unfold is_u64; vm_compute; reflexivity|].
  split; [unfold is_u32; vm_compute; reflexivity|]. split; [repeat constructor; apply k2_wf_seg; lia|]. split; [constructor|]. split; [vm_compute; reflexivity|].
  vm_compute. exists (k2_h 9). split; reflexivity.
Qed.
Lemma k2_b_wf : wf_file k2_b.
Proof.
  unfold wf_file, k2_b. cbn [fi_hash fi_flags fi_unused fi_segs fi_verif fi_ext].
  split; [reflexivity|]. split; [vm_compute; reflexivity|]. split; [unfold is_u32; vm_compute; reflexivity|]. split; [unfold is_u64; vm_compute; reflexivity|].
  split; [unfold is_u32; vm_compute; reflexivity|]. split; [repeat constructor; apply k2_wf_seg; lia|]. split; [repeat constructor|]. split; [vm_compute; reflexivity|].
  vm_compute. reflexivity.
Qed.

Theorem merge_of_resegmented_records_refuted :
  wf_file k2_a /\ wf_file k2_b /\ fi_hash k2_a = fi_hash k2_b /\
  length (fi_segs (merge_disk k2_a k2_b)) = 2%nat /\ length (fi_verif (merge_disk k2_a k2_b)) = 3%nat /\ ~ wf_file (merge_disk k2_a k2_b).
Proof.
  split; [exact k2_a_wf|]. split; [exact k2_b_wf|]. split; [reflexivity|]. split; [vm_compute; reflexivity|]. split; [vm_compute; reflexivity|].
  intros (_ & _ & _ & _ & _ & _ & _ & H & _). vm_compute in H. discriminate.
Qed.
(* in memory: the kept record has no verification entries (here: no flags at all), the other has them *)
Definition k2_c : file_info := mkFI (k2_h 7) 0 0 [k2_seg 1; k2_seg 2] [] None.
Theorem merge_from_of_resegmented_records_refuted :
  wf_file k2_c /\ wf_file k2_b /\ fi_hash k2_c = fi_hash k2_b /\
  length (fi_segs (merge_from k2_c k2_b)) = 2%nat /\ length (fi_verif (merge_from k2_c k2_b)) = 3%nat /\ ~ wf_file (merge_from k2_c k2_b).
Proof.
  split.
  { unfold wf_file, k2_c. cbn [fi_hash fi_flags fi_unused fi_segs fi_verif fi_ext].
    split; [reflexivity|]. split; [vm_compute; reflexivity|]. split; [unfold is_u32; vm_compute; reflexivity|]. split; [unfold is_u64; vm_compute; reflexivity|].
    split; [unfold is_u32; vm_compute; reflexivity|]. split; [repeat constructor; apply k2_wf_seg; lia|]. split; [constructor|]. split; [vm_compute; reflexivity|].
    vm_compute. reflexivity. }
  split; [exact k2_b_wf|]. split; [reflexivity|]. split; [vm_compute; reflexivity|]. split; [vm_compute; reflexivity|].
  intros (_ & _ & _ & _ & _ & _ & _ & H & _). vm_compute in H. discriminate.
Qed.
(* with equal segment counts the on-disk merge of two well-formed records is well-formed in its counts *)
Lemma merge_disk_counts a b : wf_file a -> wf_file b -> length (fi_segs a) = length (fi_segs b) ->
  let m := merge_disk a b in
  if has_verif (fi_flags a) || has_verif (fi_flags b) then length (fi_verif m) = length (fi_segs m) else fi_verif m = [].
Proof.
  intros (_ & _ & _ & _ & _ & _ & _ & Va & _) (_ & _ & _ & _ & _ & _ & _ & Vb & _) L. unfold merge_disk. cbn [fi_segs fi_verif].
  destruct (has_verif (fi_flags a)); cbn [orb]; [exact Va|]. destruct (has_verif (fi_flags b)); [congruence | reflexivity].
Qed.
