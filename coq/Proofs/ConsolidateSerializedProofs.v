(* C19 / C10: the whole-directory theorem instantiated with the real shard readers.  For a directory of serialized shards
   (each group the loop forms consists of serializations of well-formed shards whose step-wise unions stay well-formed:
   StepsFit, i.e. no K2 pair and the size bounds), names being content hashes without collisions among the contents involved,
   the plan consolidate computes is safe: MergedOk follows from C10_merge_all_covers_inputs, and the merged shard's name is
   final because every shard name is (shard_name_is_final). *)
From Coq Require Import ZArith NArith Bool List Lia.
Import ListNotations.
From XetModel Require Import Base.Codec Model.Merkle Model.Shard Model.Crash Proofs.CrashProofs Proofs.MergeProofs Proofs.MergeAllProofs Proofs.UnionWfProofs
  Proofs.ConsolidateWholeProofs Proofs.ShardNameProofs.
Open Scope N_scope.

Definition SerializedGroups (groups : list (list N * list (fname * list N))) : Prop :=
  forall c g, In (c, g) groups -> exists acc (gs : list (fname * sshard)),
    c = ss_bytes acc /\ g = map (fun x => (fst x, ss_bytes (snd x))) gs /\ ss_ok acc /\ Forall (fun x => ss_ok (snd x)) gs /\ StepsFit acc (map snd gs).

Theorem merged_ok_serialized groups : SerializedGroups groups ->
  MergedOk skey is_shard_final (fun p c => p = shard_name c) shard_recs groups.
Proof.
  intros SG c g m Hin Hm. destruct (SG c g Hin) as (acc & gs & -> & -> & Ha & Hg & Hf).
  assert (Hg' : Forall ss_ok (map snd gs)) by (apply Forall_map; exact Hg).
  destruct (unions_ok_from_steps (map snd gs) acc Ha Hg' Hf) as [HU Hfin].
  split; [reflexivity|]. split; [apply shard_name_is_final|].
  pose proof (merge_all_covers_inputs gs acc m Ha Hg HU Hfin Hm) as Cov. split.
  - intros x Hx. apply Cov. left. exact Hx.
  - intros n' c' Hin' x Hx. apply Cov. right. apply in_map_iff in Hin'. destruct Hin' as ([n2 s2] & Heq & Hin2). cbn [fst snd] in Heq. injection Heq as <- <-.
    exists n2, s2. split; assumption.
Qed.

Theorem consolidate_serialized_directory_safe fuel target shards temps finished pl fin f :
  (forall c c', shard_name c = shard_name c' -> c = c') ->
  consolidate fuel target shards temps finished = Some (pl, fin) -> SerializedGroups (groups_of fuel target shards) ->
  Consistent is_shard_final (fun p c => p = shard_name c) f -> InDir is_shard_final f shards -> NoDup (map fst shards) ->
  (forall t, In t temps -> is_shard_final t = false) ->
  SafePlan skey is_shard_final (fun p c => p = shard_name c) shard_recs f pl.
Proof.
  intros Inj H SG C D ND HT. apply (consolidate_plan_safe skey is_shard_final (fun p c => p = shard_name c) shard_recs) with (fuel := fuel) (target := target) (shards := shards) (temps := temps) (finished := finished) (fin := fin); try assumption.
  - intros p c c' -> H2. apply Inj. exact H2.
  - apply merged_ok_serialized. exact SG.
Qed.
