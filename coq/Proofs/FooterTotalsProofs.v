(* C09: the byte totals in the footer.  A serialized shard's footer, loaded back, reports exactly the sums over the records:
   bytes on disk and bytes stored over the xorb records, materialized bytes over the segments of the file records; and the
   table sizes are the record counts. *)
From Coq Require Import ZArith NArith Bool List Lia.
Import ListNotations.
From XetModel Require Import Base.Codec Gen.ShardLayout Model.Merkle Model.Shard Proofs.CodecProofs Proofs.ShardProofs Proofs.ShardWholeProofs.
Open Scope N_scope.

Theorem footer_totals files cass ctbl key created expiry : ShardOk files cass ctbl key created expiry ->
  exists ft, load_footer (w_bs files cass ctbl key created expiry) = Some ft
    /\ ft_ondisk ft = sum_ndisk cass /\ ft_stored ft = sum_nbytes cass /\ ft_materialized ft = sum_materialized files
    /\ ft_file_lookup_num ft = N.of_nat (length (file_lookup_tbl files 0)) /\ ft_cas_lookup_num ft = N.of_nat (length (cas_lookup_tbl cass 0))
    /\ ft_chunk_lookup_num ft = N.of_nat (length ctbl) /\ ft_key ft = key /\ ft_created ft = created /\ ft_expiry ft = expiry
    /\ ft_footer_offset ft + 200 = N.of_nat (length (w_bs files cass ctbl key created expiry)).
Proof.
  intro H. exists (w_ft files cass ctbl key created expiry). split; [apply shard_footer_roundtrip; exact H|].
  destruct H as (A & B & C & D & E & F & G & H & I & J).
  repeat split. cbn [ft_footer_offset w_ft]. rewrite (w_len files cass ctbl key created expiry C I). reflexivity.
Qed.

Lemma lookup_tbl_lengths : forall files cass i j, length (file_lookup_tbl files i) = length files /\ length (cas_lookup_tbl cass j) = length cass.
Proof.
  intros files cass i j. split.
  - revert i. induction files as [|f r IH]; intro i; cbn [file_lookup_tbl length]; [reflexivity | rewrite IH; reflexivity].
  - revert j. induction cass as [|c r IH]; intro j; cbn [cas_lookup_tbl length]; [reflexivity | rewrite IH; reflexivity].
Qed.
