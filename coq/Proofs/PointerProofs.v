(* C03: the file hash in the pointer is a function of the chunk sequence and the salt alone: it does not depend on how the
   chunks are grouped into process_chunks calls, on the dedup table, on what the session registered before, on the size
   limits or on any fragmentation decision. *)
From Coq Require Import ZArith NArith Bool List Lia.
Import ListNotations.
From XetModel Require Import Base.Codec Gen.ShardLayout Gen.DedupFacts Model.Merkle Model.Shard Model.Dedup Proofs.PipelineProofs Proofs.ResolveProofs.
Open Scope N_scope.

Lemma process_block_hashes bbd cf ext f cs : rev (f_hashes (process_block bbd cf ext f cs)) = rev (f_hashes f) ++ cs.
Proof. unfold process_block. apply fed_chunks_recorded. Qed.

Lemma feed_blocks_hashes bbd cf ext : forall blocks f, rev (f_hashes (feed_blocks bbd cf ext f blocks)) = rev (f_hashes f) ++ concat blocks.
Proof.
  induction blocks as [|b r IH]; intro f; [cbn; rewrite app_nil_r; reflexivity|].
  change (feed_blocks bbd cf ext f (b :: r)) with (feed_blocks bbd cf ext (process_block bbd cf ext f b) r).
  rewrite IH, process_block_hashes. cbn [concat]. rewrite app_assoc. reflexivity.
Qed.

Theorem pointer_hash_depends_on_chunks_and_salt bbd1 bbd2 cf1 cf2 ext1 ext2 R1 R2 blocks1 blocks2 salt sha1 sha2 :
  concat blocks1 = concat blocks2 ->
  fst (fst (fst (fd_finalize (feed_blocks bbd1 cf1 ext1 (fd_with_registered R1) blocks1) salt sha1))) =
  fst (fst (fst (fd_finalize (feed_blocks bbd2 cf2 ext2 (fd_with_registered R2) blocks2) salt sha2))).
Proof.
  intro E. rewrite !file_hash_function, !feed_blocks_hashes. cbn [fd_with_registered f_hashes rev app]. rewrite E. reflexivity.
Qed.

Theorem pointer_hash_is_file_node_hash bbd cf ext R blocks salt sha :
  fst (fst (fst (fd_finalize (feed_blocks bbd cf ext (fd_with_registered R) blocks) salt sha))) =
  match file_node_hash (concat blocks) salt with Some h => h | None => zero_hash end.
Proof. rewrite file_hash_function, feed_blocks_hashes. reflexivity. Qed.
