(* C07: byte grouping -- the index arithmetic of the unsafe pointer code is in bounds and regroup . split = id. *)
From Coq Require Import ZArith NArith Bool List Lia ZifyBool ZifyN ZifyNat PeanoNat.
Import ListNotations.
From XetModel Require Import Base.Codec Model.Xorb.
Open Scope nat_scope.

Ltac Zify.zify_post_hook ::= Z.div_mod_to_equations.

(* group 0 of a list: elements 0,4,8,... *)
Lemma bg4_group_length : forall l g, g < 4 -> length (bg4_group g l) = (length l + 3 - g) / 4.
Proof.
  induction l as [|b r IH]; intros g Hg; cbn [bg4_group length].
  - destruct g as [|[|[|[|g]]]]; try lia; reflexivity.
  - destruct g as [|g].
    + cbn [length]. rewrite IH by lia. lia.
    + rewrite IH by lia. lia.
Qed.

Lemma bg4_group_nth : forall l g i d, g < 4 -> nth i (bg4_group g l) d = nth (4 * i + g) l d.
Proof.
  induction l as [|b r IH]; intros g i d Hg; cbn [bg4_group].
  - destruct i; destruct (4 * _ + g); reflexivity.
  - destruct g as [|g].
    + destruct i as [|i]; [reflexivity|]. cbn [nth]. rewrite IH by lia.
      replace (4 * S i + 0) with (S (4 * i + 3)) by lia. reflexivity.
    + rewrite IH by lia. replace (4 * i + S g) with (S (4 * i + g)) by lia. reflexivity.
Qed.

Lemma skipn_nth {A} : forall k (l : list A) i d, nth i (skipn k l) d = nth (k + i) l d.
Proof. induction k as [|k IH]; intros l i d; [reflexivity|]. destruct l; [destruct i; reflexivity|]. cbn. apply IH. Qed.

Definition grp (k : nat) (x : list N) : list N := bg4_group 0 (skipn k x).

Lemma grp_length k x : k <= length x -> length (grp k x) = (length x - k + 3) / 4.
Proof. intros H. unfold grp. rewrite bg4_group_length by lia. rewrite skipn_length. f_equal. lia. Qed.
Lemma grp_nth k x i d : nth i (grp k x) d = nth (4 * i + k) x d.
Proof. unfold grp. rewrite bg4_group_nth by lia. rewrite skipn_nth. f_equal. lia. Qed.

Lemma quarters n : (n + 3) / 4 + (n + 2) / 4 + (n + 1) / 4 + n / 4 = n.
Proof.
  pose proof (Nat.div_mod n 4 ltac:(lia)) as H. pose proof (Nat.mod_upper_bound n 4 ltac:(lia)) as Hr.
  set (q := n / 4) in *. set (r := n mod 4) in *. 
  assert (D : forall k, (n + k) / 4 = q + (r + k) / 4).
  { intros k. rewrite H. replace (4 * q + r + k) with (q * 4 + (r + k)) by lia. apply Nat.div_add_l. lia. }
  rewrite !D. clearbody q r. destruct r as [|[|[|[|r]]]]; try lia; cbn; lia.
Qed.

Lemma bg4_split_length x : length (bg4_split x) = length x.
Proof.
  unfold bg4_split. fold (grp 0 x) (grp 1 x) (grp 2 x) (grp 3 x). rewrite !app_length.
  unfold grp. rewrite !bg4_group_length by lia. rewrite !skipn_length.
  pose proof (quarters (length x)) as Q.
  destruct (length x) as [|[|[|n]]]; [reflexivity|reflexivity|reflexivity|].
  replace (S (S (S n)) - 0 + 3 - 0) with (S (S (S n)) + 3) by lia.
  replace (S (S (S n)) - 1 + 3 - 0) with (S (S (S n)) + 2) by lia.
  replace (S (S (S n)) - 2 + 3 - 0) with (S (S (S n)) + 1) by lia.
  replace (S (S (S n)) - 3 + 3 - 0) with (S (S (S n))) by lia.
  replace (S (S (S n)) + 3 - 0) with (S (S (S n)) + 3) in * by lia. lia.
Qed.

(* the group start offsets used by the pointer code are the lengths of the preceding groups *)
Lemma bg4_offsets_spec x : 
  bg4_offsets (length x) = (0, length (grp 0 x), length (grp 0 x) + length (grp 1 x), length (grp 0 x) + length (grp 1 x) + length (grp 2 x)).
Proof.
  unfold bg4_offsets, grp. rewrite !bg4_group_length by lia. rewrite !skipn_length.
  f_equal; [f_equal; [f_equal|]|]; lia.
Qed.

(* memory safety of the index arithmetic: every index the grouped buffer is accessed at is inside it *)
Theorem bg4_index_in_bounds n j : j < n -> bg4_index n j < n.
Proof.
  intros H. unfold bg4_index, bg4_offsets.
  destruct (j mod 4) as [|[|[|r]]] eqn:E; lia.
Qed.

Theorem bg4_regroup_split x : bg4_regroup (bg4_split x) = x.
Proof.
  unfold bg4_regroup. rewrite bg4_split_length.
  apply nth_ext with (d := 0%N) (d' := 0%N); [rewrite map_length, seq_length; reflexivity|].
  intros j Hj. rewrite map_length, seq_length in Hj.
  rewrite (nth_indep _ 0%N (nth (bg4_index (length x) 0) (bg4_split x) 0%N)) by (rewrite map_length, seq_length; lia).
  rewrite (map_nth (fun j => nth (bg4_index (length x) j) (bg4_split x) 0%N) (seq 0 (length x)) 0 j).
  rewrite seq_nth by lia. cbn [Nat.add].
  unfold bg4_index. rewrite (bg4_offsets_spec x).
  unfold bg4_split. fold (grp 1 x) (grp 2 x) (grp 3 x). change (bg4_group 0 x) with (grp 0 x).
  assert (L0 : length (grp 0 x) = (length x + 3) / 4) by (unfold grp; rewrite bg4_group_length, skipn_length by lia; f_equal; lia).
  assert (L1 : length (grp 1 x) = (length x + 2) / 4) by (unfold grp; rewrite bg4_group_length, skipn_length by lia; lia).
  assert (L2 : length (grp 2 x) = (length x + 1) / 4) by (unfold grp; rewrite bg4_group_length, skipn_length by lia; lia).
  assert (Hj4 : j = 4 * (j / 4) + j mod 4) by (apply Nat.div_mod; lia).
  destruct (j mod 4) as [|[|[|r]]] eqn:E.
  - rewrite app_nth1 by lia. rewrite grp_nth. f_equal. lia.
  - rewrite app_nth2 by lia. rewrite app_nth1 by lia. replace (length (grp 0 x) + j / 4 - length (grp 0 x)) with (j / 4) by lia.
    rewrite grp_nth. f_equal. lia.
  - rewrite app_nth2 by lia. rewrite app_nth2 by lia. rewrite app_nth1 by lia.
    replace (length (grp 0 x) + length (grp 1 x) + j / 4 - length (grp 0 x) - length (grp 1 x)) with (j / 4) by lia.
    rewrite grp_nth. f_equal. lia.
  - assert (r = 0) by lia. subst r.
    rewrite app_nth2 by lia. rewrite app_nth2 by lia. rewrite app_nth2 by lia.
    replace (length (grp 0 x) + length (grp 1 x) + length (grp 2 x) + j / 4 - length (grp 0 x) - length (grp 1 x) - length (grp 2 x)) with (j / 4) by lia.
    rewrite grp_nth. f_equal. lia.
Qed.
