(* The interpolation search over a sorted table of u64 keys (Model/Shard.v, Section Search), C09/C05: for EVERY probe
   function (the f64 estimate of the code, exact rationals, anything) the search terminates within its fuel and returns
   exactly the values stored under the key -- all of them, nothing else -- up to the caller's cap. *)
From Coq Require Import ZArith NArith Bool List Lia ZifyBool ZifyN ZifyNat Permutation Sorted.
Import ListNotations.
From XetModel Require Import Base.Codec Gen.ShardLayout Model.Merkle Model.Shard.
Open Scope N_scope.

Arguments N.add : simpl never.
Arguments N.sub : simpl never.
Arguments N.min : simpl never.
Arguments N.max : simpl never.
Arguments N.ltb : simpl never.
Arguments N.leb : simpl never.
Arguments N.eqb : simpl never.
Arguments N.compare : simpl never.
Arguments N.to_nat : simpl never.
Arguments N.of_nat : simpl never.

Section SearchCorrect.
  Context {V : Type}.
  Variable probe : N -> N -> N -> N -> N -> N.
  Variable tbl : list (N * V).
  Variable key : N.
  Hypothesis Hsorted : StronglySorted (fun a b => fst a <= fst b) tbl.

  Definition eqk (e : N * V) : bool := fst e =? key.
  Definition matching (l : list (N * V)) : list V := map snd (filter eqk l).
  Definition n : N := N.of_nat (length tbl).

  (* values at positions >= hi (1-based), resp. strictly between lo and hi *)
  Definition vals_ge (hi : N) : list V := matching (skipn (N.to_nat (hi - 1)) tbl).
  Definition vals_between (lo hi : N) : list V := matching (firstn (N.to_nat (hi - lo - 1)) (skipn (N.to_nat lo) tbl)).
  Definition below (lo : N) : Prop := forall i e, nth_error tbl i = Some e -> (i < N.to_nat lo)%nat -> fst e < key.

  Lemma in_firstn' {A} (l : list A) : forall m x, In x (firstn m l) -> In x l.
  Proof. induction l as [|y r IH]; intros [|m] x H; cbn [firstn] in H; try contradiction. destruct H as [<-|H]; [left; reflexivity | right; eapply IH; exact H]. Qed.

  Lemma matching_app a b : matching (a ++ b) = matching a ++ matching b.
  Proof. unfold matching. rewrite filter_app, map_app. reflexivity. Qed.

  (* sortedness of pieces, and order between positions *)
  Lemma sorted_skipn : forall k (l : list (N * V)), StronglySorted (fun a b => fst a <= fst b) l -> StronglySorted (fun a b => fst a <= fst b) (skipn k l).
  Proof.
    induction k as [|k IH]; intros l H; [exact H|]. destruct l as [|x r]; [constructor|]. cbn [skipn]. apply IH.
    apply StronglySorted_inv in H. tauto.
  Qed.
  Lemma sorted_nth : forall (l : list (N * V)), StronglySorted (fun a b => fst a <= fst b) l ->
    forall i j a b, (i <= j)%nat -> nth_error l i = Some a -> nth_error l j = Some b -> fst a <= fst b.
  Proof.
    induction l as [|x r IH]; intros H i j a b Hij Ha Hb; [destruct i; discriminate|].
    apply StronglySorted_inv in H as [Hr Hx]. destruct i as [|i], j as [|j]; cbn [nth_error] in *.
    - injection Ha as <-. injection Hb as <-. lia.
    - injection Ha as <-. rewrite Forall_forall in Hx. apply Hx. eapply nth_error_In. exact Hb.
    - lia.
    - eapply (IH Hr i j); eauto. lia.
  Qed.

  Lemma filter_none {A} (f : A -> bool) l : (forall e, In e l -> f e = false) -> filter f l = [].
  Proof. induction l as [|x r IH]; intro H; [reflexivity|]. cbn [filter]. rewrite (H x (or_introl eq_refl)). apply IH. intros e He. apply H. right. exact He. Qed.

  (* in a sorted list that starts at or above the key the matching entries are the leading run: read_ahead over the
     first m entries collects exactly the matching ones among them *)
  Lemma read_ahead_matching : forall (l : list (N * V)) m, StronglySorted (fun a b => fst a <= fst b) l ->
    (forall e, In e l -> key <= fst e) -> read_ahead key m l = matching (firstn m l).
  Proof.
    induction l as [|[k v] r IH]; intros m Hs Hge; [destruct m; reflexivity|].
    destruct m as [|m]; [reflexivity|]. cbn [read_ahead firstn]. unfold matching. cbn [filter]. change (eqk (k, v)) with (k =? key).
    apply StronglySorted_inv in Hs as [Hr Hx]. destruct (k =? key) eqn:E.
    - cbn [map snd]. f_equal. apply IH; [exact Hr | intros e He; apply Hge; right; exact He].
    - (* the first entry is larger than the key: so is every later one *)
      apply N.eqb_neq in E. assert (Hk : key < k) by (specialize (Hge (k, v) (or_introl eq_refl)); cbn [fst] in Hge; lia).
      rewrite filter_none; [reflexivity|]. intros e He. unfold eqk. apply N.eqb_neq. apply in_firstn' in He.
      rewrite Forall_forall in Hx. specialize (Hx e He). cbn [fst] in Hx. lia.
  Qed.

  (* the final window scan: in a sorted list whose entries before the first match are smaller, it appends exactly the
     matching values (it stops at the first larger key, after which nothing matches) *)
  Lemma scan_window_matching : forall (l : list (N * V)) m acc, StronglySorted (fun a b => fst a <= fst b) l ->
    scan_window key m l acc = acc ++ matching (firstn m l).
  Proof.
    induction l as [|[k v] r IH]; intros m acc Hs; [destruct m; cbn; rewrite app_nil_r; reflexivity|].
    destruct m as [|m]; [cbn; rewrite app_nil_r; reflexivity|]. cbn [scan_window firstn]. unfold matching. cbn [filter]. change (eqk (k, v)) with (k =? key).
    apply StronglySorted_inv in Hs as [Hr Hx]. destruct (N.compare_spec key k) as [E|E|E].
    - subst k. rewrite N.eqb_refl. rewrite (IH m (acc ++ [v]) Hr). unfold matching. cbn [map snd]. rewrite <- app_assoc. reflexivity.
    - (* a larger key: nothing matches from here on *)
      assert (E1 : (k =? key) = false) by (apply N.eqb_neq; lia). rewrite E1.
      rewrite filter_none; [cbn; rewrite app_nil_r; reflexivity|]. intros e He. unfold eqk. apply N.eqb_neq. apply in_firstn' in He.
      rewrite Forall_forall in Hx. specialize (Hx e He). cbn [fst] in Hx. lia.
    - assert (E1 : (k =? key) = false) by (apply N.eqb_neq; lia). rewrite E1. apply (IH m acc Hr).
  Qed.

  (* ---- positions ---- *)
  Lemma entry_some pi : 1 <= pi -> pi <= n -> exists e, entry tbl pi = Some e /\ nth_error tbl (N.to_nat (pi - 1)) = Some e.
  Proof.
    intros H1 H2. unfold entry. destruct (nth_error tbl (N.to_nat (pi - 1))) as [e|] eqn:E; [exists e; split; reflexivity|].
    apply nth_error_None in E. unfold n in H2. lia.
  Qed.

  Lemma skipn_cons_nth {A} (l : list A) : forall i x, nth_error l i = Some x -> skipn i l = x :: skipn (S i) l.
  Proof. induction l as [|y r IH]; intros [|i] x H; cbn in H; try discriminate; [injection H as ->; reflexivity | cbn [skipn]; apply IH; exact H]. Qed.

  Lemma skipn_skipn' {A} : forall a m (l : list A), skipn m (skipn a l) = skipn (a + m) l.
  Proof. induction a as [|a IH]; intros m l; [reflexivity|]. destruct l; [rewrite !skipn_nil; reflexivity | cbn [skipn plus]; apply IH]. Qed.

  (* the matching values from position pi on: those in [pi, hi) followed by those from hi on *)
  Lemma vals_ge_split pi hi : 1 <= pi -> pi <= hi ->
    vals_ge pi = matching (firstn (N.to_nat (hi - pi)) (skipn (N.to_nat (pi - 1)) tbl)) ++ vals_ge hi.
  Proof.
    intros H1 H2. unfold vals_ge. rewrite <- matching_app. f_equal.
    rewrite <- (firstn_skipn (N.to_nat (hi - pi)) (skipn (N.to_nat (pi - 1)) tbl)) at 1. f_equal.
    rewrite skipn_skipn'. f_equal. lia.
  Qed.

  Lemma after_ge i e : nth_error tbl i = Some e -> forall x, In x (skipn i tbl) -> fst e <= fst x.
  Proof.
    intros Hi x Hx. apply In_nth_error in Hx as [j Hj].
    assert (Hj' : nth_error tbl (i + j) = Some x).
    { clear -Hj. revert i Hj. induction tbl as [|y r IH]; intros [|i] Hj; cbn [skipn] in Hj; [destruct j; discriminate | destruct j; discriminate | exact Hj | cbn [plus nth_error]; apply IH; exact Hj]. }
    eapply (sorted_nth tbl Hsorted i (i + j)); eauto. lia.
  Qed.

  (* ---- the narrowing loop keeps its invariant, for every probe function ---- *)
  Lemma loop1_spec : forall fuel lo lo_key hi hi_key pi acc,
    (N.to_nat (hi - lo) <= fuel)%nat -> lo < hi -> hi <= n + 1 ->
    (lo + READ_WINDOW_SIZE < hi -> lo < pi /\ pi < hi) ->
    below lo -> Permutation acc (vals_ge hi) ->
    exists lo' hi' acc', loop1 probe tbl fuel key lo lo_key hi hi_key pi acc = Some (lo', hi', acc') /\
                         lo' < hi' /\ hi' <= n + 1 /\ below lo' /\ Permutation acc' (vals_ge hi').
  Proof.
    induction fuel as [|f IH]; intros lo lo_key hi hi_key pi acc Hfuel Hlh Hhi Hpi Hbelow Hacc.
    - cbn [loop1]. destruct (lo + READ_WINDOW_SIZE <? hi) eqn:G; [lia|]. eauto 10.
    - cbn [loop1]. destruct (lo + READ_WINDOW_SIZE <? hi) eqn:G; [|eauto 10].
      apply N.ltb_lt in G. destruct (Hpi G) as [P1 P2].
      destruct (entry_some pi) as (e & He & Hn); [lia | lia|]. rewrite He. destruct e as [pk pv].
      unfold READ_WINDOW_SIZE, EXPECTED_MAX_NUM_DUPLICATES in *.
      destruct (N.compare_spec key pk) as [E|E|E].
      + (* found: collect the run from pi, continue on the left *)
        subst pk. apply IH; try lia.
        * exact Hbelow.
        * rewrite (vals_ge_split pi hi) by lia.
          rewrite (skipn_cons_nth _ _ _ Hn). replace (N.to_nat (hi - pi)) with (S (N.to_nat (hi - pi - 1))) by lia.
          cbn [firstn]. unfold matching at 1. cbn [filter]. change (eqk (key, pv)) with (key =? key). rewrite N.eqb_refl. cbn [map snd].
          replace (S (N.to_nat (pi - 1))) with (N.to_nat pi) by lia.
          fold (matching (firstn (N.to_nat (hi - pi - 1)) (skipn (N.to_nat pi) tbl))).
          rewrite <- (read_ahead_matching (skipn (N.to_nat pi) tbl) (N.to_nat (hi - pi - 1))).
          -- cbn [app]. apply Permutation_trans with (l' := (pv :: read_ahead key (N.to_nat (hi - pi - 1)) (skipn (N.to_nat pi) tbl)) ++ acc).
             ++ apply Permutation_app_comm.
             ++ cbn [app]. constructor. apply Permutation_app_head. exact Hacc.
          -- apply sorted_skipn. exact Hsorted.
          -- intros x Hx. replace (N.to_nat pi) with (S (N.to_nat (pi - 1))) in Hx by lia.
             pose proof (after_ge _ _ Hn x) as A. cbn [fst] in A. apply A. rewrite (skipn_cons_nth _ _ _ Hn). right. exact Hx.
      + (* the probe is above the key: everything from pi on is larger *)
        apply IH; try lia.
        * intros G'. unfold clamp. destruct (pi <? _); lia.
        * exact Hbelow.
        * rewrite (vals_ge_split pi hi) by lia. unfold matching at 1. rewrite filter_none; [cbn [map app]; exact Hacc|].
          intros x Hx. apply in_firstn' in Hx. pose proof (after_ge _ _ Hn x Hx) as A. cbn [fst] in A. unfold eqk. apply N.eqb_neq. lia.
      + (* the probe is below the key: everything up to pi is smaller *)
        apply IH; try lia.
        * intros G'. unfold clamp. destruct (_ <=? _); lia.
        * intros i x Hi Hlt. assert (fst x <= pk); [|lia].
          change pk with (fst (pk, pv)). eapply (sorted_nth tbl Hsorted i (N.to_nat (pi - 1))); eauto. lia.
        * exact Hacc.
  Qed.

  (* ---- the search: every value stored under the key, nothing else, for every probe function ---- *)
  Theorem search_exact cap : (0 < cap)%nat ->
    exists l, search probe tbl cap key = Some (firstn cap l) /\ Permutation l (matching tbl).
  Proof.
    intro Hcap. unfold search. destruct cap as [|cap]; [lia|].
    set (hi := N.of_nat (length tbl) + 1).
    set (pi := clamp 0 hi (probe 0 0 hi u64max key)).
    destruct (loop1_spec (S (length tbl)) 0 0 hi u64max pi []) as (lo' & hi' & acc' & Hl & H1 & H2 & Hb & Hp).
    - unfold hi. lia.
    - unfold hi. lia.
    - unfold hi, n. lia.
    - intro G. unfold pi, clamp, hi, READ_WINDOW_SIZE in *. lia.
    - intros i e _ Hi. lia.
    - unfold vals_ge, hi. replace (N.to_nat (N.of_nat (length tbl) + 1 - 1)) with (length tbl) by lia. rewrite skipn_all. constructor.
    - rewrite Hl. eexists. split; [reflexivity|].
      rewrite scan_window_matching by (apply sorted_skipn; exact Hsorted).
      fold (vals_between lo' hi').
      assert (Hsplit : matching tbl = matching (firstn (N.to_nat lo') tbl) ++ vals_between lo' hi' ++ vals_ge hi').
      { unfold vals_between, vals_ge. rewrite <- !matching_app. f_equal. rewrite <- (firstn_skipn (N.to_nat lo') tbl) at 1. f_equal.
        rewrite <- (firstn_skipn (N.to_nat (hi' - lo' - 1)) (skipn (N.to_nat lo') tbl)) at 1. f_equal.
        rewrite skipn_skipn'. f_equal. lia. }
      assert (Hnone : matching (firstn (N.to_nat lo') tbl) = []).
      { unfold matching. rewrite filter_none; [reflexivity|]. intros e He. apply In_nth_error in He as [i Hi].
        assert (Hlt : (i < N.to_nat lo')%nat).
        { assert (i < length (firstn (N.to_nat lo') tbl))%nat by (apply nth_error_Some; congruence). rewrite firstn_length in H. lia. }
        assert (Hi' : nth_error tbl i = Some e).
        { clear -Hi Hlt. revert i Hi Hlt. generalize (N.to_nat lo') as m. induction tbl as [|y r IH]; intros m i Hi Hlt; [destruct m, i; discriminate|].
          destruct m as [|m]; [lia|]. destruct i as [|i]; cbn [firstn nth_error] in *; [exact Hi | eapply IH; eauto; lia]. }
        specialize (Hb i e Hi' Hlt). unfold eqk. apply N.eqb_neq. lia. }
      rewrite Hsplit, Hnone. cbn [app].
      apply Permutation_trans with (l' := vals_between lo' hi' ++ acc'); [apply Permutation_app_comm | apply Permutation_app_head; exact Hp].
  Qed.
End SearchCorrect.
