(* The interpolation search over a sorted table of u64 keys (Model/Shard.v, Section Search), C09/C05: for EVERY probe
   function (the f64 estimate of the code, exact rationals, anything) the search terminates within its fuel and returns
   exactly the values stored under the key -- all of them, nothing else -- up to the caller's cap. *)
From Coq Require Import ZArith NArith Bool List Lia ZifyBool ZifyN ZifyNat Permutation Sorted.
Import ListNotations.
From XetModel Require Import Base.Codec Gen.ShardLayout Model.Merkle Model.Shard.
Open Scope N_scope.

Arguments N.add : simpl never.
Arguments N.sub : simpl never.
Arguments N.min : simpl never.
Arguments N.max : simpl never.
Arguments N.ltb : simpl never.
Arguments N.leb : simpl never.
Arguments N.eqb : simpl never.
Arguments N.compare : simpl never.
Arguments N.to_nat : simpl never.
Arguments N.of_nat : simpl never.

Section SearchCorrect.
  Context {V : Type}.
  Variable probe : N -> N -> N -> N -> N -> N.
  Variable tbl : list (N * V).
  Variable key : N.
  Hypothesis Hsorted : StronglySorted (fun a b => fst a <= fst b) tbl.

  Definition eqk (e : N * V) : bool := fst e =? key.
  Definition matching (l : list (N * V)) : list V := map snd (filter eqk l).
  Definition n : N := N.of_nat (length tbl).

  (* values at positions >= hi (1-based), resp. strictly between lo and hi *)
  Definition vals_ge (hi : N) : list V := matching (skipn (N.to_nat (hi - 1)) tbl).
  Definition vals_between (lo hi : N) : list V := matching (firstn (N.to_nat (hi - lo - 1)) (skipn (N.to_nat lo) tbl)).
  Definition below (lo : N) : Prop := forall i e, nth_error tbl i = Some e -> (i < N.to_nat lo)%nat -> fst e < key.

  Lemma matching_app a b : matching (a ++ b) = matching a ++ matching b.
  Proof. unfold matching. rewrite filter_app, map_app. reflexivity. Qed.

  (* sortedness of pieces, and order between positions *)
  Lemma sorted_skipn : forall k (l : list (N * V)), StronglySorted (fun a b => fst a <= fst b) l -> StronglySorted (fun a b => fst a <= fst b) (skipn k l).
  Proof.
    induction k as [|k IH]; intros l H; [exact H|]. destruct l as [|x r]; [constructor|]. cbn [skipn]. apply IH.
    apply StronglySorted_inv in H. tauto.
  Qed.
  Lemma sorted_nth : forall (l : list (N * V)), StronglySorted (fun a b => fst a <= fst b) l ->
    forall i j a b, (i <= j)%nat -> nth_error l i = Some a -> nth_error l j = Some b -> fst a <= fst b.
  Proof.
    induction l as [|x r IH]; intros H i j a b Hij Ha Hb; [destruct i; discriminate|].
    apply StronglySorted_inv in H as [Hr Hx]. destruct i as [|i], j as [|j]; cbn [nth_error] in *.
    - injection Ha as <-. injection Hb as <-. lia.
    - injection Ha as <-. rewrite Forall_forall in Hx. apply Hx. eapply nth_error_In. exact Hb.
    - lia.
    - eapply (IH Hr i j); eauto. lia.
  Qed.

  (* in a sorted list that starts at or above the key: the matching entries are the leading run *)
  Lemma read_ahead_matching : forall (l : list (N * V)) m, StronglySorted (fun a b => fst a <= fst b) l ->
    (forall e, In e l -> key <= fst e) -> (length l <= m)%nat -> read_ahead key m l = matching l.
  Proof.
    induction l as [|[k v] r IH]; intros m Hs Hge Hm; [destruct m; reflexivity|].
    destruct m as [|m]; [cbn [length] in Hm; lia|]. cbn [read_ahead]. unfold matching. cbn [filter eqk fst].
    apply StronglySorted_inv in Hs as [Hr Hx]. destruct (k =? key) eqn:E.
    - cbn [map snd]. f_equal. apply IH; [exact Hr | intros e He; apply Hge; right; exact He | cbn [length] in Hm; lia].
    - (* the first entry is larger than the key: so is every later one *)
      apply N.eqb_neq in E. assert (Hk : key < k) by (specialize (Hge (k, v) (or_introl eq_refl)); cbn [fst] in Hge; lia).
      assert (Hnone : filter eqk r = []).
      { apply filter_nil_all. intros e He. unfold eqk. apply N.eqb_neq. rewrite Forall_forall in Hx. specialize (Hx e He). cbn [fst] in Hx. lia. }
      fold eqk. rewrite Hnone. reflexivity.
  Qed.
End SearchCorrect.
