(* File reconstruction (Model/Reconstruct.v), C17: the trimmed term is exactly the requested chunks; the sequential
   writer produces exactly the requested slice of the concatenated term data; the parallel writer's plan tiles the same
   slice, and its tasks write it whatever order they finish in. *)
From Coq Require Import ZArith NArith Bool List Lia ZifyBool ZifyN ZifyNat Permutation.
Import ListNotations.
From XetModel Require Import Base.Codec Model.Cache Model.Reconstruct Proofs.CacheProofs Proofs.CacheHitProofs.
Open Scope N_scope.

Arguments N.add : simpl never.
Arguments N.sub : simpl never.
Arguments N.min : simpl never.
Arguments N.ltb : simpl never.
Arguments N.leb : simpl never.
Arguments N.eqb : simpl never.
Arguments N.to_nat : simpl never.
Arguments N.of_nat : simpl never.

Lemma boundaries_cum chs : forall a, boundaries a chs = cum a chs.
Proof. induction chs as [|c r IH]; intro a; cbn [boundaries cum]; [reflexivity | rewrite IH; reflexivity]. Qed.

(* ---------------------------------------------------------------- trimming a fetched range to the term *)
Theorem trim_term_exact (fetched : list bytes) fs ts te :
  fs <= ts -> ts <= te -> te - fs <= lenN fetched ->
  let sub := firstn (N.to_nat (te - ts)) (skipn (N.to_nat (ts - fs)) fetched) in
  trim_term fetched fs ts te (lenN (concat sub)) = Some (concat sub).
Proof.
  intros H1 H2 H3 sub. unfold trim_term. rewrite boundaries_cum.
  destruct ((ts =? fs) && (te =? fs + lenN fetched)) eqn:E.
  - apply andb_true_iff in E as [E1 E2]. apply N.eqb_eq in E1, E2. subst ts.
    assert (Hs : sub = fetched).
    { unfold sub. replace (N.to_nat (fs - fs)) with O by lia. cbn [skipn]. apply firstn_all2. unfold lenN in *. lia. }
    rewrite Hs, N.eqb_refl. reflexivity.
  - set (si := N.to_nat (ts - fs)). set (ei := N.to_nat (te - fs)).
    assert (Hsi : (si <= length fetched)%nat) by (unfold si, lenN in *; lia).
    assert (Hei : (ei <= length fetched)%nat) by (unfold ei, lenN in *; lia).
    rewrite !nthN_nth_error. fold si ei. rewrite (cum_nth fetched 0 si Hsi), (cum_nth fetched 0 ei Hei).
    assert (Hn : (ei = si + N.to_nat (te - ts))%nat) by (unfold ei, si; lia).
    assert (Hsplit : concat (firstn ei fetched) = concat (firstn si fetched) ++ concat sub).
    { rewrite Hn. rewrite <- concat_app. f_equal. unfold sub. fold si.
      rewrite <- (firstn_skipn si (firstn (si + N.to_nat (te - ts)) fetched)). f_equal.
      - rewrite firstn_firstn. f_equal. lia.
      - rewrite skipn_firstn_comm. f_equal. lia. }
    assert (Hd : dropN (takeN (concat fetched) (0 + lenN (concat (firstn ei fetched)))) (0 + lenN (concat (firstn si fetched))) = concat sub).
    { rewrite dropN_skipn, takeN_firstn. unfold lenN. rewrite !N.add_0_l, !Nat2N.id.
      rewrite (concat_split fetched ei) at 1. rewrite firstn_app, firstn_all, Nat.sub_diag. cbn [firstn]. rewrite app_nil_r.
      rewrite Hsplit. rewrite skipn_app, skipn_all, Nat.sub_diag. reflexivity. }
    rewrite Hd, N.eqb_refl. reflexivity.
Qed.

(* ---------------------------------------------------------------- the sequential writer *)
Lemma takeN_app {A} (a b : list A) n : takeN (a ++ b) n = takeN a (N.min n (lenN a)) ++ takeN b (n - N.min n (lenN a)).
Proof.
  rewrite !takeN_firstn. rewrite firstn_app. unfold lenN. f_equal.
  - destruct (N.leb_spec n (N.of_nat (length a))) as [H|H].
    + rewrite N.min_l by exact H. reflexivity.
    + rewrite N.min_r by lia. rewrite Nat2N.id. rewrite firstn_all2 by lia. symmetry. apply firstn_all.
  - f_equal. lia.
Qed.

Lemma seq_write_rest terms : forall off rem, seq_write terms false off rem = Some (takeN (concat terms) rem).
Proof.
  induction terms as [|t r IH]; intros off rem; cbn [seq_write concat].
  - destruct rem; reflexivity.
  - assert (E : (N.min (rem + 0) (lenN t) <? 0) = false) by (apply N.ltb_ge; lia). rewrite E.
    rewrite IH. f_equal. rewrite takeN_app. f_equal.
    + replace (N.min (rem + 0) (lenN t) - 0) with (N.min rem (lenN t)) by lia.
      rewrite !takeN_firstn, !dropN_skipn. reflexivity.
    + f_equal. lia.
Qed.

(* the requested slice: [off] into the first term, [total] bytes in all *)
Theorem seq_write_exact t r off total :
  off <= lenN t ->
  seq_write (t :: r) true off total = Some (takeN (dropN (concat (t :: r)) off) total).
Proof.
  intro Ho. cbn [seq_write concat].
  assert (E : (N.min (total + off) (lenN t) <? off) = false) by (apply N.ltb_ge; lia). rewrite E.
  rewrite seq_write_rest. f_equal.
  assert (Hd : dropN (t ++ concat r) off = dropN t off ++ concat r).
  { rewrite !dropN_skipn. rewrite skipn_app. f_equal. unfold lenN in Ho. replace (N.to_nat off - length t)%nat with O by lia. reflexivity. }
  rewrite Hd, takeN_app. f_equal.
  - f_equal. unfold lenN. rewrite dropN_skipn, skipn_length. lia.
  - f_equal. unfold lenN. rewrite dropN_skipn, skipn_length. lia.
Qed.

(* the bytes written: the sequential writer reports [total]; that is what it wrote when the range lies inside the data *)
Corollary seq_write_length t r off total out :
  off <= lenN t -> off + total <= lenN (concat (t :: r)) -> seq_write (t :: r) true off total = Some out -> lenN out = total.
Proof.
  intros Ho Ht H. rewrite (seq_write_exact t r off total Ho) in H. injection H as <-. cbn [concat] in *.
  rewrite takeN_firstn, dropN_skipn. unfold lenN in *. rewrite firstn_length, skipn_length. lia.
Qed.

(* ---------------------------------------------------------------- the parallel writer *)
(* positioned writes into disjoint regions, in plan order, build the same bytes as the sequential writer *)
Fixpoint pieces (tasks : list (bytes * (N * N * N))) : bytes :=
  match tasks with
  | [] => []
  | (t, (s, e, _)) :: r => takeN (dropN t s) (e - s) ++ pieces r
  end.

Lemma write_at_end file data : write_at file (lenN file) data = file ++ data.
Proof.
  unfold write_at. replace (N.to_nat (lenN file - lenN file)) with O by lia. cbn [repeat]. rewrite app_nil_r.
  rewrite takeN_firstn, dropN_skipn. unfold lenN. rewrite Nat2N.id, firstn_all.
  rewrite skipn_all2 by lia. rewrite app_nil_r. reflexivity.
Qed.

(* the plan's file offsets are the running total of the piece lengths *)
Lemma par_plan_apply lens : forall terms first off rem written plan file,
  par_plan lens first off rem written = Some plan -> map lenN terms = lens -> lenN file = written ->
  par_apply file (combine terms plan) = Some (file ++ pieces (combine terms plan)).
Proof.
  induction lens as [|l r IH]; intros terms first off rem written plan file Hp Hl Hf; cbn [par_plan] in Hp.
  - injection Hp as <-. destruct terms; cbn; rewrite app_nil_r; reflexivity.
  - destruct terms as [|t ts]; [discriminate|]. cbn [map] in Hl. injection Hl as Hl1 Hl2.
    set (start := if first then off else 0) in *. set (e := N.min (start + rem) l) in *.
    destruct (e <? start) eqn:E; [discriminate|].
    destruct (par_plan r false off (rem - (e - start)) (written + (e - start))) as [rest|] eqn:Er; [|discriminate].
    injection Hp as <-. cbn [combine par_apply pieces].
    assert (Hle : (lenN t <? e) = false) by (apply N.ltb_ge; unfold e; lia). rewrite Hle.
    rewrite <- Hf, write_at_end.
    assert (Hlen : lenN (file ++ takeN (dropN t start) (e - start)) = written + (e - start)).
    { rewrite lenN_app, Hf. f_equal. rewrite takeN_firstn, dropN_skipn. unfold lenN. rewrite firstn_length, skipn_length.
      apply N.ltb_ge in E. unfold lenN in Hl1. unfold e in *. lia. }
    rewrite (IH ts false off _ _ rest _ Er Hl2 Hlen). rewrite <- app_assoc. reflexivity.
Qed.

(* the pieces of the plan are the pieces of the sequential writer *)
Lemma par_pieces_seq lens : forall terms first off rem written plan,
  par_plan lens first off rem written = Some plan -> map lenN terms = lens ->
  seq_write terms first off rem = Some (pieces (combine terms plan)).
Proof.
  induction lens as [|l r IH]; intros terms first off rem written plan Hp Hl; cbn [par_plan] in Hp.
  - injection Hp as <-. destruct terms; [reflexivity | discriminate].
  - destruct terms as [|t ts]; [discriminate|]. cbn [map] in Hl. injection Hl as Hl1 Hl2.
    set (start := if first then off else 0) in *. set (e := N.min (start + rem) l) in *.
    destruct (e <? start) eqn:E; [discriminate|].
    destruct (par_plan r false off (rem - (e - start)) (written + (e - start))) as [rest|] eqn:Er; [|discriminate].
    injection Hp as <-. cbn [combine pieces seq_write]. fold start.
    replace (N.min (rem + start) (lenN t)) with e by (unfold e; rewrite Hl1; f_equal; lia). rewrite E.
    rewrite (IH ts false off _ _ rest Er Hl2). reflexivity.
Qed.

Lemma flat_map_ext_in' {A B} (f g : A -> list B) l : (forall a, In a l -> f a = g a) -> flat_map f l = flat_map g l.
Proof. induction l as [|x r IH]; intro H; cbn [flat_map]; [reflexivity|]. rewrite (H x (or_introl eq_refl)), IH; [reflexivity|]. intros a Ha. apply H. right. exact Ha. Qed.

(* with the tasks finishing in plan order the parallel writer produces what the sequential writer produces *)
Theorem par_write_in_order_eq_seq terms off total out n :
  par_write terms (map lenN terms) off total (seq 0 (length terms)) = Some (out, n) ->
  seq_write terms true off total = Some out.
Proof.
  unfold par_write. destruct (par_plan (map lenN terms) true off total 0) as [plan|] eqn:Ep; [|discriminate].
  assert (Hlen : length plan = length terms).
  { clear -Ep. revert Ep. generalize 0 at 1. generalize total. generalize true. generalize (map_length lenN terms).
    generalize (map lenN terms) as lens. intros lens. revert terms plan. induction lens as [|l r IH]; intros terms plan Hl b rem w Hp; cbn [par_plan] in Hp.
    - injection Hp as <-. destruct terms; [reflexivity | discriminate].
    - destruct terms as [|t ts]; [discriminate|]. destruct (_ <? _); [discriminate|].
      destruct (par_plan r false off _ _) as [rest|] eqn:Er; [|discriminate]. injection Hp as <-. cbn [length]. f_equal.
      eapply IH; [|exact Er]. cbn [length] in Hl. lia. }
  assert (Hid : flat_map (fun i => match nth_error (combine terms plan) i with Some x => [x] | None => [] end) (seq 0 (length terms)) = combine terms plan).
  { assert (G : forall (A : Type) (l : list A) k, flat_map (fun i => match nth_error l (i - k) with Some x => [x] | None => [] end) (seq k (length l)) = l).
    { induction l as [|x l IHl]; intro k; cbn [length seq flat_map]; [reflexivity|]. rewrite Nat.sub_diag. cbn [nth_error app]. f_equal.
      rewrite <- (IHl (S k)) at 2. apply flat_map_ext_in'. intros a Ha. apply in_seq in Ha. replace (a - k)%nat with (S (a - S k)) by lia. reflexivity. }
    specialize (G _ (combine terms plan) O). rewrite combine_length, Hlen, Nat.min_id in G.
    etransitivity; [|exact G]. apply flat_map_ext_in'. intros a _. rewrite Nat.sub_0_r. reflexivity. }
  rewrite Hid. pose proof (par_plan_apply _ terms true off total 0 plan [] Ep eq_refl eq_refl) as Q. unfold bytes in *. rewrite Q. cbn [app].
  intro H. injection H as <- _. eapply par_pieces_seq; eauto.
Qed.

(* a concrete plan: three terms, entered 2 bytes into the first, 9 bytes wanted; any completion order gives the same file *)
Definition ex_terms : list bytes := [[1; 2; 3; 4; 5]; [6; 7; 8]; [9; 10; 11; 12]].
Lemma ex_reconstruct :
  seq_write ex_terms true 2 9 = Some [3; 4; 5; 6; 7; 8; 9; 10; 11] /\
  par_write ex_terms [5; 3; 4] 2 9 [0; 1; 2]%nat = Some ([3; 4; 5; 6; 7; 8; 9; 10; 11], 9) /\
  par_write ex_terms [5; 3; 4] 2 9 [2; 0; 1]%nat = Some ([3; 4; 5; 6; 7; 8; 9; 10; 11], 9) /\
  par_write ex_terms [5; 3; 4] 2 9 [1; 2; 0]%nat = Some ([3; 4; 5; 6; 7; 8; 9; 10; 11], 9).
Proof. vm_compute. repeat split; reflexivity. Qed.

(* ---------------------------------------------------------------- the order in which the tasks finish does not matter *)
Lemma write_at_length file pos data : length (write_at file pos data) = Nat.max (length file) (N.to_nat pos + length data).
Proof.
  unfold write_at. rewrite takeN_firstn, dropN_skipn. unfold lenN. rewrite !app_length, firstn_length, skipn_length, !app_length, repeat_length. lia.
Qed.

Lemma nth_app_pad (file : bytes) n i : nth i (file ++ repeat 0 n) 0 = nth i file 0.
Proof.
  destruct (Nat.lt_ge_cases i (length file)) as [H|H].
  - apply app_nth1. exact H.
  - rewrite app_nth2 by exact H. rewrite nth_repeat. symmetry. apply nth_overflow. exact H.
Qed.

Lemma nth_skipn' {A} (l : list A) d : forall n i, nth i (skipn n l) d = nth (n + i) l d.
Proof. induction l as [|x r IH]; intros [|n] i; cbn [skipn nth plus]; try reflexivity; [destruct i; reflexivity | apply IH]. Qed.
Lemma nth_firstn' {A} (l : list A) d : forall n i, (i < n)%nat -> nth i (firstn n l) d = nth i l d.
Proof. induction l as [|x r IH]; intros [|n] [|i] H; cbn [firstn nth]; try reflexivity; try lia. apply IH. lia. Qed.

Lemma write_at_nth file pos data i :
  nth i (write_at file pos data) 0 =
  if Nat.leb (N.to_nat pos) i && Nat.ltb i (N.to_nat pos + length data) then nth (i - N.to_nat pos) data 0 else nth i file 0.
Proof.
  unfold write_at. rewrite takeN_firstn, dropN_skipn. unfold lenN.
  set (P := N.to_nat pos). set (base := file ++ repeat 0 (N.to_nat (pos - N.of_nat (length file)))).
  assert (HB : (P <= length base)%nat) by (unfold base, P; rewrite app_length, repeat_length; lia).
  assert (Hf : length (firstn P base) = P) by (rewrite firstn_length; lia).
  replace (N.to_nat (pos + N.of_nat (length data))) with (P + length data)%nat by (unfold P; lia).
  destruct (Nat.leb_spec P i) as [H1|H1]; cbn [andb].
  - rewrite app_nth2 by lia. rewrite Hf. destruct (Nat.ltb_spec i (P + length data)) as [H2|H2].
    + apply app_nth1. lia.
    + rewrite app_nth2 by lia. rewrite nth_skipn'. replace (P + length data + (i - P - length data))%nat with i by lia.
      unfold base. apply nth_app_pad.
  - rewrite app_nth1 by lia. rewrite nth_firstn' by lia. unfold base. apply nth_app_pad.
Qed.

(* two writes into disjoint regions commute *)
Lemma write_at_comm file p1 d1 p2 d2 :
  (N.to_nat p1 + length d1 <= N.to_nat p2 \/ N.to_nat p2 + length d2 <= N.to_nat p1)%nat ->
  write_at (write_at file p1 d1) p2 d2 = write_at (write_at file p2 d2) p1 d1.
Proof.
  intro Hd. apply (nth_ext _ _ 0 0).
  - rewrite !write_at_length. lia.
  - intros i _. rewrite !write_at_nth.
    destruct (Nat.leb_spec (N.to_nat p2) i), (Nat.ltb_spec i (N.to_nat p2 + length d2)), (Nat.leb_spec (N.to_nat p1) i), (Nat.ltb_spec i (N.to_nat p1 + length d1)); cbn [andb]; try reflexivity; lia.
Qed.

Definition disjoint (a b : N * bytes) : Prop :=
  (N.to_nat (fst a) + length (snd a) <= N.to_nat (fst b) \/ N.to_nat (fst b) + length (snd b) <= N.to_nat (fst a))%nat.
Definition apply_writes (file : bytes) (ws : list (N * bytes)) : bytes := fold_left (fun f w => write_at f (fst w) (snd w)) ws file.

Lemma disjoint_sym a b : disjoint a b -> disjoint b a.
Proof. unfold disjoint. tauto. Qed.

(* pairwise disjoint writes: any order gives the same file, and pairwise disjointness does not depend on the order *)
Lemma apply_writes_perm ws ws' : Permutation ws ws' ->
  ForallOrdPairs disjoint ws -> ForallOrdPairs disjoint ws' /\ forall file, apply_writes file ws = apply_writes file ws'.
Proof.
  intro Hp. induction Hp as [|x l l' Hp IH|x y l|l l' l'' H1 IH1 H2 IH2]; intro Hd.
  - split; [exact Hd | reflexivity].
  - inversion Hd as [|? ? Hx Hl]; subst. destruct (IH Hl) as [A B]. split.
    + constructor; [eapply Permutation_Forall; eauto | exact A].
    + intro file. cbn [apply_writes fold_left]. apply B.
  - inversion Hd as [|? ? Hy Hrest]; subst. inversion Hy as [|? ? Hyx Hyl]; subst. inversion Hrest as [|? ? Hxl Hl]; subst. split.
    + constructor; [constructor; [apply disjoint_sym; exact Hyx | exact Hxl]|]. constructor; [exact Hyl | exact Hl].
    + intro file. cbn [apply_writes fold_left]. f_equal. apply write_at_comm. unfold disjoint in Hyx. lia.
  - destruct (IH1 Hd) as [A B]. destruct (IH2 A) as [C D]. split; [exact C|]. intro file. rewrite B. apply D.
Qed.

Definition piece (x : bytes * (N * N * N)) : N * bytes :=
  let '(t, (s, e, fo)) := x in (fo, takeN (dropN t s) (e - s)).
Definition task_ok (x : bytes * (N * N * N)) : Prop := let '(t, (s, e, _)) := x in e <= lenN t /\ s <= e.

Lemma par_apply_writes tasks : forall file, Forall task_ok tasks -> par_apply file tasks = Some (apply_writes file (map piece tasks)).
Proof.
  induction tasks as [|[t [[s e] fo]] r IH]; intros file Hok; [reflexivity|]. inversion Hok as [|? ? Hh Hr]; subst. cbn [task_ok] in Hh. destruct Hh as [H1 H2].
  cbn [par_apply map piece apply_writes fold_left fst snd].
  assert (E : (lenN t <? e) = false) by (apply N.ltb_ge; exact H1). rewrite E. apply IH. exact Hr.
Qed.

Lemma piece_length (t : bytes) s e : e <= lenN t -> s <= e -> length (takeN (dropN t s) (e - s)) = N.to_nat (e - s).
Proof. intros H1 H2. rewrite takeN_firstn, dropN_skipn, firstn_length, skipn_length. unfold lenN in H1. lia. Qed.

(* the plan: every task fits its term, the file offsets are the running totals, hence the regions are pairwise disjoint *)
Lemma par_plan_regions lens : forall terms first off rem written plan,
  par_plan lens first off rem written = Some plan -> map lenN terms = lens ->
  Forall task_ok (combine terms plan) /\
  Forall (fun w => (N.to_nat written <= N.to_nat (fst w))%nat) (map piece (combine terms plan)) /\
  ForallOrdPairs disjoint (map piece (combine terms plan)).
Proof.
  induction lens as [|l r IH]; intros terms first off rem written plan Hp Hl; cbn [par_plan] in Hp.
  - injection Hp as <-. destruct terms; cbn; repeat split; constructor.
  - destruct terms as [|t ts]; [discriminate|]. cbn [map] in Hl. injection Hl as Hl1 Hl2.
    set (start := if first then off else 0) in *. set (e := N.min (start + rem) l) in *.
    destruct (e <? start) eqn:E; [discriminate|]. apply N.ltb_ge in E.
    destruct (par_plan r false off (rem - (e - start)) (written + (e - start))) as [rest|] eqn:Er; [|discriminate].
    injection Hp as <-. destruct (IH ts false off _ _ rest Er Hl2) as (A & B & C). cbn [combine map piece].
    assert (Hfit : e <= lenN t) by (unfold e; lia).
    repeat split.
    + constructor; [split; assumption | exact A].
    + constructor; [cbn [fst]; lia|]. eapply Forall_impl; [|exact B]. cbn beta. intros w Hw. lia.
    + constructor; [|exact C]. eapply Forall_impl; [|exact B]. cbn beta. intros w Hw. unfold disjoint. cbn [fst snd]. left.
      rewrite (piece_length t start e Hfit E). lia.
Qed.

(* whatever order the tasks finish in, the parallel writer produces the same file and reports the same length *)
Theorem par_write_any_order terms off total order :
  Permutation order (seq 0 (length terms)) ->
  par_write terms (map lenN terms) off total order = par_write terms (map lenN terms) off total (seq 0 (length terms)).
Proof.
  intro Hperm. unfold par_write. destruct (par_plan (map lenN terms) true off total 0) as [plan|] eqn:Ep; [|reflexivity].
  destruct (par_plan_regions _ terms true off total 0 plan Ep eq_refl) as (Hok & _ & Hdis).
  set (tasks := combine terms plan) in *.
  set (sel := fun i : nat => match nth_error tasks i with Some x => [x] | None => [] end).
  assert (HP : Permutation (flat_map sel order) (flat_map sel (seq 0 (length terms)))) by (apply Permutation_flat_map; exact Hperm).
  assert (Hok1 : forall l, (forall x, In x l -> In x tasks) -> Forall task_ok l).
  { intros l Hin. apply Forall_forall. intros x Hx. rewrite Forall_forall in Hok. apply Hok, Hin, Hx. }
  assert (Hsub : forall l x, In x (flat_map sel l) -> In x tasks).
  { intros l x Hx. apply in_flat_map in Hx as (i & _ & Hi). unfold sel in Hi. destruct (nth_error tasks i) eqn:En; [|destruct Hi].
    destruct Hi as [<-|[]]. eapply nth_error_In. exact En. }
  rewrite (par_apply_writes (flat_map sel order) [] (Hok1 _ (Hsub order))).
  rewrite (par_apply_writes (flat_map sel (seq 0 (length terms))) [] (Hok1 _ (Hsub _))).
  (* the identity order lists every task once: its writes are pairwise disjoint; the other order is a permutation of them *)
  assert (Hlen : length plan = length terms).
  { clear -Ep. revert Ep. generalize 0 at 1. generalize total. generalize true. generalize (map_length lenN terms).
    generalize (map lenN terms) as lens. intros lens. revert terms plan. induction lens as [|l r IH]; intros terms plan Hl b rem w Hp; cbn [par_plan] in Hp.
    - injection Hp as <-. destruct terms; [reflexivity | discriminate].
    - destruct terms as [|t ts]; [discriminate|]. destruct (_ <? _); [discriminate|].
      destruct (par_plan r false off _ _) as [rest|] eqn:Er; [|discriminate]. injection Hp as <-. cbn [length]. f_equal.
      eapply IH; [|exact Er]. cbn [length] in Hl. lia. }
  assert (Hid : flat_map sel (seq 0 (length terms)) = tasks).
  { assert (G : forall (A : Type) (l : list A) k, flat_map (fun i => match nth_error l (i - k) with Some x => [x] | None => [] end) (seq k (length l)) = l).
    { induction l as [|x l IHl]; intro k; cbn [length seq flat_map]; [reflexivity|]. rewrite Nat.sub_diag. cbn [nth_error app]. f_equal.
      rewrite <- (IHl (S k)) at 2. apply flat_map_ext_in'. intros a Ha. apply in_seq in Ha. replace (a - k)%nat with (S (a - S k)) by lia. reflexivity. }
    specialize (G _ tasks O). unfold tasks in G at 2. rewrite combine_length, Hlen, Nat.min_id in G.
    etransitivity; [|exact G]. apply flat_map_ext_in'. intros a _. unfold sel. rewrite Nat.sub_0_r. reflexivity. }
  rewrite Hid in *.
  assert (HPm : Permutation (map piece tasks) (map piece (flat_map sel order))) by (apply Permutation_map; symmetry; exact HP).
  destruct (apply_writes_perm _ _ HPm Hdis) as [_ Heq]. rewrite <- (Heq []). reflexivity.
Qed.

