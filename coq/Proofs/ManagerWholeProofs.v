(* C05 / C11: the whole shard manager -- the in-memory shard in front of the registered shard files, with flushes (explicit,
   or triggered by the size target) moving the in-memory blocks into a registered file.  For every sequence of
   add_cas_block / add_file_reconstruction_info / flush / register_shards:
   - whatever chunk_hash_dedup_query reports is a real run of a block the manager was told about (added, or part of a
     registered shard, under that shard's key);
   - below the cap on indexed chunks, every chunk of every block ever added is found afterwards, whether its block is still
     in memory or was flushed, in whatever order the collections are asked. *)
From Coq Require Import ZArith NArith Bool List Lia ZifyBool ZifyN ZifyNat.
Import ListNotations.
From XetModel Require Import Base.Codec Gen.ShardLayout Gen.ShardFacts Gen.ManagerFacts Model.Merkle Model.Shard Model.Manager
  Proofs.CodecProofs Proofs.ShardProofs Proofs.DedupProofs Proofs.SetOpProofs Proofs.SetOpSortedProofs Proofs.KeyedProofs
  Proofs.ShardDedupWholeProofs Proofs.ShardSizeProofs Proofs.ManagerProofs.
Open Scope N_scope.

Arguments N.add : simpl never.
Arguments N.sub : simpl never.
Arguments N.mul : simpl never.
Arguments N.ltb : simpl never.
Arguments N.leb : simpl never.
Arguments N.eqb : simpl never.
Arguments N.modulo : simpl never.
Arguments N.of_nat : simpl never.
Arguments N.to_nat : simpl never.

(* ---- upd_nth ---- *)
Lemma in_upd_nth {A} (g : A -> A) : forall l i x, In x (upd_nth i g l) -> In x l \/ exists y, nth_error l i = Some y /\ x = g y.
Proof.
  induction l as [|a l IH]; intros i x H; [destruct i; destruct H|]. destruct i as [|i]; cbn [upd_nth] in H.
  - destruct H as [<-|H]; [right; exists a; split; reflexivity | left; right; exact H].
  - destruct H as [<-|H]; [left; left; reflexivity|]. destruct (IH i x H) as [H1|(y & H1 & H2)]; [left; right; exact H1 | right; exists y; split; assumption].
Qed.
Lemma upd_nth_has {A} (g : A -> A) : forall l i y, nth_error l i = Some y -> In (g y) (upd_nth i g l).
Proof.
  induction l as [|a l IH]; intros i y H; [destruct i; discriminate|]. destruct i as [|i]; cbn [upd_nth nth_error] in *.
  - injection H as ->. left. reflexivity.
  - right. apply IH. exact H.
Qed.
Lemma upd_nth_keeps {A} (g : A -> A) : forall l i x, In x l -> In x (upd_nth i g l) \/ nth_error l i = Some x.
Proof.
  induction l as [|a l IH]; intros i x H; [destruct H|]. destruct i as [|i]; cbn [upd_nth nth_error].
  - destruct H as [->|H]; [right; reflexivity | left; right; exact H].
  - destruct H as [->|H]; [left; left; reflexivity|]. destruct (IH i x H) as [H1|H1]; [left; right; exact H1 | right; exact H1].
Qed.

(* ---- what one registration does to the collections ---- *)
Section Register.
  Variables (cap : N) (b : book) (s : rshard).
  Let colls := match find_coll (sh_key s) (b_colls b) 0 with Some _ => b_colls b | None => b_colls b ++ [mkColl (sh_key s) [] []] end.
  Let ci := match find_coll (sh_key s) colls 0 with Some i => i | None => 0%nat end.
  Let g := fun c : coll => mkColl (k_key c) (k_shards c ++ [s]) (if b_total b <? cap then index_shard s (N.of_nat (length (k_shards c))) (k_lookup c) else k_lookup c).

  Lemma register_fresh_colls : existsb (bytes_eqb (sh_hash s)) (b_known b) = false -> b_colls (register cap b s) = upd_nth ci g colls.
  Proof. intro H. rewrite register_unfold. unfold register_with. rewrite H. reflexivity. Qed.
  Lemma register_known_same : existsb (bytes_eqb (sh_hash s)) (b_known b) = true -> register cap b s = b.
  Proof. intro H. rewrite register_unfold. unfold register_with. rewrite H. reflexivity. Qed.

  Lemma colls_in c : In c colls -> In c (b_colls b) \/ c = mkColl (sh_key s) [] [].
  Proof. unfold colls. destruct (find_coll (sh_key s) (b_colls b) 0); [auto|]. intro H. apply in_app_or in H as [H|[<-|[]]]; auto. Qed.
  Lemma colls_keep c : In c (b_colls b) -> In c colls.
  Proof. unfold colls. destruct (find_coll (sh_key s) (b_colls b) 0); [auto|]. intro H. apply in_or_app. left. exact H. Qed.
  Lemma colls_ci : exists c0, nth_error colls ci = Some c0 /\ k_key c0 = sh_key s.
  Proof.
    unfold ci, colls. destruct (find_coll (sh_key s) (b_colls b) 0) as [i|] eqn:E.
    - rewrite E. destruct (find_coll_spec _ _ _ _ E) as (_ & c & A & B). rewrite Nat.sub_0_r in A. exists c. auto.
    - rewrite (find_coll_app (sh_key s) (mkColl (sh_key s) [] []) eq_refl _ _ E). exists (mkColl (sh_key s) [] []). split; [|reflexivity].
      cbn [plus]. rewrite nth_error_app2 by lia. rewrite Nat.sub_diag. reflexivity.
  Qed.

  (* shards afterwards: the old ones, and s *)
  Lemma register_shards_from c' s' : In c' (b_colls (register cap b s)) -> In s' (k_shards c') ->
    s' = s \/ exists c, In c (b_colls b) /\ k_key c = k_key c' /\ In s' (k_shards c).
  Proof.
    destruct (existsb (bytes_eqb (sh_hash s)) (b_known b)) eqn:E.
    - rewrite (register_known_same E). intros H1 H2. right. exists c'. auto.
    - rewrite (register_fresh_colls E). intros H1 H2. apply in_upd_nth in H1 as [H1|(y & H1 & ->)].
      + apply colls_in in H1 as [H1| ->]; [right; exists c'; auto | destruct H2].
      + cbn [g k_shards k_key] in *. apply in_app_or in H2 as [H2|[<-|[]]]; [|left; reflexivity].
        apply nth_error_In in H1. apply colls_in in H1 as [H1| ->]; [right; exists y; auto | destruct H2].
  Qed.
  Lemma register_shards_keep c s' : In c (b_colls b) -> In s' (k_shards c) ->
    exists c', In c' (b_colls (register cap b s)) /\ k_key c' = k_key c /\ In s' (k_shards c').
  Proof.
    destruct (existsb (bytes_eqb (sh_hash s)) (b_known b)) eqn:E.
    - rewrite (register_known_same E). intros H1 H2. exists c. auto.
    - rewrite (register_fresh_colls E). intros H1 H2. apply colls_keep in H1. destruct (upd_nth_keeps g colls ci c H1) as [H3|H3].
      + exists c. auto.
      + exists (g c). split; [apply upd_nth_has; exact H3|]. split; [reflexivity|]. cbn [g k_shards]. apply in_or_app. left. exact H2.
  Qed.
  Lemma register_fresh_present : existsb (bytes_eqb (sh_hash s)) (b_known b) = false ->
    exists c', In c' (b_colls (register cap b s)) /\ k_key c' = sh_key s /\ In s (k_shards c').
  Proof.
    intro E. rewrite (register_fresh_colls E). destruct colls_ci as (c0 & A & B). exists (g c0). split; [apply upd_nth_has; exact A|].
    split; [exact B|]. cbn [g k_shards]. apply in_or_app. right. left. reflexivity.
  Qed.
  Lemma register_known_from h : In h (b_known (register cap b s)) -> h = sh_hash s \/ In h (b_known b).
  Proof.
    rewrite register_unfold. unfold register_with. destruct (existsb _ _); [auto|]. cbv zeta. cbn [b_known]. intros [<-|H]; auto.
  Qed.
  Lemma register_count c' : In c' (b_colls (register cap b s)) -> forall n, (forall c, In c (b_colls b) -> (length (k_shards c) <= n)%nat) -> (length (k_shards c') <= S n)%nat.
  Proof.
    intros H n Hn. destruct (register_shards_count cap b s c' H) as (m & Hm & [(c & Hc & <-)| ->]); [specialize (Hn c Hc); lia | lia].
  Qed.
End Register.

(* ---- the in-memory lookup ---- *)
Definition LkOk (l : list (N * (cas_info * N))) : Prop :=
  forall k c i, In (k, (c, i)) l -> exists ch, nth_error (ci_chunks c) (N.to_nat i) = Some ch /\ k = hkey (ce_hash ch).

Lemma lk_add_chunks_in c : forall chs i l x, In x (lk_add_chunks c chs i l) ->
  In x l \/ exists j ch, nth_error chs j = Some ch /\ x = (hkey (ce_hash ch), (c, i + N.of_nat j)).
Proof.
  induction chs as [|ch r IH]; intros i l x H; cbn [lk_add_chunks] in H; [left; exact H|].
  destruct (IH _ _ _ H) as [[<-|H1]|(j & ch' & A & ->)].
  - right. exists 0%nat, ch. split; [reflexivity|]. f_equal. f_equal. lia.
  - left. exact H1.
  - right. exists (S j), ch'. split; [exact A|]. f_equal. f_equal. lia.
Qed.
Lemma lk_find_in : forall l k v, lk_find k l = Some v -> In (k, v) l.
Proof.
  induction l as [|[k' v'] r IH]; intros k v H; cbn [lk_find] in H; [discriminate|]. destruct (k =? k') eqn:E.
  - apply N.eqb_eq in E. injection H as <-. subst. left. reflexivity.
  - right. apply IH. exact H.
Qed.
Lemma lk_find_cons_keeps k k' v l : lk_find k l <> None -> lk_find k ((k', v) :: l) <> None.
Proof. intro H. cbn [lk_find]. destruct (k =? k'); [discriminate | exact H]. Qed.
Lemma lk_add_keeps c k : forall chs i l, lk_find k l <> None -> lk_find k (lk_add_chunks c chs i l) <> None.
Proof. induction chs as [|ch r IH]; intros i l H; cbn [lk_add_chunks]; [exact H|]. apply IH. apply lk_find_cons_keeps. exact H. Qed.
Lemma lk_add_has c : forall chs i l ch, In ch chs -> lk_find (hkey (ce_hash ch)) (lk_add_chunks c chs i l) <> None.
Proof.
  induction chs as [|ch0 r IH]; intros i l ch H; [destruct H|]. cbn [lk_add_chunks]. destruct H as [->|H].
  - apply lk_add_keeps. cbn [lk_find]. rewrite N.eqb_refl. discriminate.
  - apply IH. exact H.
Qed.

Lemma add_cas_lk_ok ra m c : LkOk (ms_lookup m) -> LkOk (ms_lookup (add_cas_block ra m c)).
Proof.
  intros H k c' i Hin. unfold add_cas_block in Hin. cbn [ms_lookup] in Hin. apply lk_add_chunks_in in Hin as [Hin|(j & ch & A & E)]; [apply H; exact Hin|].
  injection E as -> -> ->. exists ch. split; [|reflexivity]. replace (N.to_nat (0 + N.of_nat j)) with j by lia. exact A.
Qed.

Lemma ins_cas_keeps c : forall l x, In x l -> In x (ins_cas c l) \/ hash_cmp (ci_hash c) (ci_hash x) = Eq.
Proof.
  induction l as [|y l IH]; intros x H; [destruct H|]. cbn [ins_cas]. destruct (hash_cmp (ci_hash c) (ci_hash y)) eqn:E.
  - destruct H as [->|H]; [right; exact E | left; right; exact H].
  - left. right. exact H.
  - destruct H as [->|H]; [left; left; reflexivity|]. destruct (IH x H) as [H1|H1]; [left; right; exact H1 | right; exact H1].
Qed.
Lemma ins_cas_has c : forall l, In c (ins_cas c l).
Proof. induction l as [|y l IH]; cbn [ins_cas]; [left; reflexivity|]. destruct (hash_cmp _ _); [left; reflexivity | left; reflexivity | right; exact IH]. Qed.
Lemma ins_cas_from c : forall l x, In x (ins_cas c l) -> x = c \/ In x l.
Proof.
  induction l as [|y l IH]; intros x H; cbn [ins_cas] in H; [destruct H as [<-|[]]; left; reflexivity|].
  destruct (hash_cmp _ _); [destruct H as [<-|H]; [left; reflexivity | right; right; exact H] | destruct H as [<-|H]; [left; reflexivity | right; exact H]|].
  destruct H as [<-|H]; [right; left; reflexivity|]. destruct (IH x H) as [->|H1]; [left; reflexivity | right; right; exact H1].
Qed.

Lemma hkey_inj a b : bhash a -> bhash b -> hkey a = hkey b -> a = b.
Proof. intros [La Ba] [Lb Bb] H. apply le_val_inj; [congruence | exact Ba | exact Bb | exact H]. Qed.

Lemma match_run_hit ch tl q0 qr : ce_hash ch = q0 -> exists r rr, match_run (ch :: tl) (q0 :: qr) = r :: rr.
Proof. intros <-. cbn [match_run]. rewrite bytes_eqb_refl. eexists. eexists. reflexivity. Qed.

Lemma skipn_nth {A} : forall (l : list A) m x, nth_error l m = Some x -> exists tl, skipn m l = x :: tl.
Proof.
  induction l as [|y l IH]; intros [|m] x H; cbn [nth_error] in H; try discriminate.
  - injection H as ->. exists l. reflexivity.
  - cbn [skipn]. apply IH. exact H.
Qed.

(* the in-memory query answers for a chunk its lookup knows, with a run of at least one chunk *)
Lemma mem_query_hit m q0 qr : LkOk (ms_lookup m) -> bhash q0 ->
  (forall k c i ch, In (k, (c, i)) (ms_lookup m) -> In ch (ci_chunks c) -> bhash (ce_hash ch)) ->
  lk_find (hkey q0) (ms_lookup m) <> None -> exists n sg, mem_dedup_query m (q0 :: qr) = Some (n, sg) /\ 1 <= n.
Proof.
  intros Hok Hq Hb Hf. unfold mem_dedup_query. destruct (lk_find (hkey q0) (ms_lookup m)) as [[c start]|] eqn:E; [|congruence].
  apply lk_find_in in E. destruct (Hok _ _ _ E) as (ch & Hn & Hk).
  assert (Heq : ce_hash ch = q0). { symmetry. apply hkey_inj; [exact Hq | eapply Hb; [exact E | eapply nth_error_In; exact Hn] | exact Hk]. }
  destruct (skipn_nth _ _ _ Hn) as [tl ->]. destruct (match_run_hit ch tl q0 qr Heq) as (r & rr & ->).
  eexists. eexists. split; [reflexivity|]. cbn [length]. lia.
Qed.

(* ---- the invariant of the whole manager ---- *)
(* what the manager was told: a block added, or a block of a registered shard (under that shard's key) *)
Definition Told (ops : list gop) (key : hash) (blk : cas_info) : Prop :=
  (key = zero_hash /\ In (MAddCas blk) ops) \/ (exists s, In (MRegister s) ops /\ key = sh_key s /\ In blk (sh_cass s)).
Lemma Told_app ops more key blk : Told ops key blk -> Told (ops ++ more) key blk.
Proof. intros [[A B]|(s & A & B)]; [left; split; [exact A | apply in_or_app; left; exact B] | right; exists s; split; [apply in_or_app; left; exact A | exact B]]. Qed.

(* identities: registered shards carry 32-byte hashes, flushed ones the model's counter *)
Definition KnownOk (g : mgr) : Prop := forall h, In h (b_known (g_book g)) -> length h = 32%nat \/ exists k, h = [k; 1] /\ k < g_flushes g.

Record GInv (ops : list gop) (g : mgr) : Prop := {
  gi_book : BookOk (g_book g);
  gi_count : forall c, In c (b_colls (g_book g)) -> (length (k_shards c) <= length ops)%nat;
  gi_told : forall c s blk, In c (b_colls (g_book g)) -> In s (k_shards c) -> In blk (sh_cass s) -> Told ops (sh_key s) blk;
  gi_lk : LkOk (ms_lookup (g_mem g));
  gi_lk_told : forall k c i, In (k, (c, i)) (ms_lookup (g_mem g)) -> In (MAddCas c) ops;
  gi_cass_told : forall c, In c (ms_cass (g_mem g)) -> In (MAddCas c) ops;
  gi_known : KnownOk g }.

Lemma GInv_init : GInv [] mgr0.
Proof.
  constructor; cbn.
  - constructor; [|constructor]. split; cbn; intros x [].
  - intros c [<-|[]]. cbn. lia.
  - intros c s blk [<-|[]] [].
  - intros k c i [].
  - intros k c i [].
  - intros c [].
  - intros h [].
Qed.

Definition shards_ok (ops : list gop) : Prop := forall s, In (MRegister s) ops -> length (sh_hash s) = 32%nat.

Lemma GInv_weaken ops more g : GInv ops g -> GInv (ops ++ more) g.
Proof.
  intros [A B C D E F G]. constructor; try assumption.
  - intros c Hc. specialize (B c Hc). rewrite app_length. lia.
  - intros c s blk H1 H2 H3. apply Told_app. eapply C; eauto.
  - intros k c i H. apply in_or_app. left. eapply E; eauto.
  - intros c H. apply in_or_app. left. apply F. exact H.
Qed.

(* registering a shard the manager is told about in this step *)
Lemma GInv_register cap ops g s o mem fl : GInv ops g -> N.of_nat (S (length ops)) <= 65536 ->
  (forall blk, In blk (sh_cass s) -> Told (ops ++ [o]) (sh_key s) blk) ->
  (length (sh_hash s) = 32%nat \/ exists k, sh_hash s = [k; 1] /\ k < fl) -> g_flushes g <= fl ->
  LkOk (ms_lookup mem) -> (forall k c i, In (k, (c, i)) (ms_lookup mem) -> In (MAddCas c) (ops ++ [o])) -> (forall c, In c (ms_cass mem) -> In (MAddCas c) (ops ++ [o])) ->
  GInv (ops ++ [o]) (mkMgr mem (register cap (g_book g) s) fl).
Proof.
  intros [A B C D E F G] Hlen Hs Hid Hfl HD HE HF. constructor; cbn [g_book g_mem g_flushes]; try assumption.
  - apply register_ok; [exact A|]. intros c Hc. specialize (B c Hc). lia.
  - intros c' Hc'. rewrite app_length. cbn [length]. pose proof (register_count cap (g_book g) s c' Hc' (length ops) B). lia.
  - intros c' s' blk H1 H2 H3. destruct (register_shards_from cap (g_book g) s c' s' H1 H2) as [->|(c & Hc & _ & Hs')].
    + apply Hs. exact H3.
    + apply Told_app. eapply C; eauto.
  - intros h Hh. cbn [g_book g_flushes] in *. apply register_known_from in Hh as [->|Hh].
    + destruct Hid as [Hid|(k & Hk1 & Hk2)]; [left; exact Hid | right; exists k; split; [exact Hk1 | exact Hk2]].
    + destruct (G h Hh) as [H1|(k & H1 & H2)]; [left; exact H1 | right; exists k; split; [exact H1 | lia]].
Qed.

(* the in-memory shard replaced, the book untouched *)
Lemma GInv_mem ops g o mem : GInv ops g ->
  LkOk (ms_lookup mem) -> (forall k c i, In (k, (c, i)) (ms_lookup mem) -> In (MAddCas c) (ops ++ [o])) -> (forall c, In c (ms_cass mem) -> In (MAddCas c) (ops ++ [o])) ->
  GInv (ops ++ [o]) (mkMgr mem (g_book g) (g_flushes g)).
Proof.
  intros [A B C D E F G] HD HE HF. constructor; cbn [g_book g_mem g_flushes]; try assumption.
  - intros c Hc. specialize (B c Hc). rewrite app_length. lia.
  - intros c s blk H1 H2 H3. apply Told_app. eapply C; eauto.
Qed.

Lemma GInv_flush cap ops g o mem : GInv ops g -> N.of_nat (S (length ops)) <= 65536 ->
  LkOk (ms_lookup mem) -> (forall k c i, In (k, (c, i)) (ms_lookup mem) -> In (MAddCas c) (ops ++ [o])) -> (forall c, In c (ms_cass mem) -> In (MAddCas c) (ops ++ [o])) ->
  GInv (ops ++ [o]) (mgr_flush cap (mkMgr mem (g_book g) (g_flushes g))).
Proof.
  intros H Hlen HD HE HF. unfold mgr_flush. cbn [g_mem g_book g_flushes]. destruct (mem_is_empty mem).
  - apply GInv_mem; assumption.
  - apply GInv_register; try assumption.
    + intros blk Hb. left. split; [reflexivity|]. apply HF. exact Hb.
    + right. exists (g_flushes g). split; [reflexivity | lia].
    + lia.
    + intros k c i [].
    + intros k c i [].
    + intros c [].
Qed.


Lemma GInv_step ra cap target ops g o : GInv ops g -> N.of_nat (S (length ops)) <= 65536 -> (forall s, o = MRegister s -> length (sh_hash s) = 32%nat) ->
  GInv (ops ++ [o]) (mgr_step ra cap target g o).
Proof.
  intros H Hlen Ho. pose proof H as [A B C D E F G]. destruct o as [c|f| |s]; cbn [mgr_step].
  - unfold mgr_add_cas. cbv zeta. cbn [g_mem].
    assert (HD : LkOk (ms_lookup (add_cas_block ra (g_mem g) c))) by (apply add_cas_lk_ok; exact D).
    assert (HE : forall k c' i, In (k, (c', i)) (ms_lookup (add_cas_block ra (g_mem g) c)) -> In (MAddCas c') (ops ++ [MAddCas c])).
    { intros k c' i Hin. unfold add_cas_block in Hin. cbn [ms_lookup] in Hin. apply lk_add_chunks_in in Hin as [Hin|(j & ch & _ & Eq)].
      - apply in_or_app. left. eapply E; eauto.
      - injection Eq as _ -> _. apply in_or_app. right. left. reflexivity. }
    assert (HF : forall c', In c' (ms_cass (add_cas_block ra (g_mem g) c)) -> In (MAddCas c') (ops ++ [MAddCas c])).
    { intros c' Hin. unfold add_cas_block in Hin. cbn [ms_cass] in Hin. apply ins_cas_from in Hin as [->|Hin]; apply in_or_app; [right; left; reflexivity | left; apply F; exact Hin]. }
    destruct (target <=? _); [apply GInv_flush; assumption | apply GInv_mem; assumption].
  - unfold mgr_add_file. cbv zeta. cbn [g_mem]. unfold add_file_info at 1.
    assert (HE : forall k c' i, In (k, (c', i)) (ms_lookup (g_mem g)) -> In (MAddCas c') (ops ++ [MAddFile f])) by (intros; apply in_or_app; left; eapply E; eauto).
    assert (HF : forall c', In c' (ms_cass (g_mem g)) -> In (MAddCas c') (ops ++ [MAddFile f])) by (intros; apply in_or_app; left; apply F; assumption).
    cbn [ms_size ms_files ms_cass ms_lookup shard_file_size].
    destruct (target <=? _); [apply (GInv_flush cap ops g (MAddFile f) (add_file_info ra (g_mem g) f)); assumption | apply (GInv_mem ops g (MAddFile f) (add_file_info ra (g_mem g) f)); assumption].
  - destruct g as [mem bk fl]. apply (GInv_flush cap ops (mkMgr mem bk fl) MFlush mem); try assumption.
    + intros k c' i Hin. apply in_or_app. left. eapply E; eauto.
    + intros c' Hin. apply in_or_app. left. apply F. exact Hin.
  - unfold mgr_register. apply GInv_register; try assumption.
    + intros blk Hb. right. exists s. split; [apply in_or_app; right; left; reflexivity | auto].
    + left. apply Ho. reflexivity.
    + lia.
    + intros k c' i Hin. apply in_or_app. left. eapply E; eauto.
    + intros c' Hin. apply in_or_app. left. apply F. exact Hin.
Qed.

Lemma mgr_run_snoc ra cap target ops o : mgr_run ra cap target (ops ++ [o]) = mgr_step ra cap target (mgr_run ra cap target ops) o.
Proof. unfold mgr_run. rewrite fold_left_app. reflexivity. Qed.

Theorem GInv_run ra cap target : forall ops, shards_ok ops -> N.of_nat (length ops) <= 65536 -> GInv ops (mgr_run ra cap target ops).
Proof.
  induction ops as [|o ops IH] using rev_ind; intros Hs Hlen; [apply GInv_init|]. rewrite mgr_run_snoc. rewrite app_length in Hlen. cbn [length] in Hlen.
  apply GInv_step.
  - apply IH; [intros s Hin; apply Hs; apply in_or_app; left; exact Hin | lia].
  - lia.
  - intros s ->. apply Hs. apply in_or_app. right. left. reflexivity.
Qed.

(* ---- truthfulness of the whole manager ---- *)
Theorem mgr_dedup_truthful ra cap target ops qs : shards_ok ops -> N.of_nat (length ops) <= 65536 -> qs <> [] ->
  let g := mgr_run ra cap target ops in
  exists r, mgr_dedup g qs = Found r /\
    forall n sg, r = Some (n, sg) -> 1 <= n -> exists key blk, Told ops key blk /\ truthful key blk qs n sg.
Proof.
  intros Hs Hlen Hq g. pose proof (GInv_run ra cap target ops Hs Hlen) as [A B C D E F G]. fold g in A, B, C, D, E, F, G.
  unfold mgr_dedup. destruct (mem_dedup_query (g_mem g) qs) as [[n sg]|] eqn:Em.
  - exists (Some (n, sg)). split; [reflexivity|]. intros n' sg' Eq Hn. injection Eq as <- <-.
    destruct (mem_query_truthful _ _ _ _ Em Hn) as (c & Hc & Ht). apply in_map_iff in Hc as ([k [c' i]] & Ec & Hin). cbn [fst snd] in Ec. subst c'.
    exists zero_hash, c. split; [left; split; [reflexivity | eapply E; exact Hin] | exact Ht].
  - destruct (colls_query_truthful qs Hq (b_colls (g_book g)) A) as (r & Er & Hr). exists r. split; [exact Er|].
    intros n sg Eq _. destruct (Hr n sg Eq) as (c & s & blk & H1 & H2 & H3 & H4). exists (sh_key s), blk. split; [eapply C; eauto|].
    unfold BookOk in A. rewrite Forall_forall in A. destruct (A c H1) as [_ Hk]. rewrite (Hk s H2). exact H4.
Qed.

(* ---- completeness of the whole manager below the cap ---- *)
Definition blocks_ok (ops : list gop) : Prop :=
  (forall blk, In (MAddCas blk) ops -> bhash (ci_hash blk) /\ Forall (fun ch => bhash (ce_hash ch)) (ci_chunks blk)) /\
  (forall b1 b2, In (MAddCas b1) ops -> In (MAddCas b2) ops -> ci_hash b1 = ci_hash b2 -> b1 = b2).

Definition InMem (g : mgr) (blk : cas_info) : Prop :=
  In blk (ms_cass (g_mem g)) /\ forall ch, In ch (ci_chunks blk) -> lk_find (hkey (ce_hash ch)) (ms_lookup (g_mem g)) <> None.
Definition InFile (bk : book) (blk : cas_info) : Prop :=
  exists c s, In c (b_colls bk) /\ k_key c = zero_hash /\ In s (k_shards c) /\ In blk (sh_cass s).
Definition Covered (ops : list gop) (g : mgr) : Prop := forall blk, In (MAddCas blk) ops -> InMem g blk \/ InFile (g_book g) blk.

Lemma InFile_register cap bk s blk : InFile bk blk -> InFile (register cap bk s) blk.
Proof.
  intros (c & s' & A & B & C & D). destruct (register_shards_keep cap bk s c s' A C) as (c' & A' & B' & C'). exists c', s'. repeat split; try assumption. congruence.
Qed.

Lemma known_fresh g : KnownOk g -> existsb (bytes_eqb [g_flushes g; 1]) (b_known (g_book g)) = false.
Proof.
  intro H. destruct (existsb _ _) eqn:E; [|reflexivity]. apply existsb_exists in E as (h & Hin & Eb). apply bytes_eqb_eq in Eb. subst h.
  destruct (H _ Hin) as [Hl|(k & Hk & Hlt)]; [discriminate Hl | injection Hk as Hk; lia].
Qed.

Lemma mem_empty_cass m : mem_is_empty m = true -> ms_cass m = [].
Proof. unfold mem_is_empty. destruct (ms_cass m); [reflexivity | discriminate]. Qed.

(* a flush keeps every added block covered: what was in memory is in the new file *)
Lemma Covered_flush cap ops g : KnownOk g -> Covered ops g -> Covered ops (mgr_flush cap g).
Proof.
  intros Hk H blk Hb. unfold mgr_flush. destruct (mem_is_empty (g_mem g)) eqn:Ee; [apply H; exact Hb|]. right. cbn [g_book].
  destruct (H blk Hb) as [[Hin _]|Hf]; [|apply InFile_register; exact Hf].
  destruct (register_fresh_present cap (g_book g) (flushed_shard g) (known_fresh g Hk)) as (c' & A & B & C). exists c', (flushed_shard g). repeat split; assumption.
Qed.

Lemma Covered_add_cas ra ops g c : blocks_ok (ops ++ [MAddCas c]) -> (forall blk, In blk (ms_cass (g_mem g)) -> In (MAddCas blk) ops) ->
  Covered ops g -> Covered (ops ++ [MAddCas c]) (mkMgr (add_cas_block ra (g_mem g) c) (g_book g) (g_flushes g)).
Proof.
  intros [Hb1 Hb2] HF H blk Hb. apply in_app_or in Hb as [Hb|[Eq|[]]].
  - destruct (H blk Hb) as [[Hin Hlk]|Hf]; [left | right; exact Hf]. unfold InMem, add_cas_block. cbn [g_mem ms_cass ms_lookup]. split.
    + destruct (ins_cas_keeps c _ _ Hin) as [H1|H1]; [exact H1|].
      assert (Hc : In (MAddCas c) (ops ++ [MAddCas c])) by (apply in_or_app; right; left; reflexivity).
      assert (Hbl : In (MAddCas blk) (ops ++ [MAddCas c])) by (apply in_or_app; left; exact Hb).
      apply hash_cmp_eq_iff in H1; [|apply Hb1; exact Hc | apply Hb1; exact Hbl]. rewrite <- (Hb2 c blk Hc Hbl H1). apply ins_cas_has.
    + intros ch Hch. apply lk_add_keeps. apply Hlk. exact Hch.
  - injection Eq as <-. left. unfold InMem, add_cas_block. cbn [g_mem ms_cass ms_lookup]. split; [apply ins_cas_has|]. intros ch Hch. apply lk_add_has. exact Hch.
Qed.

Lemma Covered_other ops g o mem bk fl : (forall c, o <> MAddCas c) -> Covered ops g ->
  ms_cass mem = ms_cass (g_mem g) -> ms_lookup mem = ms_lookup (g_mem g) -> (forall blk, InFile (g_book g) blk -> InFile bk blk) ->
  Covered (ops ++ [o]) (mkMgr mem bk fl).
Proof.
  intros Ho H E1 E2 Hf blk Hb. apply in_app_or in Hb as [Hb|[Eq|[]]]; [|exfalso; eapply Ho; exact Eq].
  destruct (H blk Hb) as [[A B]|A]; [left; unfold InMem; cbn [g_mem]; rewrite E1, E2; split; assumption | right; apply Hf; exact A].
Qed.

Lemma Covered_step ra cap target ops g o : GInv ops g -> blocks_ok (ops ++ [o]) -> Covered ops g -> Covered (ops ++ [o]) (mgr_step ra cap target g o).
Proof.
  intros HG Hb H. destruct o as [c|f| |s]; cbn [mgr_step].
  - unfold mgr_add_cas. cbv zeta. pose proof (Covered_add_cas ra ops g c Hb (gi_cass_told _ _ HG) H) as H'.
    destruct (target <=? _); [|exact H']. apply Covered_flush; [|exact H']. intros h Hh. cbn [g_book g_flushes] in *. exact (gi_known _ _ HG h Hh).
  - unfold mgr_add_file. cbv zeta.
    assert (H' : Covered (ops ++ [MAddFile f]) (mkMgr (add_file_info ra (g_mem g) f) (g_book g) (g_flushes g))) by (apply Covered_other with (g := g); [intro; discriminate | exact H | reflexivity | reflexivity | auto]).
    destruct (target <=? _); [|exact H']. apply Covered_flush; [|exact H']. intros h Hh. cbn [g_book g_flushes] in *. exact (gi_known _ _ HG h Hh).
  - apply Covered_flush; [exact (gi_known _ _ HG)|]. destruct g as [mem bk fl]. apply Covered_other with (g := mkMgr mem bk fl); [intro; discriminate | exact H | reflexivity | reflexivity | auto].
  - unfold mgr_register. apply Covered_other with (g := g); [intro; discriminate | exact H | reflexivity | reflexivity |]. intros blk. apply InFile_register.
Qed.

Lemma blocks_ok_prefix ops o : blocks_ok (ops ++ [o]) -> blocks_ok ops.
Proof. intros [A B]. split; [intros blk H; apply A; apply in_or_app; left; exact H | intros b1 b2 H1 H2; apply B; apply in_or_app; left; assumption]. Qed.

Theorem Covered_run ra cap target : forall ops, shards_ok ops -> N.of_nat (length ops) <= 65536 -> blocks_ok ops -> Covered ops (mgr_run ra cap target ops).
Proof.
  induction ops as [|o ops IH] using rev_ind; intros Hs Hlen Hb; [intros blk []|]. rewrite mgr_run_snoc. rewrite app_length in Hlen. cbn [length] in Hlen.
  assert (Hs' : shards_ok ops) by (intros s Hin; apply Hs; apply in_or_app; left; exact Hin).
  apply Covered_step; [apply GInv_run; [exact Hs' | lia] | exact Hb | apply IH; [exact Hs' | lia | eapply blocks_ok_prefix; exact Hb]].
Qed.

(* the counter never decreases, so a run that ends below the cap was below it at every registration *)
Lemma flush_total_mono cap g : b_total (g_book g) <= b_total (g_book (mgr_flush cap g)).
Proof. unfold mgr_flush. destruct (mem_is_empty _); [lia|]. cbn [g_book]. apply register_total_mono. Qed.
Lemma step_total_mono ra cap target g o : b_total (g_book g) <= b_total (g_book (mgr_step ra cap target g o)).
Proof.
  destruct o as [c|f| |s]; cbn [mgr_step].
  - unfold mgr_add_cas. cbv zeta. destruct (target <=? _); [|cbn [g_book]; lia]. eapply N.le_trans; [|apply flush_total_mono]. cbn [g_book]. lia.
  - unfold mgr_add_file. cbv zeta. destruct (target <=? _); [|cbn [g_book]; lia]. eapply N.le_trans; [|apply flush_total_mono]. cbn [g_book]. lia.
  - apply flush_total_mono.
  - unfold mgr_register. cbn [g_book]. apply register_total_mono.
Qed.

Lemma flush_full cap g : Forall CollFull (b_colls (g_book g)) -> b_total (g_book g) < cap -> Forall CollFull (b_colls (g_book (mgr_flush cap g))).
Proof. intros H Hc. unfold mgr_flush. destruct (mem_is_empty _); [exact H|]. cbn [g_book]. apply register_full; assumption. Qed.
Lemma step_full ra cap target g o : Forall CollFull (b_colls (g_book g)) -> b_total (g_book g) < cap -> Forall CollFull (b_colls (g_book (mgr_step ra cap target g o))).
Proof.
  intros H Hc. destruct o as [c|f| |s]; cbn [mgr_step].
  - unfold mgr_add_cas. cbv zeta. destruct (target <=? _); [|exact H]. apply flush_full; assumption.
  - unfold mgr_add_file. cbv zeta. destruct (target <=? _); [|exact H]. apply flush_full; assumption.
  - apply flush_full; assumption.
  - unfold mgr_register. cbn [g_book]. apply register_full; assumption.
Qed.
Theorem Full_run ra cap target : forall ops, b_total (g_book (mgr_run ra cap target ops)) < cap -> Forall CollFull (b_colls (g_book (mgr_run ra cap target ops))).
Proof.
  induction ops as [|o ops IH] using rev_ind; intro H; [constructor; [intros s []|constructor]|]. rewrite mgr_run_snoc in *.
  pose proof (step_total_mono ra cap target (mgr_run ra cap target ops) o). apply step_full; [apply IH; lia | lia].
Qed.

Lemma mem_query_pos m q0 qr n sg : LkOk (ms_lookup m) -> bhash q0 ->
  (forall k c i ch, In (k, (c, i)) (ms_lookup m) -> In ch (ci_chunks c) -> bhash (ce_hash ch)) ->
  mem_dedup_query m (q0 :: qr) = Some (n, sg) -> 1 <= n.
Proof.
  intros Hok Hq Hb H. assert (Hf : lk_find (hkey q0) (ms_lookup m) <> None).
  { unfold mem_dedup_query in H. destruct (lk_find _ _); [discriminate | discriminate H]. }
  destruct (mem_query_hit m q0 qr Hok Hq Hb Hf) as (n' & sg' & E & Hn). rewrite E in H. injection H as <- <-. exact Hn.
Qed.

(* C11: below the cap, every chunk of every block ever added is found afterwards -- from memory while its block is there, from
   the flushed file after that -- when no two different chunk hashes of the unkeyed collection share their first 64 bits *)
Theorem added_chunk_found ra cap target ops : shards_ok ops -> N.of_nat (length ops) <= 65536 -> blocks_ok ops ->
  let g := mgr_run ra cap target ops in b_total (g_book g) < cap ->
  (forall c, In c (b_colls (g_book g)) -> k_key c = zero_hash -> NoTruncClash c) ->
  forall blk j ch qr, In (MAddCas blk) ops -> nth_error (ci_chunks blk) j = Some ch -> N.of_nat j <= 65535 ->
  exists n sg, mgr_dedup g (ce_hash ch :: qr) = Found (Some (n, sg)) /\ 1 <= n.
Proof.
  intros Hs Hlen Hb g Hcap Hclash blk j ch qr Hin Hn Hj.
  pose proof (GInv_run ra cap target ops Hs Hlen) as HG. fold g in HG.
  pose proof (Covered_run ra cap target ops Hs Hlen Hb) as HC. fold g in HC.
  pose proof (Full_run ra cap target ops Hcap) as HF. fold g in HF.
  assert (Hch : In ch (ci_chunks blk)) by (eapply nth_error_In; exact Hn).
  assert (Hq : bhash (ce_hash ch)). { destruct Hb as [Hb _]. destruct (Hb blk Hin) as [_ Hb']. rewrite Forall_forall in Hb'. apply Hb'. exact Hch. }
  assert (Hlb : forall k c i ch', In (k, (c, i)) (ms_lookup (g_mem g)) -> In ch' (ci_chunks c) -> bhash (ce_hash ch')).
  { intros k c i ch' H1 H2. destruct Hb as [Hb _]. destruct (Hb c (gi_lk_told _ _ HG _ _ _ H1)) as [_ Hb']. rewrite Forall_forall in Hb'. apply Hb'. exact H2. }
  unfold mgr_dedup. destruct (mem_dedup_query (g_mem g) (ce_hash ch :: qr)) as [[n sg]|] eqn:Em.
  - exists n, sg. split; [reflexivity|]. eapply mem_query_pos; [exact (gi_lk _ _ HG) | exact Hq | exact Hlb | exact Em].
  - destruct (HC blk Hin) as [[_ Hlk]|(c & s & H1 & H2 & H3 & H4)].
    + exfalso. destruct (mem_query_hit (g_mem g) (ce_hash ch) qr (gi_lk _ _ HG) Hq Hlb (Hlk ch Hch)) as (n & sg & E & _). congruence.
    + destruct (book_chunk_found (g_book g) (gi_book _ _ HG) HF c s blk j ch (ce_hash ch) qr H1 H3 H4 Hn Hj) as (n & sg & E).
      * rewrite H2, keyed_zero. reflexivity.
      * apply Hclash; assumption.
      * exists n, sg. split; [exact E|].
        assert (Hne : ce_hash ch :: qr <> []) by discriminate.
        destruct (colls_query_truthful (ce_hash ch :: qr) Hne (b_colls (g_book g)) (gi_book _ _ HG)) as (r & Er & Hr).
        unfold mgr_query in E. rewrite E in Er. injection Er as <-. destruct (Hr n sg eq_refl) as (c0 & s0 & blk0 & _ & _ & _ & Ht). destruct Ht as [Ht _]. exact Ht.
Qed.

(* ---- non-vacuity: a block added, flushed by the size target, another added; chunks of both are found ---- *)
Definition wx_b1 : cas_info := mkCI (repeat 7 32%nat) 0 30 30 [dx_ch 11 10; dx_ch 12 20].
Definition wx_b2 : cas_info := mkCI (repeat 8 32%nat) 0 70 70 [dx_ch 13 30; dx_ch 14 40].
Definition wx_ops : list gop := [MAddCas wx_b1; MFlush; MAddCas wx_b2].
Example wx_found :
  (exists n sg, mgr_dedup (mgr_run true 100 1000000 wx_ops) [repeat 12 32%nat; repeat 99 32%nat] = Found (Some (n, sg)) /\ 1 <= n)
  /\ (exists n sg, mgr_dedup (mgr_run true 100 1000000 wx_ops) [repeat 14 32%nat] = Found (Some (n, sg)) /\ 1 <= n)
  /\ length (b_known (g_book (mgr_run true 100 1000000 wx_ops))) = 1%nat.
Proof. vm_compute. repeat split; eexists; eexists; (split; [reflexivity | discriminate]). Qed.
