(* the name a shard is stored under -- the hex of the hash of its content, ".mdb" -- matches the pattern the readers look for,
   for every content; hence `final (shard_name m) = true` in the consolidation theorems needs no premise *)
From Coq Require Import ZArith NArith Bool List Lia ZifyBool ZifyN ZifyNat.
Import ListNotations.
From XetModel Require Import Base.Codec Gen.HashConsts Model.Blake3 Model.Merkle Model.Shard Model.Crash Proofs.HashProofs Proofs.MerkleInjProofs Proofs.CrashProofs.
Open Scope N_scope.
Ltac Zify.zify_post_hook ::= Z.div_mod_to_equations.

Lemma hexdigit_is_hex d : d < 16 -> is_hex_digit (hexdigit d) = true.
Proof. intro H. unfold is_hex_digit, hexdigit. destruct (d <? 10) eqn:E; lia. Qed.
Lemma hex_byte_is_hex b : b < 256 -> forallb is_hex_digit (hex_byte b) = true.
Proof.
  intro H. unfold hex_byte. cbn [forallb]. rewrite !hexdigit_is_hex; [reflexivity | |].
  - apply N.mod_lt. discriminate.
  - apply N.div_lt_upper_bound; [discriminate | lia].
Qed.
Lemma hex_all_hex h : length h = 32%nat -> Forall (fun b => b < 256) h -> forallb is_hex_digit (hex h) = true.
Proof.
  intros L B. rewrite hex_is_flat_map. pose proof (word_rev_forall _ h L B) as W. induction W as [|b r Hb _ IH]; [reflexivity|].
  cbn [flat_map]. rewrite forallb_app, IH, hex_byte_is_hex by exact Hb. reflexivity.
Qed.
Theorem shard_name_is_final c : is_shard_final (shard_name c) = true.
Proof.
  unfold is_shard_final, shard_name, compute_data_hash. destruct (keyed_hash_wf DATA_KEY c) as [L B].
  pose proof (hex_length _ L) as HL. set (x := hex (keyed_hash DATA_KEY c)) in *.
  assert (E1 : firstn 64 (x ++ MDB_SUFFIX) = x) by (rewrite firstn_app, HL, Nat.sub_diag, firstn_O, app_nil_r; apply firstn_all2; lia).
  assert (E2 : skipn 64 (x ++ MDB_SUFFIX) = MDB_SUFFIX) by (rewrite skipn_app, HL, Nat.sub_diag, skipn_O, skipn_all2 by lia; reflexivity).
  rewrite E1, E2, app_length, HL. unfold x. rewrite hex_all_hex by assumption. rewrite name_eqb_refl. reflexivity.
Qed.
