(* C09: the in-memory shard's size accounting equals the length of what it serialises to.  The counter kept by
   add_cas_block / add_file_reconstruction_info (with the generated facts: an overwritten record's size is subtracted;
   chunk-table entries are counted per occurrence) is the sum of the per-record costs, and that sum plus the fixed parts
   is the length of serialize_from. *)
From Coq Require Import ZArith NArith Bool List Lia ZifyBool ZifyN ZifyNat Sorted.
Import ListNotations.
From XetModel Require Import Base.Codec Gen.ShardLayout Gen.ShardFacts Model.Merkle Model.Shard Proofs.CodecProofs Proofs.ShardProofs Proofs.DedupProofs
  Proofs.SetOpProofs Proofs.SetOpSortedProofs Proofs.ShardWholeProofs Proofs.ShardDedupWholeProofs.
Open Scope N_scope.

Arguments N.add : simpl never.
Arguments N.sub : simpl never.
Arguments N.mul : simpl never.
Arguments N.div : simpl never.
Arguments N.ltb : simpl never.
Arguments N.leb : simpl never.
Arguments N.eqb : simpl never.
Arguments N.to_nat : simpl never.
Arguments N.of_nat : simpl never.

Definition sumf (l : list file_info) : N := fold_right (fun f a => file_entry_cost f + a) 0 l.
Definition sumc (l : list cas_info) : N := fold_right (fun c a => cas_entry_cost c + a) 0 l.

(* equal keys = equal hashes, for 32-byte hashes of byte values *)
Definition bhash (h : hash) : Prop := length h = 32%nat /\ Forall (fun b => b < 256) h.
Lemma le_val_inj : forall a b, length a = length b -> Forall (fun x => x < 256) a -> Forall (fun x => x < 256) b -> le_val a = le_val b -> a = b.
Proof.
  induction a as [|x a IH]; intros [|y b] L Ha Hb E; try discriminate; [reflexivity|]. inversion Ha; inversion Hb; subst.
  unfold le_val in E. cbn [fold_right] in E. fold (le_val a) (le_val b) in E.
  assert (x = y /\ le_val a = le_val b) as [-> E2] by lia. f_equal. apply IH; try assumption. cbn [length] in L. lia.
Qed.
Lemma base256_8_inj a0 a1 a2 a3 a4 a5 a6 a7 b0 b1 b2 b3 b4 b5 b6 b7 :
  a0 < 256 -> a1 < 256 -> a2 < 256 -> a3 < 256 -> a4 < 256 -> a5 < 256 -> a6 < 256 -> a7 < 256 ->
  b0 < 256 -> b1 < 256 -> b2 < 256 -> b3 < 256 -> b4 < 256 -> b5 < 256 -> b6 < 256 -> b7 < 256 ->
  a0 + 256 * (a1 + 256 * (a2 + 256 * (a3 + 256 * (a4 + 256 * (a5 + 256 * (a6 + 256 * (a7 + 256 * 0))))))) =
  b0 + 256 * (b1 + 256 * (b2 + 256 * (b3 + 256 * (b4 + 256 * (b5 + 256 * (b6 + 256 * (b7 + 256 * 0))))))) ->
  [a0; a1; a2; a3; a4; a5; a6; a7] = [b0; b1; b2; b3; b4; b5; b6; b7].
Proof.
  intros. assert (L : le_val [a0; a1; a2; a3; a4; a5; a6; a7] = le_val [b0; b1; b2; b3; b4; b5; b6; b7]) by (unfold le_val; cbn [fold_right]; assumption).
  apply le_val_inj in L; [exact L | reflexivity | repeat constructor; assumption | repeat constructor; assumption].
Qed.
Lemma hwords_inj a b : bhash a -> bhash b -> hwords a = hwords b -> a = b.
Proof.
  intros [La Ba] [Lb Bb] E. unfold hwords in E.
  do 32 (destruct a as [|? a]; [discriminate La|]). destruct a; [|discriminate La].
  do 32 (destruct b as [|? b]; [discriminate Lb|]). destruct b; [|discriminate Lb].
  cbn [firstn skipn] in E. injection E as E1 E2 E3 E4.
  repeat match goal with H : Forall _ (_ :: _) |- _ => inversion H; clear H; subst end.
  apply base256_8_inj in E1; try assumption. apply base256_8_inj in E2; try assumption.
  apply base256_8_inj in E3; try assumption. apply base256_8_inj in E4; try assumption.
  injection E1 as -> -> -> -> -> -> -> ->. injection E2 as -> -> -> -> -> -> -> ->. injection E3 as -> -> -> -> -> -> -> ->. injection E4 as -> -> -> -> -> -> -> ->.
  reflexivity.
Qed.
Lemma hash_cmp_eq_iff a b : bhash a -> bhash b -> (hash_cmp a b = Eq <-> a = b).
Proof. intros Ha Hb. split; [intro H; apply hwords_inj; try assumption; apply hash_cmp_eq; exact H | intros ->; unfold hash_cmp; apply wc_refl]. Qed.

Section Generic.
  Context {T : Type}.
  Variables (h : T -> hash) (cost : T -> N).
  Fixpoint gins (x : T) (l : list T) : list T :=
    match l with
    | [] => [x]
    | g :: r => match hash_cmp (h x) (h g) with Lt => x :: l | Eq => x :: r | Gt => g :: gins x r end
    end.
  Fixpoint gfind (k : hash) (l : list T) : option T :=
    match l with [] => None | g :: r => if bytes_eqb k (h g) then Some g else gfind k r end.
  Definition gsum (l : list T) : N := fold_right (fun x a => cost x + a) 0 l.

  Lemma gfind_none_lt x l : bhash (h x) -> Forall (fun g => bhash (h g)) l -> Forall (klt h x) l -> gfind (h x) l = None.
  Proof.
    intros Hx. induction l as [|g r IH]; intros Hb Hl; [reflexivity|]. inversion Hb; inversion Hl; subst. cbn [gfind].
    destruct (bytes_eqb (h x) (h g)) eqn:E; [|apply IH; assumption]. apply bytes_eqb_eq in E. exfalso.
    match goal with H : klt h x g |- _ => unfold klt, gkey in H; rewrite E, wc_refl in H; discriminate end.
  Qed.

  Lemma gins_spec x : bhash (h x) -> forall l, Forall (fun g => bhash (h g)) l -> KSorted h l ->
    KSorted h (gins x l) /\ Forall (fun g => bhash (h g)) (gins x l) /\
    gsum (gins x l) + (match gfind (h x) l with Some o => cost o | None => 0 end) = gsum l + cost x /\
    (forall z, In z (gins x l) -> z = x \/ In z l).
  Proof.
    intros Hx. induction l as [|g r IH]; intros Hb HS.
    - cbn [gins gfind gsum fold_right]. split; [constructor; constructor|]. split; [constructor; [exact Hx | constructor]|]. split; [lia|].
      intros z [<-|[]]. left. reflexivity.
    - inversion Hb as [|? ? Hg Hr]; subst. inversion HS as [|? ? Sr Sall]; subst. cbn [gins gfind]. unfold hash_cmp. fold (gkey h x) (gkey h g).
      destruct (words_cmp (gkey h x) (gkey h g)) eqn:E.
      + (* same key: g is replaced *)
        assert (Eh : h x = h g) by (apply hwords_inj; try assumption; apply words_cmp_eq; exact E).
        rewrite Eh, bytes_eqb_refl. repeat split.
        * constructor; [exact Sr|]. eapply Forall_impl; [|exact Sall]. intros z Hz. unfold klt, gkey in *. rewrite Eh. exact Hz.
        * constructor; assumption.
        * cbn [gsum fold_right]. lia.
        * intros z [<-|Hz]; [left; reflexivity | right; right; exact Hz].
      + (* x goes in front: nothing with its key in the list *)
        assert (Hall : Forall (klt h x) (g :: r)).
        { constructor; [exact E|]. eapply Forall_impl; [|exact Sall]. intros z Hz. eapply wc_trans; [exact E | exact Hz]. }
        destruct (bytes_eqb (h x) (h g)) eqn:Eb; [exfalso; apply bytes_eqb_eq in Eb; unfold gkey in E; rewrite Eb, wc_refl in E; discriminate|].
        rewrite (gfind_none_lt x r Hx Hr); [|inversion Hall; assumption]. repeat split.
        * constructor; [exact HS | exact Hall].
        * constructor; [exact Hx | exact Hb].
        * cbn [gsum fold_right]. lia.
        * intros z [<-|Hz]; [left; reflexivity | right; exact Hz].
      + apply wc_gt_lt in E. destruct (IH Hr Sr) as (I1 & I2 & I3 & I4).
        destruct (bytes_eqb (h x) (h g)) eqn:Eb; [exfalso; apply bytes_eqb_eq in Eb; unfold gkey in E; rewrite Eb, wc_refl in E; discriminate|].
        repeat split.
        * constructor; [exact I1|]. apply Forall_forall. intros z Hz. destruct (I4 z Hz) as [->|Hz']; [exact E|]. rewrite Forall_forall in Sall. apply Sall. exact Hz'.
        * constructor; assumption.
        * unfold gsum in *. cbn [fold_right]. lia.
        * intros z [<-|Hz]; [right; left; reflexivity|]. destruct (I4 z Hz) as [->|Hz']; [left; reflexivity | right; right; exact Hz'].
  Qed.
End Generic.

Lemma ins_file_is_gins : forall f l, ins_file f l = gins fi_hash f l.
Proof. induction l as [|g r IH]; [reflexivity|]. cbn [ins_file gins]. rewrite IH. reflexivity. Qed.
Lemma ins_cas_is_gins : forall c l, ins_cas c l = gins ci_hash c l.
Proof. induction l as [|g r IH]; [reflexivity|]. cbn [ins_cas gins]. rewrite IH. reflexivity. Qed.
Lemma find_file_is_gfind : forall k l, find_file k l = gfind fi_hash k l.
Proof. induction l as [|g r IH]; [reflexivity|]. cbn [find_file gfind]. rewrite IH. reflexivity. Qed.
Lemma find_cas_is_gfind : forall k l, find_cas k l = gfind ci_hash k l.
Proof. induction l as [|g r IH]; [reflexivity|]. cbn [find_cas gfind]. rewrite IH. reflexivity. Qed.

(* the invariant of the in-memory shard *)
Record MInv (m : mshard) : Prop := {
  mi_fs : KSorted fi_hash (ms_files m);
  mi_cs : KSorted ci_hash (ms_cass m);
  mi_fb : Forall (fun f => bhash (fi_hash f)) (ms_files m);
  mi_cb : Forall (fun c => bhash (ci_hash c)) (ms_cass m);
  mi_size : ms_size m = sumf (ms_files m) + sumc (ms_cass m) }.

Lemma MInv_empty : MInv ms_empty.
Proof. constructor; cbn; try constructor. Qed.

Lemma add_file_inv m f : MInv m -> bhash (fi_hash f) -> MInv (add_file_info true m f).
Proof.
  intros [A B C D E] Hf. unfold add_file_info. rewrite ins_file_is_gins, find_file_is_gfind.
  destruct (gins_spec fi_hash file_entry_cost f Hf (ms_files m) C A) as (I1 & I2 & I3 & _).
  constructor; cbn [ms_files ms_cass ms_size]; try assumption. unfold sumf, sumc, gsum in *.
  destruct (gfind fi_hash (fi_hash f) (ms_files m)); lia.
Qed.
Lemma add_cas_inv m c : MInv m -> bhash (ci_hash c) -> MInv (add_cas_block true m c).
Proof.
  intros [A B C D E] Hc. unfold add_cas_block. rewrite ins_cas_is_gins, find_cas_is_gfind.
  destruct (gins_spec ci_hash cas_entry_cost c Hc (ms_cass m) D B) as (I1 & I2 & I3 & _).
  constructor; cbn [ms_files ms_cass ms_size]; try assumption. unfold sumf, sumc, gsum in *.
  destruct (gfind ci_hash (ci_hash c) (ms_cass m)); lia.
Qed.

(* ---- the serialised length ---- *)
Lemma cas_lookup_tbl_length cs idx : length (cas_lookup_tbl cs idx) = length cs.
Proof. revert idx. induction cs as [|c cs IH]; intro idx; cbn [cas_lookup_tbl length]; [reflexivity | rewrite IH; reflexivity]. Qed.
Lemma chunk_tbl_of_length c : forall chs idx i, length (chunk_tbl_of c chs idx i) = length chs.
Proof. induction chs as [|ch r IH]; intros idx i; cbn [chunk_tbl_of length]; [reflexivity | rewrite IH; reflexivity]. Qed.
Definition nchunks (cs : list cas_info) : N := fold_right (fun c a => N.of_nat (length (ci_chunks c)) + a) 0 cs.
Lemma chunk_lookup_tbl_length cs idx : N.of_nat (length (chunk_lookup_tbl cs idx)) = nchunks cs.
Proof.
  revert idx. induction cs as [|c cs IH]; intro idx; cbn [chunk_lookup_tbl nchunks fold_right]; [reflexivity|].
  rewrite app_length, chunk_tbl_of_length. fold (nchunks cs). specialize (IH (idx + 1 + N.of_nat (length (ci_chunks c)))). lia.
Qed.
Lemma sumf_recs fs : sumf fs = 48 * recs48 fs + 12 * N.of_nat (length fs).
Proof.
  induction fs as [|f fs IH]; [reflexivity|]. cbn [sumf recs48 fold_right length]. fold (sumf fs) (recs48 fs). unfold file_entry_cost.
  pose proof (file_info_num_bytes_48 f). lia.
Qed.
Lemma sumc_recs cs : sumc cs = 48 * crecs cs + 12 * N.of_nat (length cs) + 16 * nchunks cs.
Proof.
  induction cs as [|c cs IH]; [reflexivity|]. cbn [sumc crecs nchunks fold_right length]. fold (sumc cs) (crecs cs) (nchunks cs).
  unfold cas_entry_cost, cas_info_num_bytes. lia.
Qed.

Theorem serialized_length_is_accounted m : MInv m -> Forall wf_file (ms_files m) -> Forall wf_cas (ms_cass m) ->
  N.of_nat (length (serialize_from m)) = shard_file_size m.
Proof.
  intros [A B C D E] Hf Hc. unfold serialize_from, shard_file_size, NON_CONTENT_SIZE. rewrite E.
  change (serialize_with (ms_files m) (ms_cass m) (sort_by_key (chunk_lookup_tbl (ms_cass m) 0)) true true zero_hash 0 u64max)
    with (w_bs (ms_files m) (ms_cass m) (sort_by_key (chunk_lookup_tbl (ms_cass m) 0)) zero_hash 0 u64max).
  rewrite w_bs_shape, !app_length. rewrite w_hdr_len. unfold w_fsec, w_csec. rewrite !app_length.
  rewrite !len_ser_lookup12, len_lookup16, sort_by_key_length. unfold w_ftbl, w_ttbl. rewrite file_lookup_tbl_length, cas_lookup_tbl_length.
  pose proof (len_flat_ser_files (ms_files m) Hf) as L1. pose proof (len_flat_ser_cas (ms_cass m) Hc) as L2.
  pose proof (chunk_lookup_tbl_length (ms_cass m) 0) as L3. rewrite sumf_recs, sumc_recs.
  assert (Lf : length (w_foot (ms_files m) (ms_cass m) (sort_by_key (chunk_lookup_tbl (ms_cass m) 0)) zero_hash 0 u64max) = 200%nat).
  { apply len_MDBShardFileFooter. reflexivity. }
  rewrite Lf. change (length file_bookend) with 48%nat. change (length cas_bookend) with 48%nat. lia.
Qed.

(* every shard built by adding records to the empty shard *)
Inductive mop := MFile (f : file_info) | MCas (c : cas_info).
Definition mstep_add (m : mshard) (o : mop) : mshard :=
  match o with MFile f => add_file_info size_replace_aware m f | MCas c => add_cas_block size_replace_aware m c end.
Definition mop_ok (o : mop) : Prop :=
  match o with MFile f => wf_file f /\ bhash (fi_hash f) | MCas c => wf_cas c /\ bhash (ci_hash c) end.
Lemma built_inv : forall ops m, MInv m -> Forall wf_file (ms_files m) -> Forall wf_cas (ms_cass m) -> Forall mop_ok ops ->
  let m' := fold_left mstep_add ops m in MInv m' /\ Forall wf_file (ms_files m') /\ Forall wf_cas (ms_cass m').
Proof.
  induction ops as [|o r IH]; intros m Hm Hf Hc Hok; [cbn; auto|]. inversion Hok as [|? ? Ho Hr]; subst. cbn [fold_left]. apply IH; try assumption.
  - destruct o as [f|c]; cbn [mstep_add]; destruct Ho as [_ Hb]; [apply add_file_inv | apply add_cas_inv]; assumption.
  - destruct o as [f|c]; cbn [mstep_add add_file_info add_cas_block ms_files]; [|exact Hf]. destruct Ho as [Hw Hb]. rewrite ins_file_is_gins.
    apply Forall_forall. intros z Hz. destruct Hm as [A B C D E]. destruct (gins_spec fi_hash file_entry_cost f Hb (ms_files m) C A) as (_ & _ & _ & I4).
    destruct (I4 z Hz) as [->|Hz']; [exact Hw | rewrite Forall_forall in Hf; apply Hf; exact Hz'].
  - destruct o as [f|c]; cbn [mstep_add add_file_info add_cas_block ms_cass]; [exact Hc|]. destruct Ho as [Hw Hb]. rewrite ins_cas_is_gins.
    apply Forall_forall. intros z Hz. destruct Hm as [A B C D E]. destruct (gins_spec ci_hash cas_entry_cost c Hb (ms_cass m) D B) as (_ & _ & _ & I4).
    destruct (I4 z Hz) as [->|Hz']; [exact Hw | rewrite Forall_forall in Hc; apply Hc; exact Hz'].
Qed.
Theorem built_shard_size_exact ops : Forall mop_ok ops ->
  let m := fold_left mstep_add ops ms_empty in N.of_nat (length (serialize_from m)) = shard_file_size m.
Proof.
  intros Hok. cbv zeta. destruct (built_inv ops ms_empty MInv_empty (Forall_nil _) (Forall_nil _) Hok) as (A & B & C).
  apply serialized_length_is_accounted; assumption.
Qed.
