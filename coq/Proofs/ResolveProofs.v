(* The file deduper's central invariant (Model/Dedup.v), C01/C02/C03: at every point of process_chunks the file's
   segment list resolves -- against the xorbs of the store plus the file's pending new data under the zero hash -- to
   exactly the chunks fed so far.  The store F is fixed (the final store of the run): it holds every xorb the file
   registers; collision freedom is an explicit hypothesis about F (no two xorbs of F share a hash with different chunk
   lists, a non-empty xorb does not hash to zero) and about the chunks in play (their 64-bit lookup keys are distinct). *)
From Coq Require Import ZArith NArith Bool List Lia ZifyBool ZifyN ZifyNat.
Import ListNotations.
From XetModel Require Import Base.Codec Gen.ShardLayout Gen.DedupFacts Model.Merkle Model.Shard Model.Dedup Proofs.PipelineProofs.
Open Scope N_scope.

Arguments N.add : simpl never.
Arguments N.sub : simpl never.
Arguments N.ltb : simpl never.
Arguments N.leb : simpl never.
Arguments N.eqb : simpl never.
Arguments N.to_nat : simpl never.
Arguments N.of_nat : simpl never.

(* ---------------------------------------------------------------- slices *)
Definition slice {A} (l : list A) (a b : N) : list A := firstn (N.to_nat (b - a)) (skipn (N.to_nat a) l).

Lemma skipn_add'' {A} : forall a m (l : list A), skipn m (skipn a l) = skipn (a + m) l.
Proof. induction a as [|a IH]; intros m l; [reflexivity|]. destruct l; [rewrite !skipn_nil; reflexivity | cbn [skipn plus]; apply IH]. Qed.

Lemma slice_app_l {A} (l r : list A) a b : b <= N.of_nat (length l) -> slice (l ++ r) a b = slice l a b.
Proof.
  intro H. unfold slice. destruct (N.leb_spec a b) as [Hab|Hab].
  - rewrite skipn_app, firstn_app. rewrite skipn_length.
    replace (N.to_nat (b - a) - (length l - N.to_nat a))%nat with O by lia. cbn [firstn]. rewrite app_nil_r. reflexivity.
  - replace (N.to_nat (b - a)) with O by lia. reflexivity.
Qed.

Lemma slice_snoc {A} (l : list A) c a : a <= N.of_nat (length l) -> slice (l ++ [c]) a (N.of_nat (length l) + 1) = slice l a (N.of_nat (length l)) ++ [c].
Proof.
  intro H. unfold slice. rewrite skipn_app. replace (N.to_nat a - length l)%nat with O by lia. cbn [skipn].
  rewrite firstn_app, skipn_length. replace (N.to_nat (N.of_nat (length l) + 1 - a) - (length l - N.to_nat a))%nat with 1%nat by lia.
  cbn [firstn]. f_equal. rewrite !firstn_all2; [reflexivity | rewrite skipn_length; lia | rewrite skipn_length; lia].
Qed.

Lemma slice_cat {A} (l : list A) a b c : a <= b -> b <= c -> slice l a b ++ slice l b c = slice l a c.
Proof.
  intros H1 H2. unfold slice. replace (N.to_nat (c - a)) with (N.to_nat (b - a) + N.to_nat (c - b))%nat by lia.
  rewrite <- (firstn_skipn (N.to_nat (b - a)) (firstn (N.to_nat (b - a) + N.to_nat (c - b)) (skipn (N.to_nat a) l))).
  f_equal.
  - rewrite firstn_firstn. f_equal. lia.
  - rewrite skipn_firstn_comm. replace (N.to_nat (b - a) + N.to_nat (c - b) - N.to_nat (b - a))%nat with (N.to_nat (c - b)) by lia.
    rewrite skipn_add''. f_equal. f_equal. lia.
Qed.

Lemma slice_map {A B} (g : A -> B) (l : list A) a b : map g (slice l a b) = slice (map g l) a b.
Proof. unfold slice. rewrite skipn_map, firstn_map. reflexivity. Qed.

Lemma slice_nth {A} (l : list A) i x : nth_error l (N.to_nat i) = Some x -> slice l i (i + 1) = [x].
Proof.
  intro H. unfold slice. replace (N.to_nat (i + 1 - i)) with 1%nat by lia.
  assert (G : forall (l : list A) n y, nth_error l n = Some y -> firstn 1 (skipn n l) = [y]).
  { induction l0 as [|z r IH]; intros [|n] y Hn; cbn in Hn; try discriminate; [injection Hn as ->; reflexivity | cbn [skipn]; apply IH; exact Hn]. }
  apply G. exact H.
Qed.

(* ---------------------------------------------------------------- stores *)
Definition chunks_of (x : cas_info) : list chunk := map (fun e => (ce_hash e, ce_bytes e)) (ci_chunks x).

Lemma chunks_of_entries : forall chs p, map (fun e => (ce_hash e, ce_bytes e)) (cas_entries chs p) = chs.
Proof. induction chs as [|[h l] r IH]; intro p; cbn [cas_entries map ce_hash ce_bytes]; [reflexivity | rewrite IH; reflexivity]. Qed.
Lemma chunks_of_raw chs : chunks_of (raw_xorb chs) = chs.
Proof. unfold chunks_of, raw_xorb. cbn [ci_chunks]. apply chunks_of_entries. Qed.

(* the file's pending new data, seen as a xorb under the zero hash *)
Definition pend (l : list chunk) : cas_info := mkCI zero_hash 0 (sum_lens l) 0 (cas_entries l 0).
Lemma chunks_of_pend l : chunks_of (pend l) = l.
Proof. unfold chunks_of, pend. cbn [ci_chunks]. apply chunks_of_entries. Qed.

Lemma bytes_eqb_true a : forall b, bytes_eqb a b = true <-> a = b.
Proof.
  induction a as [|x r IH]; intros [|y s]; cbn [bytes_eqb]; split; intro H; try discriminate; try reflexivity.
  - apply andb_true_iff in H as [H1 H2]. apply N.eqb_eq in H1. apply IH in H2. subst. reflexivity.
  - injection H as -> ->. apply andb_true_iff. split; [apply N.eqb_refl | apply IH; reflexivity].
Qed.

(* what resolve_seg computes *)
Lemma resolve_seg_found st s x : st_find st (sg_cas s) = Some x -> sg_start s <= sg_end s -> sg_end s <= N.of_nat (length (chunks_of x)) ->
  resolve_seg st s = Some (slice (chunks_of x) (sg_start s) (sg_end s)).
Proof.
  intros Hf H1 H2. unfold resolve_seg. rewrite Hf. unfold chunks_of in *. rewrite map_length in H2.
  assert (E : (sg_end s <? sg_start s) || (N.of_nat (length (ci_chunks x)) <? sg_end s) = false).
  { apply orb_false_iff. split; apply N.ltb_ge; lia. }
  rewrite E. f_equal. apply slice_map.
Qed.
Lemma resolve_seg_inv st s l : resolve_seg st s = Some l ->
  exists x, st_find st (sg_cas s) = Some x /\ sg_start s <= sg_end s /\ sg_end s <= N.of_nat (length (chunks_of x)) /\ l = slice (chunks_of x) (sg_start s) (sg_end s).
Proof.
  unfold resolve_seg. destruct (st_find st (sg_cas s)) as [x|]; [|discriminate].
  destruct ((sg_end s <? sg_start s) || (N.of_nat (length (ci_chunks x)) <? sg_end s)) eqn:E; [discriminate|].
  apply orb_false_iff in E as [E1 E2]. apply N.ltb_ge in E1, E2. intro H. injection H as <-. exists x.
  unfold chunks_of. rewrite map_length. repeat split; try lia. rewrite <- slice_map. reflexivity.
Qed.

Lemma resolve_file_app st a b : resolve_file st (a ++ b) =
  match resolve_file st a, resolve_file st b with Some x, Some y => Some (x ++ y) | _, _ => None end.
Proof.
  induction a as [|s r IH]; cbn [app resolve_file].
  - destruct (resolve_file st b); reflexivity.
  - rewrite IH. destruct (resolve_seg st s), (resolve_file st r), (resolve_file st b); try reflexivity. rewrite app_assoc. reflexivity.
Qed.

(* ---------------------------------------------------------------- last segment helpers *)
Lemma last_seg_split l s0 : last_seg l = Some s0 -> exists pre, l = pre ++ [s0].
Proof.
  unfold last_seg. induction l as [|x r IH]; cbn [map last]; [discriminate|]. destruct r as [|y r'].
  - cbn. intro H. injection H as <-. exists []. reflexivity.
  - intro H. cbn [map] in *. destruct (IH H) as [pre E]. exists (x :: pre). rewrite E. reflexivity.
Qed.
Lemma last_seg_none l : last_seg l = None -> l = [].
Proof.
  unfold last_seg. induction l as [|x r IH]; [reflexivity|]. cbn [map last]. destruct r as [|y r']; [discriminate|].
  intro H. cbn [map] in *. specialize (IH H). discriminate.
Qed.
Lemma upd_last_snoc pre s0 g : upd_last (pre ++ [s0]) g = pre ++ [g s0].
Proof.
  induction pre as [|x r IH]; [reflexivity|]. cbn [app]. destruct (r ++ [s0]) as [|y t] eqn:E; [destruct r; discriminate|].
  change (upd_last (x :: y :: t) g) with (x :: upd_last (y :: t) g). rewrite IH. reflexivity.
Qed.

Section FileInv.
  Variable F : store.
  Hypothesis Fnocoll : forall x y, In x F -> In y F -> ci_hash x = ci_hash y -> chunks_of x = chunks_of y.
  Hypothesis Fnonzero : forall x, In x F -> chunks_of x <> [] -> ci_hash x <> zero_hash.
  Variable U : list chunk.
  Hypothesis Ukeys : forall c c', In c U -> In c' U -> hkey (fst c) = hkey (fst c') -> c = c'.

  Lemma st_find_in st h y : st_find st h = Some y -> In y st /\ ci_hash y = h.
  Proof.
    induction st as [|x r IH]; cbn [st_find]; [discriminate|]. destruct (bytes_eqb (ci_hash x) h) eqn:E.
    - intro H. injection H as <-. apply bytes_eqb_true in E. split; [left; reflexivity | exact E].
    - intro H. destruct (IH H). split; [right; assumption | assumption].
  Qed.
  Lemma st_find_member x : In x F -> exists y, st_find F (ci_hash x) = Some y /\ chunks_of y = chunks_of x.
  Proof.
    intro Hx. assert (G : forall st, (forall z, In z st -> In z F) -> In x st -> exists y, st_find st (ci_hash x) = Some y /\ In y F /\ ci_hash y = ci_hash x).
    { induction st as [|z r IH]; intros Hs Hin; [destruct Hin|]. cbn [st_find]. destruct (bytes_eqb (ci_hash z) (ci_hash x)) eqn:E.
      - exists z. apply bytes_eqb_true in E. repeat split; auto. apply Hs. left. reflexivity.
      - destruct Hin as [->|Hin]; [rewrite (proj2 (bytes_eqb_true _ _) eq_refl) in E; discriminate|].
        apply IH; [intros w Hw; apply Hs; right; exact Hw | exact Hin]. }
    destruct (G F (fun z H => H) Hx) as (y & A & B & C). exists y. split; [exact A | apply Fnocoll; assumption].
  Qed.

  (* a segment under the zero hash reads the pending data; any other segment reads the store *)
  Lemma resolve_seg_view l s : resolve_seg (pend l :: F) s =
    if bytes_eqb zero_hash (sg_cas s) then resolve_seg [pend l] s else resolve_seg F s.
  Proof. unfold resolve_seg. cbn [st_find pend ci_hash]. destruct (bytes_eqb zero_hash (sg_cas s)); reflexivity. Qed.

  Lemma resolve_zero l s : sg_cas s = zero_hash -> sg_start s <= sg_end s -> sg_end s <= N.of_nat (length l) ->
    resolve_seg (pend l :: F) s = Some (slice l (sg_start s) (sg_end s)).
  Proof.
    intros Hz H1 H2. rewrite <- (chunks_of_pend l) at 2. apply resolve_seg_found; [|exact H1|rewrite chunks_of_pend; exact H2].
    cbn [st_find pend ci_hash]. rewrite Hz. rewrite (proj2 (bytes_eqb_true _ _) eq_refl). reflexivity.
  Qed.
  Lemma resolve_zero_inv l s r : sg_cas s = zero_hash -> resolve_seg (pend l :: F) s = Some r ->
    sg_start s <= sg_end s /\ sg_end s <= N.of_nat (length l) /\ r = slice l (sg_start s) (sg_end s).
  Proof.
    intros Hz H. destruct (resolve_seg_inv _ _ _ H) as (x & Hf & A & B & C). cbn [st_find pend ci_hash] in Hf.
    rewrite Hz, (proj2 (bytes_eqb_true _ _) eq_refl) in Hf. injection Hf as <-. rewrite chunks_of_pend in *. auto.
  Qed.
  Lemma resolve_nonzero l s : sg_cas s <> zero_hash -> resolve_seg (pend l :: F) s = resolve_seg F s.
  Proof.
    intro Hz. rewrite resolve_seg_view. destruct (bytes_eqb zero_hash (sg_cas s)) eqn:E; [|reflexivity].
    apply bytes_eqb_true in E. congruence.
  Qed.

  (* appending a chunk to the pending data does not disturb what resolved before *)
  Lemma resolve_file_grow l c segs r : resolve_file (pend l :: F) segs = Some r -> resolve_file (pend (l ++ [c]) :: F) segs = Some r.
  Proof.
    revert r. induction segs as [|s t IH]; intros r H; cbn [resolve_file] in *; [exact H|].
    destruct (resolve_seg (pend l :: F) s) as [a|] eqn:Ea; [|discriminate]. destruct (resolve_file (pend l :: F) t) as [b|]; [|discriminate].
    rewrite (IH b eq_refl). assert (Es : resolve_seg (pend (l ++ [c]) :: F) s = Some a).
    { destruct (list_eq_dec N.eq_dec (sg_cas s) zero_hash) as [Hz|Hz].
      - destruct (resolve_zero_inv _ _ _ Hz Ea) as (A & B & ->). rewrite resolve_zero; [|exact Hz|exact A|rewrite app_length; cbn [length]; lia].
        f_equal. apply slice_app_l. exact B.
      - rewrite resolve_nonzero in * by exact Hz. exact Ea. }
    rewrite Es. exact H.
  Qed.

  Lemma resolve_snoc st pre s r : resolve_file st (pre ++ [s]) = Some r <->
    exists a b, resolve_file st pre = Some a /\ resolve_seg st s = Some b /\ r = a ++ b.
  Proof.
    rewrite resolve_file_app. cbn [resolve_file]. split.
    - destruct (resolve_file st pre) as [a|]; [|discriminate]. destruct (resolve_seg st s) as [b|]; [|discriminate].
      intro H. injection H as <-. exists a, b. rewrite app_nil_r. auto.
    - intros (a & b & -> & -> & ->). rewrite app_nil_r. reflexivity.
  Qed.

  Lemma existsb_In idx l : existsb (N.eqb idx) l = true <-> In idx l.
  Proof.
    rewrite existsb_exists. split.
    - intros (x & Hx & E). apply N.eqb_eq in E. subst. exact Hx.
    - intro H. exists idx. split; [exact H | apply N.eqb_refl].
  Qed.

  (* cutting a xorb: the segments that pointed into the pending data now carry the xorb's hash *)
  Lemma patch_resolve new iref h : (new <> [] -> exists y, st_find F h = Some y /\ chunks_of y = new /\ h <> zero_hash) ->
    forall l idx r,
    (forall i s, nth_error l i = Some s -> (sg_cas s = zero_hash <-> In (idx + N.of_nat i) iref)) ->
    (forall s, In s l -> sg_start s < sg_end s) ->
    resolve_file (pend new :: F) l = Some r ->
    resolve_file (pend [] :: F) (patch_segs l idx iref h) = Some r
    /\ forall s, In s (patch_segs l idx iref h) -> sg_cas s <> zero_hash /\ sg_start s < sg_end s.
  Proof.
    intros Hnew. induction l as [|s t IH]; intros idx r Hi Hne Hr; cbn [patch_segs resolve_file] in *.
    - split; [exact Hr | intros s []].
    - destruct (resolve_seg (pend new :: F) s) as [a|] eqn:Ea; [|discriminate].
      destruct (resolve_file (pend new :: F) t) as [b|] eqn:Eb; [|discriminate].
      destruct (IH (idx + 1) b) as [IH1 IH2]; [ | intros s' Hs'; apply Hne; right; exact Hs' | reflexivity | ].
      { intros i s' Hs'. specialize (Hi (S i) s' Hs'). replace (idx + 1 + N.of_nat i) with (idx + N.of_nat (S i)) by lia. exact Hi. }
      rewrite IH1. specialize (Hi O s eq_refl). replace (idx + N.of_nat 0) with idx in Hi by lia.
      assert (Hse : sg_start s < sg_end s) by (apply Hne; left; reflexivity).
      destruct (existsb (N.eqb idx) iref) eqn:Ex.
      + apply existsb_In in Ex. apply Hi in Ex. destruct (resolve_zero_inv _ _ _ Ex Ea) as (A & B & ->).
        assert (Hn : new <> []) by (intro E; rewrite E in B; cbn [length] in B; lia). destruct (Hnew Hn) as (y & Hy & Hc & Hnz).
        split.
        * rewrite resolve_nonzero by (cbn [sg_cas]; exact Hnz).
          rewrite (resolve_seg_found F _ y); cbn [sg_cas sg_start sg_end]; [rewrite Hc; exact Hr | exact Hy | exact A | rewrite Hc; exact B].
        * intros s' [<-|Hs']; [cbn [sg_cas sg_start sg_end]; split; assumption | apply IH2; exact Hs'].
      + assert (Hz : sg_cas s <> zero_hash). { intro Hz. apply Hi in Hz. apply existsb_In in Hz. congruence. }
        split.
        * rewrite resolve_nonzero in * by exact Hz. rewrite Ea. exact Hr.
        * intros s' [<-|Hs']; [split; assumption | apply IH2; exact Hs'].
  Qed.

  Record FInv (f : fd) (fed : list chunk) : Prop := {
    fi_res : resolve_file (pend (f_new f) :: F) (f_info f) = Some fed;
    fi_irf : forall i s, nth_error (f_info f) i = Some s -> (sg_cas s = zero_hash <-> In (N.of_nat i) (f_iref f));
    fi_lkp : forall k idx, lk k (f_lookup f) = Some idx -> exists c, nth_error (f_new f) (N.to_nat idx) = Some c /\ hkey (fst c) = k;
    fi_new : forall c, In c (f_new f) -> In c U;
    fi_nem : forall s, In s (f_info f) -> sg_start s < sg_end s;
    fi_irb : forall j, In j (f_iref f) -> j < N.of_nat (length (f_info f)) }.

  Lemma FInv_ext f g fed : f_new g = f_new f -> f_lookup g = f_lookup f -> f_info g = f_info f -> f_iref g = f_iref f ->
    FInv f fed -> FInv g fed.
  Proof. intros E1 E2 E3 E4 [A B C D E G]. constructor; rewrite ?E1, ?E2, ?E3, ?E4; assumption. Qed.

  Lemma FInv_fd0 : FInv fd0 [].
  Proof. constructor; cbn; try reflexivity; try (intros; contradiction); try discriminate. intros [|i] s H; discriminate. Qed.

  Lemma cut_inv f fed : FInv f fed -> In (raw_xorb (f_new f)) F -> FInv (cut_xorb f) fed.
  Proof.
    intros [A B C D E G] Hx. destruct (st_find_member _ Hx) as (y & Hy & Hc). rewrite chunks_of_raw in Hc.
    assert (Hnz : f_new f <> [] -> exists y, st_find F (ci_hash (raw_xorb (f_new f))) = Some y /\ chunks_of y = f_new f /\ ci_hash (raw_xorb (f_new f)) <> zero_hash).
    { intro Hn. exists y. repeat split; [exact Hy | exact Hc |]. apply Fnonzero; [exact Hx | rewrite chunks_of_raw; exact Hn]. }
    assert (B' : forall i s, nth_error (f_info f) i = Some s -> (sg_cas s = zero_hash <-> In (0 + N.of_nat i) (f_iref f))).
    { intros i s Hs. replace (0 + N.of_nat i) with (N.of_nat i) by lia. apply B. exact Hs. }
    destruct (patch_resolve (f_new f) (f_iref f) (ci_hash (raw_xorb (f_new f))) Hnz (f_info f) 0 fed B' E A) as [P1 P2].
    constructor; cbn [cut_xorb f_new f_info f_iref f_lookup].
    - exact P1.
    - intros i s Hs. apply nth_error_In in Hs. destruct (P2 s Hs) as [Hz _]. split; [intro; contradiction | intros []].
    - intros k idx H. discriminate.
    - intros c [].
    - intros s Hs. apply P2. exact Hs.
    - intros j [].
  Qed.

  Lemma nth_error_snoc_upd {A} (pre : list A) x x' i s : nth_error (pre ++ [x']) i = Some s ->
    (nth_error (pre ++ [x]) i = Some s /\ (i < length pre)%nat) \/ (i = length pre /\ s = x').
  Proof.
    intro H. destruct (Nat.lt_ge_cases i (length pre)) as [L|L].
    - left. rewrite nth_error_app1 in * by exact L. auto.
    - right. rewrite nth_error_app2 in H by exact L. destruct (i - length pre)%nat as [|k] eqn:E.
      + cbn in H. injection H as <-. split; [lia | reflexivity].
      + cbn in H. destruct k; discriminate.
  Qed.

  (* add_new_chunk after the optional cut *)
  Definition push_chunk (cf : dcfg) (f : fd) (c : chunk) : fd :=
    let nb := snd c in
    let nlen := N.of_nat (length (f_new f)) in
    let extend := match last_seg (f_info f) with
                  | Some l => bytes_eqb (sg_cas l) zero_hash && (sg_end l =? nlen)
                  | None => false
                  end in
    let f :=
      if extend then
        mkFD (f_new f) (f_lookup f) (f_hashes f)
             (upd_last (f_info f) (fun l => mkSeg (sg_cas l) (sg_flags l) (u32wrap (sg_bytes l + nb)) (sg_start l) (sg_end l + 1)))
             (f_iref f) (d_increment_last (f_defrag f) 1) (f_metrics f) (f_new_xorbs f) (f_registered f)
      else
        mkFD (f_new f) (f_lookup f) (f_hashes f) (f_info f ++ [mkSeg zero_hash 0 nb nlen (nlen + 1)])
             (f_iref f ++ [N.of_nat (length (f_info f))]) (d_add_range cf (f_defrag f) 1) (f_metrics f) (f_new_xorbs f) (f_registered f) in
    mkFD (f_new f ++ [c]) ((hkey (fst c), nlen) :: f_lookup f) (f_hashes f) (f_info f) (f_iref f) (f_defrag f) (f_metrics f)
         (f_new_xorbs f) (f_registered f).
  Definition must_cut (cf : dcfg) (f : fd) (c : chunk) : bool :=
    (c_max_xorb_bytes cf <? sum_lens (f_new f) + snd c) || (c_max_xorb_chunks cf <? N.of_nat (length (f_new f)) + 1).
  Lemma add_new_chunk_eq cf f c : add_new_chunk cf f c =
    let f1 := with_metrics f (bump_new (f_metrics f) (snd c)) in
    push_chunk cf (if must_cut cf f c then cut_xorb f1 else f1) c.
  Proof. reflexivity. Qed.

  Lemma lookup_push (new : list chunk) lookup (c : chunk) :
    (forall k idx, lk k lookup = Some idx -> exists c0, nth_error new (N.to_nat idx) = Some c0 /\ hkey (fst c0) = k) ->
    forall k idx, lk k ((hkey (fst c), N.of_nat (length new)) :: lookup) = Some idx ->
      exists c0, nth_error (new ++ [c]) (N.to_nat idx) = Some c0 /\ hkey (fst c0) = k.
  Proof.
    intros H k idx. cbn [lk]. destruct (k =? hkey (fst c)) eqn:E.
    - intro Hi. injection Hi as <-. apply N.eqb_eq in E. exists c. split; [|symmetry; exact E].
      rewrite nth_error_app2 by lia. replace (N.to_nat (N.of_nat (length new)) - length new)%nat with O by lia. reflexivity.
    - intro Hi. destruct (H k idx Hi) as (c0 & A & B). exists c0. split; [|exact B].
      rewrite nth_error_app1; [exact A | apply nth_error_Some; congruence].
  Qed.

  Lemma push_inv cf f fed c : FInv f fed -> In c U -> FInv (push_chunk cf f c) (fed ++ [c]).
  Proof.
    intros [A B C D E G] Hc. unfold push_chunk.
    set (nlen := N.of_nat (length (f_new f))).
    destruct (match last_seg (f_info f) with Some l => bytes_eqb (sg_cas l) zero_hash && (sg_end l =? nlen) | None => false end) eqn:Ext.
    - (* extend the last segment *)
      destruct (last_seg (f_info f)) as [l0|] eqn:El; [|discriminate]. apply andb_true_iff in Ext as [Hz He].
      apply bytes_eqb_true in Hz. apply N.eqb_eq in He. destruct (last_seg_split _ _ El) as [pre Ep].
      constructor; cbn [f_new f_info f_iref f_lookup]; rewrite Ep in *; rewrite ?upd_last_snoc.
      + apply resolve_snoc in A as (a & b & A1 & A2 & ->). destruct (resolve_zero_inv _ _ _ Hz A2) as (S1 & S2 & ->).
        apply resolve_snoc. exists a, (slice (f_new f) (sg_start l0) (sg_end l0) ++ [c]). split; [apply resolve_file_grow; exact A1|]. split; [|rewrite app_assoc; reflexivity].
        rewrite resolve_zero; cbn [sg_cas sg_start sg_end]; [ | exact Hz | lia | rewrite app_length; cbn [length]; lia].
        rewrite He. unfold nlen. rewrite slice_snoc by lia. reflexivity.
      + intros i s Hs. apply (nth_error_snoc_upd pre l0) in Hs as [[Hs _]|[-> ->]].
        * apply B. exact Hs.
        * cbn [sg_cas]. apply B. rewrite nth_error_app2 by lia. rewrite Nat.sub_diag. reflexivity.
      + apply lookup_push. exact C.
      + intros c0 Hc0. apply in_app_or in Hc0 as [Hc0|[<-|[]]]; [apply D; exact Hc0 | exact Hc].
      + intros s Hs. apply in_app_or in Hs as [Hs|[<-|[]]].
        * apply E. apply in_or_app. left. exact Hs.
        * cbn [sg_start sg_end]. assert (sg_start l0 < sg_end l0) by (apply E; apply in_or_app; right; left; reflexivity). lia.
      + intros j Hj. specialize (G j Hj). rewrite app_length in *. exact G.
    - (* a new segment *)
      constructor; cbn [f_new f_info f_iref f_lookup].
      + apply resolve_snoc. exists fed, [c]. split; [apply resolve_file_grow; exact A|]. split; [|reflexivity].
        rewrite resolve_zero; cbn [sg_cas sg_start sg_end]; [ | reflexivity | lia | rewrite app_length; cbn [length]; unfold nlen; lia].
        f_equal. apply slice_nth. unfold nlen. rewrite nth_error_app2 by lia.
        replace (N.to_nat (N.of_nat (length (f_new f))) - length (f_new f))%nat with O by lia. reflexivity.
      + intros i s Hs. apply (nth_error_snoc_upd (f_info f) (mkSeg zero_hash 0 (snd c) nlen (nlen + 1))) in Hs as [[Hs Hl]|[-> ->]].
        * rewrite nth_error_app1 in Hs by exact Hl. rewrite (B i s Hs). split; [intro H; apply in_or_app; left; exact H|].
          intro H. apply in_app_or in H as [H|[H|[]]]; [exact H | lia].
        * cbn [sg_cas]. split; [intros _; apply in_or_app; right; left; reflexivity | reflexivity].
      + apply lookup_push. exact C.
      + intros c0 Hc0. apply in_app_or in Hc0 as [Hc0|[<-|[]]]; [apply D; exact Hc0 | exact Hc].
      + intros s Hs. apply in_app_or in Hs as [Hs|[<-|[]]]; [apply E; exact Hs | cbn [sg_start sg_end]; lia].
      + intros j Hj. rewrite app_length. cbn [length]. apply in_app_or in Hj as [Hj|[<-|[]]]; [specialize (G j Hj)|]; lia.
  Qed.

  Lemma add_new_chunk_inv cf f fed c : FInv f fed -> In c U -> (must_cut cf f c = true -> In (raw_xorb (f_new f)) F) ->
    FInv (add_new_chunk cf f c) (fed ++ [c]).
  Proof.
    intros H Hc Hx. rewrite add_new_chunk_eq. cbv zeta. apply push_inv; [|exact Hc].
    assert (H1 : FInv (with_metrics f (bump_new (f_metrics f) (snd c))) fed) by (revert H; apply FInv_ext; reflexivity).
    destruct (must_cut cf f c); [apply cut_inv; [exact H1 | apply Hx; reflexivity] | exact H1].
  Qed.

  Lemma st_find_same_hash st h1 h2 : h1 = h2 -> st_find st h1 = st_find st h2.
  Proof. intros ->. reflexivity. Qed.

  (* add_file_data_sequence_entry with a segment that resolves (in the current view) to [got] *)
  Lemma add_fse_inv cf f fed s n got : FInv f fed -> resolve_seg (pend (f_new f) :: F) s = Some got -> sg_start s < sg_end s ->
    FInv (add_fse cf f s n) (fed ++ got).
  Proof.
    intros [A B C D E G] Hs Hne. unfold add_fse. destruct (continues f s) eqn:Hc.
    - unfold continues in Hc. destruct (last_seg (f_info f)) as [l0|] eqn:El; [|discriminate].
      apply andb_true_iff in Hc as [Hh He]. apply bytes_eqb_true in Hh. apply N.eqb_eq in He.
      destruct (last_seg_split _ _ El) as [pre Ep].
      constructor; cbn [f_new f_info f_iref f_lookup]; try assumption; rewrite Ep in *; rewrite ?upd_last_snoc.
      + apply resolve_snoc in A as (a & b & A1 & A2 & ->). apply resolve_snoc. exists a, (b ++ got). split; [exact A1|]. split; [|rewrite app_assoc; reflexivity].
        destruct (resolve_seg_inv _ _ _ A2) as (x & X1 & X2 & X3 & ->). destruct (resolve_seg_inv _ _ _ Hs) as (x' & Y1 & Y2 & Y3 & ->).
        rewrite Hh in X1. rewrite X1 in Y1. injection Y1 as <-.
        rewrite (resolve_seg_found _ _ x); cbn [sg_cas sg_start sg_end]; [ | rewrite Hh; exact X1 | lia | exact Y3].
        rewrite He. rewrite slice_cat by lia. reflexivity.
      + intros i s' Hs'. apply (nth_error_snoc_upd pre l0) in Hs' as [[Hs' _]|[-> ->]].
        * apply B. exact Hs'.
        * cbn [sg_cas]. apply B. rewrite nth_error_app2 by lia. rewrite Nat.sub_diag. reflexivity.
      + intros s' Hs'. apply in_app_or in Hs' as [Hs'|[<-|[]]].
        * apply E. apply in_or_app. left. exact Hs'.
        * cbn [sg_start sg_end]. assert (sg_start l0 < sg_end l0) by (apply E; apply in_or_app; right; left; reflexivity). lia.
      + intros j Hj. specialize (G j Hj). rewrite app_length in *. exact G.
    - constructor; cbn [f_new f_info f_iref f_lookup]; try assumption.
      + apply resolve_snoc. exists fed, got. auto.
      + intros i s' Hs'. apply (nth_error_snoc_upd (f_info f) s) in Hs' as [[Hs' Hl]|[-> ->]].
        * rewrite nth_error_app1 in Hs' by exact Hl. rewrite (B i s' Hs'). destruct (bytes_eqb (sg_cas s) zero_hash); [|reflexivity].
          split; [intro H; apply in_or_app; left; exact H|]. intro H. apply in_app_or in H as [H|[H|[]]]; [exact H | lia].
        * destruct (bytes_eqb (sg_cas s) zero_hash) eqn:Ez.
          -- apply bytes_eqb_true in Ez. split; [intros _; apply in_or_app; right; left; reflexivity | intros _; exact Ez].
          -- split; [intro Hz; rewrite Hz, (proj2 (bytes_eqb_true _ _) eq_refl) in Ez; discriminate|].
             intro H. specialize (G _ H). lia.
      + intros s' Hs'. apply in_app_or in Hs' as [Hs'|[<-|[]]]; [apply E; exact Hs' | exact Hne].
      + intros j Hj. rewrite app_length. cbn [length]. destruct (bytes_eqb (sg_cas s) zero_hash).
        * apply in_app_or in Hj as [Hj|[<-|[]]]; [specialize (G j Hj)|]; lia.
        * specialize (G j Hj). lia.
  Qed.

  Lemma push_chunk_registered cf f c : f_registered (push_chunk cf f c) = f_registered f.
  Proof. unfold push_chunk. destruct (match last_seg (f_info f) with Some l => _ | None => false end); reflexivity. Qed.
  Lemma add_new_chunk_registered cf g c : must_cut cf g c = true -> In (raw_xorb (f_new g)) (f_registered (add_new_chunk cf g c)).
  Proof. intro Hc. rewrite add_new_chunk_eq. cbv zeta. rewrite Hc, push_chunk_registered. left. reflexivity. Qed.
  Lemma add_new_chunk_registered_ext cf g c : exists pre, f_registered (add_new_chunk cf g c) = pre ++ f_registered g.
  Proof.
    rewrite add_new_chunk_eq. cbv zeta. rewrite push_chunk_registered. destruct (must_cut cf g c).
    - exists [raw_xorb (f_new g)]. reflexivity.
    - exists []. reflexivity.
  Qed.

  (* the local query: a run of the incoming chunks found, in order, in the pending data *)
  Lemma local_run_ok f fed base : FInv f fed -> forall cs i, (forall c, In c cs -> In c U) -> base + i <= N.of_nat (length (f_new f)) ->
    let m := local_run (f_lookup f) base i (map fst cs) in
    slice (f_new f) (base + i) (base + i + m) = firstn (N.to_nat m) cs /\ base + i + m <= N.of_nat (length (f_new f)) /\ m <= N.of_nat (length cs).
  Proof.
    intros [A B C D E G]. induction cs as [|c r IH]; intros i HU Hb; cbn [map local_run].
    - cbv zeta. replace (base + i + 0) with (base + i) by lia. unfold slice. rewrite N.sub_diag. cbn. repeat split; lia.
    - cbv zeta. destruct (lk (hkey (fst c)) (f_lookup f)) as [idx|] eqn:El.
      2:{ replace (base + i + 0) with (base + i) by lia. unfold slice. rewrite N.sub_diag. cbn. repeat split; lia. }
      destruct (idx =? base + i) eqn:Ei.
      2:{ replace (base + i + 0) with (base + i) by lia. unfold slice. rewrite N.sub_diag. cbn. repeat split; lia. }
      apply N.eqb_eq in Ei. subst idx. destruct (C _ _ El) as (c0 & N0 & K0).
      assert (c0 = c). { apply Ukeys; [apply D; eapply nth_error_In; exact N0 | apply HU; left; reflexivity | exact K0]. } subst c0.
      assert (Hlt : base + i < N.of_nat (length (f_new f))). { assert (X : (N.to_nat (base + i) < length (f_new f))%nat) by (apply nth_error_Some; congruence). lia. }
      specialize (IH (i + 1) (fun c' H => HU c' (or_intror H))). cbv zeta in IH. destruct IH as (I1 & I2 & I3); [lia|].
      set (m := local_run (f_lookup f) base (i + 1) (map fst r)) in *.
      replace (N.to_nat (1 + m)) with (S (N.to_nat m)) by lia. cbn [firstn length].
      rewrite <- (slice_cat _ (base + i) (base + i + 1)) by lia. rewrite (slice_nth _ _ _ N0). cbn [app].
      replace (base + i + 1) with (base + (i + 1)) by lia. replace (base + i + (1 + m)) with (base + (i + 1) + m) by lia.
      rewrite I1. repeat split; lia.
  Qed.

  Lemma local_query_ok f fed cs n s : FInv f fed -> (forall c, In c cs -> In c U) -> local_query f (map fst cs) = Some (n, s) ->
    resolve_seg (pend (f_new f) :: F) s = Some (firstn (N.to_nat n) cs) /\ sg_start s < sg_end s /\ 1 <= n /\ n <= N.of_nat (length cs).
  Proof.
    intros H HU. unfold local_query. destruct cs as [|c r]; cbn [map]; [discriminate|].
    destruct (lk (hkey (fst c)) (f_lookup f)) as [base|] eqn:El; [|discriminate]. intro Q. injection Q as <- <-.
    pose proof H as [A B C D E G]. destruct (C _ _ El) as (c0 & N0 & K0).
    assert (c0 = c). { apply Ukeys; [apply D; eapply nth_error_In; exact N0 | apply HU; left; reflexivity | exact K0]. } subst c0.
    assert (Hlt : base < N.of_nat (length (f_new f))). { assert (X : (N.to_nat base < length (f_new f))%nat) by (apply nth_error_Some; congruence). lia. }
    destruct (local_run_ok f fed base H r 1 (fun c' Hc' => HU c' (or_intror Hc'))) as (I1 & I2 & I3); [lia|].
    set (m := local_run (f_lookup f) base 1 (map fst r)) in *.
    rewrite resolve_zero; cbn [sg_cas sg_start sg_end]; [ | reflexivity | lia | lia].
    replace (N.to_nat (1 + m)) with (S (N.to_nat m)) by lia. cbn [firstn length].
    rewrite <- (slice_cat _ base (base + 1)) by lia. rewrite (slice_nth _ _ _ N0). cbn [app].
    replace (base + (1 + m)) with (base + 1 + m) by lia. rewrite I1. repeat split; lia.
  Qed.

  (* what is assumed of an answer of the data interface (global dedup, or the session's own xorbs): it names a xorb of
     the store other than the pending data and a non-empty range of it holding exactly the next n incoming chunks *)
  Definition AnsOk (cs : list chunk) (a : N * seg) : Prop :=
    sg_cas (snd a) <> zero_hash /\ resolve_seg F (snd a) = Some (firstn (N.to_nat (fst a)) cs) /\ sg_start (snd a) < sg_end (snd a) /\ 1 <= fst a.

  Lemma step_inv bbd cf f fed c rest ans :
    FInv f fed -> (forall c', In c' (c :: rest) -> In c' U) ->
    (forall a, ans = Some a -> AnsOk (c :: rest) a) ->
    (forall x, In x (f_registered (fst (step bbd cf f c (map fst (c :: rest)) ans))) -> In x F) ->
    let r := step bbd cf f c (map fst (c :: rest)) ans in
    FInv (fst r) (fed ++ firstn (N.to_nat (N.max (snd r) 1)) (c :: rest)).
  Proof.
    intros H HU Ha Hreg. cbv zeta.
    assert (Hq : forall n s, match ans with Some a => Some a | None => local_query f (map fst (c :: rest)) end = Some (n, s) ->
                   resolve_seg (pend (f_new f) :: F) s = Some (firstn (N.to_nat n) (c :: rest)) /\ sg_start s < sg_end s /\ 1 <= n).
    { intros n s Q. destruct ans as [a|].
      - injection Q as ->. destruct (Ha _ eq_refl) as (A1 & A2 & A3 & A4). cbn [fst snd] in *. rewrite resolve_nonzero by exact A1. auto.
      - destruct (local_query_ok f fed (c :: rest) n s H HU Q) as (A & B & C & _). auto. }
    assert (Hnew : forall g, f_new g = f_new f -> f_lookup g = f_lookup f -> f_info g = f_info f -> f_iref g = f_iref f ->
                   f_registered g = f_registered f -> (forall x, In x (f_registered (add_new_chunk cf g c)) -> In x F) ->
                   FInv (add_new_chunk cf g c) (fed ++ [c])).
    { intros g E1 E2 E3 E4 E5 Hr. apply add_new_chunk_inv; [revert H; apply FInv_ext; assumption | apply HU; left; reflexivity|].
      intro Hc. apply Hr. apply add_new_chunk_registered. exact Hc. }
    revert Hreg. unfold step, step_with. destruct (match ans with Some a => Some a | None => local_query f (map fst (c :: rest)) end) as [[n s]|] eqn:Q.
    2:{ cbn [fst snd]. intro Hreg. apply Hnew; auto. }
    destruct (Hq n s eq_refl) as (Q1 & Q2 & Q3).
    assert (Hfse : forall g, f_new g = f_new f -> f_lookup g = f_lookup f -> f_info g = f_info f -> f_iref g = f_iref f ->
                   FInv (add_fse cf g s n) (fed ++ firstn (N.to_nat (N.max n 1)) (c :: rest))).
    { intros g E1 E2 E3 E4. replace (N.max n 1) with n by lia. apply add_fse_inv; [revert H; apply FInv_ext; assumption | rewrite E1; exact Q1 | exact Q2]. }
    destruct (continues (if bbd then with_metrics f (bump_dedup (f_metrics f) n (sg_bytes s)) else f) s).
    { cbn [fst snd]. intros _. apply Hfse; destruct bbd; reflexivity. }
    destruct (d_allow cf (f_defrag (if bbd then with_metrics f (bump_dedup (f_metrics f) n (sg_bytes s)) else f)) n) as [ok d'].
    destruct ok; cbn [fst snd].
    - intros _. apply Hfse; destruct bbd; reflexivity.
    - intro Hreg. apply Hnew; try (destruct bbd; reflexivity). exact Hreg.
  Qed.

  Lemma add_fse_registered cf f s n : f_registered (add_fse cf f s n) = f_registered f.
  Proof. unfold add_fse. destruct (continues f s); reflexivity. Qed.
  Lemma step_registered_ext bbd cf f c hs ans : exists pre, f_registered (fst (step bbd cf f c hs ans)) = pre ++ f_registered f.
  Proof.
    unfold step, step_with. destruct (match ans with Some a => Some a | None => local_query f hs end) as [[n s]|].
    2:{ cbn [fst]. apply add_new_chunk_registered_ext. }
    destruct (continues _ s).
    { cbn [fst]. rewrite add_fse_registered. exists []. destruct bbd; reflexivity. }
    destruct (d_allow cf _ n) as [ok d']. destruct ok; cbn [fst].
    - rewrite add_fse_registered. exists []. destruct bbd; reflexivity.
    - match goal with |- exists pre, f_registered (add_new_chunk cf ?g c) = _ => destruct (add_new_chunk_registered_ext cf g c) as [pre Hp]; exists pre; rewrite Hp end.
      destruct bbd; reflexivity.
  Qed.
  Lemma process_loop_registered_ext bbd cf : forall fuel f cs answers, exists pre, f_registered (process_loop fuel bbd cf f cs answers) = pre ++ f_registered f.
  Proof.
    induction fuel as [|fu IH]; intros f cs answers; cbn [process_loop]; [exists []; reflexivity|].
    destruct cs as [|c rest]; [exists []; reflexivity|].
    destruct (step bbd cf f c (map fst (c :: rest)) (hd None answers)) as [f' n] eqn:Es.
    destruct (IH f' (skipn (N.to_nat (N.max n 1)) (c :: rest)) (skipn (N.to_nat (N.max n 1)) answers)) as [p1 H1].
    destruct (step_registered_ext bbd cf f c (map fst (c :: rest)) (hd None answers)) as [p2 H2]. rewrite Es in H2. cbn [fst] in H2.
    exists (p1 ++ p2). rewrite H1, H2, app_assoc. reflexivity.
  Qed.

  Definition AnsAll (cs : list chunk) (answers : list (option (N * seg))) : Prop :=
    forall k a, nth_error answers k = Some (Some a) -> AnsOk (skipn k cs) a.
  Lemma nth_error_skipn {A} : forall k (l : list A) j, nth_error (skipn k l) j = nth_error l (k + j).
  Proof. induction k as [|k IH]; intros l j; [reflexivity|]. destruct l; [destruct j; reflexivity | apply IH]. Qed.
  Lemma skipn_In_incl {A} : forall k (l : list A) x, In x (skipn k l) -> In x l.
  Proof. induction k as [|k IH]; intros l x H; [exact H|]. destruct l; [exact H | right; apply IH; exact H]. Qed.
  Lemma AnsAll_skipn cs answers k : AnsAll cs answers -> AnsAll (skipn k cs) (skipn k answers).
  Proof. intros H j a Hj. rewrite nth_error_skipn in Hj. rewrite skipn_add''. apply H. exact Hj. Qed.

  Lemma process_loop_inv bbd cf : forall fuel f fed cs answers,
    FInv f fed -> (forall c, In c cs -> In c U) -> AnsAll cs answers -> (length cs <= fuel)%nat ->
    (forall x, In x (f_registered (process_loop fuel bbd cf f cs answers)) -> In x F) ->
    FInv (process_loop fuel bbd cf f cs answers) (fed ++ cs).
  Proof.
    induction fuel as [|fu IH]; intros f fed cs answers H HU HA Hl Hreg.
    - destruct cs; [|cbn in Hl; lia]. cbn [process_loop]. rewrite app_nil_r. exact H.
    - destruct cs as [|c rest]; [cbn [process_loop]; rewrite app_nil_r; exact H|].
      cbn [process_loop] in *.
      pose proof (step_inv bbd cf f fed c rest (hd None answers) H HU) as St. cbv zeta in St.
      destruct (step bbd cf f c (map fst (c :: rest)) (hd None answers)) as [f' n] eqn:Es. cbn [fst snd] in St.
      set (k := N.to_nat (N.max n 1)) in *.
      destruct (process_loop_registered_ext bbd cf fu f' (skipn k (c :: rest)) (skipn k answers)) as [pre Hp].
      rewrite <- (firstn_skipn k (c :: rest)) at 2. rewrite app_assoc. apply IH.
      + apply St.
        * intros a Ha. destruct answers as [|a0 t]; [discriminate|]. cbn [hd] in Ha. subst a0. apply (HA O a eq_refl).
        * intros x Hx. apply Hreg. rewrite Hp. apply in_or_app. right. exact Hx.
      + intros c' Hc'. apply HU. eapply skipn_In_incl. exact Hc'.
      + apply AnsAll_skipn. exact HA.
      + rewrite skipn_length. cbn [length] in *. unfold k. lia.
      + exact Hreg.
  Qed.

  Theorem process_chunks_inv bbd cf f fed cs answers :
    FInv f fed -> (forall c, In c cs -> In c U) -> AnsAll cs answers ->
    (forall x, In x (f_registered (process_chunks bbd cf f cs answers)) -> In x F) ->
    FInv (process_chunks bbd cf f cs answers) (fed ++ cs).
  Proof.
    intros H HU HA Hreg. unfold process_chunks in *. cbn [f_registered] in Hreg.
    eapply FInv_ext; [ | | | | apply (process_loop_inv bbd cf (length cs) f fed cs answers H HU HA (le_n _) Hreg)]; reflexivity.
  Qed.

  (* ---- the answers of the table oracle (global dedup table plus the session's own registered xorbs) are truthful ---- *)
  Hypothesis FU : forall x c, In x F -> In c (chunks_of x) -> In c U.

  Definition TableOk (t : xtable) : Prop :=
    forall xh chs cap, In (xh, chs, cap) t -> exists x, In x F /\ ci_hash x = xh /\ chunks_of x = chs.

  Lemma find_pos_ok h : forall chs p0 p, find_pos h chs p0 = Some p ->
    p0 <= p /\ exists c, nth_error chs (N.to_nat (p - p0)) = Some c /\ fst c = h.
  Proof.
    induction chs as [|c r IH]; intros p0 p; cbn [find_pos]; [discriminate|]. destruct (bytes_eqb (fst c) h) eqn:E.
    - intro H. injection H as <-. split; [lia|]. rewrite N.sub_diag. exists c. split; [reflexivity | apply bytes_eqb_true; exact E].
    - intro H. destruct (IH _ _ H) as (A & c0 & B & C). split; [lia|]. exists c0. split; [|exact C].
      replace (N.to_nat (p - p0)) with (S (N.to_nat (p - (p0 + 1)))) by lia. exact B.
  Qed.

  Lemma match_len_ok : forall tail cs, (forall c, In c tail -> In c U) -> (forall c, In c cs -> In c U) ->
    forall n, n <= match_len tail (map fst cs) -> firstn (N.to_nat n) tail = firstn (N.to_nat n) cs /\ n <= N.of_nat (length tail).
  Proof.
    induction tail as [|t tr IH]; intros cs HT HC n Hn.
    - cbn [match_len] in Hn. replace n with 0 by lia. split; [reflexivity | cbn; lia].
    - destruct cs as [|c cr]; cbn [map match_len] in Hn; [replace n with 0 by lia; split; [reflexivity | lia]|].
      destruct (bytes_eqb (fst t) (fst c)) eqn:E; [|replace n with 0 by lia; split; [reflexivity | lia]].
      apply bytes_eqb_true in E. assert (t = c). { apply Ukeys; [apply HT; left; reflexivity | apply HC; left; reflexivity | rewrite E; reflexivity]. } subst t.
      destruct (N.eq_dec n 0) as [->|Hn0]; [split; [reflexivity | lia]|].
      destruct (IH cr (fun c' H => HT c' (or_intror H)) (fun c' H => HC c' (or_intror H)) (n - 1)) as [I1 I2]; [lia|].
      replace (N.to_nat n) with (S (N.to_nat (n - 1))) by lia. cbn [firstn length]. rewrite I1. split; [reflexivity | lia].
  Qed.

  Lemma match_len_pos (t : chunk) tr (c : chunk) cr : fst t = fst c -> 1 <= match_len (t :: tr) (map fst (c :: cr)).
  Proof. intro E. cbn [map match_len]. rewrite (proj2 (bytes_eqb_true _ _) E). lia. Qed.

  Lemma table_oracle_ok : forall t cs a, TableOk t -> (forall c, In c cs -> In c U) ->
    table_oracle t (map fst cs) = Some a -> AnsOk cs a.
  Proof.
    induction t as [|[[xh chs] cap] r IH]; intros cs a HT HC; destruct cs as [|c0 cr]; cbn [map table_oracle]; try discriminate.
    destruct (find_pos (fst c0) chs 0) as [p|] eqn:Ef.
    2:{ apply (IH (c0 :: cr)); [intros xh' chs' cap' H; apply (HT xh' chs' cap'); right; exact H | exact HC]. }
    change (fst c0 :: map fst cr) with (map fst (c0 :: cr)).
    intros H. injection H as <-. cbn [fst snd sg_cas sg_start sg_end] in *.
    destruct (HT xh chs cap (or_introl eq_refl)) as (x & Hx & Hh & Hc).
    destruct (find_pos_ok _ _ _ _ Ef) as (_ & ch & Np & Hf). rewrite N.sub_0_r in Np.
    assert (Hz : xh <> zero_hash). { rewrite <- Hh. apply Fnonzero; [exact Hx|]. rewrite Hc. intro E. rewrite E in Np. destruct (N.to_nat p); discriminate. }
    set (tail := skipn (N.to_nat p) chs) in *.
    assert (Ht : exists tr, tail = ch :: tr).
    { unfold tail. clear -Np. revert chs Np. induction (N.to_nat p) as [|k IHk]; intros [|y l] H; try discriminate.
      - injection H as ->. exists l. reflexivity.
      - apply IHk. exact H. }
    destruct Ht as [tr Et].
    assert (HTU : forall c, In c tail -> In c U). { intros c Hc'. apply (FU x); [exact Hx|]. rewrite Hc. eapply skipn_In_incl. exact Hc'. }
    set (n := N.min (match_len tail (map fst (c0 :: cr))) (N.max cap 1)) in *.
    assert (H1 : 1 <= match_len tail (map fst (c0 :: cr))) by (rewrite Et; apply match_len_pos; exact Hf).
    destruct (match_len_ok tail (c0 :: cr) HTU HC n) as [M1 M2]; [unfold n; lia|].
    assert (Hlen : N.of_nat (length tail) + p <= N.of_nat (length chs)).
    { unfold tail. rewrite skipn_length. assert ((N.to_nat p < length chs)%nat) by (apply nth_error_Some; congruence). lia. }
    destruct (st_find_member _ Hx) as (y & Hy & Hcy). rewrite Hh in Hy. rewrite Hc in Hcy.
    assert (Hn1 : 1 <= n) by (unfold n; lia).
    unfold AnsOk. cbn [fst snd sg_cas sg_start sg_end]. change (fst c0 :: map fst cr) with (map fst (c0 :: cr)). fold tail. fold n.
    split; [exact Hz|]. split; [|split; lia].
    rewrite (resolve_seg_found F _ y); cbn [sg_cas sg_start sg_end]; [ | exact Hy | lia | rewrite Hcy; lia].
    rewrite Hcy, <- M1. unfold slice, tail. replace (p + n - p) with n by lia. reflexivity.
  Qed.

  Lemma pass1_nil ask fuel : pass1 fuel ask [] = [].
  Proof. destruct fuel; reflexivity. Qed.
  Lemma nth_error_repeat_none {A} (x : A) : forall m j y, nth_error (repeat x m) j = Some y -> y = x /\ (j < m)%nat.
  Proof. induction m as [|m IH]; intros [|j] y H; try discriminate; cbn in H; [injection H as <-; split; [reflexivity | lia]|]. destruct (IH _ _ H). split; [assumption | lia]. Qed.

  Lemma pass1_nth ask : forall fuel hs k a, nth_error (pass1 fuel ask hs) k = Some (Some a) -> ask (skipn k hs) = Some a.
  Proof.
    induction fuel as [|fu IH]; intros hs k a H; [destruct k; discriminate|]. cbn [pass1] in H. destruct hs as [|h t]; [destruct k; discriminate|].
    destruct (ask (h :: t)) as [[n s]|] eqn:Ea.
    - destruct k as [|j]; [cbn in H; injection H as <-; exact Ea|]. cbn [nth_error] in H.
      set (kk := N.to_nat (N.max n 1)) in *. set (m := Nat.min (kk - 1) (length (h :: t) - 1)) in *.
      destruct (Nat.lt_ge_cases j m) as [L|L].
      + rewrite nth_error_app1 in H by (rewrite repeat_length; exact L). apply nth_error_repeat_none in H as [H _]. discriminate.
      + rewrite nth_error_app2 in H by (rewrite repeat_length; exact L). rewrite repeat_length in H.
        destruct (Nat.eq_dec m (kk - 1)) as [Em|Em].
        * apply IH in H. rewrite skipn_add'' in H. replace (kk + (j - m))%nat with (S j) in H by (unfold kk in *; lia). exact H.
        * assert (E0 : skipn kk (h :: t) = []). { apply skipn_all2. unfold m in *. cbn [length] in *. lia. }
          rewrite E0, pass1_nil in H. destruct (j - m)%nat; discriminate.
    - destruct k as [|j]; [discriminate|]. cbn [nth_error] in H. apply IH in H. rewrite skipn_add'' in H. exact H.
  Qed.

  Lemma registered_table_ok f : (forall x, In x (f_registered f) -> In x F) -> TableOk (registered_table f).
  Proof.
    intros H xh chs cap Hin. unfold registered_table in Hin. apply in_map_iff in Hin as (x & E & Hx). injection E as <- <- _.
    exists x. split; [apply H; apply in_rev; exact Hx | split; reflexivity].
  Qed.
  Lemma TableOk_app a b : TableOk a -> TableOk b -> TableOk (a ++ b).
  Proof. intros Ha Hb xh chs cap H. apply in_app_or in H as [H|H]; [apply (Ha _ _ _ H) | apply (Hb _ _ _ H)]. Qed.

  Lemma process_chunks_registered_ext bbd cf f cs answers : exists pre, f_registered (process_chunks bbd cf f cs answers) = pre ++ f_registered f.
  Proof. unfold process_chunks. cbn [f_registered]. apply process_loop_registered_ext. Qed.

  Theorem process_block_inv bbd cf ext f fed cs :
    FInv f fed -> TableOk ext -> (forall c, In c cs -> In c U) ->
    (forall x, In x (f_registered (process_block bbd cf ext f cs)) -> In x F) ->
    FInv (process_block bbd cf ext f cs) (fed ++ cs).
  Proof.
    intros H HT HU Hreg. unfold process_block in *. apply process_chunks_inv; try assumption.
    intros k a Hk. apply pass1_nth in Hk. rewrite skipn_map in Hk. eapply table_oracle_ok; [ | | exact Hk].
    - apply TableOk_app; [exact HT|]. apply registered_table_ok. intros x Hx. apply Hreg.
      match goal with |- In x (f_registered (process_chunks ?b ?c ?g ?l ?a)) => destruct (process_chunks_registered_ext b c g l a) as [pre Hp]; rewrite Hp end.
      apply in_or_app. right. exact Hx.
    - intros c Hc. apply HU. eapply skipn_In_incl. exact Hc.
  Qed.

  (* a whole file: any grouping of its chunks into process_chunks calls *)
  Definition feed_blocks (bbd : bool) (cf : dcfg) (ext : xtable) (f : fd) (blocks : list (list chunk)) : fd :=
    fold_left (process_block bbd cf ext) blocks f.
  Lemma feed_blocks_registered_ext bbd cf ext : forall blocks f, exists pre, f_registered (feed_blocks bbd cf ext f blocks) = pre ++ f_registered f.
  Proof.
    induction blocks as [|b r IH]; intro f; [exists []; reflexivity|]. cbn [feed_blocks fold_left].
    destruct (IH (process_block bbd cf ext f b)) as [p1 H1]. unfold feed_blocks in H1. rewrite H1.
    destruct (process_chunks_registered_ext bbd cf f b (pass1 (length (map fst b)) (table_oracle (ext ++ registered_table f)) (map fst b))) as [p2 H2].
    unfold process_block. rewrite H2. exists (p1 ++ p2). rewrite app_assoc. reflexivity.
  Qed.
  Theorem feed_blocks_inv bbd cf ext : forall blocks f fed,
    FInv f fed -> TableOk ext -> (forall b c, In b blocks -> In c b -> In c U) ->
    (forall x, In x (f_registered (feed_blocks bbd cf ext f blocks)) -> In x F) ->
    FInv (feed_blocks bbd cf ext f blocks) (fed ++ concat blocks).
  Proof.
    induction blocks as [|b r IH]; intros f fed H HT HU Hreg; cbn [feed_blocks fold_left concat] in *; [rewrite app_nil_r; exact H|].
    rewrite app_assoc. apply IH; [ | exact HT | intros b' c Hb' Hc; apply (HU b' c); [right; exact Hb' | exact Hc] | exact Hreg].
    apply process_block_inv; [exact H | exact HT | intros c Hc; apply (HU b c); [left; reflexivity | exact Hc] | ].
    intros x Hx. apply Hreg. destruct (feed_blocks_registered_ext bbd cf ext r (process_block bbd cf ext f b)) as [pre Hp].
    unfold feed_blocks in Hp. rewrite Hp. apply in_or_app. right. exact Hx.
  Qed.

  (* ---------------------------------------------------------------- the aggregator and the session *)
  Hypothesis Upos : forall c, In c U -> 0 < snd c.

  Definition FileOk (pending : list chunk) (segs : list seg) (iref : list N) (cs : list chunk) : Prop :=
    resolve_file (pend pending :: F) segs = Some cs
    /\ (forall i s, nth_error segs i = Some s -> (sg_cas s = zero_hash <-> In (N.of_nat i) iref))
    /\ (forall s, In s segs -> sg_start s < sg_end s).

  Lemma FInv_FileOk f fed : FInv f fed -> FileOk (f_new f) (f_info f) (f_iref f) fed.
  Proof. intros [A B C D E G]. repeat split; try assumption; apply B; assumption. Qed.

  Lemma resolve_file_grow_app l' : forall l segs r, resolve_file (pend l :: F) segs = Some r -> resolve_file (pend (l ++ l') :: F) segs = Some r.
  Proof.
    induction l' as [|c t IH]; intros l segs r H; [rewrite app_nil_r; exact H|].
    replace (l ++ c :: t) with ((l ++ [c]) ++ t) by (rewrite <- app_assoc; reflexivity). apply IH. apply resolve_file_grow. exact H.
  Qed.
  Lemma FileOk_grow l l' segs iref cs : FileOk l segs iref cs -> FileOk (l ++ l') segs iref cs.
  Proof. intros (A & B & C). split; [apply resolve_file_grow_app; exact A | split; assumption]. Qed.

  Lemma slice_app_r {A} (l0 l : list A) a b : slice (l0 ++ l) (a + N.of_nat (length l0)) (b + N.of_nat (length l0)) = slice l a b.
  Proof.
    unfold slice. rewrite skipn_app. replace (N.to_nat (a + N.of_nat (length l0)) - length l0)%nat with (N.to_nat a) by lia.
    rewrite skipn_all2 by lia. cbn [app]. f_equal. lia.
  Qed.

  Lemma shift_resolve l0 l : forall segs r, resolve_file (pend l :: F) segs = Some r ->
    resolve_file (pend (l0 ++ l) :: F) (shift_segs segs (N.of_nat (length l0))) = Some r.
  Proof.
    induction segs as [|s t IH]; intros r H; cbn [shift_segs map resolve_file] in *; [exact H|].
    destruct (resolve_seg (pend l :: F) s) as [a|] eqn:Ea; [|discriminate]. destruct (resolve_file (pend l :: F) t) as [b|]; [|discriminate].
    fold (shift_segs t (N.of_nat (length l0))). rewrite (IH b eq_refl).
    destruct (bytes_eqb (sg_cas s) zero_hash) eqn:Ez.
    - apply bytes_eqb_true in Ez. destruct (resolve_zero_inv _ _ _ Ez Ea) as (S1 & S2 & ->).
      rewrite resolve_zero; cbn [sg_cas sg_start sg_end]; [ | exact Ez | lia | rewrite app_length; lia].
      rewrite slice_app_r. exact H.
    - assert (Hz : sg_cas s <> zero_hash). { intro Hz. rewrite Hz, (proj2 (bytes_eqb_true _ _) eq_refl) in Ez. discriminate. }
      rewrite resolve_nonzero in * by exact Hz. rewrite Ea. exact H.
  Qed.
  Lemma shift_nth segs k : forall i s', nth_error (shift_segs segs k) i = Some s' ->
    exists s, nth_error segs i = Some s /\ sg_cas s' = sg_cas s /\ (sg_start s < sg_end s -> sg_start s' < sg_end s').
  Proof.
    intros i s' H. unfold shift_segs in H. rewrite nth_error_map in H. destruct (nth_error segs i) as [s|]; [|discriminate].
    cbn [option_map] in H. injection H as <-. exists s. split; [reflexivity|]. destruct (bytes_eqb (sg_cas s) zero_hash); cbn [sg_cas sg_start sg_end]; (split; [reflexivity | intro; lia]).
  Qed.
  Lemma FileOk_shift l0 l segs iref cs : FileOk l segs iref cs -> FileOk (l0 ++ l) (shift_segs segs (N.of_nat (length l0))) iref cs.
  Proof.
    intros (A & B & C). split; [apply shift_resolve; exact A|]. split.
    - intros i s' H. destruct (shift_nth _ _ _ _ H) as (s & Hs & Hc & _). rewrite Hc. apply B. exact Hs.
    - intros s' H. apply In_nth_error in H as [i H]. destruct (shift_nth _ _ _ _ H) as (s & Hs & _ & Hn). apply Hn. apply C. eapply nth_error_In. exact Hs.
  Qed.

  Lemma resolve_file_no_pending l : forall segs, (forall s, In s segs -> sg_cas s <> zero_hash) -> resolve_file (pend l :: F) segs = resolve_file F segs.
  Proof.
    induction segs as [|s t IH]; intro H; cbn [resolve_file]; [reflexivity|].
    rewrite resolve_nonzero by (apply H; left; reflexivity). rewrite IH by (intros s' Hs'; apply H; right; exact Hs'). reflexivity.
  Qed.

  (* DataAggregator::finalize on one file record *)
  Lemma FileOk_final l segs iref cs : FileOk l segs iref cs -> (forall c, In c l -> In c U) -> (l <> [] -> In (raw_xorb l) F) ->
    resolve_file F (patch_segs segs 0 iref (ci_hash (raw_xorb l))) = Some cs.
  Proof.
    intros (A & B & C) HU Hx.
    assert (Hnz : l <> [] -> exists y, st_find F (ci_hash (raw_xorb l)) = Some y /\ chunks_of y = l /\ ci_hash (raw_xorb l) <> zero_hash).
    { intro Hn. destruct (st_find_member _ (Hx Hn)) as (y & Hy & Hc). rewrite chunks_of_raw in Hc. exists y. repeat split; [exact Hy | exact Hc|].
      apply Fnonzero; [exact (Hx Hn) | rewrite chunks_of_raw; exact Hn]. }
    assert (B' : forall i s, nth_error segs i = Some s -> (sg_cas s = zero_hash <-> In (0 + N.of_nat i) iref)).
    { intros i s Hs. replace (0 + N.of_nat i) with (N.of_nat i) by lia. apply B. exact Hs. }
    destruct (patch_resolve l iref (ci_hash (raw_xorb l)) Hnz segs 0 cs B' C A) as [P1 P2].
    rewrite <- (resolve_file_no_pending []); [exact P1 | intros s Hs; apply P2; exact Hs].
  Qed.

  Definition ghost := (hash * list chunk)%type.      (* a completed file: its hash and the chunks fed *)
  Definition AggRec (a : agg) (g : ghost) : Prop :=
    exists fi iref, In (fi, iref) (a_files a) /\ fi_hash fi = fst g /\ FileOk (a_chunks a) (fi_segs fi) iref (snd g).
  Definition AggAll (a : agg) (G : list ghost) : Prop :=
    (forall fi iref, In (fi, iref) (a_files a) -> exists cs, In (fi_hash fi, cs) G /\ FileOk (a_chunks a) (fi_segs fi) iref cs)
    /\ (forall c, In c (a_chunks a) -> In c U).
  Definition DoneRec (files : list file_info) (g : ghost) : Prop :=
    exists fi, In fi files /\ fi_hash fi = fst g /\ resolve_file F (fi_segs fi) = Some (snd g).
  Definition DoneAll (files : list file_info) (G : list ghost) : Prop :=
    forall fi, In fi files -> exists cs, In (fi_hash fi, cs) G /\ resolve_file F (fi_segs fi) = Some cs.

  Lemma AggAll_mono a G G' : AggAll a G -> incl G G' -> AggAll a G'.
  Proof. intros [A B] Hi. split; [|exact B]. intros fi iref H. destruct (A fi iref H) as (cs & X & Y). exists cs. split; [apply Hi; exact X | exact Y]. Qed.
  Lemma DoneAll_mono fs G G' : DoneAll fs G -> incl G G' -> DoneAll fs G'.
  Proof. intros A Hi fi H. destruct (A fi H) as (cs & X & Y). exists cs. split; [apply Hi; exact X | exact Y]. Qed.
  Lemma DoneRec_mono fs fs' g : DoneRec fs g -> incl fs fs' -> DoneRec fs' g.
  Proof. intros (fi & X & Y & Z) Hi. exists fi. split; [apply Hi; exact X | split; assumption]. Qed.

  (* merge_in *)
  Lemma merge_rec_l a b g : AggRec a g -> AggRec (agg_merge a b) g.
  Proof.
    intros (fi & iref & X & Y & Z). exists fi, iref. unfold agg_merge. cbn [a_files a_chunks]. split; [apply in_or_app; left; exact X|].
    split; [exact Y | apply FileOk_grow; exact Z].
  Qed.
  Lemma merge_rec_r a b g : AggRec b g -> AggRec (agg_merge a b) g.
  Proof.
    intros (fi & iref & X & Y & Z). unfold agg_merge. cbn [a_files a_chunks].
    eexists; exists iref. split; [apply in_or_app; right; apply in_map_iff; exists (fi, iref); split; [reflexivity | exact X]|].
    cbn [fst snd fi_hash fi_segs]. split; [exact Y | apply FileOk_shift; exact Z].
  Qed.
  Lemma merge_all a b G : AggAll a G -> AggAll b G -> AggAll (agg_merge a b) G.
  Proof.
    intros [A1 A2] [B1 B2]. unfold agg_merge. split; cbn [a_files a_chunks].
    - intros fi iref H. apply in_app_or in H as [H|H].
      + destruct (A1 fi iref H) as (cs & X & Y). exists cs. split; [exact X | apply FileOk_grow; exact Y].
      + apply in_map_iff in H as ([fi0 iref0] & E & H). injection E as <- <-. cbn [fst snd fi_hash fi_segs].
        destruct (B1 fi0 iref0 H) as (cs & X & Y). exists cs. split; [exact X | apply FileOk_shift; exact Y].
    - intros c H. apply in_app_or in H as [H|H]; auto.
  Qed.

  (* finalize *)
  Lemma final_rec a g : AggRec a g -> (forall c, In c (a_chunks a) -> In c U) -> (a_chunks a <> [] -> In (raw_xorb (a_chunks a)) F) ->
    DoneRec (snd (agg_finalize a)) g.
  Proof.
    intros (fi & iref & X & Y & Z) HU Hx. unfold agg_finalize. cbn [snd].
    eexists. split; [apply in_map_iff; exists (fi, iref); split; [reflexivity | exact X]|]. cbn [fst snd fi_hash fi_segs].
    split; [exact Y | apply FileOk_final; assumption].
  Qed.
  Lemma final_all a G : AggAll a G -> (a_chunks a <> [] -> In (raw_xorb (a_chunks a)) F) -> DoneAll (snd (agg_finalize a)) G.
  Proof.
    intros [A HU] Hx fi H. unfold agg_finalize in H. cbn [snd] in H. apply in_map_iff in H as ([fi0 iref0] & E & H). subst fi. cbn [fst snd fi_hash fi_segs].
    destruct (A fi0 iref0 H) as (cs & X & Y). exists cs. split; [exact X | apply FileOk_final; assumption].
  Qed.

  Lemma sum_lens_pos l : (forall c, In c l -> In c U) -> l <> [] -> 0 < sum_lens l.
  Proof. destruct l as [|c r]; [congruence|]. intros H _. cbn [sum_lens fold_right]. specialize (Upos c (H c (or_introl eq_refl))). lia. Qed.

  Record SInv (s : session) (Gc Gd : list ghost) : Prop := {
    si_cur : forall g, In g Gc -> AggRec (s_cur s) g;
    si_curall : AggAll (s_cur s) Gc;
    si_done : forall g, In g Gd -> DoneRec (s_shard_files s) g;
    si_doneall : DoneAll (s_shard_files s) Gd }.

  Lemma SInv0 : SInv session0 [] [].
  Proof. constructor; cbn; try (intros; contradiction). split; intros; contradiction. intros fi []. Qed.

  (* process_aggregated_data_as_xorb on an aggregate whose files are Ga *)
  Lemma process_agg_inv rc s a Gc Ga Gd : SInv s Gc Gd -> (forall g, In g Ga -> AggRec a g) -> AggAll a Ga ->
    (forall x, In x (s_uploaded (process_agg rc s a)) -> In x F) ->
    SInv (process_agg rc s a) Gc (Ga ++ Gd).
  Proof.
    intros [A B C D] Ha [Hall HU] Hup. unfold process_agg in *. unfold agg_finalize in *. cbv zeta iota beta in *. cbn [s_cur s_shard_files s_uploaded] in *.
    assert (Hx : a_chunks a <> [] -> In (raw_xorb (a_chunks a)) F).
    { intro Hn. apply Hup. pose proof (sum_lens_pos _ HU Hn) as Hp.
      assert (E : (ci_nbytes (raw_xorb (a_chunks a)) =? 0) = false) by (apply N.eqb_neq; unfold raw_xorb; cbn [ci_nbytes]; lia).
      rewrite E. cbn [negb]. left. reflexivity. }
    constructor; cbn [s_cur s_shard_files]; try assumption.
    - intros g Hg. apply in_app_or in Hg as [Hg|Hg].
      + eapply DoneRec_mono; [apply (final_rec a g (Ha g Hg) HU Hx)|]. unfold agg_finalize. cbn [snd]. intros fi Hfi. apply in_or_app. left. apply in_rev. rewrite rev_involutive. exact Hfi.
      + eapply DoneRec_mono; [apply C; exact Hg|]. intros fi Hfi. apply in_or_app. right. exact Hfi.
    - intros fi Hfi. apply in_app_or in Hfi as [Hfi|Hfi].
      + apply in_rev in Hfi. destruct (final_all a Ga (conj Hall HU) Hx fi) as (cs & X & Y); [unfold agg_finalize; cbn [snd]; exact Hfi|].
        exists cs. split; [apply in_or_app; left; exact X | exact Y].
      + destruct (D fi Hfi) as (cs & X & Y). exists cs. split; [apply in_or_app; right; exact X | exact Y].
  Qed.

  Lemma SInv_ext s s' Gc Gd : s_cur s' = s_cur s -> s_shard_files s' = s_shard_files s -> SInv s Gc Gd -> SInv s' Gc Gd.
  Proof. intros E1 E2 [A B C D]. constructor; rewrite ?E1, ?E2; assumption. Qed.

  Lemma register_completion_inv rc cf s file m Gc Gd Gf :
    SInv s Gc Gd -> (forall g, In g Gf -> AggRec file g) -> AggAll file Gf ->
    (forall x, In x (s_uploaded (register_completion rc cf s file m)) -> In x F) ->
    exists Gc' Gd', SInv (register_completion rc cf s file m) Gc' Gd' /\ (forall g, In g (Gc' ++ Gd') <-> In g (Gf ++ Gc ++ Gd)).
  Proof.
    intros H Hf Hfa Hup. pose proof H as [A B C D]. unfold register_completion in *. cbv zeta in *.
    destruct ((c_max_xorb_bytes cf <? a_bytes (s_cur s) + a_bytes file) || (c_max_xorb_chunks cf <? N.of_nat (length (a_chunks (s_cur s))) + N.of_nat (length (a_chunks file)))).
    - destruct (a_bytes file <? a_bytes (s_cur s)).
      + (* the file stays, the current aggregate is cut *)
        exists Gf, (Gc ++ Gd). split.
        * eapply SInv_ext; [ | | apply (process_agg_inv rc (mkS file (s_uploaded s) (s_shard_cas s) (s_shard_files s) (s_metrics s)) (s_cur s) Gf Gc Gd)]; try reflexivity; try assumption.
          constructor; cbn [s_cur s_shard_files]; assumption.
        * intro g. rewrite !in_app_iff. tauto.
      + exists Gc, (Gf ++ Gd). split.
        * eapply SInv_ext; [ | | apply (process_agg_inv rc (mkS (s_cur s) (s_uploaded s) (s_shard_cas s) (s_shard_files s) (s_metrics s)) file Gc Gf Gd)]; try reflexivity; try assumption.
          constructor; cbn [s_cur s_shard_files]; assumption.
        * intro g. rewrite !in_app_iff. tauto.
    - exists (Gc ++ Gf), Gd. split.
      + constructor; cbn [s_cur s_shard_files]; try assumption.
        * intros g Hg. apply in_app_or in Hg as [Hg|Hg]; [apply merge_rec_l; apply A; exact Hg | apply merge_rec_r; apply Hf; exact Hg].
        * apply merge_all; [eapply AggAll_mono; [exact B | apply incl_appl; apply incl_refl] | eapply AggAll_mono; [exact Hfa | apply incl_appr; apply incl_refl]].
      + intro g. rewrite !in_app_iff. tauto.
  Qed.

  Lemma register_mid_inv s xs Gc Gd : SInv s Gc Gd -> SInv (register_mid_xorbs s xs) Gc Gd.
  Proof. apply SInv_ext; reflexivity. Qed.

  Lemma session_finalize_inv rc s Gc Gd : SInv s Gc Gd -> (forall x, In x (s_uploaded (session_finalize rc s)) -> In x F) ->
    SInv (session_finalize rc s) [] (Gc ++ Gd) /\ a_files (s_cur (session_finalize rc s)) = [].
  Proof.
    intros [A B C D] Hup. unfold session_finalize in *. split; [|reflexivity].
    apply (process_agg_inv rc (mkS agg0 (s_uploaded s) (s_shard_cas s) (s_shard_files s) (s_metrics s)) (s_cur s) [] Gc Gd); try assumption.
    constructor; cbn [s_cur s_shard_files]; try assumption; [intros g [] | split; intros; contradiction].
  Qed.

  (* FileDeduper::finalize hands the aggregator one file record that meets the invariant *)
  Lemma fd_finalize_agg f fed salt sha : FInv f fed ->
    let '(fh, a, _, _) := fd_finalize f salt sha in (forall g, In g [(fh, fed)] -> AggRec a g) /\ AggAll a [(fh, fed)].
  Proof.
    intro H. unfold fd_finalize. cbv zeta. pose proof (FInv_FileOk _ _ H) as Hok. split.
    - intros g [<-|[]]. eexists; eexists. split; [left; reflexivity|]. cbn [fi_hash fi_segs fst snd a_chunks]. split; [reflexivity | exact Hok].
    - split; cbn [a_files a_chunks].
      + intros fi iref [E|[]]. pose proof (f_equal fst E) as E1. pose proof (f_equal snd E) as E2. cbn [fst snd] in E1, E2. subst fi iref.
        eexists. split; [left; reflexivity|]. cbn [fi_segs]. exact Hok.
      + destruct H as [_ _ _ Hn _ _]. exact Hn.
  Qed.

  (* ---- a whole session: files completed and mid-file xorbs registered in any order, then finalize ---- *)
  Inductive sop := OpMid (xs : list cas_info) | OpFile (a : agg) (m : metrics) (g : ghost).
  Definition sstep (rc : bool) (cf : dcfg) (s : session) (o : sop) : session :=
    match o with OpMid xs => register_mid_xorbs s xs | OpFile a m _ => register_completion rc cf s a m end.
  Definition srun (rc : bool) (cf : dcfg) (ops : list sop) : session := session_finalize rc (fold_left (sstep rc cf) ops session0).
  Definition op_ok (o : sop) : Prop := match o with OpMid _ => True | OpFile a _ g => AggRec a g /\ AggAll a [g] end.
  Definition ghosts (ops : list sop) : list ghost := flat_map (fun o => match o with OpMid _ => [] | OpFile _ _ g => [g] end) ops.

  Lemma process_agg_uploaded_ext rc s a : exists pre, s_uploaded (process_agg rc s a) = pre ++ s_uploaded s.
  Proof. unfold process_agg, agg_finalize. cbv zeta iota beta. cbn [s_uploaded]. destruct (negb _); [eexists [_] | exists []]; reflexivity. Qed.
  Lemma sstep_uploaded_ext rc cf s o : exists pre, s_uploaded (sstep rc cf s o) = pre ++ s_uploaded s.
  Proof.
    destruct o as [xs|a m g]; cbn [sstep].
    - exists (rev xs). reflexivity.
    - unfold register_completion. cbv zeta. cbn [s_uploaded]. destruct (_ || _); [|exists []; reflexivity].
      destruct (a_bytes a <? a_bytes (s_cur s)); match goal with |- context [process_agg rc ?s0 ?a0] => destruct (process_agg_uploaded_ext rc s0 a0) as [pre Hp]; exists pre; rewrite Hp end; reflexivity.
  Qed.
  Lemma fold_uploaded_ext rc cf : forall ops s, exists pre, s_uploaded (fold_left (sstep rc cf) ops s) = pre ++ s_uploaded s.
  Proof.
    induction ops as [|o r IH]; intro s; cbn [fold_left]; [exists []; reflexivity|].
    destruct (IH (sstep rc cf s o)) as [p1 H1]. destruct (sstep_uploaded_ext rc cf s o) as [p2 H2]. exists (p1 ++ p2). rewrite H1, H2, app_assoc. reflexivity.
  Qed.

  Lemma fold_inv rc cf : forall ops s Gc Gd, SInv s Gc Gd -> Forall op_ok ops ->
    (forall x, In x (s_uploaded (fold_left (sstep rc cf) ops s)) -> In x F) ->
    exists Gc' Gd', SInv (fold_left (sstep rc cf) ops s) Gc' Gd' /\ (forall g, In g (Gc' ++ Gd') <-> In g (ghosts ops ++ Gc ++ Gd)).
  Proof.
    induction ops as [|o r IH]; intros s Gc Gd H Hok Hup; cbn [fold_left ghosts flat_map] in *.
    - exists Gc, Gd. split; [exact H | intro g; reflexivity].
    - inversion Hok as [|o' r' Ho Hr]; subst.
      destruct (fold_uploaded_ext rc cf r (sstep rc cf s o)) as [pre Hp].
      assert (Hup1 : forall x, In x (s_uploaded (sstep rc cf s o)) -> In x F) by (intros x Hx; apply Hup; rewrite Hp; apply in_or_app; right; exact Hx).
      destruct o as [xs|a m g]; cbn [sstep] in *.
      + apply IH; [apply register_mid_inv; exact H | exact Hr | exact Hup].
      + destruct Ho as [Ho1 Ho2].
        destruct (register_completion_inv rc cf s a m Gc Gd [g] H) as (Gc1 & Gd1 & H1 & E1); [intros g' [<-|[]]; exact Ho1 | exact Ho2 | exact Hup1|].
        destruct (IH _ Gc1 Gd1 H1 Hr Hup) as (Gc2 & Gd2 & H2 & E2). exists Gc2, Gd2. split; [exact H2|].
        intro g'. rewrite E2. fold (ghosts r). pose proof (E1 g') as E1'. rewrite !in_app_iff in *. cbn [In] in *. tauto.
  Qed.

  (* C01/C02: after finalize every completed file has a record in the session shard that resolves, in the store, to exactly
     the chunks fed; every record in the shard is such a record; nothing stays behind in the aggregator. *)
  Theorem session_files_resolve rc cf ops : Forall op_ok ops ->
    (forall x, In x (s_uploaded (srun rc cf ops)) -> In x F) ->
    (forall g, In g (ghosts ops) -> DoneRec (s_shard_files (srun rc cf ops)) g)
    /\ DoneAll (s_shard_files (srun rc cf ops)) (ghosts ops)
    /\ a_files (s_cur (srun rc cf ops)) = [].
  Proof.
    intros Hok Hup. unfold srun in *.
    destruct (process_agg_uploaded_ext rc (mkS agg0 (s_uploaded (fold_left (sstep rc cf) ops session0)) (s_shard_cas (fold_left (sstep rc cf) ops session0))
               (s_shard_files (fold_left (sstep rc cf) ops session0)) (s_metrics (fold_left (sstep rc cf) ops session0))) (s_cur (fold_left (sstep rc cf) ops session0))) as [pre Hp].
    destruct (fold_inv rc cf ops session0 [] [] SInv0 Hok) as (Gc & Gd & H & E).
    { intros x Hx. apply Hup. unfold session_finalize. rewrite Hp. apply in_or_app. right. exact Hx. }
    destruct (session_finalize_inv rc _ Gc Gd H Hup) as [[_ _ C D] Hempty].
    split; [|split; [|exact Hempty]].
    - intros g Hg. apply C. apply E. rewrite !app_nil_r. exact Hg.
    - eapply DoneAll_mono; [exact D|]. intros g Hg. apply E in Hg. rewrite !app_nil_r in Hg. exact Hg.
  Qed.
End FileInv.

(* ---------------------------------------------------------------- the closed statements *)
(* what is assumed of the store F (every xorb the run uploads or is told about) and of the chunks in play U: no two xorbs
   of F share a hash with different contents, a non-empty xorb does not hash to the all-zero hash (which the deduper uses
   as "this file's pending data"), the 64-bit lookup keys of distinct chunks are distinct, F's chunks are chunks in play,
   and chunks are non-empty *)
Record StoreOk (F : store) (U : list chunk) : Prop := {
  so_nocoll : forall x y, In x F -> In y F -> ci_hash x = ci_hash y -> chunks_of x = chunks_of y;
  so_nonzero : forall x, In x F -> chunks_of x <> [] -> ci_hash x <> zero_hash;
  so_keys : forall c c', In c U -> In c' U -> hkey (fst c) = hkey (fst c') -> c = c';
  so_closed : forall x c, In x F -> In c (chunks_of x) -> In c U;
  so_pos : forall c, In c U -> 0 < snd c }.

(* a fresh deduper of a session whose interface already holds the xorbs R *)
Definition fd_with_registered (R : list cas_info) : fd := mkFD [] [] [] [] [] defrag0 m0 [] R.

Theorem file_resolves F U : StoreOk F U -> forall bbd cf ext R blocks,
  TableOk F ext -> (forall b c, In b blocks -> In c b -> In c U) ->
  (forall x, In x (f_registered (feed_blocks bbd cf ext (fd_with_registered R) blocks)) -> In x F) ->
  FInv F U (feed_blocks bbd cf ext (fd_with_registered R) blocks) (concat blocks).
Proof.
  intros [A B C D E] bbd cf ext R blocks HT HU Hreg.
  apply (feed_blocks_inv F A B U C D bbd cf ext blocks (fd_with_registered R) []); try assumption.
  eapply FInv_ext; [ | | | | apply FInv_fd0]; reflexivity.
Qed.

Theorem file_op_ok F U : StoreOk F U -> forall f fed salt sha,
  FInv F U f fed -> op_ok F U (OpFile (snd (fst (fst (fd_finalize f salt sha)))) (snd (fst (fd_finalize f salt sha))) (fst (fst (fst (fd_finalize f salt sha))), fed)).
Proof.
  intros _ f fed salt sha H. pose proof (fd_finalize_agg F U f fed salt sha H) as G.
  destruct (fd_finalize f salt sha) as [[[fh a] m] nx]. cbn [fst snd op_ok]. destruct G as [G1 G2]. split; [apply G1; left; reflexivity | exact G2].
Qed.

Theorem session_resolves F U : StoreOk F U -> forall rc cf ops, Forall (op_ok F U) ops ->
  (forall x, In x (s_uploaded (srun rc cf ops)) -> In x F) ->
  (forall g, In g (ghosts ops) -> DoneRec F (s_shard_files (srun rc cf ops)) g)
  /\ DoneAll F (s_shard_files (srun rc cf ops)) (ghosts ops)
  /\ a_files (s_cur (srun rc cf ops)) = [].
Proof. intros [A B C D E]. apply session_files_resolve; assumption. Qed.

(* a resolving record references existing xorbs with in-range indices (the C02 reading of the same fact) *)
Theorem resolved_segments_in_range F : forall segs cs, resolve_file F segs = Some cs ->
  forall s, In s segs -> exists x, st_find F (sg_cas s) = Some x /\ sg_start s <= sg_end s /\ sg_end s <= N.of_nat (length (chunks_of x)).
Proof.
  induction segs as [|s0 t IH]; intros cs H s Hs; [destruct Hs|]. cbn [resolve_file] in H.
  destruct (resolve_seg F s0) as [a|] eqn:Ea; [|discriminate]. destruct (resolve_file F t) as [b|] eqn:Eb; [|discriminate].
  destruct Hs as [<-|Hs]; [|apply (IH b eq_refl s Hs)].
  destruct (resolve_seg_inv _ _ _ Ea) as (x & X1 & X2 & X3 & _). exists x. auto.
Qed.

(* ---- the premises are satisfiable on a run with internal deduplication ---- *)
Definition ex_cfg2 : dcfg := mkCfg 8 8 1 1 2 1000000 1000.
Definition ex_c1 : chunk := (ex_h 1, 10).
Definition ex_c2 : chunk := (ex_h 2, 20).
Definition ex_U : list chunk := [ex_c1; ex_c2].
Definition ex_blocks : list (list chunk) := [[ex_c1; ex_c2]; [ex_c1]].
Definition ex_file : fd := feed_blocks false ex_cfg2 [] (fd_with_registered []) ex_blocks.
Definition ex_fin := fd_finalize ex_file (ex_h 0) None.
Definition ex_ops : list sop := [OpFile (snd (fst (fst ex_fin))) (snd (fst ex_fin)) (fst (fst (fst ex_fin)), concat ex_blocks)].
Definition ex_F : store := s_uploaded (srun true ex_cfg2 ex_ops).

Lemma ex_F_is : ex_F = [raw_xorb [ex_c1; ex_c2]].
Proof. vm_compute. reflexivity. Qed.
Lemma ex_StoreOk : StoreOk ex_F ex_U.
Proof.
  rewrite ex_F_is. constructor.
  - intros x y [<-|[]] [<-|[]] _. reflexivity.
  - intros x [<-|[]] _. vm_compute. discriminate.
  - intros c c' [<-|[<-|[]]] [<-|[<-|[]]]; try reflexivity; vm_compute; discriminate.
  - intros x c [<-|[]] Hc. rewrite chunks_of_raw in Hc. exact Hc.
  - intros c [<-|[<-|[]]]; vm_compute; reflexivity.
Qed.
Example ex_session_resolves :
  DoneRec ex_F (s_shard_files (srun true ex_cfg2 ex_ops)) (fst (fst (fst ex_fin)), [ex_c1; ex_c2; ex_c1])
  /\ length (f_info ex_file) = 2%nat.
Proof.
  split; [|vm_compute; reflexivity].
  assert (Hf : FInv ex_F ex_U ex_file (concat ex_blocks)).
  { apply (file_resolves ex_F ex_U ex_StoreOk false ex_cfg2 [] [] ex_blocks).
    - intros xh chs cap [].
    - intros b c [<-|[<-|[]]] Hc; cbn in Hc; unfold ex_U; cbn; tauto.
    - intros x Hx. vm_compute in Hx. destruct Hx. }
  destruct (session_resolves ex_F ex_U ex_StoreOk true ex_cfg2 ex_ops) as (A & _ & _).
  - constructor; [|constructor]. apply (file_op_ok ex_F ex_U ex_StoreOk ex_file (concat ex_blocks) (ex_h 0) None Hf).
  - intros x Hx. exact Hx.
  - apply A. left. reflexivity.
Qed.
