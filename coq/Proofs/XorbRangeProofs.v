(* C07: reading any chunk range [a, b) of a serialized xorb returns exactly the concatenation of those chunks. *)
From Coq Require Import ZArith NArith Bool List Lia ZifyBool ZifyN ZifyNat.
Import ListNotations.
From XetModel Require Import Base.Codec Gen.HashConsts Gen.XorbLayout Model.Merkle Model.Shard Model.Xorb
  Proofs.CodecProofs Proofs.DedupProofs Proofs.XorbProofs Proofs.XorbFooterProofs Proofs.XorbWholeProofs.
Open Scope N_scope.

Arguments N.add : simpl never.
Arguments N.mul : simpl never.
Arguments N.sub : simpl never.
Arguments N.ltb : simpl never.
Arguments N.leb : simpl never.
Arguments N.eqb : simpl never.
Arguments N.min : simpl never.
Arguments N.to_nat : simpl never.
Arguments N.of_nat : simpl never.

Definition nsumN (l : list N) : N := fold_right N.add 0 l.

Lemma cumsum_nth : forall l acc k, (k < length l)%nat -> nth_error (cumsum l acc) k = Some (acc + nsumN (firstn (S k) l)).
Proof.
  induction l as [|x l IH]; intros acc k H; [cbn in H; lia|]. cbn [cumsum]. destruct k as [|k].
  - cbn. f_equal. unfold nsumN. cbn. lia.
  - cbn [nth_error]. rewrite IH by (cbn [length] in H; lia). f_equal. unfold nsumN. cbn [firstn fold_right]. lia.
Qed.
Lemma cumsum_last' : forall l a, last (map Some (cumsum l a)) None = match l with [] => None | _ => Some (a + fold_right N.add 0 l) end.
Proof.
  induction l as [|x l IH]; intros a; [reflexivity|]. cbn [cumsum map]. destruct l as [|y l'].
  - cbn. f_equal. lia.
  - change (last (Some (a + x) :: map Some (cumsum (y :: l') (a + x))) None) with (last (map Some (cumsum (y :: l') (a + x))) None).
    rewrite IH. f_equal. cbn [fold_right]. lia.
Qed.
Lemma In_firstn {A} : forall k (l : list A) x, In x (firstn k l) -> In x l.
Proof. induction k as [|k IH]; intros [|y l] x H; cbn in H; try contradiction. destruct H as [->|H]; [left; reflexivity | right; apply IH; exact H]. Qed.
Lemma In_skipn {A} : forall k (l : list A) x, In x (skipn k l) -> In x l.
Proof. induction k as [|k IH]; intros l x H; [exact H|]. destruct l; [exact H | right; apply IH; exact H]. Qed.
Lemma nsumN_firstn_le l : forall k, nsumN (firstn k l) <= nsumN l.
Proof. unfold nsumN. induction l as [|x l IH]; intros [|k]; cbn [firstn fold_right]; try lia. specialize (IH k). lia. Qed.
Lemma nsumN_firstn_mono l : forall a b, (a <= b)%nat -> nsumN (firstn a l) <= nsumN (firstn b l).
Proof.
  unfold nsumN. induction l as [|x l IH]; intros [|a] [|b] H; cbn [firstn fold_right]; try lia. specialize (IH a b ltac:(lia)). lia.
Qed.
Lemma nsumN_firstn_skipn l : forall a m, nsumN (firstn (a + m) l) = nsumN (firstn a l) + nsumN (firstn m (skipn a l)).
Proof.
  unfold nsumN. induction l as [|x l IH]; intros [|a] m; cbn [firstn skipn fold_right plus]; try lia.
  - destruct m; cbn; lia.
  - rewrite IH. lia.
Qed.

Section FlatMap.
  Context {A B : Type} (f : A -> list B).
  Definition lens (l : list A) : list N := map (fun c => N.of_nat (length (f c))) l.
  Lemma flat_map_skipn : forall l a, skipn (N.to_nat (nsumN (firstn a (lens l)))) (flat_map f l) = flat_map f (skipn a l).
  Proof.
    induction l as [|x l IH]; intros [|a]; cbn [lens map firstn skipn flat_map]; try reflexivity.
    - unfold nsumN. cbn [fold_right]. replace (N.to_nat (N.of_nat (length (f x)) + fold_right N.add 0 (firstn a (map (fun c => N.of_nat (length (f c))) l))))
        with (length (f x) + N.to_nat (nsumN (firstn a (lens l))))%nat by (unfold nsumN, lens; lia).
      rewrite skipn_app. rewrite skipn_all2 by lia. cbn [app]. replace (length (f x) + N.to_nat (nsumN (firstn a (lens l))) - length (f x))%nat with (N.to_nat (nsumN (firstn a (lens l)))) by lia.
      apply IH.
  Qed.
  Lemma flat_map_firstn : forall l m, firstn (N.to_nat (nsumN (firstn m (lens l)))) (flat_map f l) = flat_map f (firstn m l).
  Proof.
    induction l as [|x l IH]; intros [|m]; cbn [lens map firstn flat_map]; try reflexivity.
    - unfold nsumN. cbn [fold_right]. replace (N.to_nat (N.of_nat (length (f x)) + fold_right N.add 0 (firstn m (map (fun c => N.of_nat (length (f c))) l))))
        with (length (f x) + N.to_nat (nsumN (firstn m (lens l))))%nat by (unfold nsumN, lens; lia).
      rewrite firstn_app. rewrite firstn_all2 by lia. f_equal.
      replace (length (f x) + N.to_nat (nsumN (firstn m (lens l))) - length (f x))%nat with (N.to_nat (nsumN (firstn m (lens l)))) by lia. apply IH.
  Qed.
  Lemma lens_skipn l a : skipn a (lens l) = lens (skipn a l).
  Proof. unfold lens. rewrite skipn_map. reflexivity. Qed.
  Lemma flat_map_length_lens l : N.of_nat (length (flat_map f l)) = nsumN (lens l).
  Proof. unfold nsumN, lens. induction l as [|x l IH]; [reflexivity|]. cbn [flat_map map fold_right]. rewrite app_length. lia. Qed.
End FlatMap.

Section WithLz4.
  Variable lz4c : list N -> list N.
  Variable lz4d : list N -> option (list N).
  Variable choose : list N -> N.
  Hypothesis lz4_roundtrip : forall x, lz4d (lz4c x) = Some x.
  Hypothesis choose_valid : forall x, choose x <= MAX_SCHEME.
  Notation ser1 := (serialize_chunk lz4c choose).

  Theorem xorb_get_chunk_range cashash chunks hashes scheme a b :
    xorb_input_ok cashash chunks hashes -> fold_right N.add 0 (phys_lens lz4c choose chunks scheme) < 4294967296 ->
    bytes_eqb cashash zero_hash = false -> scheme_valid scheme ->
    a < b -> b <= N.of_nat (length chunks) ->
    get_bytes_by_chunk_range lz4d (built_info lz4c choose cashash chunks hashes scheme) (xorb_serialize lz4c choose cashash chunks hashes scheme) a b =
    ROk (concat (firstn (N.to_nat (b - a)) (skipn (N.to_nat a) chunks))).
  Proof.
    intros Hin Hp Hz Hs Hab Hbn. pose proof Hin as (H1 & H2 & H3 & H4 & H5 & H6).
    set (i := built_info lz4c choose cashash chunks hashes scheme).
    set (phys := phys_lens lz4c choose chunks scheme) in *.
    assert (Ephys : phys = lens (fun c => ser1 c scheme) chunks) by reflexivity.
    assert (Lphys : length phys = length chunks) by (unfold phys, phys_lens; apply map_length).
    assert (Hne : chunks <> []) by (intro E; subst chunks; cbn in Hbn; lia).
    assert (Hok : info_ok i = true).
    { unfold info_ok, i, built_info. cbn [i_num_chunks i_boundaries i_hashes i_bnd_version i_unpacked i_cashash].
      rewrite !cumsum_length. unfold phys_lens. rewrite !map_length. rewrite H3, Hz.
      destruct chunks; [congruence|]. cbn [length]. rewrite !N.eqb_refl. cbn.
      replace (N.of_nat (S (length chunks)) =? 0) with false by lia. reflexivity. }
    assert (Hb : i_boundaries i = cumsum phys 0) by reflexivity.
    assert (Hn : i_num_chunks i = N.of_nat (length chunks)) by reflexivity.
    set (S_ := fun k : N => nsumN (firstn (N.to_nat k) phys)).
    assert (Hoff : get_byte_offset i a b = ROk (S_ a, S_ b)).
    { unfold get_byte_offset. rewrite Hok, Hn. cbn [negb]. replace ((b <=? a) || (N.of_nat (length chunks) <? b)) with false by lia.
      unfold nthN. rewrite Hb.
      rewrite (cumsum_nth phys 0 (N.to_nat (b - 1))) by lia. replace (S (N.to_nat (b - 1))) with (N.to_nat b) by lia.
      destruct (a =? 0) eqn:Ea.
      - apply N.eqb_eq in Ea. subst a. unfold S_. replace (N.to_nat 0) with 0%nat by lia. cbn [firstn]. change (nsumN []) with 0.
        replace (0 + nsumN (firstn (N.to_nat b) phys)) with (nsumN (firstn (N.to_nat b) phys)) by lia. reflexivity.
      - rewrite (cumsum_nth phys 0 (N.to_nat (a - 1))) by lia. replace (S (N.to_nat (a - 1))) with (N.to_nat a) by lia. unfold S_.
        replace (0 + nsumN (firstn (N.to_nat b) phys)) with (nsumN (firstn (N.to_nat b) phys)) by lia.
        replace (0 + nsumN (firstn (N.to_nat a) phys)) with (nsumN (firstn (N.to_nat a) phys)) by lia. reflexivity. }
    unfold get_bytes_by_chunk_range. rewrite Hoff.
    assert (Hlast : last (map Some (i_boundaries i)) None = Some (nsumN phys)).
    { rewrite Hb, cumsum_last'. destruct phys as [|p0 pr] eqn:Ep; [destruct chunks; [congruence | discriminate Lphys]|]. unfold nsumN. replace (0 + fold_right N.add 0 (p0 :: pr)) with (fold_right N.add 0 (p0 :: pr)) by lia. reflexivity. }
    assert (Mab : S_ a <= S_ b) by (unfold S_; apply nsumN_firstn_mono; lia).
    assert (Mb : S_ b <= nsumN phys) by (unfold S_; apply nsumN_firstn_le).
    unfold get_range. replace (S_ b <? S_ a) with false by lia. rewrite Hok, Hlast. cbn [negb].
    replace (N.min (S_ b) (nsumN phys)) with (S_ b) by lia. replace (S_ b <? S_ a) with false by lia.
    fold i. rewrite xorb_serialize_shape. fold i. set (body := flat_map (fun c => ser1 c scheme) chunks). set (foot := ser_info i ++ u32 (N.of_nat (length (ser_info i)))).
    assert (Hbl : N.of_nat (length body) = nsumN phys) by (unfold body; rewrite flat_map_length_lens; rewrite Ephys; reflexivity).
    rewrite app_length. replace (N.of_nat (length body + length foot) <? S_ b) with false by lia.
    (* the bytes between the two offsets are the serialized chunks a .. b-1 *)
    assert (Hslice : firstn (N.to_nat (S_ b - S_ a)) (skipn (N.to_nat (S_ a)) (body ++ foot)) =
                     flat_map (fun c => ser1 c scheme) (firstn (N.to_nat (b - a)) (skipn (N.to_nat a) chunks))).
    { rewrite skipn_app. replace (N.to_nat (S_ a) - length body)%nat with 0%nat by lia. cbn [skipn].
      assert (Ed : S_ b - S_ a = nsumN (firstn (N.to_nat (b - a)) (lens (fun c => ser1 c scheme) (skipn (N.to_nat a) chunks)))).
      { unfold S_. replace (N.to_nat b) with (N.to_nat a + N.to_nat (b - a))%nat by lia. rewrite nsumN_firstn_skipn. rewrite Ephys, lens_skipn. lia. }
      rewrite Ed. clear Ed.
      assert (Es : skipn (N.to_nat (S_ a)) body = flat_map (fun c => ser1 c scheme) (skipn (N.to_nat a) chunks)).
      { unfold S_, body. rewrite Ephys. apply flat_map_skipn. }
      rewrite Es. rewrite firstn_app.
      set (sub := skipn (N.to_nat a) chunks) in *.
      assert (Hle : nsumN (firstn (N.to_nat (b - a)) (lens (fun c => ser1 c scheme) sub)) <= N.of_nat (length (flat_map (fun c => ser1 c scheme) sub))).
      { rewrite flat_map_length_lens. apply nsumN_firstn_le. }
      replace (N.to_nat (nsumN (firstn (N.to_nat (b - a)) (lens (fun c : list N => ser1 c scheme) sub))) - length (flat_map (fun c : list N => ser1 c scheme) sub))%nat with 0%nat by lia.
      cbn [firstn]. rewrite app_nil_r. apply flat_map_firstn. }
    rewrite Hslice. set (sub := firstn (N.to_nat (b - a)) (skipn (N.to_nat a) chunks)).
    assert (HFs : Forall chunk_valid sub).
    { apply Forall_forall. intros c Hc. rewrite Forall_forall in H4. apply H4. unfold sub in Hc. apply In_firstn in Hc. apply In_skipn in Hc. exact Hc. }
    pose proof (deserialize_chunks_spec lz4c lz4d choose lz4_roundtrip choose_valid sub scheme (S (length body + length foot)) [] [] 0 0 HFs Hs) as HD.
    rewrite ser_chunks_spec in HD. cbn [fst] in HD. rewrite HD; [reflexivity|].
    assert (length sub <= length chunks)%nat by (unfold sub; rewrite firstn_length, skipn_length; lia).
    assert (length chunks <= length body)%nat; [|lia].
    unfold body. clear. induction chunks as [|c r IH]; [cbn; lia|]. cbn [flat_map length]. rewrite app_length.
    assert (1 <= length (ser1 c scheme))%nat by (rewrite serialize_chunk_shape, app_length; cbn [length enc_chdr app le_bytes]; lia). lia.
  Qed.

End WithLz4.

  (* ... and the footer's unpacked offsets give exactly the length of that concatenation *)
  Theorem xorb_uncompressed_range_length (lz4c : list N -> list N) (choose : list N -> N) cashash chunks hashes scheme a b :
    xorb_input_ok cashash chunks hashes -> bytes_eqb cashash zero_hash = false ->
    a <= b -> b <= N.of_nat (length chunks) -> a < N.of_nat (length chunks) ->
    uncompressed_range_length (built_info lz4c choose cashash chunks hashes scheme) a b =
    ROk (N.of_nat (length (concat (firstn (N.to_nat (b - a)) (skipn (N.to_nat a) chunks))))).
  Proof.
    intros Hin Hz Hab Hbn Han. pose proof Hin as (H1 & H2 & H3 & H4 & H5 & H6).
    set (i := built_info lz4c choose cashash chunks hashes scheme).
    set (ul := map (fun c : list N => N.of_nat (length c)) chunks).
    assert (Lul : length ul = length chunks) by (unfold ul; apply map_length).
    assert (Hok : info_ok i = true).
    { unfold info_ok, i, built_info. cbn [i_num_chunks i_boundaries i_hashes i_bnd_version i_unpacked i_cashash].
      rewrite !cumsum_length. unfold phys_lens. rewrite !map_length. rewrite H3, Hz.
      destruct chunks; [cbn in Han; lia|]. cbn [length]. rewrite !N.eqb_refl. cbn.
      replace (N.of_nat (S (length chunks)) =? 0) with false by lia. reflexivity. }
    unfold uncompressed_range_length. rewrite Hok. cbn [negb]. change (i_num_chunks i) with (N.of_nat (length chunks)).
    replace ((b <? a) || (N.of_nat (length chunks) <? b) || (N.of_nat (length chunks) <=? a)) with false by lia.
    assert (Elen : forall l : list (list N), N.of_nat (length (concat l)) = nsumN (map (fun c => N.of_nat (length c)) l)).
    { unfold nsumN. induction l as [|c r IH]; [reflexivity|]. cbn [concat map fold_right]. rewrite app_length. lia. }
    destruct (a =? b) eqn:Eab.
    - apply N.eqb_eq in Eab. subst b. rewrite N.sub_diag. reflexivity.
    - change (i_unpacked i) with (cumsum ul 0). unfold nthN.
      rewrite (cumsum_nth ul 0 (N.to_nat (b - 1))) by lia. replace (S (N.to_nat (b - 1))) with (N.to_nat b) by lia.
      assert (Esub : nsumN (firstn (N.to_nat b) ul) = nsumN (firstn (N.to_nat a) ul) + N.of_nat (length (concat (firstn (N.to_nat (b - a)) (skipn (N.to_nat a) chunks))))).
      { rewrite Elen. replace (N.to_nat b) with (N.to_nat a + N.to_nat (b - a))%nat by lia. rewrite nsumN_firstn_skipn. f_equal.
        unfold ul. rewrite skipn_map, firstn_map. reflexivity. }
      destruct (a =? 0) eqn:Ea.
      + apply N.eqb_eq in Ea. subst a. replace (N.to_nat 0) with 0%nat in * by lia. cbn [firstn] in Esub. change (nsumN []) with 0 in Esub.
        replace (0 + nsumN (firstn (N.to_nat b) ul) <? 0) with false by lia. f_equal. lia.
      + rewrite (cumsum_nth ul 0 (N.to_nat (a - 1))) by lia. replace (S (N.to_nat (a - 1))) with (N.to_nat a) by lia.
        replace (0 + nsumN (firstn (N.to_nat b) ul) <? 0 + nsumN (firstn (N.to_nat a) ul)) with false by lia. f_equal. lia.
  Qed.

  (* ---- adjacent ranges ---- *)

Lemma firstn_add_split {A} : forall n m (l : list A), firstn (n + m) l = firstn n l ++ firstn m (skipn n l).
Proof. induction n as [|n IH]; intros m l; [reflexivity|]. destruct l as [|x r]; [cbn; destruct m; reflexivity|]. cbn [Nat.add firstn skipn app]. rewrite IH. reflexivity. Qed.

Lemma skipn_skipn' {A} : forall x y (l : list A), skipn x (skipn y l) = skipn (y + x) l.
Proof. intros x y; revert x. induction y as [|y IH]; intros x l; [reflexivity|]. destruct l as [|h r]; [cbn; destruct x; reflexivity|]. cbn [Nat.add skipn]. apply IH. Qed.

Lemma chunk_range_split {A} (l : list (list A)) a b c : a <= b -> b <= c ->
  concat (firstn (N.to_nat (c - a)) (skipn (N.to_nat a) l)) =
  concat (firstn (N.to_nat (b - a)) (skipn (N.to_nat a) l)) ++ concat (firstn (N.to_nat (c - b)) (skipn (N.to_nat b) l)).
Proof.
  intros Hab Hbc. replace (N.to_nat (c - a)) with (N.to_nat (b - a) + N.to_nat (c - b))%nat by lia.
  rewrite firstn_add_split, concat_app, skipn_skipn'. replace (N.to_nat a + N.to_nat (b - a))%nat with (N.to_nat b) by lia. reflexivity.
Qed.

(* reads of two adjacent chunk ranges concatenate to the read of their union: splitting a term over two fetches loses and repeats nothing *)
Theorem xorb_adjacent_ranges_concat lz4c lz4d choose :
  (forall x, lz4d (lz4c x) = Some x) -> (forall x, choose x <= MAX_SCHEME) ->
  forall cashash chunks hashes scheme a b c,
  xorb_input_ok cashash chunks hashes -> fold_right N.add 0 (phys_lens lz4c choose chunks scheme) < 4294967296 ->
  bytes_eqb cashash zero_hash = false -> scheme_valid scheme -> a < b -> b < c -> c <= N.of_nat (length chunks) ->
  let rd := get_bytes_by_chunk_range lz4d (built_info lz4c choose cashash chunks hashes scheme) (xorb_serialize lz4c choose cashash chunks hashes scheme) in
  exists x y, rd a b = ROk x /\ rd b c = ROk y /\ rd a c = ROk (x ++ y).
Proof.
  intros Hrt Hcv cashash chunks hashes scheme a b c Hin Hp Hz Hs Hab Hbc Hcn rd.
  exists (concat (firstn (N.to_nat (b - a)) (skipn (N.to_nat a) chunks))), (concat (firstn (N.to_nat (c - b)) (skipn (N.to_nat b) chunks))).
  unfold rd. repeat split.
  - apply (xorb_get_chunk_range lz4c lz4d choose Hrt Hcv); auto; lia.
  - apply (xorb_get_chunk_range lz4c lz4d choose Hrt Hcv); auto; lia.
  - rewrite <- chunk_range_split by lia. apply (xorb_get_chunk_range lz4c lz4d choose Hrt Hcv); auto; lia.
Qed.

  (* ---- the error branch ---- *)

Lemma built_info_ok lz4c choose cashash chunks hashes scheme :
  xorb_input_ok cashash chunks hashes -> bytes_eqb cashash zero_hash = false -> chunks <> [] ->
  info_ok (built_info lz4c choose cashash chunks hashes scheme) = true.
Proof.
  intros Hin Hz Hne. pose proof Hin as (H1 & H2 & H3 & H4 & H5 & H6).
  unfold info_ok, built_info. cbn [i_num_chunks i_boundaries i_hashes i_bnd_version i_unpacked i_cashash].
  rewrite !cumsum_length. unfold phys_lens. rewrite !map_length. rewrite H3, Hz.
  destruct chunks; [congruence|]. cbn [length]. rewrite !N.eqb_refl. cbn.
  replace (N.of_nat (S (length chunks)) =? 0) with false by lia. reflexivity.
Qed.

(* the error branch: an empty, inverted or out-of-range chunk range is refused as InvalidArguments whatever the bytes are --
   no panic, no bytes handed out *)
Theorem xorb_bad_range_refused lz4c lz4d choose cashash chunks hashes scheme bs a b :
  xorb_input_ok cashash chunks hashes -> bytes_eqb cashash zero_hash = false -> chunks <> [] ->
  b <= a \/ N.of_nat (length chunks) < b ->
  get_bytes_by_chunk_range lz4d (built_info lz4c choose cashash chunks hashes scheme) bs a b = RErr.
Proof.
  intros Hin Hz Hne Hbad. unfold get_bytes_by_chunk_range, get_byte_offset.
  rewrite (built_info_ok lz4c choose cashash chunks hashes scheme Hin Hz Hne). cbn [negb].
  change (i_num_chunks (built_info lz4c choose cashash chunks hashes scheme)) with (N.of_nat (length chunks)).
  replace ((b <=? a) || (N.of_nat (length chunks) <? b)) with true by lia. reflexivity.
Qed.

Theorem xorb_bad_range_length_refused lz4c choose cashash chunks hashes scheme a b :
  xorb_input_ok cashash chunks hashes -> bytes_eqb cashash zero_hash = false -> chunks <> [] ->
  b < a \/ N.of_nat (length chunks) < b \/ N.of_nat (length chunks) <= a ->
  uncompressed_range_length (built_info lz4c choose cashash chunks hashes scheme) a b = RErr.
Proof.
  intros Hin Hz Hne Hbad. unfold uncompressed_range_length.
  rewrite (built_info_ok lz4c choose cashash chunks hashes scheme Hin Hz Hne). cbn [negb].
  change (i_num_chunks (built_info lz4c choose cashash chunks hashes scheme)) with (N.of_nat (length chunks)).
  replace ((b <? a) || (N.of_nat (length chunks) <? b) || (N.of_nat (length chunks) <=? a)) with true by lia. reflexivity.
Qed.

  (* ---- the two read paths agree ---- *)

(* the two read paths agree: the range of all chunks is what get_all_bytes returns *)
Theorem xorb_full_range_is_all_bytes lz4c lz4d choose :
  (forall x, lz4d (lz4c x) = Some x) -> (forall x, choose x <= MAX_SCHEME) ->
  forall cashash chunks hashes scheme,
  xorb_input_ok cashash chunks hashes -> fold_right N.add 0 (phys_lens lz4c choose chunks scheme) < 4294967296 ->
  chunks <> [] -> bytes_eqb cashash zero_hash = false -> scheme_valid scheme ->
  get_bytes_by_chunk_range lz4d (built_info lz4c choose cashash chunks hashes scheme) (xorb_serialize lz4c choose cashash chunks hashes scheme) 0 (N.of_nat (length chunks)) =
  get_all_bytes lz4d (built_info lz4c choose cashash chunks hashes scheme) (xorb_serialize lz4c choose cashash chunks hashes scheme).
Proof.
  intros Hrt Hcv cashash chunks hashes scheme Hin Hp Hne Hz Hs.
  rewrite (xorb_get_all_bytes lz4c lz4d choose Hrt Hcv cashash chunks hashes scheme Hin Hp Hne Hz Hs).
  rewrite (xorb_get_chunk_range lz4c lz4d choose Hrt Hcv cashash chunks hashes scheme 0 (N.of_nat (length chunks)) Hin Hp Hz Hs).
  - replace (N.to_nat 0) with 0%nat by lia. cbn [skipn]. replace (N.to_nat (N.of_nat (length chunks) - 0)) with (length chunks) by lia.
    rewrite firstn_all. reflexivity.
  - destruct chunks; [congruence|]. cbn [length]. lia.
  - lia.
Qed.

  (* ---- reported length = bytes returned ---- *)

(* the length the footer reports for a range is the length of the bytes the range read returns *)
Theorem xorb_range_length_is_length_of_range lz4c lz4d choose :
  (forall x, lz4d (lz4c x) = Some x) -> (forall x, choose x <= MAX_SCHEME) ->
  forall cashash chunks hashes scheme a b,
  xorb_input_ok cashash chunks hashes -> fold_right N.add 0 (phys_lens lz4c choose chunks scheme) < 4294967296 ->
  bytes_eqb cashash zero_hash = false -> scheme_valid scheme -> a < b -> b <= N.of_nat (length chunks) ->
  exists d,
    get_bytes_by_chunk_range lz4d (built_info lz4c choose cashash chunks hashes scheme) (xorb_serialize lz4c choose cashash chunks hashes scheme) a b = ROk d /\
    uncompressed_range_length (built_info lz4c choose cashash chunks hashes scheme) a b = ROk (N.of_nat (length d)).
Proof.
  intros Hrt Hcv cashash chunks hashes scheme a b Hin Hp Hz Hs Hab Hbn.
  exists (concat (firstn (N.to_nat (b - a)) (skipn (N.to_nat a) chunks))). split.
  - apply (xorb_get_chunk_range lz4c lz4d choose Hrt Hcv); assumption.
  - apply xorb_uncompressed_range_length; auto; lia.
Qed.
