(* C19, "after any prior history": a history is a sequence of operations, each given by its plan and the number of file-system
   effects of it that happened before the process stopped (all of them: the operation completed).  When every operation's plan
   is safe for the state it starts in -- which may be the state an interrupted earlier operation left behind, e.g. a
   consolidation run again after a crash -- the directory is consistent after the whole history and everything that was
   retrievable at its start still is. *)
From Coq Require Import List NArith Bool Arith Lia.
Import ListNotations.
From XetModel Require Import Base.Codec Gen.ShardLayout Model.Merkle Model.Shard Model.Crash Proofs.CrashProofs.
Open Scope N_scope.

Section History.
  Variable R : Type.
  Variable final : fname -> bool.
  Variable good : fname -> list N -> Prop.
  Variable recs : list N -> R -> Prop.

  Definition stop_state (f : fsd) (op : list pstep * nat) : fsd := apply_effs f (firstn (snd op) (plan_effs (fst op))).
  Fixpoint run_history (f : fsd) (h : list (list pstep * nat)) : fsd :=
    match h with [] => f | op :: r => run_history (stop_state f op) r end.
  Fixpoint SafeHistory (f : fsd) (h : list (list pstep * nat)) : Prop :=
    match h with [] => True | op :: r => SafePlan R final good recs f (fst op) /\ SafeHistory (stop_state f op) r end.

  Theorem history_safe : forall h f, Consistent final good f -> SafeHistory f h ->
    Consistent final good (run_history f h) /\ Keeps R final recs f (run_history f h).
  Proof.
    induction h as [|[pl n] r IH]; intros f C H; cbn [run_history SafeHistory] in *; [split; [exact C | apply Keeps_refl]|].
    destruct H as [Hs Hr]. destruct (safe_plan_crash R final good recs pl f n C Hs) as [C1 K1].
    destruct (IH _ C1 Hr) as [C2 K2]. split; [exact C2|]. eapply Keeps_trans; [exact K1 | exact K2].
  Qed.
End History.

(* non-vacuity: the two-shard directory of CrashProofs' example; the consolidation "write M, unlink A, unlink B" stops after
   the first unlink, is run again on what is left (M and B: write M again over itself, unlink B) and stops between creating
   the temporary file and the rename, then a third time to its end.  Records: the bytes of a file. *)
Definition hx_final (n : fname) : bool := match n with [c] => (65 <=? c) && (c <=? 90) | _ => false end.   (* one capital letter *)
Definition hx_good (n : fname) (c : list N) : Prop := True.
Definition hx_recs (c : list N) (x : N) : Prop := In x c.
Definition hx_f0 : fsd := [([65], [1]); ([66], [2])].
Definition hx_hist : list (list pstep * nat) :=
  [ ([PWrite [46; 116] [77] [[1; 2]]; PUnlink [65]; PUnlink [66]], 4%nat);
    ([PWrite [46; 117] [77] [[1; 2]]; PUnlink [66]], 2%nat);
    ([PWrite [46; 118] [77] [[1; 2]]; PUnlink [66]], 4%nat) ].
Lemma hx_sub (c : list N) x : In c [[1]; [2]; [1; 2]] -> hx_recs c x -> hx_recs [1; 2] x.
Proof. intros Hc H. unfold hx_recs in *. destruct Hc as [<-|[<-|[<-|[]]]]; cbn [In] in *; intuition. Qed.

Example history_example :
  SafeHistory N hx_final hx_good hx_recs hx_f0 hx_hist /\
  run_history hx_f0 hx_hist = [([77], [1; 2]); ([46; 117], [1; 2])].
Proof.
  split; [|vm_compute; reflexivity].
  cbn [SafeHistory hx_hist fst snd]. split; [|split; [|split; [|exact I]]].
  - apply (group_plan_safe N hx_final hx_good hx_recs hx_f0 [46; 116] [77] [1; 2] [[65]; [66]]); try reflexivity; try exact I.
    + vm_compute. discriminate.
    + intros d [<-|[<-|[]]]; (split; [discriminate|]; split; [discriminate|]); intros c H x; vm_compute in H; injection H as <-; apply hx_sub; cbn; tauto.
  - apply (group_plan_safe N hx_final hx_good hx_recs _ [46; 117] [77] [1; 2] [[66]]); try reflexivity; try exact I.
    + intros c H x. vm_compute in H. injection H as <-. auto.
    + intros d [<-|[]]. split; [discriminate|]. split; [discriminate|]. intros c H x; vm_compute in H; injection H as <-; apply hx_sub; cbn; tauto.
  - apply (group_plan_safe N hx_final hx_good hx_recs _ [46; 118] [77] [1; 2] [[66]]); try reflexivity; try exact I.
    + intros c H x. vm_compute in H. injection H as <-. auto.
    + intros d [<-|[]]. split; [discriminate|]. split; [discriminate|]. intros c H x; vm_compute in H; injection H as <-; apply hx_sub; cbn; tauto.
Qed.
