(* Dedup pipeline (Model/Dedup.v): metric conservation (C14), xorb limits (C15), what the file hash depends on (C03),
   recording of new xorbs (C11). *)
From Coq Require Import ZArith NArith Bool List Lia ZifyBool ZifyN ZifyNat.
Import ListNotations.
From XetModel Require Import Base.Codec Gen.ShardLayout Model.Merkle Model.Shard Model.Dedup.
Open Scope N_scope.

Arguments N.add : simpl never.
Arguments N.mul : simpl never.
Arguments N.sub : simpl never.
Arguments N.ltb : simpl never.
Arguments N.leb : simpl never.
Arguments N.eqb : simpl never.
Arguments N.land : simpl never.
Arguments N.to_nat : simpl never.
Arguments N.of_nat : simpl never.

(* ---------------------------------------------------------------- C14: conservation *)
Definition mcons (m : metrics) : Prop :=
  m_new_bytes m + m_deduped_bytes m = m_total_bytes m /\ m_new_chunks m + m_deduped_chunks m = m_total_chunks m.

Lemma mcons_m0 : mcons m0.
Proof. split; reflexivity. Qed.
Lemma mcons_bump_dedup m n b : mcons m -> mcons (bump_dedup m n b).
Proof. intros [H1 H2]. unfold mcons, bump_dedup. cbn. lia. Qed.
Lemma mcons_bump_new m b : mcons m -> mcons (bump_new m b).
Proof. intros [H1 H2]. unfold mcons, bump_new. cbn. lia. Qed.
Lemma mcons_bump_defrag m n b : mcons m -> mcons (bump_defrag m n b).
Proof. intros [H1 H2]. unfold mcons, bump_defrag. cbn. lia. Qed.
Lemma mcons_add a b : mcons a -> mcons b -> mcons (m_add a b).
Proof. intros [H1 H2] [H3 H4]. unfold mcons, m_add. cbn. lia. Qed.

(* metrics of the pieces of a step *)
Lemma add_fse_metrics cf f s n : f_metrics (add_fse cf f s n) = f_metrics f.
Proof. unfold add_fse. destruct (continues f s); reflexivity. Qed.
Lemma cut_xorb_metrics f : f_metrics (cut_xorb f) = f_metrics f.
Proof. reflexivity. Qed.
Lemma add_new_chunk_metrics cf f c : f_metrics (add_new_chunk cf f c) = bump_new (f_metrics f) (snd c).
Proof.
  unfold add_new_chunk. cbn [with_metrics f_new f_metrics].
  destruct (_ || _); cbn [f_new f_info f_metrics cut_xorb]; destruct (match last_seg _ with Some _ => _ | None => _ end); reflexivity.
Qed.

(* in the source shape where a dedup answer is booked only when it is accepted: every step keeps new+deduped = total *)
Lemma step_mcons cf f c rest ans : mcons (f_metrics f) -> mcons (f_metrics (fst (step false cf f c rest ans))).
Proof.
  intros H. unfold step, step_with. destruct (match ans with Some a => Some a | None => local_query f rest end) as [[n s]|].
  - destruct (continues f s).
    + cbn [fst]. rewrite add_fse_metrics. cbn [with_metrics f_metrics]. apply mcons_bump_dedup; assumption.
    + destruct (d_allow cf (f_defrag f) n) as [ok d']. destruct ok; cbn [fst].
      * rewrite add_fse_metrics. cbn [with_metrics with_defrag f_metrics]. apply mcons_bump_dedup; assumption.
      * rewrite add_new_chunk_metrics. cbn [with_metrics with_defrag f_metrics]. apply mcons_bump_new, mcons_bump_defrag; assumption.
  - cbn [fst]. rewrite add_new_chunk_metrics. apply mcons_bump_new; assumption.
Qed.

Lemma process_loop_mcons cf : forall fuel f chunks answers, mcons (f_metrics f) -> mcons (f_metrics (process_loop fuel false cf f chunks answers)).
Proof.
  induction fuel as [|fuel IH]; intros f chunks answers H; cbn [process_loop]; [assumption|].
  destruct chunks as [|c r]; [assumption|].
  destruct (step false cf f c (map fst (c :: r)) (hd None answers)) as [f' n] eqn:E.
  apply IH. pose proof (step_mcons cf f c (map fst (c :: r)) (hd None answers) H) as H1. rewrite E in H1. exact H1.
Qed.

Theorem process_chunks_conservation cf f chunks answers :
  mcons (f_metrics f) -> mcons (f_metrics (process_chunks false cf f chunks answers)).
Proof. intros H. unfold process_chunks. cbn [f_metrics]. apply process_loop_mcons; assumption. Qed.

(* the chunk total: every step books exactly the chunks it consumes *)
Lemma step_total_chunks cf f c rest ans :
  m_total_chunks (f_metrics (fst (step false cf f c rest ans))) = m_total_chunks (f_metrics f) + snd (step false cf f c rest ans).
Proof.
  unfold step, step_with. destruct (match ans with Some a => Some a | None => local_query f rest end) as [[n s]|].
  - destruct (continues f s).
    + cbn [fst snd]. rewrite add_fse_metrics. reflexivity.
    + destruct (d_allow cf (f_defrag f) n) as [ok d']. destruct ok; cbn [fst snd].
      * rewrite add_fse_metrics. reflexivity.
      * rewrite add_new_chunk_metrics. reflexivity.
  - cbn [fst snd]. rewrite add_new_chunk_metrics. reflexivity.
Qed.

(* an answer is usable at a position if it covers at least one and at most the remaining chunks *)
Definition ans_fits (remaining : nat) (a : option (N * seg)) : Prop :=
  match a with Some (n, _) => 1 <= n /\ n <= N.of_nat remaining | None => True end.
Definition answers_fit (chunks : list chunk) (answers : list (option (N * seg))) : Prop :=
  forall k, ans_fits (length (skipn k chunks)) (hd None (skipn k answers)).

Lemma local_run_le lookup : forall qs base i, local_run lookup base i qs <= N.of_nat (length qs).
Proof.
  induction qs as [|q r IH]; intros base i; cbn [local_run length]; [lia|].
  destruct (lk (hkey q) lookup) as [idx|]; [|lia]. destruct (idx =? base + i); [|lia]. specialize (IH base (i + 1)). lia.
Qed.
Lemma local_query_fits f qs n s : local_query f qs = Some (n, s) -> 1 <= n /\ n <= N.of_nat (length qs).
Proof.
  unfold local_query. destruct qs as [|q0 r]; [discriminate|]. destruct (lk (hkey q0) (f_lookup f)) as [base|]; [|discriminate].
  inversion 1; subst. pose proof (local_run_le (f_lookup f) r base 1). cbn [length]. lia.
Qed.

Lemma skipn_skipn_add {A} : forall a m (l : list A), skipn m (skipn a l) = skipn (a + m) l.
Proof. induction a as [|a IH]; intros m l; [reflexivity|]. destruct l; cbn; [destruct m; reflexivity|apply IH]. Qed.

Lemma process_loop_total_chunks cf : forall fuel f chunks answers, (length chunks <= fuel)%nat -> answers_fit chunks answers ->
  m_total_chunks (f_metrics (process_loop fuel false cf f chunks answers)) = m_total_chunks (f_metrics f) + N.of_nat (length chunks).
Proof.
  induction fuel as [|fuel IH]; intros f chunks answers Hf Ha.
  - destruct chunks; [cbn; lia|cbn in Hf; lia].
  - cbn [process_loop]. destruct chunks as [|c r]; [cbn; lia|]. set (chunks := c :: r) in *.
    pose proof (step_total_chunks cf f c (map fst chunks) (hd None answers)) as HS.
    destruct (step false cf f c (map fst chunks) (hd None answers)) as [f' n] eqn:E. cbn [fst snd] in HS.
    (* the consumed count is between 1 and the number of remaining chunks *)
    assert (Hlen : (1 <= length chunks)%nat) by (unfold chunks; cbn [length]; lia).
    assert (Hn : 1 <= n /\ n <= N.of_nat (length chunks)).
    { unfold step, step_with in E. pose proof (Ha 0%nat) as H0. cbn [skipn] in H0.
      destruct (hd None answers) as [[k s]|] eqn:Eh.
      - cbn [ans_fits] in H0. destruct (continues f s); [inversion E; subst; exact H0|].
        destruct (d_allow cf (f_defrag f) k) as [ok d']. destruct ok; inversion E; subst; [exact H0|]. lia.
      - destruct (local_query f (map fst chunks)) as [[k s]|] eqn:El.
        + apply local_query_fits in El. rewrite map_length in El.
          destruct (continues f s); [inversion E; subst; exact El|].
          destruct (d_allow cf (f_defrag f) k) as [ok d']. destruct ok; inversion E; subst; [exact El|]. lia.
        + inversion E; subst. lia. }
    replace (N.max n 1) with n by lia.
    rewrite IH.
    + rewrite HS. rewrite skipn_length. lia.
    + rewrite skipn_length. cbn [length] in Hf. unfold chunks in *. cbn [length] in *. lia.
    + intros k. rewrite !skipn_skipn_add. apply Ha.
Qed.

(* C14, chunk half: after process_chunks the file's total chunk count has grown by exactly the chunks fed, for any
   oracle whose answers cover between 1 and the remaining number of chunks (and any fragmentation decisions) *)
Theorem process_chunks_total_chunks cf f chunks answers : answers_fit chunks answers ->
  m_total_chunks (f_metrics (process_chunks false cf f chunks answers)) = m_total_chunks (f_metrics f) + N.of_nat (length chunks).
Proof. intros Ha. unfold process_chunks. cbn [f_metrics]. apply process_loop_total_chunks; [lia|assumption]. Qed.

(* ... and the other shape (booked before the decision) breaks it: a dedup answer rejected by fragmentation
   prevention is counted as deduplicated and again as new -- the witness the check found *)
Definition ex_cfg : dcfg := mkCfg 1 8 1 1 2 1000000 1000.
Definition ex_h (b : N) : hash := repeat b 32%nat.
Definition ex_seg : seg := mkSeg (ex_h 9) 0 10 0 1.
Definition ex_fd : fd := mkFD [] [] [] [mkSeg (ex_h 8) 0 10 0 1] [] (mkD [3] 3 true) m0 [] [].
Theorem booked_before_decision_refuted :
  let r := step true ex_cfg ex_fd (ex_h 1, 10) [ex_h 1] (Some (1, ex_seg)) in
  snd r = 1 /\ m_total_chunks (f_metrics (fst r)) = 2 /\ m_total_bytes (f_metrics (fst r)) = 20.
Proof. vm_compute. repeat split. Qed.

(* session level: the session's metrics are the sums of what the files report *)
Theorem register_completion_metrics rc cf s file m :
  s_metrics (register_completion rc cf s file m) = m_add (s_metrics s) m.
Proof.
  unfold register_completion. destruct (_ || _).
  - destruct (a_bytes file <? a_bytes (s_cur s)); unfold process_agg; destruct (agg_finalize _); reflexivity.
  - reflexivity.
Qed.

(* ---------------------------------------------------------------- C15: limits *)
Definition cfg_ok (cf : dcfg) : Prop := 1 <= c_max_xorb_chunks cf.
Definition chunk_fits (cf : dcfg) (c : chunk) : Prop := 1 <= snd c /\ snd c <= c_max_xorb_bytes cf.
Definition xorb_ok (cf : dcfg) (x : cas_info) : Prop :=
  1 <= N.of_nat (length (ci_chunks x)) /\ N.of_nat (length (ci_chunks x)) <= c_max_xorb_chunks cf /\ ci_nbytes x <= c_max_xorb_bytes cf.
Definition pending_ok (cf : dcfg) (f : fd) : Prop :=
  sum_lens (f_new f) <= c_max_xorb_bytes cf /\ N.of_nat (length (f_new f)) <= c_max_xorb_chunks cf.
Definition fd_ok (cf : dcfg) (f : fd) : Prop := pending_ok cf f /\ Forall (xorb_ok cf) (f_registered f).

Lemma cas_entries_length : forall chs p, length (cas_entries chs p) = length chs.
Proof. induction chs as [|[h l] r IH]; intros p; cbn [cas_entries length]; [reflexivity|]. rewrite IH. reflexivity. Qed.
Lemma sum_lens_app a b : sum_lens (a ++ b) = sum_lens a + sum_lens b.
Proof. unfold sum_lens. induction a as [|x a IH]; cbn [app fold_right]; [lia|]. rewrite IH. lia. Qed.

Lemma add_fse_new cf f s n : f_new (add_fse cf f s n) = f_new f /\ f_registered (add_fse cf f s n) = f_registered f.
Proof. unfold add_fse. destruct (continues f s); split; reflexivity. Qed.

Definition cuts (cf : dcfg) (f : fd) (c : chunk) : bool :=
  (c_max_xorb_bytes cf <? sum_lens (f_new f) + snd c) || (c_max_xorb_chunks cf <? N.of_nat (length (f_new f)) + 1).

Lemma add_new_chunk_shape cf f c :
  f_new (add_new_chunk cf f c) = (if cuts cf f c then [] else f_new f) ++ [c] /\
  f_registered (add_new_chunk cf f c) = (if cuts cf f c then raw_xorb (f_new f) :: f_registered f else f_registered f).
Proof.
  unfold add_new_chunk, cuts. cbn [with_metrics f_new].
  destruct ((c_max_xorb_bytes cf <? sum_lens (f_new f) + snd c) || (c_max_xorb_chunks cf <? N.of_nat (length (f_new f)) + 1));
    cbn; repeat match goal with |- context [match ?x with _ => _ end] => destruct x end; split; reflexivity.
Qed.

Lemma add_new_chunk_ok cf f c : cfg_ok cf -> chunk_fits cf c -> fd_ok cf f -> fd_ok cf (add_new_chunk cf f c).
Proof.
  intros Hc [Hc1 Hc2] [[Hp1 Hp2] Hr]. destruct (add_new_chunk_shape cf f c) as [E1 E2].
  unfold fd_ok, pending_ok. rewrite E1, E2. unfold cuts. unfold cfg_ok in Hc.
  destruct ((c_max_xorb_bytes cf <? sum_lens (f_new f) + snd c) || (c_max_xorb_chunks cf <? N.of_nat (length (f_new f)) + 1)) eqn:E.
  - (* a xorb is cut: it holds the pending chunks, which are within the limits and non-empty *)
    assert (Hne : (1 <= length (f_new f))%nat).
    { destruct (f_new f) eqn:Hn; [|cbn [length]; lia]. cbn [sum_lens fold_right length] in E. lia. }
    cbn [app sum_lens fold_right length]. split; [split; lia|].
    constructor; [|assumption]. unfold xorb_ok, raw_xorb. cbn [ci_chunks ci_nbytes]. rewrite cas_entries_length. lia.
  - rewrite sum_lens_app, app_length. cbn [sum_lens fold_right length]. split; [split; lia|assumption].
Qed.

Lemma step_ok bbd cf f c rest ans : cfg_ok cf -> chunk_fits cf c -> fd_ok cf f -> fd_ok cf (fst (step bbd cf f c rest ans)).
Proof.
  intros Hc Hf Hok. unfold step, step_with. 
  assert (Hwm : forall g m, fd_ok cf g -> fd_ok cf (with_metrics g m)) by (intros g m H; exact H).
  assert (Hwd : forall g d, fd_ok cf g -> fd_ok cf (with_defrag g d)) by (intros g d H; exact H).
  assert (Hfse : forall g s n, fd_ok cf g -> fd_ok cf (add_fse cf g s n)).
  { intros g s n [[A B] C]. destruct (add_fse_new cf g s n) as [E1 E2]. unfold fd_ok, pending_ok. rewrite E1, E2. auto. }
  destruct (match ans with Some a => Some a | None => local_query f rest end) as [[n s]|]; [|cbn [fst]; apply add_new_chunk_ok; assumption].
  destruct (continues _ s); [cbn [fst]; apply Hfse; destruct bbd; auto|].
  destruct (d_allow cf _ n) as [ok d']. destruct ok; cbn [fst]; [apply Hfse; destruct bbd; auto|].
  apply add_new_chunk_ok; auto. apply Hwm, Hwd. destruct bbd; auto.
Qed.

Lemma process_loop_ok bbd cf : forall fuel f chunks answers, cfg_ok cf -> Forall (chunk_fits cf) chunks -> fd_ok cf f ->
  fd_ok cf (process_loop fuel bbd cf f chunks answers).
Proof.
  induction fuel as [|fuel IH]; intros f chunks answers Hc HF Hok; cbn [process_loop]; [assumption|].
  destruct chunks as [|c r]; [assumption|]. inversion HF; subst.
  destruct (step bbd cf f c (map fst (c :: r)) (hd None answers)) as [f' n] eqn:E.
  apply IH; [assumption| |].
  - apply Forall_forall. intros x Hx. rewrite Forall_forall in HF. apply HF.
    clear -Hx. revert Hx. generalize (N.to_nat (N.max n 1)) (c :: r). intros k l. revert l. induction k as [|k IHk]; intros l Hx; [exact Hx|].
    destruct l; [destruct Hx|]. right. apply IHk. exact Hx.
  - pose proof (step_ok bbd cf f c (map fst (c :: r)) (hd None answers) Hc H1 Hok) as H. rewrite E in H. exact H.
Qed.

(* every xorb the deduper hands to register_new_xorb is non-empty and within both limits, whatever the oracle answers *)
Theorem process_chunks_limits bbd cf f chunks answers : cfg_ok cf -> Forall (chunk_fits cf) chunks -> fd_ok cf f ->
  fd_ok cf (process_chunks bbd cf f chunks answers).
Proof. intros Hc HF Hok. unfold process_chunks, fd_ok, pending_ok. cbn [f_new f_registered]. apply process_loop_ok; assumption. Qed.

Lemma fd0_ok cf : fd_ok cf fd0.
Proof. unfold fd_ok, pending_ok, fd0. cbn. repeat split; try lia. constructor. Qed.

(* the session aggregator: merging happens only within the limits; the xorb cut from it is within the limits *)
Definition agg_ok (cf : dcfg) (a : agg) : Prop :=
  a_bytes a <= c_max_xorb_bytes cf /\ N.of_nat (length (a_chunks a)) <= c_max_xorb_chunks cf.
Theorem register_completion_limits rc cf s file m : agg_ok cf (s_cur s) -> agg_ok cf file ->
  agg_ok cf (s_cur (register_completion rc cf s file m)).
Proof.
  intros [A1 A2] [B1 B2]. unfold register_completion.
  destruct ((c_max_xorb_bytes cf <? a_bytes (s_cur s) + a_bytes file) || (c_max_xorb_chunks cf <? N.of_nat (length (a_chunks (s_cur s))) + N.of_nat (length (a_chunks file)))) eqn:E.
  - destruct (a_bytes file <? a_bytes (s_cur s)); unfold process_agg; destruct (agg_finalize _); cbn [s_cur]; split; assumption.
  - cbn [s_cur]. unfold agg_ok, agg_merge, a_bytes. cbn [a_chunks]. rewrite sum_lens_app, app_length. unfold a_bytes in *. lia.
Qed.

(* ---------------------------------------------------------------- C03: what the pointer's hash is a function of *)
Theorem file_hash_function f salt sha :
  fst (fst (fst (fd_finalize f salt sha))) =
  match file_node_hash (rev (f_hashes f)) salt with Some h => h | None => zero_hash end.
Proof. reflexivity. Qed.

Lemma process_loop_hashes bbd cf : forall fuel f chunks answers, f_hashes (process_loop fuel bbd cf f chunks answers) = f_hashes f.
Proof.
  assert (Hfse : forall g s n, f_hashes (add_fse cf g s n) = f_hashes g) by (intros; unfold add_fse; destruct (continues _ _); reflexivity).
  assert (Hnew : forall g c, f_hashes (add_new_chunk cf g c) = f_hashes g).
  { intros. unfold add_new_chunk. cbn [with_metrics f_new f_info f_hashes]. destruct (_ || _); cbn [cut_xorb f_info f_new f_hashes];
      destruct (match last_seg _ with Some _ => _ | None => _ end); reflexivity. }
  induction fuel as [|fuel IH]; intros f chunks answers; cbn [process_loop]; [reflexivity|].
  destruct chunks as [|c r]; [reflexivity|].
  destruct (step bbd cf f c (map fst (c :: r)) (hd None answers)) as [f' n] eqn:E. rewrite IH.
  unfold step, step_with in E. destruct (match hd None answers with Some a => Some a | None => local_query f _ end) as [[k s]|].
  - destruct (continues _ s); [inversion E; subst; rewrite Hfse; destruct bbd; reflexivity|].
    destruct (d_allow cf _ k) as [ok d']. destruct ok; inversion E; subst; [rewrite Hfse; destruct bbd; reflexivity|].
    rewrite Hnew. destruct bbd; reflexivity.
  - inversion E; subst. apply Hnew.
Qed.

(* the chunk list the file hash is computed from is exactly the fed chunks, in order, whatever was deduplicated,
   however the chunks were grouped into process_chunks calls, and whatever the store or the oracle did *)
Theorem fed_chunks_recorded bbd cf f chunks answers :
  rev (f_hashes (process_chunks bbd cf f chunks answers)) = rev (f_hashes f) ++ chunks.
Proof.
  unfold process_chunks. cbn [f_hashes]. rewrite process_loop_hashes. rewrite rev_app_distr, rev_involutive. reflexivity.
Qed.

(* ---------------------------------------------------------------- C11: every xorb handed to the upload path is recorded *)
Definition recorded (s : session) : Prop := forall x, In x (s_uploaded s) -> In x (s_shard_cas s).

Theorem process_agg_recorded s a : recorded s -> recorded (process_agg true s a).
Proof.
  intros H. unfold process_agg. destruct (agg_finalize a) as [x files]. unfold recorded. cbn [s_uploaded s_shard_cas andb].
  destruct (negb (ci_nbytes x =? 0)); [|exact H]. intros y [Hy|Hy]; [left; exact Hy|right; apply H; exact Hy].
Qed.
Theorem register_completion_recorded cf s file m : recorded s -> recorded (register_completion true cf s file m).
Proof.
  intros H. unfold register_completion. destruct (_ || _).
  - destruct (a_bytes file <? a_bytes (s_cur s)).
    + pose proof (process_agg_recorded (mkS file (s_uploaded s) (s_shard_cas s) (s_shard_files s) (s_metrics s)) (s_cur s) H) as HP.
      unfold recorded in *. destruct (process_agg true _ _); exact HP.
    + pose proof (process_agg_recorded (mkS (s_cur s) (s_uploaded s) (s_shard_cas s) (s_shard_files s) (s_metrics s)) file H) as HP.
      unfold recorded in *. destruct (process_agg true _ _); exact HP.
  - exact H.
Qed.
Theorem register_mid_xorbs_recorded s xs : recorded s -> recorded (register_mid_xorbs s xs).
Proof.
  intros H x Hx. cbn [register_mid_xorbs s_uploaded s_shard_cas] in *. apply in_app_or in Hx. apply in_or_app.
  destruct Hx as [Hx|Hx]; [left; exact Hx|right; apply H; exact Hx].
Qed.
Theorem session_finalize_recorded s : recorded s -> recorded (session_finalize true s).
Proof. intros H. unfold session_finalize. apply process_agg_recorded. exact H. Qed.

(* with the other shape of process_aggregated_data_as_xorb (no add_cas_block) the xorb of a small file is lost to dedup *)
Theorem aggregated_not_recorded_refuted :
  exists s, recorded session0 /\ s = session_finalize false (mkS (mkAgg [(ex_h 1, 10)] []) [] [] [] m0) /\ ~ recorded s.
Proof.
  eexists. split; [intros x []|]. split; [reflexivity|]. intros H. specialize (H _ (or_introl eq_refl)). destruct H.
Qed.

(* ---------------------------------------------------------------- C02: shape of what finalize emits *)
Lemma verification_hashes_length : forall segs hs, length (verification_hashes segs hs) = length segs.
Proof. induction segs as [|s r IH]; intros hs; cbn [verification_hashes length]; [reflexivity|]. rewrite IH. reflexivity. Qed.

(* entry i is the range hash of the hashes of segment i's chunks, taken from the fed chunk list in order *)
Fixpoint seg_slices (segs : list seg) (hs : list hash) : list (list hash) :=
  match segs with
  | [] => []
  | s :: r => let n := N.to_nat (sg_end s - sg_start s) in firstn n hs :: seg_slices r (skipn n hs)
  end.
Lemma verification_hashes_spec : forall segs hs, verification_hashes segs hs = map range_hash_from_chunks (seg_slices segs hs).
Proof. induction segs as [|s r IH]; intros hs; cbn [verification_hashes seg_slices map]; [reflexivity|]. rewrite IH. reflexivity. Qed.

Theorem finalize_record_shape f salt sha :
  let '(fh, a, m, nx) := fd_finalize f salt sha in
  match a_files a with
  | [(fi, iref)] =>
      fi_hash fi = fh /\ fi_segs fi = f_info f /\ length (fi_verif fi) = length (fi_segs fi) /\
      fi_verif fi = map range_hash_from_chunks (seg_slices (f_info f) (map fst (rev (f_hashes f)))) /\
      fi_ext fi = sha /\ has_verif (fi_flags fi) = true /\ has_ext (fi_flags fi) = (match sha with Some _ => true | None => false end) /\
      iref = f_iref f /\ a_chunks a = f_new f
  | _ => False
  end.
Proof.
  unfold fd_finalize. cbn [a_files fi_hash fi_segs fi_verif fi_ext fi_flags a_chunks].
  rewrite verification_hashes_length, verification_hashes_spec. repeat split; destruct sha; reflexivity.
Qed.

Lemma nonvacuous_C14 : mcons (f_metrics fd0) /\ answers_fit [(ex_h 1, 10); (ex_h 2, 20)] [Some (2, ex_seg); None].
Proof.
  split; [exact mcons_m0|]. intros k. destruct k as [|[|k]]; cbn [skipn hd ans_fits length]; try exact I; try lia.
  destruct k; cbn; exact I.
Qed.
