(* C05/C09: the on-disk chunk lookup of a serialized shard is truthful end to end.  The hypothesis of C05_direct_bytes_is_rec
   ("the bytes at the hinted position are a serialised well-formed block and the hint points inside it") is discharged for
   every shard serialize_from writes: the chunk table read back from the bytes is the sorted table that was written, each
   of its entries points at the block and the chunk it was made from, and the search hands out only such entries. *)
From Coq Require Import ZArith NArith Bool List Lia ZifyBool ZifyN ZifyNat Permutation Sorted.
Import ListNotations.
From XetModel Require Import Base.Codec Gen.ShardLayout Model.Merkle Model.Shard Proofs.CodecProofs Proofs.ShardProofs Proofs.DedupProofs Proofs.SearchProofs
  Proofs.SetOpProofs Proofs.SetOpSortedProofs Proofs.ShardWholeProofs.
Open Scope N_scope.

Arguments N.add : simpl never.
Arguments N.sub : simpl never.
Arguments N.mul : simpl never.
Arguments N.div : simpl never.
Arguments N.modulo : simpl never.
Arguments N.ltb : simpl never.
Arguments N.leb : simpl never.
Arguments N.eqb : simpl never.
Arguments N.to_nat : simpl never.
Arguments N.of_nat : simpl never.
Ltac Zify.zify_post_hook ::= Z.div_mod_to_equations.

(* ---- the stable insertion sort ---- *)
Lemma ins_key_in {V} (e : N * V) : forall l x, In x (ins_key e l) <-> x = e \/ In x l.
Proof.
  induction l as [|y l IH]; intro x; cbn [ins_key]; [cbn [In]; intuition congruence|]. destruct (fst e <=? fst y); cbn [In]; [intuition congruence|]. rewrite IH. intuition congruence.
Qed.
Lemma sort_by_key_in {V} (l : list (N * V)) x : In x (sort_by_key l) <-> In x l.
Proof. unfold sort_by_key. induction l as [|e l IH]; cbn [fold_right]; [tauto|]. rewrite ins_key_in, IH. cbn [In]. intuition congruence. Qed.
Lemma ins_key_sorted {V} (e : N * V) : forall l, StronglySorted (fun a b => fst a <= fst b) l -> StronglySorted (fun a b => fst a <= fst b) (ins_key e l).
Proof.
  induction l as [|y l IH]; intro H; cbn [ins_key]; [repeat constructor|]. inversion H as [|? ? Hr Hall]; subst. destruct (fst e <=? fst y) eqn:E.
  - constructor; [exact H|]. constructor; [lia|]. rewrite Forall_forall in Hall |- *. intros z Hz. specialize (Hall z Hz). lia.
  - constructor; [apply IH; exact Hr|]. apply Forall_forall. intros z Hz. apply ins_key_in in Hz as [->|Hz]; [lia|]. rewrite Forall_forall in Hall. apply Hall. exact Hz.
Qed.
Lemma sort_by_key_sorted {V} (l : list (N * V)) : StronglySorted (fun a b => fst a <= fst b) (sort_by_key l).
Proof. unfold sort_by_key. induction l as [|e l IH]; cbn [fold_right]; [constructor | apply ins_key_sorted; exact IH]. Qed.
Lemma ins_key_length {V} (e : N * V) : forall l, length (ins_key e l) = S (length l).
Proof. induction l as [|y l IH]; cbn [ins_key length]; [reflexivity|]. destruct (fst e <=? fst y); cbn [length]; [reflexivity | rewrite IH; reflexivity]. Qed.
Lemma sort_by_key_length {V} (l : list (N * V)) : length (sort_by_key l) = length l.
Proof. unfold sort_by_key. induction l as [|e l IH]; [reflexivity|]. cbn [fold_right length]. rewrite ins_key_length, IH. reflexivity. Qed.

(* ---- 16-byte lookup tables ---- *)
Definition ent16_ok (e : N * (N * N)) : Prop := is_u64 (fst e) /\ is_u32 (fst (snd e)) /\ is_u32 (snd (snd e)).
Lemma len_lookup16 t : length (ser_lookup16 t) = (16 * length t)%nat.
Proof. unfold ser_lookup16. induction t as [|e t IH]; [reflexivity|]. cbn [flat_map]. rewrite app_length, IH. cbn [length app u64 u32 le_bytes]. lia. Qed.
Lemma read_tbl16_spec pre t post : Forall ent16_ok t ->
  read_tbl16 (pre ++ ser_lookup16 t ++ post) (N.of_nat (length pre)) (N.of_nat (length t)) = t.
Proof.
  intro Ht. unfold read_tbl16. rewrite !app_length, len_lookup16.
  replace (N.of_nat (length pre + (16 * length t + length post)) <? N.of_nat (length pre) + 16 * N.of_nat (length t)) with false by lia.
  replace (N.to_nat (N.of_nat (length pre))) with (length pre) by lia. rewrite skipn_app, skipn_all, Nat.sub_diag. cbn [skipn app].
  replace (N.to_nat (N.of_nat (length t))) with (length t) by lia.
  clear pre. induction t as [|[k [a b]] t IH]; [reflexivity|]. inversion Ht as [|? ? (Hk & Ha & Hb) Hr]; subst. cbn [fst snd] in *.
  cbn [length]. unfold ser_lookup16. cbn [flat_map fst snd]. rewrite <- !app_assoc.
  unfold is_u64, is_u32 in *. cbn [u64 u32 le_bytes app has length Nat.leb firstn skipn].
  rewrite le_val_u64, !le_val_u32 by assumption. f_equal. apply IH. exact Hr.
Qed.

(* ---- the chunk table: every entry points at the block and the chunk it was made from ---- *)
Definition crecs (cs : list cas_info) : N := fold_right (fun c a => 1 + N.of_nat (length (ci_chunks c)) + a) 0 cs.
Lemma chunk_tbl_of_entry c : forall chs idx i0 k a b, In (k, (a, b)) (chunk_tbl_of c chs idx i0) ->
  a = idx /\ i0 <= b /\ b < i0 + N.of_nat (length chs) /\ exists ch, In ch chs /\ k = truncate_hash (ce_hash ch).
Proof.
  induction chs as [|ch r IH]; intros idx i0 k a b H; [destruct H|]. cbn [chunk_tbl_of] in H. destruct H as [E|H].
  - injection E as <- <- <-. cbn [length]. repeat split; try lia. exists ch. split; [left; reflexivity | reflexivity].
  - destruct (IH _ _ _ _ _ H) as (A & B & C & ch' & D1 & D2). cbn [length]. repeat split; try lia. exists ch'. split; [right; exact D1 | exact D2].
Qed.
Lemma chunk_tbl_entry : forall cs idx0 k a b, In (k, (a, b)) (chunk_lookup_tbl cs idx0) ->
  exists pre c post, cs = pre ++ c :: post /\ a = idx0 + crecs pre /\ b < N.of_nat (length (ci_chunks c)) /\ exists ch, In ch (ci_chunks c) /\ k = truncate_hash (ce_hash ch).
Proof.
  induction cs as [|c cs IH]; intros idx0 k a b H; [destruct H|]. cbn [chunk_lookup_tbl] in H. apply in_app_or in H as [H|H].
  - destruct (chunk_tbl_of_entry _ _ _ _ _ _ _ H) as (A & _ & C & D). exists [], c, cs. cbn [app crecs fold_right]. repeat split; try lia. exact D.
  - destruct (IH _ _ _ _ H) as (pre & c' & post & -> & -> & Hb & D). exists (c :: pre), c', post. cbn [app crecs fold_right]. fold (crecs pre). repeat split; [lia | exact Hb | exact D].
Qed.

Lemma len_ser_cas_info c : wf_cas c -> N.of_nat (length (ser_cas_info c)) = 48 * (1 + N.of_nat (length (ci_chunks c))).
Proof.
  intros (Hh & _ & _ & _ & _ & _ & Hc). unfold ser_cas_info. rewrite app_length, len_ser_CASChunkSequenceHeader by exact Hh.
  rewrite (flat_map_length48 wf_chunk ser_chunk len_ser_chunk _ Hc). lia.
Qed.
Lemma len_flat_ser_cas cs : Forall wf_cas cs -> N.of_nat (length (flat_map ser_cas_info cs)) = 48 * crecs cs.
Proof.
  induction cs as [|c cs IH]; intro H; [reflexivity|]. inversion H; subst. cbn [flat_map crecs fold_right]. rewrite app_length. fold (crecs cs).
  pose proof (len_ser_cas_info c H2). specialize (IH H3). lia.
Qed.

(* ---- the chunk table is complete: every chunk of every block has its entry ---- *)
Lemma chunk_tbl_of_complete c : forall chs idx i0 j ch, nth_error chs j = Some ch ->
  In (truncate_hash (ce_hash ch), (idx, i0 + N.of_nat j)) (chunk_tbl_of c chs idx i0).
Proof.
  induction chs as [|x r IH]; intros idx i0 j ch H; [destruct j; discriminate|]. cbn [chunk_tbl_of]. destruct j as [|j]; cbn [nth_error] in H.
  - injection H as ->. left. f_equal. f_equal. lia.
  - right. replace (i0 + N.of_nat (S j)) with ((i0 + 1) + N.of_nat j) by lia. apply IH. exact H.
Qed.
Lemma chunk_tbl_complete : forall pre c post idx0 j ch, nth_error (ci_chunks c) j = Some ch ->
  In (truncate_hash (ce_hash ch), (idx0 + crecs pre, N.of_nat j)) (chunk_lookup_tbl (pre ++ c :: post) idx0).
Proof.
  induction pre as [|p pre IH]; intros c post idx0 j ch H; cbn [app chunk_lookup_tbl].
  - apply in_or_app. left. cbn [crecs fold_right]. replace (idx0 + 0) with idx0 by lia.
    pose proof (chunk_tbl_of_complete c (ci_chunks c) idx0 0 j ch H) as G. replace (0 + N.of_nat j) with (N.of_nat j) in G by lia. exact G.
  - apply in_or_app. right. cbn [crecs fold_right]. fold (crecs pre).
    replace (idx0 + (1 + N.of_nat (length (ci_chunks p)) + crecs pre)) with ((idx0 + 1 + N.of_nat (length (ci_chunks p))) + crecs pre) by lia.
    apply IH. exact H.
Qed.

Section DedupWhole.
  Variables (files : list file_info) (cass : list cas_info) (key : hash) (created expiry : N).
  Hypothesis Hf : Forall wf_file files.
  Hypothesis Hc : Forall wf_cas cass.
  Hypothesis Hkey : is_hash key.
  Hypothesis Hcr : is_u64 created.
  Hypothesis Hex : is_u64 expiry.
  Hypothesis HS1 : is_u64 (sum_ndisk cass).
  Hypothesis HS2 : is_u64 (sum_materialized files).
  Hypothesis HS3 : is_u64 (sum_nbytes cass).
  Hypothesis Hcb : Forall (fun c => Forall (fun ch => Forall (fun b => b < 256) (ce_hash ch)) (ci_chunks c)) cass.
  Definition d_ctbl := sort_by_key (chunk_lookup_tbl cass 0).
  Definition d_bs := w_bs files cass d_ctbl key created expiry.
  Definition d_ft := w_ft files cass d_ctbl key created expiry.
  Hypothesis Hsmall : N.of_nat (length d_bs) < 4294967296.

  Lemma d_shape : d_bs = (w_hdr ++ w_fsec files) ++ flat_map ser_cas_info cass ++ (cas_bookend ++ ser_lookup12 (w_ftbl files) ++ ser_lookup12 (w_ttbl cass) ++ ser_lookup16 d_ctbl ++ w_foot files cass d_ctbl key created expiry).
  Proof. unfold d_bs. rewrite w_bs_shape. unfold w_csec. rewrite <- !app_assoc. reflexivity. Qed.

  Lemma d_block_at pre c post : cass = pre ++ c :: post ->
    exists rest, skipn (N.to_nat (ft_cas_info_offset d_ft + 48 * crecs pre)) d_bs = ser_cas_info c ++ rest.
  Proof.
    intro E. assert (Hp : Forall wf_cas pre) by (rewrite E in Hc; apply Forall_app in Hc; tauto).
    set (rest := flat_map ser_cas_info post ++ (cas_bookend ++ ser_lookup12 (w_ftbl files) ++ ser_lookup12 (w_ttbl cass) ++ ser_lookup16 d_ctbl ++ w_foot files cass d_ctbl key created expiry)).
    exists rest.
    assert (E2 : d_bs = ((w_hdr ++ w_fsec files) ++ flat_map ser_cas_info pre) ++ ser_cas_info c ++ rest).
    { rewrite d_shape. rewrite E at 1. rewrite flat_map_app. cbn [flat_map]. unfold rest. rewrite <- !app_assoc. reflexivity. }
    rewrite E2. pose proof (len_flat_ser_cas pre Hp) as Lp.
    replace (N.to_nat (ft_cas_info_offset d_ft + 48 * crecs pre)) with (length ((w_hdr ++ w_fsec files) ++ flat_map ser_cas_info pre)).
    2:{ cbn [d_ft w_ft ft_cas_info_offset]. unfold w_o2. rewrite !app_length, w_hdr_len. lia. }
    rewrite skipn_app, skipn_all, Nat.sub_diag. reflexivity.
  Qed.

  Lemma d_len : N.of_nat (length d_bs) = w_o6 files cass d_ctbl + 200.
  Proof. apply w_len; assumption. Qed.

  Lemma crecs_bound pre c post : cass = pre ++ c :: post -> 48 * crecs pre + 48 * (1 + N.of_nat (length (ci_chunks c))) <= N.of_nat (length d_bs).
  Proof.
    intro E. assert (Hp : Forall wf_cas pre) by (rewrite E in Hc; apply Forall_app in Hc; tauto).
    assert (Hw : wf_cas c) by (rewrite E in Hc; apply Forall_app in Hc as [_ Hc']; inversion Hc'; assumption).
    rewrite d_shape, !app_length. rewrite E at 1. rewrite flat_map_app, app_length. cbn [flat_map]. rewrite app_length.
    pose proof (len_flat_ser_cas pre Hp). pose proof (len_ser_cas_info c Hw). lia.
  Qed.

  Lemma trunc_u64 h : Forall (fun b => b < 256) h -> is_u64 (truncate_hash h).
  Proof.
    intro H. unfold truncate_hash, is_u64. assert (G : forall l : list N, Forall (fun b => b < 256) l -> (length l <= 8)%nat -> le_val l < 256 ^ N.of_nat (length l)).
    { induction l as [|b l IH]; intros Hb Hl; [cbn; lia|]. inversion Hb; subst. cbn [length] in Hl. specialize (IH H3 ltac:(lia)).
      unfold le_val in *. cbn [fold_right length]. replace (N.of_nat (S (length l))) with (1 + N.of_nat (length l)) by lia. rewrite N.pow_add_r. change (256 ^ 1) with 256. nia. }
    assert (Hf8 : Forall (fun b => b < 256) (firstn 8 h)).
    { apply Forall_forall. intros b Hb. rewrite Forall_forall in H. apply H. clear -Hb. revert h Hb. generalize 8%nat. induction n as [|n IH]; intros [|x h] Hb; cbn in Hb; try contradiction. destruct Hb as [<-|Hb]; [left; reflexivity | right; apply (IH h); exact Hb]. }
    pose proof (G (firstn 8 h) Hf8 ltac:(rewrite firstn_length; lia)) as B.
    assert (256 ^ N.of_nat (length (firstn 8 h)) <= 256 ^ 8) by (apply N.pow_le_mono_r; [lia | rewrite firstn_length; lia]).
    change (256 ^ 8) with 18446744073709551616 in *. lia.
  Qed.

  Lemma d_ctbl_ok : Forall ent16_ok d_ctbl.
  Proof.
    apply Forall_forall. intros [k [a b]] Hin. unfold d_ctbl in Hin. apply (proj1 (sort_by_key_in _ _)) in Hin.
    destruct (chunk_tbl_entry _ _ _ _ _ Hin) as (pre & c & post & E & -> & Hb & ch & Hch & ->). pose proof (crecs_bound _ _ _ E) as Hbd.
    repeat split; cbn [fst snd].
    - apply trunc_u64. rewrite Forall_forall in Hcb. assert (Hcin : In c cass) by (rewrite E; apply in_or_app; right; left; reflexivity).
      specialize (Hcb c Hcin). rewrite Forall_forall in Hcb. apply Hcb. exact Hch.
    - unfold is_u32. lia.
    - unfold is_u32. lia.
  Qed.

  Lemma d_read_chunk_tbl : read_tbl16 d_bs (ft_chunk_lookup_offset d_ft) (ft_chunk_lookup_num d_ft) = d_ctbl.
  Proof.
    cbn [d_ft w_ft ft_chunk_lookup_offset ft_chunk_lookup_num]. unfold d_bs. rewrite w_bs_shape.
    set (pre := w_hdr ++ w_fsec files ++ w_csec cass ++ ser_lookup12 (w_ftbl files) ++ ser_lookup12 (w_ttbl cass)).
    replace (w_hdr ++ w_fsec files ++ w_csec cass ++ ser_lookup12 (w_ftbl files) ++ ser_lookup12 (w_ttbl cass) ++ ser_lookup16 d_ctbl ++ w_foot files cass d_ctbl key created expiry)
      with (pre ++ ser_lookup16 d_ctbl ++ w_foot files cass d_ctbl key created expiry) by (unfold pre; rewrite <- !app_assoc; reflexivity).
    replace (w_o5 files cass) with (N.of_nat (length pre)).
    2:{ unfold pre. rewrite !app_length, w_hdr_len, !len_ser_lookup12. unfold w_o5, w_o4, w_o3, w_o2. lia. }
    apply read_tbl16_spec. exact d_ctbl_ok.
  Qed.

  (* ---- the query ---- *)
  Definition scan_cands (bs : list N) (ft : footer) (qs : list hash) : list (N * N) -> lookup_result (option (N * seg)) :=
    fix go (l : list (N * N)) : lookup_result (option (N * seg)) :=
      match l with
      | [] => Found None
      | (ci, off) :: r =>
          match dedup_direct bs ft qs ci off with
          | Found (Some a) => Found (Some a)
          | Found None => go r
          | e => e
          end
      end.
  Lemma dedup_query_unfold probe bs ft q0 qr : dedup_query probe bs ft (q0 :: qr) =
    if ft_chunk_lookup_num ft =? 0 then Found None
    else match search probe (read_tbl16 bs (ft_chunk_lookup_offset ft) (ft_chunk_lookup_num ft)) 8 (truncate_hash (keyed (ft_key ft) q0)) with
         | None => IoError
         | Some cands => scan_cands bs ft (q0 :: qr) cands
         end.
  Proof. reflexivity. Qed.

  Definition CandOk (e : N * N) : Prop := exists pre c post, cass = pre ++ c :: post /\ fst e = crecs pre /\ snd e < N.of_nat (length (ci_chunks c)).

  Lemma scan_cands_truthful qs : qs <> [] -> forall l, Forall CandOk l -> forall n s, scan_cands d_bs d_ft qs l = Found (Some (n, s)) ->
    exists c, In c cass /\ truthful key c qs n s.
  Proof.
    intros Hq. induction l as [|[ci off] r IH]; intros Hl n s H; cbn [scan_cands] in H; [discriminate|].
    inversion Hl as [|? ? (pre & c & post & E & E1 & E2) Hr]; subst. cbn [fst snd] in E1, E2. subst ci.
    assert (Hw : wf_cas c) by (rewrite E in Hc; apply Forall_app in Hc as [_ Hc']; inversion Hc'; assumption).
    destruct (d_block_at pre c post E) as [rest Hsk].
    rewrite (dedup_direct_is_rec d_bs d_ft qs (crecs pre) off c rest Hw Hq Hsk E2) in H. change (ft_key d_ft) with key in H.
    destruct (direct_rec key c qs off) as [[n' s']|] eqn:Ed.
    - injection H as <- <-. exists c. split; [rewrite E; apply in_or_app; right; left; reflexivity | eapply direct_rec_truthful; exact Ed].
    - apply IH; assumption.
  Qed.

  (* C05 on disk, end to end: whatever the chunk lookup of a serialized shard reports is a real run of one of its blocks *)
  Theorem d_dedup_truthful probe qs n s : dedup_query probe d_bs d_ft qs = Found (Some (n, s)) -> exists c, In c cass /\ truthful key c qs n s.
  Proof.
    destruct qs as [|q0 qr]; [discriminate|]. rewrite dedup_query_unfold. destruct (ft_chunk_lookup_num d_ft =? 0); [discriminate|].
    rewrite d_read_chunk_tbl. change (ft_key d_ft) with key.
    destruct (search_exact probe d_ctbl (truncate_hash (keyed key q0)) (sort_by_key_sorted _) 8 ltac:(lia)) as (l & Hs & Hp). rewrite Hs.
    apply scan_cands_truthful; [discriminate|]. apply Forall_forall. intros [ci off] Hin.
    assert (Hin2 : In (ci, off) (matching (truncate_hash (keyed key q0)) d_ctbl)).
    { eapply Permutation_in; [exact Hp|]. clear -Hin. revert Hin. generalize 8%nat. intros m. revert l. induction m as [|m IH]; intros [|x l] H; cbn in H; try contradiction. destruct H as [<-|H]; [left; reflexivity | right; apply (IH l); exact H]. }
    unfold matching in Hin2. apply in_map_iff in Hin2 as ([k v] & Ev & Hf2). cbn [snd] in Ev. subst v. apply filter_In in Hf2 as [Hf2 _].
    unfold d_ctbl in Hf2. apply (proj1 (sort_by_key_in _ _)) in Hf2. destruct (chunk_tbl_entry _ _ _ _ _ Hf2) as (pre & c & post & E & Ea & Eb & _).
    exists pre, c, post. cbn [fst snd]. repeat split; [exact E | lia | exact Eb].
  Qed.
  (* ---- completeness: a chunk the shard records is found ---- *)
  Lemma scan_cands_some qs : qs <> [] -> forall l, Forall CandOk l -> forall e, In e l ->
    (exists a, dedup_direct d_bs d_ft qs (fst e) (snd e) = Found (Some a)) -> exists a', scan_cands d_bs d_ft qs l = Found (Some a').
  Proof.
    intros Hq. induction l as [|[ci off] r IH]; intros Hl e He [a Ha]; [destruct He|]. cbn [scan_cands].
    inversion Hl as [|? ? (pre & c & post & E & E1 & E2) Hr]; subst. cbn [fst snd] in E1, E2. subst ci.
    assert (Hw : wf_cas c) by (rewrite E in Hc; apply Forall_app in Hc as [_ Hc']; inversion Hc'; assumption).
    destruct (d_block_at pre c post E) as [rest Hsk].
    pose proof (dedup_direct_is_rec d_bs d_ft qs (crecs pre) off c rest Hw Hq Hsk E2) as Hd. rewrite Hd.
    destruct (direct_rec (ft_key d_ft) c qs off) as [a0|] eqn:Ed; [exists a0; reflexivity|].
    destruct He as [<-|He]; [cbn [fst snd] in Ha; rewrite Hd in Ha; discriminate|].
    apply (IH Hr e He). exists a. exact Ha.
  Qed.

  Lemma direct_rec_some c q0 qr off ch : nth_error (ci_chunks c) (N.to_nat off) = Some ch -> ce_hash ch = keyed key q0 ->
    exists a, direct_rec key c (q0 :: qr) off = Some a.
  Proof.
    intros Hn Hh. unfold direct_rec.
    assert (Hs : exists tl, skipn (N.to_nat off) (ci_chunks c) = ch :: tl).
    { clear -Hn. revert Hn. generalize (N.to_nat off) as m. generalize (ci_chunks c) as l. induction l as [|x l IH]; intros [|m] H; cbn [nth_error] in H; try discriminate.
      - injection H as ->. exists l. reflexivity.
      - cbn [skipn]. apply IH. exact H. }
    destruct Hs as [tl ->]. cbn [run_len]. rewrite Hh, bytes_eqb_refl. eexists. reflexivity.
  Qed.

  (* C05/C11 on disk, the other direction: a chunk recorded in one of the shard's blocks is found by the chunk lookup of the
     serialized shard -- for every probe function -- provided no more than eight table entries share its truncated hash
     (the lookup examines at most eight candidates).  With the truthfulness above: the answer is a real run that starts
     with the queried chunk. *)
  Theorem d_dedup_complete probe q0 qr pre c post j ch : cass = pre ++ c :: post -> nth_error (ci_chunks c) j = Some ch ->
    ce_hash ch = keyed key q0 -> (length (matching (truncate_hash (keyed key q0)) d_ctbl) <= 8)%nat ->
    exists n s, dedup_query probe d_bs d_ft (q0 :: qr) = Found (Some (n, s)) /\ exists c', In c' cass /\ truthful key c' (q0 :: qr) n s.
  Proof.
    intros E Hn Hh Hfew.
    assert (Hent : In (truncate_hash (keyed key q0), (crecs pre, N.of_nat j)) d_ctbl).
    { unfold d_ctbl. apply (proj2 (sort_by_key_in _ _)). rewrite E. rewrite <- Hh.
      pose proof (chunk_tbl_complete pre c post 0 j ch Hn) as G. replace (0 + crecs pre) with (crecs pre) in G by lia. exact G. }
    assert (Hq : exists n s, dedup_query probe d_bs d_ft (q0 :: qr) = Found (Some (n, s))).
    { rewrite dedup_query_unfold.
      assert (Hnum : ft_chunk_lookup_num d_ft =? 0 = false).
      { cbn [d_ft w_ft ft_chunk_lookup_num]. apply N.eqb_neq. destruct d_ctbl; [destruct Hent | cbn [length]; lia]. }
      rewrite Hnum, d_read_chunk_tbl. change (ft_key d_ft) with key.
      destruct (search_exact probe d_ctbl (truncate_hash (keyed key q0)) (sort_by_key_sorted _) 8 ltac:(lia)) as (l & Hs & Hp). rewrite Hs.
      assert (Hall : firstn 8 l = l) by (apply firstn_all2; rewrite (Permutation_length Hp); exact Hfew). rewrite Hall.
      assert (Hin : In (crecs pre, N.of_nat j) l).
      { eapply Permutation_in; [apply Permutation_sym; exact Hp|]. unfold matching. apply in_map_iff. exists (truncate_hash (keyed key q0), (crecs pre, N.of_nat j)).
        split; [reflexivity|]. apply filter_In. split; [exact Hent|]. unfold eqk. cbn [fst]. apply N.eqb_refl. }
      assert (Hok : Forall CandOk l).
      { apply Forall_forall. intros [ci off] Hin0. assert (Hin2 : In (ci, off) (matching (truncate_hash (keyed key q0)) d_ctbl)) by (eapply Permutation_in; [exact Hp | exact Hin0]).
        unfold matching in Hin2. apply in_map_iff in Hin2 as ([k v] & Ev & Hf2). cbn [snd] in Ev. subst v. apply filter_In in Hf2 as [Hf2 _].
        unfold d_ctbl in Hf2. apply (proj1 (sort_by_key_in _ _)) in Hf2. destruct (chunk_tbl_entry _ _ _ _ _ Hf2) as (pre' & c' & post' & E' & Ea & Eb & _).
        exists pre', c', post'. cbn [fst snd]. repeat split; [exact E' | lia | exact Eb]. }
      destruct (scan_cands_some (q0 :: qr) ltac:(discriminate) l Hok (crecs pre, N.of_nat j) Hin) as [[n s] Hres].
      - cbn [fst snd].
        assert (Hw : wf_cas c) by (rewrite E in Hc; apply Forall_app in Hc as [_ Hc']; inversion Hc'; assumption).
        destruct (d_block_at pre c post E) as [rest Hsk].
        assert (Hj : N.of_nat j < N.of_nat (length (ci_chunks c))) by (assert (j < length (ci_chunks c))%nat by (apply nth_error_Some; congruence); lia).
        rewrite (dedup_direct_is_rec d_bs d_ft (q0 :: qr) (crecs pre) (N.of_nat j) c rest Hw ltac:(discriminate) Hsk Hj). change (ft_key d_ft) with key.
        destruct (direct_rec_some c q0 qr (N.of_nat j) ch) as [a Ha]; [replace (N.to_nat (N.of_nat j)) with j by lia; exact Hn | exact Hh|]. exists a. rewrite Ha. reflexivity.
      - exists n, s. exact Hres. }
    destruct Hq as (n & s & Hres). exists n, s. split; [exact Hres|]. apply (d_dedup_truthful probe (q0 :: qr) n s Hres).
  Qed.
End DedupWhole.

(* ---- non-vacuity: a shard of two blocks; the second chunk of the second block is looked up ---- *)
Definition dx_ch (b l : N) : chunk_ent := mkCE (repeat b 32%nat) l 0 0.
Definition dx_c1 : cas_info := mkCI (repeat 7 32%nat) 0 30 30 [dx_ch 11 10; dx_ch 12 20].
Definition dx_c2 : cas_info := mkCI (repeat 8 32%nat) 0 70 70 [dx_ch 13 30; dx_ch 14 40].
Lemma dx_wf : Forall wf_cas [dx_c1; dx_c2].
Proof.
  assert (W : forall b l, b < 256 -> l < 4294967296 -> wf_chunk (dx_ch b l)).
  { intros b l Hb Hl. unfold wf_chunk, dx_ch, is_hash, is_u32, is_u64. cbn [ce_hash ce_bytes ce_start ce_unused]. rewrite repeat_length.
    repeat split; try lia; try (apply Forall_forall; intros x Hx; apply repeat_spec in Hx; subst x; exact Hb). }
  repeat constructor; try (apply W; lia); unfold is_hash, is_u32; cbn; try lia; try reflexivity; repeat constructor; lia.
Qed.
Example dx_found :
  exists n s, dedup_query probe_exact (d_bs [] [dx_c1; dx_c2] zero_hash 0 0) (d_ft [] [dx_c1; dx_c2] zero_hash 0 0) [repeat 14 32%nat; repeat 99 32%nat] = Found (Some (n, s))
              /\ exists c', In c' [dx_c1; dx_c2] /\ truthful zero_hash c' [repeat 14 32%nat; repeat 99 32%nat] n s.
Proof.
  apply (d_dedup_complete [] [dx_c1; dx_c2] zero_hash 0 0) with (pre := [dx_c1]) (c := dx_c2) (post := []) (j := 1%nat) (ch := dx_ch 14 40);
    try exact dx_wf; try (constructor; fail); try reflexivity; try (unfold is_u64; vm_compute; reflexivity).
  - repeat constructor; cbn; lia.
  - vm_compute. lia.
Qed.
