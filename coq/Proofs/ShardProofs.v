(* Record-level round trips of the shard format (C09): parse (serialize r ++ rest) = (r, rest). *)
From Coq Require Import ZArith NArith Bool List Lia ZifyBool ZifyN ZifyNat.
Import ListNotations.
From XetModel Require Import Base.Codec Gen.ShardLayout Model.Merkle Model.Shard Proofs.CodecProofs.
Open Scope N_scope.

Arguments N.add : simpl never.
Arguments N.mul : simpl never.
Arguments N.div : simpl never.
Arguments N.modulo : simpl never.
Arguments N.ltb : simpl never.
Arguments N.leb : simpl never.
Arguments N.eqb : simpl never.
Arguments N.land : simpl never.
Arguments N.to_nat : simpl never.
Arguments N.of_nat : simpl never.

Definition wf_seg (s : seg) : Prop :=
  is_hash (sg_cas s) /\ is_u32 (sg_flags s) /\ is_u32 (sg_bytes s) /\ is_u32 (sg_start s) /\ is_u32 (sg_end s).
Definition wf_chunk (c : chunk_ent) : Prop :=
  is_hash (ce_hash c) /\ is_u32 (ce_bytes c) /\ is_u32 (ce_start c) /\ is_u64 (ce_unused c).
Definition wf_file (f : file_info) : Prop :=
  is_hash (fi_hash f) /\ bytes_eqb (fi_hash f) bookend_hash = false /\ is_u32 (fi_flags f) /\ is_u64 (fi_unused f) /\
  is_u32 (N.of_nat (length (fi_segs f))) /\ Forall wf_seg (fi_segs f) /\ Forall is_hash (fi_verif f) /\
  (if has_verif (fi_flags f) then length (fi_verif f) = length (fi_segs f) else fi_verif f = []) /\
  (if has_ext (fi_flags f) then exists h, fi_ext f = Some h /\ is_hash h else fi_ext f = None).
Definition wf_cas (c : cas_info) : Prop :=
  is_hash (ci_hash c) /\ bytes_eqb (ci_hash c) bookend_hash = false /\ is_u32 (ci_flags c) /\ is_u32 (ci_nbytes c) /\ is_u32 (ci_ndisk c) /\
  is_u32 (N.of_nat (length (ci_chunks c))) /\ Forall wf_chunk (ci_chunks c).

Lemma parse_n_flat_map {A} (wfA : A -> Prop) (ser : A -> list N) (p : list N -> option (A * list N)) :
  (forall a rest, wfA a -> p (ser a ++ rest) = Some (a, rest)) ->
  forall l rest, Forall wfA l -> parse_n p (length l) (flat_map ser l ++ rest) = Some (l, rest).
Proof.
  intros Hp. induction l as [|a l IH]; intros rest HF; [reflexivity|].
  inversion HF; subst. cbn [length parse_n flat_map]. rewrite <- app_assoc. rewrite Hp by assumption.
  rewrite IH by assumption. reflexivity.
Qed.

Lemma flat_map_length48 {A} (wfA : A -> Prop) (ser : A -> list N) :
  (forall a, wfA a -> length (ser a) = 48%nat) -> forall l, Forall wfA l -> length (flat_map ser l) = (48 * length l)%nat.
Proof.
  intros H. induction l as [|a l IH]; intros HF; [reflexivity|]. inversion HF; subst.
  cbn [flat_map length]. rewrite app_length, H, IH by assumption. lia.
Qed.

Lemma parse_ser_seg s rest : wf_seg s -> parse_seg (ser_seg s ++ rest) = Some (s, rest).
Proof.
  intros (H1 & H2 & H3 & H4 & H5). unfold parse_seg, ser_seg. rewrite rt_FileDataSequenceEntry by assumption. destruct s; reflexivity.
Qed.
Lemma parse_ser_chunk c rest : wf_chunk c -> parse_chunk (ser_chunk c ++ rest) = Some (c, rest).
Proof.
  intros (H1 & H2 & H3 & H4). unfold parse_chunk, ser_chunk. rewrite rt_CASChunkSequenceEntry by assumption. destruct c; reflexivity.
Qed.
Lemma parse_ser_verif h rest : is_hash h -> parse_verif (ser_FileVerificationEntry h [0; 0] ++ rest) = Some (h, rest).
Proof. intros H. unfold parse_verif. rewrite rt_FileVerificationEntry by assumption. reflexivity. Qed.

Lemma len_ser_seg s : wf_seg s -> length (ser_seg s) = 48%nat.
Proof. intros (H1 & _). apply len_ser_FileDataSequenceEntry; assumption. Qed.
Lemma len_ser_chunk c : wf_chunk c -> length (ser_chunk c) = 48%nat.
Proof. intros (H1 & _). apply len_ser_CASChunkSequenceEntry; assumption. Qed.

Lemma enough_app n (a b : list N) : (N.to_nat (n * 48) <= length a)%nat -> enough n (a ++ b) = true.
Proof. intros H. unfold enough. rewrite app_length. lia. Qed.

Theorem parse_ser_cas c rest : wf_cas c -> parse_cas_info (ser_cas_info c ++ rest) = Some (Some c, rest).
Proof.
  intros (H1 & H2 & H3 & H4 & H5 & H6 & H7). unfold parse_cas_info, ser_cas_info. rewrite <- app_assoc.
  rewrite rt_CASChunkSequenceHeader by assumption. rewrite H2.
  rewrite enough_app by (rewrite (flat_map_length48 wf_chunk ser_chunk len_ser_chunk) by assumption; unfold is_u32 in *; lia).
  cbn [negb]. replace (N.to_nat (N.of_nat (length (ci_chunks c)))) with (length (ci_chunks c)) by lia.
  rewrite (parse_n_flat_map wf_chunk ser_chunk parse_chunk parse_ser_chunk) by assumption. destruct c; reflexivity.
Qed.

Theorem parse_ser_file f rest : wf_file f -> parse_file_info (ser_file_info f ++ rest) = Some (Some f, rest).
Proof.
  intros (H1 & H2 & H3 & H4 & H5 & H6 & H7 & H8 & H9). unfold parse_file_info, ser_file_info. rewrite <- !app_assoc.
  rewrite rt_FileDataSequenceHeader by assumption. rewrite H2.
  rewrite enough_app by (rewrite (flat_map_length48 wf_seg ser_seg len_ser_seg) by assumption; unfold is_u32 in *; lia).
  cbn [negb]. replace (N.to_nat (N.of_nat (length (fi_segs f)))) with (length (fi_segs f)) by lia.
  rewrite (parse_n_flat_map wf_seg ser_seg parse_seg parse_ser_seg) by assumption.
  destruct (has_verif (fi_flags f)) eqn:Ev.
  - rewrite enough_app.
    2:{ rewrite (flat_map_length48 is_hash (fun h => ser_FileVerificationEntry h [0; 0]) len_ser_FileVerificationEntry) by assumption.
        unfold is_u32, hash in *. lia. }
    rewrite <- H8. rewrite (parse_n_flat_map is_hash (fun h => ser_FileVerificationEntry h [0; 0]) parse_verif parse_ser_verif) by assumption.
    destruct (has_ext (fi_flags f)) eqn:Ee.
    + destruct H9 as (h & Hh & Hi). rewrite Hh. rewrite rt_FileMetadataExt by assumption. destruct f; cbn in *; subst; reflexivity.
    + rewrite H9. cbn [app]. destruct f; cbn in *; subst; reflexivity.
  - cbn [app]. destruct (has_ext (fi_flags f)) eqn:Ee.
    + destruct H9 as (h & Hh & Hi). rewrite Hh. rewrite rt_FileMetadataExt by assumption. destruct f; cbn in *; subst; reflexivity.
    + rewrite H9. cbn [app]. destruct f; cbn in *; subst; reflexivity.
Qed.

(* a whole section: records followed by the bookend *)
Lemma parse_file_bookend rest : parse_file_info (file_bookend ++ rest) = Some (None, rest).
Proof. reflexivity. Qed.
Lemma parse_cas_bookend rest : parse_cas_info (cas_bookend ++ rest) = Some (None, rest).
Proof. reflexivity. Qed.

Theorem parse_all_files : forall fs rest fuel, Forall wf_file fs -> (length fs < fuel)%nat ->
  parse_all parse_file_info fuel (flat_map ser_file_info fs ++ file_bookend ++ rest) = Some (fs, rest).
Proof.
  induction fs as [|f fs IH]; intros rest fuel HF Hfuel; (destruct fuel as [|fuel]; [cbn in Hfuel; lia|]).
  - cbn [flat_map app parse_all]. rewrite parse_file_bookend. reflexivity.
  - inversion HF; subst. cbn [flat_map parse_all]. rewrite <- app_assoc. rewrite parse_ser_file by assumption.
    rewrite IH by (auto; cbn [length] in Hfuel; lia). reflexivity.
Qed.

Theorem parse_all_cas : forall cs rest fuel, Forall wf_cas cs -> (length cs < fuel)%nat ->
  parse_all parse_cas_info fuel (flat_map ser_cas_info cs ++ cas_bookend ++ rest) = Some (cs, rest).
Proof.
  induction cs as [|c cs IH]; intros rest fuel HF Hfuel; (destruct fuel as [|fuel]; [cbn in Hfuel; lia|]).
  - cbn [flat_map app parse_all]. rewrite parse_cas_bookend. reflexivity.
  - inversion HF; subst. cbn [flat_map parse_all]. rewrite <- app_assoc. rewrite parse_ser_cas by assumption.
    rewrite IH by (auto; cbn [length] in Hfuel; lia). reflexivity.
Qed.
