(* Round-trip lemmas for the generated fixed-width codecs (Gen/ShardLayout.v). *)
From Coq Require Import ZArith NArith Bool List Lia ZifyBool ZifyN ZifyNat.
Import ListNotations.
From XetModel Require Import Base.Codec Gen.ShardLayout.
Open Scope N_scope.

Arguments N.add : simpl never.
Arguments N.mul : simpl never.
Arguments N.div : simpl never.
Arguments N.modulo : simpl never.
Arguments N.ltb : simpl never.
Arguments N.leb : simpl never.

Ltac Zify.zify_post_hook ::= Z.div_mod_to_equations.

Lemma le_val_u32 x : x < 4294967296 ->
  le_val [x mod 256; x / 256 mod 256; x / 256 / 256 mod 256; x / 256 / 256 / 256 mod 256] = x.
Proof. intros H. unfold le_val, fold_right. lia. Qed.

Lemma le_val_u64 x : x < 18446744073709551616 ->
  le_val [x mod 256; x / 256 mod 256; x / 256 / 256 mod 256; x / 256 / 256 / 256 mod 256;
          x / 256 / 256 / 256 / 256 mod 256; x / 256 / 256 / 256 / 256 / 256 mod 256;
          x / 256 / 256 / 256 / 256 / 256 / 256 mod 256; x / 256 / 256 / 256 / 256 / 256 / 256 / 256 mod 256] = x.
Proof. intros H. unfold le_val, fold_right. lia. Qed.

Definition is_u32 (x : N) : Prop := x < 4294967296.
Definition is_u64 (x : N) : Prop := x < 18446744073709551616.
Definition is_hash (h : list N) : Prop := length h = 32%nat.

Lemma hash_cases (h : list N) : is_hash h ->
  exists a0 a1 a2 a3 a4 a5 a6 a7 b0 b1 b2 b3 b4 b5 b6 b7 c0 c1 c2 c3 c4 c5 c6 c7 d0 d1 d2 d3 d4 d5 d6 d7,
    h = [a0;a1;a2;a3;a4;a5;a6;a7;b0;b1;b2;b3;b4;b5;b6;b7;c0;c1;c2;c3;c4;c5;c6;c7;d0;d1;d2;d3;d4;d5;d6;d7].
Proof.
  unfold is_hash. intros H. do 32 (destruct h as [|? h]; [discriminate|]). destruct h; [|discriminate]. repeat eexists.
Qed.

Ltac explode_hash h H :=
  let a0 := fresh in
  destruct (hash_cases h H) as (?&?&?&?&?&?&?&?&?&?&?&?&?&?&?&?&?&?&?&?&?&?&?&?&?&?&?&?&?&?&?&?&->).

Ltac codec_rt :=
  cbn [app u32 u64 u64s le_bytes flat_map has length Nat.leb firstn skipn de_u64s repeat];
  rewrite ?le_val_u32, ?le_val_u64 by assumption; reflexivity.

Lemma rt_FileDataSequenceHeader h fl n u rest : is_hash h -> is_u32 fl -> is_u32 n -> is_u64 u ->
  de_FileDataSequenceHeader (ser_FileDataSequenceHeader h fl n u ++ rest) = Some ((h, fl, n, u), rest).
Proof. intros Hh ? ? ?. explode_hash h Hh. unfold de_FileDataSequenceHeader, ser_FileDataSequenceHeader, is_u32, is_u64 in *. codec_rt. Qed.

Lemma rt_FileDataSequenceEntry h a b c d rest : is_hash h -> is_u32 a -> is_u32 b -> is_u32 c -> is_u32 d ->
  de_FileDataSequenceEntry (ser_FileDataSequenceEntry h a b c d ++ rest) = Some ((h, a, b, c, d), rest).
Proof. intros Hh ? ? ? ?. explode_hash h Hh. unfold de_FileDataSequenceEntry, ser_FileDataSequenceEntry, is_u32 in *. codec_rt. Qed.

Lemma rt_FileVerificationEntry h rest : is_hash h ->
  de_FileVerificationEntry (ser_FileVerificationEntry h [0; 0] ++ rest) = Some ((h, [0; 0]), rest).
Proof. intros Hh. explode_hash h Hh. unfold de_FileVerificationEntry, ser_FileVerificationEntry. codec_rt. Qed.

Lemma rt_FileMetadataExt h rest : is_hash h ->
  de_FileMetadataExt (ser_FileMetadataExt h [0; 0] ++ rest) = Some ((h, [0; 0]), rest).
Proof. intros Hh. explode_hash h Hh. unfold de_FileMetadataExt, ser_FileMetadataExt. codec_rt. Qed.

Lemma rt_CASChunkSequenceHeader h a b c d rest : is_hash h -> is_u32 a -> is_u32 b -> is_u32 c -> is_u32 d ->
  de_CASChunkSequenceHeader (ser_CASChunkSequenceHeader h a b c d ++ rest) = Some ((h, a, b, c, d), rest).
Proof. intros Hh ? ? ? ?. explode_hash h Hh. unfold de_CASChunkSequenceHeader, ser_CASChunkSequenceHeader, is_u32 in *. codec_rt. Qed.

Lemma rt_CASChunkSequenceEntry h a b u rest : is_hash h -> is_u32 a -> is_u32 b -> is_u64 u ->
  de_CASChunkSequenceEntry (ser_CASChunkSequenceEntry h a b u ++ rest) = Some ((h, a, b, u), rest).
Proof. intros Hh ? ? ?. explode_hash h Hh. unfold de_CASChunkSequenceEntry, ser_CASChunkSequenceEntry, is_u32, is_u64 in *. codec_rt. Qed.

Lemma rt_MDBShardFileHeader t v f rest : is_hash t -> is_u64 v -> is_u64 f ->
  de_MDBShardFileHeader (ser_MDBShardFileHeader t v f ++ rest) = Some ((t, v, f), rest).
Proof. intros Hh ? ?. explode_hash t Hh. unfold de_MDBShardFileHeader, ser_MDBShardFileHeader, is_u64 in *. codec_rt. Qed.

Lemma len_ser_FileDataSequenceHeader h fl n u : is_hash h -> length (ser_FileDataSequenceHeader h fl n u) = 48%nat.
Proof. intros Hh. unfold ser_FileDataSequenceHeader. rewrite !app_length, Hh. reflexivity. Qed.
Lemma len_ser_FileDataSequenceEntry h a b c d : is_hash h -> length (ser_FileDataSequenceEntry h a b c d) = 48%nat.
Proof. intros Hh. unfold ser_FileDataSequenceEntry. rewrite !app_length, Hh. reflexivity. Qed.
Lemma len_ser_FileVerificationEntry h : is_hash h -> length (ser_FileVerificationEntry h [0; 0]) = 48%nat.
Proof. intros Hh. unfold ser_FileVerificationEntry. rewrite !app_length, Hh. reflexivity. Qed.
Lemma len_ser_FileMetadataExt h : is_hash h -> length (ser_FileMetadataExt h [0; 0]) = 48%nat.
Proof. intros Hh. unfold ser_FileMetadataExt. rewrite !app_length, Hh. reflexivity. Qed.
Lemma len_ser_CASChunkSequenceHeader h a b c d : is_hash h -> length (ser_CASChunkSequenceHeader h a b c d) = 48%nat.
Proof. intros Hh. unfold ser_CASChunkSequenceHeader. rewrite !app_length, Hh. reflexivity. Qed.
Lemma len_ser_CASChunkSequenceEntry h a b u : is_hash h -> length (ser_CASChunkSequenceEntry h a b u) = 48%nat.
Proof. intros Hh. unfold ser_CASChunkSequenceEntry. rewrite !app_length, Hh. reflexivity. Qed.
