(* Proofs about Model/Chunker.v: the literal transcription of Chunker::next/next_block/finish
   is the byte-at-a-time machine; the machine is the closed-form reference rule; concatenation,
   partition invariance, locality and bounds. *)
From Coq Require Import NArith Bool List Lia ZifyBool ZifyN ZifyNat.
Import ListNotations.
From XetModel Require Import Gen.GearTable Gen.ChunkConsts Model.Chunker.
Open Scope N_scope.

Arguments N.add : simpl never.
Arguments N.sub : simpl never.
Arguments N.mul : simpl never.
Arguments N.ltb : simpl never.
Arguments N.leb : simpl never.
Arguments N.eqb : simpl never.
Arguments N.min : simpl never.
Arguments N.land : simpl never.
Arguments N.shiftl : simpl never.
Arguments N.to_nat : simpl never.
Arguments N.of_nat : simpl never.
Arguments gear_step : simpl never.

Definition wf (c : cfg) : Prop := c_min c < c_max c.
Definition Inv (c : cfg) (s : st) : Prop :=
  s_cur s = N.of_nat (length (s_buf s)) /\ s_cur s < c_max c.

Lemma Inv_st0 c : wf c -> Inv c st0.
Proof. unfold wf, Inv; simpl; lia. Qed.

(* run the byte machine until the first chunk *)
Fixpoint feed_until (c : cfg) (s : st) (data : list N) : option (list N) * list N * st :=
  match data with
  | [] => (None, [], s)
  | b :: r =>
      let '(s', o) := bstep c s b in
      match o with
      | Some ch => (Some ch, r, s')
      | None => feed_until c s' r
      end
  end.

Lemma st_eta s : {| s_hash := s_hash s; s_cur := s_cur s; s_buf := s_buf s |} = s.
Proof. destruct s; reflexivity. Qed.

Lemma bstep_inv c s b s' o : Inv c s -> wf c -> bstep c s b = (s', o) -> Inv c s'.
Proof.
  unfold Inv, wf, bstep, skipping. intros [Hc Hm] Hw H.
  destruct (s_cur s + HASH_WINDOW_SIZE + 1 <? c_min c) eqn:Hs.
  - inversion H; subst; clear H. cbn [s_cur s_buf length]. unfold HASH_WINDOW_SIZE in *. lia.
  - destruct ((N.land (gear_step (s_hash s) b) (c_mask c) =? 0) || (c_max c <=? s_cur s + 1)) eqn:Hcut;
      inversion H; subst; clear H; cbn [s_cur s_buf length st0]; lia.
Qed.

Lemma bstep_some_st0 c s b s' ch : bstep c s b = (s', Some ch) -> s' = st0 /\ ch = rev (b :: s_buf s).
Proof.
  unfold bstep. destruct (skipping c (s_cur s)); [discriminate|].
  destruct (_ || _); inversion 1; auto.
Qed.

Lemma feed_until_inv c : forall data s o rest s', Inv c s -> wf c ->
  feed_until c s data = (o, rest, s') -> Inv c s'.
Proof.
  induction data as [|b r IH]; intros s o rest s' HI Hw H; cbn [feed_until] in H.
  - inversion H; subst; auto.
  - destruct (bstep c s b) as [s1 o1] eqn:Hb. pose proof (bstep_inv _ _ _ _ _ HI Hw Hb) as HI1.
    destruct o1; [inversion H; subst; auto | eauto].
Qed.

(* a chunk cut by feed_until, together with the rest, is the buffered bytes plus the input *)
Lemma feed_until_some c : forall data s ch rest s',
  feed_until c s data = (Some ch, rest, s') ->
  ch ++ rest = rev (s_buf s) ++ data /\ s' = st0 /\ (length rest < length data)%nat.
Proof.
  induction data as [|b r IH]; intros s ch rest s' H; cbn [feed_until] in H; [discriminate|].
  destruct (bstep c s b) as [s1 o1] eqn:Hb. destruct o1 as [ch1|].
  - inversion H; subst; clear H. apply bstep_some_st0 in Hb as [-> ->].
    cbn [rev length]. rewrite <- app_assoc. cbn. auto with arith.
  - apply IH in H as (H1 & H2 & H3). split; [|split; [auto|cbn [length]; lia]].
    rewrite H1. unfold bstep in Hb. destruct (skipping c (s_cur s)).
    + inversion Hb; subst; cbn [s_buf rev]. rewrite <- app_assoc; reflexivity.
    + destruct (_ || _); inversion Hb; subst; cbn [s_buf rev]. rewrite <- app_assoc; reflexivity.
Qed.

Lemma feed_until_none c : forall data s rest s',
  feed_until c s data = (None, rest, s') ->
  rest = [] /\ s_buf s' = rev_append data (s_buf s) /\ s_cur s' = s_cur s + N.of_nat (length data).
Proof.
  induction data as [|b r IH]; intros s rest s' H; cbn [feed_until] in H.
  - inversion H; subst; cbn. repeat split; lia.
  - destruct (bstep c s b) as [s1 o1] eqn:Hb. destruct o1 as [ch1|]; [discriminate|].
    apply IH in H as (H1 & H2 & H3). unfold bstep in Hb. destruct (skipping c (s_cur s)).
    + inversion Hb; subst; cbn [s_buf s_cur rev_append length] in *. repeat split; auto; lia.
    + destruct (_ || _); inversion Hb; subst; cbn [s_buf s_cur rev_append length] in *. repeat split; auto; lia.
Qed.

(* feed, decomposed at the first chunk *)
Lemma feed_unfold c : forall data s,
  feed c s data =
  match feed_until c s data with
  | (Some ch, rest, s') => let '(chs, sf) := feed c s' rest in (ch :: chs, sf)
  | (None, _, s') => ([], s')
  end.
Proof.
  induction data as [|b r IH]; intros s; cbn [feed feed_until]; [reflexivity|].
  destruct (bstep c s b) as [s1 o1]. destruct o1 as [ch1|]; [reflexivity|].
  rewrite IH. destruct (feed_until c s1 r) as [[o rest] s']. destruct o; [|reflexivity].
  destruct (feed c s' rest); reflexivity.
Qed.

Lemma feed_app c : forall a b s,
  feed c s (a ++ b) =
  let '(ch1, s1) := feed c s a in let '(ch2, s2) := feed c s1 b in (ch1 ++ ch2, s2).
Proof.
  induction a as [|x a IH]; intros b s; cbn [app feed].
  - destruct (feed c s b); reflexivity.
  - destruct (bstep c s x) as [s1 o1]. rewrite IH.
    destruct (feed c s1 a) as [ch1 s2]. destruct (feed c s2 b) as [ch2 s3].
    destruct o1; reflexivity.
Qed.

Lemma feed_inv c : forall data s chs sf, Inv c s -> wf c -> feed c s data = (chs, sf) -> Inv c sf.
Proof.
  induction data as [|b r IH]; intros s chs sf HI Hw H; cbn [feed] in H.
  - inversion H; subst; auto.
  - destruct (bstep c s b) as [s1 o1] eqn:Hb. destruct (feed c s1 r) as [chs1 sf1] eqn:Hf.
    inversion H; subst. eapply IH; [eapply bstep_inv; eauto|auto|eauto].
Qed.

(* ---------------------------------------------------------------------- *)
(* skip phase *)

Lemma firstn_add {A} : forall k i (l : list A), firstn (k + i) l = firstn k l ++ firstn i (skipn k l).
Proof. induction k as [|k IH]; intros i l; [reflexivity|]. destruct l; cbn; [destruct i; reflexivity|]. rewrite IH; reflexivity. Qed.

Lemma rev_append_app {A} : forall (a b c : list A), rev_append (a ++ b) c = rev_append b (rev_append a c).
Proof. induction a; intros; cbn; auto. Qed.

Lemma skip_phase c : forall k data s, (k <= length data)%nat ->
  (k = 0%nat \/ s_cur s + N.of_nat k + HASH_WINDOW_SIZE < c_min c) ->
  feed_until c s data =
  feed_until c {| s_hash := s_hash s; s_cur := s_cur s + N.of_nat k; s_buf := rev_append (firstn k data) (s_buf s) |} (skipn k data).
Proof.
  induction k as [|k IH]; intros data s Hk Hs.
  - cbn [firstn skipn rev_append]. replace (s_cur s + N.of_nat 0) with (s_cur s) by lia. rewrite st_eta. reflexivity.
  - destruct data as [|b r]; [cbn in Hk; lia|]. cbn [feed_until firstn skipn rev_append].
    destruct Hs as [Hs|Hs]; [discriminate|].
    unfold bstep, skipping. destruct (s_cur s + HASH_WINDOW_SIZE + 1 <? c_min c) eqn:E; [|lia].
    rewrite (IH r); [|cbn in Hk; lia|cbn [s_cur]; destruct k; [left; reflexivity|right; lia]].
    cbn [s_hash s_cur s_buf]. f_equal. f_equal. lia.
Qed.

(* ---------------------------------------------------------------------- *)
(* hash phase: next_match against the byte machine *)

Definition nonskip (c : cfg) (s : st) : Prop := skipping c (s_cur s) = false.

Lemma hash_phase c : forall d rest s, nonskip c s ->
  s_cur s + N.of_nat (length d) <= c_max c ->
  match next_match (c_mask c) (s_hash s) d with
  | (Some i, hf) =>
      1 <= i /\ i <= N.of_nat (length d) /\
      (i = N.of_nat (length d) \/ s_cur s + i < c_max c) /\
      feed_until c s (d ++ rest) =
      (Some (rev (rev_append (firstn (N.to_nat i) d) (s_buf s))), skipn (N.to_nat i) d ++ rest, st0)
  | (None, hf) =>
      if s_cur s + N.of_nat (length d) <? c_max c then
        feed_until c s (d ++ rest) =
        feed_until c {| s_hash := hf; s_cur := s_cur s + N.of_nat (length d); s_buf := rev_append d (s_buf s) |} rest
      else d <> [] ->
        feed_until c s (d ++ rest) = (Some (rev (rev_append d (s_buf s))), rest, st0)
  end.
Proof.
  induction d as [|b r IH]; intros rest s Hns Hlen.
  - cbn [next_match length app rev_append]. replace (s_cur s + N.of_nat 0) with (s_cur s) by lia.
    destruct (s_cur s <? c_max c); [rewrite st_eta; reflexivity|intros H; congruence].
  - cbn [next_match]. cbn [app feed_until]. unfold bstep. unfold nonskip in Hns. rewrite Hns.
    destruct (N.land (gear_step (s_hash s) b) (c_mask c) =? 0) eqn:Em.
    + cbn [orb length]. repeat split; try lia.
      destruct r; [left; cbn; lia | right; cbn [length] in *; lia].
    + cbn [orb].
      assert (Hns' : nonskip c {| s_hash := gear_step (s_hash s) b; s_cur := s_cur s + 1; s_buf := b :: s_buf s |}).
      { unfold nonskip, skipping in *. cbn [s_cur]. lia. }
      specialize (IH rest _ Hns'). cbn [s_hash s_cur s_buf] in IH. cbn [length] in Hlen.
      specialize (IH ltac:(lia)).
      destruct (next_match (c_mask c) (gear_step (s_hash s) b) r) as [[i|] hf].
      * destruct IH as (I1 & I2 & I3 & I4).
        assert (E : (c_max c <=? s_cur s + 1) = false) by lia. rewrite E.
        repeat split; try (cbn [length]; lia).
        replace (N.to_nat (i + 1)) with (S (N.to_nat i)) by lia. cbn [firstn skipn rev_append]. exact I4.
      * cbn [length]. replace (s_cur s + N.of_nat (S (length r))) with (s_cur s + 1 + N.of_nat (length r)) by lia.
        destruct (s_cur s + 1 + N.of_nat (length r) <? c_max c) eqn:E2.
        -- assert (E : (c_max c <=? s_cur s + 1) = false) by lia. rewrite E. cbn [rev_append]. exact IH.
        -- intros _. destruct r as [|b2 r2].
           ++ cbn [length] in *. assert (E : (c_max c <=? s_cur s + 1) = true) by lia. rewrite E. reflexivity.
           ++ assert (E : (c_max c <=? s_cur s + 1) = false) by (cbn [length] in *; lia). rewrite E.
              cbn [rev_append]. apply IH. discriminate.
Qed.

(* ---------------------------------------------------------------------- *)
(* Chunker::next is the byte machine run to the first chunk *)

Definition buf_nonempty (s : st) : bool := negb (match s_buf s with [] => true | _ => false end).

Definition next_spec (c : cfg) (s : st) (data : list N) (is_final : bool) : option (list N) * N * st :=
  match feed_until c s data with
  | (Some ch, rest, _) => (Some ch, N.of_nat (length data - length rest), st0)
  | (None, _, s') =>
      if is_final && buf_nonempty s' then (Some (rev (s_buf s')), N.of_nat (length data), st0)
      else (None, N.of_nat (length data), s')
  end.

Lemma skipn_add {A} : forall a m (l : list A), skipn m (skipn a l) = skipn (a + m) l.
Proof. induction a as [|a IH]; intros m l; [reflexivity|]. destruct l; cbn; [destruct m; reflexivity|apply IH]. Qed.

Lemma skipn_slice_split (data : list N) (a b : N) : a <= b -> b <= N.of_nat (length data) ->
  skipn (N.to_nat a) data = slice data a b ++ skipn (N.to_nat b) data.
Proof.
  intros Hab Hb. unfold slice. replace (N.to_nat b) with (N.to_nat a + N.to_nat (b - a))%nat by lia.
  rewrite <- skipn_add. symmetry. apply firstn_skipn.
Qed.

Lemma slice_length (data : list N) (a b : N) : a <= b -> b <= N.of_nat (length data) ->
  N.of_nat (length (slice data a b)) = b - a.
Proof. intros. unfold slice. rewrite firstn_length, skipn_length. lia. Qed.

Theorem next_is_machine c s data fin : wf c -> Inv c s -> next c s data fin = next_spec c s data fin.
Proof.
  intros Hw [Hcur Hmax]. unfold next, next_spec.
  destruct data as [|b0 r0] eqn:Hd.
  { cbn [length N.of_nat]. cbn [feed_until]. change (negb (N.of_nat 0 =? 0)) with false. cbv iota.
    unfold buf_nonempty. destruct (s_buf s); reflexivity. }
  rewrite <- Hd. assert (Hn : N.of_nat (length data) <> 0) by (subst; cbn [length]; lia).
  assert (Hdne : data <> []) by (subst; discriminate). clear Hd b0 r0.
  set (n := N.of_nat (length data)) in *.
  destruct (n =? 0) eqn:En; [lia|]. cbn [negb].
  unfold next_skip_cond, next_skip_amount, next_skip_avail, next_read_end, next_force_cond, next_force_amount.
  unfold wf in Hw. unfold HASH_WINDOW_SIZE in *.
  (* the skip phase *)
  set (k := if s_cur s + 64 <? c_min c then N.min (c_min c - s_cur s - 64 - 1) (n - 0) else 0).
  assert (Hk : k <= n) by (unfold k; destruct (_ <? _); lia).
  assert (Hskip : feed_until c s data =
            feed_until c {| s_hash := s_hash s; s_cur := s_cur s + k; s_buf := rev_append (firstn (N.to_nat k) data) (s_buf s) |}
                         (skipn (N.to_nat k) data)).
  { replace (s_cur s + k) with (s_cur s + N.of_nat (N.to_nat k)) by lia.
    apply skip_phase; [unfold n in *; lia|].
    unfold k, HASH_WINDOW_SIZE. destruct (s_cur s + 64 <? c_min c) eqn:E; [|left; reflexivity].
    destruct (N.to_nat (N.min (c_min c - s_cur s - 64 - 1) (n - 0))) eqn:E2; [left; reflexivity|right; lia]. }
  match goal with
  | |- context [if s_cur s + 64 <? c_min c then (?x, ?y) else (0, s_cur s)] =>
      replace (if s_cur s + 64 <? c_min c then (x, y) else (0, s_cur s)) with (k, s_cur s + k)
        by (unfold k; destruct (s_cur s + 64 <? c_min c); f_equal; lia)
  end.
  set (cur := s_cur s + k). set (re := N.min n (k + c_max c - cur)).
  assert (Hcurmax : cur < c_max c) by (unfold cur, k; destruct (_ <? _) eqn:E; lia).
  assert (Hre1 : k <= re) by (unfold re; lia). assert (Hre2 : re <= n) by (unfold re; lia).
  set (s1 := {| s_hash := s_hash s; s_cur := cur; s_buf := rev_append (firstn (N.to_nat k) data) (s_buf s) |}) in *.
  rewrite Hskip. fold cur. fold s1. rewrite (skipn_slice_split data k re Hre1 Hre2).
  pose proof (slice_length data k re Hre1 Hre2) as Hsl.
  set (d := slice data k re) in *. set (rest := skipn (N.to_nat re) data).
  assert (Hrestlen : N.of_nat (length rest) = n - re) by (unfold rest; rewrite skipn_length; unfold n; lia).
  (* does any byte get hashed? *)
  destruct (N.eq_dec k n) as [Hkn|Hkn].
  { (* everything was skipped *)
    assert (Hd0 : d = []) by (destruct d; [reflexivity|cbn [length] in Hsl; lia]).
    assert (Hr0 : rest = []) by (destruct rest; [reflexivity|cbn [length] in Hrestlen; lia]).
    rewrite Hd0, Hr0. cbn [next_match app feed_until].
    assert (E : (c_max c <=? re - k + cur) = false) by lia. rewrite E.
    replace (cur + (re - k)) with cur by lia. replace (k + (re - k)) with n by lia.
    unfold buf_nonempty, s1, cur. cbn [s_buf orb]. rewrite Hkn. reflexivity. }
  assert (Hns : nonskip c s1).
  { unfold nonskip, skipping, s1, cur, k, HASH_WINDOW_SIZE. cbn [s_cur]. unfold k in Hkn. destruct (s_cur s + 64 <? c_min c) eqn:E; lia. }
  pose proof (hash_phase c d rest s1 Hns) as HP. cbn [s_cur s_hash s_buf] in HP.
  specialize (HP ltac:(unfold s1; cbn [s_cur]; lia)).
  unfold s1 in HP at 1. cbn [s_hash] in HP.
  destruct (next_match (c_mask c) (s_hash s) d) as [[i|] hf].
  - destruct HP as (I1 & I2 & I3 & I4). rewrite I4.
    assert (Hfe : forall x, rev_append (firstn (N.to_nat (k + x)) data) (s_buf s) =
                   rev_append (firstn (N.to_nat x) (skipn (N.to_nat k) data)) (rev_append (firstn (N.to_nat k) data) (s_buf s))).
    { intros x. replace (N.to_nat (k + x)) with (N.to_nat k + N.to_nat x)%nat by lia. rewrite firstn_add, rev_append_app. reflexivity. }
    assert (Hfd : firstn (N.to_nat i) (skipn (N.to_nat k) data) = firstn (N.to_nat i) d).
    { unfold d, slice. rewrite firstn_firstn. f_equal. lia. }
    assert (Hlen : N.of_nat (length data - length (skipn (N.to_nat i) d ++ rest)) = k + i).
    { rewrite app_length, skipn_length. unfold n in *. lia. }
    destruct (c_max c <=? i + cur) eqn:Ef.
    + assert (Hi : i = c_max c - cur) by lia. rewrite <- Hi. cbn [orb].
      rewrite Hfe, Hfd. unfold s1. cbn [s_buf]. rewrite Hlen. reflexivity.
    + cbn [orb]. rewrite Hfe, Hfd. unfold s1. cbn [s_buf]. rewrite Hlen. reflexivity.
  - rewrite Hsl in HP. unfold s1 in HP |- *. cbn [s_cur s_buf] in HP.
    destruct (cur + (re - k) <? c_max c) eqn:Elt.
    + (* no cut: all data consumed *)
      assert (Hren : re = n) by (unfold re in *; lia).
      assert (Hr0 : rest = []) by (destruct rest; [reflexivity|cbn [length] in Hrestlen; lia]).
      rewrite HP. rewrite Hr0. cbn [feed_until].
      assert (E : (c_max c <=? re - k + cur) = false) by lia. rewrite E.
      cbn [orb]. replace (k + (re - k)) with n by lia.
      replace (N.to_nat n) with (length data) by (unfold n; lia). rewrite firstn_all.
      assert (Hbuf : rev_append d (rev_append (firstn (N.to_nat k) data) (s_buf s)) = rev_append data (s_buf s)).
      { rewrite <- rev_append_app. f_equal. unfold d, slice. rewrite Hren.
        replace (N.to_nat (n - k)) with (length (skipn (N.to_nat k) data)) by (rewrite skipn_length; unfold n; lia).
        rewrite firstn_all. apply firstn_skipn. }
      rewrite Hbuf. unfold buf_nonempty. cbn [s_buf]. reflexivity.
    + (* forced cut at max *)
      assert (Hdne2 : d <> []) by (intros ->; cbn [length] in Hsl; unfold re in *; lia).
      rewrite (HP Hdne2).
      assert (E : (c_max c <=? re - k + cur) = true) by lia. rewrite E.
      assert (Hrk : c_max c - cur = re - k) by (unfold re in *; lia). rewrite Hrk.
      replace (k + (re - k)) with re by lia.
      assert (Hbuf : rev_append d (rev_append (firstn (N.to_nat k) data) (s_buf s)) = rev_append (firstn (N.to_nat re) data) (s_buf s)).
      { rewrite <- rev_append_app. f_equal. unfold d, slice.
        replace (N.to_nat re) with (N.to_nat k + N.to_nat (re - k))%nat by lia. rewrite firstn_add. reflexivity. }
      rewrite Hbuf. cbn [orb s_buf]. f_equal. f_equal. unfold n in *. lia.
Qed.
