(* Chunk cache (Model/Cache.v), C12: the cache file codec round-trips and a sub-range read of a stored range returns
   exactly the chunks asked for. *)
From Coq Require Import ZArith NArith Bool List Lia ZifyBool ZifyN ZifyNat.
Import ListNotations.
From XetModel Require Import Base.Codec Gen.CacheFacts Model.Merkle Model.Cache Proofs.CodecProofs Proofs.CacheProofs.
Open Scope N_scope.

Arguments N.add : simpl never.
Arguments N.mul : simpl never.
Arguments N.sub : simpl never.
Arguments N.div : simpl never.
Arguments N.modulo : simpl never.
Arguments N.ltb : simpl never.
Arguments N.leb : simpl never.
Arguments N.eqb : simpl never.
Arguments N.to_nat : simpl never.
Arguments N.of_nat : simpl never.

(* ---------------------------------------------------------------- N-indexed list functions are the usual ones *)
Lemma nthN_nth_error {A} (l : list A) : forall n, nthN l n = nth_error l (N.to_nat n).
Proof.
  induction l as [|x r IH]; intros n; cbn [nthN].
  - destruct (N.to_nat n); reflexivity.
  - destruct (n =? 0) eqn:E.
    + apply N.eqb_eq in E. subst. reflexivity.
    + apply N.eqb_neq in E. replace (N.to_nat n) with (S (N.to_nat (n - 1))) by lia. cbn [nth_error]. apply IH.
Qed.
Lemma dropN_skipn {A} (l : list A) : forall n, dropN l n = skipn (N.to_nat n) l.
Proof.
  induction l as [|x r IH]; intros n; cbn [dropN].
  - destruct (N.to_nat n); reflexivity.
  - destruct (n =? 0) eqn:E.
    + apply N.eqb_eq in E. subst. reflexivity.
    + apply N.eqb_neq in E. replace (N.to_nat n) with (S (N.to_nat (n - 1))) by lia. cbn [skipn]. apply IH.
Qed.
Lemma takeN_firstn {A} (l : list A) : forall n, takeN l n = firstn (N.to_nat n) l.
Proof.
  induction l as [|x r IH]; intros n; cbn [takeN].
  - destruct (N.to_nat n); reflexivity.
  - destruct (n =? 0) eqn:E.
    + apply N.eqb_eq in E. subst. reflexivity.
    + apply N.eqb_neq in E. replace (N.to_nat n) with (S (N.to_nat (n - 1))) by lia. cbn [firstn]. f_equal. apply IH.
Qed.

(* ---------------------------------------------------------------- the header round-trips *)
Lemma u32_eq x : u32 x = [x mod 256; x / 256 mod 256; x / 256 / 256 mod 256; x / 256 / 256 / 256 mod 256].
Proof. reflexivity. Qed.
Lemma le_val_u32_app x rest : x < 4294967296 -> le_val (firstn 4 (u32 x ++ rest)) = x /\ skipn 4 (u32 x ++ rest) = rest.
Proof. intro H. rewrite u32_eq. cbn [app firstn skipn]. split; [apply le_val_u32; exact H | reflexivity]. Qed.

Definition chain_ok (prev : option N) (offs : list N) : Prop :=
  match offs with
  | [] => True
  | v :: _ => match prev with None => v = 0 | Some p => p < v end
  end.
Fixpoint increasing (l : list N) : Prop :=
  match l with
  | a :: ((b :: _) as r) => a < b /\ increasing r
  | _ => True
  end.

Lemma de_offs_ser offs : forall fuel prev rest,
  chain_ok prev offs -> increasing offs -> Forall (fun v => v < 4294967296) offs -> (length offs <= fuel)%nat ->
  de_offs fuel (lenN offs) prev (flat_map u32 offs ++ rest) = Some offs.
Proof.
  induction offs as [|v r IH]; intros fuel prev rest Hc Hi Hf Hfu.
  - destruct fuel; reflexivity.
  - destruct fuel as [|f]; [cbn [length] in Hfu; lia|]. cbn [de_offs].
    assert (E0 : (lenN (v :: r) =? 0) = false) by (apply N.eqb_neq; unfold lenN; cbn [length]; lia). rewrite E0.
    cbn [flat_map]. rewrite <- app_assoc.
    assert (Hh : has 4 (u32 v ++ flat_map u32 r ++ rest) = true).
    { unfold has. rewrite u32_eq. cbn [app length]. reflexivity. }
    rewrite Hh. inversion Hf as [|? ? Hv Hr]; subst.
    destruct (le_val_u32_app v (flat_map u32 r ++ rest) Hv) as [E1 E2]. rewrite E1, E2.
    assert (Hok : match prev with None => v =? 0 | Some p => p <? v end = true).
    { cbn [chain_ok] in Hc. destruct prev; [apply N.ltb_lt | apply N.eqb_eq]; exact Hc. }
    rewrite Hok. replace (lenN (v :: r) - 1) with (lenN r) by (unfold lenN; cbn [length]; lia).
    rewrite IH; [reflexivity| | | |cbn [length] in Hfu; lia].
    + destruct r as [|w r']; [exact I|]. cbn [chain_ok]. cbn [increasing] in Hi. tauto.
    + destruct r as [|w r']; [exact I|]. cbn [increasing] in Hi. tauto.
    + exact Hr.
Qed.

Lemma length_flat_u32 offs : length (flat_map u32 offs) = (4 * length offs)%nat.
Proof. induction offs as [|v r IH]; [reflexivity|]. cbn [flat_map]. rewrite app_length, IH. rewrite u32_eq. cbn [length]. lia. Qed.
Lemma length_ser_header offs : length (ser_header offs) = (4 * (length offs + 1))%nat.
Proof. unfold ser_header. rewrite app_length, length_flat_u32, u32_eq. cbn [length]. lia. Qed.

Definition valid_offs (offs : list N) : Prop :=
  chain_ok None offs /\ increasing offs /\ Forall (fun v => v < 4294967296) offs /\ lenN offs < 4294967296.

Theorem de_header_encode offs data : valid_offs offs -> de_header (encode_file offs data) = Some offs.
Proof.
  intros (Hc & Hi & Hf & Hl). unfold de_header, encode_file, ser_header. rewrite <- app_assoc.
  assert (Hh : has 4 (u32 (lenN offs) ++ flat_map u32 offs ++ data) = true).
  { unfold has. rewrite u32_eq. cbn [app length]. reflexivity. }
  rewrite Hh. destruct (le_val_u32_app (lenN offs) (flat_map u32 offs ++ data) Hl) as [E1 E2]. rewrite E1, E2.
  apply de_offs_ser; try assumption.
  rewrite !app_length, length_flat_u32, u32_eq. cbn [length]. lia.
Qed.

(* ---------------------------------------------------------------- offsets of a chunk list *)
Fixpoint cum (a : N) (chs : list bytes) : list N :=
  a :: match chs with [] => [] | c :: r => cum (a + lenN c) r end.

Lemma cum_length a chs : length (cum a chs) = S (length chs).
Proof. revert a; induction chs as [|c r IH]; intro a; cbn [cum length]; [reflexivity | rewrite IH; reflexivity]. Qed.

Lemma lenN_concat_cons (c : bytes) r : lenN (concat (c :: r)) = lenN c + lenN (concat r).
Proof. cbn [concat]. apply lenN_app. Qed.

Lemma cum_nth chs : forall a i, (i <= length chs)%nat -> nth_error (cum a chs) i = Some (a + lenN (concat (firstn i chs))).
Proof.
  induction chs as [|c r IH]; intros a i Hi.
  - cbn [length] in Hi. assert (i = O) by lia. subst. cbn. f_equal. unfold lenN. cbn. lia.
  - destruct i as [|i].
    + cbn. f_equal. unfold lenN. cbn. lia.
    + cbn [cum nth_error firstn]. rewrite IH by (cbn [length] in Hi; lia). f_equal. rewrite lenN_concat_cons. lia.
Qed.

Lemma cum_skipn chs : forall a i, (i <= length chs)%nat -> skipn i (cum a chs) = cum (a + lenN (concat (firstn i chs))) (skipn i chs).
Proof.
  induction chs as [|c r IH]; intros a i Hi.
  - cbn [length] in Hi. assert (i = O) by lia. subst. cbn [skipn firstn concat]. f_equal. unfold lenN. cbn [length]. lia.
  - destruct i as [|i].
    + cbn [skipn firstn concat]. f_equal. unfold lenN at 1. cbn [length]. lia.
    + cbn [cum skipn firstn]. rewrite IH by (cbn [length] in Hi; lia). f_equal. rewrite lenN_concat_cons. lia.
Qed.

Lemma cum_firstn chs : forall a n, firstn (S n) (cum a chs) = cum a (firstn n chs).
Proof.
  induction chs as [|c r IH]; intros a n.
  - destruct n; reflexivity.
  - destruct n as [|n]; [reflexivity|]. cbn [cum firstn]. f_equal. apply IH.
Qed.

Lemma cum_shift chs : forall b d, map (fun v => v - b) (cum (b + d) chs) = cum d chs.
Proof.
  induction chs as [|c r IH]; intros b d; cbn [cum map].
  - f_equal. lia.
  - f_equal; [lia|]. replace (b + d + lenN c) with (b + (d + lenN c)) by lia. apply IH.
Qed.

Lemma cum_increasing chs : forall a, Forall (fun c => c <> []) chs -> increasing (cum a chs).
Proof.
  induction chs as [|c r IH]; intros a Hne; [exact I|]. inversion Hne as [|? ? Hc Hr]; subst.
  cbn [cum]. destruct r as [|c2 r2].
  - cbn [cum increasing]. split; [|exact I]. destruct c; [congruence|]. unfold lenN. cbn [length]. lia.
  - specialize (IH (a + lenN c) Hr). cbn [cum] in IH |- *. cbn [increasing]. split; [|exact IH].
    destruct c; [congruence|]. unfold lenN. cbn [length]. lia.
Qed.

Lemma cum_bound chs : forall a, Forall (fun v => v <= a + lenN (concat chs)) (cum a chs).
Proof.
  induction chs as [|c r IH]; intros a; cbn [cum].
  - constructor; [lia | constructor].
  - constructor; [lia|]. rewrite lenN_concat_cons. specialize (IH (a + lenN c)).
    eapply Forall_impl; [|exact IH]. cbn beta. intros v Hv. lia.
Qed.

Lemma cum_valid chs : Forall (fun c => c <> []) chs -> lenN (concat chs) < 4294967296 -> lenN chs + 1 < 4294967296 -> valid_offs (cum 0 chs).
Proof.
  intros Hne Hsz Hn. repeat split.
  - destruct chs; reflexivity.
  - apply cum_increasing. exact Hne.
  - eapply Forall_impl; [|apply cum_bound]. cbn beta. intros v Hv. lia.
  - unfold lenN in *. rewrite cum_length. unfold bytes in *. lia.
Qed.

(* ---------------------------------------------------------------- a sub-range read of a stored range *)
Lemma concat_split (chs : list bytes) i : concat chs = concat (firstn i chs) ++ concat (skipn i chs).
Proof. rewrite <- concat_app, firstn_skipn. reflexivity. Qed.

Lemma skipn_concat (chs : list bytes) i : skipn (length (concat (firstn i chs))) (concat chs) = concat (skipn i chs).
Proof. rewrite (concat_split chs i) at 1. rewrite skipn_app, skipn_all, Nat.sub_diag. reflexivity. Qed.

Lemma firstn_concat (X : list bytes) Y : firstn (length (concat X)) (concat X ++ Y) = concat X.
Proof. rewrite firstn_app, firstn_all, Nat.sub_diag. cbn [firstn]. apply app_nil_r. Qed.

(* the chunks [si, ei) of the stored list, read through the stored offsets *)
Theorem get_range_slice chs rs re start :
  start <= rs -> rs < re -> re - start <= lenN chs ->
  let sub := firstn (N.to_nat (re - rs)) (skipn (N.to_nat (rs - start)) chs) in
  get_range (cum 0 chs) (encode_file (cum 0 chs) (concat chs)) rs re start = CHit rs re (cum 0 sub) (concat sub).
Proof.
  intros H1 H2 H3 sub. unfold get_range.
  set (si := N.to_nat (rs - start)). set (ei := N.to_nat (re - start)).
  assert (Hsi : (si <= length chs)%nat) by (unfold si, lenN in *; lia).
  assert (Hei : (ei <= length chs)%nat) by (unfold ei, lenN in *; lia).
  rewrite !nthN_nth_error. fold si ei. rewrite (cum_nth chs 0 si Hsi), (cum_nth chs 0 ei Hei).
  set (sb := 0 + lenN (concat (firstn si chs))). set (eb := 0 + lenN (concat (firstn ei chs))).
  (* the data *)
  assert (Hn : (ei = si + N.to_nat (re - rs))%nat) by (unfold ei, si; lia).
  assert (Hsplit : concat (firstn ei chs) = concat (firstn si chs) ++ concat sub).
  { rewrite Hn. rewrite <- concat_app. f_equal. unfold sub. fold si.
    rewrite <- (firstn_skipn si (firstn (si + N.to_nat (re - rs)) chs)). f_equal.
    - rewrite firstn_firstn. f_equal. lia.
    - rewrite skipn_firstn_comm. f_equal. lia. }
  assert (Eeb : eb - sb = lenN (concat sub)).
  { unfold eb, sb. rewrite Hsplit, lenN_app. lia. }
  assert (Hdata : takeN (dropN (encode_file (cum 0 chs) (concat chs)) (sb + header_len (cum 0 chs))) (eb - sb) = concat sub).
  { rewrite takeN_firstn, dropN_skipn. unfold encode_file.
    assert (Hhl : N.to_nat (sb + header_len (cum 0 chs)) = (length (ser_header (cum 0 chs)) + length (concat (firstn si chs)))%nat).
    { rewrite length_ser_header. unfold header_len, sb, lenN. lia. }
    rewrite Hhl, skipn_app. rewrite skipn_all2 by lia. cbn [app].
    replace (length (ser_header (cum 0 chs)) + length (concat (firstn si chs)) - length (ser_header (cum 0 chs)))%nat
      with (length (concat (firstn si chs))) by lia.
    rewrite skipn_concat.
    replace (concat (skipn si chs)) with (concat sub ++ concat (skipn (N.to_nat (re - rs)) (skipn si chs))).
    2:{ rewrite <- concat_app. f_equal. unfold sub. fold si. apply firstn_skipn. }
    rewrite Eeb. unfold lenN. rewrite Nat2N.id. apply firstn_concat. }
  rewrite Hdata.
  assert (Hlt : (lenN (concat sub) <? eb - sb) = false) by (apply N.ltb_ge; lia). rewrite Hlt.
  f_equal.
  rewrite takeN_firstn, dropN_skipn. fold si.
  replace (N.to_nat (re - start - (rs - start) + 1)) with (S (N.to_nat (re - rs))) by lia.
  rewrite (cum_skipn chs 0 si Hsi), cum_firstn. fold sb. fold si in sub. fold sub.
  replace (cum sb sub) with (cum (sb + 0) sub) by (f_equal; lia). apply cum_shift.
Qed.

(* slices of slices *)
Lemma skipn_add' {A} : forall a m (l : list A), skipn m (skipn a l) = skipn (a + m) l.
Proof. induction a as [|a IH]; intros m l; [reflexivity|]. destruct l; [rewrite !skipn_nil; reflexivity | cbn [skipn plus]; apply IH]. Qed.
Lemma slice_slice {A} (l : list A) s rs n m :
  (s <= rs)%nat -> (rs + n <= s + m)%nat ->
  firstn n (skipn (rs - s) (firstn m (skipn s l))) = firstn n (skipn rs l).
Proof.
  intros H1 H2. rewrite skipn_firstn_comm, firstn_firstn, skipn_add'.
  replace (s + (rs - s))%nat with rs by lia. f_equal. lia.
Qed.

(* ---------------------------------------------------------------- what a hit is read from *)
(* the read step of a get that ends in a hit: the file at the entry's path was present, its CRC matched the name unless
   the entry had been verified before, its header parsed, and the result is the sub-range read of that content *)
Theorem get_hit_source s k rs re it v vs s' a b offs data ok :
  mstep s (PFound (OGet k rs re) it v) vs = (s', PDone (CHit a b offs data), ok) ->
  exists c h, fs_read (fs s) (item_path k it) = Some c /\ (v = true \/ crc32 c = i_crc it) /\
              de_header c = Some h /\ get_range h c rs re (i_s it) = CHit a b offs data.
Proof.
  cbn [mstep op_key]. destruct (fs_read (fs s) (item_path k it)) as [c|]; [|intro H; discriminate H].
  destruct (negb v && negb (crc32 c =? i_crc it)) eqn:E; [intro H; discriminate H|].
  destruct (de_header c) as [h|] eqn:Eh; [|intro H; discriminate H].
  intro H. injection H as _ H _. exists c, h. repeat split; try assumption.
  apply andb_false_iff in E. destruct E as [E|E]; [left | right].
  - destruct v; [reflexivity | discriminate].
  - apply negb_false_iff, N.eqb_eq in E. exact E.
Qed.

(* a get never ends in a hit any other way *)
Lemma mstep_hit_only_from_found s p vs s' a b offs data ok :
  mstep s p vs = (s', PDone (CHit a b offs data), ok) -> (exists k rs re it v, p = PFound (OGet k rs re) it v) \/ p = PDone (CHit a b offs data).
Proof.
  destruct p as [o|o it v|o it|o it|o|o nw|h dl|r]; cbn [mstep]; intro H.
  - destruct (op_range o). destruct (find_match _ _ _ _) as [[? ?]|]; [discriminate|]. destruct o; discriminate.
  - destruct o as [k rs re offs0 data0|k rs re].
    + exfalso. injection H as _ H _. unfold validate, validate_with in H.
      destruct (fs_read _ _) as [c|]; [|discriminate]. destruct (negb (lenN c =? i_len it)); [discriminate|].
      destruct (negb (crc32 c =? i_crc it)); [discriminate|]. destruct (de_header c) as [h|]; [|discriminate].
      destruct (lenN h <? re - i_s it + 1); [destruct validate_bounds_checked; discriminate|].
      destruct (negb _); [discriminate|]. destruct (get_range h c rs re (i_s it)); try discriminate.
      destruct (list_eqb _ _); discriminate.
    + left. eauto 6.
  - destruct (remove_state _ _ _); discriminate.
  - discriminate.
  - destruct o; discriminate.
  - destruct (commit _ _ _ _) as [[? ?] ?]. discriminate.
  - destruct dl; discriminate.
  - right. injection H as _ -> _. reflexivity.
Qed.

(* ---------------------------------------------------------------- names are injective *)
From XetModel Require Import Proofs.Base64Proofs.

Definition wf_key (k : key) : Prop := Forall is_byte k.
Definition wf_item (it : item) : Prop :=
  i_s it < 4294967296 /\ i_e it < 4294967296 /\ i_len it < 18446744073709551616 /\ i_crc it < 4294967296.

Lemma le_bytes_bytes n : forall x, Forall is_byte (le_bytes n x).
Proof.
  induction n as [|n IH]; intro x; cbn [le_bytes]; constructor; [|apply IH].
  unfold is_byte. apply N.mod_lt. discriminate.
Qed.
Lemma ser_item_bytes it : Forall is_byte (ser_item it).
Proof. unfold ser_item, u32, u64. repeat (apply Forall_app; split); apply le_bytes_bytes. Qed.

Lemma app_inj_len {A} (a c b d : list A) : length a = length c -> a ++ b = c ++ d -> a = c /\ b = d.
Proof.
  revert c; induction a as [|x r IH]; intros [|y s] Hl E; cbn [length] in Hl; try discriminate.
  - split; [reflexivity | exact E].
  - cbn [app] in E. injection E as -> E. destruct (IH s (eq_add_S _ _ Hl) E) as [-> ->]. split; reflexivity.
Qed.

Lemma u32_inj x y : x < 4294967296 -> y < 4294967296 -> u32 x = u32 y -> x = y.
Proof. intros Hx Hy E. rewrite <- (le_val_u32 x Hx), <- (le_val_u32 y Hy). rewrite <- !u32_eq. rewrite E. reflexivity. Qed.
Lemma u64_inj x y : x < 18446744073709551616 -> y < 18446744073709551616 -> u64 x = u64 y -> x = y.
Proof. intros Hx Hy E. rewrite <- (le_val_u64 x Hx), <- (le_val_u64 y Hy). change (le_val (u64 x) = le_val (u64 y)). rewrite E. reflexivity. Qed.

Lemma ser_item_inj a b : wf_item a -> wf_item b -> ser_item a = ser_item b -> a = b.
Proof.
  intros (A1 & A2 & A3 & A4) (B1 & B2 & B3 & B4) E. unfold ser_item in E.
  apply app_inj_len in E as [E1 E]; [|reflexivity]. apply app_inj_len in E as [E2 E]; [|reflexivity].
  apply app_inj_len in E as [E3 E4]; [|reflexivity].
  apply u32_inj in E1, E2, E4; try assumption. apply u64_inj in E3; try assumption.
  destruct a as [s1 e1 l1 c1], b as [s2 e2 l2 c2]. cbn [i_s i_e i_len i_crc] in *. subst. reflexivity.
Qed.

Lemma b64pad_inj a b : Forall is_byte a -> Forall is_byte b -> b64pad a = b64pad b -> a = b.
Proof.
  intros Ha Hb E. unfold b64pad in E. apply app_pad_inj in E; [|apply b64enc_no_pad; assumption|apply b64enc_no_pad; assumption].
  apply b64enc_inj; assumption.
Qed.

Lemma triple_inj {A B C} (a a' : A) (b b' : B) (c c' : C) : (a, b, c) = (a', b', c') -> b = b' /\ c = c'.
Proof. intro E. injection E as _ -> ->. split; reflexivity. Qed.
Theorem item_path_inj k it k' it' : wf_key k -> wf_key k' -> wf_item it -> wf_item it' ->
  item_path k it = item_path k' it' -> k = k' /\ it = it'.
Proof.
  intros Hk Hk' Hi Hi' E. unfold item_path, key_dir, item_name in E. cbn [fst snd] in E. apply triple_inj in E as [E1 E2].
  apply b64pad_inj in E1; try assumption. apply b64pad_inj in E2; try apply ser_item_bytes.
  apply ser_item_inj in E2; try assumption. split; assumption.
Qed.

(* ---------------------------------------------------------------- the checksum fits the name's field *)
Lemma lxor_lt32 a b : a < 4294967296 -> b < 4294967296 -> N.lxor a b < 4294967296.
Proof.
  intros Ha Hb. destruct (N.eq_dec (N.lxor a b) 0) as [E|E]; [rewrite E; reflexivity|].
  change 4294967296 with (2 ^ 32). apply N.log2_lt_pow2; [lia|].
  pose proof (N.log2_lxor a b) as L.
  assert (La : N.log2 a < 32) by (destruct (N.eq_dec a 0) as [->|Na]; [reflexivity | apply N.log2_lt_pow2; [lia | exact Ha]]).
  assert (Lb : N.log2 b < 32) by (destruct (N.eq_dec b 0) as [->|Nb]; [reflexivity | apply N.log2_lt_pow2; [lia | exact Hb]]).
  lia.
Qed.
Lemma shiftr1_lt32 c : c < 4294967296 -> N.shiftr c 1 < 4294967296.
Proof. intro H. rewrite N.shiftr_div_pow2. change (2 ^ 1) with 2. assert (c / 2 <= c) by (apply N.div_le_upper_bound; lia). lia. Qed.
Lemma crc_bit_lt32 c : c < 4294967296 -> crc_bit c < 4294967296.
Proof. intro H. unfold crc_bit. destruct (N.odd c); [apply lxor_lt32; [apply shiftr1_lt32; exact H | reflexivity] | apply shiftr1_lt32; exact H]. Qed.
Lemma crc_byte_lt32 c b : c < 4294967296 -> is_byte b -> crc_byte c b < 4294967296.
Proof. intros Hc Hb. unfold crc_byte. do 8 apply crc_bit_lt32. apply lxor_lt32; [exact Hc | unfold is_byte in Hb; lia]. Qed.
Lemma crc32_lt32 bs : Forall is_byte bs -> crc32 bs < 4294967296.
Proof.
  intro Hb. unfold crc32. apply lxor_lt32; [|reflexivity].
  assert (G : forall c, c < 4294967296 -> fold_left crc_byte bs c < 4294967296).
  { induction Hb as [|b r Hb0 Hr IH]; intros c Hc; cbn [fold_left]; [exact Hc | apply IH; apply crc_byte_lt32; assumption]. }
  apply G. reflexivity.
Qed.
