(* C11, the deduper and the shard manager put together: a file whose chunks were all recorded in blocks added to the manager
   (the shards of earlier sessions, flushed or still in memory), cleaned by a deduper whose data interface is that manager's
   chunk_hash_dedup_query, stores nothing, cuts nothing and counts no new byte -- below the cap on indexed chunks, with
   fragmentation prevention refusing nothing, for every split into process_chunks calls. *)
From Coq Require Import ZArith NArith Bool List Lia.
Import ListNotations.
From XetModel Require Import Base.Codec Gen.ShardLayout Gen.DedupFacts Gen.ManagerFacts Model.Merkle Model.Shard Model.Dedup Model.Manager
  Proofs.PipelineProofs Proofs.ResolveProofs Proofs.ReuploadProofs Proofs.ShardSizeProofs Proofs.ShardDedupWholeProofs Proofs.ManagerProofs Proofs.ManagerWholeProofs.
Open Scope N_scope.

(* the data interface: the manager's answer, errors read as "no answer" *)
Definition mgr_ask (g : mgr) (hs : list hash) : option (N * seg) :=
  match mgr_dedup g hs with Found (Some a) => Some a | _ => None end.

(* the chunk is recorded in a block the manager was given *)
Definition KnownToManager (ops : list gop) (h : hash) : Prop :=
  exists blk j ch, In (MAddCas blk) ops /\ nth_error (ci_chunks blk) j = Some ch /\ N.of_nat j <= 65535 /\ ce_hash ch = h.

Section WithManager.
  Variables (ra : bool) (cap target : N) (ops : list gop).
  Hypothesis Hs : shards_ok ops.
  Hypothesis Hlen : N.of_nat (length ops) <= 65536.
  Hypothesis Hb : blocks_ok ops.
  Let g := mgr_run ra cap target ops.
  Hypothesis Hcap : b_total (g_book g) < cap.
  Hypothesis Hclash : forall c, In c (b_colls (g_book g)) -> k_key c = zero_hash -> NoTruncClash c.

  Lemma mgr_ask_known h qr : KnownToManager ops h -> exists n s, mgr_ask g (h :: qr) = Some (n, s) /\ 1 <= n.
  Proof.
    intros (blk & j & ch & Hin & Hn & Hj & <-). destruct (added_chunk_found ra cap target ops Hs Hlen Hb Hcap Hclash blk j ch qr Hin Hn Hj) as (n & sg & E & Hn1).
    exists n, sg. unfold mgr_ask, g. rewrite E. split; [reflexivity | exact Hn1].
  Qed.

  Theorem known_chunks_store_nothing bbd cf : AllowAll cf -> forall fu (chunks : list chunk) f,
    (forall c, In c chunks -> KnownToManager ops (fst c)) ->
    Quiet f (process_loop fu bbd cf f chunks (pass1 fu (mgr_ask g) (map fst chunks))).
  Proof.
    intros HA fu chunks f Hk. apply process_loop_quiet; [exact HA|]. intros c r [pre ->]. cbn [map]. apply mgr_ask_known.
    apply Hk. apply in_or_app. right. left. reflexivity.
  Qed.

  (* one process_chunks call on a fresh deduper *)
  Theorem known_file_through_manager_stores_nothing bbd cf (chunks : list chunk) : AllowAll cf ->
    (forall c, In c chunks -> KnownToManager ops (fst c)) ->
    let f := process_chunks bbd cf fd0 chunks (pass1 (length chunks) (mgr_ask g) (map fst chunks)) in
    f_new f = [] /\ f_new_xorbs f = [] /\ f_registered f = [] /\ m_new_bytes (f_metrics f) = 0 /\ m_new_chunks (f_metrics f) = 0.
  Proof.
    intros HA Hk f. destruct (known_chunks_store_nothing bbd cf HA (length chunks) chunks fd0 Hk) as [A B C D E G _ _].
    unfold f, process_chunks. cbn [f_new f_new_xorbs f_registered f_metrics]. cbn [fd0 f_new f_new_xorbs f_registered f_metrics m0 m_new_bytes m_new_chunks] in *.
    repeat split; assumption.
  Qed.
End WithManager.

(* ---- non-vacuity: the manager of ManagerWholeProofs' example (a block added and flushed, another added) and a file made of
   a chunk of each ---- *)
Example reupload_manager_example :
  let chunks : list chunk := [(repeat 12 32%nat, 20); (repeat 14 32%nat, 40)] in
  (forall c, In c chunks -> KnownToManager wx_ops (fst c)) /\
  let f := process_chunks false rx_cfg fd0 chunks (pass1 (length chunks) (mgr_ask (mgr_run true 100 1000000 wx_ops)) (map fst chunks)) in
  f_new f = [] /\ m_new_bytes (f_metrics f) = 0 /\ m_deduped_bytes (f_metrics f) = 60 /\ length (f_info f) = 2%nat.
Proof.
  cbv zeta. split.
  - intros c [<-|[<-|[]]]; cbn [fst].
    + exists wx_b1, 1%nat, (dx_ch 12 20). repeat split; try reflexivity; [left; reflexivity | cbn; lia].
    + exists wx_b2, 1%nat, (dx_ch 14 40). repeat split; try reflexivity; [right; right; left; reflexivity | cbn; lia].
  - vm_compute. repeat split; reflexivity.
Qed.
