(* Chunk cache (Model/Cache.v): exact accounting and the capacity bound for every schedule and every victim choice
   (C13); what a hit returns (C12). *)
From Coq Require Import ZArith NArith Bool List Lia ZifyBool ZifyN ZifyNat.
Import ListNotations.
From XetModel Require Import Base.Codec Gen.CacheFacts Model.Merkle Model.Cache.
Open Scope N_scope.

Arguments N.add : simpl never.
Arguments N.mul : simpl never.
Arguments N.sub : simpl never.
Arguments N.ltb : simpl never.
Arguments N.leb : simpl never.
Arguments N.eqb : simpl never.
Arguments N.to_nat : simpl never.
Arguments N.of_nat : simpl never.

(* ---------------------------------------------------------------- basic facts *)
Lemma bytes_eqb_eq a : forall b, bytes_eqb a b = true <-> a = b.
Proof.
  induction a as [|x r IH]; intros [|y s]; cbn [bytes_eqb]; split; intro H; try discriminate; try reflexivity.
  - apply andb_true_iff in H as [H1 H2]. apply N.eqb_eq in H1. apply IH in H2. subst. reflexivity.
  - injection H as -> ->. apply andb_true_iff. split; [apply N.eqb_refl | apply IH; reflexivity].
Qed.
Lemma bytes_eqb_refl a : bytes_eqb a a = true.
Proof. apply bytes_eqb_eq. reflexivity. Qed.

Lemma item_eqb_eq a b : item_eqb a b = true <-> a = b.
Proof.
  unfold item_eqb. destruct a as [s1 e1 l1 c1], b as [s2 e2 l2 c2]. cbn [i_s i_e i_len i_crc]. split; intro H.
  - repeat (apply andb_true_iff in H as [H ?]).
    repeat match goal with H : (_ =? _) = true |- _ => apply N.eqb_eq in H end. subst. reflexivity.
  - injection H as -> -> -> ->. rewrite !N.eqb_refl. reflexivity.
Qed.
Lemma item_eqb_refl a : item_eqb a a = true.
Proof. apply item_eqb_eq. reflexivity. Qed.

Lemma path_eqb_eq p q : path_eqb p q = true <-> p = q.
Proof.
  destruct p as [[a b] c], q as [[d e] f]. cbn [path_eqb]. split; intro H.
  - apply andb_true_iff in H as [H H3]. apply andb_true_iff in H as [H1 H2].
    apply bytes_eqb_eq in H1, H2, H3. subst. reflexivity.
  - injection H as -> -> ->. rewrite !bytes_eqb_refl. reflexivity.
Qed.

(* ---------------------------------------------------------------- sums over the tracked state *)
Definition total_count (tr : list (key * list titem)) : N := fold_right (fun e a => lenN (snd e) + a) 0 tr.
Definition total_len (tr : list (key * list titem)) : N := fold_right (fun e a => sum_len (snd e) + a) 0 tr.
(* J3 and J4: the counters are the sums over the tracked entries *)
Definition Acc (s : cstate) : Prop := nitems s = total_count (tracked s) /\ tbytes s = total_len (tracked s).

Lemma sum_len_cons x r : sum_len (x :: r) = i_len (fst x) + sum_len r.
Proof. reflexivity. Qed.
Lemma sum_len_nil : sum_len [] = 0.
Proof. reflexivity. Qed.
Lemma sum_len_app a b : sum_len (a ++ b) = sum_len a + sum_len b.
Proof. induction a as [|x r IH]; cbn [app]; [rewrite sum_len_nil; lia | rewrite !sum_len_cons, IH; lia]. Qed.
Lemma sum_len_snoc its x : sum_len (its ++ [x]) = sum_len its + i_len (fst x).
Proof. rewrite sum_len_app, sum_len_cons, sum_len_nil. lia. Qed.
Lemma lenN_app {A} (a b : list A) : lenN (a ++ b) = lenN a + lenN b.
Proof. unfold lenN. rewrite app_length. lia. Qed.
Lemma lenN_cons {A} (x : A) r : lenN (x :: r) = 1 + lenN r.
Proof. unfold lenN. cbn [length]. lia. Qed.

Lemma total_count_cons q its r : total_count ((q, its) :: r) = lenN its + total_count r.
Proof. reflexivity. Qed.
Lemma total_len_cons q its r : total_len ((q, its) :: r) = sum_len its + total_len r.
Proof. reflexivity. Qed.
Lemma total_count_nil : total_count [] = 0. Proof. reflexivity. Qed.
Lemma total_len_nil : total_len [] = 0. Proof. reflexivity. Qed.
Lemma lenN_nil {A} : lenN (@nil A) = 0. Proof. reflexivity. Qed.

Lemma count_set_items tr k its :
  total_count (set_items tr k its) + lenN (items_of tr k) = total_count tr + lenN its.
Proof.
  induction tr as [|[q old] r IH]; cbn [set_items items_of].
  - destruct its as [|x its]; rewrite ?total_count_cons, ?total_count_nil; unfold lenN; cbn [length]; lia.
  - destruct (bytes_eqb k q).
    + destruct its as [|x its]; rewrite ?total_count_cons; unfold lenN; cbn [length]; lia.
    + rewrite !total_count_cons. lia.
Qed.
Lemma len_set_items tr k its :
  total_len (set_items tr k its) + sum_len (items_of tr k) = total_len tr + sum_len its.
Proof.
  induction tr as [|[q old] r IH]; cbn [set_items items_of].
  - destruct its as [|x its]; rewrite ?total_len_cons, ?total_len_nil, ?sum_len_nil; lia.
  - destruct (bytes_eqb k q).
    + destruct its as [|x its]; rewrite ?total_len_cons, ?sum_len_nil; lia.
    + rewrite !total_len_cons. lia.
Qed.

Lemma nth_error_split {A} (l : list A) i x : nth_error l i = Some x -> l = firstn i l ++ x :: skipn (S i) l.
Proof.
  revert i; induction l as [|y r IH]; intros [|i] H; cbn in H; try discriminate.
  - injection H as ->. reflexivity.
  - cbn [firstn skipn app]. f_equal. apply IH. exact H.
Qed.

(* Vec::swap_remove takes exactly the entry at the index away *)
Lemma swap_remove_spec (l : list titem) i x : nth_error l i = Some x ->
  (length (swap_remove l i) + 1 = length l)%nat /\ sum_len (swap_remove l i) + i_len (fst x) = sum_len l.
Proof.
  intro H. unfold swap_remove. destruct (rev l) as [|x0 r] eqn:E.
  - apply (f_equal (@rev _)) in E. rewrite rev_involutive in E. subst l. destruct i; discriminate.
  - assert (Hl : l = rev r ++ [x0]).
    { apply (f_equal (@rev _)) in E. rewrite rev_involutive in E. exact E. }
    set (init := rev r) in *. destruct (Nat.eqb i (length init)) eqn:Ei.
    + apply Nat.eqb_eq in Ei. subst l i. rewrite nth_error_app2 in H by lia. rewrite Nat.sub_diag in H. injection H as <-.
      rewrite app_length, sum_len_app, sum_len_cons, sum_len_nil. cbn [length]. split; lia.
    + apply Nat.eqb_neq in Ei. assert (Hi : (i < length init)%nat).
      { assert (i < length l)%nat by (apply nth_error_Some; congruence). subst l. rewrite app_length in *. cbn [length] in *. lia. }
      subst l. rewrite nth_error_app1 in H by exact Hi.
      pose proof (nth_error_split _ _ _ H) as Hs.
      set (A := firstn i init) in *. set (B := skipn (S i) init) in *.
      assert (L1 : length init = (length A + S (length B))%nat) by (rewrite Hs at 1; rewrite app_length; reflexivity).
      assert (L2 : sum_len init = sum_len A + (i_len (fst x) + sum_len B)) by (rewrite Hs at 1; rewrite sum_len_app, sum_len_cons; reflexivity).
      rewrite !app_length, !sum_len_app, !sum_len_cons, sum_len_nil. cbn [length]. split; lia.
Qed.

Lemma index_of_spec its it i : index_of its it = Some i -> exists v, nth_error its i = Some (it, v).
Proof.
  revert i; induction its as [|[x v] r IH]; intros i H; cbn [index_of] in H; [discriminate|].
  destruct (item_eqb x it) eqn:E.
  - injection H as <-. apply item_eqb_eq in E. subst. exists v. reflexivity.
  - destruct (index_of r it) as [j|]; [|discriminate]. injection H as <-. destruct (IH j eq_refl) as [w Hw]. exists w. exact Hw.
Qed.

Lemma remove_first_spec its it i : index_of its it = Some i ->
  (length (remove_first its it) + 1 = length its)%nat /\ sum_len (remove_first its it) + i_len it = sum_len its.
Proof.
  revert i; induction its as [|[x v] r IH]; intros i H; cbn [index_of remove_first] in *; [discriminate|].
  destruct (item_eqb x it) eqn:E.
  - apply item_eqb_eq in E. subst. rewrite sum_len_cons. cbn [length fst]. split; lia.
  - destruct (index_of r it) as [j|]; [|discriminate]. destruct (IH j eq_refl) as [H1 H2].
    cbn [length]. rewrite !sum_len_cons. cbn [fst]. split; lia.
Qed.

Lemma mark_verified_spec its it : length (mark_verified its it) = length its /\ sum_len (mark_verified its it) = sum_len its.
Proof.
  induction its as [|[x v] r [IH1 IH2]]; cbn [mark_verified]; [split; reflexivity|].
  destruct (item_eqb x it); cbn [length]; rewrite !sum_len_cons; cbn [fst]; split; congruence.
Qed.

Lemma remove_rev_spec idx : forall its l rm, remove_rev its idx = (l, rm) ->
  (length l + length rm = length its)%nat /\ sum_len l + sum_len rm = sum_len its.
Proof.
  induction idx as [|i r IH]; intros its l rm H; cbn [remove_rev] in H.
  - injection H as <- <-. cbn [length]. unfold sum_len at 2. cbn [fold_right]. split; lia.
  - destruct (nth_error its i) as [x|] eqn:E.
    + destruct (remove_rev (swap_remove its i) r) as [l1 rm1] eqn:E1. injection H as <- <-.
      destruct (IH _ _ _ E1) as [H1 H2]. destruct (swap_remove_spec _ _ _ E) as [H3 H4].
      cbn [length]. rewrite sum_len_cons. split; lia.
    + apply IH. exact H.
Qed.

(* ---------------------------------------------------------------- eviction *)
Definition vsum (vs : list (key * item)) : N := fold_right (fun v a => i_len (snd v) + a) 0 vs.

Lemma tracks_count tr k it : tracks tr (k, it) = true ->
  total_count (set_items tr k (remove_first (items_of tr k) it)) + 1 = total_count tr /\
  total_len (set_items tr k (remove_first (items_of tr k) it)) + i_len it = total_len tr.
Proof.
  unfold tracks. cbn [fst snd]. destruct (index_of (items_of tr k) it) as [i|] eqn:E; [|discriminate]. intros _.
  destruct (remove_first_spec _ _ _ E) as [H1 H2].
  pose proof (count_set_items tr k (remove_first (items_of tr k) it)) as C.
  pose proof (len_set_items tr k (remove_first (items_of tr k) it)) as L.
  unfold lenN in *. split; lia.
Qed.

Lemma evict_spec vs : forall tr n b need removed,
  evict_ok tr n need removed vs = true -> n = total_count tr -> b = total_len tr ->
  match evict tr n b vs with
  | (tr', n', b') =>
      n' = total_count tr' /\ b' = total_len tr' /\ b' + vsum vs = b /\
      ((need <= removed + Z.of_N (vsum vs))%Z \/ n' = 0)
  end.
Proof.
  induction vs as [|[k it] r IH]; intros tr n b need removed Hok Hn Hb; cbn [evict evict_ok vsum fold_right] in *.
  - apply orb_true_iff in Hok. repeat split; try assumption; [lia|].
    destruct Hok as [H|H]; [left; lia | right; apply N.eqb_eq in H; exact H].
  - apply andb_true_iff in Hok as [Hok Hrest]. apply andb_true_iff in Hok as [Hok Htr].
    destruct (tracks_count _ _ _ Htr) as [C L].
    specialize (IH _ (n - 1) (b - i_len it) need (removed + Z.of_N (i_len it))%Z Hrest).
    assert (E1 : n - 1 = total_count (set_items tr k (remove_first (items_of tr k) it))) by lia.
    assert (E2 : b - i_len it = total_len (set_items tr k (remove_first (items_of tr k) it))) by lia.
    specialize (IH E1 E2).
    destruct (evict (set_items tr k (remove_first (items_of tr k) it)) (n - 1) (b - i_len it) r) as [[tr' n'] b'].
    destruct IH as (A1 & A2 & A3 & A4). cbn [snd]. fold (vsum r). repeat split; try assumption; [lia|].
    destruct A4 as [A4|A4]; [left; lia | right; exact A4].
Qed.

Lemma total_count_zero_len tr : total_count tr = 0 -> total_len tr = 0.
Proof.
  induction tr as [|[q its] r IH]; cbn [total_count total_len fold_right snd]; [reflexivity|].
  fold (total_count r) (total_len r). intro H. assert (Hi : lenN its = 0) by lia. assert (Hr : total_count r = 0) by lia.
  destruct its; [|unfold lenN in Hi; cbn [length] in Hi; lia]. rewrite (IH Hr). reflexivity.
Qed.

(* ---------------------------------------------------------------- the commit of a put *)
Lemma commit_acc s k nw vs s' dl :
  bytes_removed_for_every_entry = true ->
  Acc s -> commit s k nw vs = (s', dl, true) ->
  Acc s' /\ cap s' = cap s /\ fs s' = fs s /\ (i_len nw <= cap s -> tbytes s' <= cap s).
Proof.
  intros Hfact [Hn Hb] H. unfold commit, commit_with in H. rewrite Hfact in H.
  destruct (remove_rev (items_of (tracked s) k) (rev (subsumed_idx (items_of (tracked s) k) nw 0))) as [its1 rm] eqn:E.
  destruct (remove_rev_spec _ _ _ _ E) as [R1 R2].
  pose proof (count_set_items (tracked s) k its1) as C1. pose proof (len_set_items (tracked s) k its1) as L1.
  set (tr1 := set_items (tracked s) k its1) in *.
  set (n1 := nitems s - lenN rm) in *. set (b1 := tbytes s - sum_len rm) in *.
  assert (En1 : n1 = total_count tr1) by (unfold n1, lenN in *; lia).
  assert (Eb1 : b1 = total_len tr1) by (unfold b1; lia).
  set (need := (Z.of_N b1 - Z.of_N (cap s) + Z.of_N (i_len nw))%Z) in *.
  destruct (evict_ok tr1 n1 need 0 vs) eqn:Hok.
  2:{ destruct (evict tr1 n1 b1 vs) as [[? ?] ?]. discriminate H. }
  pose proof (evict_spec vs tr1 n1 b1 need 0%Z Hok En1 Eb1) as Ev.
  destruct (evict tr1 n1 b1 vs) as [[tr2 n2] b2]. destruct Ev as (A1 & A2 & A3 & A4).
  injection H as <- _.
  pose proof (count_set_items tr2 k (items_of tr2 k ++ [(nw, true)])) as C3.
  pose proof (len_set_items tr2 k (items_of tr2 k ++ [(nw, true)])) as L3.
  rewrite lenN_app, lenN_cons in C3. rewrite sum_len_snoc in L3. cbn [fst] in L3.
  unfold lenN in C3. cbn [length] in C3.
  unfold Acc, cupd. cbn [nitems tbytes tracked cap fs]. repeat split; try lia.
  intro Hle. destruct A4 as [A4|A4]; [unfold need in A4; lia|].
  rewrite A4 in A1. symmetry in A1. apply total_count_zero_len in A1. lia.
Qed.

(* ---------------------------------------------------------------- every micro step keeps the accounting exact *)
Lemma remove_state_acc s k it s' : Acc s -> remove_state s k it = Some s' -> Acc s' /\ cap s' = cap s /\ fs s' = fs s.
Proof.
  intros [Hn Hb] H. unfold remove_state in H. destruct (has_key (tracked s) k).
  - destruct (index_of (items_of (tracked s) k) it) as [i|] eqn:E; [|discriminate]. injection H as <-.
    destruct (index_of_spec _ _ _ E) as [v Hv]. destruct (swap_remove_spec _ _ _ Hv) as [S1 S2]. cbn [fst] in S2.
    pose proof (count_set_items (tracked s) k (swap_remove (items_of (tracked s) k) i)) as C.
    pose proof (len_set_items (tracked s) k (swap_remove (items_of (tracked s) k) i)) as L.
    unfold Acc, cupd, lenN in *. cbn [nitems tbytes tracked cap fs]. repeat split; lia.
  - injection H as <-. repeat split; assumption.
Qed.

Theorem mstep_acc s p vs s' p' :
  bytes_removed_for_every_entry = true ->
  Acc s -> mstep s p vs = (s', p', true) -> Acc s' /\ cap s' = cap s.
Proof.
  intros Hfact HA H. destruct p as [o|o it v|o it|o it|o|o nw|h dl|r]; cbn [mstep] in H.
  - destruct (op_range o) as [rs re]. destruct (find_match (tracked s) (op_key o) rs re) as [[it v]|]; injection H as <- _; split; auto.
  - destruct o as [k rs re offs data|k rs re].
    + injection H as <- _. split; auto.
    + destruct (fs_read (fs s) (item_path (op_key (OGet k rs re)) it)) as [c|]; [|injection H as <- _; split; auto].
      destruct (negb v && negb (crc32 c =? i_crc it)); [injection H as <- _; split; auto|].
      assert (HA1 : Acc (if v then s else cupd s (set_items (tracked s) k (mark_verified (items_of (tracked s) k) it)) (nitems s) (tbytes s) (fs s)) /\
                    cap (if v then s else cupd s (set_items (tracked s) k (mark_verified (items_of (tracked s) k) it)) (nitems s) (tbytes s) (fs s)) = cap s).
      { destruct v; [split; auto|]. destruct HA as [Hn Hb]. destruct (mark_verified_spec (items_of (tracked s) k) it) as [M1 M2].
        pose proof (count_set_items (tracked s) k (mark_verified (items_of (tracked s) k) it)) as C.
        pose proof (len_set_items (tracked s) k (mark_verified (items_of (tracked s) k) it)) as L.
        unfold Acc, cupd, lenN in *. cbn [nitems tbytes tracked cap]. repeat split; lia. }
      destruct (de_header c); injection H as <- _; exact HA1.
  - destruct (remove_state s (op_key o) it) as [s1|] eqn:E; injection H as <- _; [|split; auto].
    destruct (remove_state_acc _ _ _ _ HA E) as (A & B & _). split; assumption.
  - injection H as <- _. unfold Acc, cupd in *. cbn [nitems tbytes tracked cap fs]. tauto.
  - destruct o; injection H as <- _; unfold Acc, cupd in *; cbn [nitems tbytes tracked cap fs]; tauto.
  - destruct (commit s (op_key o) nw vs) as [[s1 dl] ok] eqn:E. injection H as <- _ ->.
    destruct (commit_acc _ _ _ _ _ _ Hfact HA E) as (A & B & _). split; assumption.
  - destruct dl; injection H as <- _; unfold Acc, cupd in *; cbn [nitems tbytes tracked cap fs]; tauto.
  - injection H as <- _. split; auto.
Qed.

(* the capacity bound right after the commit step of an insertion *)
Theorem commit_step_capacity s o nw vs s' p' :
  bytes_removed_for_every_entry = true ->
  Acc s -> i_len nw <= cap s -> mstep s (PHookFW o nw) vs = (s', p', true) -> tbytes s' <= cap s'.
Proof.
  intros Hfact HA Hle H. cbn [mstep] in H. destruct (commit s (op_key o) nw vs) as [[s1 dl] ok] eqn:E. injection H as <- _ ->.
  destruct (commit_acc _ _ _ _ _ _ Hfact HA E) as (_ & B & _ & D). rewrite B. apply D. exact Hle.
Qed.

(* ---------------------------------------------------------------- any number of threads, any schedule *)
(* a configuration: the shared state and the pc of every thread; an event either lets a thread take one micro step
   (with the victims its eviction loop picks, when it is at its commit) or lets an idle thread start a new call *)
Inductive event := EStep (t : nat) (vs : list (key * item)) | EStart (t : nat) (o : op).

Fixpoint set_nth {A} (l : list A) (i : nat) (x : A) : list A :=
  match l, i with
  | [], _ => []
  | _ :: r, O => x :: r
  | y :: r, S j => y :: set_nth r j x
  end.

Definition conf := (cstate * list pc)%type.
(* None: the event is not enabled (unknown thread, a busy thread asked to start a call, victims that the eviction loop cannot pick) *)
Definition cstep (c : conf) (e : event) : option conf :=
  match e with
  | EStep t vs =>
      match nth_error (snd c) t with
      | Some p => match mstep (fst c) p vs with (s', p', true) => Some (s', set_nth (snd c) t p') | _ => None end
      | None => None
      end
  | EStart t o =>
      match nth_error (snd c) t with
      | Some (PDone _) => Some (fst c, set_nth (snd c) t (start_op o))
      | _ => None
      end
  end.
Fixpoint crun (c : conf) (es : list event) : option conf :=
  match es with
  | [] => Some c
  | e :: r => match cstep c e with Some c' => crun c' r | None => None end
  end.

Theorem crun_acc es : forall c c', bytes_removed_for_every_entry = true ->
  Acc (fst c) -> crun c es = Some c' -> Acc (fst c') /\ cap (fst c') = cap (fst c).
Proof.
  induction es as [|e r IH]; intros c c' Hfact HA H; cbn [crun] in H.
  - injection H as <-. split; auto.
  - destruct (cstep c e) as [c1|] eqn:E; [|discriminate].
    assert (H1 : Acc (fst c1) /\ cap (fst c1) = cap (fst c)).
    { destruct e as [t vs|t o]; cbn [cstep] in E.
      - destruct (nth_error (snd c) t) as [p|]; [|discriminate].
        destruct (mstep (fst c) p vs) as [[s' p'] ok] eqn:M. destruct ok; [|discriminate]. injection E as <-. cbn [fst].
        exact (mstep_acc _ _ _ _ _ Hfact HA M).
      - destruct (nth_error (snd c) t) as [[| | | | | | |res]|]; try discriminate. injection E as <-. cbn [fst]. split; auto. }
    destruct H1 as [HA1 Hc1]. destruct (IH _ _ Hfact HA1 H) as [A B]. split; [exact A | congruence].
Qed.

(* the shape the source had before the repair: two identical puts, both past the lookup, leave the byte total one item
   length too high *)
Definition ex_key : key := repeat 7 32 ++ [100; 101].
Definition ex_put : op := OPut ex_key 0 2 [0; 3; 5] [1; 2; 3; 4; 5].
Definition ex_s0 : cstate := {| tracked := []; nitems := 0; tbytes := 0; fs := []; cap := 1000 |}.
Definition ex_after_first : cstate := fst (fst (commit_with false ex_s0 ex_key (new_item ex_put) [])).
Definition ex_after_second (fact : bool) : cstate := fst (fst (commit_with fact ex_after_first ex_key (new_item ex_put) [])).
Lemma drift_refuted :
  (nitems (ex_after_second false), tbytes (ex_after_second false), total_len (tracked (ex_after_second false))) = (1, 42, 21) /\
  (nitems (ex_after_second true), tbytes (ex_after_second true), total_len (tracked (ex_after_second true))) = (1, 21, 21).
Proof. vm_compute. split; reflexivity. Qed.

(* ---------------------------------------------------------------- the directory scan never panics *)
Section ScanSafe.
  Variable b64d : bytes -> option bytes.
  Variable utf8 : bytes -> bool.

  Lemma try_parse_key_total name : key_name_length_checked = true -> try_parse_key b64d utf8 name <> None.
  Proof.
    intro Hf. unfold try_parse_key, try_parse_key_with. destruct (b64d name) as [buf|]; [|discriminate].
    destruct (Nat.ltb (length buf) 32); [rewrite Hf; discriminate|]. destruct (utf8 (skipn 32 buf)); discriminate.
  Qed.

  Lemma scan_items_no_panic capacity pp kd k fl : forall items a, a_panic a = false ->
    a_panic (scan_items b64d capacity pp kd k fl items a) = false.
  Proof.
    induction fl as [|f r IH]; intros items a Ha; cbn [scan_items].
    - destruct items; [exact Ha | reflexivity].
    - destruct (try_parse_cache_file b64d capacity f) as [| |it|]; try (apply IH; try exact Ha; reflexivity); [|reflexivity].
      destruct (SCAN_STOP_FACTOR * capacity <=? a_b a + i_len it); [reflexivity | apply IH; reflexivity].
  Qed.

  Lemma scan_keys_no_panic capacity pp kl : key_name_length_checked = true -> forall a, a_panic a = false ->
    a_panic (scan_keys b64d utf8 capacity pp kl a) = false.
  Proof.
    intro Hf. induction kl as [|k r IH]; intros a Ha; cbn [scan_keys]; [exact Ha|].
    destruct (a_stop a); [exact Ha|]. destruct (negb (k_kind k =? 1)); [apply IH; exact Ha|].
    destruct (negb (prefix_matches pp (k_name k))); [apply IH; exact Ha|].
    pose proof (try_parse_key_total (k_name k) Hf) as T. destruct (try_parse_key b64d utf8 (k_name k)) as [[key|]|]; [| |congruence].
    - apply IH. apply scan_items_no_panic. exact Ha.
    - apply IH. exact Ha.
  Qed.

  Lemma scan_prefixes_no_panic capacity pl : key_name_length_checked = true -> forall a, a_panic a = false ->
    a_panic (scan_prefixes b64d utf8 capacity pl a) = false.
  Proof.
    intro Hf. induction pl as [|p r IH]; intros a Ha; cbn [scan_prefixes]; [exact Ha|].
    destruct (a_stop a); [exact Ha|]. destruct (negb (p_kind p =? 1)); [apply IH; exact Ha|].
    destruct (negb (Nat.eqb (length (p_name p)) PREFIX_DIR_NAME_LEN)); [apply IH; exact Ha|].
    apply IH. apply scan_keys_no_panic; assumption.
  Qed.

  (* whatever the directory holds and whatever the decoders answer, initialize returns (a state or an error) *)
  Theorem initialize_no_panic capacity tree : key_name_length_checked = true -> initialize b64d utf8 capacity tree <> None.
  Proof.
    intro Hf. unfold initialize. destruct (capacity =? 0); [discriminate|].
    unfold cscan. rewrite (scan_prefixes_no_panic capacity tree Hf); [|reflexivity].
    destruct (a_err _); discriminate.
  Qed.
End ScanSafe.

(* the shape the source had before the repair: a key directory whose name decodes to fewer than 32 bytes (ab/abcd) *)
Lemma short_key_name_refuted :
  let b64d := fun n : bytes => Some [105; 183; 29] in
  try_parse_key_with b64d (fun _ => true) false [97; 98; 99; 100] = None /\
  try_parse_key_with b64d (fun _ => true) true [97; 98; 99; 100] = Some None.
Proof. split; reflexivity. Qed.

(* the shape the source had before the repair: an entry whose file holds two chunks under a name that claims three *)
Definition ex_short_file : bytes := encode_file [0; 1; 2] [7; 8].
Definition ex_wide_item : item := {| i_s := 0; i_e := 3; i_len := lenN ex_short_file; i_crc := crc32 ex_short_file |}.
Lemma validate_unchecked_refuted :
  validate_with false (OPut ex_key 0 3 [0; 1; 2; 3] [7; 8; 9]) ex_wide_item (Some ex_short_file) = PDone CPanic /\
  validate_with true (OPut ex_key 0 3 [0; 1; 2; 3] [7; 8; 9]) ex_wide_item (Some ex_short_file)
    = PRemState (OPut ex_key 0 3 [0; 1; 2; 3] [7; 8; 9]) ex_wide_item.
Proof. vm_compute. split; reflexivity. Qed.
