(* C18: MDBShardFile::export_with_expiration.  Re-exporting a serialized shard with a new expiry yields exactly the shard that
   serializing the same records, tables and key with that expiry yields: nothing but the footer's expiry field changes, for
   keyed and unkeyed shards alike.  Every whole-file theorem about serialized shards (the footer loads back, the scans list
   the records, lookups and dedup queries answer exactly) therefore holds of the re-exported file with the same records and
   the same key. *)
From Coq Require Import ZArith NArith Bool List Lia ZifyBool ZifyN ZifyNat.
Import ListNotations.
From XetModel Require Import Base.Codec Gen.ShardLayout Model.Merkle Model.Shard Proofs.CodecProofs Proofs.ShardProofs Proofs.ShardWholeProofs.
Open Scope N_scope.

Arguments N.add : simpl never.
Arguments N.mul : simpl never.
Arguments N.of_nat : simpl never.
Arguments N.to_nat : simpl never.

Lemma len16 t : length (ser_lookup16 t) = (16 * length t)%nat.
Proof. unfold ser_lookup16. induction t as [|e t IH]; [reflexivity|]. cbn [flat_map]. rewrite app_length, IH. cbn [length app u64 u32 le_bytes]. lia. Qed.
Lemma len12 t : length (ser_lookup12 t) = (12 * length t)%nat.
Proof. unfold ser_lookup12. induction t as [|e t IH]; [reflexivity|]. cbn [flat_map]. rewrite app_length, IH. cbn [length app u64 u32 le_bytes]. lia. Qed.
Lemma hdr48 : length w_hdr = 48%nat.
Proof. reflexivity. Qed.

Lemma ser_footer_w_ft files cass ctbl key created expiry :
  ser_footer (w_ft files cass ctbl key created expiry) = w_foot files cass ctbl key created expiry.
Proof. reflexivity. Qed.
Lemma set_expiry_w_ft files cass ctbl key created expiry e :
  set_expiry (w_ft files cass ctbl key created expiry) e = w_ft files cass ctbl key created e.
Proof. reflexivity. Qed.

Theorem export_with_expiration_is_reserialization files cass ctbl key created expiry e :
  export_with_expiration (w_bs files cass ctbl key created expiry) (w_ft files cass ctbl key created expiry) e = w_bs files cass ctbl key created e.
Proof.
  unfold export_with_expiration. rewrite set_expiry_w_ft, ser_footer_w_ft.
  rewrite (w_bs_shape files cass ctbl key created expiry), (w_bs_shape files cass ctbl key created e).
  set (P := w_hdr ++ w_fsec files ++ w_csec cass ++ ser_lookup12 (w_ftbl files) ++ ser_lookup12 (w_ttbl cass) ++ ser_lookup16 ctbl).
  assert (E1 : forall x, w_hdr ++ w_fsec files ++ w_csec cass ++ ser_lookup12 (w_ftbl files) ++ ser_lookup12 (w_ttbl cass) ++ ser_lookup16 ctbl ++ x = P ++ x).
  { intro x. unfold P. rewrite <- !app_assoc. reflexivity. }
  rewrite !E1. f_equal.
  assert (L : N.of_nat (length P) = w_o6 files cass ctbl).
  { unfold P. rewrite !app_length, hdr48, !len12, len16. unfold w_o6, w_o5, w_o4, w_o3, w_o2. lia. }
  cbn [ft_footer_offset w_ft]. replace (N.to_nat (w_o6 files cass ctbl)) with (length P) by lia.
  rewrite firstn_app, firstn_all, Nat.sub_diag. cbn [firstn]. apply app_nil_r.
Qed.

(* so the re-exported file loads back with the same footer but for the expiry, and its scans list the same records *)
Theorem export_with_expiration_loads files cass ctbl key created expiry e : ShardOk files cass ctbl key created e ->
  let bs' := export_with_expiration (w_bs files cass ctbl key created expiry) (w_ft files cass ctbl key created expiry) e in
  load_footer bs' = Some (w_ft files cass ctbl key created e)
  /\ read_all_files bs' (w_ft files cass ctbl key created e) = Some files /\ read_all_cas bs' (w_ft files cass ctbl key created e) = Some cass.
Proof.
  intros H bs'. unfold bs'. rewrite (export_with_expiration_is_reserialization files cass ctbl key created expiry e).
  split; [apply shard_footer_roundtrip; exact H | apply shard_scans_list_all_records; exact H].
Qed.
