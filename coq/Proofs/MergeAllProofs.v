(* C10 / C19: a whole consolidation group.  Crash.merge_all folds the merge step over the shards of a group; on serialized
   shards the result is the serialization of the iterated union, and every file or xorb key retrievable from any input is
   retrievable from the merged shard. *)
From Coq Require Import ZArith NArith Bool List Lia.
Import ListNotations.
From XetModel Require Import Base.Codec Gen.ShardLayout Model.Merkle Model.Shard Model.Crash Proofs.CodecProofs Proofs.ShardProofs
  Proofs.SetOpProofs Proofs.SetOpSortedProofs Proofs.ShardWholeProofs Proofs.ShardDedupWholeProofs Proofs.MergeProofs.
Open Scope N_scope.

(* a serialized shard: its records and the parameters it was written with *)
Record sshard := mkSS { ss_files : list file_info; ss_cass : list cas_info; ss_ctbl : list (N * (N * N)); ss_key : hash; ss_created : N; ss_expiry : N }.
Definition ss_bytes (s : sshard) : list N := w_bs (ss_files s) (ss_cass s) (ss_ctbl s) (ss_key s) (ss_created s) (ss_expiry s).
Definition ss_ok (s : sshard) : Prop := ShardOk (ss_files s) (ss_cass s) (ss_ctbl s) (ss_key s) (ss_created s) (ss_expiry s).
(* what one merge step writes *)
Definition ss_union (a b : sshard) : sshard :=
  let cs := union_cas (length (ss_cass a) + length (ss_cass b)) (ss_cass a) (ss_cass b) in
  mkSS (union_files (length (ss_files a) + length (ss_files b)) (ss_files a) (ss_files b)) cs (d_ctbl cs) zero_hash 0 u64max.
Lemma ss_union_bytes a b : ss_bytes (ss_union a b) = disk_union (ss_files a) (ss_files b) (ss_cass a) (ss_cass b).
Proof. reflexivity. Qed.

Fixpoint ss_unions (acc : sshard) (g : list sshard) : sshard := match g with [] => acc | s :: r => ss_unions (ss_union acc s) r end.
(* every intermediate result is a well-formed shard below 4 GiB *)
Fixpoint UnionsOk (acc : sshard) (g : list sshard) : Prop := match g with [] => True | s :: r => ss_ok (ss_union acc s) /\ UnionsOk (ss_union acc s) r end.

Theorem merge_all_serialized : forall (g : list (fname * sshard)) acc, ss_ok acc -> Forall (fun x => ss_ok (snd x)) g -> UnionsOk acc (map snd g) ->
  merge_all (ss_bytes acc) (map (fun x => (fst x, ss_bytes (snd x))) g) = Some (ss_bytes (ss_unions acc (map snd g))).
Proof.
  induction g as [|[n s] r IH]; intros acc Ha Hg Hu; cbn [map merge_all ss_unions fst snd]; [reflexivity|].
  inversion Hg as [|? ? Hs Hr]; subst. cbn [snd] in Hs. destruct Hu as [Hu1 Hu2]. cbn [map] in Hu1, Hu2.
  unfold ss_bytes at 1 2. rewrite (merge_of_serialized _ _ _ _ _ _ _ _ _ _ _ _ Ha Hs). rewrite <- ss_union_bytes. apply IH; assumption.
Qed.

(* keys only grow along the fold *)
Definition ss_has (s : sshard) (x : skey) : Prop := match x with FileKey k => In k (map fkey (ss_files s)) | XorbKey k => In k (map ckey (ss_cass s)) end.
Lemma ss_union_has a b x : ss_has a x \/ ss_has b x -> ss_has (ss_union a b) x.
Proof.
  intro H. destruct x as [k|k]; cbn [ss_has ss_union ss_files ss_cass] in *.
  - apply union_files_keys; [lia | exact H].
  - apply union_cas_keys; [lia | exact H].
Qed.
Lemma ss_unions_has : forall g acc x, ss_has acc x \/ (exists s, In s g /\ ss_has s x) -> ss_has (ss_unions acc g) x.
Proof.
  induction g as [|s r IH]; intros acc x H; cbn [ss_unions]; [destruct H as [H|(s & [] & _)]; exact H|].
  apply IH. destruct H as [H|(s' & [<-|Hin] & Hx)].
  - left. apply ss_union_has. left. exact H.
  - left. apply ss_union_has. right. exact Hx.
  - right. exists s'. split; assumption.
Qed.

(* the merged shard of a group covers every input *)
Theorem merge_all_covers_inputs (g : list (fname * sshard)) acc m : ss_ok acc -> Forall (fun x => ss_ok (snd x)) g -> UnionsOk acc (map snd g) ->
  ss_ok (ss_unions acc (map snd g)) ->
  merge_all (ss_bytes acc) (map (fun x => (fst x, ss_bytes (snd x))) g) = Some m ->
  forall x, shard_recs (ss_bytes acc) x \/ (exists n s, In (n, s) g /\ shard_recs (ss_bytes s) x) -> shard_recs m x.
Proof.
  intros Ha Hg Hu Hfin Hm x Hx. rewrite (merge_all_serialized g acc Ha Hg Hu) in Hm. injection Hm as <-.
  apply (shard_recs_serialized _ _ _ _ _ _ x Hfin). change (ss_has (ss_unions acc (map snd g)) x). apply ss_unions_has.
  destruct Hx as [Hx|(n & s & Hin & Hx)].
  - left. apply (shard_recs_serialized _ _ _ _ _ _ x Ha) in Hx. exact Hx.
  - right. exists s. split; [apply in_map_iff; exists (n, s); split; [reflexivity | exact Hin]|].
    rewrite Forall_forall in Hg. apply (shard_recs_serialized _ _ _ _ _ _ x (Hg (n, s) Hin)) in Hx. exact Hx.
Qed.

(* C19: one whole consolidation group is a safe plan.  The group's first shard and the shards merged into it are files of the
   directory; the merged shard is written under the name of its content hash and then inputs are unlinked (any subset of the
   group's names other than the merged shard's own name, as consolidate_shards_in_directory computes it) *)
From XetModel Require Import Proofs.CrashProofs.
Theorem consolidate_group_safe (final : fname -> bool) f t n0 acc (g : list (fname * sshard)) m dels :
  ss_ok acc -> Forall (fun x => ss_ok (snd x)) g -> UnionsOk acc (map snd g) -> ss_ok (ss_unions acc (map snd g)) ->
  merge_all (ss_bytes acc) (map (fun x => (fst x, ss_bytes (snd x))) g) = Some m ->
  flookup f n0 = Some (ss_bytes acc) -> (forall n s, In (n, s) g -> flookup f n = Some (ss_bytes s)) ->
  (forall d, In d dels -> (d = n0 \/ exists s, In (d, s) g) /\ d <> shard_name m /\ d <> t) ->
  final t = false -> final (shard_name m) = true -> (forall c0, flookup f (shard_name m) = Some c0 -> c0 = m) ->
  SafePlan skey final (fun p c => p = shard_name c) shard_recs f (PWrite t (shard_name m) [m] :: map PUnlink dels).
Proof.
  intros Ha Hg Hu Hfin Hm L0 Lg Hd Ft Fm Hex. apply group_plan_safe; try assumption; try reflexivity.
  - intros c0 H x Hx. rewrite (Hex c0 H) in Hx. exact Hx.
  - intros d Hin. destruct (Hd d Hin) as ([->|(s & Hs)] & N1 & N2); (split; [exact N1|]; split; [exact N2|]); intros c Hc x Hx.
    + rewrite L0 in Hc. injection Hc as <-. apply (merge_all_covers_inputs g acc m Ha Hg Hu Hfin Hm). left. exact Hx.
    + rewrite (Lg d s Hs) in Hc. injection Hc as <-. apply (merge_all_covers_inputs g acc m Ha Hg Hu Hfin Hm). right. exists d, s. split; assumption.
Qed.

(* ---- chaining groups: what one group's plan leaves untouched, and what it leaves behind ---- *)
Lemma unlinks_frame dels : forall f q, ~ In q dels -> flookup (apply_effs f (plan_effs (map PUnlink dels))) q = flookup f q.
Proof.
  induction dels as [|d r IH]; intros f q Hq; [reflexivity|]. cbn [map plan_effs flat_map pstep_effs app apply_effs fold_left apply_eff].
  fold (plan_effs (map PUnlink r)). fold (apply_effs (fremove f d) (plan_effs (map PUnlink r))).
  rewrite IH by (intro H; apply Hq; right; exact H). rewrite flookup_remove.
  destruct (name_eqb d q) eqn:E; [apply name_eqb_eq in E; subst; exfalso; apply Hq; left; reflexivity | reflexivity].
Qed.
Theorem group_plan_frame (final : fname -> bool) f t mname m dels : final t = false ->
  let f' := apply_effs f (plan_effs (PWrite t mname [m] :: map PUnlink dels)) in
  (~ In mname dels -> flookup f' mname = Some m) /\
  (forall q, q <> t -> q <> mname -> ~ In q dels -> flookup f' q = flookup f q).
Proof.
  intros Ft f'. unfold f'. cbn [plan_effs flat_map pstep_effs]. fold (plan_effs (map PUnlink dels)). rewrite apply_effs_app.
  destruct (write_done final f t mname [m] Ft) as [A B]. cbn [concat] in A. rewrite app_nil_r in A. split.
  - intro Hn. rewrite unlinks_frame by exact Hn. exact A.
  - intros q Q1 Q2 Q3. rewrite unlinks_frame by exact Q3. apply B; assumption.
Qed.
