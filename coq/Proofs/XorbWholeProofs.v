(* C07: serialize then deserialize a whole xorb: footer contents and get_all_bytes. *)
From Coq Require Import ZArith NArith Bool List Lia ZifyBool ZifyN ZifyNat.
Import ListNotations.
From XetModel Require Import Base.Codec Gen.HashConsts Gen.XorbLayout Model.Merkle Model.Shard Model.Xorb
  Proofs.CodecProofs Proofs.DedupProofs Proofs.XorbProofs Proofs.XorbFooterProofs.
Open Scope N_scope.

Arguments N.add : simpl never.
Arguments N.mul : simpl never.
Arguments N.sub : simpl never.
Arguments N.ltb : simpl never.
Arguments N.leb : simpl never.
Arguments N.eqb : simpl never.
Arguments N.min : simpl never.
Arguments N.to_nat : simpl never.
Arguments N.of_nat : simpl never.

Section WithLz4.
  Variable lz4c : list N -> list N.
  Variable lz4d : list N -> option (list N).
  Variable choose : list N -> N.
  Hypothesis lz4_roundtrip : forall x, lz4d (lz4c x) = Some x.
  Hypothesis choose_valid : forall x, choose x <= MAX_SCHEME.

  Notation ser1 := (serialize_chunk lz4c choose).
  Definition phys_lens (chunks : list (list N)) (scheme : option N) : list N := map (fun c => N.of_nat (length (ser1 c scheme))) chunks.

  Lemma ser_chunks_spec : forall chunks scheme t0,
    ser_chunks lz4c choose chunks scheme t0 = (flat_map (fun c => ser1 c scheme) chunks, cumsum (phys_lens chunks scheme) t0).
  Proof.
    induction chunks as [|c r IH]; intros scheme t0; [reflexivity|].
    cbn [ser_chunks flat_map phys_lens map cumsum]. rewrite IH. reflexivity.
  Qed.

  Lemma cumsum_length : forall l a, length (cumsum l a) = length l.
  Proof. induction l as [|x l IH]; intros a; cbn [cumsum length]; [reflexivity|]. rewrite IH. reflexivity. Qed.
  Lemma cumsum_last : forall l a, last (map Some (cumsum l a)) None = match l with [] => None | _ => Some (a + fold_right N.add 0 l) end.
  Proof.
    induction l as [|x l IH]; intros a; [reflexivity|]. cbn [cumsum map]. destruct l as [|y l'].
    - cbn. f_equal. lia.
    - change (last (Some (a + x) :: map Some (cumsum (y :: l') (a + x))) None) with (last (map Some (cumsum (y :: l') (a + x))) None).
      rewrite IH. f_equal. cbn [fold_right]. lia.
  Qed.
  Lemma cumsum_bound : forall l a b, a + fold_right N.add 0 l <= b -> Forall (fun x => x <= b) (cumsum l a).
  Proof.
    induction l as [|x l IH]; intros a b H; cbn [cumsum]; constructor; cbn [fold_right] in H; [lia|]. apply IH. lia.
  Qed.
  Lemma cumsum_u32 l : fold_right N.add 0 l < 4294967296 -> Forall is_u32 (cumsum l 0).
  Proof.
    intros H. pose proof (cumsum_bound l 0 4294967295 ltac:(lia)) as HB.
    eapply Forall_impl; [|exact HB]. intros x Hx. cbv beta in Hx. unfold is_u32. lia.
  Qed.
  Lemma flat_map_ser_length chunks scheme :
    N.of_nat (length (flat_map (fun c => ser1 c scheme) chunks)) = fold_right N.add 0 (phys_lens chunks scheme).
  Proof.
    induction chunks as [|c r IH]; [reflexivity|]. cbn [flat_map phys_lens map fold_right]. rewrite app_length. unfold phys_lens in IH. lia.
  Qed.

  Definition total_len (chunks : list (list N)) : N := fold_right N.add 0 (map (fun c => N.of_nat (length c)) chunks).

  (* the footer CasObject::serialize writes *)
  Definition built_info (cashash : hash) (chunks : list (list N)) (hashes : list hash) (scheme : option N) : info :=
    let n := length chunks in
    mkInfo cashash hashes CAS_OBJECT_FORMAT_BOUNDARIES_VERSION (cumsum (phys_lens chunks scheme) 0)
           (cumsum (map (fun c => N.of_nat (length c)) chunks) 0) (N.of_nat n) (hoff_of n n n) (boff_of n n) (repeat 0 16%nat).

  Lemma xorb_serialize_shape cashash chunks hashes scheme :
    xorb_serialize lz4c choose cashash chunks hashes scheme =
    flat_map (fun c => ser1 c scheme) chunks ++ ser_info (built_info cashash chunks hashes scheme)
    ++ u32 (N.of_nat (length (ser_info (built_info cashash chunks hashes scheme)))).
  Proof. unfold xorb_serialize. rewrite ser_chunks_spec. reflexivity. Qed.

  Definition xorb_input_ok (cashash : hash) (chunks : list (list N)) (hashes : list hash) : Prop :=
    is_hash cashash /\ Forall is_hash hashes /\ length hashes = length chunks /\ Forall chunk_valid chunks /\
    92 + 40 * N.of_nat (length chunks) < 4294967296 /\
    N.of_nat (length (flat_map (fun c => c) chunks)) < 4294967296.

  Lemma built_info_wf cashash chunks hashes scheme :
    xorb_input_ok cashash chunks hashes ->
    fold_right N.add 0 (phys_lens chunks scheme) < 4294967296 ->
    wf_info (built_info cashash chunks hashes scheme).
  Proof.
    intros (H1 & H2 & H3 & H4 & H5 & H6) Hp. unfold wf_info, built_info.
    cbn [i_cashash i_hashes i_boundaries i_unpacked i_bnd_version i_num_chunks i_hoff i_boff i_buffer].
    rewrite !cumsum_length, !map_length. unfold phys_lens. rewrite map_length. rewrite H3.
    repeat split; auto; try lia.
    - apply cumsum_u32. exact Hp.
    - apply cumsum_u32.
      assert (E : forall l : list (list N), N.of_nat (length (flat_map (fun c => c) l)) = fold_right N.add 0 (map (fun c => N.of_nat (length c)) l)).
      { induction l as [|c r IH]; [reflexivity|]. cbn [flat_map map fold_right]. rewrite app_length. lia. }
      rewrite <- E. exact H6.
  Qed.

  (* deserialize finds exactly the footer that was written: hashes as given, boundaries = cumulative physical
     ends, unpacked offsets = cumulative chunk lengths, num_chunks = number of chunks *)
  Theorem xorb_footer_roundtrip cashash chunks hashes scheme :
    xorb_input_ok cashash chunks hashes -> fold_right N.add 0 (phys_lens chunks scheme) < 4294967296 ->
    xorb_deserialize (xorb_serialize lz4c choose cashash chunks hashes scheme) =
    ROk (built_info cashash chunks hashes scheme, info_len (built_info cashash chunks hashes scheme)).
  Proof.
    intros Hin Hp. rewrite xorb_serialize_shape. apply xorb_deserialize_spec. apply built_info_wf; assumption.
  Qed.

  (* get_all_bytes returns exactly the concatenation of the chunks *)
  Theorem xorb_get_all_bytes cashash chunks hashes scheme :
    xorb_input_ok cashash chunks hashes -> fold_right N.add 0 (phys_lens chunks scheme) < 4294967296 ->
    chunks <> [] -> bytes_eqb cashash zero_hash = false -> scheme_valid scheme ->
    get_all_bytes lz4d (built_info cashash chunks hashes scheme) (xorb_serialize lz4c choose cashash chunks hashes scheme) =
    ROk (concat chunks).
  Proof.
    intros Hin Hp Hne Hz Hs. pose proof Hin as (H1 & H2 & H3 & H4 & H5 & H6).
    unfold get_all_bytes. 
    assert (Hok : info_ok (built_info cashash chunks hashes scheme) = true).
    { unfold info_ok, built_info. cbn [i_num_chunks i_boundaries i_hashes i_bnd_version i_unpacked i_cashash].
      rewrite !cumsum_length. unfold phys_lens. rewrite !map_length. rewrite H3, Hz.
      destruct chunks; [congruence|]. cbn [length]. rewrite !N.eqb_refl. cbn.
      replace (N.of_nat (S (length chunks)) =? 0) with false by lia. reflexivity. }
    rewrite Hok. cbn [negb].
    assert (Hlast : last (map Some (i_boundaries (built_info cashash chunks hashes scheme))) None =
                    Some (fold_right N.add 0 (phys_lens chunks scheme))).
    { unfold built_info. cbn [i_boundaries]. rewrite cumsum_last. destruct chunks as [|c0 cr]; [congruence|]. cbn [phys_lens map]. reflexivity. }
    rewrite Hlast. unfold get_range. rewrite Hok, Hlast. cbn [negb].
    set (clen := fold_right N.add 0 (phys_lens chunks scheme)) in *.
    replace (clen <? 0) with false by lia. rewrite N.min_id. replace (clen <? 0) with false by lia.
    rewrite xorb_serialize_shape. set (body := flat_map (fun c => ser1 c scheme) chunks).
    assert (Hbl : N.of_nat (length body) = clen) by (unfold body, clen; apply flat_map_ser_length).
    rewrite app_length. replace (N.of_nat (length body + _) <? clen) with false by lia.
    replace (N.to_nat 0) with 0%nat by lia. cbn [skipn]. replace (N.to_nat (clen - 0)) with (length body) by lia.
    rewrite firstn_app, Nat.sub_diag, firstn_all. cbn [firstn]. rewrite app_nil_r.
    pose proof (deserialize_chunks_spec lz4c lz4d choose lz4_roundtrip choose_valid chunks scheme
                  (S (length body + length (ser_info (built_info cashash chunks hashes scheme) ++ u32 (N.of_nat (length (ser_info (built_info cashash chunks hashes scheme)))))))
                  [] [] 0 0 H4 Hs) as HD.
    rewrite ser_chunks_spec in HD. cbn [fst] in HD. fold body in HD. rewrite HD; [reflexivity|].
    assert (length chunks <= length body)%nat; [|lia].
    unfold body. clear. induction chunks as [|c r IH]; [cbn; lia|]. cbn [flat_map length]. rewrite app_length.
    assert (1 <= length (ser1 c scheme))%nat by (rewrite serialize_chunk_shape, app_length; cbn [length enc_chdr app le_bytes]; lia). lia.
  Qed.
End WithLz4.
