(* C01, composed: upload then download returns every byte.  The links proved separately --
     C04  the chunks of a file concatenate to the file, for every split into calls;
     C01  the file's record resolves in the store to exactly the chunks fed (ResolveProofs, whole sessions);
     C07  a chunk range of a stored xorb reads back as the concatenation of its chunks;
     C17  the sequential / parallel writer writes exactly the requested slice of the concatenated terms --
   are put together here: the bytes written by a whole-file download of a completed file are the bytes that were cleaned.
   [content] is the chunk data the store returns for a chunk hash (what the xorb round trip C07 delivers for a chunk of a
   stored xorb); the one assumption about it is that it returns, for the hash of each of the file's chunks, that chunk
   (no two different chunks of the store under one hash). *)
From Coq Require Import ZArith NArith Bool List Lia ZifyBool ZifyN ZifyNat Permutation.
Import ListNotations.
From XetModel Require Import Base.Codec Gen.ShardLayout Gen.DedupFacts Gen.XorbLayout Model.Merkle Model.Shard Model.Dedup Model.Cache Model.Chunker Model.Reconstruct
  Model.Xorb Proofs.ChunkerProofs Proofs.ChunkerLaws Proofs.PipelineProofs Proofs.ResolveProofs Proofs.CacheProofs Proofs.CacheHitProofs Proofs.ReconstructProofs
  Proofs.XorbProofs Proofs.XorbFooterProofs Proofs.XorbWholeProofs Proofs.XorbRangeProofs.
Open Scope N_scope.

Arguments N.add : simpl never.
Arguments N.sub : simpl never.
Arguments N.ltb : simpl never.
Arguments N.leb : simpl never.
Arguments N.of_nat : simpl never.
Arguments N.to_nat : simpl never.

Section EndToEnd.
  Variable content : hash -> bytes.
  Variable hashf : bytes -> hash.

  Definition chunk_bytes (ids : list chunk) : bytes := concat (map (fun id => content (fst id)) ids).
  (* what get_one_term hands to the writer for a segment: the chunk range [start, end) of the xorb the segment names *)
  Definition term_of (F : store) (s : seg) : bytes :=
    match st_find F (sg_cas s) with
    | Some x => concat (map (fun e => content (ce_hash e)) (firstn (N.to_nat (sg_end s - sg_start s)) (skipn (N.to_nat (sg_start s)) (ci_chunks x))))
    | None => []
    end.
  (* the identities of a file's chunks as the deduper sees them *)
  Definition ids_of (chs : list bytes) : list chunk := map (fun ch => (hashf ch, lenN ch)) chs.

  Lemma term_of_resolved F s ids : resolve_seg F s = Some ids -> term_of F s = chunk_bytes ids.
  Proof.
    unfold resolve_seg, term_of, chunk_bytes. destruct (st_find F (sg_cas s)) as [x|]; [|discriminate].
    destruct (_ || _); [discriminate|]. intro H. injection H as <-. rewrite map_map. reflexivity.
  Qed.
  Lemma chunk_bytes_app a b : chunk_bytes (a ++ b) = chunk_bytes a ++ chunk_bytes b.
  Proof. unfold chunk_bytes. rewrite map_app, concat_app. reflexivity. Qed.
  Lemma terms_of_resolved F : forall segs ids, resolve_file F segs = Some ids -> concat (map (term_of F) segs) = chunk_bytes ids.
  Proof.
    induction segs as [|s r IH]; intros ids H; cbn [resolve_file] in H; [injection H as <-; reflexivity|].
    destruct (resolve_seg F s) as [a|] eqn:Ea; [|discriminate]. destruct (resolve_file F r) as [b|] eqn:Eb; [|discriminate]. injection H as <-.
    cbn [map concat]. rewrite (term_of_resolved F s a Ea), (IH b eq_refl), chunk_bytes_app. reflexivity.
  Qed.
  Lemma chunk_bytes_ids chs : (forall ch, In ch chs -> content (hashf ch) = ch) -> chunk_bytes (ids_of chs) = concat chs.
  Proof.
    unfold chunk_bytes, ids_of. rewrite map_map. cbn [fst]. induction chs as [|ch r IH]; intro H; [reflexivity|]. cbn [map concat].
    rewrite (H ch (or_introl eq_refl)), IH; [reflexivity|]. intros c Hc. apply H. right. exact Hc.
  Qed.

  Lemma takeN_all {A} (l : list A) : takeN l (lenN l) = l.
  Proof. rewrite takeN_firstn. unfold lenN. rewrite Nat2N.id. apply firstn_all. Qed.

  (* the sequential writer, asked for the whole file *)
  Lemma seq_write_whole terms : seq_write terms true 0 (lenN (concat terms)) = Some (concat terms).
  Proof.
    destruct terms as [|t r]; [reflexivity|]. rewrite seq_write_exact by (unfold lenN; lia).
    rewrite dropN_skipn. replace (N.to_nat 0) with O by lia. cbn [skipn]. rewrite takeN_all. reflexivity.
  Qed.

  (* a record that resolves to the identities of the file's chunks downloads to the file's bytes: sequential writer, and the
     parallel writer under every completion order *)
  Theorem record_downloads_to_bytes F segs chs : (forall ch, In ch chs -> content (hashf ch) = ch) ->
    resolve_file F segs = Some (ids_of chs) ->
    let terms := map (term_of F) segs in let data := concat chs in
    seq_write terms true 0 (lenN data) = Some data /\
    forall order out n, Permutation order (seq 0 (length terms)) -> par_write terms (map lenN terms) 0 (lenN data) order = Some (out, n) -> out = data.
  Proof.
    intros Hc Hr terms data. assert (E : concat terms = data).
    { unfold terms, data. rewrite (terms_of_resolved F segs _ Hr). apply chunk_bytes_ids. exact Hc. }
    assert (S : seq_write terms true 0 (lenN data) = Some data) by (rewrite <- E; apply seq_write_whole).
    split; [exact S|]. intros order out n Hp Hw. rewrite (par_write_any_order terms 0 (lenN data) order Hp) in Hw.
    apply par_write_in_order_eq_seq in Hw. rewrite S in Hw. injection Hw as <-. reflexivity.
  Qed.

  (* C01 end to end.  A file's bytes, handed to the chunker in any API-consistent split into calls, become chunks; a session
     (any sequence of mid-file xorb registrations and file completions, then finalize) that completed the file with those
     chunks leaves a record under the file's hash in its shard, and a whole-file download through that record writes
     exactly the bytes that were handed in. *)
  Theorem upload_then_download F U rc cf ops target c calls chs fh :
    chunker_new target = Some c -> api_ok calls = true -> run_calls c st0 calls = Some chs ->
    StoreOk F U -> Forall (op_ok F U) ops -> (forall x, In x (s_uploaded (srun rc cf ops)) -> In x F) ->
    In (fh, ids_of chs) (ghosts ops) ->
    (forall ch, In ch chs -> content (hashf ch) = ch) ->
    let data := concat (map fst calls) in
    exists fi, In fi (s_shard_files (srun rc cf ops)) /\ fi_hash fi = fh /\
      let terms := map (term_of F) (fi_segs fi) in
      seq_write terms true 0 (lenN data) = Some data /\
      forall order out n, Permutation order (seq 0 (length terms)) -> par_write terms (map lenN terms) 0 (lenN data) order = Some (out, n) -> out = data.
  Proof.
    intros Hn Ha Hr HS Hops Hup Hg Hc data.
    destruct (session_resolves F U HS rc cf ops Hops Hup) as (Hdone & _ & _).
    destruct (Hdone _ Hg) as (fi & Hin & Hh & Hres). cbn [fst snd] in Hh, Hres.
    exists fi. split; [exact Hin|]. split; [exact Hh|].
    assert (Ed : data = concat chs) by (unfold data; symmetry; eapply L_concat; eauto).
    rewrite Ed. apply record_downloads_to_bytes; assumption.
  Qed.

  (* the link to the xorb format (C07): when the xorb a segment names was serialized from the chunk data [xs] that [content]
     returns for its recorded chunk hashes, the term handed to the writer is what the range read of the serialized object
     returns, for every compression scheme *)
  Lemma map_slice {A B} (f : A -> B) (l : list A) n m : map f (firstn n (skipn m l)) = firstn n (skipn m (map f l)).
  Proof. rewrite <- firstn_map, <- skipn_map. reflexivity. Qed.
  Theorem term_is_xorb_range_read lz4c lz4d choose F s x xs hashes scheme :
    (forall y, lz4d (lz4c y) = Some y) -> (forall y, choose y <= MAX_SCHEME) ->
    st_find F (sg_cas s) = Some x -> map (fun e => content (ce_hash e)) (ci_chunks x) = xs ->
    xorb_input_ok (ci_hash x) xs hashes -> fold_right N.add 0 (phys_lens lz4c choose xs scheme) < 4294967296 ->
    bytes_eqb (ci_hash x) zero_hash = false -> scheme_valid scheme -> sg_start s < sg_end s -> sg_end s <= N.of_nat (length xs) ->
    get_bytes_by_chunk_range lz4d (built_info lz4c choose (ci_hash x) xs hashes scheme) (xorb_serialize lz4c choose (ci_hash x) xs hashes scheme) (sg_start s) (sg_end s)
    = ROk (term_of F s).
  Proof.
    intros Hl Hc Hf Hx Hin Hp Hz Hs Hab Hb. rewrite (xorb_get_chunk_range lz4c lz4d choose Hl Hc (ci_hash x) xs hashes scheme (sg_start s) (sg_end s) Hin Hp Hz Hs Hab Hb).
    unfold term_of. rewrite Hf, map_slice, Hx. reflexivity.
  Qed.
End EndToEnd.

(* non-vacuity: the session of ResolveProofs' example (a file of three chunks, the third a repeat of the first: two segments,
   the second a reference into the same xorb), with chunk bytes behind the identities: the premises of
   record_downloads_to_bytes hold and the download computes to the 40 bytes of the file *)
Definition e2e_chs : list bytes := [repeat 1 10%nat; repeat 2 20%nat; repeat 1 10%nat].
Definition e2e_hashf (ch : bytes) : hash := ex_h (hd 0 ch).
Definition e2e_content (h : hash) : bytes := repeat (hd 0 h) (if hd 0 h =? 1 then 10%nat else 20%nat).
Example e2e_example :
  exists fi, In fi (s_shard_files (srun true ex_cfg2 ex_ops)) /\ length (fi_segs fi) = 2%nat /\
    (forall ch, In ch e2e_chs -> e2e_content (e2e_hashf ch) = ch) /\
    resolve_file ex_F (fi_segs fi) = Some (ids_of e2e_hashf e2e_chs) /\
    seq_write (map (term_of e2e_content ex_F) (fi_segs fi)) true 0 40 = Some (concat e2e_chs).
Proof.
  eexists. split; [left; reflexivity|]. split; [vm_compute; reflexivity|]. split.
  - intros ch [<-|[<-|[<-|[]]]]; vm_compute; reflexivity.
  - split; vm_compute; reflexivity.
Qed.
