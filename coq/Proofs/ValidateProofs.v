(* C08: the validators and footer parsers never reach a Panic outcome, and acceptance by the seekable
   validator implies that the chunks decode, match the footer and hash to the claimed value. *)
From Coq Require Import ZArith NArith Bool List Lia ZifyBool ZifyN ZifyNat.
Import ListNotations.
From XetModel Require Import Base.Codec Gen.HashConsts Gen.XorbLayout Model.Merkle Model.Shard Model.Xorb Proofs.DedupProofs.
Open Scope N_scope.

Arguments N.add : simpl never.
Arguments N.mul : simpl never.
Arguments N.sub : simpl never.
Arguments N.ltb : simpl never.
Arguments N.leb : simpl never.
Arguments N.eqb : simpl never.
Arguments N.to_nat : simpl never.
Arguments N.of_nat : simpl never.

Lemma rd_n_length {A} (p : list N -> option (A * list N)) : forall n bs l r, rd_n p n bs = Some (l, r) -> length l = n.
Proof.
  induction n as [|n IH]; intros bs l r H; cbn [rd_n] in H; [inversion H; reflexivity|].
  destruct (p bs) as [[a r1]|]; [|discriminate]. destruct (rd_n p n r1) as [[l1 r2]|] eqn:E; [|discriminate].
  inversion H; subst. cbn [length]. f_equal. eapply IH; eauto.
Qed.
Lemma rd_vec_length {A} (p : list N -> option (A * list N)) w n bs l r : rd_vec p w n bs = Some (l, r) -> length l = N.to_nat n.
Proof. unfold rd_vec. destruct (_ <? _); [discriminate|]. apply rd_n_length. Qed.

(* one tactic to walk the nested matches of the parsers *)
Ltac walk :=
  repeat match goal with
         | H : context [match ?x with _ => _ end] |- _ =>
             match type of x with
             | option _ => destruct x as [[? ?]|] eqn:?
             | bool => destruct x eqn:?
             | res _ => destruct x as [[? ?]| | |] eqn:?
             end; try discriminate
         end.

Definition info_lengths_ok (i : info) : Prop :=
  length (i_hashes i) = N.to_nat (i_num_chunks i) /\ length (i_boundaries i) = N.to_nat (i_num_chunks i) /\
  (i_bnd_version i = CAS_OBJECT_FORMAT_BOUNDARIES_VERSION -> length (i_unpacked i) = N.to_nat (i_num_chunks i)).

Lemma parse_v0_lengths bs i t : parse_v0 bs = ROk (i, t) -> info_lengths_ok i.
Proof.
  unfold parse_v0. intros H. walk. inversion H; subst; clear H. unfold info_lengths_ok.
  cbn [i_hashes i_boundaries i_unpacked i_num_chunks i_bnd_version].
  repeat match goal with H : rd_vec _ _ _ _ = Some _ |- _ => apply rd_vec_length in H end.
  repeat split; auto. intros Hv. discriminate Hv.
Qed.

Lemma parse_info_lengths bs i t : parse_info bs = ROk (i, t) -> info_lengths_ok i.
Proof.
  unfold parse_info. intros H.
  destruct (rd 7 bs) as [[id r0]|]; [|discriminate]. destruct (negb (bytes_eqb id CAS_OBJECT_FORMAT_IDENT)); [discriminate|].
  destruct (rd 1 r0) as [[v r1]|]; [|discriminate].
  destruct (le_val v =? CAS_OBJECT_FORMAT_VERSION_V0); [eapply parse_v0_lengths; eauto|].
  walk. inversion H; subst; clear H. unfold info_lengths_ok.
  cbn [i_hashes i_boundaries i_unpacked i_num_chunks i_bnd_version].
  repeat match goal with H : rd_vec _ _ _ _ = Some _ |- _ => apply rd_vec_length in H end.
  repeat match goal with H : negb (_ =? _) = false |- _ => apply negb_false_iff, N.eqb_eq in H end.
  subst. repeat split; auto.
Qed.

Lemma parse_v0_no_panic bs : parse_v0 bs <> RPanic.
Proof. unfold parse_v0. intros H. walk. Qed.
Lemma parse_info_no_panic bs : parse_info bs <> RPanic.
Proof.
  unfold parse_info. intros H.
  destruct (rd 7 bs) as [[id r0]|]; [|discriminate]. destruct (negb (bytes_eqb id CAS_OBJECT_FORMAT_IDENT)); [discriminate|].
  destruct (rd 1 r0) as [[v r1]|]; [|discriminate].
  destruct (le_val v =? CAS_OBJECT_FORMAT_VERSION_V0); [exact (parse_v0_no_panic _ H)|].
  walk.
Qed.

Lemma xorb_deserialize_no_panic bs : xorb_deserialize bs <> RPanic.
Proof.
  unfold xorb_deserialize. intros H. destruct (Nat.ltb _ _); [discriminate|]. destruct (_ <? _); [discriminate|].
  destruct (parse_info _) as [[i t]| | |] eqn:E; try discriminate.
  - destruct (t =? _); discriminate.
  - exact (parse_info_no_panic _ E).
Qed.
Lemma xorb_deserialize_lengths bs i il : xorb_deserialize bs = ROk (i, il) -> info_lengths_ok i.
Proof.
  unfold xorb_deserialize. intros H. destruct (Nat.ltb _ _); [discriminate|]. destruct (_ <? _); [discriminate|].
  destruct (parse_info _) as [[i' t]| | |] eqn:E; try discriminate.
  destruct (t =? _); [|discriminate]. inversion H; subst. eapply parse_info_lengths; eauto.
Qed.

Lemma parse_boundaries_only_no_panic bs : parse_boundaries_only true bs <> RPanic.
Proof. unfold parse_boundaries_only. intros H. cbn [negb andb] in H. walk. Qed.

Section WithLz4.
  Variable lz4d : list N -> option (list N).

  Lemma deserialize_chunk_no_panic bs : deserialize_chunk lz4d bs <> RPanic.
  Proof.
    unfold deserialize_chunk. intros H. destruct (take 8 bs) as [[hb r]|]; [|discriminate].
    destruct (dec_chdr hb) as [h| | |] eqn:E; try discriminate.
    destruct (decompress lz4d (h_scheme h) _); [|discriminate]. destruct (_ =? _); discriminate.
  Qed.

  (* the chunk walk of the seekable validator *)
  Inductive walk_ok (bs : list N) (i : info) : N -> N -> N -> list node -> N -> Prop :=
  | W_done idx start unp : idx = i_num_chunks i -> walk_ok bs i idx start unp [] start
  | W_step idx start unp d clen ulen rest nodes e :
      idx <> i_num_chunks i ->
      deserialize_chunk lz4d (skipn (N.to_nat start) bs) = ROk (d, clen, ulen, rest) ->
      nth_error (i_hashes i) (N.to_nat idx) = Some (compute_data_hash d) ->
      nthN (i_boundaries i) idx = Some (start + clen) ->
      (i_bnd_version i = CAS_OBJECT_FORMAT_BOUNDARIES_VERSION -> nthN (i_unpacked i) idx = Some (unp + ulen)) ->
      walk_ok bs i (idx + 1) (start + clen) (unp + ulen) nodes e ->
      walk_ok bs i idx start unp ((compute_data_hash d, ulen) :: nodes) e.

  Lemma validate_walk_sound bs i : forall fuel idx start unp acc nodes e,
    validate_walk lz4d fuel bs i idx start unp acc = ROk (nodes, e) ->
    exists tl, nodes = rev acc ++ tl /\ walk_ok bs i idx start unp tl e.
  Proof.
    induction fuel as [|fuel IH]; intros idx start unp acc nodes e H; cbn [validate_walk] in H.
    - destruct (idx =? i_num_chunks i) eqn:E; [|discriminate]. inversion H; subst.
      exists []. rewrite app_nil_r. split; [reflexivity|]. constructor. apply N.eqb_eq; assumption.
    - destruct (idx =? i_num_chunks i) eqn:E.
      + inversion H; subst. exists []. rewrite app_nil_r. split; [reflexivity|]. constructor. apply N.eqb_eq; assumption.
      + destruct (N.of_nat (length bs) <? start); [discriminate|].
        destruct (deserialize_chunk lz4d (skipn (N.to_nat start) bs)) as [[[[d clen] ulen] rest]| | |] eqn:Ed; try discriminate.
        destruct (nth_error (i_hashes i) (N.to_nat idx)) as [hh|] eqn:Eh; [|discriminate].
        destruct (nthN (i_boundaries i) idx) as [bnd|] eqn:Eb; [|discriminate].
        destruct (negb (bytes_eqb hh (compute_data_hash d))) eqn:E1; [discriminate|].
        destruct (negb (start + clen =? bnd)) eqn:E2; [discriminate|].
        apply negb_false_iff in E1, E2. apply bytes_eqb_eq in E1. apply N.eqb_eq in E2. subst hh bnd.
        destruct ((i_bnd_version i =? CAS_OBJECT_FORMAT_BOUNDARIES_VERSION) &&
                  negb (match nthN (i_unpacked i) idx with Some u => u =? unp + ulen | None => false end)) eqn:E3.
        { destruct (nthN (i_unpacked i) idx); discriminate. }
        apply IH in H as (tl & Hn & Hw). exists ((compute_data_hash d, ulen) :: tl). split.
        { rewrite Hn. cbn [rev]. rewrite <- app_assoc. reflexivity. }
        econstructor; eauto.
        { apply N.eqb_neq. assumption. }
        intros Hv. rewrite Hv, N.eqb_refl in E3. cbn [andb] in E3. apply negb_false_iff in E3.
        destruct (nthN (i_unpacked i) idx) as [u|]; [|discriminate]. apply N.eqb_eq in E3. subst. reflexivity.
  Qed.

  (* with a footer whose vectors have num_chunks entries (which every footer returned by the parser has),
     the unwraps of the validator are never reached *)
  Lemma validate_walk_no_panic bs i : info_lengths_ok i -> forall fuel idx start unp acc,
    idx <= i_num_chunks i -> validate_walk lz4d fuel bs i idx start unp acc <> RPanic.
  Proof.
    intros (L1 & L2 & L3). induction fuel as [|fuel IH]; intros idx start unp acc Hidx H; cbn [validate_walk] in H.
    - destruct (idx =? i_num_chunks i); discriminate.
    - destruct (idx =? i_num_chunks i) eqn:E; [discriminate|]. apply N.eqb_neq in E.
      destruct (N.of_nat (length bs) <? start); [discriminate|].
      destruct (deserialize_chunk lz4d (skipn (N.to_nat start) bs)) as [[[[d clen] ulen] rest]| | |] eqn:Ed; try discriminate.
      2:{ exact (deserialize_chunk_no_panic _ Ed). }
      assert (Hlt : (N.to_nat idx < length (i_hashes i))%nat) by lia.
      destruct (nth_error (i_hashes i) (N.to_nat idx)) as [hh|] eqn:Eh; [|apply nth_error_None in Eh; lia].
      unfold nthN in H. destruct (nth_error (i_boundaries i) (N.to_nat idx)) as [bnd|] eqn:Eb; [|apply nth_error_None in Eb; lia].
      destruct (negb (bytes_eqb hh (compute_data_hash d))); [discriminate|].
      destruct (negb (start + clen =? bnd)); [discriminate|].
      destruct (i_bnd_version i =? CAS_OBJECT_FORMAT_BOUNDARIES_VERSION) eqn:Ev.
      + apply N.eqb_eq in Ev. specialize (L3 Ev).
        destruct (nth_error (i_unpacked i) (N.to_nat idx)) as [u|] eqn:Eu; [|apply nth_error_None in Eu; lia].
        cbn [andb] in H. destruct (negb (u =? unp + ulen)); [discriminate|]. eapply IH; [|exact H]. lia.
      + cbn [andb] in H. eapply IH; [|exact H]. lia.
  Qed.

  Theorem validate_cas_object_no_panic bs h : validate_cas_object lz4d bs h <> RPanic.
  Proof.
    unfold validate_cas_object. intros H.
    destruct (xorb_deserialize bs) as [[i il]| | |] eqn:Ed; try discriminate.
    2:{ exact (xorb_deserialize_no_panic _ Ed). }
    pose proof (xorb_deserialize_lengths _ _ _ Ed) as HL.
    destruct (validate_walk lz4d _ bs i 0 0 0 []) as [[nodes e]| | |] eqn:Ew; try discriminate.
    - destruct (_ || _); [discriminate|]. destruct (validator_root _ nodes); [|discriminate]. destruct (_ && _); discriminate.
    - eapply (validate_walk_no_panic bs i HL); [|exact Ew]. lia.
  Qed.

  (* soundness of acceptance *)
  Theorem validate_cas_object_sound bs h i : validate_cas_object lz4d bs h = ROk i ->
    exists il nodes e,
      xorb_deserialize bs = ROk (i, il) /\
      walk_ok bs i 0 0 0 nodes e /\
      e + il + 4 = N.of_nat (length bs) /\
      i_num_chunks i <> 0 /\
      validator_root compute_internal_node_hash nodes = Some h /\ i_cashash i = h.
  Proof.
    unfold validate_cas_object. intros H.
    destruct (xorb_deserialize bs) as [[i' il]| | |] eqn:Ed; try discriminate.
    destruct (validate_walk lz4d _ bs i' 0 0 0 []) as [[nodes e]| | |] eqn:Ew; try discriminate.
    destruct ((i_num_chunks i' =? 0) || negb (e + il + 4 =? N.of_nat (length bs))) eqn:E1; [discriminate|].
    destruct (validator_root compute_internal_node_hash nodes) as [r|] eqn:Er; [|discriminate].
    destruct (bytes_eqb r h && bytes_eqb r (i_cashash i')) eqn:E2; [|discriminate].
    inversion H; subst i'. apply andb_prop in E2 as [E2 E3]. apply bytes_eqb_eq in E2, E3. subst.
    apply orb_false_elim in E1 as [E1 E4]. apply negb_false_iff in E4. apply N.eqb_eq in E4. apply N.eqb_neq in E1.
    apply validate_walk_sound in Ew as (tl & Hn & Hw). cbn [rev app] in Hn. subst tl.
    exists il, nodes, e. repeat split; auto.
  Qed.

  (* the streaming validator *)
  Lemma stream_walk_no_panic : forall fuel bs offs nodes lo, stream_walk lz4d fuel bs offs nodes lo <> RPanic.
  Proof.
    induction fuel as [|fuel IH]; intros bs offs nodes lo H; cbn [stream_walk] in H; [discriminate|].
    destruct bs as [|b0 bs']; [discriminate|].
    destruct (take 8 (b0 :: bs')) as [[b8 r]|]; [|discriminate].
    destruct (bytes_eqb (firstn 7 b8) CAS_OBJECT_FORMAT_IDENT && (CAS_OBJECT_FORMAT_VERSION <? nth 7 b8 0)); [discriminate|].
    destruct (bytes_eqb (firstn 7 b8) CAS_OBJECT_FORMAT_IDENT && (nth 7 b8 0 =? CAS_OBJECT_FORMAT_VERSION)).
    { destruct (parse_info (b0 :: bs')) as [[i t]| | |] eqn:Ep; try discriminate.
      - destruct (rd_u32 _) as [[il r2]|]; [|discriminate]. destruct (negb (il =? t)); [discriminate|]. destruct r2; discriminate.
      - exact (parse_info_no_panic _ Ep). }
    destruct (bytes_eqb (firstn 7 b8) CAS_OBJECT_FORMAT_IDENT && (nth 7 b8 0 =? CAS_OBJECT_FORMAT_VERSION_V0)); [discriminate|].
    destruct (dec_chdr b8) as [h| | |]; try discriminate.
    destruct (take (N.to_nat (h_clen h)) r) as [[payload rest]|]; [|discriminate].
    destruct (decompress lz4d (h_scheme h) payload); [|discriminate].
    destruct (negb (_ =? _)); [discriminate|]. exact (IH _ _ _ _ H).
  Qed.

  Theorem validate_stream_no_panic bs h : validate_stream lz4d bs h <> RPanic.
  Proof.
    unfold validate_stream. intros H.
    destruct (stream_walk lz4d _ bs [] [] 0) as [[[f offs] nodes]| | |] eqn:Es; try discriminate.
    - destruct (negb _); [discriminate|]. destruct (validator_root _ nodes); [|discriminate]. destruct (bytes_eqb _ _); discriminate.
    - exact (stream_walk_no_panic _ _ _ _ _ Es).
  Qed.

  (* acceptance by the streaming validator: the recomputed root is the claimed hash *)
  Theorem validate_stream_sound bs h k : validate_stream lz4d bs h = ROk k ->
    exists footer offs nodes,
      stream_walk lz4d (S (length bs)) bs [] [] 0 = ROk (footer, offs, nodes) /\
      validator_root compute_internal_node_hash nodes = Some h /\
      match footer with
      | None => True
      | Some (i, _) => i_cashash i = h /\ i_num_chunks i = N.of_nat (length nodes) /\ list_eqbN (i_boundaries i) offs = true /\
                       hashes_match (i_hashes i) nodes = true /\ unpacked_match (i_unpacked i) nodes 0 = true
      end.
  Proof.
    unfold validate_stream. intros H.
    destruct (stream_walk lz4d _ bs [] [] 0) as [[[f offs] nodes]| | |] eqn:Es; try discriminate.
    destruct (negb _) eqn:Ef; [discriminate|]. apply negb_false_iff in Ef.
    destruct (validator_root compute_internal_node_hash nodes) as [r|] eqn:Er; [|discriminate].
    destruct (bytes_eqb r h) eqn:Eh; [|discriminate]. apply bytes_eqb_eq in Eh. subst r.
    exists f, offs, nodes. repeat split; auto.
    destruct f as [[i il]|]; [|exact I].
    apply andb_prop in Ef as [Ef F6]. apply andb_prop in Ef as [Ef F5]. apply andb_prop in Ef as [Ef F4].
    apply andb_prop in Ef as [Ef F3]. apply andb_prop in Ef as [F1 F2].
    apply bytes_eqb_eq in F1. apply N.eqb_eq in F2. repeat split; auto.
  Qed.
End WithLz4.

(* ---- bounded allocation: every vector a footer parser builds is paid for by input bytes ---- *)
Lemma take_rest bs n a r : take n bs = Some (a, r) -> (length r <= length bs)%nat.
Proof. unfold take. destruct (has n bs); [|discriminate]. inversion 1; subst. rewrite skipn_length. lia. Qed.
Lemma rd_u32_rest bs x r : rd_u32 bs = Some (x, r) -> (length r <= length bs)%nat.
Proof. unfold rd_u32. destruct (take 4 bs) as [[b r']|] eqn:E; [|discriminate]. inversion 1; subst. eapply take_rest; eauto. Qed.
Lemma rd_n_rest {A} (p : list N -> option (A * list N)) :
  (forall bs a r, p bs = Some (a, r) -> (length r <= length bs)%nat) ->
  forall n bs l r, rd_n p n bs = Some (l, r) -> (length r <= length bs)%nat.
Proof.
  intros Hp. induction n as [|n IH]; intros bs l r H; cbn [rd_n] in H; [inversion H; subst; lia|].
  destruct (p bs) as [[a r1]|] eqn:E1; [|discriminate]. destruct (rd_n p n r1) as [[l1 r2]|] eqn:E2; [|discriminate].
  inversion H; subst. apply Hp in E1. apply IH in E2. lia.
Qed.
Lemma rd_vec_bounded {A} (p : list N -> option (A * list N)) w n bs l r :
  (forall bs a r, p bs = Some (a, r) -> (length r <= length bs)%nat) ->
  rd_vec p w n bs = Some (l, r) ->
  N.of_nat (length l) * w <= N.of_nat (length bs) /\ (length r <= length bs)%nat.
Proof.
  intros Hp H. pose proof (rd_vec_length _ _ _ _ _ _ H) as HL. unfold rd_vec in H.
  destruct (N.of_nat (length bs) <? n * w) eqn:E; [discriminate|]. split; [lia|]. eapply rd_n_rest; eauto.
Qed.

Theorem parse_info_alloc_bounded bs i t : parse_info bs = ROk (i, t) ->
  32 * N.of_nat (length (i_hashes i)) <= N.of_nat (length bs) /\
  4 * N.of_nat (length (i_boundaries i)) <= N.of_nat (length bs) /\
  4 * N.of_nat (length (i_unpacked i)) <= N.of_nat (length bs).
Proof.
  unfold parse_info, parse_v0. intros H. walk; inversion H; subst; clear H;
    cbn [i_hashes i_boundaries i_unpacked length];
    repeat match goal with
           | H : rd _ _ = Some _ |- _ => apply take_rest in H
           | H : rd_u32 _ = Some _ |- _ => apply rd_u32_rest in H
           | H : rd_vec rd_u32 _ _ _ = Some _ |- _ => apply (rd_vec_bounded rd_u32 _ _ _ _ _ rd_u32_rest) in H; destruct H
           | H : rd_vec (rd 32) _ _ _ = Some _ |- _ => apply (rd_vec_bounded (rd 32) _ _ _ _ _ (fun b a r => take_rest b 32 a r)) in H; destruct H
           end; unfold hash in *; lia.
Qed.
