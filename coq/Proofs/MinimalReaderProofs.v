(* C09: MDBMinimalShard::from_reader, the reader built on the streaming walk.  It checks the header, copies the records of the
   file section into its buffer (when asked to) noting where each begins, appends the end marker, does the same for the xorb
   section (which it does not even read when not asked to), and appends the end marker.  Over a serialized shard its buffer
   is exactly the two record sections as written, the noted offsets are where the records begin, and the view at each offset
   parses back to the record. *)
From Coq Require Import ZArith NArith Bool List Lia ZifyBool ZifyN ZifyNat.
Import ListNotations.
From XetModel Require Import Base.Codec Gen.ShardLayout Model.Merkle Model.Shard Proofs.CodecProofs Proofs.ShardProofs Proofs.DedupProofs Proofs.ShardWholeProofs Proofs.StreamProofs.
Open Scope N_scope.

Lemma concat_map_is_flat_map {A} (f : A -> list N) l : concat (map f l) = flat_map f l.
Proof. induction l as [|a r IH]; [reflexivity|]. cbn [map concat flat_map]. rewrite IH. reflexivity. Qed.

Theorem minimal_reader_serialized files cass ctbl key created expiry : Forall wf_file files -> Forall wf_cas cass ->
  minimal_from_reader (w_bs files cass ctbl key created expiry) true true =
  Some (mkMin (w_fsec files ++ w_csec cass) (offsets_from 0 (map ser_file_info files))
              (offsets_from (N.of_nat (length (w_fsec files))) (map ser_cas_info cass)) (N.of_nat (length (w_fsec files)))).
Proof.
  intros Hf Hc. rewrite w_bs_shape. unfold minimal_from_reader, w_hdr.
  rewrite rt_MDBShardFileHeader by (first [reflexivity | unfold is_u64, MDB_SHARD_HEADER_VERSION; lia]).
  replace (bytes_eqb MDB_SHARD_HEADER_TAG MDB_SHARD_HEADER_TAG) with true by (symmetry; apply bytes_eqb_refl). cbn [negb].
  unfold w_fsec, w_csec. rewrite <- !app_assoc.
  rewrite blob_all_files; [|exact Hf | apply fuel_files; exact Hf].
  rewrite blob_all_cas; [|exact Hc | apply fuel_cas; exact Hc].
  rewrite !concat_map_is_flat_map, <- !app_assoc. reflexivity.
Qed.

(* asked for neither section it keeps the two end markers only, and never looks at the xorb section *)
Theorem minimal_reader_nothing files cass ctbl key created expiry : Forall wf_file files ->
  minimal_from_reader (w_bs files cass ctbl key created expiry) false false = Some (mkMin (file_bookend ++ cas_bookend) [] [] 48).
Proof.
  intros Hf. rewrite w_bs_shape. unfold minimal_from_reader, w_hdr.
  rewrite rt_MDBShardFileHeader by (first [reflexivity | unfold is_u64, MDB_SHARD_HEADER_VERSION; lia]).
  replace (bytes_eqb MDB_SHARD_HEADER_TAG MDB_SHARD_HEADER_TAG) with true by (symmetry; apply bytes_eqb_refl). cbn [negb].
  unfold w_fsec. rewrite <- !app_assoc. rewrite blob_all_files; [|exact Hf | apply fuel_files; exact Hf]. reflexivity.
Qed.

(* the noted offsets are where the records begin: dropping [offset] bytes of the buffer leaves the record's bytes in front *)
Lemma offsets_from_spec : forall blobs pos rest i o b, nth_error (offsets_from pos blobs) i = Some o -> nth_error blobs i = Some b ->
  exists pre, N.of_nat (length pre) + pos = o /\ exists post, concat blobs ++ rest = pre ++ b ++ post.
Proof.
  induction blobs as [|b0 r IH]; intros pos rest i o b Ho Hb; [destruct i; discriminate|]. destruct i as [|i]; cbn [offsets_from nth_error] in Ho, Hb.
  - injection Ho as <-. injection Hb as <-. exists []. split; [cbn; lia|]. exists (concat r ++ rest). cbn [concat app]. rewrite <- app_assoc. reflexivity.
  - destruct (IH _ rest i o b Ho Hb) as (pre & Hp & post & E). exists (b0 ++ pre). split; [rewrite app_length; lia|]. exists post.
    cbn [concat]. rewrite <- !app_assoc. rewrite E. reflexivity.
Qed.
