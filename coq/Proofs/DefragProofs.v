(* C14: the bytes (and chunks) counted as withheld from deduplication by fragmentation prevention are a subset of the new
   bytes (chunks): every rejected dedup answer adds to the "withheld" counters exactly the chunk it causes to be stored as
   new data.  The fact [defrag_counts_whole_run] is regenerated from process_chunks on every run; the other shape
   (the whole rejected run is counted) is refuted by a computed witness. *)
From Coq Require Import ZArith NArith Bool List Lia ZifyBool ZifyN ZifyNat.
Import ListNotations.
From XetModel Require Import Base.Codec Gen.ShardLayout Gen.DedupFacts Model.Merkle Model.Shard Model.Dedup Proofs.PipelineProofs.
Open Scope N_scope.

Arguments N.add : simpl never.
Arguments N.ltb : simpl never.
Arguments N.leb : simpl never.
Arguments N.eqb : simpl never.

Definition DInv (m : metrics) : Prop := m_defrag_bytes m <= m_new_bytes m /\ m_defrag_chunks m <= m_new_chunks m.

Lemma step_with_dinv bbd cf f c rest ans : DInv (f_metrics f) -> DInv (f_metrics (fst (step_with false bbd cf f c rest ans))).
Proof.
  intros [H1 H2]. unfold step_with. destruct (match ans with Some a => Some a | None => local_query f rest end) as [[n s]|].
  2:{ cbn [fst]. rewrite add_new_chunk_metrics. unfold DInv. cbn [bump_new m_defrag_bytes m_new_bytes m_defrag_chunks m_new_chunks]. lia. }
  destruct (continues _ s).
  { cbn [fst]. rewrite add_fse_metrics. destruct bbd; unfold DInv; cbn [with_metrics f_metrics bump_dedup m_defrag_bytes m_new_bytes m_defrag_chunks m_new_chunks]; lia. }
  destruct (d_allow cf _ n) as [ok d']. destruct ok; cbn [fst].
  - rewrite add_fse_metrics. destruct bbd; unfold DInv; cbn [with_metrics with_defrag f_metrics bump_dedup m_defrag_bytes m_new_bytes m_defrag_chunks m_new_chunks]; lia.
  - rewrite add_new_chunk_metrics. destruct bbd; unfold DInv; cbn [with_metrics with_defrag f_metrics bump_dedup bump_defrag bump_new m_defrag_bytes m_new_bytes m_defrag_chunks m_new_chunks]; lia.
Qed.

Lemma process_loop_dinv bbd cf : defrag_counts_whole_run = false -> forall fuel f chunks answers, DInv (f_metrics f) -> DInv (f_metrics (process_loop fuel bbd cf f chunks answers)).
Proof.
  intro Hfact. induction fuel as [|fuel IH]; intros f chunks answers H; cbn [process_loop]; [assumption|].
  destruct chunks as [|c r]; [assumption|].
  pose proof (step_with_dinv bbd cf f c (map fst (c :: r)) (hd None answers) H) as H1.
  unfold step. rewrite Hfact. destruct (step_with false bbd cf f c (map fst (c :: r)) (hd None answers)) as [f' n]. apply IH. exact H1.
Qed.

Theorem process_chunks_defrag_subset bbd cf f chunks answers : defrag_counts_whole_run = false ->
  DInv (f_metrics f) -> DInv (f_metrics (process_chunks bbd cf f chunks answers)).
Proof. intros Hf H. unfold process_chunks. cbn [f_metrics]. apply process_loop_dinv; assumption. Qed.

Theorem feed_blocks_defrag_subset bbd cf ext : defrag_counts_whole_run = false -> forall blocks f,
  DInv (f_metrics f) -> DInv (f_metrics (fold_left (process_block bbd cf ext) blocks f)).
Proof.
  intro Hf. induction blocks as [|b r IH]; intros f H; [exact H|]. cbn [fold_left]. apply IH. unfold process_block. apply process_chunks_defrag_subset; assumption.
Qed.

(* the shape the source had before the repair: a rejected answer covering two chunks is counted with both, one chunk is stored *)
Definition ex_seg2 : seg := mkSeg (ex_h 9) 0 30 0 2.
Theorem defrag_whole_run_refuted :
  let r := step_with true false ex_cfg ex_fd (ex_h 1, 10) [ex_h 1; ex_h 2] (Some (2, ex_seg2)) in
  snd r = 1 /\ m_new_bytes (f_metrics (fst r)) = 10 /\ m_defrag_bytes (f_metrics (fst r)) = 30 /\ ~ DInv (f_metrics (fst r)).
Proof. cbv zeta. split; [vm_compute; reflexivity|]. split; [vm_compute; reflexivity|]. split; [vm_compute; reflexivity|]. intros [H _]. vm_compute in H. apply H. reflexivity. Qed.
Example defrag_fact : defrag_counts_whole_run = false /\ DInv m0.
Proof. split; [reflexivity | split; cbn; lia]. Qed.
