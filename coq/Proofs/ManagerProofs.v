(* C05 / C11 / C18: the shard manager's in-memory chunk index.  For every sequence of registrations:
   - the counter that is compared with the cap equals the number of entries the tables hold (total_indexed_chunks is exact);
   - every entry points at a registered shard of its collection and at a chunk with that truncated hash in it, so the
     routed query never fails and whatever it reports is a real run of a block of a registered shard;
   - as long as the cap was not reached every chunk (at an offset the entry can hold) of every registered shard has an entry,
     and a chunk whose truncated hash is unambiguous within its collection is found, whichever collections come first. *)
From Coq Require Import ZArith NArith Bool List Lia ZifyBool ZifyN ZifyNat.
Import ListNotations.
From XetModel Require Import Base.Codec Gen.ShardLayout Gen.ManagerFacts Model.Merkle Model.Shard Model.Manager Proofs.CodecProofs Proofs.ShardProofs Proofs.DedupProofs
  Proofs.ShardDedupWholeProofs.
Open Scope N_scope.

Arguments N.add : simpl never.
Arguments N.sub : simpl never.
Arguments N.ltb : simpl never.
Arguments N.leb : simpl never.
Arguments N.eqb : simpl never.
Arguments N.modulo : simpl never.
Arguments N.of_nat : simpl never.
Arguments N.to_nat : simpl never.
Ltac Zify.zify_post_hook ::= Z.div_mod_to_equations.

(* ---- the association list ---- *)
Lemma amap_ins_len {V} k (v : V) : forall l, (length l <= length (amap_ins k v l) <= S (length l))%nat.
Proof. induction l as [|[k' v'] r IH]; cbn [amap_ins length]; [lia|]. destruct (k =? k'); cbn [length]; lia. Qed.
Lemma amap_ins_in {V} k (v : V) : forall l x, In x (amap_ins k v l) -> x = (k, v) \/ In x l.
Proof.
  induction l as [|[k' v'] r IH]; intros x H; cbn [amap_ins] in H; [destruct H as [<-|[]]; left; reflexivity|].
  destruct (k =? k'); cbn [In] in *; [destruct H as [<-|H]; auto | destruct H as [<-|H]; [auto | destruct (IH x H); auto]].
Qed.
Lemma amap_get_ins {V} k (v : V) : forall l h, amap_get h (amap_ins k v l) = if h =? k then Some v else amap_get h l.
Proof.
  induction l as [|[k' v'] r IH]; intro h; cbn [amap_ins amap_get]; [destruct (h =? k); reflexivity|].
  destruct (k =? k') eqn:E; cbn [amap_get].
  - apply N.eqb_eq in E. subst k'. destruct (h =? k); reflexivity.
  - rewrite IH. destruct (h =? k) eqn:E2; [|reflexivity]. apply N.eqb_eq in E2. subst h. rewrite E. reflexivity.
Qed.
Lemma amap_get_in {V} : forall (l : list (N * V)) h v, amap_get h l = Some v -> In (h, v) l.
Proof.
  induction l as [|[k' v'] r IH]; intros h v H; cbn [amap_get] in H; [discriminate|]. destruct (h =? k') eqn:E.
  - apply N.eqb_eq in E. injection H as <-. subst. left. reflexivity.
  - right. apply IH. exact H.
Qed.

(* ---- index_shard ---- *)
Definition idx_step (si : N) (l : list (N * centry)) (e : N * (N * N)) : list (N * centry) :=
  if 65535 <? snd (snd e) then l else amap_ins (fst e) (mkCEl (fst (snd e)) (snd (snd e)) (si mod 65536)) l.
Lemma index_shard_fold s si lk : index_shard s si lk = fold_left (idx_step si) (sh_tbl s) lk.
Proof. reflexivity. Qed.

Lemma fold_idx_len si : forall t lk, (length lk <= length (fold_left (idx_step si) t lk))%nat.
Proof.
  induction t as [|e t IH]; intro lk; cbn [fold_left]; [lia|]. specialize (IH (idx_step si lk e)).
  unfold idx_step in *. destruct (65535 <? snd (snd e)); [exact IH|]. pose proof (amap_ins_len (fst e) (mkCEl (fst (snd e)) (snd (snd e)) (si mod 65536)) lk). lia.
Qed.
Lemma fold_idx_in si : forall t lk x, In x (fold_left (idx_step si) t lk) ->
  In x lk \/ exists h st off, In (h, (st, off)) t /\ off <= 65535 /\ x = (h, mkCEl st off (si mod 65536)).
Proof.
  induction t as [|e t IH]; intros lk x H; cbn [fold_left] in H; [left; exact H|].
  destruct (IH _ _ H) as [H1|(h & st & off & A & B & C)].
  - unfold idx_step in H1. destruct (65535 <? snd (snd e)) eqn:E; [left; exact H1|].
    apply amap_ins_in in H1 as [->|H1]; [|left; exact H1]. right. destruct e as [h [st off]]. cbn [fst snd] in *. exists h, st, off. split; [left; reflexivity|]. split; [apply N.ltb_ge; exact E | reflexivity].
  - right. exists h, st, off. split; [right; exact A | auto].
Qed.
Lemma fold_idx_keeps si : forall t lk h, amap_get h lk <> None -> amap_get h (fold_left (idx_step si) t lk) <> None.
Proof.
  induction t as [|e t IH]; intros lk h H; cbn [fold_left]; [exact H|]. apply IH. unfold idx_step. destruct (65535 <? snd (snd e)); [exact H|].
  rewrite amap_get_ins. destruct (h =? fst e); [discriminate | exact H].
Qed.
Lemma fold_idx_has si : forall t lk h st off, In (h, (st, off)) t -> off <= 65535 -> amap_get h (fold_left (idx_step si) t lk) <> None.
Proof.
  induction t as [|e t IH]; intros lk h st off Hin Ho; [destruct Hin|]. cbn [fold_left]. destruct Hin as [->|Hin].
  - apply fold_idx_keeps. unfold idx_step. cbn [fst snd]. replace (65535 <? off) with false by (symmetry; apply N.ltb_ge; exact Ho). rewrite amap_get_ins, N.eqb_refl. discriminate.
  - eapply IH; eauto.
Qed.

(* ---- the counter ---- *)
Definition csize (c : coll) : N := N.of_nat (length (k_lookup c)).
Fixpoint total_size (cs : list coll) : N := match cs with [] => 0 | c :: r => csize c + total_size r end.
Definition nth_size (cs : list coll) (i : nat) : N := match nth_error cs i with Some c => csize c | None => 0 end.

Lemma total_size_app a b : total_size (a ++ b) = total_size a + total_size b.
Proof. induction a as [|c a IH]; cbn [app total_size]; lia. Qed.

Lemma total_upd_nth g : (forall c, csize c <= csize (g c)) -> forall cs i,
  total_size (upd_nth i g cs) = total_size cs + (nth_size (upd_nth i g cs) i - nth_size cs i) /\ nth_size cs i <= nth_size (upd_nth i g cs) i.
Proof.
  intro Hg. induction cs as [|c cs IH]; intro i; [destruct i; cbn; lia|]. destruct i as [|i]; cbn [upd_nth].
  - unfold nth_size. cbn [nth_error total_size]. specialize (Hg c). lia.
  - destruct (IH i) as [A B]. unfold nth_size in *. cbn [nth_error total_size]. lia.
Qed.

(* [register] is [register_with] at the regenerated fact: the statements below are about the code's current shape *)
Lemma register_unfold cap b s : register cap b s = register_with true cap b s.
Proof. reflexivity. Qed.

Definition Cnt (b : book) : Prop := b_total b = total_size (b_colls b).

Lemma register_cnt cap b s : Cnt b -> Cnt (register cap b s).
Proof.
  unfold Cnt. rewrite register_unfold. unfold register_with. intro H. destruct (existsb _ _); [exact H|]. cbv zeta.
  set (colls := match find_coll (sh_key s) (b_colls b) 0 with Some _ => b_colls b | None => b_colls b ++ [mkColl (sh_key s) [] []] end).
  assert (Hc : total_size colls = total_size (b_colls b)).
  { subst colls. destruct (find_coll _ _ _); [reflexivity|]. rewrite total_size_app. cbn [total_size]. unfold csize. cbn [k_lookup length]. lia. }
  set (ci := match find_coll (sh_key s) colls 0 with Some i => i | None => 0%nat end).
  set (g := fun c : coll => mkColl (k_key c) (k_shards c ++ [s]) (if b_total b <? cap then index_shard s (N.of_nat (length (k_shards c))) (k_lookup c) else k_lookup c)).
  assert (Hg : forall c, csize c <= csize (g c)).
  { intro c. unfold csize, g. cbn [k_lookup]. destruct (b_total b <? cap); [|lia]. rewrite index_shard_fold. pose proof (fold_idx_len (N.of_nat (length (k_shards c))) (sh_tbl s) (k_lookup c)) as L. clear -L. set (x := length (fold_left _ _ _)) in *. lia. }
  destruct (total_upd_nth g Hg colls ci) as [A B]. cbn [b_total b_colls]. unfold nth_size, csize in *. lia.
Qed.

(* C11: total_indexed_chunks is the number of entries the tables hold, after any sequence of registrations *)
Theorem total_indexed_exact cap ops : let b := fold_left (register cap) ops book0 in b_total b = total_size (b_colls b).
Proof.
  cbv zeta. assert (G : forall b, Cnt b -> Cnt (fold_left (register cap) ops b)).
  { induction ops as [|s r IH]; intros b H; cbn [fold_left]; [exact H | apply IH; apply register_cnt; exact H]. }
  apply G. reflexivity.
Qed.

(* ---- every entry points at a registered shard and at a chunk with that truncated hash ---- *)
Definition EntryOk (c : coll) (x : N * centry) : Prop :=
  exists s, nth_error (k_shards c) (N.to_nat (e_shard (snd x))) = Some s /\ In (fst x, (e_start (snd x), e_off (snd x))) (sh_tbl s).
Definition CollOk (c : coll) : Prop :=
  (forall x, In x (k_lookup c) -> EntryOk c x) /\ (forall s, In s (k_shards c) -> sh_key s = k_key c).
Definition BookOk (b : book) : Prop := Forall CollOk (b_colls b).

Lemma find_coll_spec key : forall cs i j, find_coll key cs i = Some j -> (i <= j)%nat /\ exists c, nth_error cs (j - i) = Some c /\ k_key c = key.
Proof.
  induction cs as [|c cs IH]; intros i j H; cbn [find_coll] in H; [discriminate|]. destruct (bytes_eqb (k_key c) key) eqn:E.
  - injection H as <-. split; [lia|]. rewrite Nat.sub_diag. exists c. split; [reflexivity | apply bytes_eqb_eq; exact E].
  - destruct (IH _ _ H) as (A & c' & B & C). split; [lia|]. exists c'. split; [|exact C]. replace (j - i)%nat with (S (j - S i)) by lia. exact B.
Qed.
Lemma find_coll_app key c0 : k_key c0 = key -> forall cs i, find_coll key cs i = None -> find_coll key (cs ++ [c0]) i = Some (i + length cs)%nat.
Proof.
  intros Hk. induction cs as [|c cs IH]; intros i H; cbn [find_coll app length] in *.
  - rewrite Hk, bytes_eqb_refl. f_equal. lia.
  - destruct (bytes_eqb (k_key c) key); [discriminate|]. rewrite (IH _ H). f_equal. lia.
Qed.

Lemma Forall_upd_nth {A} (P : A -> Prop) g : forall l i, Forall P l -> (forall x, nth_error l i = Some x -> P x -> P (g x)) -> Forall P (upd_nth i g l).
Proof.
  induction l as [|x l IH]; intros i H Hg; [destruct i; constructor|]. inversion H; subst. destruct i as [|i]; cbn [upd_nth].
  - constructor; [apply Hg; [reflexivity | assumption] | assumption].
  - constructor; [assumption | apply IH; [assumption | intros y Hy; apply Hg; exact Hy]].
Qed.

Lemma register_ok cap b s : BookOk b -> (forall c, In c (b_colls b) -> N.of_nat (length (k_shards c)) < 65536) -> BookOk (register cap b s).
Proof.
  unfold BookOk. rewrite register_unfold. unfold register_with. intros H Hsz. destruct (existsb _ _); [exact H|]. cbv zeta. cbn [b_colls].
  set (colls := match find_coll (sh_key s) (b_colls b) 0 with Some _ => b_colls b | None => b_colls b ++ [mkColl (sh_key s) [] []] end).
  assert (Hc : Forall CollOk colls /\ (forall c, In c colls -> N.of_nat (length (k_shards c)) < 65536)).
  { subst colls. destruct (find_coll _ _ _); [auto|]. split.
    - apply Forall_app. split; [exact H|]. constructor; [|constructor]. split; cbn [k_lookup k_shards]; intros x [].
    - intros c Hin. apply in_app_or in Hin as [Hin|[<-|[]]]; [apply Hsz; exact Hin | cbn; lia]. }
  destruct Hc as [Hc Hs2].
  assert (Hci : exists i c, find_coll (sh_key s) colls 0 = Some i /\ nth_error colls i = Some c /\ k_key c = sh_key s).
  { subst colls. destruct (find_coll (sh_key s) (b_colls b) 0) as [i|] eqn:E.
    - destruct (find_coll_spec _ _ _ _ E) as (_ & c & A & B). rewrite Nat.sub_0_r in A. exists i, c. auto.
    - rewrite (find_coll_app (sh_key s) (mkColl (sh_key s) [] []) eq_refl _ _ E). exists (0 + length (b_colls b))%nat, (mkColl (sh_key s) [] []). split; [reflexivity|]. split; [|reflexivity].
      cbn [plus]. rewrite nth_error_app2 by lia. rewrite Nat.sub_diag. reflexivity. }
  destruct Hci as (i & c0 & Ei & En & Ek). rewrite Ei.
  apply Forall_upd_nth; [exact Hc|]. intros c Hn [H1 H2]. rewrite En in Hn. injection Hn as <-.
  assert (Hlen : N.of_nat (length (k_shards c0)) < 65536) by (apply Hs2; eapply nth_error_In; exact En).
  split; cbn [k_lookup k_shards].
  - intros x Hx. assert (Hold : EntryOk c0 x -> EntryOk (mkColl (k_key c0) (k_shards c0 ++ [s]) (if b_total b <? cap then index_shard s (N.of_nat (length (k_shards c0))) (k_lookup c0) else k_lookup c0)) x).
    { intros (s' & A & B). exists s'. cbn [k_shards]. split; [|exact B]. rewrite nth_error_app1; [exact A | apply nth_error_Some; congruence]. }
    destruct (b_total b <? cap); [|apply Hold; apply H1; exact Hx].
    rewrite index_shard_fold in Hx. apply fold_idx_in in Hx as [Hx|(h & st & off & A & B & ->)]; [apply Hold; apply H1; exact Hx|].
    exists s. cbn [fst snd e_shard e_start e_off k_shards]. split; [|exact A].
    replace (N.to_nat (N.of_nat (length (k_shards c0)) mod 65536)) with (length (k_shards c0)) by (rewrite N.mod_small; lia).
    rewrite nth_error_app2 by lia. rewrite Nat.sub_diag. reflexivity.
  - intros s' Hin. apply in_app_or in Hin as [Hin|[<-|[]]]; [apply H2; exact Hin | symmetry; exact Ek].
Qed.

Lemma register_shards_count cap b s : forall c', In c' (b_colls (register cap b s)) ->
  exists n, (length (k_shards c') <= S n)%nat /\ ((exists c, In c (b_colls b) /\ length (k_shards c) = n) \/ n = O).
Proof.
  rewrite register_unfold. unfold register_with. destruct (existsb _ _); [intros c' H; exists (length (k_shards c')); split; [lia | left; eauto]|]. cbv zeta. cbn [b_colls].
  set (colls := match find_coll (sh_key s) (b_colls b) 0 with Some _ => b_colls b | None => b_colls b ++ [mkColl (sh_key s) [] []] end).
  assert (Hc : forall c, In c colls -> In c (b_colls b) \/ k_shards c = []).
  { subst colls. destruct (find_coll _ _ _); [auto|]. intros c Hin. apply in_app_or in Hin as [Hin|[<-|[]]]; auto. }
  generalize (match find_coll (sh_key s) colls 0 with Some i => i | None => 0%nat end) as i. revert Hc. generalize colls as l. clear colls.
  induction l as [|x l IH]; intros Hc i c' H; [destruct i; destruct H|]. destruct i as [|i]; cbn [upd_nth] in H.
  - destruct H as [<-|H].
    + cbn [k_shards]. rewrite app_length. cbn [length]. exists (length (k_shards x)). split; [lia|]. destruct (Hc x (or_introl eq_refl)) as [A|A]; [left; eauto | right; rewrite A; reflexivity].
    + exists (length (k_shards c')). split; [lia|]. destruct (Hc c' (or_intror H)) as [A|A]; [left; eauto | right; rewrite A; reflexivity].
  - destruct H as [<-|H].
    + exists (length (k_shards x)). split; [lia|]. destruct (Hc x (or_introl eq_refl)) as [A|A]; [left; eauto | right; rewrite A; reflexivity].
    + apply (IH (fun c Hin => Hc c (or_intror Hin)) i c' H).
Qed.

Lemma fold_register_ok cap : forall ops b n, BookOk b -> (forall c, In c (b_colls b) -> (length (k_shards c) <= n)%nat) -> N.of_nat (n + length ops) <= 65536 ->
  BookOk (fold_left (register cap) ops b) /\ (forall c, In c (b_colls (fold_left (register cap) ops b)) -> (length (k_shards c) <= n + length ops)%nat).
Proof.
  induction ops as [|s r IH]; intros b n H Hn Hsz; cbn [fold_left length]; [split; [exact H | intros c Hc; specialize (Hn c Hc); lia]|].
  cbn [length] in Hsz.
  destruct (IH (register cap b s) (S n)) as [A B].
  - apply register_ok; [exact H|]. intros c Hc. specialize (Hn c Hc). lia.
  - intros c' Hc'. destruct (register_shards_count cap b s c' Hc') as (m & Hm & [(c & Hc & Em)|Em]); subst m; [specialize (Hn c Hc); lia | lia].
  - lia.
  - split; [exact A|]. intros c Hc. specialize (B c Hc). lia.
Qed.

Theorem registered_index_ok cap ops : N.of_nat (length ops) <= 65536 -> BookOk (fold_left (register cap) ops book0).
Proof.
  intro H. apply (fold_register_ok cap ops book0 0).
  - constructor; [|constructor]. split; cbn; intros x [].
  - intros c [<-|[]]. cbn. lia.
  - lia.
Qed.

(* ---- an entry of a shard's table, positionally ---- *)
Lemma chunk_tbl_of_pos c : forall chs idx i0 k a b, In (k, (a, b)) (chunk_tbl_of c chs idx i0) ->
  a = idx /\ i0 <= b /\ exists ch, nth_error chs (N.to_nat (b - i0)) = Some ch /\ k = truncate_hash (ce_hash ch).
Proof.
  induction chs as [|ch r IH]; intros idx i0 k a b H; [destruct H|]. cbn [chunk_tbl_of] in H. destruct H as [E|H].
  - injection E as <- <- <-. repeat split; try lia. exists ch. rewrite N.sub_diag. split; reflexivity.
  - destruct (IH _ _ _ _ _ H) as (A & B & ch' & D1 & D2). repeat split; try lia. exists ch'. split; [|exact D2].
    replace (N.to_nat (b - i0)) with (S (N.to_nat (b - (i0 + 1)))) by lia. exact D1.
Qed.
Lemma chunk_tbl_pos : forall cs idx0 k a b, In (k, (a, b)) (chunk_lookup_tbl cs idx0) ->
  exists pre c post ch, cs = pre ++ c :: post /\ a = idx0 + crecs pre /\ nth_error (ci_chunks c) (N.to_nat b) = Some ch /\ k = truncate_hash (ce_hash ch).
Proof.
  induction cs as [|c cs IH]; intros idx0 k a b H; [destruct H|]. cbn [chunk_lookup_tbl] in H. apply in_app_or in H as [H|H].
  - destruct (chunk_tbl_of_pos _ _ _ _ _ _ _ H) as (A & _ & ch & C & D). rewrite N.sub_0_r in C. exists [], c, cs, ch. cbn [app crecs fold_right]. repeat split; try assumption; lia.
  - destruct (IH _ _ _ _ H) as (pre & c' & post & ch & -> & -> & Hb & D). exists (c :: pre), c', post, ch. cbn [app crecs fold_right]. fold (crecs pre). repeat split; [lia | exact Hb | exact D].
Qed.

Lemma block_at_crecs : forall pre c post, block_at (pre ++ c :: post) (crecs pre) = Some c.
Proof.
  induction pre as [|p pre IH]; intros c post; cbn [app block_at crecs fold_right]; [reflexivity|]. fold (crecs pre).
  replace (1 + N.of_nat (length (ci_chunks p)) + crecs pre =? 0) with false by lia.
  replace (1 + N.of_nat (length (ci_chunks p)) + crecs pre <? 1 + N.of_nat (length (ci_chunks p))) with false by lia.
  replace (1 + N.of_nat (length (ci_chunks p)) + crecs pre - (1 + N.of_nat (length (ci_chunks p)))) with (crecs pre) by lia. apply IH.
Qed.

Lemma entry_direct s h st off qs : In (h, (st, off)) (sh_tbl s) ->
  exists blk ch, In blk (sh_cass s) /\ nth_error (ci_chunks blk) (N.to_nat off) = Some ch /\ h = truncate_hash (ce_hash ch)
                 /\ sh_direct s qs st off = Found (direct_rec (sh_key s) blk qs off).
Proof.
  intro H. unfold sh_tbl in H. apply (proj1 (sort_by_key_in _ _)) in H. destruct (chunk_tbl_pos _ _ _ _ _ H) as (pre & c & post & ch & E & -> & Hn & Hk).
  exists c, ch. split; [rewrite E; apply in_or_app; right; left; reflexivity|]. split; [exact Hn|]. split; [exact Hk|].
  unfold sh_direct. rewrite E. replace (0 + crecs pre) with (crecs pre) by lia. rewrite block_at_crecs.
  assert (N.to_nat off < length (ci_chunks c))%nat by (apply nth_error_Some; congruence). replace (off <? N.of_nat (length (ci_chunks c))) with true by lia. reflexivity.
Qed.

(* ---- the routed query never fails, and what it reports is a real run of a block of a registered shard ---- *)
Theorem colls_query_truthful qs : qs <> [] -> forall cs, Forall CollOk cs ->
  exists r, colls_query cs qs = Found r /\
    forall n sg, r = Some (n, sg) -> exists c s blk, In c cs /\ In s (k_shards c) /\ In blk (sh_cass s) /\ truthful (k_key c) blk qs n sg.
Proof.
  intro Hq. induction cs as [|c cs IH]; intro H; [exists None; split; [reflexivity | discriminate]|]. inversion H as [|? ? [H1 H2] Hr]; subst.
  destruct (IH Hr) as (r & Er & Hr').
  assert (Hrest : exists r0, colls_query cs qs = Found r0 /\ forall n sg, r0 = Some (n, sg) -> exists c0 s blk, In c0 (c :: cs) /\ In s (k_shards c0) /\ In blk (sh_cass s) /\ truthful (k_key c0) blk qs n sg).
  { exists r. split; [exact Er|]. intros n sg E. destruct (Hr' n sg E) as (c0 & s & blk & A & B). exists c0, s, blk. split; [right; exact A | exact B]. }
  cbn [colls_query]. destruct qs as [|q0 qr]; [congruence|].
  destruct (amap_get (truncate_hash (keyed (k_key c) q0)) (k_lookup c)) as [e|] eqn:Eg; [|exact Hrest].
  apply amap_get_in in Eg. destruct (H1 _ Eg) as (s & Es & Et). cbn [fst snd] in Es, Et. rewrite Es.
  destruct (entry_direct s _ _ _ (q0 :: qr) Et) as (blk & ch & Hb & _ & _ & Ed). rewrite Ed.
  assert (Hs : In s (k_shards c)) by (eapply nth_error_In; exact Es).
  destruct (direct_rec (sh_key s) blk (q0 :: qr) (e_off e)) as [[n sg]|] eqn:Edr; [|exact Hrest].
  exists (Some (n, sg)). split; [reflexivity|]. intros n' sg' E. injection E as <- <-. exists c, s, blk. split; [left; reflexivity|]. split; [exact Hs|]. split; [exact Hb|].
  rewrite <- (H2 s Hs). eapply direct_rec_truthful. exact Edr.
Qed.

Theorem mgr_query_truthful cap ops qs : N.of_nat (length ops) <= 65536 -> qs <> [] ->
  let b := fold_left (register cap) ops book0 in
  exists r, mgr_query b qs = Found r /\
    forall n sg, r = Some (n, sg) -> exists c s blk, In c (b_colls b) /\ In s (k_shards c) /\ In blk (sh_cass s) /\ truthful (k_key c) blk qs n sg.
Proof. intros H Hq. cbv zeta. unfold mgr_query. apply colls_query_truthful; [exact Hq | apply registered_index_ok; exact H]. Qed.

(* ---- completeness below the cap ---- *)
Definition CollFull (c : coll) : Prop :=
  forall s, In s (k_shards c) -> forall h st off, In (h, (st, off)) (sh_tbl s) -> off <= 65535 -> amap_get h (k_lookup c) <> None.

Lemma register_full cap b s : Forall CollFull (b_colls b) -> b_total b < cap -> Forall CollFull (b_colls (register cap b s)).
Proof.
  rewrite register_unfold. unfold register_with. intros H Hcap. destruct (existsb _ _); [exact H|]. cbv zeta. cbn [b_colls].
  replace (b_total b <? cap) with true by lia.
  set (colls := match find_coll (sh_key s) (b_colls b) 0 with Some _ => b_colls b | None => b_colls b ++ [mkColl (sh_key s) [] []] end).
  assert (Hc : Forall CollFull colls).
  { subst colls. destruct (find_coll _ _ _); [exact H|]. apply Forall_app. split; [exact H|]. constructor; [|constructor]. intros s' []. }
  apply Forall_upd_nth; [exact Hc|]. intros c _ Hf s' Hin h st off Ht Ho. cbn [k_shards k_lookup] in *. rewrite index_shard_fold.
  apply in_app_or in Hin as [Hin|[<-|[]]].
  - apply fold_idx_keeps. eapply Hf; eauto.
  - eapply fold_idx_has; eauto.
Qed.
Lemma register_total_mono cap b s : b_total b <= b_total (register cap b s).
Proof. rewrite register_unfold. unfold register_with. destruct (existsb _ _); [lia|]. cbv zeta. cbn [b_total]. lia. Qed.

Theorem below_cap_everything_indexed cap : forall ops, let b := fold_left (register cap) ops book0 in b_total b < cap -> Forall CollFull (b_colls b).
Proof.
  intro ops. induction ops as [|s r IH] using rev_ind; cbv zeta; intro H.
  - constructor; [|constructor]. intros s [].
  - rewrite fold_left_app in *. cbn [fold_left] in *. pose proof (register_total_mono cap (fold_left (register cap) r book0) s).
    apply register_full; [apply IH; lia | lia].
Qed.

(* no two different chunk hashes stored in the collection's shards share a truncated hash *)
Definition NoTruncClash (c : coll) : Prop :=
  forall s1 s2 b1 b2 ch1 ch2, In s1 (k_shards c) -> In s2 (k_shards c) -> In b1 (sh_cass s1) -> In b2 (sh_cass s2) -> In ch1 (ci_chunks b1) -> In ch2 (ci_chunks b2) ->
    truncate_hash (ce_hash ch1) = truncate_hash (ce_hash ch2) -> ce_hash ch1 = ce_hash ch2.

Lemma direct_rec_hit key blk q0 qr off ch : nth_error (ci_chunks blk) (N.to_nat off) = Some ch -> ce_hash ch = keyed key q0 ->
  exists a, direct_rec key blk (q0 :: qr) off = Some a.
Proof.
  intros Hn Hh. unfold direct_rec.
  assert (Hs : exists tl, skipn (N.to_nat off) (ci_chunks blk) = ch :: tl).
  { clear -Hn. revert Hn. generalize (N.to_nat off) as m. generalize (ci_chunks blk) as l. induction l as [|x l IH]; intros [|m] H; cbn [nth_error] in H; try discriminate.
    - injection H as ->. exists l. reflexivity.
    - cbn [skipn]. apply IH. exact H. }
  destruct Hs as [tl ->]. cbn [run_len]. rewrite Hh, bytes_eqb_refl. eexists. reflexivity.
Qed.

Definition Hit (c : coll) (qs : list hash) : Prop :=
  match qs with
  | [] => False
  | q0 :: _ => exists e s a, amap_get (truncate_hash (keyed (k_key c) q0)) (k_lookup c) = Some e /\ nth_error (k_shards c) (N.to_nat (e_shard e)) = Some s
                             /\ sh_direct s qs (e_start e) (e_off e) = Found (Some a)
  end.

Lemma colls_query_found qs : forall cs, Forall CollOk cs -> (exists c, In c cs /\ Hit c qs) -> exists a, colls_query cs qs = Found (Some a).
Proof.
  induction cs as [|c cs IH]; intros H (c0 & Hin & Hh); [destruct Hin|]. inversion H as [|? ? [H1 H2] Hr]; subst.
  destruct qs as [|q0 qr]; [destruct Hh|]. cbn [colls_query].
  assert (Hrest : c0 <> c -> exists a, colls_query cs (q0 :: qr) = Found (Some a)).
  { intro Hne. apply IH; [exact Hr|]. exists c0. destruct Hin as [E|Hin]; [congruence | auto]. }
  destruct (amap_get (truncate_hash (keyed (k_key c) q0)) (k_lookup c)) as [e|] eqn:Eg.
  - pose proof (amap_get_in _ _ _ Eg) as Ein. destruct (H1 _ Ein) as (s & Es & Et). cbn [fst snd] in Es, Et. rewrite Es.
    destruct (entry_direct s _ _ _ (q0 :: qr) Et) as (blk & ch & _ & _ & _ & Ed). rewrite Ed.
    destruct (direct_rec (sh_key s) blk (q0 :: qr) (e_off e)) as [a|] eqn:Edr; [exists a; reflexivity|].
    apply Hrest. intros ->. cbn [Hit] in Hh. destruct Hh as (e' & s' & a & A & B & C). rewrite Eg in A. injection A as <-. rewrite Es in B. injection B as <-.
    rewrite Ed in C. discriminate.
  - apply Hrest. intros ->. cbn [Hit] in Hh. destruct Hh as (e' & s' & a & A & _). rewrite Eg in A. discriminate.
Qed.

(* a book whose entries are sound and whose tables are complete finds every recorded chunk whose truncated hash is unambiguous
   within its collection, whichever collections are asked first *)
Lemma book_chunk_found b : BookOk b -> Forall CollFull (b_colls b) ->
  forall c s blk j ch q0 qr, In c (b_colls b) -> In s (k_shards c) -> In blk (sh_cass s) -> nth_error (ci_chunks blk) j = Some ch -> N.of_nat j <= 65535 ->
    ce_hash ch = keyed (k_key c) q0 -> NoTruncClash c ->
    exists n sg, mgr_query b (q0 :: qr) = Found (Some (n, sg)).
Proof.
  intros Hok Hfull c s blk j ch q0 qr Hc Hs Hb Hn Hj Hh Hclash. unfold BookOk in Hok.
  assert (Hcok : CollOk c) by (rewrite Forall_forall in Hok; apply Hok; exact Hc).
  assert (Hcf : CollFull c) by (rewrite Forall_forall in Hfull; apply Hfull; exact Hc).
  destruct Hcok as [H1 H2].
  (* the chunk has a table entry in its shard *)
  assert (Hent : exists st, In (truncate_hash (ce_hash ch), (st, N.of_nat j)) (sh_tbl s)).
  { apply in_split in Hb as (pre & post & E). exists (0 + crecs pre). unfold sh_tbl. apply (proj2 (sort_by_key_in _ _)). rewrite E. apply chunk_tbl_complete. exact Hn. }
  destruct Hent as [st Hent].
  destruct (amap_get (truncate_hash (ce_hash ch)) (k_lookup c)) as [e|] eqn:Eg; [|exfalso; exact (Hcf s Hs _ _ _ Hent Hj Eg)].
  pose proof (amap_get_in _ _ _ Eg) as Ein. destruct (H1 _ Ein) as (s' & Es & Et). cbn [fst snd] in Es, Et.
  destruct (entry_direct s' _ _ _ (q0 :: qr) Et) as (blk' & ch' & Hb' & Hn' & Hk' & Ed).
  assert (Hs' : In s' (k_shards c)) by (eapply nth_error_In; exact Es).
  assert (Heq : ce_hash ch' = ce_hash ch).
  { apply (Hclash s' s blk' blk ch' ch Hs' Hs Hb' Hb); [eapply nth_error_In; exact Hn' | eapply nth_error_In; exact Hn | symmetry; exact Hk']. }
  destruct (direct_rec_hit (sh_key s') blk' q0 qr (e_off e) ch' Hn') as [a Ha]; [rewrite Heq, (H2 s' Hs'); exact Hh|].
  destruct (colls_query_found (q0 :: qr) (b_colls b) Hok) as [[n sg] Hres].
  - exists c. split; [exact Hc|]. cbn [Hit]. exists e, s', a. rewrite <- Hh. split; [exact Eg|]. split; [exact Es|]. rewrite Ed, Ha. reflexivity.
  - exists n, sg. exact Hres.
Qed.

(* C11: below the cap, a chunk recorded in a registered shard is found by the manager's query, whichever collections are
   asked first, when its truncated hash is unambiguous within its collection *)
Theorem registered_chunk_found cap ops : N.of_nat (length ops) <= 65536 -> let b := fold_left (register cap) ops book0 in b_total b < cap ->
  forall c s blk j ch q0 qr, In c (b_colls b) -> In s (k_shards c) -> In blk (sh_cass s) -> nth_error (ci_chunks blk) j = Some ch -> N.of_nat j <= 65535 ->
    ce_hash ch = keyed (k_key c) q0 -> NoTruncClash c ->
    exists n sg, mgr_query b (q0 :: qr) = Found (Some (n, sg)).
Proof.
  intros Hlen b Hcap. apply book_chunk_found; [apply registered_index_ok; exact Hlen | apply below_cap_everything_indexed; exact Hcap].
Qed.

(* the other shape of the counter (advanced by the size of every registered shard's table) runs ahead of the tables: two shards
   that share their chunks reach a cap that the tables are far from, and the third shard is registered without its chunks *)
Example counter_by_table_size_refuted :
  let ops := [mkRS (repeat 1 32%nat) zero_hash [dx_c1]; mkRS (repeat 2 32%nat) zero_hash [dx_c1]; mkRS (repeat 3 32%nat) zero_hash [dx_c2]] in
  let b := fold_left (register_with false 3) ops book0 in
  b_total b <> total_size (b_colls b) /\ total_size (b_colls b) < 3 /\ mgr_query b [repeat 14 32%nat] = Found None
  /\ exists a, mgr_query (fold_left (register_with true 3) ops book0) [repeat 14 32%nat] = Found (Some a).
Proof. vm_compute. split; [discriminate|]. split; [reflexivity|]. split; [reflexivity|]. eexists. reflexivity. Qed.

(* ---- non-vacuity ---- *)
Definition mx_s1 : rshard := mkRS (repeat 1 32%nat) zero_hash [dx_c1].
Definition mx_s2 : rshard := mkRS (repeat 2 32%nat) zero_hash [dx_c2].
Definition mx_q : list hash := [repeat 14 32%nat; repeat 99 32%nat].
Definition mx_b : book := fold_left (register 100) [mx_s1; mx_s2] book0.

Example mx_found : exists n sg, mgr_query mx_b mx_q = Found (Some (n, sg)).
Proof.
  assert (Hc : exists c, In c (b_colls mx_b) /\ In mx_s2 (k_shards c) /\ k_key c = zero_hash /\ k_shards c = [mx_s1; mx_s2]).
  { eexists. split; [left; reflexivity|]. vm_compute. auto. }
  destruct Hc as (c & Hc & Hs & Hk & Hsh).
  apply (registered_chunk_found 100 [mx_s1; mx_s2]) with (c := c) (s := mx_s2) (blk := dx_c2) (j := 1%nat) (ch := dx_ch 14 40); try assumption.
  - cbn. lia.
  - vm_compute. reflexivity.
  - left. reflexivity.
  - reflexivity.
  - cbn. lia.
  - rewrite Hk. reflexivity.
  - intros s1 s2 b1 b2 ch1 ch2 H1 H2 H3 H4 H5 H6 Ht. rewrite Hsh in H1, H2.
    destruct H1 as [<-|[<-|[]]]; destruct H2 as [<-|[<-|[]]]; destruct H3 as [<-|[]]; destruct H4 as [<-|[]];
      destruct H5 as [<-|[<-|[]]]; destruct H6 as [<-|[<-|[]]]; try reflexivity; vm_compute in Ht; discriminate.
Qed.

(* once the cap is reached later shards are registered without their chunks (documented behaviour: "beyond those, we simply
   drop the search"): the hypothesis b_total b < cap of registered_chunk_found cannot be dropped *)
Example mx_capped : mgr_query (fold_left (register 2) [mx_s1; mx_s2] book0) mx_q = Found None
  /\ b_total (fold_left (register 2) [mx_s1; mx_s2] book0) = 2.
Proof. vm_compute. split; reflexivity. Qed.
