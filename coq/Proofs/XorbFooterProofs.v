(* C07: the V1 footer parses back, and CasObject::deserialize finds it at the end of a serialised xorb. *)
From Coq Require Import ZArith NArith Bool List Lia ZifyBool ZifyN ZifyNat.
Import ListNotations.
From XetModel Require Import Base.Codec Gen.HashConsts Gen.XorbLayout Model.Merkle Model.Shard Model.Xorb
  Proofs.CodecProofs Proofs.DedupProofs Proofs.XorbProofs.
Open Scope N_scope.

Arguments N.add : simpl never.
Arguments N.mul : simpl never.
Arguments N.sub : simpl never.
Arguments N.div : simpl never.
Arguments N.modulo : simpl never.
Arguments N.ltb : simpl never.
Arguments N.leb : simpl never.
Arguments N.eqb : simpl never.
Arguments N.to_nat : simpl never.
Arguments N.of_nat : simpl never.

Ltac Zify.zify_post_hook ::= Z.div_mod_to_equations.

Lemma rd_app (a r : list N) n : length a = n -> rd n (a ++ r) = Some (a, r).
Proof. apply take_app. Qed.

Lemma rd_u32_app x r : is_u32 x -> rd_u32 (u32 x ++ r) = Some (x, r).
Proof.
  intros H. unfold rd_u32, u32. cbn [le_bytes app]. unfold take, has. cbn [length Nat.leb firstn skipn].
  unfold is_u32 in H. rewrite le_val_u32 by assumption. reflexivity.
Qed.

Lemma rd_n_u32s : forall l r, Forall is_u32 l -> rd_n rd_u32 (length l) (flat_map u32 l ++ r) = Some (l, r).
Proof.
  induction l as [|x l IH]; intros r HF; [reflexivity|]. inversion HF; subst.
  cbn [length rd_n flat_map]. rewrite <- app_assoc. rewrite rd_u32_app by assumption. rewrite IH by assumption. reflexivity.
Qed.
Lemma rd_n_hashes : forall l r, Forall is_hash l -> rd_n (rd 32) (length l) (concat l ++ r) = Some (l, r).
Proof.
  induction l as [|x l IH]; intros r HF; [reflexivity|]. inversion HF; subst.
  cbn [length rd_n concat]. rewrite <- app_assoc. rewrite rd_app by assumption. rewrite IH by assumption. reflexivity.
Qed.
Lemma flat_map_u32_length l : length (flat_map u32 l) = (4 * length l)%nat.
Proof. induction l as [|x l IH]; [reflexivity|]. cbn [flat_map]. rewrite app_length, IH. cbn [length u32 le_bytes]. lia. Qed.
Lemma concat_hashes_length l : Forall is_hash l -> length (concat l) = (32 * length l)%nat.
Proof. induction 1 as [|x l Hx HF IH]; [reflexivity|]. cbn [concat]. rewrite app_length, IH, Hx. cbn [length]. lia. Qed.

Lemma rd_vec_u32s l r : Forall is_u32 l -> rd_vec rd_u32 4 (N.of_nat (length l)) (flat_map u32 l ++ r) = Some (l, r).
Proof.
  intros HF. unfold rd_vec. rewrite app_length, flat_map_u32_length.
  replace (N.of_nat (4 * length l + length r) <? N.of_nat (length l) * 4) with false by lia.
  replace (N.to_nat (N.of_nat (length l))) with (length l) by lia. apply rd_n_u32s; assumption.
Qed.
Lemma rd_vec_hashes l r : Forall is_hash l -> rd_vec (rd 32) 32 (N.of_nat (length l)) (concat l ++ r) = Some (l, r).
Proof.
  intros HF. unfold rd_vec. rewrite app_length, concat_hashes_length by assumption.
  replace (N.of_nat (32 * length l + length r) <? N.of_nat (length l) * 32) with false by lia.
  replace (N.to_nat (N.of_nat (length l))) with (length l) by lia. apply rd_n_hashes; assumption.
Qed.

Definition wf_info (i : info) : Prop :=
  is_hash (i_cashash i) /\ Forall is_hash (i_hashes i) /\ Forall is_u32 (i_boundaries i) /\ Forall is_u32 (i_unpacked i) /\
  i_bnd_version i = CAS_OBJECT_FORMAT_BOUNDARIES_VERSION /\
  i_num_chunks i = N.of_nat (length (i_hashes i)) /\ length (i_boundaries i) = length (i_hashes i) /\ length (i_unpacked i) = length (i_hashes i) /\
  i_hoff i = hoff_of (length (i_hashes i)) (length (i_hashes i)) (length (i_hashes i)) /\
  i_boff i = boff_of (length (i_hashes i)) (length (i_hashes i)) /\
  length (i_buffer i) = 16%nat /\ 92 + 40 * N.of_nat (length (i_hashes i)) < 4294967296.

Definition info_len (i : info) : N := 92 + 40 * N.of_nat (length (i_hashes i)).

Theorem parse_ser_info i rest : wf_info i -> parse_info (ser_info i ++ rest) = ROk (i, info_len i).
Proof.
  intros (H1 & H2 & H3 & H4 & H5 & H6 & H7 & H8 & H9 & H10 & H11 & H12).
  unfold parse_info, ser_info. rewrite <- !app_assoc.
  rewrite rd_app by reflexivity. rewrite bytes_eqb_refl. cbn [negb].
  rewrite rd_app by reflexivity. change (le_val [CAS_OBJECT_FORMAT_VERSION]) with 1. cbn [N.eqb].
  change (1 =? CAS_OBJECT_FORMAT_VERSION_V0) with false. change (1 =? CAS_OBJECT_FORMAT_VERSION) with true. cbn [negb].
  rewrite rd_app by assumption.
  rewrite rd_app by reflexivity. rewrite bytes_eqb_refl. cbn [negb].
  rewrite rd_app by reflexivity. change (le_val [CAS_OBJECT_FORMAT_HASHES_VERSION] =? CAS_OBJECT_FORMAT_HASHES_VERSION) with true. cbn [negb].
  assert (Hn : is_u32 (i_num_chunks i)) by (unfold is_u32; lia).
  rewrite rd_u32_app by assumption. rewrite H6. rewrite rd_vec_hashes by assumption.
  rewrite rd_app by reflexivity. rewrite bytes_eqb_refl. cbn [negb].
  rewrite rd_app by reflexivity. rewrite H5. change (le_val [CAS_OBJECT_FORMAT_BOUNDARIES_VERSION] =? CAS_OBJECT_FORMAT_BOUNDARIES_VERSION) with true. cbn [negb].
  rewrite <- H6. rewrite rd_u32_app by assumption. rewrite N.eqb_refl. cbn [negb].
  rewrite H6. rewrite <- H7 at 1. rewrite rd_vec_u32s by assumption.
  rewrite <- H8 at 1. rewrite rd_vec_u32s by assumption.
  rewrite <- H6. rewrite rd_u32_app by assumption. rewrite N.eqb_refl. cbn [negb].
  assert (Hho : is_u32 (i_hoff i)) by (rewrite H9; unfold is_u32, hoff_of, boff_of; lia).
  assert (Hbo : is_u32 (i_boff i)) by (rewrite H10; unfold is_u32, boff_of; lia).
  rewrite rd_u32_app by assumption. rewrite rd_u32_app by assumption.
  rewrite rd_app by assumption.
  rewrite H9, H10, H6. unfold hoff_of, boff_of, info_len.
  set (n := N.of_nat (length (i_hashes i))) in *.
  replace (40 + 8 + 4 + 32 * n + 8 + 4 + 8 * n + 12 + 16 - 40 =? 7 + 1 + 4 + 32 * n + (7 + 1 + 4 + 4 * n + 4 * n + 4 + 4 + 4 + 16)) with true by lia.
  replace (8 + 4 + 8 * n + 12 + 16 =? 7 + 1 + 4 + 4 * n + 4 * n + 4 + 4 + 4 + 16) with true by lia.
  cbn [negb]. change (le_val [CAS_OBJECT_FORMAT_BOUNDARIES_VERSION]) with CAS_OBJECT_FORMAT_BOUNDARIES_VERSION.
  f_equal. f_equal; [|lia]. destruct i; cbn in *; subst; reflexivity.
Qed.

Lemma ser_info_length i : wf_info i -> N.of_nat (length (ser_info i)) = info_len i.
Proof.
  intros (H1 & H2 & H3 & H4 & H5 & H6 & H7 & H8 & H9 & H10 & H11 & H12). unfold ser_info, info_len.
  rewrite !app_length, !flat_map_u32_length, concat_hashes_length by assumption. rewrite H1, H7, H8, H11.
  unfold u32, CAS_OBJECT_FORMAT_IDENT, CAS_OBJECT_FORMAT_IDENT_HASHES, CAS_OBJECT_FORMAT_IDENT_BOUNDARIES. cbn [length le_bytes]. unfold hash in *. lia.
Qed.

(* CasObject::deserialize on  body ++ footer ++ info_length *)
Theorem xorb_deserialize_spec body i : wf_info i ->
  xorb_deserialize (body ++ ser_info i ++ u32 (N.of_nat (length (ser_info i)))) = ROk (i, info_len i).
Proof.
  intros Hw. pose proof (ser_info_length i Hw) as HL. destruct Hw as (H1 & H2 & H3 & H4 & H5 & H6 & H7 & H8 & H9 & H10 & H11 & H12).
  assert (Hw : wf_info i) by (repeat split; assumption).
  unfold xorb_deserialize. set (fb := ser_info i) in *. rewrite !app_length.
  assert (L4 : length (u32 (N.of_nat (length fb))) = 4%nat) by reflexivity. rewrite L4.
  replace (Nat.ltb (length body + (length fb + 4)) 4) with false by (symmetry; apply Nat.ltb_ge; lia).
  assert (Hsk : skipn (length body + (length fb + 4) - 4) (body ++ fb ++ u32 (N.of_nat (length fb))) = u32 (N.of_nat (length fb))).
  { rewrite app_assoc. rewrite skipn_app. rewrite skipn_all2 by (rewrite app_length; lia).
    rewrite app_length. replace (length body + (length fb + 4) - 4 - (length body + length fb))%nat with 0%nat by lia. reflexivity. }
  rewrite Hsk. unfold info_len in *.
  assert (Hu : le_val (u32 (N.of_nat (length fb))) = N.of_nat (length fb)).
  { unfold u32. cbn [le_bytes]. apply le_val_u32. lia. }
  rewrite Hu.
  replace (N.of_nat (length body + (length fb + 4)) <? 4 + N.of_nat (length fb)) with false by lia.
  replace (length body + (length fb + 4) - 4 - N.to_nat (N.of_nat (length fb)))%nat with (length body) by lia.
  rewrite skipn_app, skipn_all, Nat.sub_diag. cbn [skipn app].
  unfold fb. rewrite parse_ser_info by assumption. unfold info_len. fold fb.
  replace (92 + 40 * N.of_nat (length (i_hashes i)) =? N.of_nat (length fb)) with true by lia. f_equal. f_equal. lia.
Qed.
