(* C15, composed over a whole session: every xorb handed to the store -- cut in mid-file by a deduper, cut by the session when
   the aggregated data would pass a limit, or cut at finalize -- is non-empty and holds at most MAX_XORB_CHUNKS chunks and at
   most MAX_XORB_BYTES bytes, for every sequence of files (each fed in any split into blocks, against any table) and every
   order of completion. *)
From Coq Require Import ZArith NArith Bool List Lia ZifyBool ZifyN ZifyNat.
Import ListNotations.
From XetModel Require Import Base.Codec Gen.ShardLayout Gen.DedupFacts Model.Merkle Model.Shard Model.Dedup Proofs.PipelineProofs Proofs.ResolveProofs.
Open Scope N_scope.

Arguments N.add : simpl never.
Arguments N.ltb : simpl never.
Arguments N.leb : simpl never.
Arguments N.eqb : simpl never.
Arguments N.of_nat : simpl never.

(* a file fed block by block *)
Lemma feed_blocks_limits bbd cf ext : cfg_ok cf -> forall blocks f, (forall b c, In b blocks -> In c b -> chunk_fits cf c) -> fd_ok cf f ->
  fd_ok cf (feed_blocks bbd cf ext f blocks).
Proof.
  intro Hc. induction blocks as [|b r IH]; intros f Hb Hf; [exact Hf|]. cbn [feed_blocks fold_left].
  apply IH; [intros b' c Hb' Hc'; apply (Hb b' c); [right; exact Hb' | exact Hc']|].
  unfold process_block. apply process_chunks_limits; [exact Hc | | exact Hf].
  apply Forall_forall. intros c Hin. apply (Hb b c); [left; reflexivity | exact Hin].
Qed.

(* what a finished file hands to the session: its pending data within both limits, its mid-file xorbs within both limits *)
Lemma fd_finalize_limits cf f salt sha : fd_ok cf f -> agg_ok cf (snd (fst (fst (fd_finalize f salt sha)))) /\ Forall (xorb_ok cf) (f_registered f).
Proof. intros [[A B] C]. unfold fd_finalize, agg_ok, a_bytes. cbn [fst snd a_chunks]. auto. Qed.

(* the session *)
Definition op_lim (cf : dcfg) (o : sop) : Prop :=
  match o with OpMid xs => Forall (xorb_ok cf) xs | OpFile a _ _ => agg_ok cf a /\ Forall (fun c => 1 <= snd c) (a_chunks a) end.
Definition SLim (cf : dcfg) (s : session) : Prop :=
  agg_ok cf (s_cur s) /\ Forall (fun c => 1 <= snd c) (a_chunks (s_cur s)) /\ Forall (xorb_ok cf) (s_uploaded s).

Lemma sum_lens_pos : forall l, Forall (fun c : chunk => 1 <= snd c) l -> sum_lens l <> 0 -> (1 <= length l)%nat.
Proof. intros [|c l] _ H; [exfalso; apply H; reflexivity | cbn [length]; lia]. Qed.

Lemma raw_xorb_ok cf (chs : list chunk) : sum_lens chs <= c_max_xorb_bytes cf -> N.of_nat (length chs) <= c_max_xorb_chunks cf ->
  Forall (fun c => 1 <= snd c) chs -> ci_nbytes (raw_xorb chs) <> 0 -> xorb_ok cf (raw_xorb chs).
Proof.
  intros A B C D. unfold xorb_ok, raw_xorb in *. cbn [ci_chunks ci_nbytes] in *. rewrite cas_entries_length.
  pose proof (sum_lens_pos chs C D). repeat split; lia.
Qed.

Lemma process_agg_lim rc cf s a : Forall (xorb_ok cf) (s_uploaded s) -> agg_ok cf a -> Forall (fun c => 1 <= snd c) (a_chunks a) ->
  Forall (xorb_ok cf) (s_uploaded (process_agg rc s a)) /\ s_cur (process_agg rc s a) = s_cur s.
Proof.
  intros Hu [A B] C. unfold a_bytes in A. unfold process_agg, agg_finalize. cbv zeta iota beta. cbn [s_uploaded s_cur]. split; [|reflexivity].
  destruct (ci_nbytes (raw_xorb (a_chunks a)) =? 0) eqn:E; cbn [negb]; [exact Hu|]. constructor; [|exact Hu].
  apply raw_xorb_ok; [exact A | exact B | exact C | lia].
Qed.

Lemma agg_merge_chunks a b : a_chunks (agg_merge a b) = a_chunks a ++ a_chunks b.
Proof. reflexivity. Qed.

Lemma sstep_lim rc cf s o : SLim cf s -> op_lim cf o -> SLim cf (sstep rc cf s o).
Proof.
  intros (A & B & C) Ho. destruct o as [xs|a m g]; cbn [sstep op_lim] in *.
  - unfold register_mid_xorbs, SLim. cbn [s_cur s_uploaded]. split; [exact A|]. split; [exact B|]. apply Forall_app. split; [apply Forall_rev; exact Ho | exact C].
  - destruct Ho as [Ha Hp]. unfold register_completion. cbv zeta.
    destruct ((c_max_xorb_bytes cf <? a_bytes (s_cur s) + a_bytes a) || (c_max_xorb_chunks cf <? N.of_nat (length (a_chunks (s_cur s))) + N.of_nat (length (a_chunks a)))) eqn:E.
    + destruct (a_bytes a <? a_bytes (s_cur s)).
      * destruct (process_agg_lim rc cf (mkS a (s_uploaded s) (s_shard_cas s) (s_shard_files s) (s_metrics s)) (s_cur s) C A B) as [P1 P2].
        unfold SLim. cbn [s_cur s_uploaded] in *. rewrite P2. split; [exact Ha|]. split; [exact Hp | exact P1].
      * destruct (process_agg_lim rc cf (mkS (s_cur s) (s_uploaded s) (s_shard_cas s) (s_shard_files s) (s_metrics s)) a C Ha Hp) as [P1 P2].
        unfold SLim. cbn [s_cur s_uploaded] in *. rewrite P2. split; [exact A|]. split; [exact B | exact P1].
    + unfold SLim. cbn [s_cur s_uploaded]. apply orb_false_iff in E as [E1 E2]. destruct A as [A1 A2]. destruct Ha as [H1 H2].
      split; [|split; [rewrite agg_merge_chunks; apply Forall_app; split; assumption | exact C]].
      unfold agg_ok, a_bytes in *. rewrite agg_merge_chunks, sum_lens_app, app_length. split; lia.
Qed.

Theorem session_uploads_within_limits rc cf ops : Forall (op_lim cf) ops -> Forall (xorb_ok cf) (s_uploaded (srun rc cf ops)).
Proof.
  intro H. unfold srun, session_finalize.
  assert (G : forall s, SLim cf s -> SLim cf (fold_left (sstep rc cf) ops s)).
  { induction H as [|o r Ho Hr IH]; intros s Hs; [exact Hs|]. cbn [fold_left]. apply IH. apply sstep_lim; assumption. }
  destruct (G session0) as (A & B & C).
  { split; [split; cbn; lia|]. split; constructor. }
  set (sf := fold_left (sstep rc cf) ops session0) in *.
  destruct (process_agg_lim rc cf (mkS agg0 (s_uploaded sf) (s_shard_cas sf) (s_shard_files sf) (s_metrics sf)) (s_cur sf) C A B) as [P1 _]. exact P1.
Qed.

(* the operations of a session made of files fed through the deduper satisfy op_lim: a file's completion (its pending data) and
   its mid-file xorbs *)
Theorem file_ops_within_limits bbd cf ext blocks salt sha m g : cfg_ok cf -> (forall b c, In b blocks -> In c b -> chunk_fits cf c) ->
  let f := feed_blocks bbd cf ext fd0 blocks in
  op_lim cf (OpMid (rev (f_registered f))) /\ (Forall (fun c => 1 <= snd c) (f_new f) -> op_lim cf (OpFile (snd (fst (fst (fd_finalize f salt sha)))) m g)).
Proof.
  intros Hc Hb f. pose proof (feed_blocks_limits bbd cf ext Hc blocks fd0 Hb (fd0_ok cf)) as Hf. fold f in Hf.
  destruct (fd_finalize_limits cf f salt sha Hf) as [A B]. split; [cbn [op_lim]; apply Forall_rev; exact B|]. intro Hp. cbn [op_lim]. split; [exact A|].
  unfold fd_finalize. cbn [fst snd a_chunks]. exact Hp.
Qed.

(* non-vacuity: the session of ResolveProofs' example *)
Example limits_example : Forall (op_lim ex_cfg2) ex_ops /\ Forall (xorb_ok ex_cfg2) (s_uploaded (srun true ex_cfg2 ex_ops)) /\ length (s_uploaded (srun true ex_cfg2 ex_ops)) = 1%nat.
Proof.
  assert (H : Forall (op_lim ex_cfg2) ex_ops).
  { constructor; [|constructor]. cbn [op_lim]. split; [split; vm_compute; discriminate|]. vm_compute. repeat constructor; discriminate. }
  split; [exact H|]. split; [apply session_uploads_within_limits; exact H | vm_compute; reflexivity].
Qed.
