(* C03, the salt half: the pointer's hash of a non-empty file is the keyed hash, under the salt, of the salt-free Merkle root
   of its chunks.  Two salts give the same pointer hash for the same non-empty chunk list only if the keyed hash collides
   on that root under the two keys; the empty file is the boundary: its hash is the zero hash under every salt. *)
From Coq Require Import NArith Bool List.
Import ListNotations.
From XetModel Require Import Gen.HashConsts Model.Blake3 Model.Merkle.
Open Scope N_scope.

Theorem salted_hash_shape chunks salt : chunks <> [] ->
  file_node_hash chunks salt = option_map (fun r => keyed_hash salt r) (cas_node_hash compute_internal_node_hash chunks).
Proof. intro H. unfold file_node_hash, with_salt. destruct chunks as [|c r]; [contradiction|]. destruct (cas_node_hash _ _); reflexivity. Qed.

Theorem same_hash_under_two_salts_is_a_collision chunks s1 s2 h : chunks <> [] ->
  file_node_hash chunks s1 = Some h -> file_node_hash chunks s2 = Some h ->
  exists root, cas_node_hash compute_internal_node_hash chunks = Some root /\ keyed_hash s1 root = h /\ keyed_hash s2 root = h.
Proof.
  intros Hn H1 H2. rewrite salted_hash_shape in H1, H2 by exact Hn. destruct (cas_node_hash _ _) as [r|]; [|discriminate].
  cbn [option_map] in H1, H2. exists r. split; [reflexivity|]. split; congruence.
Qed.

Theorem empty_file_hash_ignores_the_salt s1 s2 : file_node_hash [] s1 = file_node_hash [] s2.
Proof. reflexivity. Qed.

(* with the real BLAKE3: a one-chunk file under two salts *)
Definition salt_a : hash := repeat 1 32%nat.
Definition salt_b : hash := repeat 2 32%nat.
Definition one_chunk : list node := [(compute_data_hash [104; 105], 2)].
Example two_salts_two_hashes : file_node_hash one_chunk salt_a <> file_node_hash one_chunk salt_b /\ file_node_hash one_chunk salt_a <> None.
Proof. vm_compute. split; discriminate. Qed.
