(* Chunk cache (Model/Cache.v), C13: no orphan files.  In every reachable configuration every cache file on disk is
   tracked, or was just written by a put that has not committed yet, or is queued for deletion by a put that has
   committed, or is about to be unlinked by a thread that dropped its entry.  At a quiescent point (no call in progress)
   every cache file therefore belongs to a tracked entry. *)
From Coq Require Import ZArith NArith Bool List Lia.
Import ListNotations.
From XetModel Require Import Base.Codec Gen.CacheFacts Model.Merkle Model.Cache Proofs.CacheProofs Proofs.CacheHitProofs Proofs.CacheInvProofs.
Open Scope N_scope.

Definition Owned (s : cstate) (pcs : list pc) (p : path) : Prop :=
  (exists k it v, p = item_path k it /\ InTr (tracked s) k (it, v)) \/
  (exists o nw, In (PHookFW o nw) pcs /\ p = item_path (op_key o) nw) \/
  (exists h dl, In (PUnl h dl) pcs /\ In p dl) \/
  (exists o it, In (PRemHook o it) pcs /\ p = item_path (op_key o) it).

Definition NoOrphan (c : conf) : Prop := forall p content, fs_read (fs (fst c)) p = Some content -> Owned (fst c) (snd c) p.

(* ---------------------------------------------------------------- list facts *)
Lemma In_set_nth {A} (l : list A) : forall i x q, In q (set_nth l i x) -> q = x \/ In q l.
Proof.
  induction l as [|y r IH]; intros i x q H; cbn [set_nth] in H; [contradiction|]. destruct i.
  - destruct H as [<-|H]; [left; reflexivity | right; right; exact H].
  - destruct H as [<-|H]; [right; left; reflexivity|]. destruct (IH _ _ _ H) as [E|E]; [left; exact E | right; right; exact E].
Qed.
Lemma In_set_nth_new {A} (l : list A) : forall i x y, nth_error l i = Some y -> In x (set_nth l i x).
Proof. induction l as [|z r IH]; intros [|i] x y H; cbn in H; try discriminate; cbn [set_nth]; [left; reflexivity | right; eapply IH; eauto]. Qed.
Lemma In_set_nth_keep {A} (l : list A) : forall i x y q, nth_error l i = Some y -> In q l -> q = y \/ In q (set_nth l i x).
Proof.
  induction l as [|z r IH]; intros [|i] x y q H Hq; cbn in H; try discriminate; cbn [set_nth].
  - injection H as ->. destruct Hq as [<-|Hq]; [left; reflexivity | right; right; exact Hq].
  - destruct Hq as [<-|Hq]; [right; left; reflexivity|]. destruct (IH _ x _ _ H Hq) as [E|E]; [left; exact E | right; right; exact E].
Qed.

Lemma swap_remove_keeps {A} (l : list A) i y x : nth_error l i = Some y -> In x l -> x = y \/ In x (swap_remove l i).
Proof.
  intros Hn Hx. unfold swap_remove. destruct (rev l) as [|x0 r] eqn:E.
  - apply (f_equal (@rev _)) in E. rewrite rev_involutive in E. subst l. destruct i; discriminate.
  - assert (Hl : l = rev r ++ [x0]) by (apply (f_equal (@rev _)) in E; rewrite rev_involutive in E; exact E).
    set (init := rev r) in *. subst l. destruct (Nat.eqb i (length init)) eqn:Ei.
    + apply Nat.eqb_eq in Ei. subst i. rewrite nth_error_app2 in Hn by lia. rewrite Nat.sub_diag in Hn. injection Hn as <-.
      apply in_app_or in Hx as [Hx|[Hx|[]]]; [right; exact Hx | left; symmetry; exact Hx].
    + apply Nat.eqb_neq in Ei. assert (Hi : (i < length init)%nat).
      { assert (i < length (init ++ [x0]))%nat by (apply nth_error_Some; congruence). rewrite app_length in *. cbn [length] in *. lia. }
      rewrite nth_error_app1 in Hn by exact Hi. pose proof (nth_error_split _ _ _ Hn) as Hs.
      apply in_app_or in Hx as [Hx|[Hx|[]]].
      * rewrite Hs in Hx. apply in_app_or in Hx as [Hx|[Hx|Hx]].
        -- right. apply in_or_app. left. exact Hx.
        -- left. symmetry. exact Hx.
        -- right. apply in_or_app. right. right. exact Hx.
      * right. apply in_or_app. right. left. exact Hx.
Qed.

Lemma remove_rev_keeps idx : forall (its l rm : list titem) x, remove_rev its idx = (l, rm) -> In x its -> In x l \/ In x rm.
Proof.
  induction idx as [|i r IH]; intros its l rm x H Hx; cbn [remove_rev] in H.
  - injection H as <- <-. left. exact Hx.
  - destruct (nth_error its i) as [y|] eqn:E.
    + destruct (remove_rev (swap_remove its i) r) as [l1 rm1] eqn:E1. injection H as <- <-.
      destruct (swap_remove_keeps _ _ _ _ E Hx) as [->|Hx']; [right; left; reflexivity|].
      destruct (IH _ _ _ _ E1 Hx') as [A|A]; [left; exact A | right; right; exact A].
    + eapply IH; eauto.
Qed.

Lemma remove_first_keeps its it x : In x its -> fst x = it \/ In x (remove_first its it).
Proof.
  induction its as [|[y v] r IH]; intro H; [contradiction|]. cbn [remove_first]. destruct (item_eqb y it) eqn:E.
  - destruct H as [<-|H]; [left; apply item_eqb_eq; exact E | right; exact H].
  - destruct H as [<-|H]; [right; left; reflexivity|]. destruct (IH H) as [A|A]; [left; exact A | right; right; exact A].
Qed.

Lemma mark_verified_keeps its it x v : In (x, v) its -> exists v', In (x, v') (mark_verified its it).
Proof.
  induction its as [|[y w] r IH]; intro H; [contradiction|]. cbn [mark_verified]. destruct (item_eqb y it).
  - destruct H as [H|H]; [injection H as -> ->; exists true; left; reflexivity | exists v; right; exact H].
  - destruct H as [H|H]; [exists v; left; exact H|]. destruct (IH H) as [v' H']. exists v'. right. exact H'.
Qed.

(* membership in the tracked state after replacing one key's vector *)
Lemma InTr_set_items_other tr k its k' x : k' <> k -> InTr tr k' x -> InTr (set_items tr k its) k' x.
Proof.
  intros N (l & H1 & H2). induction tr as [|[q old] r IH]; [destruct H1|]. cbn [set_items]. destruct (bytes_eqb k q) eqn:E.
  - apply bytes_eqb_eq in E. subst q. destruct H1 as [H1|H1]; [injection H1 as -> _; contradiction|].
    destruct its; exists l; (split; [|exact H2]); [exact H1 | right; exact H1].
  - destruct H1 as [H1|H1].
    + exists l. split; [left; exact H1 | exact H2].
    + destruct (IH H1) as (l' & A & B). exists l'. split; [right; exact A | exact B].
Qed.
Lemma InTr_set_items_same tr k its x : In x its -> InTr (set_items tr k its) k x.
Proof.
  intro H. destruct its as [|y its']; [destruct H|]. induction tr as [|[q old] r IH]; cbn [set_items].
  - exists (y :: its'). split; [left; reflexivity | exact H].
  - destruct (bytes_eqb k q) eqn:E.
    + apply bytes_eqb_eq in E. subst q. exists (y :: its'). split; [left; reflexivity | exact H].
    + destruct IH as (l & A & B). exists l. split; [right; exact A | exact B].
Qed.
(* an entry of key k in any vector of the state is in the first vector of k or in a later duplicate; with the models'
   set_items the first vector is what is replaced: entries of later duplicates survive *)
Lemma InTr_set_items_keep tr k its x : InTr tr k x -> In x (items_of tr k) \/ InTr (set_items tr k its) k x.
Proof.
  intros (l & H1 & H2). induction tr as [|[q old] r IH]; [destruct H1|]. cbn [items_of set_items]. destruct (bytes_eqb k q) eqn:E.
  - apply bytes_eqb_eq in E. subst q. destruct H1 as [H1|H1]; [injection H1 as ->; left; exact H2|].
    right. destruct its; exists l; (split; [|exact H2]); [exact H1 | right; exact H1].
  - destruct H1 as [H1|H1]; [injection H1 as -> _; rewrite bytes_eqb_refl in E; discriminate|].
    destruct (IH H1) as [A|(l' & A & B)]; [left; exact A | right; exists l'; split; [right; exact A | exact B]].
Qed.

Lemma evict_keeps vs : forall tr n b tr' n' b' k x, evict tr n b vs = (tr', n', b') -> InTr tr k x -> InTr tr' k x \/ In (k, fst x) vs.
Proof.
  induction vs as [|[kv it] r IH]; intros tr n b tr' n' b' k x H Hx; cbn [evict] in H.
  - injection H as <- _ _. left. exact Hx.
  - assert (Hstep : InTr (set_items tr kv (remove_first (items_of tr kv) it)) k x \/ (k = kv /\ fst x = it)).
    { destruct (list_eq_dec N.eq_dec k kv) as [->|N]; [|left; apply InTr_set_items_other; assumption].
      destruct (InTr_set_items_keep tr kv (remove_first (items_of tr kv) it) x Hx) as [A|A]; [|left; exact A].
      destruct (remove_first_keeps _ it _ A) as [B|B]; [right; split; [reflexivity | exact B] | left; apply InTr_set_items_same; exact B]. }
    destruct Hstep as [A|[-> B]].
    + destruct (IH _ _ _ _ _ _ _ _ H A) as [C|C]; [left; exact C | right; right; exact C].
    + right. left. rewrite <- B. reflexivity.
Qed.

(* ---------------------------------------------------------------- one micro step *)
Lemma fs_read_unlink_some f p q c : fs_read (fs_unlink f p) q = Some c -> q <> p /\ fs_read f q = Some c.
Proof.
  rewrite fs_read_unlink. destruct (path_eqb p q) eqn:E; [discriminate|]. intro H. split; [|exact H].
  intro Heq. subst q. rewrite (proj2 (path_eqb_eq p p) eq_refl) in E. discriminate.
Qed.

Theorem mstep_no_orphan s pcs t p vs s' p' :
  NoOrphan (s, pcs) -> nth_error pcs t = Some p -> mstep s p vs = (s', p', true) -> NoOrphan (s', set_nth pcs t p').
Proof.
  intros HN Hn H q content Hq. unfold NoOrphan in HN. cbn [fst snd] in *.
  (* ownership through another thread's pc survives the update of thread t *)
  assert (Keep : forall x, In x pcs -> x = p \/ In x (set_nth pcs t p')) by (intros x Hx; eapply In_set_nth_keep; eauto).
  assert (New : In p' (set_nth pcs t p')) by (eapply In_set_nth_new; eauto).
  (* carry an ownership over when the tracked state and the files did not lose anything relevant *)
  assert (Carry : forall q0, Owned s pcs q0 ->
            (forall k it v, InTr (tracked s) k (it, v) -> q0 = item_path k it -> Owned s' (set_nth pcs t p') q0) ->
            (forall o nw, p = PHookFW o nw -> q0 = item_path (op_key o) nw -> Owned s' (set_nth pcs t p') q0) ->
            (forall h dl, p = PUnl h dl -> In q0 dl -> Owned s' (set_nth pcs t p') q0) ->
            (forall o it, p = PRemHook o it -> q0 = item_path (op_key o) it -> Owned s' (set_nth pcs t p') q0) ->
            Owned s' (set_nth pcs t p') q0).
  { intros q0 [(k & it & v & E & Hi)|[(o & nw & Hi & E)|[(h & dl & Hi & E)|(o & it & Hi & E)]]] C1 C2 C3 C4.
    - eapply C1; eauto.
    - destruct (Keep _ Hi) as [Ep|Hk]; [eapply C2; eauto | right; left; eauto].
    - destruct (Keep _ Hi) as [Ep|Hk]; [eapply C3; eauto | right; right; left; eauto].
    - destruct (Keep _ Hi) as [Ep|Hk]; [eapply C4; eauto | right; right; right; eauto]. }
  destruct p as [o|o it v|o it|o it|o|o nw|h dl|r]; cbn [mstep] in H.
  - (* PFind: nothing changes *)
    destruct (op_range o) as [rs re]. destruct (find_match (tracked s) (op_key o) rs re) as [[it v]|]; injection H as <- <-;
      (apply (Carry q (HN q content Hq)); [intros; left; eauto | intros; discriminate | intros; discriminate | intros; discriminate]).
  - (* PFound *)
    destruct o as [k rs re offs data|k rs re].
    + injection H as <- <-. apply (Carry q (HN q content Hq)); [intros; left; eauto | intros; discriminate | intros; discriminate | intros; discriminate].
    + destruct (fs_read (fs s) (item_path (op_key (OGet k rs re)) it)) as [c|];
        [|injection H as <- <-; apply (Carry q (HN q content Hq)); [intros; left; eauto | intros; discriminate | intros; discriminate | intros; discriminate]].
      destruct (negb v && negb (crc32 c =? i_crc it));
        [injection H as <- <-; apply (Carry q (HN q content Hq)); [intros; left; eauto | intros; discriminate | intros; discriminate | intros; discriminate]|].
      assert (Hfs : fs (if v then s else cupd s (set_items (tracked s) k (mark_verified (items_of (tracked s) k) it)) (nitems s) (tbytes s) (fs s)) = fs s) by (destruct v; reflexivity).
      assert (Htr : forall k0 it0 v0, InTr (tracked s) k0 (it0, v0) ->
                exists v1, InTr (tracked (if v then s else cupd s (set_items (tracked s) k (mark_verified (items_of (tracked s) k) it)) (nitems s) (tbytes s) (fs s))) k0 (it0, v1)).
      { intros k0 it0 v0 Hi. destruct v; [exists v0; exact Hi|]. cbn [cupd tracked].
        destruct (list_eq_dec N.eq_dec k0 k) as [->|N]; [|exists v0; apply InTr_set_items_other; assumption].
        destruct (InTr_set_items_keep (tracked s) k (mark_verified (items_of (tracked s) k) it) _ Hi) as [A|A]; [|exists v0; exact A].
        destruct (mark_verified_keeps _ it _ _ A) as [v1 B]. exists v1. apply InTr_set_items_same. exact B. }
      assert (Done : forall s1 p1, fs s1 = fs s -> (forall k0 it0 v0, InTr (tracked s) k0 (it0, v0) -> exists v1, InTr (tracked s1) k0 (it0, v1)) ->
                (s1, p1) = (s', p') -> Owned s' (set_nth pcs t p') q).
      { intros s1 p1 F T E. injection E as <- <-. rewrite F in Hq. apply (Carry q (HN q content Hq)); [|intros; discriminate|intros; discriminate|intros; discriminate].
        intros k0 it0 v0 Hi E0. destruct (T _ _ _ Hi) as [v1 Hv1]. left. eauto. }
      destruct (de_header c); injection H as H1 H2; (eapply Done; [exact Hfs | exact Htr | rewrite <- H1, <- H2; reflexivity]).
  - (* PRemState *)
    destruct (remove_state s (op_key o) it) as [s1|] eqn:E; injection H as <- <-.
    + unfold remove_state in E. destruct (has_key (tracked s) (op_key o)).
      * destruct (index_of (items_of (tracked s) (op_key o)) it) as [i|] eqn:Ei; [|discriminate]. injection E as <-. cbn [cupd fs tracked] in *.
        destruct (index_of_spec _ _ _ Ei) as [v0 Hv0].
        apply (Carry q (HN q content Hq)); [|intros; discriminate|intros; discriminate|intros; discriminate].
        intros k0 it0 v1 Hi E0. destruct (list_eq_dec N.eq_dec k0 (op_key o)) as [->|N]; [|left; exists k0, it0, v1; split; [exact E0 | apply InTr_set_items_other; assumption]].
        destruct (InTr_set_items_keep (tracked s) (op_key o) (swap_remove (items_of (tracked s) (op_key o)) i) _ Hi) as [A|A]; [|left; eauto].
        destruct (swap_remove_keeps _ _ _ _ Hv0 A) as [B|B].
        -- (* the dropped entry: its file is about to be unlinked by this thread *)
           injection B as -> _. right. right. right. exists o, it. split; [exact New | exact E0].
        -- left. exists (op_key o), it0, v1. split; [exact E0 | apply InTr_set_items_same; exact B].
      * injection E as <-. apply (Carry q (HN q content Hq)); [intros; left; eauto | intros; discriminate | intros; discriminate | intros; discriminate].
    + apply (Carry q (HN q content Hq)); [intros; left; eauto | intros; discriminate | intros; discriminate | intros; discriminate].
  - (* PRemHook: the unlink *)
    injection H as <- <-. cbn [cupd fs tracked] in *. destruct (fs_read_unlink_some _ _ _ _ Hq) as [Nq Hq'].
    apply (Carry q (HN q content Hq')); [intros; left; eauto | intros; discriminate | intros; discriminate|].
    intros o0 it0 E E0. injection E as -> ->. contradiction.
  - (* PHookFM: the file is written *)
    destruct o as [k rs re offs data|k rs re]; injection H as <- <-; cbn [cupd fs tracked] in *.
    + rewrite fs_read_install in Hq. match type of Hq with (if ?b then _ else _) = _ => destruct b eqn:E end.
      * apply path_eqb_eq in E. subst q. right. left. eexists. eexists. split; [exact New | reflexivity].
      * apply (Carry q (HN q content Hq)); [intros; left; eauto | intros; discriminate | intros; discriminate | intros; discriminate].
    + apply (Carry q (HN q content Hq)); [intros; left; eauto | intros; discriminate | intros; discriminate | intros; discriminate].
  - (* PHookFW: the commit *)
    destruct (commit s (op_key o) nw vs) as [[s1 dl] ok] eqn:E. injection H as <- <- ->.
    unfold commit, commit_with in E. set (k := op_key o) in *.
    destruct (remove_rev (items_of (tracked s) k) (rev (subsumed_idx (items_of (tracked s) k) nw 0))) as [its1 rm] eqn:Er.
    destruct (evict (set_items (tracked s) k its1) (nitems s - lenN rm) _ vs) as [[tr2 n2] b2] eqn:Ev.
    injection E as <- <- _. cbn [cupd fs tracked] in *.
    set (others := filter (fun ti => negb (item_eqb (fst ti) nw)) rm) in *.
    set (tr3 := set_items tr2 k (items_of tr2 k ++ [(nw, true)])).
    assert (HnwT : InTr tr3 k (nw, true)) by (apply InTr_set_items_same; apply in_or_app; right; left; reflexivity).
    assert (Keep2 : forall k0 x, InTr tr2 k0 x -> InTr tr3 k0 x).
    { intros k0 x Hi. destruct (list_eq_dec N.eq_dec k0 k) as [->|N]; [|apply InTr_set_items_other; assumption].
      destruct (InTr_set_items_keep tr2 k (items_of tr2 k ++ [(nw, true)]) x Hi) as [A|A]; [|exact A].
      apply InTr_set_items_same. apply in_or_app. left. exact A. }
    apply (Carry q (HN q content Hq)); [| |intros; discriminate|intros; discriminate].
    + intros k0 it0 v0 Hi E0.
      (* tracked before: still in the first-stage state, or subsumed *)
      assert (S1 : InTr (set_items (tracked s) k its1) k0 (it0, v0) \/ (k0 = k /\ In (it0, v0) rm)).
      { destruct (list_eq_dec N.eq_dec k0 k) as [->|N]; [|left; apply InTr_set_items_other; assumption].
        destruct (InTr_set_items_keep (tracked s) k its1 _ Hi) as [A|A]; [|left; exact A].
        destruct (remove_rev_keeps _ _ _ _ _ Er A) as [B|B]; [left; apply InTr_set_items_same; exact B | right; split; [reflexivity | exact B]]. }
      destruct S1 as [A|[-> B]].
      * destruct (evict_keeps _ _ _ _ _ _ _ _ _ Ev A) as [C|C].
        -- left. exists k0, it0, v0. split; [exact E0 | apply Keep2; exact C].
        -- (* evicted: its path is queued *)
           right. right. left. exists true. eexists. split; [exact New|]. apply in_or_app. right.
           apply in_map_iff. exists (k0, it0). split; [symmetry; exact E0 | exact C].
      * destruct (item_eqb it0 nw) eqn:Eq.
        -- apply item_eqb_eq in Eq. subst it0. left. exists k, nw, true. split; [exact E0 | exact HnwT].
        -- right. right. left. exists true. eexists. split; [exact New|]. apply in_or_app. left.
           apply in_map_iff. exists (it0, v0). split; [symmetry; exact E0|]. apply filter_In. split; [exact B | cbn [fst]; rewrite Eq; reflexivity].
    + intros o0 nw0 E E0. injection E as <- <-. left. exists k, nw, true. split; [exact E0 | exact HnwT].
  - (* PUnl *)
    destruct dl as [|q0 dl']; injection H as <- <-.
    + apply (Carry q (HN q content Hq)); [intros; left; eauto | intros; discriminate | intros x y E; injection E as _ <-; intros [] | intros; discriminate].
    + cbn [cupd fs tracked] in *. destruct (fs_read_unlink_some _ _ _ _ Hq) as [Nq Hq'].
      apply (Carry q (HN q content Hq')); [intros; left; eauto | intros; discriminate | | intros; discriminate].
      intros h0 dl0 E Hin. injection E as _ <-. destruct Hin as [->|Hin]; [contradiction|].
      right. right. left. exists false, dl'. split; [exact New | exact Hin].
  - injection H as <- <-. apply (Carry q (HN q content Hq)); [intros; left; eauto | intros; discriminate | intros; discriminate | intros; discriminate].
Qed.

(* starting a new call on an idle thread changes neither the files nor the tracked state *)
Lemma start_no_orphan s pcs t o r : NoOrphan (s, pcs) -> nth_error pcs t = Some (PDone r) -> NoOrphan (s, set_nth pcs t (start_op o)).
Proof.
  intros HN Hn q content Hq. cbn [fst snd] in *. destruct (HN q content Hq) as [A|[(o0 & nw & Hi & E)|[(h & dl & Hi & E)|(o0 & it & Hi & E)]]].
  - left. exact A.
  - destruct (In_set_nth_keep _ _ (start_op o) _ _ Hn Hi) as [D|D]; [discriminate | right; left; eauto].
  - destruct (In_set_nth_keep _ _ (start_op o) _ _ Hn Hi) as [D|D]; [discriminate | right; right; left; eauto].
  - destruct (In_set_nth_keep _ _ (start_op o) _ _ Hn Hi) as [D|D]; [discriminate | right; right; right; eauto].
Qed.

Theorem crun_no_orphan es : forall c c', NoOrphan c -> crun c es = Some c' -> NoOrphan c'.
Proof.
  induction es as [|e r IH]; intros c c' HN H; cbn [crun] in H; [injection H as <-; exact HN|].
  destruct (cstep c e) as [c1|] eqn:E; [|discriminate]. eapply IH; [|exact H].
  destruct c as [s pcs]. destruct e as [t vs|t o]; cbn [cstep fst snd] in E.
  - destruct (nth_error pcs t) as [p|] eqn:En; [|discriminate]. destruct (mstep s p vs) as [[s1 p1] ok] eqn:M. destruct ok; [|discriminate].
    injection E as <-. eapply mstep_no_orphan; eauto.
  - destruct (nth_error pcs t) as [[| | | | | | |res]|] eqn:En; try discriminate. injection E as <-. eapply start_no_orphan; eauto.
Qed.

(* at a quiescent point every file on disk belongs to a tracked entry *)
Theorem quiescent_all_tracked c : NoOrphan c -> Forall (fun p => exists r, p = PDone r) (snd c) ->
  forall p content, fs_read (fs (fst c)) p = Some content -> exists k it v, p = item_path k it /\ InTr (tracked (fst c)) k (it, v).
Proof.
  intros HN Hq p content Hp. rewrite Forall_forall in Hq.
  destruct (HN p content Hp) as [A|[(o & nw & Hi & _)|[(h & dl & Hi & _)|(o & it & Hi & _)]]]; [exact A| | |];
    destruct (Hq _ Hi) as [r E]; discriminate.
Qed.

Lemma NoOrphan_empty capacity n : NoOrphan ({| tracked := []; nitems := 0; tbytes := 0; fs := []; cap := capacity |}, repeat (PDone COk) n).
Proof. intros p c H. discriminate H. Qed.
