(* C02: the byte count recorded in every segment of a file record is (modulo 2^32, the field is a u32) the summed length of
   the chunks the segment resolves to.  A second invariant carried next to the resolution invariant of ResolveProofs. *)
From Coq Require Import ZArith NArith Bool List Lia ZifyBool ZifyN ZifyNat.
Import ListNotations.
From XetModel Require Import Base.Codec Gen.ShardLayout Gen.DedupFacts Model.Merkle Model.Shard Model.Dedup Proofs.PipelineProofs Proofs.ResolveProofs Proofs.BytesProofs.
Open Scope N_scope.

Arguments N.add : simpl never.
Arguments N.sub : simpl never.
Arguments N.ltb : simpl never.
Arguments N.leb : simpl never.
Arguments N.eqb : simpl never.
Arguments N.to_nat : simpl never.
Arguments N.of_nat : simpl never.
Ltac Zify.zify_post_hook ::= Z.div_mod_to_equations.

Definition beq (a b : N) : Prop := a mod 4294967296 = b mod 4294967296.
Lemma beq_refl a : beq a a. Proof. reflexivity. Qed.
Lemma u32wrap_mod x : u32wrap x = x mod 4294967296.
Proof. unfold u32wrap. change 4294967295 with (N.ones 32). apply N.land_ones. Qed.
Lemma beq_wrap_add a b x y : beq a x -> beq b y -> beq (u32wrap (a + b)) (x + y).
Proof. unfold beq. rewrite u32wrap_mod. intros H1 H2. rewrite N.mod_mod by lia. rewrite (N.add_mod a b), (N.add_mod x y) by lia. rewrite H1, H2. reflexivity. Qed.

Section SegBytes.
  Variables (F : store) (U : list chunk).
  Hypothesis HS : StoreOk F U.

  Definition SegB (V : store) (s : seg) : Prop := exists cs, resolve_seg V s = Some cs /\ beq (sg_bytes s) (sum_lens cs).
  Definition BInv (f : fd) : Prop := Forall (SegB (pend (f_new f) :: F)) (f_info f).

  Lemma resolve_seg_grow l c s a : resolve_seg (pend l :: F) s = Some a -> resolve_seg (pend (l ++ [c]) :: F) s = Some a.
  Proof.
    intro Ea. destruct (list_eq_dec N.eq_dec (sg_cas s) zero_hash) as [Hz|Hz].
    - destruct (resolve_zero_inv _ _ _ _ Hz Ea) as (A & B & ->). rewrite resolve_zero; [ | exact Hz | exact A | rewrite app_length; cbn [length]; lia].
      f_equal. apply slice_app_l. exact B.
    - rewrite resolve_nonzero in * by exact Hz. exact Ea.
  Qed.
  Lemma SegB_grow l c s : SegB (pend l :: F) s -> SegB (pend (l ++ [c]) :: F) s.
  Proof. intros (cs & A & B). exists cs. split; [apply resolve_seg_grow; exact A | exact B]. Qed.

  Lemma Forall_snoc {A} (P : A -> Prop) l x : Forall P (l ++ [x]) <-> Forall P l /\ P x.
  Proof. rewrite Forall_app. split; intros [H1 H2]; split; auto. inversion H2; assumption. Qed.

  (* add_new_chunk after the optional cut *)
  Lemma push_binv cf f fed c : FInv F U f fed -> BInv f -> BInv (push_chunk cf f c).
  Proof.
    intros HI HB. unfold BInv, push_chunk in *. set (nlen := N.of_nat (length (f_new f))).
    destruct (match last_seg (f_info f) with Some l => bytes_eqb (sg_cas l) zero_hash && (sg_end l =? nlen) | None => false end) eqn:Ext; cbn [f_new f_info].
    - destruct (last_seg (f_info f)) as [l0|] eqn:El; [|discriminate]. apply andb_true_iff in Ext as [Hz He].
      apply bytes_eqb_true in Hz. apply N.eqb_eq in He. destruct (last_seg_split _ _ El) as [pre Ep]. rewrite Ep in *. rewrite upd_last_snoc.
      apply Forall_snoc in HB as [HBp (b & Rb & Bb)]. apply Forall_snoc. split.
      + eapply Forall_impl; [|exact HBp]. intros s Hs. apply SegB_grow. exact Hs.
      + destruct (resolve_zero_inv _ _ _ _ Hz Rb) as (S1 & S2 & ->). exists (slice (f_new f) (sg_start l0) (sg_end l0) ++ [c]). split.
        * rewrite resolve_zero; cbn [sg_cas sg_start sg_end]; [ | exact Hz | lia | rewrite app_length; cbn [length]; lia].
          rewrite He. unfold nlen. rewrite slice_snoc by lia. reflexivity.
        * cbn [sg_bytes]. rewrite sum_lens_app. apply beq_wrap_add; [exact Bb|]. cbn [sum_lens fold_right]. replace (snd c + 0) with (snd c) by lia. apply beq_refl.
    - apply Forall_snoc. split.
      + eapply Forall_impl; [|exact HB]. intros s Hs. apply SegB_grow. exact Hs.
      + exists [c]. split.
        * rewrite resolve_zero; cbn [sg_cas sg_start sg_end]; [ | reflexivity | lia | rewrite app_length; cbn [length]; unfold nlen; lia].
          f_equal. apply slice_nth. unfold nlen. rewrite nth_error_app2 by lia.
          replace (N.to_nat (N.of_nat (length (f_new f))) - length (f_new f))%nat with O by lia. reflexivity.
        * cbn [sg_bytes sum_lens fold_right]. replace (snd c + 0) with (snd c) by lia. apply beq_refl.
  Qed.

  (* cutting a xorb: hashes change, byte counts and resolved chunks stay *)
  Lemma cut_binv f fed : FInv F U f fed -> BInv f -> In (raw_xorb (f_new f)) F -> BInv (cut_xorb f).
  Proof.
    intros HI HB Hx. destruct HS as [Anc Anz Ak Acl Apos]. unfold BInv in *. cbn [cut_xorb f_new f_info].
    destruct (st_find_member F Anc _ Hx) as (y & Hy & Hc). rewrite chunks_of_raw in Hc.
    assert (Hnz : f_new f <> [] -> exists y, st_find F (ci_hash (raw_xorb (f_new f))) = Some y /\ chunks_of y = f_new f /\ ci_hash (raw_xorb (f_new f)) <> zero_hash).
    { intro Hn. exists y. repeat split; [exact Hy | exact Hc |]. apply Anz; [exact Hx | rewrite chunks_of_raw; exact Hn]. }
    destruct HI as [_ Hirf _ _ Hnem _].
    (* segment by segment, through the one-element instance of patch_resolve *)
    assert (G : forall l idx, (forall i s, nth_error l i = Some s -> (sg_cas s = zero_hash <-> In (idx + N.of_nat i) (f_iref f))) ->
                (forall s, In s l -> sg_start s < sg_end s) -> Forall (SegB (pend (f_new f) :: F)) l ->
                Forall (SegB (pend [] :: F)) (patch_segs l idx (f_iref f) (ci_hash (raw_xorb (f_new f))))).
    { induction l as [|s t IH]; intros idx Hi Hne HF; cbn [patch_segs]; [constructor|]. inversion HF as [|? ? (cs & Rs & Bs) Ht]; subst. constructor.
      - destruct (patch_resolve F (f_new f) (f_iref f) (ci_hash (raw_xorb (f_new f))) Hnz [s] idx (cs ++ [])) as [P1 _].
        + intros [|i] s0 E0; [|destruct i; discriminate]. injection E0 as <-. apply (Hi O s eq_refl).
        + intros s0 [<-|[]]. apply Hne. left. reflexivity.
        + cbn [resolve_file]. rewrite Rs. reflexivity.
        + cbn [patch_segs resolve_file] in P1. exists cs. split.
          * destruct (resolve_seg (pend [] :: F) _) as [a|]; [|discriminate]. injection P1 as P1. rewrite !app_nil_r in P1. subst a. reflexivity.
          * destruct (existsb (N.eqb idx) (f_iref f)); cbn [sg_bytes]; exact Bs.
      - apply IH; [ | intros s0 Hs0; apply Hne; right; exact Hs0 | exact Ht].
        intros i s0 E0. specialize (Hi (S i) s0 E0). replace (idx + 1 + N.of_nat i) with (idx + N.of_nat (S i)) by lia. exact Hi. }
    apply G; [ | exact Hnem | exact HB]. intros i s E0. replace (0 + N.of_nat i) with (N.of_nat i) by lia. apply Hirf. exact E0.
  Qed.

  Lemma add_new_chunk_binv cf f fed c : FInv F U f fed -> BInv f -> (must_cut cf f c = true -> In (raw_xorb (f_new f)) F) -> BInv (add_new_chunk cf f c).
  Proof.
    intros HI HB Hx. destruct HS as [Anc Anz Ak Acl Apos]. rewrite add_new_chunk_eq. cbv zeta.
    assert (HI1 : FInv F U (with_metrics f (bump_new (f_metrics f) (snd c))) fed) by (revert HI; apply FInv_ext; reflexivity).
    destruct (must_cut cf f c).
    - apply (push_binv cf _ fed); [apply (cut_inv F Anc Anz U); [exact HI1 | apply Hx; reflexivity]|].
      apply (cut_binv _ fed); [exact HI1 | exact HB | apply Hx; reflexivity].
    - apply (push_binv cf _ fed); [exact HI1 | exact HB].
  Qed.

  (* add_file_data_sequence_entry with a segment whose byte count matches the chunks it resolves to *)
  Lemma add_fse_binv cf f fed s n got : FInv F U f fed -> BInv f -> resolve_seg (pend (f_new f) :: F) s = Some got -> beq (sg_bytes s) (sum_lens got) ->
    BInv (add_fse cf f s n).
  Proof.
    intros HI HB Hs Hb. unfold BInv, add_fse in *. destruct (continues f s) eqn:Hc; cbn [f_new f_info].
    - unfold continues in Hc. destruct (last_seg (f_info f)) as [l0|] eqn:El; [|discriminate].
      apply andb_true_iff in Hc as [Hh He]. apply bytes_eqb_true in Hh. apply N.eqb_eq in He.
      destruct (last_seg_split _ _ El) as [pre Ep]. rewrite Ep in *. rewrite upd_last_snoc. apply Forall_snoc in HB as [HBp (b & Rb & Bb)]. apply Forall_snoc. split; [exact HBp|].
      exists (b ++ got). split.
      + destruct (resolve_seg_inv _ _ _ Rb) as (x & X1 & X2 & X3 & ->). destruct (resolve_seg_inv _ _ _ Hs) as (x' & Y1 & Y2 & Y3 & ->).
        rewrite Hh in X1. rewrite X1 in Y1. injection Y1 as <-.
        rewrite (resolve_seg_found _ _ x); cbn [sg_cas sg_start sg_end]; [ | rewrite Hh; exact X1 | lia | exact Y3].
        rewrite He. rewrite slice_cat by lia. reflexivity.
      + cbn [sg_bytes]. rewrite sum_lens_app. apply beq_wrap_add; assumption.
    - apply Forall_snoc. split; [exact HB|]. exists got. auto.
  Qed.

  (* a dedup answer whose byte count is the (u32) sum of the chunk lengths it covers *)
  Definition AnsBm (cs : list chunk) (a : N * seg) : Prop := beq (sg_bytes (snd a)) (sum_lens (firstn (N.to_nat (fst a)) cs)).

  Lemma step_binv cf f fed c rest ans :
    FInv F U f fed -> BInv f -> (forall c', In c' (c :: rest) -> In c' U) ->
    (forall a, ans = Some a -> AnsOk F (c :: rest) a /\ AnsBm (c :: rest) a) ->
    (forall x, In x (f_registered (fst (step false cf f c (map fst (c :: rest)) ans))) -> In x F) ->
    BInv (fst (step false cf f c (map fst (c :: rest)) ans)).
  Proof.
    intros HI HB HU Ha Hreg. pose proof HS as [Anc Anz Ak Acl Apos].
    assert (Hq : forall n s, match ans with Some a => Some a | None => local_query f (map fst (c :: rest)) end = Some (n, s) ->
                   resolve_seg (pend (f_new f) :: F) s = Some (firstn (N.to_nat n) (c :: rest)) /\ beq (sg_bytes s) (sum_lens (firstn (N.to_nat n) (c :: rest)))).
    { intros n s Q. destruct ans as [a|].
      - injection Q as ->. destruct (Ha _ eq_refl) as [(A1 & A2 & A3 & A4) Bm]. cbn [fst snd] in *. rewrite resolve_nonzero by exact A1. auto.
      - destruct (local_query_ok F U Ak f fed (c :: rest) n s HI HU Q) as (A & _). split; [exact A|].
        rewrite (local_query_bytes F U HS f fed (c :: rest) n s HI HU Q). apply beq_refl. }
    assert (Hnew : forall g, f_new g = f_new f -> f_lookup g = f_lookup f -> f_info g = f_info f -> f_iref g = f_iref f ->
                   (forall x, In x (f_registered (add_new_chunk cf g c)) -> In x F) -> BInv (add_new_chunk cf g c)).
    { intros g E1 E2 E3 E4 Hr. apply (add_new_chunk_binv cf g fed).
      - revert HI. apply FInv_ext; assumption.
      - unfold BInv. rewrite E1, E3. exact HB.
      - intro Hc. apply Hr. apply add_new_chunk_registered. exact Hc. }
    revert Hreg. unfold step, step_with. destruct (match ans with Some a => Some a | None => local_query f (map fst (c :: rest)) end) as [[n s]|] eqn:Q.
    2:{ cbn [fst]. intro Hreg. apply Hnew; auto. }
    destruct (Hq n s eq_refl) as [Q1 Q2].
    assert (Hfse : forall g, f_new g = f_new f -> f_lookup g = f_lookup f -> f_info g = f_info f -> f_iref g = f_iref f -> BInv (add_fse cf g s n)).
    { intros g E1 E2 E3 E4. apply (add_fse_binv cf g fed s n (firstn (N.to_nat n) (c :: rest))).
      - revert HI. apply FInv_ext; assumption.
      - unfold BInv. rewrite E1, E3. exact HB.
      - rewrite E1. exact Q1.
      - exact Q2. }
    destruct (continues f s).
    { cbn [fst]. intros _. apply Hfse; reflexivity. }
    destruct (d_allow cf (f_defrag f) n) as [ok d']. destruct ok; cbn [fst].
    - intros _. apply Hfse; reflexivity.
    - intro Hreg. apply Hnew; try reflexivity. exact Hreg.
  Qed.

  Definition AnsAllBm (cs : list chunk) (answers : list (option (N * seg))) : Prop :=
    forall k a, nth_error answers k = Some (Some a) -> AnsBm (skipn k cs) a.
  Lemma AnsAllBm_skipn cs answers k : AnsAllBm cs answers -> AnsAllBm (skipn k cs) (skipn k answers).
  Proof. intros H j a Hj. rewrite nth_error_skipn in Hj. rewrite skipn_add''. apply H. exact Hj. Qed.

  Lemma process_loop_binv cf : forall fuel f fed cs answers,
    FInv F U f fed -> BInv f -> (forall c, In c cs -> In c U) -> AnsAll F cs answers -> AnsAllBm cs answers -> (length cs <= fuel)%nat ->
    (forall x, In x (f_registered (process_loop fuel false cf f cs answers)) -> In x F) ->
    BInv (process_loop fuel false cf f cs answers).
  Proof.
    destruct HS as [A B C D E].
    induction fuel as [|fu IH]; intros f fed cs answers HI HBi HU HA HBm Hl Hreg.
    - destruct cs; [exact HBi | cbn in Hl; lia].
    - destruct cs as [|c rest]; [exact HBi|]. cbn [process_loop] in *.
      assert (Hhd : forall a, hd None answers = Some a -> AnsOk F (c :: rest) a /\ AnsBm (c :: rest) a).
      { intros a Ha. destruct answers as [|a0 t]; [discriminate|]. cbn [hd] in Ha. subst a0. split; [apply (HA O a eq_refl) | apply (HBm O a eq_refl)]. }
      pose proof (step_inv F A B U C false cf f fed c rest (hd None answers) HI HU (fun a Ha => proj1 (Hhd a Ha))) as St. cbv zeta in St.
      pose proof (step_binv cf f fed c rest (hd None answers) HI HBi HU Hhd) as Sb.
      destruct (step false cf f c (map fst (c :: rest)) (hd None answers)) as [f' n] eqn:Es. cbn [fst snd] in St, Sb.
      set (k := N.to_nat (N.max n 1)) in *.
      destruct (process_loop_registered_ext false cf fu f' (skipn k (c :: rest)) (skipn k answers)) as [pre Hp].
      assert (Hr1 : forall x, In x (f_registered f') -> In x F) by (intros x Hx; apply Hreg; rewrite Hp; apply in_or_app; right; exact Hx).
      apply (IH f' (fed ++ firstn k (c :: rest))).
      + apply St. exact Hr1.
      + apply Sb. exact Hr1.
      + intros c' Hc'. apply HU. eapply skipn_In_incl. exact Hc'.
      + apply AnsAll_skipn. exact HA.
      + apply AnsAllBm_skipn. exact HBm.
      + rewrite skipn_length. cbn [length] in *. unfold k. lia.
      + exact Hreg.
  Qed.

  Theorem process_block_binv cf ext f fed cs :
    FInv F U f fed -> BInv f -> TableOk F ext -> TableSmall ext -> (forall x, In x F -> sum_lens (chunks_of x) < 4294967296) ->
    (forall c, In c cs -> In c U) ->
    (forall x, In x (f_registered (process_block false cf ext f cs)) -> In x F) ->
    BInv (process_block false cf ext f cs).
  Proof.
    intros HI HBi HT HSm HFs HU Hreg. pose proof HS as [A B C D E]. unfold process_block in *.
    assert (Hr0 : forall x, In x (f_registered f) -> In x F).
    { intros x Hx. apply Hreg.
      match goal with |- In x (f_registered (process_chunks ?b ?c ?g ?l ?a)) => destruct (process_chunks_registered_ext b c g l a) as [pre Hp]; rewrite Hp end.
      apply in_or_app. right. exact Hx. }
    assert (HT2 : TableOk F (ext ++ registered_table f)) by (apply TableOk_app; [exact HT | apply registered_table_ok; exact Hr0]).
    assert (HS2 : TableSmall (ext ++ registered_table f)).
    { intros xh chs cap Hin. apply in_app_or in Hin as [Hin|Hin]; [apply (HSm _ _ _ Hin)|].
      unfold registered_table in Hin. apply in_map_iff in Hin as (x & Ex & Hx). injection Ex as _ <- _. apply HFs. apply Hr0. apply in_rev. exact Hx. }
    unfold process_chunks in *. cbn [f_registered] in *. unfold BInv. cbn [f_new f_info].
    apply (process_loop_binv cf (length cs) f fed cs); try assumption; [ | | lia].
    - intros k a Hk. apply pass1_nth in Hk. rewrite skipn_map in Hk. eapply (table_oracle_ok F A B U C D); [exact HT2 | | exact Hk].
      intros c Hc. apply HU. eapply skipn_In_incl. exact Hc.
    - intros k a Hk. apply pass1_nth in Hk. rewrite skipn_map in Hk. unfold AnsBm.
      rewrite (table_oracle_bytes F U HS (ext ++ registered_table f) (skipn k cs) a HT2 HS2); [apply beq_refl | | exact Hk].
      intros c Hc. apply HU. eapply skipn_In_incl. exact Hc.
  Qed.

  Theorem feed_blocks_binv cf ext : forall blocks f fed,
    FInv F U f fed -> BInv f -> TableOk F ext -> TableSmall ext -> (forall x, In x F -> sum_lens (chunks_of x) < 4294967296) ->
    (forall b c, In b blocks -> In c b -> In c U) ->
    (forall x, In x (f_registered (feed_blocks false cf ext f blocks)) -> In x F) ->
    BInv (feed_blocks false cf ext f blocks).
  Proof.
    pose proof HS as [A B C D E].
    induction blocks as [|b r IH]; intros f fed HI HBi HT HSm HFs HU Hreg; [exact HBi|].
    change (feed_blocks false cf ext f (b :: r)) with (feed_blocks false cf ext (process_block false cf ext f b) r) in *.
    assert (Hr1 : forall x, In x (f_registered (process_block false cf ext f b)) -> In x F).
    { intros x Hx. apply Hreg. destruct (feed_blocks_registered_ext false cf ext r (process_block false cf ext f b)) as [pre Hp]. rewrite Hp. apply in_or_app. right. exact Hx. }
    assert (HUb : forall c, In c b -> In c U) by (intros c Hc; apply (HU b c); [left; reflexivity | exact Hc]).
    apply (IH (process_block false cf ext f b) (fed ++ b)); try assumption.
    - apply (process_block_inv F A B U C D); assumption.
    - apply (process_block_binv cf ext f fed b); assumption.
    - intros b' c Hb' Hc. apply (HU b' c); [right; exact Hb' | exact Hc].
  Qed.
End SegBytes.

(* the later stages (merge_in with shifted indices, the aggregator's finalize) never touch a byte count *)
Lemma shift_segs_bytes l k : map sg_bytes (shift_segs l k) = map sg_bytes l.
Proof. unfold shift_segs. rewrite map_map. apply map_ext. intro s. destruct (bytes_eqb (sg_cas s) zero_hash); reflexivity. Qed.
Lemma patch_segs_bytes : forall l idx iref h, map sg_bytes (patch_segs l idx iref h) = map sg_bytes l.
Proof. induction l as [|s t IH]; intros idx iref h; [reflexivity|]. cbn [patch_segs map]. rewrite IH. destruct (existsb (N.eqb idx) iref); reflexivity. Qed.

(* a whole file: every segment of the record under construction carries the (u32) sum of the lengths of the chunks it
   resolves to; the byte counts then pass unchanged through merge_in and the aggregator's finalize (lemmas above), which
   keep the resolved chunks (ResolveProofs) *)
Theorem file_segment_bytes F U : StoreOk F U -> forall cf ext R blocks,
  TableOk F ext -> TableSmall ext -> (forall x, In x F -> sum_lens (chunks_of x) < 4294967296) ->
  (forall b c, In b blocks -> In c b -> In c U) ->
  (forall x, In x (f_registered (feed_blocks false cf ext (fd_with_registered R) blocks)) -> In x F) ->
  BInv F (feed_blocks false cf ext (fd_with_registered R) blocks).
Proof.
  intros HS cf ext R blocks HT HSm HFs HU Hreg.
  apply (feed_blocks_binv F U HS cf ext blocks (fd_with_registered R) []); try assumption.
  - destruct HS as [A B C D E]. eapply FInv_ext; [ | | | | apply FInv_fd0]; reflexivity.
  - constructor.
Qed.
