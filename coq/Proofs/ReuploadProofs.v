(* C11: a file whose chunks are all known to the data interface (they were recorded by an earlier session) is
   deduplicated completely: process_chunks stores no new chunk, cuts no xorb, registers nothing and adds nothing to the
   new-bytes counters -- for every split of the file into blocks, every table, every run-length cap of the interface,
   as long as fragmentation prevention refuses no answer (it is switched off, or simply never refuses).  Then the
   session built from such files hands nothing to the upload path. *)
From Coq Require Import ZArith NArith Bool List Lia ZifyBool ZifyN ZifyNat.
Import ListNotations.
From XetModel Require Import Base.Codec Gen.ShardLayout Gen.DedupFacts Model.Merkle Model.Shard Model.Dedup Proofs.PipelineProofs Proofs.ResolveProofs.
Open Scope N_scope.

Arguments N.add : simpl never.
Arguments N.ltb : simpl never.
Arguments N.leb : simpl never.
Arguments N.min : simpl never.
Arguments N.max : simpl never.

(* ---- the table answers every covered hash with a run of at least one chunk ---- *)
Definition InTable (t : xtable) (h : hash) : Prop :=
  exists xh chs cap, In (xh, chs, cap) t /\ exists c, In c chs /\ fst c = h.

Lemma find_pos_some h : forall chs p0, (exists c, In c chs /\ fst c = h) -> exists p, find_pos h chs p0 = Some p.
Proof.
  induction chs as [|c r IH]; intros p0 (c0 & Hin & Hc); [destruct Hin|]. cbn [find_pos].
  destruct (bytes_eqb (fst c) h) eqn:E; [eexists; reflexivity|].
  destruct Hin as [->|Hin]; [rewrite Hc, (proj2 (bytes_eqb_true h h) eq_refl) in E; discriminate|].
  apply IH. exists c0. auto.
Qed.
Lemma find_pos_ge h : forall chs p0 p, find_pos h chs p0 = Some p -> p0 <= p.
Proof.
  induction chs as [|c r IH]; intros p0 p; cbn [find_pos]; [discriminate|]. destruct (bytes_eqb (fst c) h).
  - intro H. injection H as <-. lia.
  - intro H. apply IH in H. lia.
Qed.
Lemma find_pos_tail h : forall chs p0 p, find_pos h chs p0 = Some p ->
  exists c r, skipn (N.to_nat (p - p0)) chs = c :: r /\ bytes_eqb (fst c) h = true.
Proof.
  induction chs as [|c r IH]; intros p0 p; cbn [find_pos]; [discriminate|]. destruct (bytes_eqb (fst c) h) eqn:E.
  - intro H. injection H as <-. rewrite N.sub_diag. exists c, r. split; [reflexivity | exact E].
  - intro H. pose proof (find_pos_ge h r _ _ H) as Hle. destruct (IH _ _ H) as (c0 & r0 & A & B). exists c0, r0. split; [|exact B].
    replace (N.to_nat (p - p0)) with (S (N.to_nat (p - (p0 + 1)))) by lia. exact A.
Qed.

Lemma table_oracle_some : forall t q0 r, InTable t q0 -> exists n s, table_oracle t (q0 :: r) = Some (n, s) /\ 1 <= n.
Proof.
  induction t as [|[[xh chs] cap] t IH]; intros q0 r (xh' & chs' & cap' & Hin & Hc); [destruct Hin|].
  cbn [table_oracle]. destruct (find_pos q0 chs 0) as [p|] eqn:E.
  - destruct (find_pos_tail _ _ _ _ E) as (c & r0 & A & B). rewrite N.sub_0_r in A. rewrite A. cbn [match_len]. rewrite B.
    eexists _, _. split; [reflexivity|]. lia.
  - destruct Hin as [Heq|Hin].
    + injection Heq as -> -> ->. destruct (find_pos_some q0 chs' 0 Hc) as [p Hp]. rewrite Hp in E. discriminate.
    + apply IH. exists xh', chs', cap'. auto.
Qed.
Lemma InTable_app t t' h : InTable t h -> InTable (t ++ t') h.
Proof. intros (xh & chs & cap & A & B). exists xh, chs, cap. split; [apply in_or_app; left; exact A | exact B]. Qed.

(* ---- fragmentation prevention that refuses nothing ---- *)
Definition AllowAll (cf : dcfg) : Prop := forall d n, fst (d_allow cf d n) = true.
Lemma min_cpr_zero_allows cf : c_min_cpr_num cf = 0 -> AllowAll cf.
Proof.
  intros H d n. unfold d_allow. rewrite H. destruct (N.of_nat (length (d_ranges d)) <? c_nranges cf); [reflexivity|].
  destruct (d_low d); cbn [N.mul]; (destruct (_ <? _) eqn:E; [lia | reflexivity]).
Qed.

(* ---- what "nothing new" means for the deduper ---- *)
Record Quiet (f f' : fd) : Prop := mkQuiet {
  q_new : f_new f' = f_new f;
  q_lookup : f_lookup f' = f_lookup f;
  q_xorbs : f_new_xorbs f' = f_new_xorbs f;
  q_reg : f_registered f' = f_registered f;
  q_nb : m_new_bytes (f_metrics f') = m_new_bytes (f_metrics f);
  q_nc : m_new_chunks (f_metrics f') = m_new_chunks (f_metrics f);
  q_db : m_defrag_bytes (f_metrics f') = m_defrag_bytes (f_metrics f);
  q_dc : m_defrag_chunks (f_metrics f') = m_defrag_chunks (f_metrics f) }.
Lemma Quiet_refl f : Quiet f f.
Proof. constructor; reflexivity. Qed.
Lemma Quiet_trans a b c : Quiet a b -> Quiet b c -> Quiet a c.
Proof. intros [] []. constructor; congruence. Qed.

Lemma add_fse_quiet cf f s n : Quiet f (add_fse cf f s n).
Proof. unfold add_fse. destruct (continues f s); constructor; reflexivity. Qed.

Lemma step_answered_quiet bbd cf f c rest n s : AllowAll cf ->
  Quiet f (fst (step bbd cf f c rest (Some (n, s)))) /\ snd (step bbd cf f c rest (Some (n, s))) = n.
Proof.
  intro HA. unfold step, step_with.
  set (f1 := if bbd then with_metrics f (bump_dedup (f_metrics f) n (sg_bytes s)) else f).
  assert (Q1 : Quiet f f1) by (subst f1; destruct bbd; constructor; reflexivity).
  destruct (continues f1 s).
  - cbn [fst snd]. split; [|reflexivity]. eapply Quiet_trans; [exact Q1|]. eapply Quiet_trans; [|apply add_fse_quiet].
    destruct bbd; constructor; reflexivity.
  - pose proof (HA (f_defrag f1) n) as Hd. destruct (d_allow cf (f_defrag f1) n) as [ok d']. cbn [fst] in Hd. subst ok.
    cbn [fst snd]. split; [|reflexivity]. eapply Quiet_trans; [exact Q1|]. eapply Quiet_trans; [|apply add_fse_quiet].
    destruct bbd; constructor; reflexivity.
Qed.

(* ---- the two passes walk in step ---- *)
Lemma process_loop_nil fu bbd cf f ans : process_loop fu bbd cf f [] ans = f.
Proof. destruct fu; reflexivity. Qed.

Lemma answers_skip fu ask (c : chunk) rest k' (a : option (N * seg)) : (k' <= length rest)%nat ->
  skipn (S k') (a :: repeat None (Nat.min (S k' - 1) (length (map fst (c :: rest)) - 1)) ++ pass1 fu ask (skipn (S k') (map fst (c :: rest))))
  = pass1 fu ask (map fst (skipn k' rest)).
Proof.
  intro H. unfold chunk in *. rewrite map_length. cbn [length map]. replace (Nat.min (S k' - 1) (S (length rest) - 1)) with k' by lia.
  cbn [skipn]. rewrite skipn_app. rewrite repeat_length. rewrite skipn_all2 by (rewrite repeat_length; lia). match goal with |- context [skipn ?e (pass1 _ _ _)] => replace e with 0%nat by lia end. cbn [app skipn].
  rewrite skipn_map. reflexivity.
Qed.

Lemma process_loop_quiet bbd cf ask : AllowAll cf ->
  forall fu chunks f,
  (forall c r, (exists pre, chunks = pre ++ c :: r) -> exists n s, ask (map fst (c :: r)) = Some (n, s) /\ 1 <= n) ->
  Quiet f (process_loop fu bbd cf f chunks (pass1 fu ask (map fst chunks))).
Proof.
  intros HA. induction fu as [|fu IH]; intros chunks f Hc; [apply Quiet_refl|].
  destruct chunks as [|c rest]; [apply Quiet_refl|].
  destruct (Hc c rest (ex_intro _ [] eq_refl)) as (n & s & Hask & Hn).
  cbn [process_loop pass1 map]. change (fst c :: map fst rest) with (map fst (c :: rest)). rewrite Hask.
  cbn [hd].
  destruct (step_answered_quiet bbd cf f c (map fst (c :: rest)) n s HA) as [Q Hs].
  destruct (step bbd cf f c (map fst (c :: rest)) (Some (n, s))) as [f' n'] eqn:Es. cbn [fst snd] in Q, Hs. subst n'.
  set (k := N.to_nat (N.max n 1)).
  assert (Hk : (1 <= k)%nat) by (subst k; lia).
  eapply Quiet_trans; [exact Q|].
  match goal with |- context [process_loop _ _ _ _ ?l _] => remember l as sk eqn:Esk end. symmetry in Esk. destruct sk as [|c2 r2].
  - rewrite process_loop_nil. apply Quiet_refl.
  - assert (Hlen : (k < length (c :: rest))%nat).
    { destruct (Nat.lt_ge_cases k (length (c :: rest))) as [L|L]; [exact L|]. rewrite skipn_all2 in Esk by exact L. discriminate. }
    destruct k as [|k']; [lia|].
    match goal with |- context [process_loop _ _ _ _ _ ?a] => assert (Ea : a = pass1 fu ask (map fst (skipn k' rest))) by (apply answers_skip; cbn [length] in Hlen; unfold chunk in *; lia); rewrite Ea; clear Ea end.
    change (skipn (S k') (c :: rest)) with (skipn k' rest) in Esk. rewrite Esk.
    apply IH. intros c3 r3 [pre Hp]. apply Hc.
    exists (firstn (S k') (c :: rest) ++ pre). rewrite <- app_assoc, <- Hp, <- Esk. symmetry. apply (firstn_skipn (S k') (c :: rest)).
Qed.

Lemma suffix_covered (chunks : list chunk) t : (forall c, In c chunks -> InTable t (fst c)) ->
  forall c r, (exists pre, chunks = pre ++ c :: r) -> exists n s, table_oracle t (map fst (c :: r)) = Some (n, s) /\ 1 <= n.
Proof.
  intros H c r [pre ->]. cbn [map]. apply table_oracle_some. apply H. apply in_or_app. right. left. reflexivity.
Qed.

Theorem process_block_quiet bbd cf ext f chunks : AllowAll cf ->
  (forall c, In c chunks -> InTable ext (fst c)) -> Quiet f (process_block bbd cf ext f chunks).
Proof.
  intros HA Hc. unfold process_block, process_chunks. rewrite map_length.
  pose proof (process_loop_quiet bbd cf (table_oracle (ext ++ registered_table f)) HA (length chunks) chunks f
                (suffix_covered chunks _ (fun c H => InTable_app _ _ _ (Hc c H)))) as [].
  constructor; cbn [f_new f_lookup f_new_xorbs f_registered f_metrics]; assumption.
Qed.

Theorem feed_blocks_quiet bbd cf ext : AllowAll cf -> forall blocks f,
  (forall b c, In b blocks -> In c b -> InTable ext (fst c)) -> Quiet f (feed_blocks bbd cf ext f blocks).
Proof.
  intro HA. induction blocks as [|b r IH]; intros f Hc; [apply Quiet_refl|]. unfold feed_blocks. cbn [fold_left].
  eapply Quiet_trans; [apply (process_block_quiet bbd cf ext f b HA); intros c H; apply (Hc b c); [left; reflexivity | exact H]|].
  apply IH. intros b' c Hb H. apply (Hc b' c); [right; exact Hb | exact H].
Qed.

(* the re-uploaded file, from a fresh deduper: nothing stored, nothing cut, nothing registered, no new bytes counted; what
   finalize hands to the session carries no chunk *)
Theorem reupload_file_stores_nothing bbd cf ext blocks salt sha : AllowAll cf ->
  (forall b c, In b blocks -> In c b -> InTable ext (fst c)) ->
  let f := feed_blocks bbd cf ext fd0 blocks in
  f_new f = [] /\ f_new_xorbs f = [] /\ f_registered f = []
  /\ m_new_bytes (f_metrics f) = 0 /\ m_new_chunks (f_metrics f) = 0
  /\ a_chunks (snd (fst (fst (fd_finalize f salt sha)))) = []
  /\ snd (fd_finalize f salt sha) = [].
Proof.
  intros HA Hc f. destruct (feed_blocks_quiet bbd cf ext HA blocks fd0 Hc) as [A B C D E G _ _]. fold f in A, B, C, D, E, G.
  cbn [fd0 f_new f_lookup f_new_xorbs f_registered f_metrics m0 m_new_bytes m_new_chunks] in *.
  repeat split; try assumption; unfold fd_finalize; cbn [fst snd a_chunks]; try assumption. rewrite C. reflexivity.
Qed.

(* ---- a session made of such files hands nothing to the upload path ---- *)
Definition chunkless (o : sop) : Prop := match o with OpMid xs => xs = [] | OpFile a _ _ => a_chunks a = [] end.

Lemma process_agg_chunkless rc s a : a_chunks a = [] -> s_uploaded (process_agg rc s a) = s_uploaded s /\ s_cur (process_agg rc s a) = s_cur s.
Proof.
  intro H. unfold process_agg, agg_finalize. rewrite H. cbv zeta iota beta. cbn [raw_xorb sum_lens fold_right ci_nbytes s_uploaded s_cur N.eqb negb]. split; reflexivity.
Qed.

Lemma sstep_chunkless rc cf s o : chunkless o -> a_chunks (s_cur s) = [] -> s_uploaded s = [] ->
  a_chunks (s_cur (sstep rc cf s o)) = [] /\ s_uploaded (sstep rc cf s o) = [].
Proof.
  intros Ho Hc Hu. destruct o as [xs|a m g]; cbn [chunkless sstep] in *.
  - subst xs. unfold register_mid_xorbs. cbn [s_cur s_uploaded rev app]. auto.
  - unfold register_completion. cbv zeta. unfold a_bytes. rewrite Hc, Ho. cbn [sum_lens fold_right length]. change (N.of_nat 0) with 0.
    replace (c_max_xorb_bytes cf <? 0 + 0) with false by (symmetry; apply N.ltb_ge; lia).
    replace (c_max_xorb_chunks cf <? 0 + 0) with false by (symmetry; apply N.ltb_ge; lia).
    cbn [orb s_cur s_uploaded]. unfold agg_merge. cbn [a_chunks]. rewrite Hc, Ho. auto.
Qed.

Theorem chunkless_session_uploads_nothing rc cf ops : Forall chunkless ops -> s_uploaded (srun rc cf ops) = [].
Proof.
  intro H. unfold srun.
  assert (G : forall s, a_chunks (s_cur s) = [] -> s_uploaded s = [] ->
              a_chunks (s_cur (fold_left (sstep rc cf) ops s)) = [] /\ s_uploaded (fold_left (sstep rc cf) ops s) = []).
  { induction H as [|o r Ho _ IH]; intros s A B; cbn [fold_left]; [auto|]. destruct (sstep_chunkless rc cf s o Ho A B) as [A' B']. apply IH; assumption. }
  destruct (G session0 eq_refl eq_refl) as [A B]. unfold session_finalize.
  destruct (process_agg_chunkless rc (mkS agg0 (s_uploaded (fold_left (sstep rc cf) ops session0)) (s_shard_cas (fold_left (sstep rc cf) ops session0))
              (s_shard_files (fold_left (sstep rc cf) ops session0)) (s_metrics (fold_left (sstep rc cf) ops session0))) _ A) as [X _].
  rewrite X. exact B.
Qed.

(* ---- where the covering table comes from: the shards of the sessions that stored the data ---- *)
Definition shard_table (cas : list cas_info) (cap : N) : xtable := map (fun x => (ci_hash x, chunks_of x, cap)) cas.

Lemma in_firstn_l {A} : forall k (l : list A) x, In x (firstn k l) -> In x l.
Proof. induction k as [|k IH]; intros [|y l] x H; cbn [firstn] in H; try (destruct H; fail). destruct H as [->|H]; [left; reflexivity | right; apply IH; exact H]. Qed.
Lemma in_skipn_l {A} : forall k (l : list A) x, In x (skipn k l) -> In x l.
Proof. induction k as [|k IH]; intros [|y l] x H; cbn [skipn] in H; try exact H. right. apply IH. exact H. Qed.

Lemma resolve_file_chunks_in_store F : forall segs cs, resolve_file F segs = Some cs ->
  forall c, In c cs -> exists x, In x F /\ In c (chunks_of x).
Proof.
  induction segs as [|s0 t IH]; intros cs H c Hc; cbn [resolve_file] in H; [injection H as <-; destruct Hc|].
  destruct (resolve_seg F s0) as [a|] eqn:Ea; [|discriminate]. destruct (resolve_file F t) as [b|] eqn:Eb; [|discriminate].
  injection H as <-. apply in_app_or in Hc as [Hc|Hc]; [|apply (IH b eq_refl c Hc)].
  destruct (resolve_seg_inv _ _ _ Ea) as (x & X1 & _ & _ & X4). subst a. exists x. split.
  - clear -X1. revert X1. induction F as [|y r IHF]; cbn [st_find]; [discriminate|]. destruct (bytes_eqb (ci_hash y) (sg_cas s0)).
    + intro H. injection H as ->. left. reflexivity.
    + intro H. right. apply IHF. exact H.
  - unfold slice in Hc. apply in_firstn_l in Hc. apply in_skipn_l in Hc. exact Hc.
Qed.

Lemma srun_recorded cf ops : recorded (srun true cf ops).
Proof.
  unfold srun. apply session_finalize_recorded.
  assert (G : forall s, recorded s -> recorded (fold_left (sstep true cf) ops s)).
  { induction ops as [|o r IH]; intros s Hs; cbn [fold_left]; [exact Hs|]. apply IH. destruct o as [xs|a m g]; cbn [sstep].
    - apply register_mid_xorbs_recorded. exact Hs.
    - apply register_completion_recorded. exact Hs. }
  apply G. intros x [].
Qed.

(* every chunk of every file a session completed lies in a xorb of the store; if the session ran against an empty
   store (F is what it uploaded), that xorb is in the session's own shard *)
Theorem completed_files_covered_by_store F U : StoreOk F U -> forall cf ops, Forall (op_ok F U) ops ->
  (forall x, In x (s_uploaded (srun true cf ops)) -> In x F) ->
  forall g c, In g (ghosts ops) -> In c (snd g) -> exists x, In x F /\ In c (chunks_of x).
Proof.
  intros HS cf ops Hok Hup g c Hg Hc. destruct (session_resolves F U HS true cf ops Hok Hup) as [A _].
  destruct (A g Hg) as (fi & _ & _ & R). apply (resolve_file_chunks_in_store F _ _ R c Hc).
Qed.

Theorem first_session_shard_covers_its_files U : forall cf ops, let s := srun true cf ops in
  StoreOk (s_uploaded s) U -> Forall (op_ok (s_uploaded s) U) ops ->
  forall cap g c, In g (ghosts ops) -> In c (snd g) -> InTable (shard_table (s_shard_cas s) cap) (fst c).
Proof.
  intros cf ops s HS Hok cap g c Hg Hc.
  destruct (completed_files_covered_by_store (s_uploaded s) U HS cf ops Hok (fun x H => H) g c Hg Hc) as (x & Hx & Hin).
  apply (srun_recorded cf ops) in Hx. fold s in Hx.
  exists (ci_hash x), (chunks_of x), cap. split; [|exists c; auto].
  unfold shard_table. apply (in_map (fun x => (ci_hash x, chunks_of x, cap))). exact Hx.
Qed.

(* the two halves composed: a file completed by a session, fed again (in any split) to a deduper that sees that
   session's shard, stores nothing *)
Theorem reupload_after_session U : forall cf ops, let s := srun true cf ops in
  StoreOk (s_uploaded s) U -> Forall (op_ok (s_uploaded s) U) ops ->
  forall bbd cf2 more cap g blocks salt sha, AllowAll cf2 -> In g (ghosts ops) -> concat blocks = snd g ->
  let f := feed_blocks bbd cf2 (shard_table (s_shard_cas s) cap ++ more) fd0 blocks in
  f_new f = [] /\ f_new_xorbs f = [] /\ f_registered f = [] /\ m_new_bytes (f_metrics f) = 0 /\ m_new_chunks (f_metrics f) = 0
  /\ a_chunks (snd (fst (fst (fd_finalize f salt sha)))) = [] /\ snd (fd_finalize f salt sha) = [].
Proof.
  intros cf ops s HS Hok bbd cf2 more cap g blocks salt sha HA Hg Hcat.
  apply reupload_file_stores_nothing; [exact HA|]. intros b c Hb Hc. apply InTable_app.
  apply (first_session_shard_covers_its_files U cf ops HS Hok cap g c Hg). rewrite <- Hcat. apply in_concat. exists b. auto.
Qed.

(* ---- non-vacuity: the session of ResolveProofs' example, its file fed again in another split ---- *)
Definition rx_cfg : dcfg := mkCfg 8 0 1 1 2 1000000 1000.       (* fragmentation prevention switched off *)
Definition rx_s1 : session := srun true ex_cfg2 ex_ops.
Definition rx_blocks : list (list chunk) := [[ex_c1]; [ex_c2; ex_c1]].
Definition rx_f : fd := feed_blocks false rx_cfg (shard_table (s_shard_cas rx_s1) 1000000 ++ []) fd0 rx_blocks.

Example rx_reupload :
  (f_new rx_f = [] /\ f_new_xorbs rx_f = [] /\ f_registered rx_f = [] /\ m_new_bytes (f_metrics rx_f) = 0 /\ m_new_chunks (f_metrics rx_f) = 0
   /\ a_chunks (snd (fst (fst (fd_finalize rx_f (ex_h 0) None)))) = [] /\ snd (fd_finalize rx_f (ex_h 0) None) = [])
  /\ m_deduped_bytes (f_metrics rx_f) = 40 /\ length (f_info rx_f) = 2%nat.
Proof.
  split; [|vm_compute; split; reflexivity].
  assert (Hf : FInv ex_F ex_U ex_file (concat ex_blocks)).
  { apply (file_resolves ex_F ex_U ex_StoreOk false ex_cfg2 [] [] ex_blocks).
    - intros xh chs cap [].
    - intros b c [<-|[<-|[]]] Hc; cbn in Hc; unfold ex_U; cbn; tauto.
    - intros x Hx. vm_compute in Hx. destruct Hx. }
  apply (reupload_after_session ex_U ex_cfg2 ex_ops ex_StoreOk) with (g := (fst (fst (fst ex_fin)), concat ex_blocks)).
  - constructor; [|constructor]. apply (file_op_ok ex_F ex_U ex_StoreOk ex_file (concat ex_blocks) (ex_h 0) None Hf).
  - apply min_cpr_zero_allows. reflexivity.
  - left. reflexivity.
  - reflexivity.
Qed.

(* the hypothesis [AllowAll] cannot be dropped: with fragmentation prevention on (one tracked range, at least 8 chunks per
   range wanted), a file whose chunks are all known -- two in one xorb, the third alone in another -- stores the third
   chunk again: the short answer is refused.  (This is the designed behaviour of DefragPrevention, not a defect; the
   re-upload oracle of the session streams therefore judges byte counts only for re-uploads without refusals.) *)
Definition rx_c3 : chunk := (ex_h 3, 30).
Definition rx_cfg_on : dcfg := mkCfg 1 8 1 1 2 1000000 1000.
Definition rx_tbl : xtable := [(ex_h 101, [ex_c1; ex_c2], 1000000); (ex_h 102, [rx_c3], 1000000)].
Theorem refusal_stores_known_chunk_again :
  (forall c, In c [ex_c1; ex_c2; rx_c3] -> InTable rx_tbl (fst c))
  /\ f_new (feed_blocks false rx_cfg_on rx_tbl fd0 [[ex_c1; ex_c2; rx_c3]]) = [rx_c3]
  /\ m_new_bytes (f_metrics (feed_blocks false rx_cfg_on rx_tbl fd0 [[ex_c1; ex_c2; rx_c3]])) = 30
  /\ m_defrag_chunks (f_metrics (feed_blocks false rx_cfg_on rx_tbl fd0 [[ex_c1; ex_c2; rx_c3]])) = 1.
Proof.
  split; [|vm_compute; repeat split; reflexivity].
  intros c [<-|[<-|[<-|[]]]].
  - exists (ex_h 101), [ex_c1; ex_c2], 1000000. split; [left; reflexivity | exists ex_c1; split; [left|]; reflexivity].
  - exists (ex_h 101), [ex_c1; ex_c2], 1000000. split; [left; reflexivity | exists ex_c2; split; [right; left|]; reflexivity].
  - exists (ex_h 102), [rx_c3], 1000000. split; [right; left; reflexivity | exists rx_c3; split; [left|]; reflexivity].
Qed.
