(* C10 / C19: merging serialized shards at the level of bytes.  The consolidation step (Crash.merge_bytes: load both shards
   with the crate's readers, walk both record lists, serialize the result) applied to two serialized shards yields exactly the
   serialization of their union; read back, the merged file lists the union's records, so every file or xorb key retrievable
   from either input is retrievable from the merged shard -- the "merged shard covers its inputs" premise of the
   write-before-delete theorem of C19. *)
From Coq Require Import ZArith NArith Bool List Lia.
Import ListNotations.
From XetModel Require Import Base.Codec Gen.ShardLayout Model.Merkle Model.Shard Model.Crash Proofs.CodecProofs Proofs.ShardProofs
  Proofs.SetOpProofs Proofs.SetOpSortedProofs Proofs.ShardWholeProofs Proofs.ShardDedupWholeProofs.
Open Scope N_scope.

Lemma disk_shard_bytes_is_w_bs files cass : disk_shard_bytes files cass = w_bs files cass (d_ctbl cass) zero_hash 0 u64max.
Proof. reflexivity. Qed.

(* the consolidation step on two serialized shards (any keys, times, chunk tables) *)
Theorem merge_of_serialized fa ca ta ka cra exa fb cb tb kb crb exb :
  ShardOk fa ca ta ka cra exa -> ShardOk fb cb tb kb crb exb ->
  merge_bytes (w_bs fa ca ta ka cra exa) (w_bs fb cb tb kb crb exb) = Some (disk_union fa fb ca cb).
Proof.
  intros Ha Hb. unfold merge_bytes. rewrite (shard_footer_roundtrip _ _ _ _ _ _ Ha), (shard_footer_roundtrip _ _ _ _ _ _ Hb).
  destruct (shard_scans_list_all_records _ _ _ _ _ _ Ha) as [A1 A2]. destruct (shard_scans_list_all_records _ _ _ _ _ _ Hb) as [B1 B2].
  rewrite A1, A2, B1, B2. reflexivity.
Qed.

(* what the readers retrieve from a shard file: the keys of its file records and of its xorb records *)
Inductive skey := FileKey (k : list N) | XorbKey (k : list N).
Definition shard_recs (bs : list N) (x : skey) : Prop :=
  exists ft fs cs, load_footer bs = Some ft /\ read_all_files bs ft = Some fs /\ read_all_cas bs ft = Some cs /\
    match x with FileKey k => In k (map fkey fs) | XorbKey k => In k (map ckey cs) end.

Lemma shard_recs_serialized files cass ctbl key created expiry x : ShardOk files cass ctbl key created expiry ->
  (shard_recs (w_bs files cass ctbl key created expiry) x <-> match x with FileKey k => In k (map fkey files) | XorbKey k => In k (map ckey cass) end).
Proof.
  intro H. destruct (shard_scans_list_all_records _ _ _ _ _ _ H) as [A1 A2]. pose proof (shard_footer_roundtrip _ _ _ _ _ _ H) as A0. split.
  - intros (ft & fs & cs & E0 & E1 & E2 & Hx). rewrite A0 in E0. injection E0 as <-. rewrite A1 in E1. rewrite A2 in E2. injection E1 as <-. injection E2 as <-. exact Hx.
  - intro Hx. eexists. eexists. eexists. split; [exact A0|]. split; [exact A1|]. split; [exact A2 | exact Hx].
Qed.

(* the merged shard covers its inputs *)
Theorem merge_covers_inputs fa ca ta ka cra exa fb cb tb kb crb exb m :
  ShardOk fa ca ta ka cra exa -> ShardOk fb cb tb kb crb exb ->
  ShardOk (union_files (length fa + length fb) fa fb) (union_cas (length ca + length cb) ca cb) (d_ctbl (union_cas (length ca + length cb) ca cb)) zero_hash 0 u64max ->
  merge_bytes (w_bs fa ca ta ka cra exa) (w_bs fb cb tb kb crb exb) = Some m ->
  forall x, shard_recs (w_bs fa ca ta ka cra exa) x \/ shard_recs (w_bs fb cb tb kb crb exb) x -> shard_recs m x.
Proof.
  intros Ha Hb Hu Hm x Hx. rewrite (merge_of_serialized _ _ _ _ _ _ _ _ _ _ _ _ Ha Hb) in Hm. injection Hm as <-.
  unfold disk_union. rewrite disk_shard_bytes_is_w_bs. apply (shard_recs_serialized _ _ _ _ _ _ x Hu).
  rewrite (shard_recs_serialized _ _ _ _ _ _ x Ha), (shard_recs_serialized _ _ _ _ _ _ x Hb) in Hx.
  destruct x as [k|k].
  - apply union_files_keys; [lia | exact Hx].
  - apply union_cas_keys; [lia | exact Hx].
Qed.

(* ... and invents nothing: a key retrievable from the merged shard is retrievable from one of the inputs *)
Theorem merge_invents_nothing fa ca ta ka cra exa fb cb tb kb crb exb m :
  ShardOk fa ca ta ka cra exa -> ShardOk fb cb tb kb crb exb ->
  ShardOk (union_files (length fa + length fb) fa fb) (union_cas (length ca + length cb) ca cb) (d_ctbl (union_cas (length ca + length cb) ca cb)) zero_hash 0 u64max ->
  merge_bytes (w_bs fa ca ta ka cra exa) (w_bs fb cb tb kb crb exb) = Some m ->
  forall x, shard_recs m x -> shard_recs (w_bs fa ca ta ka cra exa) x \/ shard_recs (w_bs fb cb tb kb crb exb) x.
Proof.
  intros Ha Hb Hu Hm x Hx. rewrite (merge_of_serialized _ _ _ _ _ _ _ _ _ _ _ _ Ha Hb) in Hm. injection Hm as <-.
  unfold disk_union in Hx. rewrite disk_shard_bytes_is_w_bs in Hx. apply (shard_recs_serialized _ _ _ _ _ _ x Hu) in Hx.
  rewrite (shard_recs_serialized _ _ _ _ _ _ x Ha), (shard_recs_serialized _ _ _ _ _ _ x Hb).
  destruct x as [k|k].
  - apply union_files_keys in Hx; [exact Hx | lia].
  - apply union_cas_keys in Hx; [exact Hx | lia].
Qed.

(* ---- the premises are met by two one-file shards; their merge holds both files ---- *)
Lemma mx_ok files : Forall wf_file files -> Forall (fun f => Forall (fun b => b < 256) (fi_hash f)) files ->
  N.of_nat (length (w_bs files [] [] zero_hash 0 u64max)) < 4294967296 -> is_u64 (sum_materialized files) -> ShardOk files [] [] zero_hash 0 u64max.
Proof.
  intros A B C D. unfold ShardOk. split; [exact A|]. split; [constructor|]. split; [reflexivity|]. split; [unfold is_u64; lia|]. split; [unfold is_u64, u64max; lia|].
  split; [unfold is_u64; cbn; lia|]. split; [exact D|]. split; [unfold is_u64; cbn; lia | split; [exact C | exact B]].
Qed.
Example merge_example :
  exists m, merge_bytes (w_bs [wx_f1] [] [] zero_hash 0 u64max) (w_bs [wx_f2] [] [] zero_hash 0 u64max) = Some m
    /\ shard_recs m (FileKey (fkey wx_f1)) /\ shard_recs m (FileKey (fkey wx_f2)) /\ ~ shard_recs m (FileKey (hwords (repeat 3 32%nat))).
Proof.
  pose proof wx_wf as W. inversion W as [|? ? W1 W']; subst. inversion W' as [|? ? W2 _]; subst.
  assert (B1 : Forall (fun f => Forall (fun b => b < 256) (fi_hash f)) [wx_f1]) by (repeat constructor; cbn; lia).
  assert (B2 : Forall (fun f => Forall (fun b => b < 256) (fi_hash f)) [wx_f2]) by (repeat constructor; cbn; lia).
  assert (B3 : Forall (fun f => Forall (fun b => b < 256) (fi_hash f)) [wx_f1; wx_f2]) by (repeat constructor; cbn; lia).
  assert (Ha : ShardOk [wx_f1] [] [] zero_hash 0 u64max) by (apply mx_ok; [repeat constructor; exact W1 | exact B1 | vm_compute; reflexivity | unfold is_u64; vm_compute; reflexivity]).
  assert (Hb : ShardOk [wx_f2] [] [] zero_hash 0 u64max) by (apply mx_ok; [repeat constructor; exact W2 | exact B2 | vm_compute; reflexivity | unfold is_u64; vm_compute; reflexivity]).
  assert (Eu : union_files (length [wx_f1] + length [wx_f2]) [wx_f1] [wx_f2] = [wx_f1; wx_f2]) by (vm_compute; reflexivity).
  assert (Ec : union_cas (length (@nil cas_info) + length (@nil cas_info)) [] [] = []) by reflexivity.
  assert (Hu : ShardOk (union_files (length [wx_f1] + length [wx_f2]) [wx_f1] [wx_f2]) (union_cas (length (@nil cas_info) + length (@nil cas_info)) [] [])
                       (d_ctbl (union_cas (length (@nil cas_info) + length (@nil cas_info)) [] [])) zero_hash 0 u64max).
  { rewrite Eu, Ec. apply mx_ok; [exact wx_wf | exact B3 | vm_compute; reflexivity | unfold is_u64; vm_compute; reflexivity]. }
  eexists. split; [apply merge_of_serialized; assumption|].
  pose proof (merge_of_serialized _ _ _ _ _ _ _ _ _ _ _ _ Ha Hb) as Hm.
  split; [|split].
  - apply (merge_covers_inputs _ _ _ _ _ _ _ _ _ _ _ _ _ Ha Hb Hu Hm). left. apply (shard_recs_serialized _ _ _ _ _ _ _ Ha). left. reflexivity.
  - apply (merge_covers_inputs _ _ _ _ _ _ _ _ _ _ _ _ _ Ha Hb Hu Hm). right. apply (shard_recs_serialized _ _ _ _ _ _ _ Hb). left. reflexivity.
  - intro H. apply (merge_invents_nothing _ _ _ _ _ _ _ _ _ _ _ _ _ Ha Hb Hu Hm) in H as [H|H].
    + apply (shard_recs_serialized _ _ _ _ _ _ _ Ha) in H. destruct H as [H|[]]. vm_compute in H. discriminate.
    + apply (shard_recs_serialized _ _ _ _ _ _ _ Hb) in H. destruct H as [H|[]]. vm_compute in H. discriminate.
Qed.

(* C19 with its premise discharged: consolidating two serialized shards of a directory -- write the merged shard under the name
   of its content hash, then unlink the inputs -- is a safe plan: stopped after any number of its file-system effects, every
   file under a final name is named by its content and every file or xorb key retrievable before is retrievable *)
From XetModel Require Import Proofs.CrashProofs.
Theorem consolidate_pair_safe (final : fname -> bool) f t na nb fa ca ta ka cra exa fb cb tb kb crb exb m :
  let A := w_bs fa ca ta ka cra exa in let B := w_bs fb cb tb kb crb exb in
  ShardOk fa ca ta ka cra exa -> ShardOk fb cb tb kb crb exb ->
  ShardOk (union_files (length fa + length fb) fa fb) (union_cas (length ca + length cb) ca cb) (d_ctbl (union_cas (length ca + length cb) ca cb)) zero_hash 0 u64max ->
  merge_bytes A B = Some m ->
  flookup f na = Some A -> flookup f nb = Some B ->
  final t = false -> final (shard_name m) = true -> na <> shard_name m -> nb <> shard_name m -> na <> t -> nb <> t ->
  (forall c0, flookup f (shard_name m) = Some c0 -> c0 = m) ->
  SafePlan skey final (fun p c => p = shard_name c) shard_recs f (PWrite t (shard_name m) [m] :: map PUnlink [na; nb]).
Proof.
  intros A B Ha Hb Hu Hm La Lb Ft Fm Na Nb Ta Tb Hex.
  apply group_plan_safe; try assumption; try reflexivity.
  - intros c0 H x Hx. rewrite (Hex c0 H) in Hx. exact Hx.
  - intros d [<-|[<-|[]]].
    + split; [exact Na|]. split; [exact Ta|]. intros c Hc x Hx. rewrite La in Hc. injection Hc as <-.
      apply (merge_covers_inputs _ _ _ _ _ _ _ _ _ _ _ _ _ Ha Hb Hu Hm). left. exact Hx.
    + split; [exact Nb|]. split; [exact Tb|]. intros c Hc x Hx. rewrite Lb in Hc. injection Hc as <-.
      apply (merge_covers_inputs _ _ _ _ _ _ _ _ _ _ _ _ _ Ha Hb Hu Hm). right. exact Hx.
Qed.
