(* C16, the session as a whole and composed with the deduper (C01): a session whose calls all returned Ok had no failed
   store call, stored every xorb its shards name, and every file it completed downloads to its bytes from the store. *)
From Coq Require Import ZArith NArith Bool List Lia Permutation.
Import ListNotations.
From XetModel Require Import Base.Codec Gen.ShardLayout Gen.DedupFacts Gen.XorbLayout Model.Merkle Model.Shard Model.Dedup Model.Cache Model.Chunker Model.Reconstruct Model.Xorb Model.Upload
  Proofs.ChunkerProofs Proofs.ChunkerLaws Proofs.ResolveProofs Proofs.ReconstructProofs Proofs.UploadProofs Proofs.EndToEndProofs.

Lemma register_recorded s x : u_recorded (fst (register true s x)) = x :: u_recorded s.
Proof. unfold register. cbn [andb]. destruct (u_sticky s); [reflexivity|]. destruct (reap (u_tasks s)) as [ts e]. destruct e; reflexivity. Qed.
Lemma finish_recorded s x ok : u_recorded (finish s x ok) = u_recorded s.
Proof. unfold finish. destruct (negb _); reflexivity. Qed.
Lemma urun_recorded es : forall s, u_recorded (urun true s es) = rev (regs es) ++ u_recorded s.
Proof.
  induction es as [|e r IH]; intro s; [reflexivity|]. change (urun true s (e :: r)) with (urun true (ustep true s e) r). rewrite IH. destruct e as [x|x ok]; unfold regs; cbn [ustep flat_map app rev].
  - rewrite register_recorded. rewrite <- app_assoc. reflexivity.
  - rewrite finish_recorded. reflexivity.
Qed.

(* success, as the caller sees it, means: no store call failed, every registered xorb is stored, every shard upload
   succeeded -- for every order of registrations and completions and every choice of failures *)
Theorem session_success es shards : session_result true es shards = Some true ->
  let s := urun true u_init es in
  (forall x, In x (regs es) -> In x (u_stored s)) /\ u_failed s = [] /\ (forall b, In b shards -> b = true) /\ regs_ok true u_init es = true.
Proof.
  intro H. cbv zeta. set (s := urun true u_init es). unfold session_result in H. fold s in H. destruct (finalize_join true s) as [j|] eqn:Ej; [|discriminate]. injection H as H.
  apply andb_true_iff in H. destruct H as [H Hs]. apply andb_true_iff in H. destruct H as [Hr Hj]. subst j.
  assert (I : UInv s) by (apply urun_inv; exact UInv_init).
  split; [|split; [|split]].
  - intros x Hx. apply (shard_after_xorbs s I Ej). unfold s. rewrite urun_recorded. apply in_or_app. left. apply -> in_rev. exact Hx.
  - destruct (u_failed s) as [|x r] eqn:Ef; [reflexivity|]. exfalso. apply (failure_fails_finalize s x I); [rewrite Ef; left; reflexivity | exact Ej].
  - rewrite forallb_forall in Hs. exact Hs.
  - exact Hr.
Qed.
(* the property's wording: a failed xorb upload or a failed shard upload makes some call return an error *)
Theorem failure_is_reported es shards r : session_result true es shards = Some r ->
  u_failed (urun true u_init es) <> [] \/ In false shards -> r = false.
Proof.
  intros H Hf. destruct r; [|reflexivity]. exfalso. destruct (session_success es shards H) as (_ & F & S & _). destruct Hf as [Hf|Hf]; [exact (Hf F)|].
  specialize (S _ Hf). discriminate.
Qed.

(* composed with the deduper and the download: the deduper's session hands its xorbs to the upload path, which registers
   them in that order under the numbers 0, 1, ..; the store holds at least what the successful puts stored.  Then a
   session that reported success has every completed file downloadable, byte for byte. *)
Section Composed.
  Variable content : hash -> bytes.
  Variable hashf : bytes -> hash.
  Theorem success_means_reconstructible F U rc cf ops es shards target c calls chs fh :
    let ups := rev (s_uploaded (srun rc cf ops)) in
    regs es = seq 0 (length ups) ->
    (forall i x, In i (u_stored (urun true u_init es)) -> nth_error ups i = Some x -> In x F) ->
    session_result true es shards = Some true ->
    chunker_new target = Some c -> api_ok calls = true -> run_calls c st0 calls = Some chs ->
    StoreOk F U -> Forall (op_ok F U) ops ->
    In (fh, ids_of hashf chs) (ghosts ops) ->
    (forall ch, In ch chs -> content (hashf ch) = ch) ->
    let data := concat (map fst calls) in
    exists fi, In fi (s_shard_files (srun rc cf ops)) /\ fi_hash fi = fh /\
      let terms := map (term_of content F) (fi_segs fi) in
      seq_write terms true 0 (lenN data) = Some data /\
      forall order out n, Permutation order (seq 0 (length terms)) -> par_write terms (map lenN terms) 0 (lenN data) order = Some (out, n) -> out = data.
  Proof.
    intros ups Hreg Hst Hok Hn Ha Hr HS Hops Hg Hc. apply (upload_then_download content hashf F U rc cf ops target c calls chs fh); try assumption.
    intros x Hx. destruct (session_success es shards Hok) as (Hstored & _).
    assert (Hx' : In x ups) by (unfold ups; apply -> in_rev; exact Hx). destruct (In_nth_error _ _ Hx') as [i Hi].
    apply (Hst i x); [|exact Hi]. apply Hstored. rewrite Hreg. apply in_seq. split; [lia|]. cbn [plus]. apply nth_error_Some. intro E. rewrite E in Hi. discriminate.
  Qed.
End Composed.

(* non-vacuity: three xorbs, the second finishes first, one shard: success; and the same with the second put failing:
   the registration that observes the failure returns an error and the session reports failure *)
Example session_examples :
  session_result true [URegister 0; URegister 1; UFinish 1 true; URegister 2; UFinish 0 true; UFinish 2 true] [true] = Some true /\
  session_result true [URegister 0; URegister 1; UFinish 1 false; URegister 2; UFinish 0 true] [true] = Some false /\
  session_result true [URegister 0; UFinish 0 true] [true; false] = Some false.
Proof. repeat split; reflexivity. Qed.
(* and the premises of the composed theorem hold for the session of ResolveProofs' example (one xorb, registered as number 0,
   its put succeeds, one shard) *)
Example composed_example :
  let ups := rev (s_uploaded (srun true ex_cfg2 ex_ops)) in let es := [URegister 0; UFinish 0 true] in
  regs es = seq 0 (length ups) /\ session_result true es [true] = Some true /\
  forall i x, In i (u_stored (urun true u_init es)) -> nth_error ups i = Some x -> In x ex_F.
Proof.
  split; [vm_compute; reflexivity|]. split; [vm_compute; reflexivity|].
  intros i x Hi H. vm_compute in Hi. destruct Hi as [<-|[]]. vm_compute in H. injection H as <-. vm_compute. auto 8.
Qed.
