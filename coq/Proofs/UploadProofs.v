(* Upload session (Model/Upload.v), C16: for every order in which uploads finish and every set of failures, the shard
   upload starts only when every xorb the session shard names is stored, and a failed upload always makes finalize
   fail. *)
From Coq Require Import List NArith Bool Arith Lia.
Import ListNotations.
From XetModel Require Import Model.Upload.

Definition UInv (s : usess) : Prop :=
  (forall x, In x (u_recorded s) -> In x (u_stored s) \/ (exists st, In (x, st) (u_tasks s)) \/ u_sticky s = true) /\
  (forall x, In x (u_failed s) -> In (x, FinishedErr) (u_tasks s) \/ u_sticky s = true) /\
  (forall x, In (x, FinishedOk) (u_tasks s) -> In x (u_stored s)).

Lemma UInv_init : UInv u_init.
Proof. repeat split; cbn; intros x H; destruct H. Qed.

Lemma reap_ok ts : forall r, reap ts = (r, false) ->
  (forall x, ~ In (x, FinishedErr) ts) /\ (forall x st, In (x, st) ts -> st = FinishedOk \/ In (x, st) r) /\ (forall t, In t r -> In t ts).
Proof.
  induction ts as [|[y st] ts IH]; intros r H; cbn [reap] in H.
  - injection H as <-. repeat split; intros; try contradiction; auto.
  - destruct st.
    + destruct (reap ts) as [r' e] eqn:E. injection H as <- ->. destruct (IH r' eq_refl) as (A & B & C). repeat split.
      * intros x [H|H]; [discriminate | exact (A x H)].
      * intros x st [H|H]; [injection H as <- <-; right; left; reflexivity | destruct (B x st H); [left; assumption | right; right; assumption]].
      * intros t [H|H]; [left; exact H | right; apply C; exact H].
    + destruct (IH r H) as (A & B & C). repeat split.
      * intros x [H0|H0]; [discriminate | exact (A x H0)].
      * intros x st [H0|H0]; [injection H0 as <- <-; left; reflexivity | apply B; exact H0].
      * intros t H0. right. apply C. exact H0.
    + discriminate.
Qed.

Lemma reap_sub ts : forall r e, reap ts = (r, e) -> forall t, In t r -> In t ts.
Proof.
  induction ts as [|[y st] l IH]; intros r e H t Ht; cbn [reap] in H.
  - injection H as <- _. destruct Ht.
  - destruct st.
    + destruct (reap l) as [r' e'] eqn:E. injection H as <- _. destruct Ht as [Ht|Ht]; [left; exact Ht | right; eapply IH; eauto].
    + right. eapply IH; eauto.
    + injection H as <- _. right. exact Ht.
Qed.

Lemma set_status_in ts x st : forall y sy, In (y, sy) (set_status ts x st) -> In (y, sy) ts \/ (y = x /\ sy = st /\ In (x, Running) ts).
Proof.
  induction ts as [|[z sz] ts IH]; intros y sy H; cbn [set_status] in H; [contradiction|].
  destruct sz.
  - destruct (Nat.eqb_spec x z) as [->|N].
    + destruct H as [H|H]; [injection H as <- <-; right; repeat split; left; reflexivity | left; right; exact H].
    + destruct H as [H|H]; [left; left; exact H|]. destruct (IH y sy H) as [A|(A & B & C)]; [left; right; exact A | right; repeat split; auto; right; exact C].
  - destruct H as [H|H]; [left; left; exact H|]. destruct (IH y sy H) as [A|(A & B & C)]; [left; right; exact A | right; repeat split; auto; right; exact C].
  - destruct H as [H|H]; [left; left; exact H|]. destruct (IH y sy H) as [A|(A & B & C)]; [left; right; exact A | right; repeat split; auto; right; exact C].
Qed.
Lemma set_status_keeps ts x st : forall y sy, In (y, sy) ts -> sy <> Running -> In (y, sy) (set_status ts x st).
Proof.
  induction ts as [|[z sz] ts IH]; intros y sy H N; cbn [set_status]; [contradiction|].
  destruct H as [H|H].
  - injection H as -> ->. destruct sy; [contradiction | left; reflexivity | left; reflexivity].
  - destruct sz; [destruct (Nat.eqb x z); [right; exact H | right; apply IH; assumption] | right; apply IH; assumption | right; apply IH; assumption].
Qed.
Lemma set_status_ids ts x st : forall y sy, In (y, sy) ts -> exists sy', In (y, sy') (set_status ts x st).
Proof.
  induction ts as [|[z sz] ts IH]; intros y sy H; cbn [set_status]; [contradiction|].
  destruct H as [H|H].
  - injection H as -> ->. destruct sy; [destruct (Nat.eqb x y); eexists; left; reflexivity | eexists; left; reflexivity | eexists; left; reflexivity].
  - destruct (IH y sy H) as [sy' H']. destruct sz; [destruct (Nat.eqb x z); [exists sy; right; exact H | exists sy'; right; exact H'] | exists sy'; right; exact H' | exists sy'; right; exact H'].
Qed.
Lemma set_status_sets ts x st : has_running ts x = true -> In (x, st) (set_status ts x st).
Proof.
  induction ts as [|[z sz] ts IH]; cbn [has_running existsb set_status fst snd]; [discriminate|]. intro H.
  destruct sz; cbn [andb] in H.
  - destruct (Nat.eqb_spec z x) as [->|N]; cbn [orb andb] in H.
    + rewrite Nat.eqb_refl. left. reflexivity.
    + destruct (Nat.eqb_spec x z) as [E|_]; [congruence|]. right. apply IH. exact H.
  - rewrite andb_false_r in H. right. apply IH. exact H.
  - rewrite andb_false_r in H. right. apply IH. exact H.
Qed.

Theorem ustep_inv s e : UInv s -> UInv (ustep true s e).
Proof.
  intros (I1 & I2 & I3). destruct e as [x|x ok]; cbn [ustep].
  - unfold register. cbn [andb]. destruct (u_sticky s) eqn:Es.
    + cbn [fst]. repeat split; cbn [u_recorded u_stored u_tasks u_sticky u_failed]; auto.
    + destruct (reap (u_tasks s)) as [ts e] eqn:Er. destruct e; cbn [fst].
      * (* a failed task was reaped: the session is marked failed, every clause holds through the flag or is about
           tasks that were already there *)
        pose proof (reap_sub _ _ _ Er) as Hsub.
        repeat split; cbn [u_recorded u_stored u_tasks u_sticky u_failed]; auto; intros y Hy; apply I3, Hsub, Hy.
      * destruct (reap_ok _ _ Er) as (A & B & C). repeat split; cbn [u_recorded u_stored u_tasks u_sticky u_failed].
        -- intros y [<-|Hy]; [right; left; exists Running; apply in_or_app; right; left; reflexivity|].
           destruct (I1 y Hy) as [H|[[st H]|H]]; [left; exact H | | congruence].
           destruct (B y st H) as [->|H']; [left; apply I3; exact H | right; left; exists st; apply in_or_app; left; exact H'].
        -- intros y Hy. destruct (I2 y Hy) as [H|H]; [exfalso; exact (A y H) | congruence].
        -- intros y Hy. apply in_app_or in Hy as [Hy|[Hy|[]]]; [apply I3, C, Hy | discriminate].
  - unfold finish. destruct (has_running (u_tasks s) x) eqn:Hr; cbn [negb]; [|repeat split; assumption].
    repeat split; cbn [u_recorded u_stored u_tasks u_sticky u_failed].
    + intros y Hy. destruct (I1 y Hy) as [H|[[st H]|H]]; [left; destruct ok; [right|]; exact H | | right; right; exact H].
      right. left. destruct (set_status_ids _ x (if ok then FinishedOk else FinishedErr) y st H) as [st' H']. exists st'. exact H'.
    + intros y Hy. destruct ok.
      * destruct (I2 y Hy) as [H|H]; [left; apply set_status_keeps; [exact H | discriminate] | right; exact H].
      * destruct Hy as [<-|Hy]; [left; apply set_status_sets; exact Hr|].
        destruct (I2 y Hy) as [H|H]; [left; apply set_status_keeps; [exact H | discriminate] | right; exact H].
    + intros y Hy. destruct (set_status_in _ _ _ _ _ Hy) as [H|(-> & E & _)].
      * destruct ok; [right|]; apply I3; exact H.
      * destruct ok; [left; reflexivity | discriminate].
Qed.

Theorem urun_inv es : forall s, UInv s -> UInv (urun true s es).
Proof. induction es as [|e r IH]; intros s H; cbn [urun fold_left]; [exact H|]. apply IH. apply ustep_inv. exact H. Qed.

(* shards follow their xorbs: when finalize gets past its join loop, every xorb the session shard names is stored *)
Theorem shard_after_xorbs s : UInv s -> finalize_join true s = Some true -> forall x, In x (u_recorded s) -> In x (u_stored s).
Proof.
  intros (I1 & I2 & I3) H x Hx. unfold finalize_join in H. cbn [andb] in H.
  destruct (u_sticky s) eqn:Es; [discriminate|]. destruct (all_finished (u_tasks s)) eqn:Ea; cbn [negb] in H; [|discriminate].
  injection H as H. apply negb_true_iff in H.
  destruct (I1 x Hx) as [H1|[[st H1]|H1]]; [exact H1 | | congruence].
  destruct st.
  - exfalso. unfold all_finished in Ea. rewrite forallb_forall in Ea. specialize (Ea _ H1). discriminate.
  - apply I3. exact H1.
  - exfalso. assert (any_err (u_tasks s) = true) by (apply existsb_exists; exists (x, FinishedErr); split; [exact H1 | reflexivity]). congruence.
Qed.

(* no swallowed failure: once an upload has failed, finalize cannot get past its join loop *)
Theorem failure_fails_finalize s x : UInv s -> In x (u_failed s) -> finalize_join true s <> Some true.
Proof.
  intros (I1 & I2 & I3) Hx H. unfold finalize_join in H. cbn [andb] in H.
  destruct (u_sticky s) eqn:Es; [discriminate|]. destruct (all_finished (u_tasks s)); cbn [negb] in H; [|discriminate].
  injection H as H. apply negb_true_iff in H. destruct (I2 x Hx) as [H1|H1]; [|congruence].
  assert (any_err (u_tasks s) = true) by (apply existsb_exists; exists (x, FinishedErr); split; [exact H1 | reflexivity]). congruence.
Qed.

(* and every registration after the failure was observed returns an error *)
Theorem sticky_rejects s x : u_sticky s = true -> snd (register true s x) = false.
Proof. intro H. unfold register. rewrite H. reflexivity. Qed.

(* the shape the source had before the repair (the observed failure is forgotten): xorb 2 fails, the registration of
   xorb 3 observes it and aborts, finalize then passes although 2 and 3 are named by the session shard and not stored *)
Definition ex_upload_history : list uev := [URegister 1; URegister 2; UFinish 2 false; URegister 3; UFinish 1 true].
Lemma forgotten_failure_refuted :
  let s := urun false u_init ex_upload_history in
  finalize_join false s = Some true /\ u_recorded s = [3; 2; 1] /\ u_stored s = [1] /\
  finalize_join true (urun true u_init ex_upload_history) = Some false.
Proof. vm_compute. repeat split; reflexivity. Qed.
