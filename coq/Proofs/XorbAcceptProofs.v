(* C08, completeness: the seekable validator accepts every serialized xorb for its own hash (the aggregate of the chunk
   hashes and lengths) and rejects it for every other hash. *)
From Coq Require Import ZArith NArith Bool List Lia ZifyBool ZifyN ZifyNat.
Import ListNotations.
From XetModel Require Import Base.Codec Gen.HashConsts Gen.XorbLayout Model.Merkle Model.Shard Model.Xorb
  Proofs.CodecProofs Proofs.DedupProofs Proofs.HashProofs Proofs.XorbProofs Proofs.XorbFooterProofs Proofs.XorbWholeProofs Proofs.XorbRangeProofs.
Open Scope N_scope.

Arguments N.add : simpl never.
Arguments N.mul : simpl never.
Arguments N.sub : simpl never.
Arguments N.ltb : simpl never.
Arguments N.leb : simpl never.
Arguments N.eqb : simpl never.
Arguments N.min : simpl never.
Arguments N.to_nat : simpl never.
Arguments N.of_nat : simpl never.

Definition node_of (c : list N) : node := (compute_data_hash c, N.of_nat (length c)).

Lemma nsumN_app a b : nsumN (a ++ b) = nsumN a + nsumN b.
Proof. unfold nsumN. induction a as [|x a IH]; cbn [app fold_right]; [lia | rewrite IH; lia]. Qed.
Lemma firstn_app_exact {A} (a b : list A) : firstn (length a) (a ++ b) = a.
Proof. rewrite firstn_app, Nat.sub_diag, firstn_all. cbn [firstn]. apply app_nil_r. Qed.

Section WithLz4.
  Variable lz4c : list N -> list N.
  Variable lz4d : list N -> option (list N).
  Variable choose : list N -> N.
  Hypothesis lz4_roundtrip : forall x, lz4d (lz4c x) = Some x.
  Hypothesis choose_valid : forall x, choose x <= MAX_SCHEME.
  Notation ser1 := (serialize_chunk lz4c choose).

  Lemma ser1_len c scheme : N.of_nat (length (ser1 c scheme)) = 8 + N.of_nat (length (payload_of lz4c choose c scheme)).
  Proof. rewrite serialize_chunk_shape, app_length, enc_chdr_length. lia. Qed.

  Section Walk.
    Variables (cashash : hash) (chunks : list (list N)) (scheme : option N).
    Hypothesis Hvalid : Forall (chunk_valid) chunks.
    Hypothesis Hs : scheme_valid scheme.
    Let hashes := map compute_data_hash chunks.
    Let i := built_info lz4c choose cashash chunks hashes scheme.
    Variable foot : list N.
    Let bs := flat_map (fun c => ser1 c scheme) chunks ++ foot.
    Let ul (l : list (list N)) : list N := map (fun c => N.of_nat (length c)) l.

    Lemma walk_complete : forall rest done fuel acc, chunks = done ++ rest -> (length rest <= fuel)%nat ->
      validate_walk lz4d fuel bs i (N.of_nat (length done)) (N.of_nat (length (flat_map (fun c => ser1 c scheme) done))) (nsumN (ul done)) acc =
      ROk (rev acc ++ map node_of rest, N.of_nat (length (flat_map (fun c => ser1 c scheme) chunks))).
    Proof.
      induction rest as [|c r IH]; intros done fuel acc Ec Hf.
      - rewrite app_nil_r in Ec. subst done. destruct fuel; cbn [validate_walk]; change (i_num_chunks i) with (N.of_nat (length chunks)); rewrite N.eqb_refl, app_nil_r; reflexivity.
      - destruct fuel as [|f]; [cbn in Hf; lia|]. cbn [validate_walk]. change (i_num_chunks i) with (N.of_nat (length chunks)).
        assert (Hlen : length chunks = (length done + S (length r))%nat) by (rewrite Ec, app_length; reflexivity).
        replace (N.of_nat (length done) =? N.of_nat (length chunks)) with false by lia.
        set (pre := flat_map (fun c => ser1 c scheme) done).
        assert (Ebs : bs = pre ++ ser1 c scheme ++ (flat_map (fun c => ser1 c scheme) r ++ foot)).
        { unfold bs, pre. rewrite Ec, flat_map_app. cbn [flat_map]. rewrite <- !app_assoc. reflexivity. }
        replace (N.of_nat (length bs) <? N.of_nat (length pre)) with false by (rewrite Ebs, app_length; lia).
        replace (N.to_nat (N.of_nat (length pre))) with (length pre) by lia.
        rewrite Ebs at 1. rewrite skipn_app, skipn_all, Nat.sub_diag. cbn [skipn app].
        assert (Hc : chunk_valid c). { rewrite Forall_forall in Hvalid. apply Hvalid. rewrite Ec. apply in_or_app. right. left. reflexivity. }
        rewrite (chunk_roundtrip lz4c lz4d choose lz4_roundtrip choose_valid) by assumption.
        (* the footer entries for this chunk *)
        replace (N.to_nat (N.of_nat (length done))) with (length done) by lia.
        assert (Eh : nth_error (i_hashes i) (length done) = Some (compute_data_hash c)).
        { change (i_hashes i) with (map compute_data_hash chunks). rewrite Ec, map_app, nth_error_app2 by (rewrite map_length; lia). rewrite map_length, Nat.sub_diag. reflexivity. }
        rewrite Eh.
        assert (Eb : nthN (i_boundaries i) (N.of_nat (length done)) = Some (N.of_nat (length pre) + N.of_nat (length (ser1 c scheme)))).
        { unfold nthN. change (i_boundaries i) with (cumsum (phys_lens lz4c choose chunks scheme) 0).
          replace (N.to_nat (N.of_nat (length done))) with (length done) by lia.
          rewrite cumsum_nth by (unfold phys_lens; rewrite map_length; lia). f_equal.
          unfold phys_lens. rewrite Ec, map_app. replace (S (length done)) with (length (map (fun c0 => N.of_nat (length (ser1 c0 scheme))) done) + 1)%nat by (rewrite map_length; lia).
          rewrite nsumN_firstn_skipn. rewrite firstn_app_exact. rewrite skipn_app, skipn_all, Nat.sub_diag. cbn [skipn app map firstn].
          unfold pre. rewrite (flat_map_length_lens (fun c0 => ser1 c0 scheme) done). unfold lens, nsumN. cbn [fold_right]. lia. }
        rewrite Eb. rewrite bytes_eqb_refl. cbn [negb].
        rewrite <- ser1_len. rewrite N.eqb_refl. cbn [negb].
        assert (Eu : nthN (i_unpacked i) (N.of_nat (length done)) = Some (nsumN (ul done) + N.of_nat (length c))).
        { unfold nthN. change (i_unpacked i) with (cumsum (ul chunks) 0). replace (N.to_nat (N.of_nat (length done))) with (length done) by lia.
          rewrite cumsum_nth by (unfold ul; rewrite map_length; lia). f_equal.
          unfold ul. rewrite Ec, map_app. replace (S (length done)) with (length (map (fun c0 : list N => N.of_nat (length c0)) done) + 1)%nat by (rewrite map_length; lia).
          rewrite nsumN_firstn_skipn. rewrite firstn_app_exact. rewrite skipn_app, skipn_all, Nat.sub_diag. cbn [skipn app map firstn]. unfold nsumN. cbn [fold_right]. lia. }
        rewrite Eu. change (i_bnd_version i =? CAS_OBJECT_FORMAT_BOUNDARIES_VERSION) with true. rewrite !N.eqb_refl. cbn [negb andb].
        specialize (IH (done ++ [c]) f ((compute_data_hash c, N.of_nat (length c)) :: acc)).
        rewrite app_length in IH. cbn [length] in IH. replace (N.of_nat (length done + 1)) with (N.of_nat (length done) + 1) in IH by lia.
        rewrite flat_map_app in IH. cbn [flat_map] in IH. rewrite app_nil_r in IH. fold pre in IH. rewrite app_length in IH.
        replace (N.of_nat (length pre + length (ser1 c scheme))) with (N.of_nat (length pre) + N.of_nat (length (ser1 c scheme))) in IH by lia.
        unfold ul in IH. rewrite map_app, nsumN_app in IH. cbn [map] in IH. unfold nsumN at 2 in IH. cbn [fold_right] in IH.
        replace (N.of_nat (length c) + 0) with (N.of_nat (length c)) in IH by lia. fold (ul done) in IH.
        rewrite IH; [ | rewrite <- app_assoc; exact Ec | cbn [length] in Hf; lia].
        cbn [rev map]. rewrite <- app_assoc. reflexivity.
    Qed.
  End Walk.

  (* what makes a serialized xorb valid: the chunk hashes are the data hashes of the chunks, the xorb hash is the aggregate of
     (chunk hash, chunk length) *)
  Theorem valid_xorb_accepted chunks scheme cashash h :
    let hashes := map compute_data_hash chunks in
    xorb_input_ok cashash chunks hashes -> fold_right N.add 0 (phys_lens lz4c choose chunks scheme) < 4294967296 ->
    chunks <> [] -> scheme_valid scheme ->
    cas_node_hash compute_internal_node_hash (map node_of chunks) = Some cashash ->
    validate_cas_object lz4d (xorb_serialize lz4c choose cashash chunks hashes scheme) h =
    if bytes_eqb cashash h then ROk (built_info lz4c choose cashash chunks hashes scheme) else RReject.
  Proof.
    cbv zeta. intros Hin Hp Hne Hs Hroot. pose proof Hin as (H1 & H2 & H3 & H4 & H5 & H6).
    set (hashes := map compute_data_hash chunks) in *. set (i := built_info lz4c choose cashash chunks hashes scheme).
    unfold validate_cas_object. rewrite (xorb_footer_roundtrip lz4c lz4d choose lz4_roundtrip choose_valid) by assumption. fold i.
    rewrite xorb_serialize_shape. fold i. set (foot := ser_info i ++ u32 (N.of_nat (length (ser_info i)))).
    change (i_num_chunks i) with (N.of_nat (length chunks)).
    pose proof (walk_complete cashash chunks scheme H4 Hs foot chunks [] (S (N.to_nat (N.of_nat (length chunks)))) [] eq_refl ltac:(lia)) as W.
    cbn [length flat_map map] in W. change (nsumN []) with 0 in W. change (N.of_nat 0) with 0 in W. fold hashes in W. fold i in W. rewrite W. cbn [rev app].
    replace (N.of_nat (length chunks) =? 0) with false by (destruct chunks; [congruence | cbn [length]; lia]). cbn [orb].
    assert (Hw : wf_info i) by (apply (built_info_wf lz4c lz4d choose lz4_roundtrip choose_valid); assumption).
    assert (El : N.of_nat (length (flat_map (fun c => ser1 c scheme) chunks)) + info_len i + 4 =
                 N.of_nat (length (flat_map (fun c => ser1 c scheme) chunks ++ foot))).
    { unfold foot. rewrite !app_length. pose proof (ser_info_length i Hw). unfold u32. cbn [length le_bytes]. lia. }
    rewrite El, N.eqb_refl. cbn [negb].
    rewrite validator_eq_uploader, Hroot. change (i_cashash i) with cashash. rewrite bytes_eqb_refl, andb_true_r. reflexivity.
  Qed.

  (* ---- the streaming validator ---- *)
  Lemma stream_step c scheme rest fuel offs nodes last : scheme_valid scheme -> chunk_valid c ->
    stream_walk lz4d (S fuel) (ser1 c scheme ++ rest) offs nodes last =
    stream_walk lz4d fuel rest ((last + N.of_nat (length (ser1 c scheme))) :: offs) (node_of c :: nodes) (last + N.of_nat (length (ser1 c scheme))).
  Proof.
    intros Hs Hc. rewrite ser1_len. rewrite serialize_chunk_shape. rewrite <- app_assoc.
    set (hd := mkHdr CHUNK_CURRENT_VERSION (N.of_nat (length (payload_of lz4c choose c scheme))) (used_scheme lz4c choose c scheme) (N.of_nat (length c))).
    cbn [stream_walk].
    destruct (enc_chdr hd ++ payload_of lz4c choose c scheme ++ rest) as [|b0 bt] eqn:Eb; [destruct (enc_chdr hd) eqn:E; [discriminate E | discriminate Eb]|].
    rewrite <- Eb. rewrite take_app by apply enc_chdr_length.
    assert (Hid : bytes_eqb (firstn 7 (enc_chdr hd)) CAS_OBJECT_FORMAT_IDENT = false).
    { unfold enc_chdr, hd. cbn [h_version app firstn]. unfold CHUNK_CURRENT_VERSION, CAS_OBJECT_FORMAT_IDENT. cbn [bytes_eqb]. reflexivity. }
    rewrite Hid. cbn [andb].
    rewrite dec_enc_chdr by (apply (chunk_hdr_ok lz4c lz4d choose lz4_roundtrip choose_valid); assumption). unfold hd at 1 2 3. cbn [h_clen h_scheme h_ulen].
    replace (N.to_nat (N.of_nat (length (payload_of lz4c choose c scheme)))) with (length (payload_of lz4c choose c scheme)) by lia.
    rewrite take_app by reflexivity. rewrite (payload_decompress lz4c lz4d choose lz4_roundtrip choose_valid) by assumption. rewrite N.eqb_refl. cbn [negb].
    unfold hd. cbn [h_clen]. replace (last + 8 + N.of_nat (length (payload_of lz4c choose c scheme))) with (last + (8 + N.of_nat (length (payload_of lz4c choose c scheme)))) by lia.
    reflexivity.
  Qed.

  Lemma stream_chunks : forall rest done_len fuel offs nodes foot scheme, Forall chunk_valid rest -> scheme_valid scheme -> (length rest <= fuel)%nat ->
    stream_walk lz4d (fuel + 1) (flat_map (fun c => ser1 c scheme) rest ++ foot) offs nodes done_len =
    stream_walk lz4d (fuel - length rest + 1) foot
      (rev (cumsum (map (fun c => N.of_nat (length (ser1 c scheme))) rest) done_len) ++ offs) (rev (map node_of rest) ++ nodes)
      (done_len + nsumN (map (fun c => N.of_nat (length (ser1 c scheme))) rest)).
  Proof.
    induction rest as [|c r IH]; intros done_len fuel offs nodes foot scheme HF Hs Hf.
    - cbn [flat_map app map cumsum rev length]. change (nsumN []) with 0. replace (done_len + 0) with done_len by lia. replace (fuel - 0 + 1)%nat with (fuel + 1)%nat by lia. reflexivity.
    - inversion HF; subst. cbn [flat_map]. rewrite <- app_assoc. destruct fuel as [|f]; [cbn in Hf; lia|].
      replace (S f + 1)%nat with (S (f + 1)) by lia. rewrite stream_step by assumption.
      rewrite IH; [ | assumption | assumption | cbn [length] in Hf; lia].
      cbn [map cumsum rev length]. replace (S f - S (length r) + 1)%nat with (f - length r + 1)%nat by lia.
      rewrite <- !app_assoc. cbn [app]. f_equal. unfold nsumN. cbn [fold_right]. lia.
  Qed.

  Lemma stream_footer i fuel offs nodes last : wf_info i ->
    stream_walk lz4d (S fuel) (ser_info i ++ u32 (N.of_nat (length (ser_info i)))) offs nodes last = ROk (Some (i, info_len i), rev offs, rev nodes).
  Proof.
    intro Hw. pose proof (ser_info_length i Hw) as HL. pose proof (parse_ser_info i (u32 (N.of_nat (length (ser_info i)))) Hw) as HP.
    assert (Es : exists t, ser_info i = CAS_OBJECT_FORMAT_IDENT ++ [CAS_OBJECT_FORMAT_VERSION] ++ t) by (eexists; reflexivity).
    destruct Es as [t Et].
    assert (Hu : is_u32 (N.of_nat (length (ser_info i)))).
    { rewrite HL. destruct Hw as (_ & _ & _ & _ & _ & _ & _ & _ & _ & _ & _ & W). unfold is_u32, info_len. exact W. }
    remember (ser_info i ++ u32 (N.of_nat (length (ser_info i)))) as bs eqn:Ebs.
    assert (T8 : take 8 bs = Some (CAS_OBJECT_FORMAT_IDENT ++ [CAS_OBJECT_FORMAT_VERSION], t ++ u32 (N.of_nat (length (ser_info i))))).
    { rewrite Ebs, Et. rewrite <- !app_assoc. rewrite (app_assoc CAS_OBJECT_FORMAT_IDENT). apply take_app. reflexivity. }
    assert (Hskip : rd_u32 (skipn (N.to_nat (info_len i)) bs) = Some (info_len i, [])).
    { rewrite <- HL. replace (N.to_nat (N.of_nat (length (ser_info i)))) with (length (ser_info i)) by lia.
      rewrite Ebs, skipn_app, skipn_all, Nat.sub_diag. cbn [skipn app].
      rewrite <- (app_nil_r (u32 (N.of_nat (length (ser_info i))))). apply rd_u32_app. exact Hu. }
    destruct bs as [|b0 bt]; [rewrite Et in Ebs; discriminate Ebs|].
    cbn [stream_walk]. rewrite T8.
    change (bytes_eqb (firstn 7 (CAS_OBJECT_FORMAT_IDENT ++ [CAS_OBJECT_FORMAT_VERSION])) CAS_OBJECT_FORMAT_IDENT) with true.
    change (nth 7 (CAS_OBJECT_FORMAT_IDENT ++ [CAS_OBJECT_FORMAT_VERSION]) 0) with CAS_OBJECT_FORMAT_VERSION.
    replace (CAS_OBJECT_FORMAT_VERSION <? CAS_OBJECT_FORMAT_VERSION) with false by lia. rewrite N.eqb_refl. cbn [andb].
    rewrite HP, Hskip. rewrite N.eqb_refl. reflexivity.
  Qed.

  Lemma list_eqbN_refl : forall l, list_eqbN l l = true.
  Proof. induction l as [|x l IH]; [reflexivity|]. cbn [list_eqbN]. rewrite N.eqb_refl, IH. reflexivity. Qed.
  Lemma hashes_match_own : forall chunks, hashes_match (map compute_data_hash chunks) (map node_of chunks) = true.
  Proof. induction chunks as [|c r IH]; [reflexivity|]. cbn [map hashes_match node_of fst]. rewrite bytes_eqb_refl, IH. reflexivity. Qed.
  Lemma unpacked_match_own : forall chunks acc, acc + nsumN (map (fun c : list N => N.of_nat (length c)) chunks) < 4294967296 ->
    unpacked_match (cumsum (map (fun c : list N => N.of_nat (length c)) chunks) acc) (map node_of chunks) acc = true.
  Proof.
    induction chunks as [|c r IH]; intros acc H; [reflexivity|]. cbn [map cumsum unpacked_match node_of snd].
    unfold nsumN in H. cbn [map fold_right] in H. fold (nsumN (map (fun c : list N => N.of_nat (length c)) r)) in H.
    assert (E : N.land (acc + N.of_nat (length c)) 4294967295 = acc + N.of_nat (length c)).
    { change 4294967295 with (N.ones 32). rewrite N.land_ones. apply N.mod_small. lia. }
    rewrite E, N.eqb_refl. cbn [andb]. apply IH. lia.
  Qed.

  Theorem valid_xorb_accepted_stream chunks scheme cashash h :
    let hashes := map compute_data_hash chunks in
    xorb_input_ok cashash chunks hashes -> fold_right N.add 0 (phys_lens lz4c choose chunks scheme) < 4294967296 ->
    chunks <> [] -> scheme_valid scheme ->
    cas_node_hash compute_internal_node_hash (map node_of chunks) = Some cashash ->
    validate_stream lz4d (xorb_serialize lz4c choose cashash chunks hashes scheme) h =
    if bytes_eqb cashash h then ROk 1 else RReject.
  Proof.
    cbv zeta. intros Hin Hp Hne Hs Hroot. pose proof Hin as (H1 & H2 & H3 & H4 & H5 & H6).
    set (hashes := map compute_data_hash chunks) in *. set (i := built_info lz4c choose cashash chunks hashes scheme).
    assert (Hw : wf_info i) by (apply (built_info_wf lz4c lz4d choose lz4_roundtrip choose_valid); assumption).
    unfold validate_stream. rewrite xorb_serialize_shape. fold i.
    set (body := flat_map (fun c => ser1 c scheme) chunks). set (foot := ser_info i ++ u32 (N.of_nat (length (ser_info i)))).
    assert (Hlb : (length chunks <= length body)%nat).
    { unfold body. clear. induction chunks as [|c r IH]; [cbn; lia|]. cbn [flat_map length]. rewrite app_length.
      assert (1 <= length (ser1 c scheme))%nat by (rewrite serialize_chunk_shape, app_length; cbn [length enc_chdr app le_bytes]; lia). lia. }
    replace (S (length (body ++ foot))) with (length (body ++ foot) + 1)%nat by lia.
    unfold body. rewrite stream_chunks; [ | exact H4 | exact Hs | fold body; rewrite app_length; lia].
    fold body. replace (length (body ++ foot) - length chunks + 1)%nat with (S (length (body ++ foot) - length chunks)) by lia.
    unfold foot. rewrite stream_footer by exact Hw. rewrite !app_nil_r, !rev_involutive.
    cbv beta iota. change (i_cashash i) with cashash. change (i_num_chunks i) with (N.of_nat (length chunks)).
    change (i_boundaries i) with (cumsum (phys_lens lz4c choose chunks scheme) 0). change (i_hashes i) with (map compute_data_hash chunks).
    change (i_unpacked i) with (cumsum (map (fun c : list N => N.of_nat (length c)) chunks) 0).
    rewrite !map_length. unfold phys_lens. rewrite list_eqbN_refl, !N.eqb_refl, hashes_match_own.
    rewrite unpacked_match_own.
    2:{ assert (E : forall l : list (list N), N.of_nat (length (flat_map (fun c => c) l)) = nsumN (map (fun c => N.of_nat (length c)) l)).
        { unfold nsumN. induction l as [|c r IH]; [reflexivity|]. cbn [flat_map map fold_right]. rewrite app_length. lia. }
        rewrite <- E. lia. }
    rewrite !andb_true_r. destruct (bytes_eqb cashash h) eqn:Eh; cbn [negb]; [|reflexivity].
    rewrite validator_eq_uploader, Hroot. rewrite Eh. reflexivity.
  Qed.
End WithLz4.
