(* Singleflight (C20), liveness: every schedule of n callers is at most 14 n events long -- a measure decreases with every
   event, arrivals and the environment's task outcomes included -- and a state in which no event other than an arrival is
   enabled has served every caller that arrived.  Together: every maximal schedule is finite and ends with every caller
   holding its outcome; what remains outside the model is the runtime's fairness (an enabled step is eventually taken) and
   that the supplied task finishes. *)
From Coq Require Import List NArith Bool Arith Lia.
Import ListNotations.
From XetModel Require Import Model.Singleflight Proofs.SingleflightProofs.
Close Scope N_scope.
Open Scope nat_scope.

Fixpoint sumf (f : nat -> nat) (n : nat) : nat := match n with O => O | S m => sumf f m + f m end.
Lemma sumf_le f g n : (forall i, i < n -> f i <= g i) -> sumf f n <= sumf g n.
Proof. induction n as [|m IH]; intro H; cbn [sumf]; [lia|]. pose proof (H m (Nat.lt_succ_diag_r m)). assert (sumf f m <= sumf g m) by (apply IH; intros i Hi; apply H; lia). lia. Qed.
Lemma sumf_ext f g n : (forall i, i < n -> f i = g i) -> sumf f n = sumf g n.
Proof. induction n as [|m IH]; intro H; cbn [sumf]; [reflexivity|]. rewrite (H m) by lia. rewrite IH; [reflexivity|]. intros i Hi. apply H. lia. Qed.
Lemma sumf_upd {A} (w : A -> nat) (f : nat -> A) i x n : i < n ->
  sumf (fun j => w (upd f i x j)) n + w (f i) = sumf (fun j => w (f j)) n + w x.
Proof.
  induction n as [|m IH]; intro H; [lia|]. cbn [sumf]. destruct (Nat.eq_dec i m) as [->|N].
  - rewrite upd_same. rewrite (sumf_ext (fun j => w (upd f m x j)) (fun j => w (f j)) m); [lia|]. intros j Hj. rewrite upd_other by lia. reflexivity.
  - rewrite (upd_other f i x m) by lia. assert (i < m) by lia. specialize (IH H0). lia.
Qed.
Lemma sumf_upd_out {A} (w : A -> nat) (f : nat -> A) i x n : n <= i -> sumf (fun j => w (upd f i x j)) n = sumf (fun j => w (f j)) n.
Proof. intro H. apply sumf_ext. intros j Hj. rewrite upd_other by lia. reflexivity. Qed.

Definition crank (p : cpc) : nat :=
  match p with
  | CIdle => 14 | CArrive _ => 13 | CGotCall _ _ _ => 7 | CSpawn _ _ _ => 6
  | CWait _ _ _ false => 5 | CWait _ _ _ true => 4 | CRemove _ _ _ => 1 | CReturned _ _ _ => 0
  end.
Definition tleft (t : tstate) : nat := 5 - trank t.
(* what is left to do: for the callers 0..n-1 and the calls created so far *)
Definition csum (n : nat) (callers : nat -> cpc) : nat := sumf (fun c => crank (callers c)) n.
Definition tsum (m : nat) (calls : nat -> call) : nat := sumf (fun cid => tleft (c_task (calls cid))) m.
Definition measure (n : nat) (s : sfstate) : nat := csum n (sf_callers s) + tsum (sf_next s) (sf_calls s).
(* the callers an event speaks of are among 0..n-1 *)
Definition ev_in (n : nat) (e : event) : Prop := match e with EArrive c _ | EStep c => c < n | _ => True end.

Lemma notify_le s cid c : crank (notify (sf_callers s) cid c) <= crank (sf_callers s c).
Proof. unfold notify. destruct (sf_callers s c) as [|k|k c1 cr|k c1 n|k c1 cr n|k c1 r|c1 r ow]; try lia. destruct (Nat.eqb c1 cid); [destruct n; cbn; lia | lia]. Qed.
Lemma callers_upd n s c p : c < n -> csum n (upd (sf_callers s) c p) + crank (sf_callers s c) = csum n (sf_callers s) + crank p.
Proof. apply (sumf_upd crank). Qed.
Lemma tasks_upd s cid x : cid < sf_next s ->
  tsum (sf_next s) (upd (sf_calls s) cid x) + tleft (c_task (sf_calls s cid)) = tsum (sf_next s) (sf_calls s) + tleft (c_task x).
Proof. apply (sumf_upd (fun y => tleft (c_task y))). Qed.
Lemma tasks_new s x : tsum (S (sf_next s)) (upd (sf_calls s) (sf_next s) x) = tsum (sf_next s) (sf_calls s) + tleft (c_task x).
Proof. unfold tsum. cbn [sumf]. rewrite upd_same. rewrite (sumf_upd_out (fun y => tleft (c_task y)) (sf_calls s) (sf_next s) x (sf_next s)) by lia. reflexivity. Qed.
Lemma notify_sum n s cid : csum n (notify (sf_callers s) cid) <= csum n (sf_callers s).
Proof. apply sumf_le. intros i _. apply notify_le. Qed.


Opaque csum tsum.
(* a task event on a call that was never created is not enabled *)
Lemma task_event_created s cid : Inv s -> c_task (sf_calls s cid) <> TNotSpawned -> cid < sf_next s.
Proof. intros [_ _ _ _ IF] H. destruct (Nat.lt_ge_cases cid (sf_next s)) as [L|G]; [exact L|]. rewrite (IF cid G) in H. cbn in H. contradiction. Qed.

Theorem step_decreases n s e s' : Inv s -> ev_in n e -> sf_step s e = Some s' -> measure n s' < measure n s.
Proof.
  intros Hi Hn H. pose proof Hi as [IC IP IM IU IF]. unfold measure.
  destruct e as [c k|c|cid0|cid0 o|cid0|cid0]; cbn [sf_step ev_in] in H, Hn.
  - destruct (sf_callers s c) eqn:Ec; try discriminate. injection H as <-. cbn [set_caller sf_callers sf_calls sf_next].
    pose proof (callers_upd n s c (CArrive k) Hn) as E. rewrite Ec in E. cbn [crank] in E. lia.
  - destruct (sf_callers s c) as [|k|k cid1 cr|k cid1 nn|k cid1 cr nn|k cid1 r|cid1 r ow] eqn:Ec; try discriminate.
    + destruct (sf_map s k) as [cid|].
      * injection H as <-. cbn [set_caller sf_callers sf_calls sf_next]. pose proof (callers_upd n s c (CGotCall k cid false) Hn) as E. rewrite Ec in E. cbn [crank] in E. lia.
      * injection H as <-. cbn [sf_callers sf_calls sf_next]. pose proof (callers_upd n s c (CGotCall k (sf_next s) true) Hn) as E. rewrite Ec in E. cbn [crank] in E.
        rewrite tasks_new. cbn [c_task]. change (tleft TNotSpawned) with 5. lia.
    + assert (E : forall p, crank p <= 6 -> csum n (upd (sf_callers s) c p) < csum n (sf_callers s)).
      { intros p Hp. pose proof (callers_upd n s c p Hn) as E. rewrite Ec in E. cbn [crank] in E. lia. }
      destruct (c_res (sf_calls s cid1)); injection H as <-; cbn [set_caller sf_callers sf_calls sf_next];
        (apply Nat.add_lt_mono_r; apply E; destruct cr; cbn; lia).
    + injection H as <-. cbn [set_caller set_task set_call sf_callers sf_calls sf_next].
      pose proof (IP c) as Hc. rewrite Ec in Hc. cbn [CallerOk] in Hc. destruct Hc as (L & _ & _ & _ & Ht & _).
      pose proof (callers_upd n s c (CWait k cid1 true nn) Hn) as E. rewrite Ec in E. cbn [crank] in E.
      pose proof (tasks_upd s cid1 {| c_key := c_key (sf_calls s cid1); c_creator := c_creator (sf_calls s cid1); c_res := c_res (sf_calls s cid1); c_task := TSpawned |} L) as T.
      rewrite Ht in T. cbn [c_task] in T. change (tleft TNotSpawned) with 5 in T. change (tleft TSpawned) with 4 in T. destruct nn; lia.
    + destruct nn; [|discriminate].
      assert (E : forall p, crank p <= 1 -> csum n (upd (sf_callers s) c p) < csum n (sf_callers s)).
      { intros p Hp. pose proof (callers_upd n s c p Hn) as E. rewrite Ec in E. cbn [crank] in E. lia. }
      destruct cr.
      * destruct (c_task (sf_calls s cid1)); try discriminate. injection H as <-. cbn [set_caller sf_callers sf_calls sf_next]. apply Nat.add_lt_mono_r. apply E. cbn. lia.
      * injection H as <-. cbn [set_caller sf_callers sf_calls sf_next]. apply Nat.add_lt_mono_r. apply E. cbn. lia.
    + assert (E : forall p, crank p = 0 -> csum n (upd (sf_callers s) c p) < csum n (sf_callers s)).
      { intros p Hp. pose proof (callers_upd n s c p Hn) as E. rewrite Ec in E. cbn [crank] in E. lia. }
      destruct (sf_map s k); injection H as <-; cbn [set_caller sf_callers sf_calls sf_next]; apply Nat.add_lt_mono_r; apply E; reflexivity.
  - destruct (c_task (sf_calls s cid0)) eqn:Et; try discriminate. injection H as <-. cbn [set_task set_call sf_callers sf_calls sf_next].
    assert (L : cid0 < sf_next s) by (apply task_event_created; [exact Hi | rewrite Et; discriminate]).
    pose proof (tasks_upd s cid0 {| c_key := c_key (sf_calls s cid0); c_creator := c_creator (sf_calls s cid0); c_res := c_res (sf_calls s cid0); c_task := TRunning |} L) as T.
    rewrite Et in T. cbn [c_task] in T. unfold tleft in T. cbn [trank] in T. lia.
  - destruct (c_task (sf_calls s cid0)) eqn:Et; try discriminate. injection H as <-. cbn [set_task set_call sf_callers sf_calls sf_next].
    assert (L : cid0 < sf_next s) by (apply task_event_created; [exact Hi | rewrite Et; discriminate]).
    pose proof (tasks_upd s cid0 {| c_key := c_key (sf_calls s cid0); c_creator := c_creator (sf_calls s cid0); c_res := c_res (sf_calls s cid0); c_task := TGotOutcome o |} L) as T.
    rewrite Et in T. cbn [c_task] in T. unfold tleft in T. cbn [trank] in T. lia.
  - destruct (c_task (sf_calls s cid0)) as [| | |o|o|o] eqn:Et; try discriminate. injection H as <-. cbn [sf_callers sf_calls sf_next].
    assert (L : cid0 < sf_next s) by (apply task_event_created; [exact Hi | rewrite Et; discriminate]).
    pose proof (tasks_upd s cid0 {| c_key := c_key (sf_calls s cid0); c_creator := c_creator (sf_calls s cid0); c_res := Some (store_of o); c_task := TCompleted o |} L) as T.
    rewrite Et in T. cbn [c_task] in T. unfold tleft in T. cbn [trank] in T.
    pose proof (notify_sum n s cid0). lia.
  - destruct (c_task (sf_calls s cid0)) as [| | |o|o|o] eqn:Et; try discriminate. injection H as <-. cbn [set_task set_call sf_callers sf_calls sf_next].
    assert (L : cid0 < sf_next s) by (apply task_event_created; [exact Hi | rewrite Et; discriminate]).
    pose proof (tasks_upd s cid0 {| c_key := c_key (sf_calls s cid0); c_creator := c_creator (sf_calls s cid0); c_res := c_res (sf_calls s cid0); c_task := TExited o |} L) as T.
    rewrite Et in T. cbn [c_task] in T. unfold tleft in T. cbn [trank] in T. lia.
Qed.

(* every schedule over the callers 0..n-1 is bounded by the measure of the state it starts in *)
Theorem schedule_bounded n es : forall s s', Inv s -> Forall (ev_in n) es -> sf_run s es = Some s' -> length es + measure n s' <= measure n s.
Proof.
  induction es as [|e r IH]; intros s s' Hi Hf H; cbn [sf_run] in H; [injection H as <-; cbn; lia|].
  destruct (sf_step s e) as [s1|] eqn:E; [|discriminate]. inversion Hf as [|? ? He Hr]; subst.
  pose proof (step_decreases n s e s1 Hi He E). specialize (IH s1 s' (sf_step_inv _ _ _ Hi E) Hr H). cbn [length]. lia.
Qed.
Transparent csum tsum.
Lemma sumf_const k n : sumf (fun _ => k) n = n * k.
Proof. induction n as [|m IH]; cbn [sumf]; [reflexivity|]. rewrite IH. lia. Qed.
Theorem schedule_from_init_bounded n es s' : Forall (ev_in n) es -> sf_run sf_init es = Some s' -> length es <= 14 * n.
Proof.
  intros Hf H. pose proof (schedule_bounded n es sf_init s' Inv_init Hf H) as B. unfold measure, csum, tsum in B. cbn [sf_init sf_callers sf_next sumf crank] in B.
  rewrite sumf_const in B. lia.
Qed.

(* a state in which nothing but an arrival can happen has served everyone *)
Definition quiescent (s : sfstate) : Prop := forall e, (match e with EArrive _ _ => False | _ => True end) -> sf_step s e = None.
Theorem quiescent_all_served s : Inv s -> quiescent s -> forall c, sf_callers s c = CIdle \/ exists cid r owner, sf_callers s c = CReturned cid r owner.
Proof.
  intros Hi Q c. pose proof (progress s c Hi) as P.
  destruct (sf_callers s c) as [|k|k cid cr|k cid n|k cid cr n|k cid r|cid r ow] eqn:Ec;
    try (exfalso; apply P; apply Q; exact I).
  - left. reflexivity.
  - exfalso. destruct P as [(e & He & Hs)|Ht].
    + apply Hs. apply Q. destruct e; try exact I; destruct He.
    + pose proof (Q (ETaskOutcome cid (OVal 0)) I) as Hq. cbn [sf_step] in Hq. rewrite Ht in Hq. discriminate.
  - right. eauto.
Qed.

(* liveness, put together: a schedule from the initial state over n callers has at most 14 n events, and when it cannot be
   extended by anything but an arrival, every caller has either not arrived or returned -- with the outcome of the one
   task of its flight (returned_same_outcome) *)
Theorem maximal_schedule_serves_everyone n es s : Forall (ev_in n) es -> sf_run sf_init es = Some s -> quiescent s ->
  length es <= 14 * n /\
  forall c, sf_callers s c = CIdle \/
    exists cid r owner o, sf_callers s c = CReturned cid r owner /\ c_res (sf_calls s cid) = Some (store_of o) /\
      r = (if owner then creator_res o else cres_of (store_of o)).
Proof.
  intros Hf H Q. split; [eapply schedule_from_init_bounded; eauto|]. assert (Hi : Inv s) by (eapply sf_run_inv; [exact Inv_init | exact H]).
  intro c. destruct (quiescent_all_served s Hi Q c) as [E|(cid & r & ow & E)]; [left; exact E|]. right.
  destruct (returned_same_outcome s c cid r ow Hi E) as (o & R & _ & Hr). exists cid, r, ow, o. auto.
Qed.

(* non-vacuity: the history of SingleflightProofs' example (two callers on key 7, the task fails) is a maximal schedule *)
Example ex_history_is_maximal : exists s, sf_run sf_init ex_sf_history = Some s /\ Forall (ev_in 2) ex_sf_history /\ quiescent s.
Proof.
  destruct ex_sf_history_runs as (s & H & C0 & C1 & M). exists s. split; [exact H|]. split.
  - unfold ex_sf_history. repeat constructor.
  - assert (Hi : Inv s) by (eapply sf_run_inv; [exact Inv_init | exact H]). revert H C0 C1 M. vm_compute. intros H. injection H as <-. intros _ _ _.
    intros e He. destruct e as [c k|c|cid|cid o|cid|cid]; [destruct He| | | | |]; cbn.
    + destruct c as [|[|c]]; reflexivity.
    + destruct cid as [|cid]; reflexivity.
    + destruct cid as [|cid]; reflexivity.
    + destruct cid as [|cid]; reflexivity.
    + destruct cid as [|cid]; reflexivity.
Qed.
