(* C14: a whole session's metrics are the sums over its files, whatever the order of completions and mid-file registrations;
   and the per-file conservation laws carry over to the session. *)
From Coq Require Import ZArith NArith Bool List Lia.
Import ListNotations.
From XetModel Require Import Base.Codec Gen.ShardLayout Gen.DedupFacts Model.Merkle Model.Shard Model.Dedup Proofs.PipelineProofs Proofs.ResolveProofs.
Open Scope N_scope.

Definition op_metrics (o : sop) : metrics := match o with OpMid _ => m0 | OpFile _ m _ => m end.
Definition sum_metrics (ops : list sop) : metrics := fold_left (fun acc o => m_add acc (op_metrics o)) ops m0.

Lemma m_add_m0_r m : m_add m m0 = m.
Proof. destruct m. unfold m_add, m0. cbn. f_equal; lia. Qed.

Lemma process_agg_metrics rc s a : s_metrics (process_agg rc s a) = s_metrics s.
Proof. unfold process_agg. destruct (agg_finalize a). reflexivity. Qed.

Lemma sstep_metrics rc cf s o : s_metrics (sstep rc cf s o) = m_add (s_metrics s) (op_metrics o).
Proof.
  destruct o as [xs|a m g]; cbn [sstep op_metrics].
  - unfold register_mid_xorbs. cbn [s_metrics]. symmetry. apply m_add_m0_r.
  - apply register_completion_metrics.
Qed.

Theorem session_metrics_are_sums rc cf ops : s_metrics (srun rc cf ops) = sum_metrics ops.
Proof.
  unfold srun, session_finalize. rewrite process_agg_metrics. cbn [s_metrics]. unfold sum_metrics.
  assert (G : forall s acc, s_metrics s = acc -> s_metrics (fold_left (sstep rc cf) ops s) = fold_left (fun acc o => m_add acc (op_metrics o)) ops acc).
  { induction ops as [|o r IH]; intros s acc H; cbn [fold_left]; [exact H|]. apply IH. rewrite sstep_metrics, H. reflexivity. }
  apply G. reflexivity.
Qed.

(* conservation carries over: if new + deduplicated = total holds for every file, it holds for the session *)
Lemma mcons_add' a b : mcons a -> mcons b -> mcons (m_add a b).
Proof. intros [A1 A2] [B1 B2]. unfold mcons, m_add. cbn. split; lia. Qed.
Theorem session_conservation rc cf ops : Forall (fun o => mcons (op_metrics o)) ops -> mcons (s_metrics (srun rc cf ops)).
Proof.
  intro H. rewrite session_metrics_are_sums. unfold sum_metrics.
  assert (G : forall acc, mcons acc -> mcons (fold_left (fun acc o => m_add acc (op_metrics o)) ops acc)).
  { induction H as [|o r Ho Hr IH]; intros acc Ha; cbn [fold_left]; [exact Ha|]. apply IH. apply mcons_add'; assumption. }
  apply G. split; reflexivity.
Qed.
