(* Little-endian fixed-width codecs over byte lists (bytes are N). *)
From Coq Require Import NArith Bool List.
Import ListNotations.
Open Scope N_scope.

Fixpoint le_bytes (k : nat) (x : N) : list N :=
  match k with
  | O => []
  | S k' => (x mod 256) :: le_bytes k' (x / 256)
  end.
Definition le_val (bs : list N) : N := fold_right (fun b acc => b + 256 * acc) 0 bs.

Definition u32 (x : N) : list N := le_bytes 4 x.
Definition u64 (x : N) : list N := le_bytes 8 x.
Definition u64s (xs : list N) : list N := flat_map u64 xs.

(* split a list of 8k bytes into k u64 values *)
Fixpoint de_u64s (k : nat) (bs : list N) : list N :=
  match k with
  | O => []
  | S k' => le_val (firstn 8 bs) :: de_u64s k' (skipn 8 bs)
  end.

Definition has (n : nat) (bs : list N) : bool := Nat.leb n (length bs).
