(* C12 -- A chunk-cache hit returns exactly the bytes that were put.  Statements only.
   [G] is the ground truth (the chunks of the xorb named by each key); every put carries a slice of it.  The theorems
   hold for any number of threads, any schedule (micro steps: one lock-protected block or one file-system action),
   any eviction victims, and any initial directory state satisfying [CInv]: no file whose length and CRC agree with
   its name holds anything but what the name says (J1: the damage is detectable), and tracked entries have files of
   the length their names state (J2: what the scan checks).  The facts [key_name_length_checked],
   [validate_bounds_checked] are regenerated from the source on every run. *)
From Coq Require Import ZArith NArith Bool List.
Import ListNotations.
From XetModel Require Import Base.Codec Gen.CacheFacts Model.Merkle Model.Cache Proofs.Base64Proofs Proofs.CacheProofs Proofs.CacheHitProofs
  Proofs.CacheInvProofs Proofs.CacheOrphanProofs Proofs.CacheScanProofs Proofs.CacheReopenProofs.
Open Scope N_scope.

(* the cache file codec: the stored offsets parse back *)
Theorem C12_header_roundtrip : forall offs data, valid_offs offs -> de_header (encode_file offs data) = Some offs.
Proof. exact de_header_encode. Qed.

(* reading chunks [rs, re) out of a stored range that starts at chunk [start] returns exactly those chunks and their offsets *)
Theorem C12_subrange_read_exact : forall chs rs re start,
  start <= rs -> rs < re -> re - start <= lenN chs ->
  get_range (cum 0 chs) (encode_file (cum 0 chs) (concat chs)) rs re start
  = CHit rs re (cum 0 (firstn (N.to_nat (re - rs)) (skipn (N.to_nat (rs - start)) chs)))
               (concat (firstn (N.to_nat (re - rs)) (skipn (N.to_nat (rs - start)) chs))).
Proof. exact get_range_slice. Qed.

(* a hit is always read from the file at the entry's path, and unless the entry was verified earlier the file's CRC
   matched the entry's name *)
Theorem C12_hit_source : forall s k rs re it v vs s' a b offs data ok,
  mstep s (PFound (OGet k rs re) it v) vs = (s', PDone (CHit a b offs data), ok) ->
  exists c h, fs_read (fs s) (item_path k it) = Some c /\ (v = true \/ crc32 c = i_crc it) /\
              de_header c = Some h /\ get_range h c rs re (i_s it) = CHit a b offs data.
Proof. exact get_hit_source. Qed.

(* distinct keys / entries have distinct paths (base64 and the little-endian name codec are injective) *)
Theorem C12_paths_injective : forall k it k' it', wf_key k -> wf_key k' -> wf_item it -> wf_item it' ->
  item_path k it = item_path k' it' -> k = k' /\ it = it'.
Proof. exact item_path_inj. Qed.

(* the invariants are kept by every event of every thread *)
Theorem C12_invariant_every_schedule : forall G,
  (forall k, Forall (fun c => c <> []) (G k) /\ Forall (Forall is_byte) (G k) /\ lenN (concat (G k)) < 4294967296 /\ lenN (G k) + 1 < 4294967296) ->
  forall es c c', CInv G c -> Forall (okevent G) es -> crun c es = Some c' -> CInv G c'.
Proof. exact crun_inv. Qed.

(* the property: in every reachable configuration a get that ends in a hit returns the requested range, the
   ground-truth bytes of exactly those chunks, and their offsets *)
Theorem C12_hit_exact_every_schedule : forall G,
  (forall k, Forall (fun c => c <> []) (G k) /\ Forall (Forall is_byte) (G k) /\ lenN (concat (G k)) < 4294967296 /\ lenN (G k) + 1 < 4294967296) ->
  forall c0 es c t vs c' k rs re it v a b offs data,
  CInv G c0 -> Forall (okevent G) es -> crun c0 es = Some c ->
  nth_error (snd c) t = Some (PFound (OGet k rs re) it v) ->
  cstep c (EStep t vs) = Some c' -> nth_error (snd c') t = Some (PDone (CHit a b offs data)) ->
  a = rs /\ b = re /\ offs = cum 0 (gslice G k rs re) /\ data = concat (gslice G k rs re).
Proof. exact reachable_hit_exact. Qed.

(* the empty cache satisfies the invariants *)
Theorem C12_empty_cache_invariant : forall G capacity n,
  CInv G ({| tracked := []; nitems := 0; tbytes := 0; fs := []; cap := capacity |}, repeat (PDone COk) n).
Proof. exact CInv_empty. Qed.

(* re-open: whatever the directory holds and whatever the name decoders answer, initialize returns a state or an error *)
Theorem C12_initialize_never_panics : forall b64d utf8 capacity tree, initialize b64d utf8 capacity tree <> None.
Proof. exact (fun b64d utf8 capacity tree => initialize_no_panic b64d utf8 capacity tree eq_refl). Qed.

(* the shapes the source had before the repairs *)
Theorem C12_short_key_directory_refuted :
  let b64d := fun n : bytes => Some [105; 183; 29] in
  try_parse_key_with b64d (fun _ => true) false [97; 98; 99; 100] = None /\
  try_parse_key_with b64d (fun _ => true) true [97; 98; 99; 100] = Some None.
Proof. exact short_key_name_refuted. Qed.
Theorem C12_unchecked_validate_refuted :
  validate_with false (OPut ex_key 0 3 [0; 1; 2; 3] [7; 8; 9]) ex_wide_item (Some ex_short_file) = PDone CPanic /\
  validate_with true (OPut ex_key 0 3 [0; 1; 2; 3] [7; 8; 9]) ex_wide_item (Some ex_short_file)
    = PRemState (OPut ex_key 0 3 [0; 1; 2; 3] [7; 8; 9]) ex_wide_item.
Proof. exact validate_unchecked_refuted. Qed.

(* non-vacuity: a concrete history (put chunks [0,3), then get chunks [1,3)) is enabled, its events are admissible, and
   it ends in the hit the theorem describes *)
Example C12_nonvacuous :
  Forall (okevent ex_G) ex_history /\
  exists c, crun (ex_s0, [PDone COk]) ex_history = Some c /\ nth_error (snd c) 0 = Some (PDone (CHit 1 3 [0; 1; 4] [3; 4; 5; 6])).
Proof. exact ex_history_hits. Qed.

Example C12_facts : key_name_length_checked = true /\ validate_bounds_checked = true /\ key_dir_prefix_checked = true.
Proof. repeat split; reflexivity. Qed.

(* re-opening: on a well-formed directory (each key directory under the prefix directory named by its first characters,
   names unique) and with a canonical name decoder, what DiskCache::initialize tracks satisfies J2: every tracked entry is
   unverified and the file at the path the cache computes for it has the length its name states.  With J1 (the hypothesis
   about undetectable foreign entries that separates the recorded finding K1) every later hit, under any schedule, is exact. *)
Theorem C12_reopen_establishes_invariant : forall b64d utf8 (G : key -> list bytes),
  (forall n b, b64d n = Some b -> b64pad b = n /\ Forall is_byte b) ->
  forall capacity tree s, TreeCanon tree -> initialize b64d utf8 capacity tree = Some (inr s) -> J2 G s.
Proof. intros b64d utf8 G Hc capacity tree s. exact (initialize_J2 b64d utf8 Hc G capacity tree s). Qed.
Theorem C12_reopen_then_hits_exact : forall b64d utf8 (G : key -> list bytes),
  (forall n b, b64d n = Some b -> b64pad b = n /\ Forall is_byte b) ->
  (forall k, Forall (fun c => c <> []) (G k) /\ Forall (Forall is_byte) (G k) /\ lenN (concat (G k)) < 4294967296 /\ lenN (G k) + 1 < 4294967296) ->
  forall capacity tree s, TreeCanon tree -> initialize b64d utf8 capacity tree = Some (inr s) -> J1 G (fs s) ->
  forall es c t vs c' k rs re it v a b offs data,
  Forall (okevent G) es -> crun (s, []) es = Some c ->
  nth_error (snd c) t = Some (PFound (OGet k rs re) it v) ->
  cstep c (EStep t vs) = Some c' -> nth_error (snd c') t = Some (PDone (CHit a b offs data)) ->
  a = rs /\ b = re /\ offs = cum 0 (gslice G k rs re) /\ data = concat (gslice G k rs re).
Proof. exact reopen_then_hits_exact. Qed.
Example C12_reopen_premises_satisfiable :
  (forall n b, rx_dec n = Some b -> b64pad b = n /\ Forall is_byte b) /\ TreeCanon rx_tree /\
  exists s, initialize rx_dec (fun _ => true) 100 rx_tree = Some (inr s) /\ nitems s = 1 /\ tbytes s = 5.
Proof. split; [exact rx_dec_canon | exact reopen_example]. Qed.

Print Assumptions C12_header_roundtrip.
Print Assumptions C12_subrange_read_exact.
Print Assumptions C12_paths_injective.
Print Assumptions C12_invariant_every_schedule.
Print Assumptions C12_hit_exact_every_schedule.
Print Assumptions C12_initialize_never_panics.
Print Assumptions C12_reopen_establishes_invariant.
Print Assumptions C12_reopen_then_hits_exact.
