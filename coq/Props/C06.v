(* C06 -- Content hashes are stable pure functions and all code paths agree.
   Statements only; each closed by [exact] of a lemma from Proofs/. *)
From Coq Require Import NArith Bool List.
Import ListNotations.
From XetModel Require Import Gen.HashConsts Model.Blake3 Model.Merkle Proofs.HashProofs Proofs.Base64Proofs Proofs.MerkleInjProofs.
Open Scope N_scope.

(* the validators' aggregation (MerkleMemDB add_file + finalize, with its CAS staging) returns the
   uploader's cas_node_hash, for every interior hash function and every chunk list *)
Theorem C06_validator_eq_uploader : forall Hint chunks, validator_root Hint chunks = cas_node_hash Hint chunks.
Proof. exact validator_eq_uploader. Qed.

(* boundary fact, stated not hidden: a single-chunk list's root is the chunk hash; its length is ignored *)
Theorem C06_single_chunk_root_ignores_len : forall Hint h l, cas_node_hash Hint [(h, l)] = Some h.
Proof. exact single_chunk_root. Qed.

(* the streaming hasher hashes exactly the bytes the inner writer accepted, for every writer behaviour
   (short writes, errors).  [hashed_write_hashes_whole_buffer] is regenerated from HashedWrite::write. *)
Theorem C06_streaming_eq_oneshot : forall calls hd acc,
  hashed_write hashed_write_hashes_whole_buffer calls [] [] = (hd, acc) -> hd = acc.
Proof. exact streaming_eq_accepted_when_fixed. Qed.

(* ... and the other shape of write (hash the whole buffer first) violates it *)
Theorem C06_streaming_whole_buffer_refuted : exists calls hd acc, hashed_write true calls [] [] = (hd, acc) /\ hd <> acc.
Proof. exact streaming_whole_buffer_refuted. Qed.

Theorem C06_hex_roundtrip : forall h, length h = 32%nat -> Forall (fun b => b < 256) h -> from_hex (hex h) = Some h.
Proof. exact hex_roundtrip. Qed.

Theorem C06_hex_injective : forall h1 h2, length h1 = 32%nat -> length h2 = 32%nat ->
  Forall (fun b => b < 256) h1 -> Forall (fun b => b < 256) h2 -> hex h1 = hex h2 -> h1 = h2.
Proof. exact hex_injective. Qed.

(* pinned values: the Gallina BLAKE3 (independent implementation) reproduces the values the real crates print *)
Example C06_pin_data_hash_empty : hex (compute_data_hash []) = [101; 48; 102; 50; 99; 102; 55; 56; 52; 101; 55; 101; 53; 102; 49; 48; 99; 51; 52; 102; 56; 52; 97; 102; 49; 53; 48; 101; 57; 97; 53; 102; 102; 57; 54; 54; 52; 50; 49; 54; 100; 101; 98; 97; 100; 57; 49; 53; 51; 54; 52; 100; 55; 52; 49; 48; 52; 57; 56; 55; 48; 102; 54; 55].
Proof. vm_compute. reflexivity. Qed.
Example C06_pin_data_hash_012 : hex (compute_data_hash [0; 1; 2]) = [50; 99; 56; 57; 51; 102; 98; 55; 55; 49; 53; 57; 56; 52; 101; 50; 97; 99; 102; 97; 98; 49; 97; 100; 56; 50; 49; 52; 48; 54; 54; 50; 54; 53; 55; 50; 101; 53; 57; 55; 49; 48; 54; 53; 102; 50; 102; 100; 51; 57; 56; 52; 56; 50; 99; 56; 99; 51; 53; 99; 48; 49; 56; 50].
Proof. vm_compute. reflexivity. Qed.
Example C06_pin_internal_hash_hello : hex (compute_internal_node_hash [104; 101; 108; 108; 111]) = [51; 98; 54; 100; 101; 56; 57; 98; 102; 55; 56; 98; 48; 55; 97; 52; 51; 55; 102; 54; 100; 98; 51; 48; 48; 52; 55; 49; 98; 57; 100; 102; 49; 48; 50; 48; 51; 53; 54; 52; 53; 99; 50; 56; 101; 50; 102; 49; 102; 98; 54; 56; 53; 101; 48; 100; 99; 49; 57; 98; 99; 54; 98; 54].
Proof. vm_compute. reflexivity. Qed.
Example C06_pin_hmac_pin : hex (hmac (map N.of_nat (seq 0 32)) (map N.of_nat (seq 100 32))) = [48; 98; 50; 56; 51; 52; 48; 100; 48; 100; 56; 101; 55; 98; 100; 50; 98; 53; 56; 53; 55; 51; 57; 56; 101; 52; 97; 101; 52; 97; 50; 102; 101; 48; 56; 100; 48; 57; 101; 52; 98; 51; 55; 98; 49; 55; 102; 102; 102; 98; 57; 57; 102; 49; 98; 53; 49; 49; 101; 98; 50; 97; 100; 98].
Proof. vm_compute. reflexivity. Qed.
Example C06_pin_range_pin : hex (range_hash_from_chunks [map N.of_nat (seq 1 32); map N.of_nat (seq 2 32)]) = [49; 97; 97; 55; 97; 50; 52; 48; 100; 48; 57; 54; 99; 52; 101; 52; 99; 50; 54; 100; 102; 53; 97; 102; 49; 99; 56; 97; 100; 54; 100; 51; 57; 99; 102; 48; 51; 50; 53; 100; 100; 51; 53; 100; 56; 56; 55; 97; 54; 56; 51; 102; 49; 57; 50; 53; 48; 97; 55; 49; 55; 54; 49; 99].
Proof. vm_compute. reflexivity. Qed.

(* pinned aggregate: 12 chunks none of which triggers the hash cut, so the tree shape is decided by the
   fan-out bound alone (a parent is forced after 9 children); value printed by the real crates *)
Definition pin_nodes : list node := map (fun i => (repeat (2 * N.of_nat i + 1) 32%nat, 100 + N.of_nat i)) (seq 0 12).
Example C06_pin_cas_12_forced_fanout :
  option_map hex (cas_node_hash compute_internal_node_hash pin_nodes) = Some [57; 50; 102; 48; 97; 99; 53; 100; 50; 54; 101; 51; 99; 53; 57; 99; 49; 48; 51; 98; 57; 99; 98; 54; 49; 48; 102; 52; 102; 52; 99; 57; 57; 54; 54; 54; 51; 102; 54; 54; 101; 51; 54; 101; 97; 97; 49; 52; 49; 51; 48; 50; 100; 100; 54; 101; 97; 55; 101; 53; 57; 98; 98; 97].
Proof. vm_compute. reflexivity. Qed.
Example C06_pin_file_12 :
  option_map hex (file_node_hash pin_nodes (map N.of_nat (seq 0 32))) = Some [56; 101; 50; 55; 50; 57; 48; 56; 57; 99; 55; 57; 98; 98; 54; 97; 50; 56; 56; 98; 49; 56; 98; 49; 53; 48; 102; 52; 52; 99; 55; 102; 50; 49; 54; 52; 50; 57; 57; 51; 100; 98; 100; 101; 49; 49; 53; 49; 98; 98; 50; 48; 101; 99; 50; 57; 48; 101; 49; 100; 97; 49; 100; 54].
Proof. vm_compute. reflexivity. Qed.

(* non-vacuity of the streaming theorem's hypothesis: a short-writing script *)
Example C06_streaming_nonvacuous : exists hd acc, hashed_write false [([1; 2; 3], Some 1); ([4], None); ([5; 6], Some 2)] [] [] = (hd, acc) /\ acc = [1; 5; 6].
Proof. eexists. eexists. split; reflexivity. Qed.

(* the URL-safe base64 form of a hash (file and shard names in URLs, cache directory names) decodes back to the hash,
   for every 32-byte hash; hence it is injective *)
Theorem C06_base64_roundtrip : forall h, length h = 32%nat -> Forall is_byte h -> from_base64 (base64 h) = Some h.
Proof. exact from_base64_base64. Qed.
Theorem C06_base64_injective : forall a b, Forall is_byte a -> Forall is_byte b ->
  b64enc (S (length a)) a = b64enc (S (length b)) b -> a = b.
Proof. exact b64enc_inj. Qed.

(* "Changing, reordering, inserting or dropping any chunk changes the aggregate hash": two non-empty chunk lists with the
   same xorb hash are the same list (or two one-chunk lists with the same chunk hash, whose length the root does not cover:
   C06_single_chunk_root_ignores_len) unless a collision is exhibited: two different texts hashed while building the two
   trees with the same interior hash, a chunk hash that is also the interior hash of one of those texts (NoCollision), or
   two nodes of one tree whose first 8 bytes agree while their lengths differ (KeysOk: MerkleMemDB would hand back the
   node stored first).  [Same A B] is A = B or the one-chunk case. *)
Theorem C06_xorb_hash_determines_chunks : forall A B h, A <> [] -> B <> [] -> Forall wf_node A -> Forall wf_node B ->
  KeysOk HintR A -> KeysOk HintR B -> NoCollision HintR A B ->
  cas_node_hash compute_internal_node_hash A = Some h -> cas_node_hash compute_internal_node_hash B = Some h -> Same A B.
Proof. exact xorb_hash_determines_chunks. Qed.
(* the same for the file hash, where the salting hash must not collide on the two roots either *)
Theorem C06_file_hash_determines_chunks : forall A B salt h, A <> [] -> B <> [] -> Forall wf_node A -> Forall wf_node B ->
  KeysOk HintR A -> KeysOk HintR B -> NoCollision HintR A B ->
  (forall ra rb, cas_node_hash HintR A = Some ra -> cas_node_hash HintR B = Some rb -> with_salt ra salt = with_salt rb salt -> ra = rb) ->
  file_node_hash A salt = Some h -> file_node_hash B salt = Some h -> Same A B.
Proof. exact file_hash_determines_chunks. Qed.
(* the empty list is the all-zero hash; a non-empty list with that root exhibits a collision with it *)
Theorem C06_zero_root_only_for_empty : forall B, B <> [] -> KeysOk HintR B -> cas_node_hash HintR B = Some zero_hash ->
  (exists b, B = [b] /\ fst b = zero_hash) \/ Internal HintR (length B) B zero_hash.
Proof. exact (cas_root_zero_only_for_empty HintR). Qed.
(* the hash-consing database never changes the tree when the keys are consistent: cas_node_hash is the root of the plain tree *)
Theorem C06_database_does_not_change_the_tree : forall Hint (P : node -> Prop),
  (forall n n', P n -> P n' -> hkey (fst n) = hkey (fst n') -> snd n = snd n') -> (forall n, P n -> hkey (fst n) = 0 -> snd n = 0) ->
  forall chunks, chunks <> [] -> (forall n, In n (tree_nodes Hint (length chunks) chunks) -> P n) ->
  cas_node_hash Hint chunks = option_map fst (pure_merge Hint (length chunks) chunks).
Proof. exact cas_node_hash_pure. Qed.
(* the premises hold on concrete lists, with the real interior hash *)
Example C06_replacing_a_chunk_changes_the_xorb_hash :
  KeysOk HintR [mi_a1; mi_a2] /\ NoCollision HintR [mi_a1; mi_a2] [mi_a1; mi_a3] /\
  cas_node_hash HintR [mi_a1; mi_a2] <> cas_node_hash HintR [mi_a1; mi_a3].
Proof. exact (conj (mi_keys _ (or_introl eq_refl)) (conj mi_nocoll replacing_a_chunk_changes_the_xorb_hash)). Qed.

Print Assumptions C06_validator_eq_uploader.
Print Assumptions C06_base64_roundtrip.
Print Assumptions C06_single_chunk_root_ignores_len.
Print Assumptions C06_streaming_eq_oneshot.
Print Assumptions C06_hex_roundtrip.
Print Assumptions C06_hex_injective.
Print Assumptions C06_xorb_hash_determines_chunks.
Print Assumptions C06_file_hash_determines_chunks.
Print Assumptions C06_zero_root_only_for_empty.
Print Assumptions C06_database_does_not_change_the_tree.
Print Assumptions C06_replacing_a_chunk_changes_the_xorb_hash.
