(* C08 -- Xorb validation accepts only hash-consistent objects and never panics.  Statements only.
   All theorems quantify over ALL byte strings bs; lz4d is an arbitrary (possibly failing) frame decoder. *)
From Coq Require Import NArith Bool List.
Import ListNotations.
From XetModel Require Import Base.Codec Gen.HashConsts Gen.XorbLayout Model.Merkle Model.Shard Model.Xorb Proofs.ValidateProofs.
Open Scope N_scope.

(* no Panic outcome is reachable in any footer parser or validator (every unwrap/index/subtraction of the Rust
   code is an explicit partial operation in the model) *)
Theorem C08_footer_parser_no_panic : forall bs, parse_info bs <> RPanic.
Proof. exact parse_info_no_panic. Qed.
Theorem C08_deserialize_no_panic : forall bs, xorb_deserialize bs <> RPanic.
Proof. exact xorb_deserialize_no_panic. Qed.
Theorem C08_seekable_validator_no_panic : forall lz4d bs h, validate_cas_object lz4d bs h <> RPanic.
Proof. exact validate_cas_object_no_panic. Qed.
Theorem C08_stream_validator_no_panic : forall lz4d bs h, validate_stream lz4d bs h <> RPanic.
Proof. exact validate_stream_no_panic. Qed.
(* the boundaries-only parser, in the shape the source has now (fact regenerated: checked offset addition,
   vectors grown as read) *)
Theorem C08_boundaries_only_no_panic : forall bs, parse_boundaries_only boundaries_only_checked bs <> RPanic.
Proof. exact parse_boundaries_only_no_panic. Qed.

(* soundness of the seekable validator: acceptance for h implies that the footer parses, the chunks decode one after
   the other from offset 0 (walk_ok: each decoded chunk's hash, physical end and unpacked end equal the footer's
   entries), the footer starts right after the last chunk, and the aggregate recomputed from the decoded chunks is h
   and equals the footer's own hash *)
Theorem C08_seekable_sound : forall lz4d bs h i, validate_cas_object lz4d bs h = ROk i ->
  exists il nodes e,
    xorb_deserialize bs = ROk (i, il) /\ walk_ok lz4d bs i 0 0 0 nodes e /\ e + il + 4 = N.of_nat (length bs) /\
    i_num_chunks i <> 0 /\ validator_root compute_internal_node_hash nodes = Some h /\ i_cashash i = h.
Proof. exact validate_cas_object_sound. Qed.

Theorem C08_stream_sound : forall lz4d bs h k, validate_stream lz4d bs h = ROk k ->
  exists footer offs nodes,
    stream_walk lz4d (S (length bs)) bs [] [] 0 = ROk (footer, offs, nodes) /\
    validator_root compute_internal_node_hash nodes = Some h /\
    match footer with
    | None => True
    | Some (i, _) => i_cashash i = h /\ i_num_chunks i = N.of_nat (length nodes) /\ list_eqbN (i_boundaries i) offs = true /\
                     hashes_match (i_hashes i) nodes = true /\ unpacked_match (i_unpacked i) nodes 0 = true
    end.
Proof. exact validate_stream_sound. Qed.

(* bounded allocation: every vector the footer parser returns is paid for by input bytes (and the up-front
   reservation is capped by the generated constant PREALLOC_MAX_CHUNKS, pinned to `.min(...)` in the source) *)
Theorem C08_alloc_bounded : forall bs i t, parse_info bs = ROk (i, t) ->
  32 * N.of_nat (length (i_hashes i)) <= N.of_nat (length bs) /\
  4 * N.of_nat (length (i_boundaries i)) <= N.of_nat (length bs) /\
  4 * N.of_nat (length (i_unpacked i)) <= N.of_nat (length bs).
Proof. exact parse_info_alloc_bounded. Qed.

Example C08_boundaries_only_is_checked : boundaries_only_checked = true.
Proof. reflexivity. Qed.
(* the unchecked shape does panic: the witness found by the check before the repair *)
Example C08_unchecked_shape_panics : parse_boundaries_only false (repeat 255 24%nat) = RPanic.
Proof. vm_compute. reflexivity. Qed.

Print Assumptions C08_seekable_validator_no_panic.
Print Assumptions C08_stream_validator_no_panic.
Print Assumptions C08_seekable_sound.
Print Assumptions C08_stream_sound.
Print Assumptions C08_alloc_bounded.
