(* C08 -- Xorb validation accepts only hash-consistent objects and never panics.  Statements only.
   All theorems quantify over ALL byte strings bs; lz4d is an arbitrary (possibly failing) frame decoder. *)
From Coq Require Import NArith Bool List.
Import ListNotations.
From XetModel Require Import Base.Codec Gen.HashConsts Gen.XorbLayout Model.Merkle Model.Shard Model.Xorb Proofs.ValidateProofs Proofs.XorbProofs Proofs.XorbWholeProofs Proofs.XorbAcceptProofs.
Open Scope N_scope.

(* no Panic outcome is reachable in any footer parser or validator (every unwrap/index/subtraction of the Rust
   code is an explicit partial operation in the model) *)
Theorem C08_footer_parser_no_panic : forall bs, parse_info bs <> RPanic.
Proof. exact parse_info_no_panic. Qed.
Theorem C08_deserialize_no_panic : forall bs, xorb_deserialize bs <> RPanic.
Proof. exact xorb_deserialize_no_panic. Qed.
Theorem C08_seekable_validator_no_panic : forall lz4d bs h, validate_cas_object lz4d bs h <> RPanic.
Proof. exact validate_cas_object_no_panic. Qed.
Theorem C08_stream_validator_no_panic : forall lz4d bs h, validate_stream lz4d bs h <> RPanic.
Proof. exact validate_stream_no_panic. Qed.
(* the boundaries-only parser, in the shape the source has now (fact regenerated: checked offset addition,
   vectors grown as read) *)
Theorem C08_boundaries_only_no_panic : forall bs, parse_boundaries_only boundaries_only_checked bs <> RPanic.
Proof. exact parse_boundaries_only_no_panic. Qed.

(* soundness of the seekable validator: acceptance for h implies that the footer parses, the chunks decode one after
   the other from offset 0 (walk_ok: each decoded chunk's hash, physical end and unpacked end equal the footer's
   entries), the footer starts right after the last chunk, and the aggregate recomputed from the decoded chunks is h
   and equals the footer's own hash *)
Theorem C08_seekable_sound : forall lz4d bs h i, validate_cas_object lz4d bs h = ROk i ->
  exists il nodes e,
    xorb_deserialize bs = ROk (i, il) /\ walk_ok lz4d bs i 0 0 0 nodes e /\ e + il + 4 = N.of_nat (length bs) /\
    i_num_chunks i <> 0 /\ validator_root compute_internal_node_hash nodes = Some h /\ i_cashash i = h.
Proof. exact validate_cas_object_sound. Qed.

Theorem C08_stream_sound : forall lz4d bs h k, validate_stream lz4d bs h = ROk k ->
  exists footer offs nodes,
    stream_walk lz4d (S (length bs)) bs [] [] 0 = ROk (footer, offs, nodes) /\
    validator_root compute_internal_node_hash nodes = Some h /\
    match footer with
    | None => True
    | Some (i, _) => i_cashash i = h /\ i_num_chunks i = N.of_nat (length nodes) /\ list_eqbN (i_boundaries i) offs = true /\
                     hashes_match (i_hashes i) nodes = true /\ unpacked_match (i_unpacked i) nodes 0 = true
    end.
Proof. exact validate_stream_sound. Qed.

(* bounded allocation: every vector the footer parser returns is paid for by input bytes (and the up-front
   reservation is capped by the generated constant PREALLOC_MAX_CHUNKS, pinned to `.min(...)` in the source) *)
Theorem C08_alloc_bounded : forall bs i t, parse_info bs = ROk (i, t) ->
  32 * N.of_nat (length (i_hashes i)) <= N.of_nat (length bs) /\
  4 * N.of_nat (length (i_boundaries i)) <= N.of_nat (length bs) /\
  4 * N.of_nat (length (i_unpacked i)) <= N.of_nat (length bs).
Proof. exact parse_info_alloc_bounded. Qed.

(* completeness: every valid serialized xorb -- chunk hashes = data hashes of the chunks, xorb hash = aggregate of (chunk hash,
   chunk length) -- is accepted by both validators for its own hash and rejected for every other hash, under every
   compression scheme (lz4c/lz4d: any frame codec that round-trips; choose: any automatic scheme choice) *)
Theorem C08_valid_xorb_accepted_seekable : forall lz4c lz4d choose,
  (forall x, lz4d (lz4c x) = Some x) -> (forall x, choose x <= MAX_SCHEME) -> forall chunks scheme cashash h,
  xorb_input_ok cashash chunks (map compute_data_hash chunks) -> fold_right N.add 0 (phys_lens lz4c choose chunks scheme) < 4294967296 ->
  chunks <> [] -> scheme_valid scheme ->
  cas_node_hash compute_internal_node_hash (map node_of chunks) = Some cashash ->
  validate_cas_object lz4d (xorb_serialize lz4c choose cashash chunks (map compute_data_hash chunks) scheme) h =
  if bytes_eqb cashash h then ROk (built_info lz4c choose cashash chunks (map compute_data_hash chunks) scheme) else RReject.
Proof. exact valid_xorb_accepted. Qed.
Theorem C08_valid_xorb_accepted_stream : forall lz4c lz4d choose,
  (forall x, lz4d (lz4c x) = Some x) -> (forall x, choose x <= MAX_SCHEME) -> forall chunks scheme cashash h,
  xorb_input_ok cashash chunks (map compute_data_hash chunks) -> fold_right N.add 0 (phys_lens lz4c choose chunks scheme) < 4294967296 ->
  chunks <> [] -> scheme_valid scheme ->
  cas_node_hash compute_internal_node_hash (map node_of chunks) = Some cashash ->
  validate_stream lz4d (xorb_serialize lz4c choose cashash chunks (map compute_data_hash chunks) scheme) h =
  if bytes_eqb cashash h then ROk 1 else RReject.
Proof. exact valid_xorb_accepted_stream. Qed.

(* the premises are satisfiable: a two-chunk xorb with its real aggregate hash, identity frame codec, scheme ByteGrouping4LZ4 *)
Example C08_valid_xorb_nonvacuous :
  let lz4c := fun x : list N => x in let lz4d := fun x : list N => Some x in let choose := fun _ : list N => 2 in
  let chunks := [[1; 2; 3; 4; 5]; [9]] in
  exists cashash, cas_node_hash compute_internal_node_hash (map node_of chunks) = Some cashash /\
    validate_stream lz4d (xorb_serialize lz4c choose cashash chunks (map compute_data_hash chunks) None) cashash = ROk 1 /\
    validate_stream lz4d (xorb_serialize lz4c choose cashash chunks (map compute_data_hash chunks) None) zero_hash = RReject.
Proof. cbv zeta. eexists. split; [vm_compute; reflexivity|]. split; vm_compute; reflexivity. Qed.

Example C08_boundaries_only_is_checked : boundaries_only_checked = true.
Proof. reflexivity. Qed.
(* the unchecked shape does panic: the witness found by the check before the repair *)
Example C08_unchecked_shape_panics : parse_boundaries_only false (repeat 255 24%nat) = RPanic.
Proof. vm_compute. reflexivity. Qed.

Print Assumptions C08_seekable_validator_no_panic.
Print Assumptions C08_stream_validator_no_panic.
Print Assumptions C08_seekable_sound.
Print Assumptions C08_stream_sound.
Print Assumptions C08_alloc_bounded.
Print Assumptions C08_valid_xorb_accepted_seekable.
Print Assumptions C08_valid_xorb_accepted_stream.
