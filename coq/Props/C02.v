(* C02 -- Everything a session uploads is self-consistent and server-verifiable.  Statements only. *)
From Coq Require Import NArith Bool List.
Import ListNotations.
From XetModel Require Import Base.Codec Gen.ShardLayout Gen.DedupFacts Model.Merkle Model.Shard Model.Dedup Proofs.PipelineProofs.
Open Scope N_scope.

(* the record finalize emits: hash = file hash, one verification entry per segment, entry i = range hash of the fed chunk
   hashes that segment i covers, SHA-256 metadata as supplied, flags consistent with the parts present *)
Theorem C02_record_shape : forall f salt sha,
  let '(fh, a, m, nx) := fd_finalize f salt sha in
  match a_files a with
  | [(fi, iref)] =>
      fi_hash fi = fh /\ fi_segs fi = f_info f /\ length (fi_verif fi) = length (fi_segs fi) /\
      fi_verif fi = map range_hash_from_chunks (seg_slices (f_info f) (map fst (rev (f_hashes f)))) /\
      fi_ext fi = sha /\ has_verif (fi_flags fi) = true /\ has_ext (fi_flags fi) = (match sha with Some _ => true | None => false end) /\
      iref = f_iref f /\ a_chunks a = f_new f
  | _ => False
  end.
Proof. exact finalize_record_shape. Qed.

(* xorbs are named by the aggregate hash of their chunk list and carry cumulative offsets (RawXorbData::from_chunks) *)
Theorem C02_xorb_named_by_hash : forall chs, ci_hash (raw_xorb chs) = xorb_hash_of chs /\ ci_nbytes (raw_xorb chs) = sum_lens chs /\
  length (ci_chunks (raw_xorb chs)) = length chs.
Proof. intros chs. repeat split. apply cas_entries_length. Qed.

(* the SHA-256 of an empty file is the digest of the empty input (fact regenerated from ShaGenerator::finalize) *)
Example C02_sha_of_empty_is_not_zero : sha_of_empty_input_is_zero = false.
Proof. reflexivity. Qed.
(* that every segment resolves to the fed chunks (ranges in bounds, sizes exact, file hash recomputable from the referenced
   chunks) is the C01 invariant; it is checked on every generated session by the independent validator of stream sess and on
   every scripted file by stream dd; its Coq proof is not part of this revision *)

Print Assumptions C02_record_shape.
