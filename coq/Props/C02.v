(* C02 -- Everything a session uploads is self-consistent and server-verifiable.  Statements only. *)
From Coq Require Import NArith Bool List.
Import ListNotations.
From XetModel Require Import Base.Codec Gen.ShardLayout Gen.DedupFacts Model.Merkle Model.Shard Model.Dedup Proofs.PipelineProofs Proofs.ResolveProofs Proofs.BytesProofs Proofs.SegBytesProofs.
Open Scope N_scope.

(* the record finalize emits: hash = file hash, one verification entry per segment, entry i = range hash of the fed chunk
   hashes that segment i covers, SHA-256 metadata as supplied, flags consistent with the parts present *)
Theorem C02_record_shape : forall f salt sha,
  let '(fh, a, m, nx) := fd_finalize f salt sha in
  match a_files a with
  | [(fi, iref)] =>
      fi_hash fi = fh /\ fi_segs fi = f_info f /\ length (fi_verif fi) = length (fi_segs fi) /\
      fi_verif fi = map range_hash_from_chunks (seg_slices (f_info f) (map fst (rev (f_hashes f)))) /\
      fi_ext fi = sha /\ has_verif (fi_flags fi) = true /\ has_ext (fi_flags fi) = (match sha with Some _ => true | None => false end) /\
      iref = f_iref f /\ a_chunks a = f_new f
  | _ => False
  end.
Proof. exact finalize_record_shape. Qed.

(* xorbs are named by the aggregate hash of their chunk list and carry cumulative offsets (RawXorbData::from_chunks) *)
Theorem C02_xorb_named_by_hash : forall chs, ci_hash (raw_xorb chs) = xorb_hash_of chs /\ ci_nbytes (raw_xorb chs) = sum_lens chs /\
  length (ci_chunks (raw_xorb chs)) = length chs.
Proof. intros chs. repeat split. apply cas_entries_length. Qed.

(* the SHA-256 of an empty file is the digest of the empty input (fact regenerated from ShaGenerator::finalize) *)
Example C02_sha_of_empty_is_not_zero : sha_of_empty_input_is_zero = false.
Proof. reflexivity. Qed.
(* every file record of the session shard references existing xorbs with in-range chunk indices: a record that resolves
   (C01_session_records_resolve, restated here) names, segment by segment, a xorb of the store and a range inside it *)
Theorem C02_records_reference_existing_ranges : forall F segs cs, resolve_file F segs = Some cs ->
  forall s, In s segs -> exists x, st_find F (sg_cas s) = Some x /\ sg_start s <= sg_end s /\ sg_end s <= N.of_nat (length (chunks_of x)).
Proof. exact resolved_segments_in_range. Qed.
Theorem C02_session_records_resolve : forall F U, StoreOk F U -> forall rc cf ops, Forall (op_ok F U) ops ->
  (forall x, In x (s_uploaded (srun rc cf ops)) -> In x F) ->
  DoneAll F (s_shard_files (srun rc cf ops)) (ghosts ops).
Proof. intros F U H rc cf ops Hok Hup. exact (proj1 (proj2 (session_resolves F U H rc cf ops Hok Hup))). Qed.
(* the byte count recorded in every segment is, modulo 2^32 (the field is a u32), the summed length of the chunks the
   segment resolves to: for a whole file fed in any number of blocks, under StoreOk, truthful tables and xorbs below 4 GiB;
   merge_in and the aggregator's finalize never touch a byte count *)
Theorem C02_segment_bytes : forall F U, StoreOk F U -> forall cf ext R blocks,
  TableOk F ext -> TableSmall ext -> (forall x, In x F -> sum_lens (chunks_of x) < 4294967296) ->
  (forall b c, In b blocks -> In c b -> In c U) ->
  (forall x, In x (f_registered (feed_blocks dedup_booked_before_decision cf ext (fd_with_registered R) blocks)) -> In x F) ->
  BInv F (feed_blocks dedup_booked_before_decision cf ext (fd_with_registered R) blocks).
Proof. exact file_segment_bytes. Qed.
Theorem C02_later_stages_keep_byte_counts : forall l k idx iref h,
  map sg_bytes (shift_segs l k) = map sg_bytes l /\ map sg_bytes (patch_segs l idx iref h) = map sg_bytes l.
Proof. intros. split; [apply shift_segs_bytes | apply patch_segs_bytes]. Qed.

Print Assumptions C02_record_shape.
Print Assumptions C02_records_reference_existing_ranges.
Print Assumptions C02_session_records_resolve.
Print Assumptions C02_segment_bytes.
